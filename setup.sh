#!/bin/sh
# Build the framework from files on disk only (offline): regenerate the Lean models from
# /repo's working tree and compile every proof module once, so that the per-property
# checks are incremental afterwards.
cd "$(dirname "$0")" || exit 2
set -e
/venv/bin/python tools/extract/gen.py > work_setup_gen.log 2>&1 || { cat work_setup_gen.log; exit 2; }
mkdir -p work && mv work_setup_gen.log work/setup_gen.log
cd lean
# generated modules first (wide parallelism), then the proofs; a failing proof module must not
# fail the setup: the check of that property reports it.
lake build Cas.Real Driver.Run $(ls Gen/*.lean | sed 's/\.lean$//; s/\//./g') $(ls GenM/*.lean | sed 's/\.lean$//; s/\//./g') || exit 2
for p in $(ls Props/*.lean | sed 's/\.lean$//; s/\//./g'); do
  lake build "$p" > ../work/setup_$p.log 2>&1 || echo "setup: $p does not build (reported by its check)"
done
exit 0
