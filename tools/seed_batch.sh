#!/bin/sh
# seed_batch.sh <list file>: run the quick check of each listed seeded change against a PRIVATE copy of the repository
# (CYECCA_REPO), so that /repo itself is never modified.  Lines of the list:  <property id> <directory with patch.diff>
# Used from `vp run --with-repo` (the copy is $VP_RUN_REPO) after ./setup.sh has been run against the same copy.
# Output: one summary line per seed on stdout, the full check log in <dir>/check_<pid>.log
LIST=$1
R=${CYECCA_REPO:-$VP_RUN_REPO}
[ -d "$R" ] || { echo "no repository copy"; exit 2; }
[ "$R" = "/repo" ] && { echo "refusing to patch /repo"; exit 2; }
export CYECCA_REPO=$R
cd "$(dirname "$0")/.." || exit 2
while read PID DIR; do
  [ -z "$PID" ] && continue
  (cd $R && git apply $DIR/patch.diff) || { echo "$DIR: patch does not apply"; continue; }
  VERIF_EVIDENCE_DIR=$PWD/work/evidence_seed ./check $PID --tier quick > $DIR/check_$PID.log 2>&1; rc=$?
  (cd $R && git checkout -q -- .)
  echo "$DIR $PID exit=$rc $(grep -c VIOLATION $DIR/check_$PID.log) violation-lines: $(grep VIOLATION $DIR/check_$PID.log | head -1 | cut -c1-200)"
done < $LIST
