#!/usr/bin/env python3
"""search_only.py <pid> [tier]: run only the failing-input search of a property against CYECCA_REPO (default /repo).
Development helper (used to try a strengthened search against a seeded change applied to a private copy); not a check."""
import importlib, json, os, sys
HERE = os.path.dirname(os.path.abspath(__file__))
sys.path.insert(0, os.path.join(HERE, "..", "harness"))
sys.path.insert(0, os.environ.get("CYECCA_REPO", "/repo"))
import check as ck   # noqa: E402
pid = sys.argv[1]; tier = sys.argv[2] if len(sys.argv) > 2 else "quick"
P = importlib.import_module("props." + pid)
ctx = ck.Ctx(pid, tier, int(os.environ.get("VERIF_SEED", "0")))
found, stats = P.search(ctx)
for f in found:
    print("FOUND", f["case"], "|", f["what"][:140], "| err", f.get("error"))
print("stats", json.dumps({k: v for k, v in stats.items() if k in ("evaluations", "distinct_nontrivial")}), "found", len(found))
