#!/usr/bin/env python3
"""seed_keep.py <pid> <i> <caught-by text>: copy a confirmed seeded change to /verif/seeded/<pid>-m<i>/"""
import json, os, shutil, sys
pid, i, caught = sys.argv[1], sys.argv[2], sys.argv[3]
src = "/tmp/wt_out/%s/m%s" % (pid, i)
dst = "/verif/seeded/%s-m%s" % (pid, i)
os.makedirs(dst, exist_ok=True)
for f in ("patch.diff", "demo.py"):
    shutil.copy(os.path.join(src, f), os.path.join(dst, f))
meta = json.load(open(os.path.join(src, "meta.json")))
def rd(n):
    try: return open(os.path.join(src, n)).read().strip()[-300:]
    except OSError: return None
meta.update({"confirmed": {"demo_exit_clean_tree": 0, "demo_exit_with_change": 1,
                           "tests_with_change": rd("tests_mut.log"),
                           "ran": "tools/seed_confirm.sh (scratch worktree: demo clean/mutated, full pytest minus the 2 always-failing tests); tools/seed_check.sh (git -C /repo apply; ./check %s; git checkout -- .)" % pid},
             "detected_by": caught, "check_log_tail": rd("check_%s.log" % pid)})
json.dump(meta, open(os.path.join(dst, "meta.json"), "w"), indent=1)
print(dst)
