#!/bin/sh
# seed_confirm.sh <worktree> <mutation dir>: confirm a seeded change independently in a scratch worktree:
#   tests pass with it; demo fails with it and passes without it.  Prints one summary line.
WT=$1; M=$2
git -C $WT checkout -q -- . || exit 2
PYTHONPATH=$WT /venv/bin/python $M/demo.py > $M/demo_clean.log 2>&1; c0=$?
git -C $WT apply $M/patch.diff || { echo "$M: patch does not apply"; exit 2; }
PYTHONPATH=$WT /venv/bin/python $M/demo.py > $M/demo_mut.log 2>&1; c1=$?
(cd $WT && PYTHONPATH=$WT /venv/bin/python -m pytest -q -p no:cacheprovider --timeout=900 --deselect tests/estimate/attitude/test_attitude.py::Test_Attitude::test_generate_code --deselect tests/estimate/attitude/test_attitude.py::Test_Attitude::test_replay 2>&1 | grep -E "[0-9]+ (passed|failed)" | tail -1 > $M/tests_mut.log)
git -C $WT checkout -q -- .
echo "$M: demo_clean_exit=$c0 demo_mut_exit=$c1 tests: $(tail -1 $M/tests_mut.log)"
