"""
Regenerate Lean models from /repo's working tree.

    /venv/bin/python tools/extract/gen.py [Module ...]

writes lean/Gen/<Module>.lean (core Lean: translated definitions + Float runner),
lean/GenM/<Module>.lean (Mathlib packaging of vectors / matrices),
work/ir/<Module>.json (IR; also used by the failing-input search) and
work/extract/<Module>.json (what was extracted, what raised).
Files are rewritten only when their content changes, so Lake rebuilds exactly what
the source change touched.
"""
from __future__ import annotations

import json
import os
import sys
import time
import traceback

HERE = os.path.dirname(os.path.abspath(__file__))
VERIF = os.path.dirname(os.path.dirname(HERE))
REPO = os.environ.get("CYECCA_REPO", "/repo")
sys.path.insert(0, REPO)
sys.path.insert(0, HERE)

import core  # noqa: E402


def write_if_changed(path: str, text: str) -> bool:
    os.makedirs(os.path.dirname(path), exist_ok=True)
    try:
        with open(path) as fh:
            if fh.read() == text:
                return False
    except FileNotFoundError:
        pass
    tmp = path + ".tmp%d" % os.getpid()
    with open(tmp, "w") as fh:
        fh.write(text)
    os.replace(tmp, path)
    return True


def generate(modname: str, specs, imports=()):
    irs, errors = [], {}
    for sp in specs:
        try:
            irs.append(core.extract(sp))
        except NotImplementedError as e:
            errors[sp.name] = {"kind": "NotImplementedError", "msg": str(e)}
        except Exception as e:  # an entry point that raises is itself a finding
            errors[sp.name] = {"kind": type(e).__name__, "msg": str(e),
                               "trace": traceback.format_exc().splitlines()[-6:]}
    text = core.HEADER
    text += "import Cas.Num\nimport Cas.Attr\n"
    for i in imports:
        text += "import Gen.%s\n" % i
    text += "set_option maxRecDepth 1000000\nset_option linter.unusedVariables false\n\n"
    for ir in irs:
        if ir.get("series"):
            text += core.emit_series(ir) + "\n"
        else:
            text += core.emit_function(ir) + "\n" + core.emit_runner(ir) + "\n"
    # dispatch table for the driver
    text += "def Gen.%s.dispatch : List (String × (Array Float → Array Float)) := [\n" % modname
    text += ",\n".join('  ("%s", Gen.%s.run)' % (ir["name"], ir["name"]) for ir in irs)
    text += "]\n"
    wtext = core.HEADER + "import Cas.Real\nimport Gen.%s\n" % modname
    wtext += "set_option linter.unusedVariables false\n\n"
    for ir in irs:
        if not ir.get("series"):
            wtext += core.emit_wrappers(ir) + "\n"
    ch1 = write_if_changed(os.path.join(VERIF, "lean", "Gen", modname + ".lean"), text)
    ch2 = write_if_changed(os.path.join(VERIF, "lean", "GenM", modname + ".lean"), wtext)
    write_if_changed(os.path.join(VERIF, "work", "ir", modname + ".json"), json.dumps(irs))
    summary = {
        "module": modname,
        "functions": {ir["name"]: {"nodes": len(ir["nodes"]), "hash": core.ir_hash(ir),
                                   "inputs": ir["inputs"],
                                   "outputs": [{"name": o["name"], "shape": o["shape"]} for o in ir["outputs"]]}
                      for ir in irs},
        "errors": errors,
        "changed": bool(ch1 or ch2),
    }
    write_if_changed(os.path.join(VERIF, "work", "extract", modname + ".json"), json.dumps(summary, indent=1))
    return summary


def main(argv):
    import catalog
    want = argv[1:] or list(catalog.MODULES.keys())
    t0 = time.time()
    out = {}
    for m in want:
        specs_fn, imports = catalog.MODULES[m]
        try:
            specs = specs_fn()
            cat_err = None
        except Exception as e:   # noqa: BLE001 -- the catalog itself no longer fits the code (e.g. an expression gained a dependency):
            specs = []           # not fatal: recorded, the Lean modules lose their definitions and the obligations break
            cat_err = {"kind": "CatalogError", "msg": "%s: %s" % (type(e).__name__, str(e)[:400]),
                       "trace": traceback.format_exc().splitlines()[-6:]}
        s = generate(m, specs, imports)
        if cat_err:
            s["errors"][m + ".catalog"] = cat_err
            write_if_changed(os.path.join(VERIF, "work", "extract", m + ".json"), json.dumps(s, indent=1))
        out[m] = s
        print("gen %-10s functions=%d errors=%d changed=%s" % (m, len(s["functions"]), len(s["errors"]), s["changed"]))
        for k, e in s["errors"].items():
            if e["kind"] != "NotImplementedError":
                print("   RAISES %s: %s: %s" % (k, e["kind"], e["msg"][:100]))
    print("gen done in %.1fs" % (time.time() - t0))
    return 0


if __name__ == "__main__":
    sys.exit(main(sys.argv))
