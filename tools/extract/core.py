"""
Translator core: CasADi SX program  ->  IR  ->  Lean 4 definitions.

The model is *regenerated from /repo's working tree on every run*: catalog entries
call the real cyecca API on fresh SX symbols, the resulting expression DAG is
walked through casadi.Function's instruction interface and printed as Lean.

Nothing here knows about any particular property.
"""
from __future__ import annotations

import contextlib
import hashlib
import json
import math
import struct
import sys
from dataclasses import dataclass, field
from typing import Callable, Dict, List, Optional, Sequence, Tuple

import casadi as ca

OPNAMES = {getattr(ca, n): n[3:] for n in dir(ca) if n.startswith("OP_")}

# casadi opcode -> (CasNum field, arity)
UNARY = {
    ca.OP_NEG: "neg", ca.OP_SQ: "sq", ca.OP_TWICE: "twice", ca.OP_INV: "inv",
    ca.OP_SQRT: "sqrt", ca.OP_SIN: "sin", ca.OP_COS: "cos", ca.OP_TAN: "tan",
    ca.OP_ASIN: "asin", ca.OP_ACOS: "acos", ca.OP_ATAN: "atan", ca.OP_EXP: "exp",
    ca.OP_LOG: "log", ca.OP_FABS: "fabs", ca.OP_SIGN: "sign", ca.OP_FLOOR: "floor",
    ca.OP_CEIL: "ceil", ca.OP_NOT: "not",
}
BINARY = {
    ca.OP_ADD: "add", ca.OP_SUB: "sub", ca.OP_MUL: "mul", ca.OP_DIV: "div",
    ca.OP_POW: "pow", ca.OP_CONSTPOW: "pow", ca.OP_ATAN2: "atan2", ca.OP_FMIN: "fmin",
    ca.OP_FMAX: "fmax", ca.OP_FMOD: "fmod", ca.OP_REMAINDER: "remainder",
    ca.OP_LT: "lt", ca.OP_LE: "le", ca.OP_EQ: "eq", ca.OP_NE: "ne", ca.OP_AND: "and",
    ca.OP_OR: "or", ca.OP_IF_ELSE_ZERO: "ifz",
}

# ----------------------------------------------------------------------------
# series call patching ("calls stay calls")
# ----------------------------------------------------------------------------

SERIES_IDENT = {
    "cos(x)": "cos_x",
    "sin(x)/x": "sin_x_over_x",
    "x/sin(x)": "x_over_sin_x",
    "(1 - cos(x))/x": "one_minus_cos_over_x",
    "(1 - cos(x))/x^2": "one_minus_cos_over_x2",
    "(x - sin(x))/x^3": "x_minus_sin_over_x3",
    "(1 - x*sin(x)/(2*(1 - cos(x))))/x^2": "vinv_coeff",
    "(-x^2/2 - cos(x) + 1)/x^2": "neg_half_x2_minus_cos_plus_one_over_x2",
    "(x^2/2 + cos(x) - 1)/x^4": "half_x2_plus_cos_minus_one_over_x4",
    "1/x^2": "one_over_x2",
    "(2 - x cos(x))/(2 x^2)": "two_minus_x_cos_over_2x2",
    "1/x^2 + sin(x)/(2 x (cos(x) - 1))": "jinv_coeff",
    "(x^2 + 2 cos(x) - 2)/(2 x^4)": "q_c2",
    "(x cos(x) + 2 x - 3 sin(x))/(2 x^5)": "q_c3",
    "(x^2 + x sin(x) + 4 cos(x) - 4)/(2 x^6)": "q_c4",
    "(2 - 2 cos(x) - x sin(x))/(2 x^4))": "q_c5",
    "tan(x/4)/x": "tan_quarter_over_x",
    "4 atan(x)/x": "four_atan_over_x",
}


class _SeriesProxy:
    """Stands in for one entry of cyecca.symbolic.SERIES / SQUARED_SERIES while a
    catalog entry is being extracted.  Calling it returns a fresh symbol and
    remembers the argument expression."""

    def __init__(self, table: str, key: str, log: list):
        self.table, self.key, self.log = table, key, log

    def __call__(self, arg):
        arg = ca.SX(arg)
        assert arg.shape == (1, 1), "series called with non-scalar"
        s = ca.SX.sym("__call%d" % len(self.log))
        self.log.append((s, self.table, self.key, arg))
        return s


@contextlib.contextmanager
def patched_series(log: list):
    import cyecca.symbolic as sym
    saved = (dict(sym.SERIES), dict(sym.SQUARED_SERIES))
    try:
        for k in list(sym.SERIES.keys()):
            sym.SERIES[k] = _SeriesProxy("Series", k, log)
        for k in list(sym.SQUARED_SERIES.keys()):
            sym.SQUARED_SERIES[k] = _SeriesProxy("SqSeries", k, log)
        yield
    finally:
        sym.SERIES.clear(); sym.SERIES.update(saved[0])
        sym.SQUARED_SERIES.clear(); sym.SQUARED_SERIES.update(saved[1])


ACTIVE_LOG = None   # the series-call log of the extraction in progress (set by `extract`)


def _symnames(exprs):
    if not exprs:
        return set()
    return set(v.name() for v in ca.symvar(ca.vertcat(*[ca.vec(ca.SX(e)) for e in exprs])))


def _reachable_calls(log, exprs):
    """indices of log entries whose placeholder occurs in `exprs`, transitively through call arguments"""
    names = _symnames(exprs)
    sel = set()
    changed = True
    while changed:
        changed = False
        for k, (sym, _, _, arg) in enumerate(log):
            if k not in sel and sym.name() in names:
                sel.add(k); changed = True
                names |= _symnames([arg])
    return sorted(sel)


class FakeFunction:
    """Stand-in for casadi.Function while a catalog entry is extracted with SERIES calls kept as calls:
    the real constructor rejects expressions containing the call placeholders (free symbols), so the
    wrapper keeps (inputs, outputs) and evaluates by substitution; every evaluation clones the series
    calls made inside the function body with the substituted arguments.  Only the subset of the API
    that cyecca's derive_* functions and the catalog use is provided."""

    def __init__(self, name, ins, outs, *rest):
        self._name = name
        self._ins = [ca.SX(i) for i in ins]
        self._outs = [ca.SX(o) for o in outs]
        names = [r for r in rest if isinstance(r, (list, tuple))]
        self._in_names = list(names[0]) if len(names) > 0 else ["i%d" % k for k in range(len(ins))]
        self._out_names = list(names[1]) if len(names) > 1 else ["o%d" % k for k in range(len(outs))]
        self._calls = _reachable_calls(ACTIVE_LOG, self._outs) if ACTIVE_LOG is not None else []

    def name(self): return self._name
    def n_in(self): return len(self._ins)
    def n_out(self): return len(self._outs)
    def name_in(self, i): return self._in_names[i]
    def name_out(self, i): return self._out_names[i]
    def size_in(self, i): return self._ins[i].shape
    def size_out(self, i): return self._outs[i].shape

    def call(self, args):
        args = [ca.SX(a) for a in args]
        # like the real casadi.Function: a scalar argument is broadcast over a non-scalar input
        args = [ca.repmat(a, *i.shape) if a.shape == (1, 1) and i.shape != (1, 1) else a for a, i in zip(args, self._ins)]
        args = [ca.reshape(a, i.shape) if a.shape != i.shape else a for a, i in zip(args, self._ins)]
        # like the real casadi.Function: an argument is projected onto the declared input sparsity
        args = [ca.project(a, i.sparsity()) if a.sparsity() != i.sparsity() else a for a, i in zip(args, self._ins)]
        olds, news = [], []
        log = ACTIVE_LOG
        for k in self._calls:
            sym, table, key, arg = log[k]
            new_arg = ca.substitute([arg], self._ins + olds, args + news)[0]
            new_sym = ca.SX.sym("__call%d" % len(log))
            log.append((new_sym, table, key, new_arg))
            olds.append(sym); news.append(new_sym)
        return ca.substitute(self._outs, self._ins + olds, args + news)

    def __call__(self, *args):
        res = self.call(list(args))
        return res[0] if len(res) == 1 else tuple(res)


@contextlib.contextmanager
def patched_function():
    real = ca.Function
    ca.Function = FakeFunction
    try:
        yield
    finally:
        ca.Function = real


def series_ident(key: str) -> str:
    if key in SERIES_IDENT:
        return SERIES_IDENT[key]
    return "k_" + hashlib.sha1(key.encode()).hexdigest()[:8]


# ----------------------------------------------------------------------------
# Spec / IR
# ----------------------------------------------------------------------------

@dataclass
class Spec:
    """One function of the catalog.
    name   : Lean-qualified name below `Gen.` (e.g. "SO3Quat.product")
    inputs : [(argname, (rows, cols))]
    build  : callable(*SX) -> [(outname, SX)]   -- runs the REAL cyecca code
    calls  : keep SERIES calls as calls (True) or inline them (False)
    scalar : emit one scalar def per output element (True) or only `all`
    """
    name: str
    inputs: List[Tuple[str, Tuple[int, int]]]
    build: Callable
    calls: bool = True
    scalar: bool = True
    doc: str = ""
    domain: Optional[Callable] = None   # rng -> list of flat input vectors (numpy) for the tie
    series: Optional[Tuple[str, str]] = None   # (table, key): this spec IS a SERIES entry
    cuts: Sequence[str] = ()   # names of outputs that are cut points for the other outputs ("peeling")
    only: Sequence[str] = ()   # when non-empty: scalar defs only for these outputs (the runner then uses `all`)
    selects: bool = False      # emit the if_else decomposition (cond / then / else defs) of outputs that are selections
    nested: bool = False       # cut outputs get `_cut` versions too (in terms of the OTHER cut outputs)


def dyadic(x: float) -> Tuple[int, int]:
    """exact (m, e) with x = m * 2**e, m odd or 0"""
    if x == 0:
        return (0, 0)
    m, e = math.frexp(x)
    m = int(m * (1 << 53)); e -= 53
    while m % 2 == 0:
        m //= 2; e += 1
    return (m, e)


def _walk(f: ca.Function):
    """ca.Function (SX) -> (nodes, out_elems)
    nodes: list of dicts {op, args(node ids), ...}; SSA (one node per instruction)
    out_elems[o][nz] = node id
    """
    work: Dict[int, int] = {}
    nodes: List[dict] = []
    outs: Dict[Tuple[int, int], int] = {}
    for k in range(f.n_instructions()):
        op = f.instruction_id(k)
        ii = f.instruction_input(k)
        oo = f.instruction_output(k)
        if op == ca.OP_INPUT:
            nodes.append({"op": "input", "arg": ii[0], "nz": ii[1]})
            work[oo[0]] = len(nodes) - 1
        elif op == ca.OP_OUTPUT:
            outs[(oo[0], oo[1])] = work[ii[0]]
        elif op == ca.OP_CONST:
            nodes.append({"op": "const", "value": float(f.instruction_constant(k))})
            work[oo[0]] = len(nodes) - 1
        elif op in UNARY:
            nodes.append({"op": UNARY[op], "args": [work[ii[0]]]})
            work[oo[0]] = len(nodes) - 1
        elif op in BINARY:
            nodes.append({"op": BINARY[op], "args": [work[ii[0]], work[ii[1]]]})
            work[oo[0]] = len(nodes) - 1
        else:
            raise NotImplementedError("opcode %s in %s" % (OPNAMES.get(op, op), f.name()))
    return nodes, outs


def extract(spec: Spec) -> dict:
    """Run the real code on symbols and return the IR of `spec`."""
    syms = []
    for nm, (r, c) in spec.inputs:
        syms.append(ca.SX.sym(nm, r, c))
    global ACTIVE_LOG
    log: list = []
    if spec.calls:
        ACTIVE_LOG = log
        try:
            with patched_series(log), patched_function():
                outs = spec.build(*syms)
        finally:
            ACTIVE_LOG = None
    else:
        outs = spec.build(*syms)
    outs = [(n, ca.SX(e)) for n, e in outs]
    # keep only the series calls the outputs actually depend on (others belong to function bodies
    # that were cloned at their call sites and still mention the callee's private symbols)
    log = [log[k] for k in _reachable_calls(log, [e for _, e in outs])]
    call_syms = [s for (s, _, _, _) in log]
    call_args = [a for (_, _, _, a) in log]
    f = ca.Function("f", syms + call_syms, [e for _, e in outs] + call_args)   # the real constructor again
    nodes, outmap = _walk(f)
    n_in = len(syms)
    # rewrite call-symbol inputs into call nodes
    n_out = len(outs)
    for nd in nodes:
        if nd["op"] == "input" and nd["arg"] >= n_in:
            k = nd["arg"] - n_in
            argnode = outmap.get((n_out + k, 0))
            nd.clear()
            if argnode is None:
                # structurally-zero argument
                nd.update({"op": "call", "table": log[k][1], "key": log[k][2], "args": [], "zeroarg": True})
            else:
                nd.update({"op": "call", "table": log[k][1], "key": log[k][2], "args": [argnode]})
    ir_outs = []
    for oi, (nm, e) in enumerate(outs):
        r, c = e.shape
        sp = f.sparsity_out(oi)
        rows, cols = sp.get_triplet()
        elems = [[None] * c for _ in range(r)]
        for nz, (i, j) in enumerate(zip(rows, cols)):
            elems[i][j] = outmap[(oi, nz)]
        ir_outs.append({"name": nm, "shape": [r, c], "elems": elems})
    ir = {
        "name": spec.name,
        "doc": spec.doc,
        "inputs": [{"name": n, "shape": list(s)} for n, s in spec.inputs],
        "outputs": ir_outs,
        "nodes": nodes,
        "scalar": spec.scalar,
    }
    if spec.series:
        ir["series"] = list(spec.series)
    if spec.cuts:
        ir["cuts"] = list(spec.cuts)
    if spec.only:
        ir["only"] = list(spec.only)
    if spec.selects:
        ir["selects"] = True
    if spec.nested:
        ir["nested"] = True
    # input nz -> (row, col): inputs are dense symbols, column-major
    return ir


def numeric_function(spec: Spec) -> ca.Function:
    """The real, un-patched casadi Function for the tie."""
    syms = [ca.SX.sym(nm, r, c) for nm, (r, c) in spec.inputs]
    outs = spec.build(*syms)
    return ca.Function("g", syms, [ca.densify(ca.SX(e)) for _, e in outs])


# ----------------------------------------------------------------------------
# Lean emission
# ----------------------------------------------------------------------------

def lean_int(n: int) -> str:
    return "(%d)" % n if n < 0 else "%d" % n


def const_expr(x: float) -> str:
    if math.isnan(x):
        return "CasNum.nonFinite 0"
    if math.isinf(x):
        return "CasNum.nonFinite %s" % lean_int(1 if x > 0 else -1)
    if x == int(x) and abs(x) < 2 ** 53:
        return "CasNum.ofInt %s" % lean_int(int(x))
    m, e = dyadic(x)
    return "CasNum.ofDyadic %s %s" % (lean_int(m), lean_int(e))


def arg_type(shape) -> str:
    r, c = shape
    if (r, c) == (1, 1):
        return "α"
    if c == 1:
        return "Fin %d → α" % r
    return "Fin %d → Fin %d → α" % (r, c)


def input_ref(inp: dict, nz: int) -> str:
    r, c = inp["shape"]
    if (r, c) == (1, 1):
        return inp["name"]
    if c == 1:
        return "%s %d" % (inp["name"], nz)
    return "%s %d %d" % (inp["name"], nz % r, nz // r)   # column-major


def _slice(nodes, roots):
    need = set()
    stack = list(roots)
    while stack:
        n = stack.pop()
        if n in need:
            continue
        need.add(n)
        stack.extend(nodes[n].get("args", []))
    return sorted(need)   # SSA order of _walk is NOT topological for call nodes -> fix below


def _topo(nodes, roots, stop=()):
    order, seen = [], set()
    sys.setrecursionlimit(100000)
    def visit(n):
        if n in seen:
            return
        seen.add(n)
        if n not in stop:
            for a in nodes[n].get("args", []):
                visit(a)
        order.append(n)
    for r in roots:
        visit(r)
    return order


def node_rhs(ir, n) -> str:
    nd = ir["nodes"][n]
    op = nd["op"]
    if op == "input":
        return input_ref(ir["inputs"][nd["arg"]], nd["nz"])
    if op == "const":
        return const_expr(nd["value"])
    if op == "call":
        a = "t%d" % nd["args"][0] if nd["args"] else "(CasNum.ofInt 0)"
        return "%s.%s %s" % (nd["table"], series_ident(nd["key"]), a)
    return "CasNum.%s %s" % (op, " ".join("t%d" % a for a in nd["args"]))


def binder(ir) -> str:
    return " ".join("(%s : %s)" % (i["name"], arg_type(i["shape"])) for i in ir["inputs"])


def argnames(ir) -> str:
    return " ".join(i["name"] for i in ir["inputs"])


def elem_name(out, i, j) -> str:
    r, c = out["shape"]
    if (r, c) == (1, 1):
        return out["name"]
    if c == 1:
        return "%s_%d" % (out["name"], i)
    return "%s_%d_%d" % (out["name"], i, j)


def cut_binders(ir, allowed=None):
    """(node id -> binder name, binder text) for the cut outputs of `ir`.
    Plain mode: a node shared by several cut outputs is bound to the first one.  Nested mode (`allowed` = the names of the
    cut outputs a consumer may see, in the order of ir["cuts"]): a shared node is bound to the LAST allowed one, i.e. the cut
    closest to the consumer."""
    cutmap, names = {}, []
    nested = allowed is not None
    order = {nm: k for k, nm in enumerate(ir.get("cuts", []))}
    outs = [o for o in ir["outputs"] if o["name"] in ir.get("cuts", [])]
    for out in outs:
        r, c = out["shape"]
        for j in range(c):
            for i in range(r):
                names.append("c_" + elem_name(out, i, j))
    if nested:
        outs = sorted([o for o in outs if o["name"] in allowed], key=lambda o: order[o["name"]])
    for out in outs:
        r, c = out["shape"]
        for j in range(c):
            for i in range(r):
                nm = "c_" + elem_name(out, i, j)
                n = out["elems"][i][j]
                if n is not None and ir["nodes"][n]["op"] not in ("const", "input") and (nested or n not in cutmap):
                    cutmap[n] = nm
                    # CasADi hoists negations ((-x)*y -> -(x*y)), so consumers may use the operand of a
                    # negated cut output directly: x = -(-x) exactly, in floats and in ℝ
                    nd = ir["nodes"][n]
                    if nd["op"] == "neg":
                        a = nd["args"][0]
                        if ir["nodes"][a]["op"] not in ("const", "input") and (nested or a not in cutmap):
                            cutmap[a] = "(CasNum.neg %s)" % nm
    return cutmap, "(%s : α)" % " ".join(names)


def cutmap_for(ir, out, cutmap):
    """the cut map seen from output `out`.  Plain mode: `cutmap` for every non-cut output.  Nested mode: a cut output sees
    only the cut outputs listed BEFORE it in ir["cuts"]; other outputs see all of them (later ones take shared nodes)."""
    if not ir.get("nested"):
        return cutmap
    cuts = list(ir.get("cuts", []))
    allowed = cuts[:cuts.index(out["name"])] if out["name"] in cuts else cuts
    return cut_binders(ir, allowed)[0]


def cut_args(ir) -> str:
    """the cut outputs applied to the function's own arguments, in binder order"""
    a = argnames(ir)
    xs = []
    for out in ir["outputs"]:
        if out["name"] not in ir.get("cuts", []):
            continue
        r, c = out["shape"]
        for j in range(c):
            for i in range(r):
                xs.append("(%s %s)" % (elem_name(out, i, j), a))
    return " ".join(xs)


def select_parts(ir, root, cutmap=()):
    """(c, a, b) when node `root` is CasADi's if_else(c, a, b) = ifz(c, a) + ifz(not c, b); else None"""
    if root is None or root in cutmap:
        return None
    N = ir["nodes"]
    nd = N[root]
    if nd["op"] == "ifz" and nd["args"][0] not in cutmap:
        return nd["args"][0], nd["args"][1], None    # if_else(c, a, structural zero)
    if nd["op"] != "add":
        return None
    l, r = (N[k] for k in nd["args"])
    if nd["args"][0] in cutmap or nd["args"][1] in cutmap or l["op"] != "ifz" or r["op"] != "ifz":
        return None
    c, a = l["args"]; nc, b = r["args"]
    if nc in cutmap or N[nc]["op"] != "not" or N[nc]["args"][0] != c:
        return None
    return c, a, b


def _emit_chain(L, ir, name, binders, root, cutmap=None):
    L.append("@[cas_defs] def %s {α : Type} [CasNum α] %s : α :=" % (name, binders))
    if root is None:
        L.append("  CasNum.ofInt 0")
        return
    cutmap = cutmap or {}
    for n in _topo(ir["nodes"], [root], stop=cutmap):
        L.append("  let t%d : α := %s" % (n, cutmap[n] if n in cutmap else node_rhs(ir, n)))
    L.append("  t%d" % root)


def scalar_outputs(ir):
    return [o for o in ir["outputs"] if not ir.get("only") or o["name"] in ir["only"]]


def emit_function(ir) -> str:
    """Lean text for one function (core Lean only)."""
    L = []
    ns = "Gen." + ir["name"]
    L.append("namespace %s" % ns)
    if ir["doc"]:
        L.append("/- %s -/" % ir["doc"])
    b = binder(ir)
    if ir["scalar"]:
        for out in scalar_outputs(ir):
            r, c = out["shape"]
            for j in range(c):
                for i in range(r):
                    root = out["elems"][i][j]
                    _emit_chain(L, ir, elem_name(out, i, j), b, root)
                    sp = select_parts(ir, root) if ir.get("selects") else None
                    if sp:
                        for suffix, nd in zip(("__c", "__a", "__b"), sp):
                            if nd is not None:
                                _emit_chain(L, ir, elem_name(out, i, j) + suffix, b, nd)
    # peeled versions: outputs named in `cuts` become extra scalar arguments of the others
    if ir["scalar"] and ir.get("cuts"):
        cutmap, cb = cut_binders(ir)
        for out in scalar_outputs(ir):
            if out["name"] in ir["cuts"] and not ir.get("nested"):
                continue
            cm = cutmap_for(ir, out, cutmap)
            r, c = out["shape"]
            for j in range(c):
                for i in range(r):
                    root = out["elems"][i][j]
                    _emit_chain(L, ir, elem_name(out, i, j) + "_cut", b + " " + cb, root, cm)
                    sp = select_parts(ir, root, cm) if ir.get("selects") else None
                    if sp:
                        for suffix, nd in zip(("_cut__c", "_cut__a", "_cut__b"), sp):
                            if nd is not None:
                                _emit_chain(L, ir, elem_name(out, i, j) + suffix, b + " " + cb, nd, cm)
    # `all`: every output element (column-major per output), one shared let-chain
    roots = []
    for out in ir["outputs"]:
        r, c = out["shape"]
        for j in range(c):
            for i in range(r):
                roots.append(out["elems"][i][j])
    L.append("def all {α : Type} [CasNum α] %s : Array α :=" % b)
    for n in _topo(ir["nodes"], [r for r in roots if r is not None]):
        L.append("  let t%d : α := %s" % (n, node_rhs(ir, n)))
    L.append("  #[%s]" % ", ".join(("t%d" % r) if r is not None else "CasNum.ofInt 0" for r in roots))
    L.append("end %s" % ns)
    return "\n".join(L) + "\n"


def emit_series(ir) -> str:
    """A SERIES / SQUARED_SERIES entry: `Gen.<Table>.<ident> (x : α) : α` + runner."""
    table, key = ir["series"]
    ident = series_ident(key)
    root = ir["outputs"][0]["elems"][0][0]
    L = ["namespace Gen.%s" % table,
         "/- %s[%r] -/" % ("SERIES" if table == "Series" else "SQUARED_SERIES", key),
         "@[cas_series] def %s {α : Type} [CasNum α] (x : α) : α :=" % ident]
    for n in _topo(ir["nodes"], [root]):
        L.append("  let t%d : α := %s" % (n, node_rhs(ir, n)))
    L.append("  t%d" % root)
    L.append("end Gen.%s" % table)
    L.append("def Gen.%s.run (x : Array Float) : Array Float :=\n  if x.size != 1 then #[] else #[Gen.%s.%s (α := Float) (x[0]!)]" % (ir["name"], table, ident))
    return "\n".join(L) + "\n"


def emit_runner(ir) -> str:
    """`run : Array Float → Array Float` (flat, column-major) for the driver."""
    ns = "Gen." + ir["name"]
    L = []
    off = 0
    args = []
    for inp in ir["inputs"]:
        r, c = inp["shape"]
        if (r, c) == (1, 1):
            args.append("(x[%d]!)" % off)
        elif c == 1:
            args.append("(fun i => x[%d + i.val]!)" % off)
        else:
            args.append("(fun i j => x[%d + i.val + %d * j.val]!)" % (off, r))
        off += r * c
    a = " ".join(args)
    if ir["scalar"] and not ir.get("only"):
        els = []
        for out in ir["outputs"]:
            r, c = out["shape"]
            for j in range(c):
                for i in range(r):
                    els.append("%s.%s (α := Float) %s" % (ns, elem_name(out, i, j), a))
        body = "#[%s]" % ",\n    ".join(els)
    else:
        body = "%s.all (α := Float) %s" % (ns, a)
    L.append("def %s.run (x : Array Float) : Array Float :=\n  if x.size != %d then #[] else\n  %s" % (ns, off, body))
    return "\n".join(L) + "\n"


def emit_wrappers(ir) -> str:
    """Mathlib-side packaging: vectors as `Fin n → α` via ![..], matrices via !![..]."""
    if not ir["scalar"]:
        return ""
    ns = "Gen." + ir["name"]
    L = ["namespace %s" % ns]
    b = binder(ir)
    a = argnames(ir)
    for out in scalar_outputs(ir):
        r, c = out["shape"]
        nm = out["name"]
        if (r, c) == (1, 1):
            continue
        if c == 1:
            L.append("@[cas_defs] def %s_vec {α : Type} [CasNum α] %s : Fin %d → α :=\n  ![%s]" % (
                nm, b, r, ", ".join("%s %s" % (elem_name(out, i, 0), a) for i in range(r))))
        else:
            rows = "; ".join(", ".join("%s %s" % (elem_name(out, i, j), a) for j in range(c)) for i in range(r))
            L.append("@[cas_defs] def %s_mat {α : Type} [CasNum α] %s : Matrix (Fin %d) (Fin %d) α :=\n  !![%s]" % (
                nm, b, r, c, rows))
    if ir.get("selects"):
        for out in scalar_outputs(ir):
            r, c = out["shape"]
            for j in range(c):
                for i in range(r):
                    en = elem_name(out, i, j)
                    sp = select_parts(ir, out["elems"][i][j])
                    if sp and sp[2] is None:
                        L.append("/-- `%s` is a selection against a structural zero: ifz(c, a) (definitional) -/" % en)
                        L.append("theorem %s_sel {α : Type} [CasNum α] %s :\n    %s %s = CasNum.ifz (%s__c %s) (%s__a %s) := rfl" % (
                            en, b, en, a, en, a, en, a))
                    elif sp:
                        L.append("/-- `%s` is a selection: ifz(c, a) + ifz(not c, b) (definitional) -/" % en)
                        L.append("theorem %s_sel {α : Type} [CasNum α] %s :\n    %s %s = CasNum.add (CasNum.ifz (%s__c %s) (%s__a %s)) (CasNum.ifz (CasNum.not (%s__c %s)) (%s__b %s)) := rfl" % (
                            en, b, en, a, en, a, en, a, en, a, en, a))
    if ir.get("cuts"):
        cutmap, _ = cut_binders(ir)
        negs = any(v.startswith("(CasNum.neg") for v in cutmap.values())
        breal = " ".join("(%s : %s)" % (i["name"], arg_type(i["shape"]).replace("α", "ℝ")) for i in ir["inputs"])
        for out in scalar_outputs(ir):
            if out["name"] in ir["cuts"] and not ir.get("nested"):
                continue
            cm = cutmap_for(ir, out, cutmap)
            r, c = out["shape"]
            for j in range(c):
                for i in range(r):
                    en = elem_name(out, i, j)
                    sp = select_parts(ir, out["elems"][i][j], cm) if ir.get("selects") else None
                    if sp and sp[2] is None:
                        _, cb = cut_binders(ir)
                        ca_ = " ".join(cb.strip("()").split(":")[0].split())
                        L.append("/-- `%s_cut` is a selection against a structural zero: ifz(c, a) (definitional) -/" % en)
                        L.append("theorem %s_cut_sel {α : Type} [CasNum α] %s %s :\n    %s_cut %s %s = CasNum.ifz (%s_cut__c %s %s) (%s_cut__a %s %s) := rfl" % (
                            en, b, cb, en, a, ca_, en, a, ca_, en, a, ca_))
                    elif sp:
                        _, cb = cut_binders(ir)
                        ca_ = " ".join(cb.strip("()").split(":")[0].split())
                        L.append("/-- `%s_cut` is a selection: ifz(c, a) + ifz(not c, b) (definitional) -/" % en)
                        L.append("theorem %s_cut_sel {α : Type} [CasNum α] %s %s :\n    %s_cut %s %s = CasNum.add (CasNum.ifz (%s_cut__c %s %s) (%s_cut__a %s %s)) (CasNum.ifz (CasNum.not (%s_cut__c %s %s)) (%s_cut__b %s %s)) := rfl" % (
                            en, b, cb, en, a, ca_, en, a, ca_, en, a, ca_, en, a, ca_, en, a, ca_))
                    if not any(v.startswith("(CasNum.neg") for v in cm.values()):
                        L.append("/-- peeling: `%s` is its cut version applied to the cut outputs (definitional) -/" % en)
                        L.append("theorem %s_cut_eq {α : Type} [CasNum α] %s :\n    %s %s = %s_cut %s %s := rfl" % (
                            en, b, en, a, en, a, cut_args(ir)))
                    else:
                        L.append("/-- peeling over ℝ: `%s` is its cut version applied to the cut outputs (a consumer uses the operand\n    of a negated cut output, so the identity needs -(-x) = x) -/" % en)
                        L.append("theorem %s_cut_eq %s :\n    %s %s = %s_cut %s %s := by\n  simp only [cas_defs, CasReal.neg_eq, neg_neg]" % (
                            en, breal, en, a, en, a, cut_args(ir)))
    L.append("end %s" % ns)
    return "\n".join(L) + "\n"


HEADER = "-- GENERATED by /verif/tools/extract from /repo's working tree. Do not edit.\n"


def emit_module(irs: Sequence[dict], imports: Sequence[str]) -> Tuple[str, str, str]:
    """(core module text, runner text, wrapper text)"""
    core = HEADER + "".join("import %s\n" % i for i in imports) + "set_option maxRecDepth 1000000\nset_option linter.unusedVariables false\n\n"
    for ir in irs:
        core += emit_function(ir) + "\n"
    return core


def ir_hash(ir) -> str:
    return hashlib.sha256(json.dumps(ir, sort_keys=True).encode()).hexdigest()[:16]
