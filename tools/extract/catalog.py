"""
Catalog: which real cyecca entry points are translated, grouped in Lean modules.
Every `build` below calls the real library from /repo on SX symbols.
"""
from __future__ import annotations

import casadi as ca

from core import Spec, series_ident

V = lambda n: (n, 1)


def series_specs():
    import cyecca.symbolic as sym
    out = []
    for table, d in (("Series", sym.SERIES), ("SqSeries", sym.SQUARED_SERIES)):
        for key in d.keys():
            f = d[key]
            out.append(Spec(name="%s.%s" % (table, series_ident(key)), inputs=[("x", (1, 1))],
                            build=(lambda x, f=f: [("y", f(x))]), calls=False, series=(table, key)))
    return out


# ------------------------------------------------------------------ Lie groups

def group_specs(prefix, G, alg=None, from_matrix=True, extra=()):
    """standard entry points of a group object G (+ its algebra)"""
    n = G.n_param
    alg = alg or G.algebra
    k = alg.n_param
    mr, mc = G.matrix_shape
    S = []
    S.append(Spec(prefix + ".product", [("a", V(n)), ("b", V(n))],
                  lambda a, b: [("r", (G.elem(a) * G.elem(b)).param)]))
    S.append(Spec(prefix + ".inverse", [("a", V(n))], lambda a: [("r", G.elem(a).inverse().param)]))
    S.append(Spec(prefix + ".identity", [], lambda: [("r", G.identity().param)]))
    S.append(Spec(prefix + ".toMatrix", [("a", V(n))], lambda a: [("M", G.elem(a).to_Matrix())]))
    if from_matrix:
        def fm(M):
            r = G.from_Matrix(M)
            return [("r", r.param)]
        S.append(Spec(prefix + ".fromMatrix", [("M", (mr, mc))], fm))
    S.append(Spec(prefix + ".exp", [("x", V(k))], lambda x: [("r", alg.elem(x).exp(G).param)]))
    S.append(Spec(prefix + ".log", [("a", V(n))], lambda a: [("r", G.elem(a).log().param)]))
    S.append(Spec(prefix + ".Ad", [("a", V(n))], lambda a: [("M", G.elem(a).Ad())]))
    S.extend(extra)
    return S


def algebra_specs(prefix, alg, jac=False, Q=False):
    k = alg.n_param
    S = []
    S.append(Spec(prefix + ".toMatrix", [("x", V(k))], lambda x: [("M", alg.elem(x).to_Matrix())]))
    S.append(Spec(prefix + ".ad", [("x", V(k))], lambda x: [("M", alg.elem(x).ad())]))
    S.append(Spec(prefix + ".bracket", [("x", V(k)), ("y", V(k))],
                  lambda x, y: [("r", (alg.elem(x) * alg.elem(y)).param)]))
    S.append(Spec(prefix + ".add", [("x", V(k)), ("y", V(k))],
                  lambda x, y: [("r", (alg.elem(x) + alg.elem(y)).param)]))
    S.append(Spec(prefix + ".smul", [("s", (1, 1)), ("x", V(k))],
                  lambda s, x: [("r", (s * alg.elem(x)).param)]))
    S.append(Spec(prefix + ".neg", [("x", V(k))], lambda x: [("r", (-alg.elem(x)).param)]))
    if jac:
        for nm in ("left_jacobian", "left_jacobian_inv", "right_jacobian", "right_jacobian_inv"):
            S.append(Spec(prefix + "." + nm, [("x", V(k))],
                          (lambda x, nm=nm: [("M", getattr(alg.elem(x), nm)())])))
    if Q:
        S.append(Spec(prefix + ".left_Q", [("x", V(k))], lambda x: [("M", alg.elem(x).left_Q())]))
        S.append(Spec(prefix + ".right_Q", [("x", V(k))], lambda x: [("M", alg.elem(x).right_Q())]))
    return S


def so2_specs():
    from cyecca.lie.group_so2 import so2, SO2
    return algebra_specs("so2", so2) + group_specs("SO2", SO2)


def se2_specs():
    from cyecca.lie.group_se2 import se2, SE2
    return algebra_specs("se2", se2) + group_specs("SE2", SE2)


def rn_specs():
    from cyecca.lie.group_rn import r2, R2, r3, R3
    return (algebra_specs("r2", r2) + group_specs("R2", R2)
            + algebra_specs("r3", r3) + group_specs("R3", R3))


def so3_specs():
    import cyecca.lie.group_so3 as g
    S = algebra_specs("so3", g.so3, jac=True)
    groups = [("SO3Quat", g.SO3Quat), ("SO3Mrp", g.SO3Mrp), ("SO3Dcm", g.SO3Dcm), ("SO3Euler", g.SO3EulerB321)]
    for nm, G in groups:
        S += group_specs(nm, G)
    # conversions: 12 ordered pairs
    short = {"SO3Quat": "Quat", "SO3Mrp": "Mrp", "SO3Dcm": "Dcm", "SO3Euler": "Euler"}
    for tn, T in groups:
        for sn, Sg in groups:
            if tn == sn:
                continue
            meth = "from_" + short[sn]
            S.append(Spec("%s.%s" % (tn, meth), [("a", V(Sg.n_param))],
                          (lambda a, T=T, Sg=Sg, meth=meth: [("r", getattr(T, meth)(Sg.elem(a)).param)])))
    def shadow(a):
        X = g.SO3Mrp.elem(a)
        g.SO3Mrp.shadow_if_necessary(X)
        return [("r", X.param)]
    S.append(Spec("SO3Mrp.shadow", [("a", V(3))], shadow))
    S.append(Spec("SO3Quat.left_jacobian", [("a", V(4))], lambda a: [("M", g.SO3Quat.elem(a).left_jacobian())]))
    S.append(Spec("SO3Quat.right_jacobian", [("a", V(4))], lambda a: [("M", g.SO3Quat.elem(a).right_jacobian())]))
    S.append(Spec("SO3Mrp.right_jacobian", [("a", V(3))], lambda a: [("M", g.SO3Mrp.elem(a).right_jacobian())]))
    return S


def se3_specs():
    import cyecca.lie.group_se3 as g
    S = algebra_specs("se3", g.se3, jac=True, Q=True)
    S += group_specs("SE3Quat", g.SE3Quat)
    S += group_specs("SE3Mrp", g.SE3Mrp)
    return S


def se23_specs():
    import cyecca.lie.group_se23 as g
    S = algebra_specs("se23", g.se23, jac=True)
    S += group_specs("SE23Quat", g.SE23Quat)
    S += group_specs("SE23Mrp", g.SE23Mrp)
    return S


def se23p_specs():
    """SE_2(3) exponentials with the 5x5 matrix handed to from_Matrix exposed (C02: exp is the matrix exponential)"""
    import cyecca.lie.group_se23 as g
    S = []
    for nm, G in (("SE23Quat", g.SE23Quat), ("SE23Mrp", g.SE23Mrp)):
        def mk(G=G, nm=nm):
            x = ca.SX.sym("x", 9)
            return ca.Function(nm + "_exp", [x], [g.se23.elem(x).exp(G).param], ["x"], ["r"])
        S.append(probed(nm + ".exp_p", mk, [(G, "from_Matrix", "arg", 0, "M")], cuts=("M",), only=("r", "M")))
    return S


def product_specs():
    from cyecca.lie.group_so2 import SO2
    from cyecca.lie.group_rn import R2, R3
    from cyecca.lie.group_so3 import SO3Mrp, SO3Dcm
    from cyecca.lie.group_se3 import SE3Quat
    S = []
    prods = [("P_MrpR3", SO3Mrp * R3), ("P_SO2R2", SO2 * R2),
             ("P_SE3QuatR3_Dcm", (SE3Quat * R3) * SO3Dcm), ("P_SE3Quat_R3Dcm", SE3Quat * (R3 * SO3Dcm))]
    for nm, G in prods:
        S += group_specs(nm, G)
        alg = G.algebra
        k = alg.n_param
        S.append(Spec(nm + "_alg.toMatrix", [("x", V(k))], (lambda x, alg=alg: [("M", alg.elem(x).to_Matrix())])))
        S.append(Spec(nm + "_alg.ad", [("x", V(k))], (lambda x, alg=alg: [("M", alg.elem(x).ad())])))
        S.append(Spec(nm + "_alg.bracket", [("x", V(k)), ("y", V(k))],
                      (lambda x, y, alg=alg: [("r", (alg.elem(x) * alg.elem(y)).param)])))
    return S


def fn_spec(name, f, cuts=(), calls=True, scalar=True, rename=None):
    """Spec from a casadi.Function built by the real code (inputs/outputs keep their names)"""
    ins = [(f.name_in(i), f.size_in(i)) for i in range(f.n_in())]
    outs = [f.name_out(i) for i in range(f.n_out())]
    def build(*args, f=f, outs=outs):
        res = f.call(list(args))
        return list(zip(outs, res))
    return Spec(name, [(n, tuple(s)) for n, s in ins], build, cuts=cuts, calls=calls, scalar=scalar)


def lazy_fn_spec(name, thunk, cuts=(), calls=True, scalar=True, only=(), selects=False, nested=False):
    """like fn_spec, but the casadi.Function is (re)built by `thunk` INSIDE the extraction, so that the
    SERIES calls it makes stay calls (patched tables are active while `build` runs)"""
    try:
        f0 = thunk()
    except Exception as e0:   # noqa: BLE001 -- the entry point (or a probe of it) fails: recorded per function by gen.py, not fatal
        def fail(e0=e0):
            raise e0
        return Spec(name, [], fail, cuts=cuts, calls=calls, scalar=scalar, only=only, selects=selects, nested=nested)
    ins = [(f0.name_in(i), tuple(f0.size_in(i))) for i in range(f0.n_in())]
    outs = [f0.name_out(i) for i in range(f0.n_out())]
    def build(*args):
        f = thunk()
        return list(zip(outs, f.call(list(args))))
    return Spec(name, ins, build, cuts=cuts, calls=calls, scalar=scalar, only=only, selects=selects, nested=nested)


class ProbeError(Exception):
    """an intermediate value that a proof is organised around is no longer produced by the body (a refactor, harmless or not)"""


def probed(name, maker, probes, cuts=(), selects=False, only=(), nested=True):
    """Variant of a function with some of its INTERMEDIATE values exposed as extra outputs (and usually declared as cut
    points): while the REAL body runs, each probe (owner, attr, what, index, outname) wraps the callable `owner.attr`; the
    wrapper calls the real one and remembers, for its `index`-th call, the argument (what = "arg") or `what(result)`.
    Nothing of the body is re-implemented: the extra outputs are the very SX expressions the library built, and every
    statement about the original outputs goes through the definitional `_cut_eq` lemmas."""
    import core
    def thunk():
        logs = {}
        saved = []
        def wrap(owner, attr, key):
            real = getattr(owner, attr)
            had = attr in getattr(owner, "__dict__", {})
            def w(*a, **k):
                res = real(*a, **k)
                logs.setdefault(key, []).append((a, res))
                return res
            setattr(owner, attr, w)
            saved.append((owner, attr, real, had))
        try:
            for (owner, attr, what, index, outname) in probes:
                if (id(owner), attr) not in [(id(o), a) for (o, a, _, _) in saved]:
                    wrap(owner, attr, (id(owner), attr))
            with core.patched_function():
                f = maker()
                extra, names = [], []
                for (owner, attr, what, index, outname) in probes:
                    calls = logs.get((id(owner), attr), [])
                    if len(calls) <= index:
                        raise ProbeError("probe %s.%s: call %d not made (the body no longer has this intermediate value)" % (type(owner).__name__, attr, index))
                    a, res = calls[index]
                    val = ca.SX(a[0]) if what == "arg" else ca.SX(what(res))
                    extra.append(val); names.append(outname)
                g = ca.Function(f.name() + "_probed", f._ins, f._outs + extra, f._in_names, f._out_names + names)
        finally:
            for (owner, attr, real, had) in reversed(saved):
                if had:
                    setattr(owner, attr, real)
                else:
                    delattr(owner, attr)
        return g
    return lazy_fn_spec(name, thunk, cuts=cuts, selects=selects, only=only, nested=nested)


def rdd2_alloc_specs():
    import cyecca.models.rdd2 as m
    f = m.derive_control_allocation()["f_alloc"]
    return [fn_spec("rdd2.control_allocation", f, cuts=("F_moment", "F_thrust"))]


def bezier_specs():
    import cyecca.models.bezier as bz
    S = []
    for N in range(1, 8):
        def build(P, T, t, N=N):
            B = bz.Bezier(P, T)
            outs = [("p", B.eval(t))]
            outs.append(("d", ca.vertcat(*[B.deriv(m).eval(t) for m in range(1, N + 1)])))
            return outs
        S.append(Spec("bezier.eval%d" % N, [("P", (1, N + 1)), ("T", (1, 1)), ("t", (1, 1))], build))
    def build3(P, T, t):
        B = bz.Bezier(P, T)
        return [("p", B.eval(t)), ("d1", B.deriv(1).eval(t)), ("d2", B.deriv(2).eval(t))]
    S.append(Spec("bezier.eval3_dim3", [("P", (3, 4)), ("T", (1, 1)), ("t", (1, 1))], build3))
    d7, d3 = bz.derive_bezier7(), bz.derive_bezier3()
    S.append(fn_spec("bezier.bezier7_solve", d7["bezier7_solve"]))
    S.append(fn_spec("bezier.bezier7_traj", d7["bezier7_traj"]))
    S.append(fn_spec("bezier.bezier3_solve", d3["bezier3_solve"]))
    S.append(fn_spec("bezier.bezier3_traj", d3["bezier3_traj"]))
    S.append(fn_spec("bezier.bezier_multirotor", bz.derive_multirotor()["bezier_multirotor"]))
    return S


def quad_specs():
    import cyecca.models.quadrotor as q
    m = q.derive_model()
    # the plant's body moment and body force as functions of (state, parameters): the expressions the model builds (C17)
    f_mb = ca.Function("M_b", [m["x"], m["u"], m["p"]], [m["M_b"], m["F_b"]], ["x", "u", "p"], ["M_b", "F_b"])
    return [fn_spec("quadrotor.f", m["f"]), fn_spec("quadrotor.g_accel", m["g_accel"]),
            fn_spec("quadrotor.g_gyro", m["g_gyro"]), fn_spec("quadrotor.M_b", f_mb)]


def ins_specs():
    import cyecca.models.rdd2 as m
    return [lazy_fn_spec("rdd2.strapdown_ins_propagate",
                         lambda: m.derive_strapdown_ins_propagation()["strapdown_ins_propagate"])]


def ctrl_specs():
    """rdd2 / rdd2_loglinear controller functions (C15)"""
    import cyecca.models.rdd2 as m
    import cyecca.models.rdd2_loglinear as ml
    S = []
    S.append(lazy_fn_spec("rdd2.attitude_rate_control", lambda: m.derive_attitude_rate_control()["attitude_rate_control"]))
    S.append(lazy_fn_spec("rdd2.attitude_control", lambda: m.derive_attitude_control()["attitude_control"]))
    S.append(lazy_fn_spec("rdd2.input_acro", lambda: m.derive_input_acro()["input_acro"]))
    S.append(lazy_fn_spec("rdd2.input_velocity", lambda: m.derive_input_velocity()["input_velocity"]))
    S.append(lazy_fn_spec("rdd2.input_auto_level", lambda: m.derive_input_auto_level()["input_auto_level"]))
    S.append(lazy_fn_spec("loglinear.so3_attitude_control", lambda: ml.derive_so3_attitude_control()["so3_attitude_control"]))
    S.append(lazy_fn_spec("loglinear.se23_error", lambda: ml.derive_se23_error()["se23_error"]))
    S.append(lazy_fn_spec("loglinear.se23_attitude_control", lambda: ml.derive_outerloop_control()["se23_attitude_control"]))
    return S


def ref_specs():
    """attitude set-point producers (C14)"""
    import cyecca.models.rdd2 as m
    import cyecca.models.rdd2_loglinear as ml
    import cyecca.models.bezier as bz
    import cyecca.models.mr_ref_traj as mr
    S = []
    S.append(lazy_fn_spec("rdd2.position_control", lambda: m.derive_position_control()["position_control"], scalar=False))
    S.append(lazy_fn_spec("loglinear.se23_position_control", lambda: ml.derive_outerloop_control()["se23_position_control"], scalar=False))
    S.append(lazy_fn_spec("bezier.f_ref", lambda: bz.derive_ref()["f_ref"], scalar=False))
    S.append(lazy_fn_spec("mr_ref_traj.mr_ref_traj", lambda: mr.derive_mr_ref_traj()["mr_ref_traj"],
                          cuts=("omega_eb_b", "omega_dot_eb_b")))
    S.append(lazy_fn_spec("bezier.eulerB321_to_quat", lambda: bz.derive_eulerB321_to_quat()["eulerB321_to_quat"]))
    return S


def refp_specs():
    """attitude set-point producers with intermediate values exposed (C14 frame theorems)"""
    import cyecca.models.rdd2 as m
    import cyecca.models.rdd2_loglinear as ml
    import cyecca.models.bezier as bz
    import cyecca.models.mr_ref_traj as mr
    S = []
    # the same controllers with the demanded force T, the heading angle yt and the frame Rd handed to SO3Quat.from_Matrix
    # exposed as extra outputs / cut points (C14 frame theorems)
    import cyecca.lie.group_so3 as g3
    yaw = lambda e: e.param[0]
    for nm, mk in (("rdd2.position_control_p", lambda: m.derive_position_control()["position_control"]),
                   ("loglinear.se23_position_control_p", lambda: ml.derive_outerloop_control()["se23_position_control"])):
        S.append(probed(nm, mk, [(ca, "norm_2", "arg", 0, "P"), (ca, "norm_2", "arg", 1, "T"), (g3.SO3EulerB321, "from_Quat", yaw, 0, "yt"),
                                 (ca, "cross", "arg", 0, "zB"), (ca, "cross", "arg", 1, "yB"),
                                 (g3.SO3Quat, "from_Matrix", "arg", 0, "Rd")],
                        cuts=("P", "T", "yt", "yB", "Rd"), only=("nT", "qr_wb", "z_i_2", "P", "T", "yt", "zB", "yB", "Rd")))
    # flatness references: thrust vector, body axes and the frame exposed
    S.append(probed("bezier.f_ref_p", lambda: bz.derive_ref()["f_ref"],
                    [(ca, "norm_2", "arg", 0, "thrust"), (ca, "cross", "arg", 0, "zb"), (ca, "cross", "arg", 1, "yb"),
                     (g3.SO3Dcm, "from_Matrix", "arg", 0, "C_be")],
                    cuts=("thrust", "yb", "C_be"), only=("quat", "thrust", "zb", "yb", "C_be", "T", "omega_eb_b")))
    S.append(probed("mr_ref_traj.mr_ref_traj_p", lambda: mr.derive_mr_ref_traj()["mr_ref_traj"],
                    [(ca, "norm_2", "arg", 0, "thrust"), (ca, "cross", "arg", 0, "zb"), (ca, "cross", "arg", 1, "yb")],
                    cuts=("thrust", "yb"), only=("thrust", "zb", "yb", "C_be", "T", "omega_eb_b")))
    return S


def util_specs():
    import cyecca.util as u
    S = []
    for n in range(1, 5):
        S.append(Spec("util.ldl%d" % n, [("P", (n, n))], (lambda P: (lambda LD: [("L", LD[0]), ("D", LD[1])])(u.ldl_symmetric_decomposition(P))), calls=False))
        S.append(Spec("util.udu%d" % n, [("P", (n, n))], (lambda P: (lambda UD: [("U", UD[0]), ("D", UD[1])])(u.udu_symmetric_decomposition(P))), calls=False))
    def rk_cubic(t, y, h, c):
        return [("y1", u.rk4(lambda tt, yy: c[0] + c[1] * tt + c[2] * tt ** 2 + c[3] * tt ** 3, t, y, h))]
    S.append(Spec("util.rk4_cubic", [("t", (1, 1)), ("y", (1, 1)), ("h", (1, 1)), ("c", (4, 1))], rk_cubic, calls=False))
    def rk_linear(y, h, lam):
        t = ca.SX.sym("t")
        return [("y1", u.rk4(lambda tt, yy: lam * yy, t, y, h))]
    S.append(Spec("util.rk4_linear", [("y", (1, 1)), ("h", (1, 1)), ("lam", (1, 1))], rk_linear, calls=False))
    def rk_affine2(y, h, A, b):
        t = ca.SX.sym("t")
        return [("y1", u.rk4(lambda tt, yy: A @ yy + b, t, y, h))]
    S.append(Spec("util.rk4_affine2", [("y", (2, 1)), ("h", (1, 1)), ("A", (2, 2)), ("b", (2, 1))], rk_affine2, calls=False))
    for n in (2, 3):
        def pred(W, F, Q, n=n):
            return [("Wdot", u.sqrt_covariance_predict(ca.tril(W), F, Q))]
        S.append(Spec("util.sqrt_predict%d" % n, [("W", (n, n)), ("F", (n, n)), ("Q", (n, n))], pred, calls=False))
    for (n, m) in ((1, 1), (2, 1)):
        def corr(Rs, H, W, n=n, m=m):
            Wp, K, Ss = u.sqrt_correct(ca.tril(Rs), H, ca.tril(W))
            return [("Wp", Wp), ("K", K), ("Ss", Ss)]
        S.append(Spec("util.sqrt_correct_%d_%d" % (n, m), [("Rs", (m, m)), ("H", (m, n)), ("W", (n, n))], corr, calls=False))
    # the same routine with ca.qr replaced by its contract (extra inputs qrQ, qrR; extra output qr_arg), 3 states, 2 measurements
    def mk():
        Rs = ca.SX.sym("Rs", ca.Sparsity.lower(2)); H = ca.SX.sym("H", 2, 3); W = ca.SX.sym("W", ca.Sparsity.lower(3))
        Wp, K, Ss = u.sqrt_correct(Rs, H, W)
        return ca.Function("sqrt_correct_3_2", [Rs, H, W], [Wp, K, Ss], ["Rs", "H", "W"], ["Wp", "K", "Ss"])
    S.append(qr_abstracted("util.sqrt_correct_qr_3_2", mk, 5))
    return S


def qr_abstracted(name, maker, k, cuts=(), selects=False, only=()):
    """Variant of a function whose body calls ca.qr (through util.sqrt_correct): the factorisation is replaced by two
    extra inputs qrQ (k x k) and qrR (k x k, upper triangular) and the matrix handed to ca.qr becomes an extra output
    `qr_arg`, so that theorems can be stated under the QR contract  qrQ^T qrQ = 1,  qrQ qrR = qr_arg.
    The REAL body runs; only ca.qr is swapped while it is built."""
    import core
    def thunk():
        Qs = ca.SX.sym("qrQ", k, k)
        Rs_ = ca.SX.sym("qrR", ca.Sparsity.upper(k))
        cap = []
        real_qr = ca.qr
        def fake_qr(A):
            cap.append(ca.SX(A))
            return Qs, Rs_
        ca.qr = fake_qr
        try:
            with core.patched_function():
                f = maker()
                assert len(cap) == 1 and cap[0].shape == (k, k), "expected exactly one %dx%d ca.qr call" % (k, k)
                g = ca.Function(f.name() + "_qr", f._ins + [Qs, Rs_], f._outs + [cap[0]],
                                f._in_names + ["qrQ", "qrR"], f._out_names + ["qr_arg"])
        finally:
            ca.qr = real_qr
        return g
    return lazy_fn_spec(name, thunk, cuts=cuts, selects=selects, only=only)


def est_specs():
    """MRP attitude estimator steps and the packaged simulator's sensor/truth models (C11, C12)"""
    import cyecca.estimate.attitude.algorithms.mrp as mrp
    import cyecca.estimate.attitude.algorithms.sim as sim
    S = []
    S.append(lazy_fn_spec("mrp.initialize", lambda: mrp.initialize(), cuts=("error_code",), selects=True))
    S.append(lazy_fn_spec("mrp.predict", lambda: mrp.predict(), only=("x1",), selects=True))
    S.append(lazy_fn_spec("mrp.correct_mag", lambda: mrp.correct_mag(), cuts=("error_code",), selects=True))
    S.append(lazy_fn_spec("mrp.correct_accel", lambda: mrp.correct_accel(), cuts=("error_code",), selects=True))
    S.append(qr_abstracted("mrp.correct_mag_qr", lambda: mrp.correct_mag(), 7, only=("x_mag", "W_mag", "r_mag", "qr_arg", "error_code"), cuts=("error_code", "r_mag"), selects=True))
    S.append(qr_abstracted("mrp.correct_accel_qr", lambda: mrp.correct_accel(), 8, only=("x_accel", "W_accel", "r_accel", "qr_arg", "error_code"), cuts=("error_code", "r_accel"), selects=True))
    S.append(lazy_fn_spec("mrp.get_state", lambda: mrp.get_state()))
    S.append(lazy_fn_spec("sim.simulate", lambda: sim.simulate(), selects=True))
    S.append(lazy_fn_spec("sim.measure_gyro", lambda: sim.measure_gyro()))
    S.append(lazy_fn_spec("sim.measure_mag", lambda: sim.measure_mag()))
    S.append(lazy_fn_spec("sim.measure_accel", lambda: sim.measure_accel()))
    S.append(lazy_fn_spec("sim.rotation_error", lambda: sim.rotation_error()))
    return S


MODULES = {
    "Series": (series_specs, ()),
    "SO2": (so2_specs, ("Series",)),
    "SE2": (se2_specs, ("Series",)),
    "Rn": (rn_specs, ("Series",)),
    "SO3": (so3_specs, ("Series",)),
    "SE3": (se3_specs, ("Series",)),
    "SE23": (se23_specs, ("Series",)),
    "SE23P": (se23p_specs, ("Series",)),
    "Products": (product_specs, ("Series",)),
    "Alloc": (rdd2_alloc_specs, ("Series",)),
    "Bezier": (bezier_specs, ("Series",)),
    "Quad": (quad_specs, ("Series",)),
    "Ins": (ins_specs, ("Series",)),
    "Ctrl": (ctrl_specs, ("Series",)),
    "Ref": (ref_specs, ("Series",)),
    "RefP": (refp_specs, ("Series",)),
    "Util": (util_specs, ("Series",)),
    "Est": (est_specs, ("Series",)),
}
