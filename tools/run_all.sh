#!/bin/sh
# run_all.sh [tier]: every property's check once on the unchanged tree (refreshes evidence/*.json); prints one line per property
cd "$(dirname "$0")/.." || exit 2
T=${1:-quick}
for p in C01 C02 C03 C04 C05 C06 C07 C08 C09 C10 C11 C12 C13 C14 C15 C16 C17 C18 C19 C20; do
  ./check $p --tier $T > work/run_all_$p.log 2>&1; rc=$?
  echo "$p exit=$rc $(grep -c '^VIOLATION' work/run_all_$p.log) violations; $(tail -1 work/run_all_$p.log | cut -c1-150)"
done
