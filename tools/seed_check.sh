#!/bin/sh
# seed_check.sh <mutation dir> <pid> [tier]: apply a seeded change to /repo, run the check, undo it.
M=$1; PID=$2; TIER=${3:-quick}
cd /repo || exit 2
git diff --quiet || { echo "/repo not clean"; exit 2; }
git apply $M/patch.diff || { echo "patch does not apply"; exit 2; }
cd /verif && VERIF_EVIDENCE_DIR=/verif/work/evidence_seed ./check $PID --tier $TIER > $M/check_$PID.log 2>&1; rc=$?
git -C /repo checkout -- .
# the generated models must describe the unchanged tree again
(cd /verif && /venv/bin/python tools/extract/gen.py > /dev/null 2>&1)
echo "$M $PID exit=$rc $(grep -c VIOLATION $M/check_$PID.log) violation-lines: $(grep VIOLATION $M/check_$PID.log | head -2)"
