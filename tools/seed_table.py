#!/usr/bin/env python3
"""seed_table.py <first index per property as pid:i ...>: markdown table of kept seeded changes (from seeded/*/meta.json) for DESIGN.md"""
import glob, json, os, re, sys
first = dict(a.split(":") for a in sys.argv[1:])
rows = []
for d in sorted(glob.glob("/verif/seeded/C*-m*"), key=lambda p: (p.split("/")[-1].split("-m")[0], int(p.split("-m")[1]))):
    pid, i = os.path.basename(d).split("-m")
    if pid in first and int(i) >= int(first[pid]):
        m = json.load(open(d + "/meta.json"))
        summ = re.sub(r"\s+", " ", m.get("summary", ""))[:150].replace("|", "/")
        det = re.sub(r"\s+", " ", m.get("detected_by", ""))[:230].replace("|", "/")
        rows.append("| %s-m%s | %s | %s |" % (pid, i, summ, det))
print("| seed | change (abridged) | detected by |\n|------|-------------------|-------------|")
print("\n".join(rows))
