#!/usr/bin/env python3
"""Regenerate MANIFEST.json from the table below (kept here so the manifest stays valid)."""
import json, os
HERE = os.path.dirname(os.path.abspath(__file__)); VERIF = os.path.dirname(HERE)
props = [json.loads(l) for l in open(os.path.join(VERIF, "properties.jsonl"))]
NOTE = ("Trusted: Lean kernel (+axioms propext, Classical.choice, Quot.sound), Mathlib's real analysis as the meaning of "
        "CasADi opcodes (lean/Cas/Real.lean), the translator (validated each run by bit-level correspondence), CasADi itself; "
        "floating point not modelled. Theorems not yet proved for the full statement are listed under "
        "coverage.missing_for_full_property in the evidence file.")
TECH_T = "Lean 4 proof over a model regenerated from source (translator) + correspondence check"
CLAIMED = {
 "C01": ("proof", "Lean 4 theorems over the model regenerated from /repo by the translator: homomorphism, inverse, identity, "
         "neutrality (and associativity as corollary) for SO2, SE2, R2, R3, SO3Quat, SO3Mrp, SO3Dcm, SE3Quat/Mrp, SE23Quat/Mrp and "
         "four direct products, for ALL valid inputs; from_Matrix right-inverse for SO2, SE2, SO3Dcm and — through the C07 "
         "theorems, which are obligations of this check too — for SO3Quat (Shepperd, every proper rotation) and SO3Mrp. Euler product: numeric search only.", "DESIGN.md §2 C01", TECH_T),
 "C04": ("proof", "Lean 4 theorems over the regenerated model: ad_x y = [x,y], [x,y]^ = commutator, antisymmetry, Jacobi for every "
         "algebra; (Ad_X y)^ M(X) = M(X) y^ for every group (all valid X, all y); Ad homomorphism / inverse for SO2, SE2, Rn, SO3*, SE3*; "
         "k×k shapes enforced by the types; Ad_exp(x) = NormedSpace.exp(ad_x) for the SO(3) forms (quaternion, DCM, MRP with shadow switch) on the "
         "closed-form cells and at zero (Props/C04E via C02); Ad homomorphism / inverse on SE_2(3) (quaternion and MRP form) derived from the conjugation "
         "law, C01's matrix homomorphism and injectivity of the hat map (Lib/AdConj, Props/C04H). Ad_exp for SE2/SE3/SE23: numeric search only.",
         "DESIGN.md §2 C04", TECH_T),
 "C13": ("proof", "Lean 4 theorems over the control_allocation program regenerated from rdd2.derive_control_allocation(): for ALL demands and "
         "all constants every motor force is in [0,F_max] and omega = sqrt(Fp/Ct) with non-negative radicand; a jointly achievable demand is "
         "reproduced exactly (boundary cases included); if the moment spread fits in F_max the output is the moment part plus one common shift, "
         "that shift is the least one, and the rotor-geometry map returns exactly the range-limited moment. Peeling lemmas are rfl.",
         "DESIGN.md §2 C13", TECH_T),
 "C18": ("proof", "Lean 4 theorems over the Bezier programs regenerated from cyecca/models/bezier.py: for degrees 1..7 De Casteljau eval equals the "
         "Bernstein polynomial, start/end points, and HasDerivAt facts for every derivative order (all t, inside or outside [0,T]); the cubic and "
         "septic boundary-value solvers meet every requested condition (T != 0); traj/multirotor outputs are the curve and its successive derivatives. "
         "EVERY degree and derivative order: hand model of Bezier.eval / deriv (Model/Bezier.lean) with De Casteljau = Bernstein, end points and "
         "deriv(m).eval = m-th iterated derivative proved by induction on the degree (Props/C18G), proved equal to every translated program (degrees 1..7, all orders) "
         "and tied to the real class by a differential run (degrees 1..12, float / integer / DM / SX / list control points).",
         "DESIGN.md §2 C18, §8.1", TECH_T + " + hand model for every degree (induction), proved equal to the translated programs and tied to the class by a differential run"),
 "C07": ("proof", "Lean 4 theorems over the regenerated conversion programs: Shepperd matrix->quaternion (all four branches) returns a unit quaternion "
         "with the same matrix for EVERY proper rotation matrix; quaternion<->MRP (either sign, q0=-1 included), MRP/quaternion/Euler->DCM, DCM/Euler->"
         "quaternion, DCM->MRP preserve the rotation and return valid parameters (unit norm, |MRP|<=1, orthonormal det 1); the shadow switch never "
         "changes the rotation; Euler pitch in [-pi/2,pi/2]. Conversions INTO Euler form and the band tolerance: numeric search only (named in evidence).",
         "DESIGN.md §2 C07", TECH_T),
 "C16": ("proof", "Lean 4 theorems over the quadrotor model regenerated from cyecca/models/quadrotor.py, for symbolic parameters: q.q'=0 and "
         "q'=1/2 q*(0,w); Newton and Euler equations equal to the sum over rotors (+ground, drag, gravity); zero moment for equal speeds on a "
         "symmetric frame; level hover with a quarter of the weight per rotor is an equilibrium (all 17 components); accelerometer zero in free "
         "fall; motor relaxation sign/time constant; equivariance under horizontal translation and yaw of the world frame (17 components).",
         "DESIGN.md §2 C16", TECH_T),
 "C02": ("proof", "Lean 4: a generic theorem (Lib/RotExp) that A^4 = -t^2 A^2 implies NormedSpace.exp A = 1 + A + c(t)A^2 + d(t)A^3 "
         "(Rodrigues closed form, proved from the exponential series, t = 0 included), instantiated for so2/se2/r^n/so3/se3/se23 hat matrices; "
         "then for the translated exp of SO2, SE2, R2, R3, SO3Dcm, SO3Quat, SO3Mrp (shadow switch included), SE3Quat, SE3Mrp, SE23Quat, SE23Mrp: to_Matrix(exp x) = "
         "NormedSpace.exp(hat x) exactly, for every angle (beyond pi too) on the closed-form cell of the series coefficients, and at zero rotation. "
         "SE23Quat and SE23Mrp (their exp hands a 5x5 matrix to from_Matrix; that matrix is exposed by a probe of the real body, proved to be the matrix "
         "exponential, the outputs are proved to be from_Matrix of it, and to_Matrix o from_Matrix = id through C07's Shepperd theorem): same statement. "
         "Corollaries exp((s+t)x) = exp(sx) exp(tx) and exp(-x) exp(x) = 1 for SO3Dcm, SO3Quat, SO3Mrp, SE2, SE3Quat, SE3Mrp on the cells (Props/C02C). "
         "Taylor cells (theta^2 < 1e-3) and the Euler target: numeric search only (named in evidence).",
         "DESIGN.md §2 C02", TECH_T),
 "C03": ("proof", "Lean 4 theorems over the regenerated log/exp programs: exp and log mutually inverse identically for SO2, R2, R3; SE2 "
         "exp(log X) = X and log(exp x) = x whenever the code's denominator is non-zero, and that denominator is non-zero for eps<=|theta|<2pi; "
         "SO3Mrp: exp(log r) = r for canonical MRPs and the log angle is 4 atan|r| <= pi (principal); SO3Quat: log(-q) = log(q) (sign independent) "
         "and the half angle lies in [0, pi/2]; for unit quaternions on the closed-form cells exp(log q) = q (same rotation for either sign), "
         "log(exp x) = x for |x| < pi, and |log q| = 2 arccos|q0| <= pi (principal). DCM/Euler logs, SE3/SE23 translation parts and Taylor cells: numeric search only.",
         "DESIGN.md §2 C03", TECH_T),
 "C05": ("proof", "Lean 4 theorems over the regenerated Jacobian programs: J_l(x) = J_r(-x) for so3/se3/se23 (all x); so3 core forms; on the "
         "closed-form cell the so3 J_l equals the left-Jacobian series sum_n ad^n/(n+1)! (HasSum, proved from a generic series lemma) and "
         "J_l J_l^-1 = 1, J_r J_r^-1 = 1 for cos(theta) != 1, and J_l(x) = Ad_exp(x) J_r(x) on so3 (Props/C05A: all three operators are x 1 + y w^ + z w^^2); quaternion world/body Jacobians: q' = J w gives R' = [w]x R resp. R [w]x along every "
         "differentiable curve and preserves the norm; MRP body Jacobian: R' = R [w]x along every differentiable curve (9 entries). PARTIAL: that the "
         "series is the differential of exp on se3/se23 is cited mathematics; se3/se23 Q blocks and inverses are covered by numeric search only.",
         "DESIGN.md §2 C05", TECH_T),
 "C06": ("proof", "PARTIAL (floating-point round-off not modelled). Lean 4: the switch constant of the regenerated series tables is within 1e-18 "
         "of 1e-3; for cos, sin x/x, (1-cos x)/x^2, (x-sin x)/x^3 (squared argument; the coefficients of exp and J_l) and (x^2/2+cos x-1)/x^4 (strap-down position integral) the Taylor-cell polynomial "
         "is within 1e-14 of the analytic coefficient for all 0<=u<eps (truncation bound proved from the series + every double coefficient checked "
         "against the exact rational), so the jump at the switch is below that; closed-form cell exact (SeriesLemmas); consumer corollary: SO3Dcm "
         "exp within 1e-14 entrywise on the Taylor cell. Doubles-vs-40-digit-mpmath grid search supports the 1e-9 claim and finiteness of AD derivatives.",
         "DESIGN.md §2 C06", TECH_T),
 "C08": ("proof", "Lean 4: Lib/Flow defines the closed-form flow (p,v,R)(t) of p'=v, v'=Ra-g e3, R'=R[w]x and proves with HasDerivAt that it "
         "satisfies the three differential equations for every t with the right initial values; Props/C08 proves that the regenerated "
         "strapdown_ins_propagate returns, for EVERY input, that flow form with the code's series coefficient values (core identities), and on the "
         "closed-form cell (|w dt|^2 >= 4 eps, any dt of either sign) exactly the flow at t = dt with the quaternion norm preserved; dt = 0 is the "
         "identity; the semigroup law (dt1 then dt2 = dt1 + dt2) is proved for the flow (Lib/Flow.flow_semigroup, trigonometric addition formulas + "
         "w^3 = -|w|^2 w) and lifted to the translated propagator on the closed-form cells; uniqueness (Lib/FlowUnique, Frobenius-norm argument) makes the output THE "
         "solution of p' = v, v' = R a - g e3, R' = R [w]x at dt for any solution curve with the input as initial value (Props/C08U). Taylor cells: numeric search only.",
         "DESIGN.md §2 C08", TECH_T),
 "C15": ("proof", "Lean 4 theorems over the regenerated controller programs: rate-controller integrator within +-i_max after one step from ANY "
         "previous state and, by induction over the step list, after any non-empty sequence; filter coefficient strictly in (0,1); control law "
         "structure; acro stick map linear and bounded; velocity mode: yaw set-point in [-pi,pi] (lemma on C remainder + double(pi) <= pi), position "
         "set-point within 2 m of the vehicle (norm saturation lemma), reset puts it on the vehicle; attitude law is exactly zero for q_r = q and "
         "q_r = -q, it IS gain x quaternion-log of q^-1 q_r, and with unit gains applying the commanded rotation reaches the reference "
         "(R(q) R(exp w) = R(q_r), closed-form cells, via C03); position controller and SE_2(3) outer loop: the feedback part of the demanded force "
         "never exceeds 0.3 m g for ANY input and the height integrator stays within its limit (probe of the real body); the log-linear SO(3) law IS "
         "J_l(e) diag(kp) e with e = quaternion log of q^-1 q_r for every input, with a scalar gain it is k x rotation vector and reaches the reference "
         "(Props/C15A, C15B). Auto-level map, Taylor cells, unequal gains: search only.",
         "DESIGN.md §2 C15", TECH_T),
 "C14": ("proof", "Lean 4 theorems over the regenerated programs: the Euler(3-2-1)->quaternion helper returns a unit quaternion of the same "
         "rotation for EVERY yaw/pitch/roll (through the Shepperd theorem of C07); the flatness reference mr_ref_traj satisfies Euler's equation "
         "M = J w' + w x Jw for the rates it returns for every input (peeled program), and its thrust magnitude is the clamped norm of m(g e3 - a); "
         "position controller and SE_2(3) outer loop (real bodies with the demanded force, heading, body-y axis and frame exposed by probes; peeling "
         "lemmas are rfl): for EVERY input — zero thrust and thrust parallel to the heading included — the frame is a proper rotation, the returned "
         "quaternion is a unit quaternion of exactly that rotation, the body z axis is the normalised demanded force (world z below the 1e-3 guard), "
         "nT is its norm, and on the main branch body y is perpendicular to the heading; mr_ref_traj on its main branch: proper rotation, alignment, "
         "thrust = |m(g e3 - a)|, and roll/pitch rates equal to the true rotation rate of the thrust axis along any differentiable trajectory (HasDerivAt). "
         "f_ref = mr_ref_traj, yaw rate, angular accelerations, auto-level: numeric search; 3 known findings in the flatness degenerate branches.",
         "DESIGN.md §2 C14", TECH_T),
 "C10": ("proof", "Lean 4 theorems over the regenerated instances of cyecca.util: LDL^T and UDU^T (n = 2, 3) reconstruct the symmetric input for "
         "EVERY matrix with non-zero pivots, unit-triangular / diagonal shapes are structural; RK4 is exact for cubic-in-time derivatives, is the "
         "degree-4 Taylor polynomial on linear/affine systems (order 4, consistency); sqrt_covariance_predict (n = 2) is lower triangular and "
         "satisfies W'W^T + WW'^T = FP + PF^T + Q; sqrt_correct gives Ss Ss^T = HPH^T + R, K S = P H^T, W+W+^T = (I - KH)P and P - W+W+^T >= 0 "
         "(n = m = 1 with CasADi's symbolic QR inlined; n = 3, m = 2 on the QR-abstracted real routine under the contract Q^T Q = 1, Q R = A, from the "
         "generic theorem Lib/SqrtFilter valid for all dimensions); LDL^T for EVERY size n by induction over a hand model of the routine's loops "
         "(Model/Ldl.lean, Props/C10G: unit lower triangular, L D L^T = P given non-zero pivots), tied to the routine by a differential run (sizes 1..6, "
         "five scalings, bit-exact). Other sizes of the other routines (n <= 7, m <= 3) and the h^5 local error: numeric search only.",
         "DESIGN.md §2 C10, §8.1", TECH_T + " + hand model of LDL^T for every size (induction) tied to the routine by a differential run"),
 "C11": ("proof", "Lean 4 theorems over the regenerated estimator programs: a rejected accelerometer / magnetometer correction (error code != 0) "
         "returns ALL six state components and every lower-triangle entry of the covariance factor unchanged (over the reals), the error codes lie "
         "in the documented finite sets, a failed initialisation returns the zero state; the predicted MRP has norm <= 1 and is the same rotation "
         "as the integrated one (shadow selection), the bias is carried over; for EVERY state, factor and measurement an accepted correction "
         "satisfies P - W+W+^T = G G^T >= 0 under the QR contract (Q^T Q = 1, Q R = A) — generic theorem Lib/SqrtFilter for all dimensions, "
         "instantiated on the QR-abstracted variants of the real programs. Initialisation exactness, fourth-order accuracy, finiteness, ca.qr "
         "meeting its contract: numeric search only (named in evidence). 1 known finding (-0.0 on rejection).",
         "DESIGN.md §2 C11", TECH_T),
 "C12": ("proof", "PARTIAL. Lean 4 theorems over the regenerated simulator / estimator programs for the step-level facts the closed loop rests on: "
         "noise-free accelerometer = R(r)^T(0,0,-g) with magnitude g and magnetometer = R(r)^T(reading at identity) with attitude-independent "
         "magnitude for EVERY MRP; gyro = omega + bias; truth propagation keeps |r| <= 1; an accepted magnetometer / accelerometer correction "
         "writes ALL THREE gyro-bias components with the gain rule b+ = b + K r (QR-abstracted variants). The trajectory-level convergence claim "
         "is not a theorem (stability of a time-varying EKF in doubles across SimPy processes): the check runs the real launch_sim with noise off "
         "over sampled initial attitudes, biases, inclinations, with/without initialisation (thresholds 0.05 rad, bias error <= max(0.02, half the "
         "initial error)) and reports a failing history if one exists.",
         "DESIGN.md §2 C12", TECH_T + "; closed-loop part: falsification sweep over real launch_sim histories (support, not proof)"),
 "C09": ("proof", "Per-program translation validation closed by a Lean theorem: every shipped equation set (estimator and simulator through both "
         "generators, rdd2, rdd2_loglinear, bezier, mr_ref_traj) is generated by the REAL generator under the default options and every single "
         "option flip (thorough: all pairs + 40 seeded combinations); the emitted C is parsed into the translator's IR, the casadi.Function is "
         "walked into the same IR, and Lean proves  c = sx  by rfl for every function and every distinct body — an equality of programs over ANY "
         "carrier (reals and IEEE doubles alike, so unselected NaN-producing branches are covered) — plus an rfl-checked table of entry-point names, "
         "arities and sizes against the equation set (nothing dropped, duplicated or renamed). The C model is tied to the artefact by gcc -Wall "
         "compilation of every configuration and a four-way bit-exact differential run (shared object, casadi.Function, both Lean programs).",
         "DESIGN.md §2 C09", "translation validation: C text -> IR, casadi.Function -> IR, Lean 4 rfl theorem per program + differential execution of the compiled C"),
 "C19": ("proof", "Lean 4 soundness theorems, by structural induction over ALL expression trees, for a hand model of both converters "
         "(lean/Model/Symbolic.lean: one constructor per Python type / CasADi opcode the code dispatches on): whenever sympy_to_casadi / "
         "casadi_to_sympy returns an expression it has the same real value as its input for every assignment of the symbols and every "
         "interpretation of the user functions (the map registered under a name is the one applied); everything else is rejected. Includes the "
         "exact identities behind the fmod and IEEE-remainder translations (ties to even). The model is tied to cyecca/symbolic.py on every run "
         "by differential runs over grammar-generated trees in both directions: success/rejection must agree and the converted expressions must "
         "take the same values at sample points; the same runs search for a failing expression on the real code.",
         "DESIGN.md §2 C19", "Lean 4 proof over a hand-written model + correspondence check (differential runs of model and implementation on generated expression trees)"),
 "C20": ("proof", "Lean 4 theorems, by induction over ALL operation histories, about a hand model of cyecca/sim/uros.py and of the estimator node's "
         "timing logic (lean/Model/Bus.lean): a publication of the declared type reaches exactly the subscribers of its topic, once each, in "
         "subscription order and, over any sequence of publications, in publication order; a wrong type is rejected with nothing changed; no "
         "delivery ever goes to a non-subscriber; the logger's lock freezes the topology; after set_param every node following the parameter "
         "topic holds the new value and no other node does; one logger row per wake-up with non-decreasing times and the latest message per "
         "topic; the estimator never predicts with dt <= 0 and an independent monitor of its actions accepts every message history (corrections "
         "at least dt_min - 1 ms apart, parameter updates in between). The model is tied to the real classes on every run by differential runs "
         "over generated operation sequences and message timings (replies, delivery log, caches, rows, actions must agree).",
         "DESIGN.md §2 C20", "Lean 4 proof over a hand-written model + correspondence check (differential runs of model and implementation on generated histories)"),
 "C17": ("proof", "PARTIAL. Lean 4 interface theorems over the regenerated plant and allocator programs: the plant's rotor geometry (arm angles, "
         "spin directions, equal arms — the shipped defaults, checked against the model's tables each run) turns motor forces into exactly the "
         "rows of the allocator's geometry map with positive gains (sqrt2/2)l, (sqrt2/2)l, CM; composed with C13, when the motors run at the "
         "commanded speeds the body moment is the range-limited demanded moment scaled by (sqrt2/2, sqrt2/2, 1): no sign or axis mismatch "
         "between mixer and plant; the commanded hover is an EXACT fixed point of the position-controller cascade stage by stage (zero error -> trim "
         "straight up with the pure-yaw set-point; zero attitude/rate error -> zero rate/moment command; pure thrust split equally by the allocator; with "
         "W = m g the plant at those rotor speeds has zero state derivative). Closed-loop convergence itself is not a theorem (stability of a saturated sampled nonlinear cascade): the "
         "check closes the loop on the real casadi functions with the gains of scripts/rdd2_sim.py over sampled initial conditions of the "
         "envelope (both cascades; thresholds 0.10 m, 0.05 rad, 0.05 rad/s, motor limits, no NaN) and reports a failing trajectory if one exists.",
         "DESIGN.md §2 C17", TECH_T + "; closed-loop part: falsification sweep over trajectories of the real functions (support, not proof)"),
}
checks = []
for pid, (cat, text, ref, tech) in CLAIMED.items():
    checks.append({"property_id": pid, "quick_cmd": "./check %s --tier quick" % pid,
                   "thorough_cmd": "./check %s --tier thorough" % pid,
                   "evidence_file": "/verif/evidence/%s.json" % pid,
                   "replay_cmd_template": "./check %s --replay {path}" % pid,
                   "engine": "lean4-translator",
                   "level_claimed": {"category": cat, "text": text, "design_ref": ref},
                   "level_note": NOTE, "technique": tech})
m = {"version": 1, "setup_cmd": "./setup.sh",
     "hooks": {"guard": "CYECCA_VERIF", "enable": "no hooks are needed: models are extracted through cyecca's public API",
               "baseline_off_cmd": "cd /repo && /venv/bin/python -m pytest -ra -q -p no:cacheprovider --timeout=900 --continue-on-collection-errors",
               "source_commits": [], "add_only": True},
     "engines": [{"name": "lean4-translator", "path": "/verif/harness/check.py", "serves_properties": list(CLAIMED),
                  "kind_free_text": "CasADi SX -> Lean 4 translator, Lean/Mathlib proofs, Float-vs-CasADi correspondence, numeric failing-input search on the real code"}],
     "checks": checks,
     "notes": "See DESIGN.md. known_findings.json lists recorded defects and fix commits.",
     "not_applicable": [{"property_id": p["id"], "reason": "check under construction in this session; not yet claimed"}
                        for p in props if p["id"] not in CLAIMED]}
json.dump(m, open(os.path.join(VERIF, "MANIFEST.json"), "w"), indent=1)
print("claimed:", sorted(CLAIMED))
