#!/usr/bin/env python3
"""seed_caught.py <mutation dir> <pid>: one-line description of how the check detected a seeded change (from its log + replay file)."""
import json, re, sys
m, pid = sys.argv[1], sys.argv[2]
log = open("%s/check_%s.log" % (m, pid)).read()
mm = re.search(r"VIOLATION property=\S+ replay=(\S+)", log)
if not mm:
    print("NOT DETECTED"); sys.exit(1)
r = json.load(open(mm.group(1)))
br = [b.get("obligation", "?") for b in r.get("broken_obligations", [])]
cases = [v.get("case") or v.get("obligation") for v in r.get("violations", [])]
kinds = sorted({b.get("kind", "?") for b in r.get("broken_obligations", [])})
print("broken obligations (%s): %s; failing inputs found on the real code: %s%s" % (
    ",".join(kinds) or "-", ", ".join(br[:6]) + (" (+%d more)" % (len(br) - 6) if len(br) > 6 else "") or "none",
    ", ".join(map(str, cases[:6])) or "none", " [no-failing-input-found]" if "no-failing-input-found" in log else ""))
