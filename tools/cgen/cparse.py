"""Parser for the straight-line C that CasADi's CodeGenerator emits for SX functions -> the translator's IR.

Only the subset CasADi emits is accepted; any other statement raises ParseError (reported as an obligation that no
longer checks: the C text left the modelled subset)."""
from __future__ import annotations

import re

REG = r"(?:w\[\d+\]|a\d+)"
NUM = r"[0-9]+\.?[0-9]*(?:e[+-]?[0-9]+)?"

BIN = {"+": "add", "-": "sub", "*": "mul", "/": "div", "<": "lt", "<=": "le", "==": "eq", "!=": "ne", "&&": "and", "||": "or"}
FN1 = {"sqrt": "sqrt", "sin": "sin", "cos": "cos", "tan": "tan", "asin": "asin", "acos": "acos", "atan": "atan", "exp": "exp",
       "log": "log", "floor": "floor", "ceil": "ceil", "fabs": "fabs", "casadi_sq": "sq", "casadi_fabs": "fabs", "casadi_sign": "sign"}
FN2 = {"pow": "pow", "atan2": "atan2", "fmin": "fmin", "fmax": "fmax", "casadi_fmin": "fmin", "casadi_fmax": "fmax",
       "fmod": "fmod", "remainder": "remainder"}


class ParseError(Exception):
    pass


def _sparsities(text):
    sp = {}
    for m in re.finditer(r"static const casadi_int (casadi_s\d+)\[(\d+)\] =\s*\{([^}]*)\};", text):
        arr = [int(v) for v in m.group(3).replace("\n", " ").split(",")]
        if len(arr) != int(m.group(2)):
            raise ParseError("sparsity array %s has %d entries, declared %s" % (m.group(1), len(arr), m.group(2)))
        nrow, ncol = arr[0], arr[1]
        if len(arr) == 3 and arr[2] == 1:
            nnz = nrow * ncol
            trip = [(i, j) for j in range(ncol) for i in range(nrow)]
        else:
            colind = arr[2:2 + ncol + 1]
            rows = arr[2 + ncol + 1:]
            nnz = colind[-1]
            trip = []
            for j in range(ncol):
                for k in range(colind[j], colind[j + 1]):
                    trip.append((rows[k], j))
        sp[m.group(1)] = {"shape": [nrow, ncol], "nnz": nnz, "triplets": trip}
    return sp


def _switch(text, fname):
    m = re.search(r"%s\(casadi_int i\) \{\s*switch \(i\) \{(.*?)\}\s*\}" % re.escape(fname), text, re.S)
    if not m:
        return {}
    out = {}
    for c in re.finditer(r"case (\d+): return ([^;]+);", m.group(1)):
        out[int(c.group(1))] = c.group(2).strip().strip('"')
    return out


def parse_body(body):
    """-> (nodes, outs{(o,nz): node})"""
    regs = {}
    nodes = []
    outs = {}

    def rd(r):
        if r not in regs:
            raise ParseError("read of unassigned register " + r)
        return regs[r]

    def new(nd, dst):
        nodes.append(nd)
        regs[dst] = len(nodes) - 1

    for raw in body.split("\n"):
        s = raw.strip()
        if not s or s.startswith("/*") or s == "return 0;":
            continue
        if re.fullmatch(r"casadi_real (?:a\d+(?:, )?)+;", s):
            continue
        m = re.fullmatch(r"if \(res\[(\d+)\]!=0\) res\[(\d+)\]\[(\d+)\]=(%s);" % REG, s)
        if m:
            if m.group(1) != m.group(2):
                raise ParseError("output guard mismatch: " + s)
            outs[(int(m.group(1)), int(m.group(3)))] = rd(m.group(4))
            continue
        m = re.fullmatch(r"(%s)=(.*);" % REG, s)
        if not m:
            raise ParseError("statement outside the modelled subset: " + s)
        dst, rhs = m.group(1), m.group(2)
        mm = re.fullmatch(r"arg\[(\d+)\]\? arg\[(\d+)\]\[(\d+)\] : 0", rhs)
        if mm:
            if mm.group(1) != mm.group(2):
                raise ParseError("input guard mismatch: " + s)
            new({"op": "input", "arg": int(mm.group(1)), "nz": int(mm.group(3))}, dst); continue
        mm = re.fullmatch(r"(-?)(%s)" % NUM, rhs)
        if mm:
            new({"op": "const", "value": float(rhs)}, dst); continue
        if rhs in ("casadi_inf", "-casadi_inf", "casadi_nan"):
            new({"op": "const", "value": {"casadi_inf": float("inf"), "-casadi_inf": float("-inf"), "casadi_nan": float("nan")}[rhs]}, dst); continue
        mm = re.fullmatch(r"\((%s)(\+|-|\*|/|<=|<|==|!=|&&|\|\|)(%s)\)" % (REG, REG), rhs)
        if mm:
            new({"op": BIN[mm.group(2)], "args": [rd(mm.group(1)), rd(mm.group(3))]}, dst); continue
        mm = re.fullmatch(r"\((%s)\*(%s)\)" % (NUM, REG), rhs)
        if mm:
            if float(mm.group(1)) != 2.0:
                raise ParseError("constant factor other than 2 (OP_TWICE): " + s)
            new({"op": "twice", "args": [rd(mm.group(2))]}, dst); continue
        mm = re.fullmatch(r"\(1\./(%s)\)" % REG, rhs)
        if mm:
            new({"op": "inv", "args": [rd(mm.group(1))]}, dst); continue
        mm = re.fullmatch(r"\(-(%s)\)" % REG, rhs)
        if mm:
            new({"op": "neg", "args": [rd(mm.group(1))]}, dst); continue
        mm = re.fullmatch(r"\(!(%s)\)" % REG, rhs)
        if mm:
            new({"op": "not", "args": [rd(mm.group(1))]}, dst); continue
        mm = re.fullmatch(r"\((%s)\?(%s):0\)" % (REG, REG), rhs)
        if mm:
            new({"op": "ifz", "args": [rd(mm.group(1)), rd(mm.group(2))]}, dst); continue
        mm = re.fullmatch(r"(\w+)\((%s)\)" % REG, rhs)
        if mm and mm.group(1) in FN1:
            new({"op": FN1[mm.group(1)], "args": [rd(mm.group(2))]}, dst); continue
        mm = re.fullmatch(r"(\w+)\((%s),(%s)\)" % (REG, REG), rhs)
        if mm and mm.group(1) in FN2:
            new({"op": FN2[mm.group(1)], "args": [rd(mm.group(2)), rd(mm.group(3))]}, dst); continue
        raise ParseError("statement outside the modelled subset: " + s)
    return nodes, outs


def parse_c(text):
    """-> {public name: {"fid", "inputs":[{"name","shape","nnz"}], "outputs":[...], "nodes", "outs"}}; plus "__order__" list"""
    sp = _sparsities(text)
    bodies = {}
    for m in re.finditer(r"static int (casadi_f\d+)\(const casadi_real\*\* arg, casadi_real\*\* res, casadi_int\* iw, casadi_real\* w, int mem\) \{\n(.*?)\n\}", text, re.S):
        bodies[m.group(1)] = m.group(2)
    funcs = {}
    order = []
    for m in re.finditer(r"(?:CASADI_SYMBOL_EXPORT )?int (\w+)\(const casadi_real\*\* arg, casadi_real\*\* res, casadi_int\* iw, casadi_real\* w, int mem\)\{\s*return (casadi_f\d+)\(arg, res, iw, w, mem\);\s*\}", text):
        name, fid = m.group(1), m.group(2)
        order.append(name)
        if fid not in bodies:
            raise ParseError("wrapper %s refers to missing body %s" % (name, fid))
        nin = re.search(r"casadi_int %s_n_in\(void\) \{ return (\d+);\}" % re.escape(name), text)
        nout = re.search(r"casadi_int %s_n_out\(void\) \{ return (\d+);\}" % re.escape(name), text)
        names_in = _switch(text, name + "_name_in"); names_out = _switch(text, name + "_name_out")
        sp_in = _switch(text, name + "_sparsity_in"); sp_out = _switch(text, name + "_sparsity_out")
        n_in = int(nin.group(1)) if nin else len(names_in)
        n_out = int(nout.group(1)) if nout else len(names_out)
        ins = [{"name": names_in.get(i), "shape": sp[sp_in[i]]["shape"], "nnz": sp[sp_in[i]]["nnz"], "triplets": sp[sp_in[i]]["triplets"]} for i in range(n_in)]
        os_ = [{"name": names_out.get(i), "shape": sp[sp_out[i]]["shape"], "nnz": sp[sp_out[i]]["nnz"], "triplets": sp[sp_out[i]]["triplets"]} for i in range(n_out)]
        nodes, outs = parse_body(bodies[fid])
        if name in funcs:
            raise ParseError("duplicate entry point " + name)
        funcs[name] = {"fid": fid, "inputs": ins, "outputs": os_, "nodes": nodes, "outs": outs, "body": bodies[fid]}
    funcs["__order__"] = order
    return funcs
