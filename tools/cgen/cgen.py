"""C09: code-generation entry points of cyecca, their generated C, and the Lean modules that compare both sides.

For every shipped equation set and generator configuration the REAL generator is run into work/cgen/, the emitted C is
parsed (cparse) into the translator's IR, the symbolic function is walked (core._walk) into the same IR, and one Lean
module per equation set is written:  GenC/<Set>.lean  with, per function,
    def c  : the program read from the C text            def sx : the program read from the casadi.Function
    theorem C09.<set>.<fn>.c_eq_sx : @c = @sx := rfl     (for every carrier, Float included)
plus a signature table per set (names, arities, sizes; C side vs equation set) compared by rfl."""
from __future__ import annotations

import hashlib
import itertools
import json
import os
import shutil
import sys

HERE = os.path.dirname(os.path.abspath(__file__))
VERIF = os.path.dirname(os.path.dirname(HERE))
sys.path.insert(0, os.path.join(VERIF, "tools", "extract"))
sys.path.insert(0, HERE)
sys.path.insert(0, os.environ.get("CYECCA_REPO", "/repo"))

import casadi as ca  # noqa: E402
import core  # noqa: E402
import cparse  # noqa: E402

WORK = os.path.join(VERIF, "work", "cgen")
LEAN = os.path.join(VERIF, "lean")

GENERIC_OPTS = {"verbose": True, "mex": False, "cpp": False, "main": False, "with_header": True, "with_mem": False,
                "with_export": False, "with_import": False, "include_math": True, "avoid_stack": True}
ALG_OPTS = {"main": False, "mex": False, "with_header": True, "with_mem": True}


def shipped():
    """[(generator id, [(lean namespace, {fname: Function}, c file)], generate(dest, _eqs=None, **opts), accepted options, the equation-set object handed to the generator)]"""
    import cyecca.codegen as cg
    import cyecca.estimate.attitude.algorithms as alg
    import cyecca.models.rdd2 as rdd2
    import cyecca.models.rdd2_loglinear as ll
    import cyecca.models.bezier as bz
    import cyecca.models.mr_ref_traj as mr
    S = []
    E = alg.eqs()
    # both estimator generators are called the way the repository calls them: ONE call with the whole {set: functions} dict
    S.append(("estimator", [("est_mrp", E["mrp"], "casadi_mrp.c"), ("est_sim", E["sim"], "casadi_sim.c")],
              (lambda dest, _eqs=None, **kw: alg.generate_code(_eqs or E, dest, **kw)), ALG_OPTS, E))
    S.append(("codegen", [("cg_mrp", E["mrp"], "mrp.c"), ("cg_sim", E["sim"], "sim.c")],
              (lambda dest, _eqs=None, **kw: cg.generate_code(_eqs or E, dest, **kw)), GENERIC_OPTS, E))
    eq = {}
    for d in (rdd2.derive_attitude_rate_control, rdd2.derive_attitude_control, rdd2.derive_position_control, rdd2.derive_input_acro,
              rdd2.derive_input_auto_level, rdd2.derive_input_velocity, rdd2.derive_strapdown_ins_propagation,
              rdd2.derive_control_allocation, rdd2.derive_common):
        eq.update(d())
    S.append(("rdd2", [("rdd2", eq, "rdd2.c")], (lambda dest, _eqs=None, **kw: rdd2.generate_code(_eqs or eq, filename="rdd2.c", dest_dir=dest, **kw)), GENERIC_OPTS, eq))
    eq2 = {}
    for d in (ll.derive_so3_attitude_control, ll.derive_outerloop_control, ll.derive_se23_error):
        eq2.update(d())
    S.append(("rdd2_loglinear", [("loglinear", eq2, "rdd2_loglinear.c")],
              (lambda dest, _eqs=None, **kw: ll.generate_code(_eqs or eq2, filename="rdd2_loglinear.c", dest_dir=dest, **kw)), GENERIC_OPTS, eq2))
    eq3 = {}
    for d in (bz.derive_bezier7, bz.derive_bezier3, bz.derive_dcm_to_quat, bz.derive_ref, bz.derive_multirotor):
        eq3.update(d())
    S.append(("bezier", [("bezier", eq3, "bezier.c")], (lambda dest, _eqs=None, **kw: bz.generate_code(_eqs or eq3, filename="bezier.c", dest_dir=dest, **kw)), GENERIC_OPTS, eq3))
    eq4 = dict(mr.derive_mr_ref_traj())
    S.append(("mr_ref_traj", [("mr_ref", eq4, "mr_ref_traj.c")], (lambda dest, _eqs=None, **kw: cg.generate_code({"mr_ref_traj": _eqs or eq4}, dest, **kw)), GENERIC_OPTS, eq4))
    return S


def decoy(f):
    """a function with the SAME name and signature as `f` but a different body (every output doubled plus one)"""
    import casadi as ca
    ins = [ca.SX.sym(f.name_in(i), f.sparsity_in(i)) for i in range(f.n_in())]
    outs = f.call(ins)
    return ca.Function(f.name(), ins, [2 * o + 1 for o in outs], [f.name_in(i) for i in range(f.n_in())], [f.name_out(i) for i in range(f.n_out())])


def decoy_set(eqs):
    """decoys for {name: Function} or {set: {name: Function}}"""
    return {k: (decoy_set(v) if isinstance(v, dict) else decoy(v)) for k, v in eqs.items()}


def configs(opts, tier, seed=0):
    """generator option sets: defaults, every single flip; thorough: all pairs of flips + seeded random combinations"""
    keys = list(opts)
    out = [{}]
    for k in keys:
        out.append({k: not opts[k]})
    if tier != "quick":
        for a, b in itertools.combinations(keys, 2):
            out.append({a: not opts[a], b: not opts[b]})
        import random
        rnd = random.Random(seed)
        for _ in range(40):
            out.append({k: (not opts[k]) for k in keys if rnd.random() < 0.5})
    return out


def cfg_id(cfg):
    return "default" if not cfg else "+".join("%s=%d" % (k, int(v)) for k, v in sorted(cfg.items()))


def sx_ir(f):
    nodes, outs = core._walk(f)
    ins = []
    for i in range(f.n_in()):
        sp = f.sparsity_in(i)
        ins.append({"name": f.name_in(i), "shape": [sp.size1(), sp.size2()], "nnz": sp.nnz(), "triplets": list(zip(*sp.get_triplet()))})
    os_ = []
    for i in range(f.n_out()):
        sp = f.sparsity_out(i)
        os_.append({"name": f.name_out(i), "shape": [sp.size1(), sp.size2()], "nnz": sp.nnz(), "triplets": list(zip(*sp.get_triplet()))})
    return {"inputs": ins, "outputs": os_, "nodes": nodes, "outs": outs}


def canon(ir):
    """structural hash per output nonzero (order-insensitive to register naming, sensitive to operand order)"""
    memo = {}
    N = ir["nodes"]

    def h(n):
        if n in memo:
            return memo[n]
        nd = N[n]
        if nd["op"] == "input":
            v = ("in", nd["arg"], nd["nz"])
        elif nd["op"] == "const":
            v = ("c", repr(float(nd["value"])))
        else:
            v = (nd["op"],) + tuple(h(a) for a in nd["args"])
        r = hashlib.sha1(repr(v).encode()).hexdigest()
        memo[n] = r
        return r
    sys.setrecursionlimit(200000)
    return {k: h(v) for k, v in ir["outs"].items()}


def signature(ir):
    return ([(i["name"], i["shape"][0], i["shape"][1], i["nnz"]) for i in ir["inputs"]],
            [(o["name"], o["shape"][0], o["shape"][1], o["nnz"]) for o in ir["outputs"]])


# ---------------------------------------------------------------------------- Lean emission

def _lean_chain(ir, defname):
    L = []
    b = " ".join("(a%d : Fin %d → α)" % (k, max(i["nnz"], 1)) for k, i in enumerate(ir["inputs"]))
    L.append("def %s {α : Type} [CasNum α] %s : Array α :=" % (defname, b))
    roots = []
    for o, out in enumerate(ir["outputs"]):
        for nz in range(out["nnz"]):
            roots.append(ir["outs"].get((o, nz)))
    N = ir["nodes"]
    order = core._topo(N, [r for r in roots if r is not None])
    for n in order:
        nd = N[n]
        if nd["op"] == "input":
            rhs = "a%d %d" % (nd["arg"], nd["nz"])
        elif nd["op"] == "const":
            rhs = core.const_expr(nd["value"])
        else:
            rhs = "CasNum.%s %s" % (nd["op"], " ".join("t%d" % a for a in nd["args"]))
        L.append("  let t%d : α := %s" % (n, rhs))
    L.append("  #[%s]" % ", ".join(("t%d" % r) if r is not None else "CasNum.ofInt 0" for r in roots))
    return "\n".join(L)


def _runner(ir, qual, name):
    off = 0
    args = []
    for i in ir["inputs"]:
        args.append("(fun i => x[%d + i.val]!)" % off)
        off += i["nnz"]
    return "def %s (x : Array Float) : Array Float :=\n  if x.size != %d then #[] else %s (α := Float) %s" % (name, off, qual, " ".join(args))


def _table(entries):
    return "[" + ", ".join('("%s", [%s], [%s])' % (
        n, ", ".join('("%s", %d, %d, %d)' % t for t in si), ", ".join('("%s", %d, %d, %d)' % t for t in so)) for n, (si, so) in entries) + "]"


def emit_set(ns, eqs, c_variants, c_tables):
    """ns: lean namespace; eqs {fname: Function}; c_variants {fname: [(variant id, C-IR)]}; c_tables {cfg id: [(name,(sig))]}"""
    L = [core.HEADER.rstrip(), "import Cas.Num", "import Cas.Attr", "set_option maxRecDepth 1000000", "set_option linter.unusedVariables false", ""]
    T = []
    disp = []
    sx_table = []
    for key, f in eqs.items():
        fname = f.name()    # the C entry point carries the Function's own name (the dict key is only a handle)
        s_ir = sx_ir(f)
        sx_table.append((fname, signature(s_ir)))
        L.append("namespace GenC.%s.%s" % (ns, fname))
        L.append(_lean_chain(s_ir, "sx"))
        for vid, c_ir in c_variants.get(fname, []):
            L.append(_lean_chain(c_ir, "c" if vid == 0 else "c_v%d" % vid))
        L.append("end GenC.%s.%s" % (ns, fname))
        L.append(_runner(s_ir, "GenC.%s.%s.sx" % (ns, fname), "GenC.%s.%s.run_sx" % (ns, fname)))
        disp.append('("%s.%s.sx", GenC.%s.%s.run_sx)' % (ns, fname, ns, fname))
        for vid, c_ir in c_variants.get(fname, []):
            cn = "c" if vid == 0 else "c_v%d" % vid
            if signature(c_ir) == signature(s_ir):
                T.append("theorem C09.%s.%s.%s_eq_sx : @GenC.%s.%s.%s = @GenC.%s.%s.sx := rfl" % (ns, fname, cn, ns, fname, cn, ns, fname))
                L.append(_runner(c_ir, "GenC.%s.%s.%s" % (ns, fname, cn), "GenC.%s.%s.run_%s" % (ns, fname, cn)))
                disp.append('("%s.%s.%s", GenC.%s.%s.run_%s)' % (ns, fname, cn, ns, fname, cn))
            else:
                T.append("theorem C09.%s.%s.%s_eq_sx : (1 : Nat) = 0 := rfl  -- signature of the C function differs from the equation set" % (ns, fname, cn))
        if not c_variants.get(fname):
            T.append("theorem C09.%s.%s.c_eq_sx : (1 : Nat) = 0 := rfl  -- function missing from the generated C" % (ns, fname))
        L.append("")
    L.append("def GenC.%s.sx_table : List (String × List (String × Nat × Nat × Nat) × List (String × Nat × Nat × Nat)) :=\n  %s" % (ns, _table(sx_table)))
    seen = {}
    for cid, tab in c_tables.items():
        key = json.dumps(tab)
        if key in seen:
            continue
        seen[key] = cid
        k = len(seen) - 1
        nm = "c_table" if k == 0 else "c_table_v%d" % k
        L.append("/- configuration: %s -/" % cid)
        L.append("def GenC.%s.%s : List (String × List (String × Nat × Nat × Nat) × List (String × Nat × Nat × Nat)) :=\n  %s" % (ns, nm, _table(tab)))
        T.append("/-- same entry points, names, arities and sizes as the equation set: none dropped, duplicated or renamed -/")
        T.append("theorem C09.%s.%s_eq : GenC.%s.%s = GenC.%s.sx_table := rfl" % (ns, nm, ns, nm, ns))
    L.append("")
    L.extend(T)
    L.append("")
    L.append("def GenC.%s.dispatch : List (String × (Array Float → Array Float)) := [\n  %s]" % (ns, ",\n  ".join(disp)))
    return "\n".join(L) + "\n"
