/-
  Model/Bus.lean — hand model of cyecca/sim/uros.py (Core, Publisher, Subscriber, Param, Logger) and of the timing
  logic of cyecca/estimate/attitude/estimator.py (core Lean only, executable).

  Payloads are abstracted to an integer identifier; message types to their class name.  A subscriber is one
  `Subscriber` object (one topic, one callback); subscriber `n` on topic "params" stands for node n's
  `params_callback`, which refreshes every `Param` the node owns.
-/

namespace Bus

structure St where
  pubs : List (String × String) := [("params", "Params")]   -- Core.__init__ creates the params publisher
  subs : List (String × Nat) := []          -- (topic, subscriber) in construction order
  locked : Bool := false
  decl : List (Nat × String) := []          -- declared parameters (owner node, name) in declaration order
  core : Option (List (String × Int)) := none   -- Core._params (None until init_params)
  cache : List (Nat × String × Int) := []   -- Param.value of each declared parameter
  inbox : List (Nat × String × Int) := []   -- every callback invocation, in order: (subscriber, topic, payload)
  logging : Bool := false
  logsubs : List String := []               -- topics the logger subscribed to
  latest : List (String × Int) := []        -- Logger.data_latest
  rows : List (Int × List (String × Int)) := []
  now : Int := 0                            -- simulation clock (units of 1/1024 s)
  nextTick : Int := 0                       -- when the logger process wakes up next
  deriving Repr, Inhabited

inductive Op
  | advertise (topic ty : String)
  | subscribe (topic : String) (id : Nat)
  | publish (topic ty : String) (payload : Int)     -- through the existing Publisher of `topic`, message of class `ty`
  | declare (node : Nat) (name : String) (dflt : Int)
  | initParams
  | setParam (name : String) (v : Int)
  | startLogger
  | runUntil (t : Int)                      -- Core.run(until=t)
  deriving Repr, Inhabited

inductive Out
  | ok
  | error (kind : String)
  deriving Repr, Inhabited, DecidableEq

def setKey (k : String) (v : Int) : List (String × Int) → List (String × Int)
  | [] => [(k, v)]
  | (k', v') :: t => if k' = k then (k, v) :: t else (k', v') :: setKey k v t

def subsOf (s : St) (topic : String) : List Nat := (s.subs.filter (·.1 = topic)).map (·.2)

/-- what `Publisher.publish` does once the type check has passed: call every subscriber of the topic, in order -/
def deliver (s : St) (topic : String) (payload : Int) : St :=
  let s := { s with inbox := s.inbox ++ (subsOf s topic).map (fun u => (u, topic, payload)) }
  if s.logging && s.logsubs.contains topic then { s with latest := setKey topic payload s.latest } else s

/-- the logger owns the parameter "logger/dt" under this node number -/
def loggerNode : Nat := 1000000

/-- nodes whose parameters are refreshed by a params message: the subscribers on "params", and the logger if it listens -/
def followers (s : St) : List Nat :=
  subsOf s "params" ++ (if s.logging && s.logsubs.contains "params" then [loggerNode] else [])

/-- the logger process: one row per period while its wake-up time is before `t` (fuel-bounded; a non-positive
    period would loop forever in the real code as well) -/
def ticks : Nat → Int → St → St
  | 0, _, s => s
  | fuel + 1, t, s =>
    if s.nextTick < t then
      let dt := ((s.cache.filter fun (n, nm, _) => n = loggerNode ∧ nm = "logger/dt").map (·.2.2)).headD 1
      ticks fuel t { s with rows := s.rows ++ [(s.nextTick, s.latest)], nextTick := s.nextTick + dt }
    else s

/-- node n's params_callback: `for p in self.param_list: p.update()` -/
def refresh (core : List (String × Int)) (followers : List Nat) (cache : List (Nat × String × Int)) : List (Nat × String × Int) :=
  cache.map fun (n, name, v) => if followers.contains n then (n, name, (core.lookup name).getD v) else (n, name, v)

/-- publish the parameter message `c` on "params": every subscriber is called, then the followers refresh their `Param`s -/
def broadcast (s : St) (c : List (String × Int)) : St :=
  let s := deliver { s with core := some c } "params" 0
  { s with cache := refresh c (followers s) s.cache }

/-- Core._params, or what init_params would build now -/
def coreOrInit (s : St) : List (String × Int) :=
  match s.core with | some c => c | none => s.cache.map fun (_, name, v) => (name, v)

def step (s : St) : Op → St × Out
  | .advertise topic ty =>
      if s.locked then (s, .error "AssertionError") else
      if (s.pubs.lookup topic).isSome then (s, .error "AssertionError") else
      ({ s with pubs := s.pubs ++ [(topic, ty)] }, .ok)
  | .subscribe topic id =>
      if s.locked then (s, .error "AssertionError") else
      ({ s with subs := s.subs ++ [(topic, id)] }, .ok)
  | .publish topic ty payload =>
      match s.pubs.lookup topic with
      | none => (s, .error "no-publisher")
      | some t => if t ≠ ty then (s, .error "ValueError") else (deliver s topic payload, .ok)
  | .declare node name dflt =>
      if s.locked then (s, .error "AssertionError") else
      if s.decl.any (·.2 = name) then (s, .error "ValueError") else
      ({ s with decl := s.decl ++ [(node, name)], cache := s.cache ++ [(node, name, dflt)] }, .ok)
  | .initParams => ({ s with core := some (s.cache.map fun (_, name, v) => (name, v)) }, .ok)
  | .setParam name v =>
      match s.core with
      | none => (s, .error "TypeError")
      | some c =>
        if (c.lookup name).isNone then (s, .error "ValueError") else
        -- publish on "params" (payload 0 stands for the params message), then the followers refresh
        (broadcast s (setKey name v c), .ok)
  | .startLogger =>
      if s.locked then (s, .error "AssertionError") else
      if s.decl.any (·.2 = "logger/dt") then (s, .error "ValueError") else
      ({ s with logging := true, logsubs := s.pubs.map (·.1), locked := true, latest := [], nextTick := s.now,
                decl := s.decl ++ [(loggerNode, "logger/dt")], cache := s.cache ++ [(loggerNode, "logger/dt", 5)] }, .ok)
  | .runUntil t =>
      -- Core.run: init_params if needed, broadcast the parameters, then let the processes run until t
      -- (SimPy rejects until <= now, after the broadcast has happened)
      let s := broadcast s (coreOrInit s)
      if t ≤ s.now then (s, .error "ValueError") else
      let s := if s.logging then ticks (t - s.nextTick).toNat.succ t s else s
      ({ s with now := t }, .ok)

def run (s : St) : List Op → St × List Out
  | [] => (s, [])
  | op :: ops => let (s', o) := step s op; let (s'', os) := run s' ops; (s'', o :: os)

/-! ### estimator node timing (times in microseconds) -/

structure Node where
  initialized : Bool
  haveMag : Bool := false
  tImu : Int := 0
  tAccel : Int := 0
  tMag : Int := 0
  dtMinAccel : Int := 5000
  dtMinMag : Int := 5000
  deriving Repr, Inhabited

inductive Msg
  | imu (t : Int) (initOk : Bool)   -- initOk: what `initialize` would return (error code 0) if it is called
  | mag (t : Int)
  | setDtMin (accel mag : Int)      -- parameter update
  deriving Repr, Inhabited

inductive Act
  | init (t : Int) | initFailed (t : Int) | predict (t dt : Int) | accel (t : Int) | mag (t : Int)
  deriving Repr, Inhabited, DecidableEq

def timeEps : Int := 1000

def nstep (n : Node) : Msg → Node × List Act
  | .mag t =>
      let n := { n with haveMag := true }
      if !n.initialized || t - n.tMag < n.dtMinMag - timeEps then (n, [])
      else ({ n with tMag := t }, [.mag t])
  | .imu t initOk =>
      let dt := t - n.tImu
      let n := { n with tImu := t }
      if !n.initialized then
        if n.haveMag then
          if initOk then ({ n with initialized := true }, [.init t]) else (n, [.initFailed t])
        else (n, [])
      else if dt ≤ 0 then (n, [])
      else if t - n.tAccel ≥ n.dtMinAccel - timeEps then ({ n with tAccel := t }, [.predict t dt, .accel t])
      else (n, [.predict t dt])
  | .setDtMin a m => ({ n with dtMinAccel := a, dtMinMag := m }, [])

def nrun (n : Node) : List Msg → Node × List Act
  | [] => (n, [])
  | m :: ms => let (n', a) := nstep n m; let (n'', as) := nrun n' ms; (n'', a ++ as)

end Bus
