/-
  Model/LdlIO.lean — line-protocol driver for Model/Ldl.lean (core Lean only, Float instance).
  request : `<n> <p00> <p01> … `  (row-major n×n matrix, IEEE-754 bit patterns as decimal UInt64)
  reply   : bit patterns of L (row-major, n×n) followed by the n diagonal entries of D, or `ERR <reason>`
-/
import Model.Ldl

namespace LdlModel

def replyLine (line : String) : String :=
  match (line.trimAscii.toString.splitOn " ").filter (· ≠ "") with
  | n :: rest =>
    match n.toNat?, rest.mapM (fun w => w.toNat?) with
    | some n, some bits =>
      if bits.length ≠ n * n then "ERR arity" else
      let xs : Array Float := (bits.map fun b => Float.ofBits b.toUInt64).toArray
      let P : Nat → Nat → Float := fun i j => xs.getD (i * n + j) 0.0
      let s := ldl n P
      let outL := (List.range n).flatMap fun i => (List.range n).map fun j => s.L i j
      let outD := (List.range n).map fun j => s.D j
      " ".intercalate ((outL ++ outD).map fun y => toString y.toBits.toNat)
    | _, _ => "ERR bad-number"
  | _ => "ERR empty"

partial def loop : IO Unit := do
  let stdin ← IO.getStdin
  let stdout ← IO.getStdout
  let rec go : IO Unit := do
    let line ← stdin.getLine
    if line.isEmpty then return ()
    stdout.putStrLn (replyLine line)
    go
  go
  stdout.flush

end LdlModel
