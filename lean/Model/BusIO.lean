/-
  Model/BusIO.lean — line-protocol driver for Model/Bus.lean (core Lean only).
  One operation per line; every line gets one reply line.
-/
import Model.Bus

namespace Bus

def showOut : Out → String
  | .ok => "ok"
  | .error k => "error " ++ k

def showActs (as : List Act) : String :=
  " ".intercalate (as.map fun
    | .init t => s!"init:{t}" | .initFailed t => s!"initfail:{t}" | .predict t dt => s!"predict:{t}:{dt}"
    | .accel t => s!"accel:{t}" | .mag t => s!"mag:{t}")

def dump (s : St) : String :=
  let inbox := ",".intercalate (s.inbox.map fun (u, t, p) => s!"{u}:{t}:{p}")
  let cache := ",".intercalate (s.cache.map fun (n, nm, v) => s!"{n}:{nm}:{v}")
  let rows := ";".intercalate (s.rows.map fun (t, l) => s!"{t}|" ++ ",".intercalate (l.map fun (k, v) => s!"{k}={v}"))
  s!"inbox[{inbox}] cache[{cache}] rows[{rows}] locked={s.locked}"

def toInt (s : String) : Int := s.toInt?.getD 0
def toNat (s : String) : Nat := s.toNat?.getD 0

partial def loop : IO Unit := do
  let stdin ← IO.getStdin
  let stdout ← IO.getStdout
  let rec go (s : St) (n : Node) : IO Unit := do
    let line ← stdin.getLine
    if line.isEmpty then return ()
    let ws := (line.trimAscii.toString.splitOn " ").filter (· ≠ "")
    let op : Option Op := match ws with
      | ["adv", t, ty] => some (.advertise t ty)
      | ["sub", t, i] => some (.subscribe t (toNat i))
      | ["pub", t, ty, p] => some (.publish t ty (toInt p))
      | ["decl", nd, nm, d] => some (.declare (toNat nd) nm (toInt d))
      | ["init"] => some .initParams
      | ["set", nm, v] => some (.setParam nm (toInt v))
      | ["logger"] => some .startLogger
      | ["run", t] => some (.runUntil (toInt t))
      | _ => none
    match op with
    | some o =>
        let (s', out) := step s o
        stdout.putStrLn (showOut out)
        go s' n
    | none =>
      match ws with
      | ["reset"] => stdout.putStrLn "ok"; go {} n
      | ["dump"] => stdout.putStrLn (dump s); go s n
      | ["nreset", i] => stdout.putStrLn "ok"; go s { initialized := i == "1" }
      | ["imu", t, ok] => let (n', a) := nstep n (.imu (toInt t) (ok == "1")); stdout.putStrLn ("acts " ++ showActs a); go s n'
      | ["mag", t] => let (n', a) := nstep n (.mag (toInt t)); stdout.putStrLn ("acts " ++ showActs a); go s n'
      | ["dtmin", a, m] => let (n', _) := nstep n (.setDtMin (toInt a) (toInt m)); stdout.putStrLn "acts "; go s n'
      | _ => stdout.putStrLn "BAD-INPUT"; go s n
  go {} { initialized := false }
  stdout.flush

end Bus
