/-
  Model/Ldl.lean — hand model (core Lean, executable) of `cyecca.util.ldl_symmetric_decomposition`
  for EVERY size n.  Polymorphic in the carrier (`CasNum`): Float instance for the correspondence
  run of C10, ℝ instance for the theorems of Props/C10G.

  Python (cyecca/util.py):

      for j in range(n):
          D[j, j] = P[j, j]
          L[j, j] = 1
          for k in range(0, j):
              D[j, j] -= L[j, k] ** 2 * D[k, k]
          for i in range(j + 1, n):
              T = P[i, j]
              for k in range(0, j):
                  T -= L[i, k] * L[j, k] * D[k, k]
              L[i, j] = T / D[j, j]

  Matrices are functions `Nat → Nat → α` (row, column); `D` is kept as its diagonal `Nat → α`.
  Entries the loops never write keep their initial value 0 (the structural zeros of
  `Sparsity.lower(n)` / `Sparsity.diag(n)`).
-/
import Cas.Num

namespace LdlModel
open CasNum
variable {α : Type} [CasNum α]

/-- `acc -= f 0; acc -= f 1; …; acc -= f (j-1)` (the inner `for k in range(0, j)` loops) -/
def subLoop (acc : α) (f : Nat → α) : Nat → α
  | 0 => acc
  | k + 1 => sub (subLoop acc f k) (f k)

structure St (α : Type) where
  L : Nat → Nat → α
  D : Nat → α

/-- the body of the outer loop for column `j` of an n × n matrix -/
def step (n : Nat) (P : Nat → Nat → α) (j : Nat) (s : St α) : St α :=
  let d : α := subLoop (P j j) (fun k => mul (sq (s.L j k)) (s.D k)) j
  { D := fun c => if c = j then d else s.D c
    L := fun i c =>
      if c = j then
        (if i = j then ofInt 1
         else if j < i ∧ i < n then div (subLoop (P i j) (fun k => mul (mul (s.L i k) (s.L j k)) (s.D k)) j) d
         else s.L i c)
      else s.L i c }

/-- state after the outer loop has run for columns 0 … m-1 -/
def run (n : Nat) (P : Nat → Nat → α) : Nat → St α
  | 0 => { L := fun _ _ => ofInt 0, D := fun _ => ofInt 0 }
  | m + 1 => step n P m (run n P m)

/-- `ldl_symmetric_decomposition(P)` for an n × n matrix: (L, diagonal of D) -/
def ldl (n : Nat) (P : Nat → Nat → α) : St α := run n P n

end LdlModel
