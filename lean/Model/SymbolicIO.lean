/-
  Model/SymbolicIO.lean — s-expression reader / printer for the hand model of cyecca/symbolic.py and the line-protocol
  driver used by the correspondence check (core Lean only).

  request:  s2c <name,name,…|-> <S s-expr>      reply:  OK <C s-expr>  |  ERR
            c2s <C s-expr>                      reply:  OK <S s-expr>  |  ERR
-/
import Model.Symbolic

namespace Sym

def tokenize (s : String) : List String :=
  let s := (s.replace "(" " ( ").replace ")" " ) "
  (s.splitOn " ").filter (· ≠ "")

def ufnOf : String → Option UFn
  | "sin" => some .sin | "cos" => some .cos | "tan" => some .tan | "asin" => some .asin | "acos" => some .acos
  | "atan" => some .atan | "exp" => some .exp | "log" => some .log | "abs" => some .abs | "sign" => some .sign
  | "floor" => some .floor | "ceil" => some .ceil | "sinh" => some .sinh | "cosh" => some .cosh | "tanh" => some .tanh
  | "asinh" => some .asinh | "acosh" => some .acosh | "atanh" => some .atanh | "erf" => some .erf
  | _ => none

def UFn.tag : UFn → String
  | .sin => "sin" | .cos => "cos" | .tan => "tan" | .asin => "asin" | .acos => "acos" | .atan => "atan"
  | .exp => "exp" | .log => "log" | .abs => "abs" | .sign => "sign" | .floor => "floor" | .ceil => "ceil"
  | .sinh => "sinh" | .cosh => "cosh" | .tanh => "tanh" | .asinh => "asinh" | .acosh => "acosh" | .atanh => "atanh"
  | .erf => "erf"

def relOf : String → Option Rel
  | "lt" => some .lt | "le" => some .le | "eq" => some .eq | "ne" => some .ne | "gt" => some .gt | "ge" => some .ge
  | _ => none
def Rel.tag : Rel → String
  | .lt => "lt" | .le => "le" | .eq => "eq" | .ne => "ne" | .gt => "gt" | .ge => "ge"

def op1Of : String → Option Op1
  | "neg" => some .neg | "exp" => some .exp | "log" => some .log | "sqrt" => some .sqrt | "sq" => some .sq
  | "twice" => some .twice | "sin" => some .sin | "cos" => some .cos | "tan" => some .tan | "asin" => some .asin
  | "acos" => some .acos | "atan" => some .atan | "not" => some .not | "floor" => some .floor | "ceil" => some .ceil
  | "fabs" => some .fabs | "sign" => some .sign | "erf" => some .erf | "inv" => some .inv | "sinh" => some .sinh
  | "cosh" => some .cosh | "tanh" => some .tanh | "asinh" => some .asinh | "acosh" => some .acosh | "atanh" => some .atanh
  | _ => none
def Op1.tag : Op1 → String
  | .neg => "neg" | .exp => "exp" | .log => "log" | .sqrt => "sqrt" | .sq => "sq" | .twice => "twice" | .sin => "sin"
  | .cos => "cos" | .tan => "tan" | .asin => "asin" | .acos => "acos" | .atan => "atan" | .not => "not"
  | .floor => "floor" | .ceil => "ceil" | .fabs => "fabs" | .sign => "sign" | .erf => "erf" | .inv => "inv"
  | .sinh => "sinh" | .cosh => "cosh" | .tanh => "tanh" | .asinh => "asinh" | .acosh => "acosh" | .atanh => "atanh"

def op2Of : String → Option Op2
  | "add" => some .add | "sub" => some .sub | "mul" => some .mul | "div" => some .div | "pow" => some .pow
  | "constpow" => some .constpow | "lt" => some .lt | "le" => some .le | "eq" => some .eq | "ne" => some .ne
  | "and" => some .and | "or" => some .or | "fmod" => some .fmod | "copysign" => some .copysign | "ifz" => some .ifz
  | "fmin" => some .fmin | "fmax" => some .fmax | "atan2" => some .atan2 | "remainder" => some .remainder
  | "hypot" => some .hypot
  | _ => none
def Op2.tag : Op2 → String
  | .add => "add" | .sub => "sub" | .mul => "mul" | .div => "div" | .pow => "pow" | .constpow => "constpow"
  | .lt => "lt" | .le => "le" | .eq => "eq" | .ne => "ne" | .and => "and" | .or => "or" | .fmod => "fmod"
  | .copysign => "copysign" | .ifz => "ifz" | .fmin => "fmin" | .fmax => "fmax" | .atan2 => "atan2"
  | .remainder => "remainder" | .hypot => "hypot"

/-- parse one S tree from a token list (fuel-bounded) -/
def parseS : Nat → List String → Option (S × List String)
  | 0, _ => none
  | fuel + 1, "(" :: tag :: rest =>
    let p := parseS fuel
    let close (r : S) (ts : List String) : Option (S × List String) :=
      match ts with | ")" :: t => some (r, t) | _ => none
    match tag, rest with
    | "int", n :: t => n.toInt?.bind fun k => close (.int k) t
    | "pyint", n :: t => n.toInt?.bind fun k => close (.pyint k) t
    | "rat", a :: b :: t => a.toInt?.bind fun x => b.toInt?.bind fun y => close (.rat x y) t
    | "flt", a :: b :: t => a.toInt?.bind fun x => b.toInt?.bind fun y => close (.flt x y) t
    | "half", t => close .half t
    | "one", t => close .one t
    | "zero", t => close .zero t
    | "negone", t => close .negone t
    | "pybool", b :: t => close (.pybool (b == "1")) t
    | "sym", n :: t => close (.sym n) t
    | "other", n :: t => close (.other n) t
    | "add", t => (p t).bind fun (a, t) => (p t).bind fun (b, t) => close (.add a b) t
    | "mul", t => (p t).bind fun (a, t) => (p t).bind fun (b, t) => close (.mul a b) t
    | "pow", t => (p t).bind fun (a, t) => (p t).bind fun (b, t) => close (.pow a b) t
    | "mod", t => (p t).bind fun (a, t) => (p t).bind fun (b, t) => close (.mod a b) t
    | "atan2", t => (p t).bind fun (a, t) => (p t).bind fun (b, t) => close (.atan2 a b) t
    | "and", t => (p t).bind fun (a, t) => (p t).bind fun (b, t) => close (.and a b) t
    | "or", t => (p t).bind fun (a, t) => (p t).bind fun (b, t) => close (.or a b) t
    | "not", t => (p t).bind fun (a, t) => close (.not a) t
    | "pw", t => (p t).bind fun (a, t) => (p t).bind fun (b, t) => (p t).bind fun (c, t) => close (.pw a b c) t
    | "un", f :: t => (ufnOf f).bind fun g => (p t).bind fun (a, t) => close (.un g a) t
    | "app", f :: t => (p t).bind fun (a, t) => close (.app f a) t
    | "rel", r :: t => (relOf r).bind fun g => (p t).bind fun (a, t) => (p t).bind fun (b, t) => close (.rel g a b) t
    | _, _ => none
  | _, _ => none

def parseC : Nat → List String → Option (C × List String)
  | 0, _ => none
  | fuel + 1, "(" :: tag :: rest =>
    let p := parseC fuel
    let close (r : C) (ts : List String) : Option (C × List String) :=
      match ts with | ")" :: t => some (r, t) | _ => none
    match tag, rest with
    | "cint", n :: t => n.toInt?.bind fun k => close (.cint k) t
    | "const", a :: b :: t => a.toInt?.bind fun x => b.toInt?.bind fun y => close (.const x y) t
    | "sym", n :: t => close (.sym n) t
    | "unsupported", n :: t => close (.unsupported n) t
    | "un", f :: t => (op1Of f).bind fun g => (p t).bind fun (a, t) => close (.un g a) t
    | "bin", f :: t => (op2Of f).bind fun g => (p t).bind fun (a, t) => (p t).bind fun (b, t) => close (.bin g a b) t
    | "call", f :: t => (p t).bind fun (a, t) => close (.call f a) t
    | _, _ => none
  | _, _ => none

def showS : S → String
  | .int n => s!"(int {n})" | .pyint n => s!"(pyint {n})" | .rat p q => s!"(rat {p} {q})" | .flt m e => s!"(flt {m} {e})"
  | .half => "(half)" | .one => "(one)" | .zero => "(zero)" | .negone => "(negone)"
  | .pybool b => if b then "(pybool 1)" else "(pybool 0)"
  | .sym n => s!"(sym {n})" | .other t => s!"(other {t})"
  | .add a b => s!"(add {showS a} {showS b})" | .mul a b => s!"(mul {showS a} {showS b})"
  | .pow a b => s!"(pow {showS a} {showS b})" | .mod a b => s!"(mod {showS a} {showS b})"
  | .atan2 a b => s!"(atan2 {showS a} {showS b})" | .and a b => s!"(and {showS a} {showS b})"
  | .or a b => s!"(or {showS a} {showS b})" | .not a => s!"(not {showS a})"
  | .pw a b c => s!"(pw {showS a} {showS b} {showS c})"
  | .un f a => s!"(un {f.tag} {showS a})" | .app f a => s!"(app {f} {showS a})"
  | .rel r a b => s!"(rel {r.tag} {showS a} {showS b})"

def showC : C → String
  | .cint n => s!"(cint {n})" | .const m e => s!"(const {m} {e})" | .sym n => s!"(sym {n})"
  | .unsupported t => s!"(unsupported {t})"
  | .un f a => s!"(un {f.tag} {showC a})" | .bin f a b => s!"(bin {f.tag} {showC a} {showC b})"
  | .call f a => s!"(call {f} {showC a})"

def reply (line : String) : String :=
  match tokenize line.trimAscii.toString with
  | "s2c" :: fd :: ts =>
    let names := if fd == "-" then [] else fd.splitOn ","
    match parseS (ts.length + 1) ts with
    | some (e, []) => match s2c names e with
                      | .ok c => "OK " ++ showC c
                      | .error _ => "ERR"
    | _ => "BAD-INPUT"
  | "c2s" :: ts =>
    match parseC (ts.length + 1) ts with
    | some (c, []) => match c2s c with
                      | .ok s => "OK " ++ showS s
                      | .error _ => "ERR"
    | _ => "BAD-INPUT"
  | _ => "BAD-INPUT"

partial def loop : IO Unit := do
  let stdin ← IO.getStdin
  let stdout ← IO.getStdout
  let rec go : IO Unit := do
    let line ← stdin.getLine
    if line.isEmpty then return ()
    stdout.putStrLn (reply line)
    go
  go
  stdout.flush

end Sym
