/-
  Model/Symbolic.lean — hand model of cyecca/symbolic.py's two converters (core Lean only, executable).

  `S` are SymPy expression trees as the converters see them (one constructor per Python type the code dispatches
  on), `C` are CasADi SX scalar expression trees (one constructor per opcode the code dispatches on).
  `s2c` mirrors `_sympy_parser`, `c2s` mirrors `casadi_to_sympy`, case by case, including what is rejected.
  n-ary Add / Mul are folded to the left as the code does (`s = 0; s += prs(arg)`), here as binary nodes.
-/

namespace Sym

inductive UFn
  | sin | cos | tan | asin | acos | atan | exp | log | abs | sign | floor | ceil
  | sinh | cosh | tanh | asinh | acosh | atanh | erf
  deriving DecidableEq, Repr, Inhabited

def UFn.name : UFn → String
  | .sin => "sin" | .cos => "cos" | .tan => "tan" | .asin => "asin" | .acos => "acos" | .atan => "atan"
  | .exp => "exp" | .log => "log" | .abs => "Abs" | .sign => "sign" | .floor => "floor" | .ceil => "ceiling"
  | .sinh => "sinh" | .cosh => "cosh" | .tanh => "tanh" | .asinh => "asinh" | .acosh => "acosh" | .atanh => "atanh"
  | .erf => "erf"

inductive Rel | lt | le | eq | ne | gt | ge
  deriving DecidableEq, Repr, Inhabited

/-- SymPy-side trees -/
inductive S
  | int (n : Int)              -- sympy.Integer (other than the singletons below)
  | rat (p : Int) (q : Int)    -- sympy.Rational p/q (q > 1)
  | flt (m : Int) (e : Int)    -- sympy.Float / python float, value m·2^e
  | half | one | zero | negone -- singleton number classes: they have their own Python types
  | pyint (n : Int)            -- plain python int
  | pybool (b : Bool)          -- plain python bool
  | sym (name : String)
  | add (a b : S) | mul (a b : S) | pow (b e : S)
  | un (f : UFn) (a : S)
  | app (fname : String) (a : S)   -- undefined function applied (user-supplied map)
  | mod (a b : S) | atan2 (a b : S)
  | rel (r : Rel) (a b : S) | not (a : S) | and (a b : S) | or (a b : S)
  | pw (v c d : S)             -- Piecewise((v, c), (d, True))
  | other (tag : String)       -- any type the converter has no case for (pi, E, exp when not mapped, …)
  deriving Repr, Inhabited

inductive Op1
  | neg | exp | log | sqrt | sq | twice | sin | cos | tan | asin | acos | atan | not | floor | ceil | fabs | sign
  | erf | inv | sinh | cosh | tanh | asinh | acosh | atanh
  deriving DecidableEq, Repr, Inhabited

inductive Op2
  | add | sub | mul | div | pow | constpow | lt | le | eq | ne | and | or | fmod | copysign | ifz | fmin | fmax
  | atan2 | remainder | hypot
  deriving DecidableEq, Repr, Inhabited

/-- CasADi-side trees -/
inductive C
  | cint (n : Int)             -- integer-valued constant
  | const (m : Int) (e : Int)  -- any other finite double constant m·2^e
  | sym (name : String)        -- OP_PARAMETER
  | un (op : Op1) (a : C)
  | bin (op : Op2) (a b : C)
  | call (fname : String) (a : C)  -- a user-supplied map applied (opaque)
  | unsupported (tag : String)     -- OP_CALL, matrix opcodes, …
  deriving Repr, Inhabited

/-! ### sympy → casadi (`_sympy_parser`) -/

def trigOf : UFn → Option Op1
  | .sin => some .sin | .cos => some .cos | .tan => some .tan | .atan => some .atan
  | _ => none

def s2c (fd : List String) : S → Except String C
  | .add a b => do let x ← s2c fd a; let y ← s2c fd b; pure (.bin .add x y)
  | .mul a b => do let x ← s2c fd a; let y ← s2c fd b; pure (.bin .mul x y)
  | .int n => pure (.cint n)
  | .pow b e => do
      let x ← s2c fd b
      match e with
      | .half => pure (.un .sqrt x)
      | _ => do let y ← s2c fd e; pure (.bin .pow x y)
  | .sym n => pure (.sym n)
  | .pyint n => pure (.cint n)
  | .rat p q => pure (.bin .div (.cint p) (.cint q))
  | .flt m e => pure (.const m e)
  | .one => pure (.cint 1)
  | .zero => pure (.cint 0)
  | .negone => pure (.cint (-1))
  | .half => pure (.const 1 (-1))
  | .un f a =>
      match trigOf f with
      | some op => do let x ← s2c fd a; pure (.un op x)
      | none => if fd.contains f.name then do let x ← s2c fd a; pure (.call f.name x)
                else throw ("unhandled type: " ++ f.name)
  | .app g a => if fd.contains g then do let x ← s2c fd a; pure (.call g x) else throw ("unhandled type: " ++ g)
  | .pybool _ => throw "unhandled type: bool"
  | .mod _ _ => throw "unhandled type: Mod"
  | .atan2 _ _ => throw "unhandled type: atan2"
  | .rel _ _ _ => throw "unhandled type: relational"
  | .not _ => throw "unhandled type: Not"
  | .and _ _ => throw "unhandled type: And"
  | .or _ _ => throw "unhandled type: Or"
  | .pw _ _ _ => throw "unhandled type: Piecewise"
  | .other t => throw ("unhandled type: " ++ t)

/-! ### casadi → sympy (`casadi_to_sympy`) -/

def un1 : Op1 → Option UFn
  | .exp => some .exp | .log => some .log | .sin => some .sin | .cos => some .cos | .tan => some .tan
  | .asin => some .asin | .acos => some .acos | .atan => some .atan | .floor => some .floor | .ceil => some .ceil
  | .fabs => some .abs | .sign => some .sign | .erf => some .erf | .sinh => some .sinh | .cosh => some .cosh
  | .tanh => some .tanh | .asinh => some .asinh | .atanh => some .atanh
  | _ => none

def c2s : C → Except String S
  | .cint n => pure (.pyint n)
  | .const m e => pure (.flt m e)
  | .sym n => pure (.sym n)
  | .call _ _ => throw "OP_CALL"
  | .unsupported t => throw t
  | .un op a => do
      let x ← c2s a
      match op with
      | .neg => pure (.mul .negone x)
      | .sqrt => pure (.pow x .half)
      | .sq => pure (.pow x (.pyint 2))
      | .twice => pure (.mul (.pyint 2) x)
      | .not => pure (.not x)
      | .inv => pure (.mul (.pyint 1) (.pow x .negone))
      | .acosh => throw "op: acosh"
      | .ceil => throw "AttributeError: module 'sympy' has no attribute 'ceil'"   -- the code says sympy.ceil (it is sympy.ceiling)
      | o => match un1 o with
             | some f => pure (.un f x)
             | none => throw "op"
  | .bin op a b => do
      let x ← c2s a
      let y ← c2s b
      match op with
      | .add => pure (.add x y)
      | .sub => pure (.add x (.mul .negone y))
      | .mul => pure (.mul x y)
      | .div => pure (.mul x (.pow y .negone))
      | .pow => pure (.pow x y)
      | .constpow => throw "op OP_CONSTPOW"
      | .lt => pure (.rel .lt x y)
      | .le => pure (.rel .le x y)
      | .eq => pure (.rel .eq x y)
      | .ne => pure (.rel .ne x y)
      | .and => pure (.and x y)
      | .or => pure (.or x y)
      | .fmod => pure (.mul (.un .sign x) (.mod (.un .abs x) (.un .abs y)))
      | .copysign => throw "OP_COPYSIGN"
      | .ifz => pure (.pw y x .zero)
      | .fmin => pure (.pw x (.rel .lt x y) y)
      | .fmax => pure (.pw x (.rel .gt x y) y)
      | .atan2 => pure (.atan2 x y)
      | .hypot => throw "OP_HYPOT"
      | .remainder =>
          -- a − b·(floor(h) − [h mod 2 = 1]),  h = a/b + 1/2
          let h := S.add (.mul x (.pow y .negone)) .half
          pure (.add x (.mul .negone (.mul y (.add (.un .floor h) (.mul .negone (.pw .one (.rel .eq (.mod h (.pyint 2)) .one) .zero))))))

end Sym
