/-
  Model/Bezier.lean — hand model (core Lean, executable) of `cyecca.models.bezier.Bezier`
  for EVERY degree n: De Casteljau evaluation and the control points of the m-th derivative
  curve.  Polymorphic in the numeric carrier (`CasNum`): the `Float` instance is run against the
  real class by the C18 correspondence check, the `ℝ` instance is what Props/C18G proves about.

  Python (cyecca/models/bezier.py):

      def eval(self, t):
          beta = t / self.T
          A = ca.SX(self.P)
          for j in range(1, self.n + 1):
              for k in range(self.n + 1 - j):
                  A[:, k] = A[:, k] * (1 - beta) + A[:, k + 1] * beta
          return A[:, 0]

      def deriv(self, m=1):
          D = ca.SX(self.P)
          for j in range(0, m):
              D = (self.n - j) * ca.horzcat(*[D[:, i + 1] - D[:, i] for i in range(self.n - j)])
          return Bezier(D / self.T**m, self.T)

  One row of control points is a function `Nat → α` (column index ↦ value; only columns 0..n are
  read).  The inner loop runs k upwards and reads column k+1 before it is overwritten, so one
  sweep of it is `dcStep`; the columns it leaves untouched are never read for the result.
-/
import Cas.Num

namespace BezierModel
open CasNum
variable {α : Type} [CasNum α]

/-- one sweep of the inner loop: A[k] ← A[k]·(1 − β) + A[k+1]·β -/
def dcStep (β : α) (A : Nat → α) : Nat → α :=
  fun k => add (mul (A k) (sub (ofInt 1) β)) (mul (A (k + 1)) β)

/-- n-fold application (the outer loop) -/
def iter {β : Type} (f : β → β) : Nat → β → β
  | 0, a => a
  | n + 1, a => iter f n (f a)

/-- `Bezier(P, T).eval(t)` for a curve of degree `n` -/
def eval (n : Nat) (T : α) (P : Nat → α) (t : α) : α :=
  (iter (dcStep (div t T)) n P) 0

/-- the body of one pass of the loop in `deriv`: D ← c · (D[i+1] − D[i]) -/
def diffStep (c : α) (D : Nat → α) : Nat → α :=
  fun i => mul c (sub (D (i + 1)) (D i))

/-- `D` after `m` passes of the loop in `deriv` on a curve of degree `n` (factor n − j in pass j) -/
def derivRaw (n : Nat) : Nat → (Nat → α) → Nat → α
  | 0, P => P
  | m + 1, P => diffStep (ofInt ((n - m : Nat) : Int)) (derivRaw n m P)

/-- x^m by repeated multiplication (Python `T**m`; compared with a tolerance, not bit for bit) -/
def npow (x : α) : Nat → α
  | 0 => ofInt 1
  | m + 1 => mul (npow x m) x

/-- control points of `Bezier(P, T).deriv(m)` (a curve of degree n − m over the same T) -/
def deriv (n m : Nat) (T : α) (P : Nat → α) : Nat → α :=
  fun i => div (derivRaw n m P i) (npow T m)

/-- `Bezier(P, T).deriv(m).eval(t)` -/
def evalDeriv (n m : Nat) (T : α) (P : Nat → α) (t : α) : α :=
  eval (n - m) T (deriv n m T P) t

end BezierModel
