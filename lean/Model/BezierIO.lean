/-
  Model/BezierIO.lean — line-protocol driver for Model/Bezier.lean (core Lean only, Float instance).

  request : `<n> <m> <T> <t> <p0> … <pn>`   n = degree, m = derivative order (0 = the curve itself);
            T, t, p_k as IEEE-754 bit patterns (decimal UInt64)
  reply   : bit pattern of `Bezier(P, T).deriv(m).eval(t)` (m = 0: `Bezier(P, T).eval(t)`), or `ERR <reason>`
-/
import Model.Bezier

namespace BezierModel

def replyLine (line : String) : String :=
  match (line.trimAscii.toString.splitOn " ").filter (· ≠ "") with
  | n :: m :: rest =>
    match n.toNat?, m.toNat?, rest.mapM (fun w => w.toNat?) with
    | some n, some m, some bits =>
      let xs := bits.map fun b => Float.ofBits b.toUInt64
      match xs with
      | T :: t :: ps =>
        if ps.length ≠ n + 1 then "ERR arity"
        else if m > n then "ERR order"
        else
          let P : Nat → Float := fun k => ps.getD k 0.0
          let y : Float := if m = 0 then eval n T P t else evalDeriv n m T P t
          toString y.toBits.toNat
      | _ => "ERR arity"
    | _, _, _ => "ERR bad-number"
  | _ => "ERR empty"

partial def loop : IO Unit := do
  let stdin ← IO.getStdin
  let stdout ← IO.getStdout
  let rec go : IO Unit := do
    let line ← stdin.getLine
    if line.isEmpty then return ()
    stdout.putStrLn (replyLine line)
    go
  go
  stdout.flush

end BezierModel
