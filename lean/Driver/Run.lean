/-
  Driver/Run.lean — line protocol used by the correspondence check (core Lean only).

  request : `<function name> <u64> <u64> …`   (IEEE-754 bit patterns of the doubles, decimal)
  reply   : `<u64> <u64> …`  or  `ERR <reason>`
-/

namespace Driver

def parseBits (ws : List String) : Option (Array Float) :=
  ws.foldlM (init := #[]) fun acc w =>
    match w.toNat? with
    | some n => some (acc.push (Float.ofBits n.toUInt64))
    | none => none

def reply (tbl : List (String × (Array Float → Array Float))) (line : String) : String :=
  match (line.trimAscii.toString.splitOn " ").filter (· ≠ "") with
  | [] => "ERR empty"
  | f :: ws =>
    match tbl.lookup f with
    | none => "ERR unknown-function"
    | some run =>
      match parseBits ws with
      | none => "ERR bad-number"
      | some xs =>
        let ys := run xs
        if ys.isEmpty then "ERR arity" else
        " ".intercalate (ys.toList.map fun y => toString y.toBits.toNat)

partial def loop (tbl : List (String × (Array Float → Array Float))) : IO Unit := do
  let stdin ← IO.getStdin
  let stdout ← IO.getStdout
  let rec go : IO Unit := do
    let line ← stdin.getLine
    if line.isEmpty then return ()
    stdout.putStrLn (reply tbl line)
    go
  go
  stdout.flush

end Driver
