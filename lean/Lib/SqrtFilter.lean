/-
  Lib/SqrtFilter.lean — the algebra behind cyecca.util.sqrt_correct, for every state dimension and
  measurement dimension (index types are arbitrary finite types).

  The routine forms  B = [[Rs, H W], [0, W]],  factors  Bᵀ = Q R  (Q orthogonal, R upper triangular) and
  reads  L = Rᵀ = [[Ss, 0], [G, W⁺]]  so that  B = L Qᵀ.  Everything the filter needs follows from
  B Bᵀ = L Lᵀ, block by block.
-/
import Mathlib.Data.Matrix.Block
import Mathlib.LinearAlgebra.Matrix.PosDef
import Mathlib.Algebra.Order.Star.Real
import Mathlib.Tactic.Abel
import Mathlib.Tactic.NoncommRing

open Matrix

namespace SqrtFilter

variable {M N : Type} [Fintype M] [Fintype N] [DecidableEq M] [DecidableEq N]

/-- block identities with the upper-right block of B left general (C stands for H W) -/
theorem blocks' (Rs : Matrix M M ℝ) (C : Matrix M N ℝ) (W : Matrix N N ℝ)
    (Q : Matrix (M ⊕ N) (M ⊕ N) ℝ) (Ss : Matrix M M ℝ) (G : Matrix N M ℝ) (Wp : Matrix N N ℝ)
    (hQ : Qᵀ * Q = 1)
    (hB : fromBlocks Rs C 0 W = fromBlocks Ss 0 G Wp * Qᵀ) :
    Ss * Ssᵀ = C * Cᵀ + Rs * Rsᵀ ∧ G * Ssᵀ = W * Cᵀ ∧ G * Gᵀ + Wp * Wpᵀ = W * Wᵀ := by
  have h1 : fromBlocks Rs C 0 W * (fromBlocks Rs C 0 W)ᵀ
      = fromBlocks Ss 0 G Wp * (fromBlocks Ss 0 G Wp)ᵀ := by
    rw [hB, transpose_mul, transpose_transpose, Matrix.mul_assoc, ← Matrix.mul_assoc Qᵀ, hQ, Matrix.one_mul]
  simp only [fromBlocks_transpose, fromBlocks_multiply, transpose_zero, Matrix.mul_zero, Matrix.zero_mul,
    add_zero, zero_add] at h1
  rw [fromBlocks_inj] at h1
  obtain ⟨a, _, c, d⟩ := h1
  refine ⟨?_, ?_, ?_⟩
  · rw [← a]; abel
  · rw [← c]
  · rw [← d]

/-- block identities of the square-root measurement update -/
theorem blocks (Rs : Matrix M M ℝ) (H : Matrix M N ℝ) (W : Matrix N N ℝ)
    (Q : Matrix (M ⊕ N) (M ⊕ N) ℝ) (Ss : Matrix M M ℝ) (G : Matrix N M ℝ) (Wp : Matrix N N ℝ)
    (hQ : Qᵀ * Q = 1)
    (hB : fromBlocks Rs (H * W) 0 W = fromBlocks Ss 0 G Wp * Qᵀ) :
    Ss * Ssᵀ = H * (W * Wᵀ) * Hᵀ + Rs * Rsᵀ ∧ G * Ssᵀ = W * Wᵀ * Hᵀ ∧ G * Gᵀ + Wp * Wpᵀ = W * Wᵀ := by
  obtain ⟨a, c, d⟩ := blocks' Rs (H * W) W Q Ss G Wp hQ hB
  refine ⟨?_, ?_, d⟩
  · rw [a, transpose_mul]; simp only [Matrix.mul_assoc]
  · rw [c, transpose_mul]; simp only [Matrix.mul_assoc]

/-- the same for matrices over one flat index type K ≃ M ⊕ N, in the shape the generated programs have:
    A is the matrix handed to the QR routine (A = Bᵀ), Q R = A, Qᵀ Q = 1, R has a zero lower-left block -/
theorem flat {K : Type} [Fintype K] [DecidableEq K] (e : M ⊕ N ≃ K) (A Q R : Matrix K K ℝ)
    (hQ : Qᵀ * Q = 1) (hQR : Q * R = A)
    (hA : ∀ i j, A (e (Sum.inl j)) (e (Sum.inr i)) = 0)
    (hR : ∀ i j, R (e (Sum.inr i)) (e (Sum.inl j)) = 0) :
    let B := Aᵀ.submatrix e e
    let L := Rᵀ.submatrix e e
    L.toBlocks₁₁ * L.toBlocks₁₁ᵀ = B.toBlocks₁₂ * B.toBlocks₁₂ᵀ + B.toBlocks₁₁ * B.toBlocks₁₁ᵀ
    ∧ L.toBlocks₂₁ * L.toBlocks₁₁ᵀ = B.toBlocks₂₂ * B.toBlocks₁₂ᵀ
    ∧ L.toBlocks₂₁ * L.toBlocks₂₁ᵀ + L.toBlocks₂₂ * L.toBlocks₂₂ᵀ = B.toBlocks₂₂ * B.toBlocks₂₂ᵀ := by
  intro B L
  have hB0 : B.toBlocks₂₁ = 0 := by
    ext i j; simp [B, toBlocks₂₁, hA]
  have hL0 : L.toBlocks₁₂ = 0 := by
    ext i j; simp [L, toBlocks₁₂, hR]
  have hBf : fromBlocks B.toBlocks₁₁ B.toBlocks₁₂ 0 B.toBlocks₂₂ = B := by
    rw [← hB0]; exact fromBlocks_toBlocks B
  have hLf : fromBlocks L.toBlocks₁₁ 0 L.toBlocks₂₁ L.toBlocks₂₂ = L := by
    rw [← hL0]; exact fromBlocks_toBlocks L
  have hQ' : (Q.submatrix e e)ᵀ * (Q.submatrix e e) = 1 := by
    rw [transpose_submatrix, submatrix_mul_equiv, hQ, submatrix_one_equiv]
  have hBL : B = L * (Q.submatrix e e)ᵀ := by
    simp only [B, L]
    rw [transpose_submatrix, submatrix_mul_equiv, ← transpose_mul, hQR]
  exact blocks' _ _ _ (Q.submatrix e e) _ _ _ hQ' (by rw [hBf, hLf]; exact hBL)

/-- … in the form the filter uses: with a gain K such that K Ss = G,
    K S = P Hᵀ (so K = P Hᵀ S⁻¹ when S is invertible), W⁺W⁺ᵀ = (1 − K H) P, and P − W⁺W⁺ᵀ = G Gᵀ ⪰ 0 -/
theorem update (Rs : Matrix M M ℝ) (H : Matrix M N ℝ) (W : Matrix N N ℝ)
    (Q : Matrix (M ⊕ N) (M ⊕ N) ℝ) (Ss : Matrix M M ℝ) (G : Matrix N M ℝ) (Wp : Matrix N N ℝ) (K : Matrix N M ℝ)
    (hQ : Qᵀ * Q = 1)
    (hB : fromBlocks Rs (H * W) 0 W = fromBlocks Ss 0 G Wp * Qᵀ)
    (hK : K * Ss = G) :
    let P := W * Wᵀ
    let S := H * P * Hᵀ + Rs * Rsᵀ
    Ss * Ssᵀ = S ∧ K * S = P * Hᵀ ∧ Wp * Wpᵀ = (1 - K * H) * P ∧ P - Wp * Wpᵀ = G * Gᵀ
      ∧ (P - Wp * Wpᵀ).PosSemidef := by
  intro P S
  obtain ⟨a, c, d⟩ := blocks Rs H W Q Ss G Wp hQ hB
  have hPt : Pᵀ = P := by simp [P, transpose_mul]
  have hGG : G * Gᵀ = K * H * P := by
    have : (P * Hᵀ)ᵀ = H * P := by rw [transpose_mul, transpose_transpose, hPt]
    calc G * Gᵀ = K * Ss * Gᵀ := by rw [hK]
      _ = K * (G * Ssᵀ)ᵀ := by rw [transpose_mul, transpose_transpose, Matrix.mul_assoc]
      _ = K * (H * P) := by rw [c, this]
      _ = K * H * P := by rw [Matrix.mul_assoc]
  have e4 : P - Wp * Wpᵀ = G * Gᵀ := by
    show W * Wᵀ - Wp * Wpᵀ = G * Gᵀ
    rw [← d]; abel
  refine ⟨a, ?_, ?_, e4, ?_⟩
  · show K * (H * (W * Wᵀ) * Hᵀ + Rs * Rsᵀ) = W * Wᵀ * Hᵀ
    rw [← a, ← Matrix.mul_assoc, hK, c]
  · rw [Matrix.sub_mul, Matrix.one_mul, ← hGG]
    show Wp * Wpᵀ = W * Wᵀ - G * Gᵀ
    rw [← d]; abel
  · rw [e4]; exact posSemidef_self_mul_conjTranspose G

/-- what the gain K with K Ss = G buys, from the block identities (C stands for H W) -/
theorem gain (C : Matrix M N ℝ) (W : Matrix N N ℝ) (Ss : Matrix M M ℝ) (G : Matrix N M ℝ) (Wp : Matrix N N ℝ) (K : Matrix N M ℝ)
    (c : G * Ssᵀ = W * Cᵀ) (d : G * Gᵀ + Wp * Wpᵀ = W * Wᵀ) (hK : K * Ss = G) :
    K * (Ss * Ssᵀ) = W * Cᵀ ∧ Wp * Wpᵀ = W * Wᵀ - K * (C * Wᵀ) ∧ (W * Wᵀ - Wp * Wpᵀ).PosSemidef := by
  have hGG : G * Gᵀ = K * (C * Wᵀ) := by
    calc G * Gᵀ = K * Ss * Gᵀ := by rw [hK]
      _ = K * (G * Ssᵀ)ᵀ := by rw [transpose_mul, transpose_transpose, Matrix.mul_assoc]
      _ = K * (C * Wᵀ) := by rw [c, transpose_mul, transpose_transpose]
  have e : W * Wᵀ - Wp * Wpᵀ = G * Gᵀ := by rw [← d]; abel
  refine ⟨by rw [← Matrix.mul_assoc, hK, c], ?_, ?_⟩
  · rw [← hGG, ← d]; abel
  · rw [e]; exact posSemidef_self_mul_conjTranspose G

end SqrtFilter
