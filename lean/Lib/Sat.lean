/-
  Lib/Sat.lean — clamps, four-fold max/min (code-independent helper lemmas).
-/
import Mathlib.Data.Real.Basic
import Mathlib.Order.Lattice
import Mathlib.Tactic.Linarith
import Mathlib.Tactic.Positivity
import Cas.Real

namespace Sat

/-- CasADi's `saturate(y, 0, F)` after lowering: `y > F ? F : (!(y < 0) ? y : 0)` -/
theorem clamp0_bounds {F : ℝ} (hF : 0 ≤ F) (y : ℝ) :
    0 ≤ (if F < y then F else if ¬ y < 0 then y else 0)
      ∧ (if F < y then F else if ¬ y < 0 then y else 0) ≤ F := by
  split_ifs with h1 h2 <;> constructor <;> linarith

theorem clamp0_id {F y : ℝ} (h0 : 0 ≤ y) (h1 : y ≤ F) :
    (if F < y then F else if ¬ y < 0 then y else 0) = y := by
  rw [if_neg (not_lt.mpr h1), if_pos (not_lt.mpr h0)]

/-- general two-sided clamp as lowered: `x > hi ? hi : (x < lo ? lo : x)` -/
theorem clamp_bounds {lo hi : ℝ} (h : lo ≤ hi) (x : ℝ) :
    lo ≤ (if hi < x then hi else if x < lo then lo else x)
      ∧ (if hi < x then hi else if x < lo then lo else x) ≤ hi := by
  split_ifs with h1 h2 <;> constructor <;> linarith

theorem le_max4 (a b c d : ℝ) :
    a ≤ max (max (max a b) c) d ∧ b ≤ max (max (max a b) c) d
      ∧ c ≤ max (max (max a b) c) d ∧ d ≤ max (max (max a b) c) d :=
  ⟨le_trans (le_trans (le_max_left a b) (le_max_left _ c)) (le_max_left _ d),
   le_trans (le_trans (le_max_right a b) (le_max_left _ c)) (le_max_left _ d),
   le_trans (le_max_right _ c) (le_max_left _ d), le_max_right _ d⟩

theorem min4_le (a b c d : ℝ) :
    min (min (min a b) c) d ≤ a ∧ min (min (min a b) c) d ≤ b
      ∧ min (min (min a b) c) d ≤ c ∧ min (min (min a b) c) d ≤ d :=
  ⟨le_trans (min_le_left _ d) (le_trans (min_le_left _ c) (min_le_left a b)),
   le_trans (min_le_left _ d) (le_trans (min_le_left _ c) (min_le_right a b)),
   le_trans (min_le_left _ d) (min_le_right _ c), min_le_right _ d⟩

theorem max4_mem (a b c d : ℝ) :
    max (max (max a b) c) d = a ∨ max (max (max a b) c) d = b
      ∨ max (max (max a b) c) d = c ∨ max (max (max a b) c) d = d := by
  rcases max_choice (max (max a b) c) d with h | h
  · rw [h]; rcases max_choice (max a b) c with h' | h'
    · rw [h']; rcases max_choice a b with h'' | h'' <;> simp [h'']
    · simp [h']
  · simp [h]

theorem min4_mem (a b c d : ℝ) :
    min (min (min a b) c) d = a ∨ min (min (min a b) c) d = b
      ∨ min (min (min a b) c) d = c ∨ min (min (min a b) c) d = d := by
  rcases min_choice (min (min a b) c) d with h | h
  · rw [h]; rcases min_choice (min a b) c with h' | h'
    · rw [h']; rcases min_choice a b with h'' | h'' <;> simp [h'']
    · simp [h']
  · simp [h]

theorem max4_le {a b c d u : ℝ} (ha : a ≤ u) (hb : b ≤ u) (hc : c ≤ u) (hd : d ≤ u) :
    max (max (max a b) c) d ≤ u := max_le (max_le (max_le ha hb) hc) hd

theorem le_min4 {a b c d u : ℝ} (ha : u ≤ a) (hb : u ≤ b) (hc : u ≤ c) (hd : u ≤ d) :
    u ≤ min (min (min a b) c) d := le_min (le_min (le_min ha hb) hc) hd

end Sat

namespace Sat

/-- norm saturation as lowered by CasADi: `‖e‖ > L ? L e/‖e‖ : e` keeps the squared norm ≤ L² -/
theorem leash (p0 p1 p2 e0 e1 e2 L : ℝ) (hL : 0 ≤ L) :
    ((p0 + if L < Real.sqrt (e0 * e0 + e1 * e1 + e2 * e2) then L * e0 / Real.sqrt (e0 * e0 + e1 * e1 + e2 * e2) else e0) - p0) ^ 2
    + ((p1 + if L < Real.sqrt (e0 * e0 + e1 * e1 + e2 * e2) then L * e1 / Real.sqrt (e0 * e0 + e1 * e1 + e2 * e2) else e1) - p1) ^ 2
    + ((p2 + if L < Real.sqrt (e0 * e0 + e1 * e1 + e2 * e2) then L * e2 / Real.sqrt (e0 * e0 + e1 * e1 + e2 * e2) else e2) - p2) ^ 2
      ≤ L ^ 2 := by
  have hS : 0 ≤ e0 * e0 + e1 * e1 + e2 * e2 := by
    nlinarith [mul_self_nonneg e0, mul_self_nonneg e1, mul_self_nonneg e2]
  by_cases h : L < Real.sqrt (e0 * e0 + e1 * e1 + e2 * e2)
  · simp only [if_pos h]
    have hN : 0 < Real.sqrt (e0 * e0 + e1 * e1 + e2 * e2) := lt_of_le_of_lt hL h
    have hsq : Real.sqrt (e0 * e0 + e1 * e1 + e2 * e2) ^ 2 = e0 * e0 + e1 * e1 + e2 * e2 := Real.sq_sqrt hS
    have : (p0 + L * e0 / Real.sqrt (e0 * e0 + e1 * e1 + e2 * e2) - p0) ^ 2
        + (p1 + L * e1 / Real.sqrt (e0 * e0 + e1 * e1 + e2 * e2) - p1) ^ 2
        + (p2 + L * e2 / Real.sqrt (e0 * e0 + e1 * e1 + e2 * e2) - p2) ^ 2
        = L ^ 2 * (e0 * e0 + e1 * e1 + e2 * e2) / Real.sqrt (e0 * e0 + e1 * e1 + e2 * e2) ^ 2 := by
      field_simp; ring
    rw [this, hsq]
    have hS' : e0 * e0 + e1 * e1 + e2 * e2 ≠ 0 := by
      intro h0; rw [h0, Real.sqrt_zero] at hN; exact lt_irrefl _ hN
    rw [mul_div_assoc, div_self hS', mul_one]
  · simp only [if_neg h]
    have hle : Real.sqrt (e0 * e0 + e1 * e1 + e2 * e2) ≤ L := not_lt.mp h
    have : e0 * e0 + e1 * e1 + e2 * e2 ≤ L ^ 2 := by
      have := Real.sqrt_le_left hL |>.mp hle
      linarith [this]
    nlinarith [this]

/-- C `remainder(x, y)` lies within half a period -/
theorem roundHalfEven_close (q : ℝ) : |q - (CasReal.roundHalfEven q : ℝ)| ≤ 1 / 2 := by
  unfold CasReal.roundHalfEven
  split_ifs with h1 h2
  · have : q - (⌊q⌋ : ℝ) = 1 / 2 := by rw [← Int.self_sub_floor] at h1; exact h1
    rw [this]; norm_num
  · have : q - (⌊q⌋ : ℝ) = 1 / 2 := by rw [← Int.self_sub_floor] at h1; exact h1
    push_cast
    rw [show q - ((⌊q⌋ : ℝ) + 1) = (q - ⌊q⌋) - 1 by ring, this]; norm_num
  · exact abs_sub_round q

theorem abs_remainder_le (x y : ℝ) (hy : 0 < y) : |CasReal.remainder x y| ≤ y / 2 := by
  unfold CasReal.remainder
  have h := roundHalfEven_close (x / y)
  have : x - (CasReal.roundHalfEven (x / y) : ℝ) * y = (x / y - (CasReal.roundHalfEven (x / y) : ℝ)) * y := by
    field_simp
  rw [this, abs_mul, abs_of_pos hy]
  calc |x / y - (CasReal.roundHalfEven (x / y) : ℝ)| * y ≤ 1 / 2 * y := by
        apply mul_le_mul_of_nonneg_right h hy.le
    _ = y / 2 := by ring

end Sat
