/-
  Lib/Sat.lean — clamps, four-fold max/min (code-independent helper lemmas).
-/
import Mathlib.Data.Real.Basic
import Mathlib.Order.Lattice
import Mathlib.Tactic.Linarith
import Mathlib.Tactic.Positivity

namespace Sat

/-- CasADi's `saturate(y, 0, F)` after lowering: `y > F ? F : (!(y < 0) ? y : 0)` -/
theorem clamp0_bounds {F : ℝ} (hF : 0 ≤ F) (y : ℝ) :
    0 ≤ (if F < y then F else if ¬ y < 0 then y else 0)
      ∧ (if F < y then F else if ¬ y < 0 then y else 0) ≤ F := by
  split_ifs with h1 h2 <;> constructor <;> linarith

theorem clamp0_id {F y : ℝ} (h0 : 0 ≤ y) (h1 : y ≤ F) :
    (if F < y then F else if ¬ y < 0 then y else 0) = y := by
  rw [if_neg (not_lt.mpr h1), if_pos (not_lt.mpr h0)]

/-- general two-sided clamp as lowered: `x > hi ? hi : (x < lo ? lo : x)` -/
theorem clamp_bounds {lo hi : ℝ} (h : lo ≤ hi) (x : ℝ) :
    lo ≤ (if hi < x then hi else if x < lo then lo else x)
      ∧ (if hi < x then hi else if x < lo then lo else x) ≤ hi := by
  split_ifs with h1 h2 <;> constructor <;> linarith

theorem le_max4 (a b c d : ℝ) :
    a ≤ max (max (max a b) c) d ∧ b ≤ max (max (max a b) c) d
      ∧ c ≤ max (max (max a b) c) d ∧ d ≤ max (max (max a b) c) d :=
  ⟨le_trans (le_trans (le_max_left a b) (le_max_left _ c)) (le_max_left _ d),
   le_trans (le_trans (le_max_right a b) (le_max_left _ c)) (le_max_left _ d),
   le_trans (le_max_right _ c) (le_max_left _ d), le_max_right _ d⟩

theorem min4_le (a b c d : ℝ) :
    min (min (min a b) c) d ≤ a ∧ min (min (min a b) c) d ≤ b
      ∧ min (min (min a b) c) d ≤ c ∧ min (min (min a b) c) d ≤ d :=
  ⟨le_trans (min_le_left _ d) (le_trans (min_le_left _ c) (min_le_left a b)),
   le_trans (min_le_left _ d) (le_trans (min_le_left _ c) (min_le_right a b)),
   le_trans (min_le_left _ d) (min_le_right _ c), min_le_right _ d⟩

theorem max4_mem (a b c d : ℝ) :
    max (max (max a b) c) d = a ∨ max (max (max a b) c) d = b
      ∨ max (max (max a b) c) d = c ∨ max (max (max a b) c) d = d := by
  rcases max_choice (max (max a b) c) d with h | h
  · rw [h]; rcases max_choice (max a b) c with h' | h'
    · rw [h']; rcases max_choice a b with h'' | h'' <;> simp [h'']
    · simp [h']
  · simp [h]

theorem min4_mem (a b c d : ℝ) :
    min (min (min a b) c) d = a ∨ min (min (min a b) c) d = b
      ∨ min (min (min a b) c) d = c ∨ min (min (min a b) c) d = d := by
  rcases min_choice (min (min a b) c) d with h | h
  · rw [h]; rcases min_choice (min a b) c with h' | h'
    · rw [h']; rcases min_choice a b with h'' | h'' <;> simp [h'']
    · simp [h']
  · simp [h]

theorem max4_le {a b c d u : ℝ} (ha : a ≤ u) (hb : b ≤ u) (hc : c ≤ u) (hd : d ≤ u) :
    max (max (max a b) c) d ≤ u := max_le (max_le (max_le ha hb) hc) hd

theorem le_min4 {a b c d u : ℝ} (ha : u ≤ a) (hb : u ≤ b) (hc : u ≤ c) (hd : u ≤ d) :
    u ≤ min (min (min a b) c) d := le_min (le_min (le_min ha hb) hc) hd

end Sat
