/-
  Lib/RotExp.lean — closed form of the exponential of an element with A⁴ = −θ² A²
  (so(2), se(2), so(3), se(3), se₂(3), ℝⁿ in their matrix forms).  Code-independent.

      exp A = 1 + A + c(θ) A² + d(θ) A³,
      c(θ) = (1 − cos θ)/θ²,  d(θ) = (θ − sin θ)/θ³     (1/2 and 1/6 at θ = 0)
-/
import Mathlib.Analysis.Normed.Algebra.Exponential
import Mathlib.Analysis.SpecialFunctions.Trigonometric.Series
import Mathlib.Analysis.SpecialFunctions.Exponential
import Mathlib.Tactic.Ring
import Mathlib.Tactic.FieldSimp
import Mathlib.Tactic.Linarith

open NormedSpace Nat

namespace RotExp

variable {𝔸 : Type*} [NormedRing 𝔸] [NormedAlgebra ℝ 𝔸] [CompleteSpace 𝔸]

theorem pow_even_of_rel {A : 𝔸} {t : ℝ} (h : A ^ 4 = (-(t ^ 2)) • A ^ 2) (k : ℕ) :
    A ^ (2 * k + 2) = ((-(t ^ 2)) ^ k) • A ^ 2 := by
  induction k with
  | zero => simp
  | succ k ih =>
    have e : A ^ (2 * (k + 1) + 2) = A ^ (2 * k + 2) * A ^ 2 := by rw [← pow_add]; ring_nf
    have e4 : A ^ 2 * A ^ 2 = A ^ 4 := by rw [← pow_add]
    rw [e, ih, smul_mul_assoc, e4, h, smul_smul, ← pow_succ]

theorem pow_odd_of_rel {A : 𝔸} {t : ℝ} (h : A ^ 4 = (-(t ^ 2)) • A ^ 2) (k : ℕ) :
    A ^ (2 * k + 3) = ((-(t ^ 2)) ^ k) • A ^ 3 := by
  have e : A ^ (2 * k + 3) = A ^ (2 * k + 2) * A := by rw [← pow_succ]
  rw [e, pow_even_of_rel h, smul_mul_assoc, ← pow_succ]

/-- the two coefficient series -/
noncomputable def cTerm (t : ℝ) (k : ℕ) : ℝ := (-1) ^ k * t ^ (2 * k) / ((2 * k + 2)! : ℝ)
noncomputable def dTerm (t : ℝ) (k : ℕ) : ℝ := (-1) ^ k * t ^ (2 * k) / ((2 * k + 3)! : ℝ)

theorem hasSum_expSeries_of_rel {A : 𝔸} {t : ℝ} (h : A ^ 4 = (-(t ^ 2)) • A ^ 2) {c d : ℝ}
    (hc : HasSum (cTerm t) c) (hd : HasSum (dTerm t) d) :
    HasSum (fun n => expSeries ℝ 𝔸 n fun _ => A) (1 + A + c • A ^ 2 + d • A ^ 3) := by
  rw [← hasSum_nat_add_iff' 2]
  have e : HasSum (fun k : ℕ => expSeries ℝ 𝔸 (2 * k + 2) fun _ => A) (c • A ^ 2) := by
    convert hc.smul_const (A ^ 2) using 1
    ext k
    rw [expSeries_apply_eq, pow_even_of_rel h, smul_smul]
    congr 1
    unfold cTerm
    rw [neg_pow, ← pow_mul]; ring
  have o : HasSum (fun k : ℕ => expSeries ℝ 𝔸 (2 * k + 1 + 2) fun _ => A) (d • A ^ 3) := by
    convert hd.smul_const (A ^ 3) using 1
    ext k
    rw [expSeries_apply_eq, show 2 * k + 1 + 2 = 2 * k + 3 by ring, pow_odd_of_rel h, smul_smul]
    congr 1
    unfold dTerm
    rw [neg_pow, ← pow_mul]; ring
  have := HasSum.even_add_odd (f := fun n => expSeries ℝ 𝔸 (n + 2) fun _ => A) e o
  have e2 : (1 + A + c • A ^ 2 + d • A ^ 3 - ∑ i ∈ Finset.range 2, (expSeries ℝ 𝔸 i) fun _ => A)
      = c • A ^ 2 + d • A ^ 3 := by
    simp [Finset.sum_range_succ, expSeries_apply_eq]
    abel
  rw [e2]
  exact this

theorem exp_of_rel {A : 𝔸} {t : ℝ} (h : A ^ 4 = (-(t ^ 2)) • A ^ 2) {c d : ℝ}
    (hc : HasSum (cTerm t) c) (hd : HasSum (dTerm t) d) :
    exp A = 1 + A + c • A ^ 2 + d • A ^ 3 := by
  rw [exp_eq_tsum ℝ]
  have := (hasSum_expSeries_of_rel h hc hd).tsum_eq
  simp only [expSeries_apply_eq] at this
  exact this

end RotExp

namespace RotExp

variable {𝔸 : Type*} [NormedRing 𝔸] [NormedAlgebra ℝ 𝔸] [CompleteSpace 𝔸]

/-- analytic coefficient `(1 − cos t)/t²`, extended by 1/2 at 0 -/
noncomputable def cFun (t : ℝ) : ℝ := if t = 0 then 1 / 2 else (1 - Real.cos t) / t ^ 2
/-- analytic coefficient `(t − sin t)/t³`, extended by 1/6 at 0 -/
noncomputable def dFun (t : ℝ) : ℝ := if t = 0 then 1 / 6 else (t - Real.sin t) / t ^ 3

theorem hasSum_cTerm (t : ℝ) : HasSum (cTerm t) (cFun t) := by
  unfold cFun
  by_cases h0 : t = 0
  · rw [if_pos h0, h0]
    have : cTerm 0 = fun k => if k = 0 then (1 / 2 : ℝ) else 0 := by
      funext k
      unfold cTerm
      by_cases hk : k = 0
      · simp [hk]
      · simp [hk, zero_pow (by omega : 2 * k ≠ 0)]
    rw [this]
    exact hasSum_ite_eq 0 (1 / 2 : ℝ)
  · rw [if_neg h0]
    have hcos := Real.hasSum_cos t
    rw [← hasSum_nat_add_iff' 1] at hcos
    simp only [Finset.sum_range_one, mul_zero, pow_zero, Nat.factorial_zero, Nat.cast_one, div_one, mul_one] at hcos
    have key : (fun n : ℕ => (-1 : ℝ) ^ (n + 1) * t ^ (2 * (n + 1)) / ((2 * (n + 1))! : ℝ))
        = fun n => (-(t ^ 2)) * cTerm t n := by
      funext n
      unfold cTerm
      rw [show 2 * (n + 1) = 2 * n + 2 by ring, pow_succ (-1 : ℝ) n, pow_add t (2 * n) 2]
      ring
    rw [key] at hcos
    have h2 : (-(t ^ 2)) ≠ 0 := by simpa using pow_ne_zero 2 h0
    have := hcos.mul_left ((-(t ^ 2))⁻¹)
    simp only [← mul_assoc, inv_mul_cancel₀ h2, one_mul] at this
    have e : (1 - Real.cos t) / t ^ 2 = (-(t ^ 2))⁻¹ * (Real.cos t - 1) := by
      have ht2 : t ^ 2 ≠ 0 := pow_ne_zero 2 h0
      rw [inv_neg, neg_mul, inv_mul_eq_div, ← neg_div]; congr 1; ring
    rw [e]; exact this

theorem hasSum_dTerm (t : ℝ) : HasSum (dTerm t) (dFun t) := by
  unfold dFun
  by_cases h0 : t = 0
  · rw [if_pos h0, h0]
    have : dTerm 0 = fun k => if k = 0 then (1 / 6 : ℝ) else 0 := by
      funext k
      unfold dTerm
      by_cases hk : k = 0
      · simp [hk, Nat.factorial]
      · simp [hk, zero_pow (by omega : 2 * k ≠ 0)]
    rw [this]
    exact hasSum_ite_eq 0 (1 / 6 : ℝ)
  · rw [if_neg h0]
    have hsin := Real.hasSum_sin t
    rw [← hasSum_nat_add_iff' 1] at hsin
    simp only [Finset.sum_range_one, mul_zero, pow_zero, zero_add, pow_one, Nat.factorial_one, Nat.cast_one,
      div_one, one_mul] at hsin
    have key : (fun n : ℕ => (-1 : ℝ) ^ (n + 1) * t ^ (2 * (n + 1) + 1) / ((2 * (n + 1) + 1)! : ℝ))
        = fun n => (-(t ^ 3)) * dTerm t n := by
      funext n
      unfold dTerm
      rw [show 2 * (n + 1) + 1 = 2 * n + 3 by ring, pow_succ (-1 : ℝ) n, pow_add t (2 * n) 3]
      ring
    rw [key] at hsin
    have h3 : (-(t ^ 3)) ≠ 0 := by simpa using pow_ne_zero 3 h0
    have := hsin.mul_left ((-(t ^ 3))⁻¹)
    simp only [← mul_assoc, inv_mul_cancel₀ h3, one_mul] at this
    have e : (t - Real.sin t) / t ^ 3 = (-(t ^ 3))⁻¹ * (Real.sin t - t) := by
      have ht3 : t ^ 3 ≠ 0 := pow_ne_zero 3 h0
      rw [inv_neg, neg_mul, inv_mul_eq_div, ← neg_div]; congr 1; ring
    rw [e]; exact this

/-- **closed form of the exponential** for `A⁴ = −t² A²` -/
theorem exp_eq_closed_form {A : 𝔸} {t : ℝ} (h : A ^ 4 = (-(t ^ 2)) • A ^ 2) :
    exp A = 1 + A + cFun t • A ^ 2 + dFun t • A ^ 3 :=
  exp_of_rel h (hasSum_cTerm t) (hasSum_dTerm t)

end RotExp
