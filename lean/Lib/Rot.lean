/-
  Lib/Rot.lean — code-independent rotation algebra (quaternions, MRPs, hat map).
  Hand-written mathematics; nothing here mentions the translated code.
-/
import Mathlib.LinearAlgebra.Matrix.Notation
import Mathlib.LinearAlgebra.Matrix.Determinant.Basic
import Mathlib.Data.Matrix.Mul
import Mathlib.Data.Real.Basic
import Mathlib.Tactic.Ring
import Mathlib.Tactic.FieldSimp
import Mathlib.Tactic.FinCases
import Mathlib.Tactic.Linarith
import Mathlib.Tactic.LinearCombination
import Mathlib.Tactic.Positivity

namespace Rot

/-- entry-wise goals of a `Fin m × Fin n` matrix equation -/
macro "mat_entries" : tactic =>
  `(tactic| (ext i j; fin_cases i <;> fin_cases j))

/-- so(3) hat map -/
def hat (w : Fin 3 → ℝ) : Matrix (Fin 3) (Fin 3) ℝ :=
  !![0, -w 2, w 1; w 2, 0, -w 0; -w 1, w 0, 0]

def dot3 (a b : Fin 3 → ℝ) : ℝ := a 0 * b 0 + a 1 * b 1 + a 2 * b 2
def cross (a b : Fin 3 → ℝ) : Fin 3 → ℝ :=
  ![a 1 * b 2 - a 2 * b 1, a 2 * b 0 - a 0 * b 2, a 0 * b 1 - a 1 * b 0]

/-! ### quaternions (scalar first), not necessarily of unit norm -/

def qmul (q p : Fin 4 → ℝ) : Fin 4 → ℝ :=
  ![q 0 * p 0 - q 1 * p 1 - q 2 * p 2 - q 3 * p 3,
    q 1 * p 0 + q 0 * p 1 - q 3 * p 2 + q 2 * p 3,
    q 2 * p 0 + q 3 * p 1 + q 0 * p 2 - q 1 * p 3,
    q 3 * p 0 - q 2 * p 1 + q 1 * p 2 + q 0 * p 3]

def qconj (q : Fin 4 → ℝ) : Fin 4 → ℝ := ![q 0, -q 1, -q 2, -q 3]

def qnormSq (q : Fin 4 → ℝ) : ℝ := q 0 ^ 2 + q 1 ^ 2 + q 2 ^ 2 + q 3 ^ 2

/-- homogeneous quadratic rotation-matrix form; for unit `q` it is the rotation matrix -/
def qmat (q : Fin 4 → ℝ) : Matrix (Fin 3) (Fin 3) ℝ :=
  !![q 0 * q 0 + q 1 * q 1 - q 2 * q 2 - q 3 * q 3, 2 * (q 1 * q 2 - q 0 * q 3), 2 * (q 1 * q 3 + q 0 * q 2);
     2 * (q 1 * q 2 + q 0 * q 3), q 0 * q 0 + q 2 * q 2 - q 1 * q 1 - q 3 * q 3, 2 * (q 2 * q 3 - q 0 * q 1);
     2 * (q 1 * q 3 - q 0 * q 2), 2 * (q 2 * q 3 + q 0 * q 1), q 0 * q 0 + q 3 * q 3 - q 1 * q 1 - q 2 * q 2]

theorem qmat_mul (q p : Fin 4 → ℝ) : qmat (qmul q p) = qmat q * qmat p := by
  mat_entries <;> simp [qmat, qmul, Matrix.mul_apply, Fin.sum_univ_succ] <;> ring

theorem qmat_smul (s : ℝ) (q : Fin 4 → ℝ) : qmat (s • q) = (s ^ 2) • qmat q := by
  mat_entries <;> simp [qmat] <;> ring

theorem qmat_neg (q : Fin 4 → ℝ) : qmat (-q) = qmat q := by
  mat_entries <;> simp [qmat]

theorem qmat_transpose (q : Fin 4 → ℝ) : (qmat q).transpose = qmat (qconj q) := by
  mat_entries <;> simp [qmat, qconj] <;> ring

theorem qmat_conj_mul (q : Fin 4 → ℝ) : qmat (qconj q) * qmat q = (qnormSq q ^ 2) • (1 : Matrix (Fin 3) (Fin 3) ℝ) := by
  mat_entries <;> simp [qmat, qconj, qnormSq, Matrix.mul_apply, Fin.sum_univ_succ] <;> ring

theorem qmat_mul_conj (q : Fin 4 → ℝ) : qmat q * qmat (qconj q) = (qnormSq q ^ 2) • (1 : Matrix (Fin 3) (Fin 3) ℝ) := by
  mat_entries <;> simp [qmat, qconj, qnormSq, Matrix.mul_apply, Fin.sum_univ_succ] <;> ring

theorem qmat_det (q : Fin 4 → ℝ) : (qmat q).det = qnormSq q ^ 3 := by
  simp [qmat, qnormSq, Matrix.det_fin_three]; ring

theorem qnormSq_mul (q p : Fin 4 → ℝ) : qnormSq (qmul q p) = qnormSq q * qnormSq p := by
  simp [qnormSq, qmul]; ring

theorem qmat_one : qmat ![1, 0, 0, 0] = 1 := by
  mat_entries <;> simp [qmat]

/-- unit quaternion ⇒ orthogonal matrix -/
theorem qmat_orthogonal (q : Fin 4 → ℝ) (h : qnormSq q = 1) :
    (qmat q).transpose * qmat q = 1 ∧ qmat q * (qmat q).transpose = 1 ∧ (qmat q).det = 1 := by
  refine ⟨?_, ?_, ?_⟩
  · rw [qmat_transpose, qmat_conj_mul, h]; simp
  · rw [qmat_transpose, qmat_mul_conj, h]; simp
  · rw [qmat_det, h]; simp

/-! ### modified Rodrigues parameters -/

def nsq (r : Fin 3 → ℝ) : ℝ := r 0 ^ 2 + r 1 ^ 2 + r 2 ^ 2

theorem nsq_nonneg (r : Fin 3 → ℝ) : 0 ≤ nsq r := by unfold nsq; positivity

theorem one_add_nsq_pos (r : Fin 3 → ℝ) : 0 < 1 + nsq r := by have := nsq_nonneg r; linarith

/-- unnormalised quaternion of an MRP: `(1 - |r|², 2 r)`, of norm `1 + |r|²` -/
def mrpQ (r : Fin 3 → ℝ) : Fin 4 → ℝ := ![1 - nsq r, 2 * r 0, 2 * r 1, 2 * r 2]

theorem qnormSq_mrpQ (r : Fin 3 → ℝ) : qnormSq (mrpQ r) = (1 + nsq r) ^ 2 := by
  simp [qnormSq, mrpQ, nsq]; ring

/-- rotation matrix of an MRP -/
noncomputable def mrpMat (r : Fin 3 → ℝ) : Matrix (Fin 3) (Fin 3) ℝ :=
  (1 / (1 + nsq r) ^ 2) • qmat (mrpQ r)

/-- denominator of the MRP composition law -/
def mrpDen (a b : Fin 3 → ℝ) : ℝ := 1 + nsq a * nsq b - 2 * dot3 b a

/-- numerator of the MRP composition law -/
def mrpNum (a b : Fin 3 → ℝ) : Fin 3 → ℝ := fun i =>
  (1 - nsq a) * b i + (1 - nsq b) * a i - 2 * cross b a i

noncomputable def mrpMul (a b : Fin 3 → ℝ) : Fin 3 → ℝ := fun i => mrpNum a b i / mrpDen a b

theorem mrpNum_sq (a b : Fin 3 → ℝ) :
    nsq (mrpNum a b) + mrpDen a b ^ 2 = (1 + nsq a) * (1 + nsq b) * mrpDen a b := by
  simp [nsq, mrpNum, mrpDen, dot3, cross]; ring

theorem mrpNum_sq' (a b : Fin 3 → ℝ) :
    mrpDen a b ^ 2 - nsq (mrpNum a b)
      = mrpDen a b * ((1 - nsq a) * (1 - nsq b) - 4 * dot3 a b) := by
  simp [nsq, mrpNum, mrpDen, dot3, cross]; ring

theorem nsq_mrpMul (a b : Fin 3 → ℝ) (h : mrpDen a b ≠ 0) :
    nsq (mrpMul a b) = nsq (mrpNum a b) / mrpDen a b ^ 2 := by
  simp only [nsq, mrpMul]; field_simp

theorem one_add_nsq_mrpMul (a b : Fin 3 → ℝ) (h : mrpDen a b ≠ 0) :
    (1 + nsq (mrpMul a b)) * mrpDen a b = (1 + nsq a) * (1 + nsq b) := by
  rw [nsq_mrpMul a b h]
  have := mrpNum_sq a b
  field_simp
  linear_combination this

theorem mrpQ_mrpMul (a b : Fin 3 → ℝ) (h : mrpDen a b ≠ 0) :
    mrpDen a b • mrpQ (mrpMul a b) = qmul (mrpQ a) (mrpQ b) := by
  have h1 := mrpNum_sq' a b
  have hn := nsq_mrpMul a b h
  funext i
  fin_cases i
  · have e1 : mrpDen a b * (1 - nsq (mrpMul a b))
        = (1 - nsq a) * (1 - nsq b) - 4 * dot3 a b := by
      rw [hn]
      have : mrpDen a b * (1 - nsq (mrpNum a b) / mrpDen a b ^ 2)
          = (mrpDen a b ^ 2 - nsq (mrpNum a b)) / mrpDen a b := by field_simp
      rw [this, h1]; field_simp
    have e2 : qmul (mrpQ a) (mrpQ b) 0 = (1 - nsq a) * (1 - nsq b) - 4 * dot3 a b := by
      simp [qmul, mrpQ, dot3]; ring
    show (mrpDen a b • mrpQ (mrpMul a b)) 0 = qmul (mrpQ a) (mrpQ b) 0
    rw [e2, ← e1]; simp [mrpQ]
  all_goals
    simp [mrpQ, qmul, mrpMul, mrpNum, cross, nsq]
    field_simp
    ring

theorem mrpMat_mul (a b : Fin 3 → ℝ) (h : mrpDen a b ≠ 0) :
    mrpMat (mrpMul a b) = mrpMat a * mrpMat b := by
  have hq := mrpQ_mrpMul a b h
  have hn := one_add_nsq_mrpMul a b h
  have ha := one_add_nsq_pos a
  have hb := one_add_nsq_pos b
  have hc := one_add_nsq_pos (mrpMul a b)
  have key : qmat (mrpQ (mrpMul a b)) = (1 / mrpDen a b ^ 2) • (qmat (mrpQ a) * qmat (mrpQ b)) := by
    rw [← qmat_mul, ← hq, qmat_smul, smul_smul]
    field_simp
    simp
  unfold mrpMat
  rw [key, smul_smul, Matrix.smul_mul, Matrix.mul_smul, smul_smul]
  congr 1
  have : (1 + nsq (mrpMul a b)) = (1 + nsq a) * (1 + nsq b) / mrpDen a b := by
    field_simp; exact hn
  rw [this]
  field_simp

end Rot

namespace Rot

theorem mrpQ_neg (r : Fin 3 → ℝ) : mrpQ (-r) = qconj (mrpQ r) := by
  funext i; fin_cases i <;> simp [mrpQ, qconj, nsq]

theorem nsq_neg (r : Fin 3 → ℝ) : nsq (-r) = nsq r := by simp [nsq]

theorem mrpMat_neg_mul (r : Fin 3 → ℝ) : mrpMat (-r) * mrpMat r = 1 := by
  have h := one_add_nsq_pos r
  unfold mrpMat
  rw [nsq_neg, mrpQ_neg, Matrix.smul_mul, Matrix.mul_smul, qmat_conj_mul, qnormSq_mrpQ, smul_smul, smul_smul]
  have : (1 / (1 + nsq r) ^ 2 * (1 / (1 + nsq r) ^ 2) * ((1 + nsq r) ^ 2) ^ 2) = 1 := by field_simp
  rw [this, one_smul]

theorem mrpMat_mul_neg (r : Fin 3 → ℝ) : mrpMat r * mrpMat (-r) = 1 := by
  have h := one_add_nsq_pos r
  unfold mrpMat
  rw [nsq_neg, mrpQ_neg, Matrix.smul_mul, Matrix.mul_smul, qmat_mul_conj, qnormSq_mrpQ, smul_smul, smul_smul]
  have : (1 / (1 + nsq r) ^ 2 * (1 / (1 + nsq r) ^ 2) * ((1 + nsq r) ^ 2) ^ 2) = 1 := by field_simp
  rw [this, one_smul]

/-- an MRP matrix is a proper rotation -/
theorem mrpMat_orthogonal (r : Fin 3 → ℝ) :
    (mrpMat r).transpose * mrpMat r = 1 ∧ (mrpMat r).det = 1 := by
  have h := one_add_nsq_pos r
  constructor
  · have : (mrpMat r).transpose = mrpMat (-r) := by
      unfold mrpMat; rw [Matrix.transpose_smul, qmat_transpose, nsq_neg, mrpQ_neg]
    rw [this, mrpMat_neg_mul]
  · unfold mrpMat
    rw [Matrix.det_smul, qmat_det, qnormSq_mrpQ]; simp; field_simp

end Rot

namespace Rot

/-- conjugation of the hat map by a (scaled) rotation: `(R y)^ R = |q|² R ŷ` -/
theorem hat_qmat_mulVec (q : Fin 4 → ℝ) (y : Fin 3 → ℝ) :
    hat ((qmat q).mulVec y) * qmat q = qnormSq q • (qmat q * hat y) := by
  mat_entries <;>
    simp [hat, qmat, qnormSq, Matrix.mul_apply, Matrix.mulVec, dotProduct, Fin.sum_univ_succ] <;> ring

theorem hat_qmat_mulVec_unit (q : Fin 4 → ℝ) (h : qnormSq q = 1) (y : Fin 3 → ℝ) :
    hat ((qmat q).mulVec y) * qmat q = qmat q * hat y := by
  rw [hat_qmat_mulVec, h, one_smul]

theorem hat_add (a b : Fin 3 → ℝ) : hat (a + b) = hat a + hat b := by
  mat_entries <;> simp [hat] <;> ring

theorem hat_mulVec_self (a : Fin 3 → ℝ) : (hat a).mulVec a = 0 := by
  funext i; fin_cases i <;> simp [hat, Matrix.mulVec, dotProduct, Fin.sum_univ_succ] <;> ring

/-- the unit quaternion of an MRP -/
noncomputable def mrpUnitQ (r : Fin 3 → ℝ) : Fin 4 → ℝ := (1 / (1 + nsq r)) • mrpQ r

theorem qnormSq_mrpUnitQ (r : Fin 3 → ℝ) : qnormSq (mrpUnitQ r) = 1 := by
  have h := one_add_nsq_pos r
  have : qnormSq (mrpUnitQ r) = (1 / (1 + nsq r)) ^ 2 * qnormSq (mrpQ r) := by
    simp only [qnormSq, mrpUnitQ, Pi.smul_apply, smul_eq_mul]; ring
  rw [this, qnormSq_mrpQ]; field_simp

theorem mrpMat_eq_qmat (r : Fin 3 → ℝ) : mrpMat r = qmat (mrpUnitQ r) := by
  unfold mrpMat mrpUnitQ
  rw [qmat_smul]; congr 1; rw [div_pow, one_pow]

theorem hat_mrpMat_mulVec (r : Fin 3 → ℝ) (y : Fin 3 → ℝ) :
    hat ((mrpMat r).mulVec y) * mrpMat r = mrpMat r * hat y := by
  rw [mrpMat_eq_qmat]; exact hat_qmat_mulVec_unit _ (qnormSq_mrpUnitQ r) y

end Rot

namespace Rot

/-! ### quaternion → MRP and the shadow set -/

/-- MRP of a unit quaternion with non-negative scalar part -/
noncomputable def quatToMrp (q : Fin 4 → ℝ) : Fin 3 → ℝ := ![q 1 / (1 + q 0), q 2 / (1 + q 0), q 3 / (1 + q 0)]

theorem one_add_nsq_quatToMrp (q : Fin 4 → ℝ) (hq : qnormSq q = 1) (h0 : 0 ≤ q 0) :
    1 + nsq (quatToMrp q) = 2 / (1 + q 0) := by
  have hp : (1 + q 0) ≠ 0 := by linarith
  simp only [nsq, quatToMrp, qnormSq] at *
  simp
  field_simp
  linear_combination hq

theorem nsq_quatToMrp_le (q : Fin 4 → ℝ) (hq : qnormSq q = 1) (h0 : 0 ≤ q 0) :
    nsq (quatToMrp q) ≤ 1 := by
  have h := one_add_nsq_quatToMrp q hq h0
  have hp : 0 < 1 + q 0 := by linarith
  have : 2 / (1 + q 0) ≤ 2 := by
    rw [div_le_iff₀ hp]; linarith
  linarith

theorem mrpQ_quatToMrp (q : Fin 4 → ℝ) (hq : qnormSq q = 1) (h0 : 0 ≤ q 0) :
    mrpQ (quatToMrp q) = (2 / (1 + q 0)) • q := by
  have h := one_add_nsq_quatToMrp q hq h0
  have hp : (1 + q 0) ≠ 0 := by linarith
  funext i
  fin_cases i
  · have : 1 - nsq (quatToMrp q) = 2 - 2 / (1 + q 0) := by linarith
    simp only [mrpQ, Fin.zero_eta, Matrix.cons_val_zero, Pi.smul_apply, smul_eq_mul]
    rw [this]; field_simp; ring
  all_goals simp [mrpQ, quatToMrp]; field_simp

theorem mrpMat_quatToMrp (q : Fin 4 → ℝ) (hq : qnormSq q = 1) (h0 : 0 ≤ q 0) :
    mrpMat (quatToMrp q) = qmat q := by
  have h := one_add_nsq_quatToMrp q hq h0
  have hp : (1 + q 0) ≠ 0 := by linarith
  unfold mrpMat
  rw [mrpQ_quatToMrp q hq h0, qmat_smul, h, smul_smul]
  have : 1 / (2 / (1 + q 0)) ^ 2 * (2 / (1 + q 0)) ^ 2 = 1 := by field_simp
  rw [this, one_smul]

theorem qnormSq_neg (q : Fin 4 → ℝ) : qnormSq (-q) = qnormSq q := by simp [qnormSq]

/-- the shadow MRP `-r/|r|²` is the same rotation -/
theorem mrpMat_shadow (r : Fin 3 → ℝ) (hr : nsq r ≠ 0) :
    mrpMat (fun i => -(r i / nsq r)) = mrpMat r := by
  have hp := one_add_nsq_pos r
  have hn : nsq (fun i => -(r i / nsq r)) = 1 / nsq r := by
    have : nsq (fun i => -(r i / nsq r)) = nsq r / (nsq r) ^ 2 := by
      simp only [nsq]; field_simp
    rw [this]; field_simp
  have hq : mrpQ (fun i => -(r i / nsq r)) = (-(1 / nsq r)) • mrpQ r := by
    funext i
    fin_cases i
    · simp only [mrpQ, Fin.zero_eta, Matrix.cons_val_zero, Pi.smul_apply, smul_eq_mul]
      rw [hn]; field_simp; ring
    all_goals simp [mrpQ]; field_simp
  have hp' : 1 + nsq r ≠ 0 := ne_of_gt hp
  have hp'' : nsq r + 1 ≠ 0 := by rw [add_comm]; exact hp'
  unfold mrpMat
  rw [hq, qmat_smul, hn, smul_smul]
  congr 1
  field_simp
  ring

theorem nsq_shadow_le (r : Fin 3 → ℝ) (h : 1 < nsq r) : nsq (fun i => -(r i / nsq r)) ≤ 1 := by
  have hr : nsq r ≠ 0 := by linarith
  have : nsq (fun i => -(r i / nsq r)) = 1 / nsq r := by
    have : nsq (fun i => -(r i / nsq r)) = nsq r / (nsq r) ^ 2 := by
      simp only [nsq]; field_simp
    rw [this]; field_simp
  rw [this, div_le_one (by linarith)]; linarith

end Rot
