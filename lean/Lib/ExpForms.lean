/-
  Lib/ExpForms.lean — matrix exponentials of so(3), se(3), se₂(3), so(2), se(2) hat matrices in
  closed form (Rodrigues), from Lib/RotExp.  Code-independent.
-/
import Lib.Rot
import Lib.Semidirect
import Lib.RotExp
import Lib.SO3
import Mathlib.Analysis.Normed.Algebra.MatrixExponential

namespace Rot
open Matrix NormedSpace RotExp

/-- `sin t / t`, extended by 1 at 0 -/
noncomputable def sFun (t : ℝ) : ℝ := if t = 0 then 1 else Real.sin t / t

theorem sFun_eq (t : ℝ) : sFun t = 1 - t ^ 2 * dFun t := by
  unfold sFun dFun
  by_cases h : t = 0
  · simp [h]
  · simp only [if_neg h]; field_simp; ring

theorem hat_sq_mul_hat (x : Fin 3 → ℝ) : hat x * hat x * hat x = (-(nsq x)) • hat x := by
  mat_entries <;> simp [hat, nsq, Matrix.mul_apply, Fin.sum_univ_succ] <;> ring

theorem hat_pow_three (x : Fin 3 → ℝ) : hat x ^ 3 = (-(nsq x)) • hat x := by
  rw [pow_succ, pow_two]; exact hat_sq_mul_hat x

theorem hat_pow_four (x : Fin 3 → ℝ) : hat x ^ 4 = (-(nsq x)) • hat x ^ 2 := by
  rw [pow_succ, hat_pow_three, smul_mul_assoc, ← pow_two]

/-- closed form of the matrix exponential for `A⁴ = −t² A²` (matrices carry no canonical norm:
    the L∞ operator norm is installed locally, as Mathlib does for `Matrix.exp_add_of_commute`) -/
theorem matrix_exp_closed_form {n : ℕ} (A : Matrix (Fin n) (Fin n) ℝ) (t : ℝ)
    (h : A ^ 4 = (-(t ^ 2)) • A ^ 2) :
    exp A = 1 + A + cFun t • A ^ 2 + dFun t • A ^ 3 := by
  letI : SeminormedRing (Matrix (Fin n) (Fin n) ℝ) := Matrix.linftyOpSemiNormedRing
  letI : NormedRing (Matrix (Fin n) (Fin n) ℝ) := Matrix.linftyOpNormedRing
  letI : NormedAlgebra ℝ (Matrix (Fin n) (Fin n) ℝ) := Matrix.linftyOpNormedAlgebra
  exact exp_eq_closed_form h

/-- **Rodrigues' formula**: exp of a skew matrix, for every rotation vector (θ = 0 included) -/
theorem exp_hat (x : Fin 3 → ℝ) :
    exp (hat x) = 1 + sFun (Real.sqrt (nsq x)) • hat x + cFun (Real.sqrt (nsq x)) • hat x ^ 2 := by
  have ht : Real.sqrt (nsq x) ^ 2 = nsq x := Real.sq_sqrt (nsq_nonneg x)
  have h4 : hat x ^ 4 = (-(Real.sqrt (nsq x) ^ 2)) • hat x ^ 2 := by rw [ht]; exact hat_pow_four x
  rw [matrix_exp_closed_form _ _ h4, hat_pow_three, sFun_eq, ht, smul_smul]
  rw [sub_smul, one_smul]
  have : (dFun (Real.sqrt (nsq x)) * -nsq x) • hat x = -((nsq x * dFun (Real.sqrt (nsq x))) • hat x) := by
    rw [← neg_smul]; congr 1; ring
  rw [this]; abel

/-! ### se(3): `[[ω^, v],[0, 0]]` -/

def se3Hat (v w : Fin 3 → ℝ) : Matrix (Fin 4) (Fin 4) ℝ :=
  !![0, -w 2, w 1, v 0; w 2, 0, -w 0, v 1; -w 1, w 0, 0, v 2; 0, 0, 0, 0]

theorem se3Hat_pow_four (v w : Fin 3 → ℝ) : se3Hat v w ^ 4 = (-(nsq w)) • se3Hat v w ^ 2 := by
  have e : se3Hat v w ^ 4 = se3Hat v w ^ 2 * se3Hat v w ^ 2 := by rw [← pow_add]
  rw [e, pow_two]
  mat_entries <;> simp [se3Hat, nsq, Matrix.mul_apply, Fin.sum_univ_succ] <;> ring

/-- the translational coefficient matrix `V = 1 + c ω^ + d ω^²` (left Jacobian of SO(3)) -/
noncomputable def Vmat (w : Fin 3 → ℝ) : Matrix (Fin 3) (Fin 3) ℝ :=
  1 + cFun (Real.sqrt (nsq w)) • hat w + dFun (Real.sqrt (nsq w)) • hat w ^ 2

theorem exp_se3Hat (v w : Fin 3 → ℝ) :
    exp (se3Hat v w) = se3Mat (exp (hat w)) ((Vmat w).mulVec v) := by
  have ht : Real.sqrt (nsq w) ^ 2 = nsq w := Real.sq_sqrt (nsq_nonneg w)
  have h4 : se3Hat v w ^ 4 = (-(Real.sqrt (nsq w) ^ 2)) • se3Hat v w ^ 2 := by
    rw [ht]; exact se3Hat_pow_four v w
  have hw4 : hat w ^ 4 = (-(Real.sqrt (nsq w) ^ 2)) • hat w ^ 2 := by rw [ht]; exact hat_pow_four w
  rw [matrix_exp_closed_form _ _ h4, matrix_exp_closed_form _ _ hw4]
  unfold Vmat
  generalize cFun (Real.sqrt (nsq w)) = c
  generalize dFun (Real.sqrt (nsq w)) = d
  have e3 : ∀ (B : Matrix (Fin 4) (Fin 4) ℝ), B ^ 3 = B * B * B := fun B => by rw [pow_succ, pow_two]
  have e3' : ∀ (B : Matrix (Fin 3) (Fin 3) ℝ), B ^ 3 = B * B * B := fun B => by rw [pow_succ, pow_two]
  rw [e3, e3', pow_two, pow_two]
  mat_entries <;>
    simp [se3Hat, se3Mat, hat, Matrix.mul_apply, Matrix.mulVec, dotProduct, Fin.sum_univ_succ, Matrix.one_apply] <;> ring


/-! ### se₂(3): `[[ω^, a, v],[0, 0, 0],[0, 0, 0]]` -/

def se23Hat (v a w : Fin 3 → ℝ) : Matrix (Fin 5) (Fin 5) ℝ :=
  !![0, -w 2, w 1, a 0, v 0; w 2, 0, -w 0, a 1, v 1; -w 1, w 0, 0, a 2, v 2; 0, 0, 0, 0, 0; 0, 0, 0, 0, 0]

set_option maxHeartbeats 4000000 in
theorem se23Hat_pow_four (v a w : Fin 3 → ℝ) : se23Hat v a w ^ 4 = (-(nsq w)) • se23Hat v a w ^ 2 := by
  have e : se23Hat v a w ^ 4 = se23Hat v a w ^ 2 * se23Hat v a w ^ 2 := by rw [← pow_add]
  rw [e, pow_two]
  mat_entries <;> simp [se23Hat, nsq, Matrix.mul_apply, Fin.sum_univ_succ] <;> ring

set_option maxHeartbeats 4000000 in
theorem exp_se23Hat (v a w : Fin 3 → ℝ) :
    exp (se23Hat v a w) = se23Mat (exp (hat w)) ((Vmat w).mulVec a) ((Vmat w).mulVec v) := by
  have ht : Real.sqrt (nsq w) ^ 2 = nsq w := Real.sq_sqrt (nsq_nonneg w)
  have h4 : se23Hat v a w ^ 4 = (-(Real.sqrt (nsq w) ^ 2)) • se23Hat v a w ^ 2 := by
    rw [ht]; exact se23Hat_pow_four v a w
  have hw4 : hat w ^ 4 = (-(Real.sqrt (nsq w) ^ 2)) • hat w ^ 2 := by rw [ht]; exact hat_pow_four w
  rw [matrix_exp_closed_form _ _ h4, matrix_exp_closed_form _ _ hw4]
  unfold Vmat
  generalize cFun (Real.sqrt (nsq w)) = c
  generalize dFun (Real.sqrt (nsq w)) = d
  have e3 : ∀ (B : Matrix (Fin 5) (Fin 5) ℝ), B ^ 3 = B * B * B := fun B => by rw [pow_succ, pow_two]
  have e3' : ∀ (B : Matrix (Fin 3) (Fin 3) ℝ), B ^ 3 = B * B * B := fun B => by rw [pow_succ, pow_two]
  rw [e3, e3', pow_two, pow_two]
  mat_entries <;>
    simp [se23Hat, se23Mat, hat, Matrix.mul_apply, Matrix.mulVec, dotProduct, Fin.sum_univ_succ, Matrix.one_apply] <;> ring

/-! ### so(2) and se(2) -/

theorem cos_eq_cFun (t : ℝ) : Real.cos t = 1 - t ^ 2 * cFun t := by
  unfold cFun
  by_cases h : t = 0
  · simp [h]
  · simp only [if_neg h]; field_simp; ring

theorem sin_eq_sFun (t : ℝ) : Real.sin t = t * sFun t := by
  unfold sFun
  by_cases h : t = 0
  · simp [h]
  · simp only [if_neg h]; field_simp

def so2Hat (t : ℝ) : Matrix (Fin 2) (Fin 2) ℝ := !![0, -t; t, 0]

theorem exp_so2Hat (t : ℝ) : exp (so2Hat t) = !![Real.cos t, -Real.sin t; Real.sin t, Real.cos t] := by
  have h4 : so2Hat t ^ 4 = (-(t ^ 2)) • so2Hat t ^ 2 := by
    have e : so2Hat t ^ 4 = so2Hat t ^ 2 * so2Hat t ^ 2 := by rw [← pow_add]
    rw [e, pow_two]
    mat_entries <;> simp [so2Hat, Matrix.mul_apply, Fin.sum_univ_succ] <;> first | ring1 | exact Or.inl (by ring)
  rw [matrix_exp_closed_form _ _ h4, cos_eq_cFun, sin_eq_sFun, sFun_eq]
  have e3 : ∀ (B : Matrix (Fin 2) (Fin 2) ℝ), B ^ 3 = B * B * B := fun B => by rw [pow_succ, pow_two]
  rw [e3, pow_two]
  mat_entries <;> simp [so2Hat, Matrix.mul_apply, Fin.sum_univ_succ, Matrix.one_apply] <;> ring

def se2Hat (x y t : ℝ) : Matrix (Fin 3) (Fin 3) ℝ := !![0, -t, x; t, 0, y; 0, 0, 0]

theorem exp_se2Hat (x y t : ℝ) :
    exp (se2Hat x y t) = !![Real.cos t, -Real.sin t, sFun t * x - t * cFun t * y;
                            Real.sin t, Real.cos t, t * cFun t * x + sFun t * y; 0, 0, 1] := by
  have h4 : se2Hat x y t ^ 4 = (-(t ^ 2)) • se2Hat x y t ^ 2 := by
    have e : se2Hat x y t ^ 4 = se2Hat x y t ^ 2 * se2Hat x y t ^ 2 := by rw [← pow_add]
    rw [e, pow_two]
    mat_entries <;> simp [se2Hat, Matrix.mul_apply, Fin.sum_univ_succ] <;> first | ring1 | exact Or.inl (by ring)
  rw [matrix_exp_closed_form _ _ h4, cos_eq_cFun, sin_eq_sFun, sFun_eq]
  have e3 : ∀ (B : Matrix (Fin 3) (Fin 3) ℝ), B ^ 3 = B * B * B := fun B => by rw [pow_succ, pow_two]
  rw [e3, pow_two]
  mat_entries <;> simp [se2Hat, Matrix.mul_apply, Fin.sum_univ_succ, Matrix.one_apply] <;> ring


/-! ### half-angle (quaternion) and quarter-angle (MRP) forms of Rodrigues' formula -/

theorem sFun_sq (h : ℝ) : (h * sFun h) ^ 2 = Real.sin h ^ 2 := by rw [← sin_eq_sFun]

theorem sFun_double (h : ℝ) : sFun (2 * h) = Real.cos h * sFun h := by
  unfold sFun
  by_cases h0 : h = 0
  · simp [h0]
  · have h2 : 2 * h ≠ 0 := by simpa using h0
    rw [if_neg h2, if_neg h0, Real.sin_two_mul]; field_simp

theorem cFun_double (h : ℝ) : cFun (2 * h) = sFun h ^ 2 / 2 := by
  unfold cFun sFun
  by_cases h0 : h = 0
  · simp [h0]
  · have h2 : 2 * h ≠ 0 := by simpa using h0
    rw [if_neg h2, if_neg h0, Real.cos_two_mul]
    have := Real.sin_sq_add_cos_sq h
    field_simp
    nlinarith [this]

/-- `qmat` of a quaternion with vector part along `w` -/
theorem qmat_axis (a b : ℝ) (w : Fin 3 → ℝ) :
    qmat ![a, b * w 0, b * w 1, b * w 2]
      = (a ^ 2 + b ^ 2 * nsq w) • (1 : Matrix (Fin 3) (Fin 3) ℝ) + (2 * a * b) • hat w + (2 * b ^ 2) • hat w ^ 2 := by
  rw [pow_two (hat w)]
  mat_entries <;> simp [qmat, hat, nsq, Matrix.mul_apply, Fin.sum_univ_succ, Matrix.one_apply] <;> ring

/-- the unit quaternion of a rotation vector: `(cos(θ/2), sin(θ/2)/θ · w)` -/
noncomputable def qexp (w : Fin 3 → ℝ) : Fin 4 → ℝ :=
  ![Real.cos (Real.sqrt (nsq w) / 2), sFun (Real.sqrt (nsq w) / 2) / 2 * w 0,
    sFun (Real.sqrt (nsq w) / 2) / 2 * w 1, sFun (Real.sqrt (nsq w) / 2) / 2 * w 2]

theorem qexp_norm_aux (θ u : ℝ) (hu : θ ^ 2 = u) :
    Real.cos (θ / 2) ^ 2 + (sFun (θ / 2) / 2) ^ 2 * u = 1 := by
  have hs := sFun_sq (θ / 2)
  have hp := Real.sin_sq_add_cos_sq (θ / 2)
  rw [← hu]; nlinarith [hs, hp]

theorem qnormSq_qexp (w : Fin 3 → ℝ) : qnormSq (qexp w) = 1 := by
  have hu : Real.sqrt (nsq w) ^ 2 = nsq w := Real.sq_sqrt (nsq_nonneg w)
  have e : qnormSq (qexp w) = Real.cos (Real.sqrt (nsq w) / 2) ^ 2
      + (sFun (Real.sqrt (nsq w) / 2) / 2) ^ 2 * nsq w := by
    simp only [qnormSq, qexp, nsq]; simp; ring
  rw [e]; exact qexp_norm_aux _ _ hu

theorem qmat_qexp (w : Fin 3 → ℝ) : qmat (qexp w) = exp (hat w) := by
  have hu : Real.sqrt (nsq w) ^ 2 = nsq w := Real.sq_sqrt (nsq_nonneg w)
  have h2 : Real.sqrt (nsq w) = 2 * (Real.sqrt (nsq w) / 2) := by ring
  rw [exp_hat]
  conv_rhs => rw [h2, sFun_double, cFun_double]
  unfold qexp
  rw [qmat_axis, qexp_norm_aux _ _ hu, one_smul]
  congr 2
  · ring
  · ring

theorem isRot_exp_hat (w : Fin 3 → ℝ) : IsRot (exp (hat w)) := by
  rw [← qmat_qexp]; exact isRot_qmat _ (qnormSq_qexp w)


/-! ### MRP (quarter-angle) form -/

/-- the unit quaternion of the MRP `tan(θ/4)/θ · w` is `qexp w` (θ/4 away from the poles of tan) -/
theorem mrpUnitQ_tan_quarter (w : Fin 3 → ℝ) (hθ : Real.sqrt (nsq w) ≠ 0)
    (hc : Real.cos (Real.sqrt (nsq w) / 4) ≠ 0) :
    mrpUnitQ (fun i => Real.tan (Real.sqrt (nsq w) / 4) / Real.sqrt (nsq w) * w i) = qexp w := by
  have hu : Real.sqrt (nsq w) ^ 2 = nsq w := Real.sq_sqrt (nsq_nonneg w)
  set θ := Real.sqrt (nsq w) with hθdef
  have hp := Real.sin_sq_add_cos_sq (θ / 4)
  have htan : Real.tan (θ / 4) = Real.sin (θ / 4) / Real.cos (θ / 4) := Real.tan_eq_sin_div_cos _
  have hn : nsq (fun i => Real.tan (θ / 4) / θ * w i) = Real.tan (θ / 4) ^ 2 := by
    have : nsq (fun i => Real.tan (θ / 4) / θ * w i) = (Real.tan (θ / 4) / θ) ^ 2 * nsq w := by
      simp only [nsq]; ring
    rw [this, ← hu]; field_simp
  have h1 : 1 + Real.tan (θ / 4) ^ 2 = 1 / Real.cos (θ / 4) ^ 2 := by
    rw [htan]; field_simp; linarith [hp]
  have hcos2 : Real.cos (θ / 2) = Real.cos (θ / 4) ^ 2 - Real.sin (θ / 4) ^ 2 := by
    rw [show θ / 2 = 2 * (θ / 4) by ring, Real.cos_two_mul]; linarith [hp]
  have hsin2 : Real.sin (θ / 2) = 2 * Real.sin (θ / 4) * Real.cos (θ / 4) := by
    rw [show θ / 2 = 2 * (θ / 4) by ring, Real.sin_two_mul]
  have hs : sFun (θ / 2) = Real.sin (θ / 2) / (θ / 2) := by
    unfold sFun; rw [if_neg (by intro h; apply hθ; linarith)]
  have hpos : (1 + Real.tan (θ / 4) ^ 2) ≠ 0 := by rw [h1]; positivity
  funext i
  fin_cases i
  · simp only [mrpUnitQ, mrpQ, qexp, hn, Pi.smul_apply, smul_eq_mul, Fin.zero_eta, Matrix.cons_val_zero]
    rw [hcos2, htan]; field_simp
    linear_combination (-(Real.cos (θ / 4) ^ 2 - Real.sin (θ / 4) ^ 2)) * hp
  all_goals
    simp only [mrpUnitQ, mrpQ, qexp, hn, Pi.smul_apply, smul_eq_mul, Fin.mk_one, Matrix.cons_val_one,
      Matrix.cons_val_zero, Matrix.cons_val, Fin.reduceFinMk]
    rw [hs, hsin2, htan]; field_simp
    rw [add_comm (Real.cos (θ / 4) ^ 2), hp, mul_one]

end Rot
