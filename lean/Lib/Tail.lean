/-
  Lib/Tail.lean — truncation bounds for the alternating series
      Σₖ (−u)ᵏ/(2k+m)!      (m = 0: cos √u, 1: sin √u/√u, 2: (1−cos √u)/u, 3: (√u − sin √u)/u^{3/2})
  that the library's small-angle Taylor polynomials truncate.  Code-independent.
-/
import Lib.RotExp
import Lib.ExpForms
import Mathlib.Analysis.SpecificLimits.Normed
import Mathlib.Analysis.SpecialFunctions.Trigonometric.Series

open Nat

namespace Tail

/-- k-th term of the series with offset m -/
noncomputable def aTerm (m : ℕ) (u : ℝ) (k : ℕ) : ℝ := (-1) ^ k * u ^ k / ((2 * k + m)! : ℝ)

theorem abs_aTerm_shift_le (m : ℕ) (u : ℝ) (hu : 0 ≤ u) (K k : ℕ) :
    |aTerm m u (k + K)| ≤ (u ^ K / ((2 * K + m)! : ℝ)) * u ^ k := by
  unfold aTerm
  have hf : ((2 * K + m)! : ℝ) ≤ ((2 * (k + K) + m)! : ℝ) := by
    exact_mod_cast Nat.factorial_le (by omega)
  have hpos : (0:ℝ) < ((2 * K + m)! : ℝ) := by exact_mod_cast Nat.factorial_pos _
  have hpos' : (0:ℝ) < ((2 * (k + K) + m)! : ℝ) := by exact_mod_cast Nat.factorial_pos _
  rw [abs_div, abs_mul, abs_pow, abs_neg, abs_one, one_pow, one_mul, abs_of_nonneg (pow_nonneg hu _),
    abs_of_pos hpos', pow_add]
  rw [div_le_iff₀ hpos']
  have : u ^ K / ((2 * K + m)! : ℝ) * u ^ k * ((2 * (k + K) + m)! : ℝ)
      = u ^ k * u ^ K * (((2 * (k + K) + m)! : ℝ) / ((2 * K + m)! : ℝ)) := by
    field_simp
  rw [this]
  have h1 : (1:ℝ) ≤ ((2 * (k + K) + m)! : ℝ) / ((2 * K + m)! : ℝ) := by
    rw [le_div_iff₀ hpos]; linarith
  have h2 : 0 ≤ u ^ k * u ^ K := by positivity
  nlinarith

/-- **truncation bound**: if the series sums to `F` and `0 ≤ u ≤ 1/2`, the first `K` terms are within
    `2 u^K/(2K+m)!` of `F` -/
theorem truncation_bound (m : ℕ) (u F : ℝ) (hu : 0 ≤ u) (hu2 : u ≤ 1 / 2) (h : HasSum (aTerm m u) F) (K : ℕ) :
    |F - ∑ k ∈ Finset.range K, aTerm m u k| ≤ 2 * (u ^ K / ((2 * K + m)! : ℝ)) := by
  have ht : HasSum (fun k => aTerm m u (k + K)) (F - ∑ k ∈ Finset.range K, aTerm m u k) :=
    (hasSum_nat_add_iff' K).mpr h
  have hg : HasSum (fun k : ℕ => (u ^ K / ((2 * K + m)! : ℝ)) * u ^ k) ((u ^ K / ((2 * K + m)! : ℝ)) * (1 - u)⁻¹) :=
    (hasSum_geometric_of_lt_one hu (by linarith)).mul_left _
  have hb := ht.norm_le_of_bounded hg (fun k => by rw [Real.norm_eq_abs]; exact abs_aTerm_shift_le m u hu K k)
  rw [Real.norm_eq_abs] at hb
  have hC : 0 ≤ u ^ K / ((2 * K + m)! : ℝ) := by positivity
  have hinv : (1 - u)⁻¹ ≤ 2 := by
    rw [inv_le_comm₀ (by linarith) (by norm_num)]; linarith
  calc |F - ∑ k ∈ Finset.range K, aTerm m u k| ≤ u ^ K / ((2 * K + m)! : ℝ) * (1 - u)⁻¹ := hb
    _ ≤ u ^ K / ((2 * K + m)! : ℝ) * 2 := by apply mul_le_mul_of_nonneg_left hinv hC
    _ = 2 * (u ^ K / ((2 * K + m)! : ℝ)) := by ring

/-! the four sums, in terms of `u = t²` -/
open RotExp Rot

theorem hasSum_cos_sqrt (u : ℝ) (hu : 0 ≤ u) : HasSum (aTerm 0 u) (Real.cos (Real.sqrt u)) := by
  have := Real.hasSum_cos (Real.sqrt u)
  convert this using 1
  funext k
  unfold aTerm
  rw [pow_mul, Real.sq_sqrt hu]; simp

theorem hasSum_cFun_sqrt (u : ℝ) (hu : 0 ≤ u) : HasSum (aTerm 2 u) (cFun (Real.sqrt u)) := by
  have := hasSum_cTerm (Real.sqrt u)
  convert this using 1
  funext k
  unfold aTerm cTerm
  rw [pow_mul, Real.sq_sqrt hu]

theorem hasSum_dFun_sqrt (u : ℝ) (hu : 0 ≤ u) : HasSum (aTerm 3 u) (dFun (Real.sqrt u)) := by
  have := hasSum_dTerm (Real.sqrt u)
  convert this using 1
  funext k
  unfold aTerm dTerm
  rw [pow_mul, Real.sq_sqrt hu]

theorem hasSum_sFun_sqrt (u : ℝ) (hu : 0 ≤ u) : HasSum (aTerm 1 u) (sFun (Real.sqrt u)) := by
  -- sFun t = 1 - t² dFun t  and  aTerm 1 u 0 = 1, aTerm 1 u (k+1) = -u * aTerm 3 u k
  have hd := (hasSum_dFun_sqrt u hu).mul_left (-u)
  have hs : sFun (Real.sqrt u) = 1 + -u * dFun (Real.sqrt u) := by
    rw [sFun_eq, Real.sq_sqrt hu]; ring
  rw [hs, ← hasSum_nat_add_iff' 1]
  simp only [Finset.sum_range_one]
  have e0 : aTerm 1 u 0 = 1 := by unfold aTerm; simp
  rw [e0, add_sub_cancel_left]
  have e : (fun k => aTerm 1 u (k + 1)) = fun i => -u * aTerm 3 u i := by
    funext k
    unfold aTerm
    rw [show 2 * (k + 1) + 1 = 2 * k + 3 by ring, pow_succ, pow_succ]
    ring
  rw [e]; exact hd

end Tail

namespace Tail
open RotExp Rot

/-- Σₖ (−u)ᵏ/(2k+4)! = (u/2 + cos √u − 1)/u²  for u > 0 (the coefficient of ω^² in the position integral of the
    strap-down flow): the m = 2 series without its first term, divided by −u -/
theorem hasSum_aTerm4 (u : ℝ) (hu : 0 < u) :
    HasSum (aTerm 4 u) ((u / 2 + Real.cos (Real.sqrt u) - 1) / u ^ 2) := by
  have hc := hasSum_cFun_sqrt u hu.le
  have h1 : HasSum (fun k => aTerm 2 u (k + 1)) (cFun (Real.sqrt u) - ∑ k ∈ Finset.range 1, aTerm 2 u k) :=
    (hasSum_nat_add_iff' 1).mpr hc
  have e0 : ∑ k ∈ Finset.range 1, aTerm 2 u k = 1 / 2 := by simp [aTerm]
  rw [e0] at h1
  have e : (fun k => aTerm 2 u (k + 1)) = fun k => -u * aTerm 4 u k := by
    funext k
    unfold aTerm
    rw [show 2 * (k + 1) + 2 = 2 * k + 4 by ring, pow_succ, pow_succ]
    ring
  rw [e] at h1
  have h2 := h1.mul_left (-u)⁻¹
  have hne : -u ≠ 0 := by linarith
  have e2 : (fun k => (-u)⁻¹ * (-u * aTerm 4 u k)) = aTerm 4 u := by
    funext k; field_simp
  rw [e2] at h2
  have hsq : Real.sqrt u ^ 2 = u := Real.sq_sqrt hu.le
  have hs0 : Real.sqrt u ≠ 0 := (Real.sqrt_pos.mpr hu).ne'
  have hv : (-u)⁻¹ * (cFun (Real.sqrt u) - 1 / 2) = (u / 2 + Real.cos (Real.sqrt u) - 1) / u ^ 2 := by
    simp only [cFun, if_neg hs0, hsq]
    field_simp
    ring
  rw [← hv]; exact h2

end Tail
