/-
  Lib/AdConj.lean — the adjoint representation is a homomorphism BECAUSE it is conjugation
  (code-independent).  If `hat` is injective and three operators A, B, C satisfy
  `hat (A y) · Ma = Ma · hat y`, `hat (B y) · Mb = Mb · hat y`, `hat (C y) · (Ma Mb) = (Ma Mb) · hat y`
  with `Ma Mb` right-invertible, then `C = A B`.
-/
import Mathlib.Data.Matrix.Mul
import Mathlib.Data.Real.Basic

namespace AdConj
open Matrix

theorem hom_of_conj {n k : Type*} [Fintype n] [DecidableEq n] [Fintype k] [DecidableEq k]
    (hatM : (k → ℝ) → Matrix n n ℝ) (hinj : Function.Injective hatM)
    (A B C : Matrix k k ℝ) (Ma Mb Mi : Matrix n n ℝ) (hinv : (Ma * Mb) * Mi = 1)
    (hA : ∀ y, hatM (A.mulVec y) * Ma = Ma * hatM y)
    (hB : ∀ y, hatM (B.mulVec y) * Mb = Mb * hatM y)
    (hC : ∀ y, hatM (C.mulVec y) * (Ma * Mb) = (Ma * Mb) * hatM y) : C = A * B := by
  rw [Matrix.ext_iff_mulVec]
  intro y
  apply hinj
  have h1 : hatM (C.mulVec y) * (Ma * Mb) = hatM ((A * B).mulVec y) * (Ma * Mb) := by
    rw [hC, ← Matrix.mulVec_mulVec]
    calc Ma * Mb * hatM y = Ma * (Mb * hatM y) := Matrix.mul_assoc _ _ _
      _ = Ma * (hatM (B.mulVec y) * Mb) := by rw [hB]
      _ = (Ma * hatM (B.mulVec y)) * Mb := (Matrix.mul_assoc _ _ _).symm
      _ = (hatM (A.mulVec (B.mulVec y)) * Ma) * Mb := by rw [hA]
      _ = hatM (A.mulVec (B.mulVec y)) * (Ma * Mb) := Matrix.mul_assoc _ _ _
  calc hatM (C.mulVec y) = hatM (C.mulVec y) * ((Ma * Mb) * Mi) := by rw [hinv, Matrix.mul_one]
    _ = (hatM (C.mulVec y) * (Ma * Mb)) * Mi := (Matrix.mul_assoc _ _ _).symm
    _ = (hatM ((A * B).mulVec y) * (Ma * Mb)) * Mi := by rw [h1]
    _ = hatM ((A * B).mulVec y) * ((Ma * Mb) * Mi) := Matrix.mul_assoc _ _ _
    _ = hatM ((A * B).mulVec y) := by rw [hinv, Matrix.mul_one]

/-- the inverse law: `Ad(X⁻¹) Ad(X) = 1` from conjugation -/
theorem inv_of_conj {n k : Type*} [Fintype n] [DecidableEq n] [Fintype k] [DecidableEq k]
    (hatM : (k → ℝ) → Matrix n n ℝ) (hinj : Function.Injective hatM)
    (A B : Matrix k k ℝ) (Ma Mb : Matrix n n ℝ) (hinv : Ma * Mb = 1)
    (hA : ∀ y, hatM (A.mulVec y) * Ma = Ma * hatM y)
    (hB : ∀ y, hatM (B.mulVec y) * Mb = Mb * hatM y) : A * B = 1 := by
  symm
  refine hom_of_conj hatM hinj A B 1 Ma Mb 1 (by rw [hinv, Matrix.mul_one]) hA hB ?_
  intro y; rw [hinv]; simp

end AdConj
