/-
  Lib/FlowUnique.lean — the strap-down kinematics  p' = v,  v' = R a − g e₃,  R' = R [ω]×  have ONE solution
  for given initial values: the closed-form flow of Lib/Flow (code-independent).
  Elementary proof: for two solutions of R' = R[ω]× the squared Frobenius norm of the difference has derivative
  2 tr(DᵀD[ω]×) = 0 ([ω]× is skew), hence stays 0; then v and p differ by functions with zero derivative.
-/
import Lib.Flow
import Mathlib.Analysis.Calculus.MeanValue

namespace Flow
open Rot Matrix

set_option maxHeartbeats 2000000

/-- a family of scalar functions whose squares sum to a function with zero derivative and zero initial value vanishes -/
theorem eq_zero_of_sq_sum_deriv_zero (D : Fin 3 → Fin 3 → ℝ → ℝ) (D' : Fin 3 → Fin 3 → ℝ → ℝ)
    (hD : ∀ i j t, HasDerivAt (D i j) (D' i j t) t)
    (hz : ∀ t, ∑ i, ∑ j, (D' i j t * D i j t + D i j t * D' i j t) = 0)
    (h0 : ∀ i j, D i j 0 = 0) : ∀ i j t, D i j t = 0 := by
  let f : ℝ → ℝ := fun s => ∑ i, ∑ j, D i j s * D i j s
  have hf : ∀ t, HasDerivAt f 0 t := by
    intro t
    have h := HasDerivAt.fun_sum (u := Finset.univ) (A := fun i s => ∑ j, D i j s * D i j s)
      (A' := fun i => ∑ j, (D' i j t * D i j t + D i j t * D' i j t)) (x := t) (by
        intro i _
        refine HasDerivAt.fun_sum (u := Finset.univ) (A := fun j s => D i j s * D i j s)
          (A' := fun j => D' i j t * D i j t + D i j t * D' i j t) (x := t) ?_
        intro j _
        exact (hD i j t).fun_mul (hD i j t))
    rw [hz t] at h
    exact h
  have hconst : ∀ t, f t = f 0 :=
    fun t => is_const_of_deriv_eq_zero (fun s => (hf s).differentiableAt) (fun s => (hf s).deriv) t 0
  have hf0 : f 0 = 0 := by simp [f, h0]
  intro i j t
  have hsum : ∑ i, ∑ j, D i j t * D i j t = 0 := by have := hconst t; rw [hf0] at this; exact this
  have h1 := (Finset.sum_eq_zero_iff_of_nonneg (fun i _ => Finset.sum_nonneg fun j _ => mul_self_nonneg (D i j t))).mp hsum i (Finset.mem_univ i)
  have h2 := (Finset.sum_eq_zero_iff_of_nonneg (fun j _ => mul_self_nonneg (D i j t))).mp h1 j (Finset.mem_univ j)
  exact mul_self_eq_zero.mp h2

/-- **uniqueness of the attitude solution**: any R(·) with R' = R [ω]× and R(0) = R₀ is the closed-form flow -/
theorem R_unique (R : ℝ → Matrix (Fin 3) (Fin 3) ℝ) (R0 : Matrix (Fin 3) (Fin 3) ℝ) (w : Fin 3 → ℝ)
    (hn : Real.sqrt (nsq w) ≠ 0)
    (hR : ∀ i j t, HasDerivAt (fun s => R s i j) ((R t * hat w) i j) t) (h0 : R 0 = R0) :
    ∀ t, R t = Rflow R0 w t := by
  have key := eq_zero_of_sq_sum_deriv_zero
    (fun i j s => R s i j - Rflow R0 w s i j)
    (fun i j t => (R t * hat w) i j - (Rflow R0 w t * hat w) i j)
    (fun i j t => (hR i j t).fun_sub (hasDerivAt_Rflow R0 w t hn i j))
    (by
      intro t
      simp [Fin.sum_univ_three, Matrix.mul_apply, hat]
      ring)
    (by intro i j; simp [h0, (flow_zero R0 0 0 0 w 0).2.2])
  intro t
  ext i j
  have := key i j t
  linarith

/-- a function with zero derivative and zero initial value vanishes -/
theorem eq_zero_of_deriv_zero (d : ℝ → ℝ) (hd : ∀ t, HasDerivAt d 0 t) (h0 : d 0 = 0) : ∀ t, d t = 0 := by
  intro t
  have := is_const_of_deriv_eq_zero (fun s => (hd s).differentiableAt) (fun s => (hd s).deriv) t 0
  rw [this, h0]

/-- **uniqueness of the whole solution**: position, velocity and attitude -/
theorem flow_unique (p v : ℝ → Fin 3 → ℝ) (R : ℝ → Matrix (Fin 3) (Fin 3) ℝ)
    (R0 : Matrix (Fin 3) (Fin 3) ℝ) (p0 v0 a w : Fin 3 → ℝ) (g : ℝ) (hn : Real.sqrt (nsq w) ≠ 0)
    (hp : ∀ i t, HasDerivAt (fun s => p s i) (v t i) t)
    (hv : ∀ i t, HasDerivAt (fun s => v s i) (((R t).mulVec a) i + ![0, 0, -g] i) t)
    (hR : ∀ i j t, HasDerivAt (fun s => R s i j) ((R t * hat w) i j) t)
    (hp0 : p 0 = p0) (hv0 : v 0 = v0) (hR0 : R 0 = R0) :
    ∀ t, p t = pflow R0 p0 v0 a w g t ∧ v t = vflow R0 v0 a w g t ∧ R t = Rflow R0 w t := by
  have hRt := R_unique R R0 w hn hR hR0
  have hvt : ∀ t, v t = vflow R0 v0 a w g t := by
    intro t; funext i
    have hd : ∀ s, HasDerivAt (fun s => v s i - vflow R0 v0 a w g s i) 0 s := by
      intro s
      have := (hv i s).fun_sub (hasDerivAt_vflow R0 v0 a w g s hn i)
      rw [hRt s] at this
      simpa using this
    have := eq_zero_of_deriv_zero _ hd (by simp [hv0, (flow_zero R0 p0 v0 a w g).2.1]) t
    linarith
  have hpt : ∀ t, p t = pflow R0 p0 v0 a w g t := by
    intro t; funext i
    have hd : ∀ s, HasDerivAt (fun s => p s i - pflow R0 p0 v0 a w g s i) 0 s := by
      intro s
      have := (hp i s).fun_sub (hasDerivAt_pflow R0 p0 v0 a w g s hn i)
      rw [hvt s] at this
      simpa using this
    have := eq_zero_of_deriv_zero _ hd (by simp [hp0, (flow_zero R0 p0 v0 a w g).1]) t
    linarith
  exact fun t => ⟨hpt t, hvt t, hRt t⟩

end Flow
