/-
  Lib/JacSeries.lean — the left-Jacobian series  Σₙ Aⁿ/(n+1)!  in closed form for A³ = −t² A
  (so(3) with A = ad_x = x^), and the derivative of the quaternion rotation-matrix map.
  Code-independent.
-/
import Lib.RotExp
import Lib.ExpForms
import Mathlib.Analysis.Calculus.Deriv.Mul
import Mathlib.Analysis.Calculus.Deriv.Add

open NormedSpace Nat

namespace RotExp

variable {𝔸 : Type*} [NormedRing 𝔸] [NormedAlgebra ℝ 𝔸] [CompleteSpace 𝔸]

theorem pow_odd_of_cube {A : 𝔸} {t : ℝ} (h : A ^ 3 = (-(t ^ 2)) • A) (k : ℕ) :
    A ^ (2 * k + 1) = ((-(t ^ 2)) ^ k) • A := by
  induction k with
  | zero => simp
  | succ k ih =>
    have e : A ^ (2 * (k + 1) + 1) = A ^ (2 * k + 1) * A ^ 2 := by rw [← pow_add]; ring_nf
    have e3 : A * A ^ 2 = A ^ 3 := (pow_succ' A 2).symm
    rw [e, ih, smul_mul_assoc, e3, h, smul_smul, ← pow_succ]

theorem pow_even_of_cube {A : 𝔸} {t : ℝ} (h : A ^ 3 = (-(t ^ 2)) • A) (k : ℕ) :
    A ^ (2 * k + 2) = ((-(t ^ 2)) ^ k) • A ^ 2 := by
  have e : A ^ (2 * k + 2) = A ^ (2 * k + 1) * A := by rw [← pow_succ]
  rw [e, pow_odd_of_cube h, smul_mul_assoc, ← pow_two]

/-- **left-Jacobian series**: Σₙ Aⁿ/(n+1)! = 1 + c(t) A + d(t) A² whenever A³ = −t² A -/
theorem hasSum_jacobian_series {A : 𝔸} {t : ℝ} (h : A ^ 3 = (-(t ^ 2)) • A) :
    HasSum (fun n : ℕ => (((n + 1)! : ℝ)⁻¹) • A ^ n) (1 + cFun t • A + dFun t • A ^ 2) := by
  rw [← hasSum_nat_add_iff' 1]
  have o : HasSum (fun k : ℕ => ((((2 * k + 1) + 1)! : ℝ)⁻¹) • A ^ (2 * k + 1)) (cFun t • A) := by
    convert (hasSum_cTerm t).smul_const A using 1
    ext k
    rw [pow_odd_of_cube h, smul_smul]
    congr 1
    unfold cTerm
    rw [neg_pow, ← pow_mul, show 2 * k + 1 + 1 = 2 * k + 2 by ring]; ring
  have e : HasSum (fun k : ℕ => ((((2 * k + 1 + 1) + 1)! : ℝ)⁻¹) • A ^ (2 * k + 1 + 1)) (dFun t • A ^ 2) := by
    convert (hasSum_dTerm t).smul_const (A ^ 2) using 1
    ext k
    rw [show 2 * k + 1 + 1 = 2 * k + 2 by ring, pow_even_of_cube h, smul_smul]
    congr 1
    unfold dTerm
    rw [neg_pow, ← pow_mul, show 2 * k + 2 + 1 = 2 * k + 3 by ring]; ring
  have := HasSum.even_add_odd (f := fun n => ((((n + 1) + 1)! : ℝ)⁻¹) • A ^ (n + 1)) o e
  have e2 : (1 + cFun t • A + dFun t • A ^ 2 - ∑ i ∈ Finset.range 1, (((i + 1)! : ℝ)⁻¹) • A ^ i)
      = cFun t • A + dFun t • A ^ 2 := by
    simp; abel
  rw [e2]
  exact this

end RotExp

namespace Rot
open Matrix

/-- derivative of the quadratic map `q ↦ qmat q` in the direction `d` -/
def dqmat (q d : Fin 4 → ℝ) : Matrix (Fin 3) (Fin 3) ℝ :=
  !![2 * (q 0 * d 0 + q 1 * d 1 - q 2 * d 2 - q 3 * d 3), 2 * (q 1 * d 2 + d 1 * q 2 - q 0 * d 3 - d 0 * q 3),
       2 * (q 1 * d 3 + d 1 * q 3 + q 0 * d 2 + d 0 * q 2);
     2 * (q 1 * d 2 + d 1 * q 2 + q 0 * d 3 + d 0 * q 3), 2 * (q 0 * d 0 + q 2 * d 2 - q 1 * d 1 - q 3 * d 3),
       2 * (q 2 * d 3 + d 2 * q 3 - q 0 * d 1 - d 0 * q 1);
     2 * (q 1 * d 3 + d 1 * q 3 - q 0 * d 2 - d 0 * q 2), 2 * (q 2 * d 3 + d 2 * q 3 + q 0 * d 1 + d 0 * q 1),
       2 * (q 0 * d 0 + q 3 * d 3 - q 1 * d 1 - q 2 * d 2)]

/-- chain rule for `qmat` along any differentiable quaternion curve -/
theorem hasDerivAt_qmat (q : ℝ → Fin 4 → ℝ) (q' : Fin 4 → ℝ) (t : ℝ)
    (h : ∀ i, HasDerivAt (fun s => q s i) (q' i) t) (i j : Fin 3) :
    HasDerivAt (fun s => qmat (q s) i j) (dqmat (q t) q' i j) t := by
  have h0 := h 0; have h1 := h 1; have h2 := h 2; have h3 := h 3
  have e : ∀ (f : ℝ → ℝ) (f' g' : ℝ), HasDerivAt f f' t → f' = g' → HasDerivAt f g' t :=
    fun f f' g' hf hg => hg ▸ hf
  fin_cases i <;> fin_cases j <;> simp only [qmat, dqmat] <;> simp
  · exact e _ _ _ ((((h0.mul h0).add (h1.mul h1)).sub (h2.mul h2)).sub (h3.mul h3)) (by ring)
  · exact e _ _ _ (((h1.mul h2).sub (h0.mul h3)).const_mul 2) (by ring)
  · exact e _ _ _ (((h1.mul h3).add (h0.mul h2)).const_mul 2) (by ring)
  · exact e _ _ _ (((h1.mul h2).add (h0.mul h3)).const_mul 2) (by ring)
  · exact e _ _ _ ((((h0.mul h0).add (h2.mul h2)).sub (h1.mul h1)).sub (h3.mul h3)) (by ring)
  · exact e _ _ _ (((h2.mul h3).sub (h0.mul h1)).const_mul 2) (by ring)
  · exact e _ _ _ (((h1.mul h3).sub (h0.mul h2)).const_mul 2) (by ring)
  · exact e _ _ _ (((h2.mul h3).add (h0.mul h1)).const_mul 2) (by ring)
  · exact e _ _ _ ((((h0.mul h0).add (h3.mul h3)).sub (h1.mul h1)).sub (h2.mul h2)) (by ring)

end Rot

namespace Rot
open Matrix

/-- product of two quadratic polynomials in a skew matrix, reduced with x^³ = −|x|² x^ -/
theorem hat_quad_mul (x : Fin 3 → ℝ) (a b p q : ℝ) :
    (1 + a • hat x + b • hat x ^ 2) * (1 + p • hat x + q • hat x ^ 2)
      = 1 + (a + p - nsq x * (a * q + b * p)) • hat x + (q + a * p + b - nsq x * (b * q)) • hat x ^ 2 := by
  rw [pow_two]
  mat_entries <;> simp [hat, nsq, Matrix.mul_apply, Fin.sum_univ_succ, Matrix.one_apply] <;> ring

end Rot
