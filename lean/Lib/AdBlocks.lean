/-
  Lib/AdBlocks.lean — block form of the SE(3) adjoint and its homomorphism law
  (code-independent).
-/
import Lib.Rot
import Mathlib.Data.Matrix.Block
import Mathlib.LinearAlgebra.Matrix.Reindex

namespace Rot
open Matrix

/-- `[[R, p^ R],[0, R]]` as a 6×6 matrix -/
noncomputable def se3AdMat (R : Matrix (Fin 3) (Fin 3) ℝ) (p : Fin 3 → ℝ) : Matrix (Fin 6) (Fin 6) ℝ :=
  Matrix.reindex finSumFinEquiv finSumFinEquiv (Matrix.fromBlocks R (hat p * R) 0 R)

/-- `R` conjugates the hat map like a rotation -/
def HatConj (R : Matrix (Fin 3) (Fin 3) ℝ) : Prop := ∀ y, hat (R.mulVec y) * R = R * hat y

theorem se3AdMat_mul (R S : Matrix (Fin 3) (Fin 3) ℝ) (p q : Fin 3 → ℝ) (hR : HatConj R) :
    se3AdMat R p * se3AdMat S q = se3AdMat (R * S) (R.mulVec q + p) := by
  unfold se3AdMat
  rw [Matrix.reindex_apply, Matrix.reindex_apply, Matrix.reindex_apply, Matrix.submatrix_mul_equiv,
    Matrix.fromBlocks_multiply]
  have key : R * (hat q * S) + hat p * R * S = hat (R.mulVec q + p) * (R * S) := by
    rw [hat_add, Matrix.add_mul, ← Matrix.mul_assoc (hat (R.mulVec q)), hR q]
    simp [Matrix.mul_assoc]
  simp [key]

theorem hat_zero : hat 0 = 0 := by
  mat_entries <;> simp [hat]

theorem se3AdMat_one : se3AdMat 1 0 = 1 := by
  unfold se3AdMat
  rw [hat_zero, Matrix.zero_mul, Matrix.fromBlocks_one]
  simp

theorem hatConj_qmat (q : Fin 4 → ℝ) (h : qnormSq q = 1) : HatConj (qmat q) :=
  fun y => hat_qmat_mulVec_unit q h y

theorem hatConj_mrpMat (r : Fin 3 → ℝ) : HatConj (mrpMat r) :=
  fun y => hat_mrpMat_mulVec r y

/-- for every 3×3 matrix: `Mᵀ (M y)^ M = det M • y^` -/
theorem transpose_hat_mulVec (M : Matrix (Fin 3) (Fin 3) ℝ) (y : Fin 3 → ℝ) :
    M.transpose * hat (M.mulVec y) * M = M.det • hat y := by
  mat_entries <;>
    simp [hat, Matrix.mul_apply, Matrix.mulVec, dotProduct, Fin.sum_univ_succ, Matrix.det_fin_three] <;> ring

/-- every proper rotation conjugates the hat map -/
theorem hatConj_of_orthogonal (M : Matrix (Fin 3) (Fin 3) ℝ) (ho : M.transpose * M = 1) (hd : M.det = 1) :
    HatConj M := by
  intro y
  have ho' : M * M.transpose = 1 := mul_eq_one_comm.mp ho
  have := transpose_hat_mulVec M y
  rw [hd, one_smul] at this
  calc hat (M.mulVec y) * M = (M * M.transpose) * (hat (M.mulVec y) * M) := by rw [ho', Matrix.one_mul]
    _ = M * (M.transpose * hat (M.mulVec y) * M) := by simp [Matrix.mul_assoc]
    _ = M * hat y := by rw [this]

end Rot
