/-
  Lib/Triad.lean — orthonormal right-handed frames built from a thrust axis and a heading
  (code-independent).  `frame y z` has columns  y × z,  y,  z.
-/
import Lib.SO3
import Mathlib.Analysis.SpecialFunctions.Sqrt
import Mathlib.Analysis.Calculus.Deriv.Add
import Mathlib.Analysis.Calculus.Deriv.Mul
import Mathlib.Analysis.Calculus.Deriv.Inv
import Mathlib.Analysis.Calculus.Deriv.Pow

namespace Triad
open Rot Matrix

/-- the matrix with columns `y × z`, `y`, `z` -/
def frame (y z : Fin 3 → ℝ) : Matrix (Fin 3) (Fin 3) ℝ :=
  !![y 1 * z 2 - y 2 * z 1, y 0, z 0;
     y 2 * z 0 - y 0 * z 2, y 1, z 1;
     y 0 * z 1 - y 1 * z 0, y 2, z 2]

/-- two orthonormal vectors complete to a proper rotation -/
theorem frame_isRot (y z : Fin 3 → ℝ) (hy : nsq y = 1) (hz : nsq z = 1) (hyz : dot3 y z = 0) :
    IsRot (frame y z) := by
  unfold nsq at hy hz; unfold dot3 at hyz
  constructor
  · ext i j; fin_cases i <;> fin_cases j <;>
      simp [frame, Matrix.mul_apply, Fin.sum_univ_three, Matrix.transpose_apply]
    · linear_combination (z 0 ^ 2 + z 1 ^ 2 + z 2 ^ 2) * hy + hz - (y 0 * z 0 + y 1 * z 1 + y 2 * z 2) * hyz
    · ring
    · ring
    · ring
    · linear_combination hy
    · linear_combination hyz
    · ring
    · linear_combination hyz
    · linear_combination hz
  · rw [Matrix.det_fin_three]
    simp [frame]
    linear_combination (z 0 ^ 2 + z 1 ^ 2 + z 2 ^ 2) * hy + hz - (y 0 * z 0 + y 1 * z 1 + y 2 * z 2) * hyz

/-- heading vector and its horizontal normal -/
def xC (c s : ℝ) : Fin 3 → ℝ := ![c, s, 0]
def yC (c s : ℝ) : Fin 3 → ℝ := ![-s, c, 0]

/-- `z × xC` -/
def w (z : Fin 3 → ℝ) (c s : ℝ) : Fin 3 → ℝ := ![-(z 2 * s), z 2 * c, z 0 * s - z 1 * c]

theorem w_eq_cross (z : Fin 3 → ℝ) (c s : ℝ) : w z c s = cross z (xC c s) := by
  funext i; fin_cases i <;> simp [w, cross, xC]

theorem w_perp_z (z : Fin 3 → ℝ) (c s : ℝ) : dot3 (w z c s) z = 0 := by
  simp [w, dot3]; ring

theorem w_perp_xC (z : Fin 3 → ℝ) (c s : ℝ) : dot3 (w z c s) (xC c s) = 0 := by
  simp [w, dot3, xC]; ring

/-- `‖z × xC‖² = z₂² + (z · yC)²` for a unit heading -/
theorem nsq_w (z : Fin 3 → ℝ) (c s : ℝ) (hcs : c ^ 2 + s ^ 2 = 1) :
    nsq (w z c s) = z 2 ^ 2 + (dot3 (yC c s) z) ^ 2 := by
  simp [w, nsq, dot3, yC]; linear_combination (z 2 ^ 2) * hcs

/-- the Gram–Schmidt fallback `yC − (yC·z) z` -/
def yalt (z : Fin 3 → ℝ) (c s : ℝ) : Fin 3 → ℝ := fun i => yC c s i - dot3 (yC c s) z * z i

theorem yalt_perp_z (z : Fin 3 → ℝ) (c s : ℝ) (hz : nsq z = 1) : dot3 (yalt z c s) z = 0 := by
  unfold nsq at hz
  simp [yalt, dot3, yC]; linear_combination (s * z 0 - c * z 1) * hz

theorem nsq_yalt (z : Fin 3 → ℝ) (c s : ℝ) (hz : nsq z = 1) (hcs : c ^ 2 + s ^ 2 = 1) :
    nsq (yalt z c s) = 1 - (dot3 (yC c s) z) ^ 2 := by
  unfold nsq at hz
  simp [yalt, nsq, dot3, yC]
  linear_combination hcs + (s * z 0 - c * z 1) ^ 2 * hz

/-- the fallback is never the zero vector when it is used (`‖z × xC‖² < 1`) -/
theorem nsq_yalt_pos (z : Fin 3 → ℝ) (c s : ℝ) (hz : nsq z = 1) (hcs : c ^ 2 + s ^ 2 = 1)
    (hsmall : nsq (w z c s) < 1) : 0 < nsq (yalt z c s) := by
  rw [nsq_yalt z c s hz hcs]
  rw [nsq_w z c s hcs] at hsmall
  nlinarith [sq_nonneg (z 2)]

/-- scaling a vector by the inverse of its norm gives a unit vector -/
theorem nsq_div (v : Fin 3 → ℝ) (n : ℝ) (hn : n ^ 2 = nsq v) (h0 : n ≠ 0) :
    nsq (fun i => v i / n) = 1 := by
  unfold nsq at *
  field_simp
  linarith

theorem dot3_div_left (v z : Fin 3 → ℝ) (n : ℝ) (h : dot3 v z = 0) : dot3 (fun i => v i / n) z = 0 := by
  unfold dot3 at *
  have : v 0 / n * z 0 + v 1 / n * z 1 + v 2 / n * z 2 = (v 0 * z 0 + v 1 * z 1 + v 2 * z 2) / n := by ring
  rw [this, h, zero_div]

/-- main branch: z unit, y = (z × xC)/‖z × xC‖ -/
theorem main_isRot (z : Fin 3 → ℝ) (c s n : ℝ) (hz : nsq z = 1) (hn : n ^ 2 = nsq (w z c s)) (h0 : n ≠ 0) :
    IsRot (frame (fun i => w z c s i / n) z) :=
  frame_isRot _ _ (nsq_div _ n hn h0) hz (dot3_div_left _ _ n (w_perp_z z c s))

/-- fallback branch: z unit, y = yalt/‖yalt‖ -/
theorem alt_isRot (z : Fin 3 → ℝ) (c s n : ℝ) (hz : nsq z = 1) (hn : n ^ 2 = nsq (yalt z c s)) (h0 : n ≠ 0) :
    IsRot (frame (fun i => yalt z c s i / n) z) :=
  frame_isRot _ _ (nsq_div _ n hn h0) hz (dot3_div_left _ _ n (yalt_perp_z z c s hz))

/-- in the main branch the body y axis is perpendicular to the heading vector -/
theorem main_y_perp_heading (z : Fin 3 → ℝ) (c s n : ℝ) :
    dot3 (fun i => w z c s i / n) (xC c s) = 0 :=
  dot3_div_left _ _ n (w_perp_xC z c s)

end Triad

/-! ## The formulas the controllers use (code-shaped): thrust axis with a 1e-3 zero-thrust guard, body y axis with a
    1e-3 guard and a Gram–Schmidt fallback.  `tol3` is the double nearest 1e-3. -/
namespace Triad
open Rot

noncomputable def zAxis (T0 T1 T2 : ℝ) : Fin 3 → ℝ :=
  if (1152921504606847:ℝ) * 2 ^ (-60:ℤ) < Real.sqrt (T0 * T0 + T1 * T1 + T2 * T2) then
    ![T0 / Real.sqrt (T0 * T0 + T1 * T1 + T2 * T2), T1 / Real.sqrt (T0 * T0 + T1 * T1 + T2 * T2), T2 / Real.sqrt (T0 * T0 + T1 * T1 + T2 * T2)]
  else ![0, 0, 1]

theorem nsq_zAxis (T0 T1 T2 : ℝ) : nsq (zAxis T0 T1 T2) = 1 := by
  unfold zAxis
  split_ifs with h
  · have hpos : 0 < Real.sqrt (T0 * T0 + T1 * T1 + T2 * T2) := lt_trans (by norm_num) h
    have h2 := Real.sq_sqrt (le_of_lt (Real.sqrt_pos.mp hpos))
    simp only [nsq, Matrix.cons_val_zero, Matrix.cons_val_one, Matrix.cons_val_two, Matrix.head_cons, Matrix.tail_cons]
    rw [div_pow, div_pow, div_pow, ← add_div, ← add_div, h2]
    have : T0 ^ 2 + T1 ^ 2 + T2 ^ 2 = T0 * T0 + T1 * T1 + T2 * T2 := by ring
    rw [this]; exact div_self (by rw [← h2]; positivity)
  · simp [nsq]

/-- above the guard the axis is the normalised force -/
theorem zAxis_main (T0 T1 T2 : ℝ) (h : (1152921504606847:ℝ) * 2 ^ (-60:ℤ) < Real.sqrt (T0 * T0 + T1 * T1 + T2 * T2)) (i : Fin 3) :
    zAxis T0 T1 T2 i * Real.sqrt (T0 * T0 + T1 * T1 + T2 * T2) = ![T0, T1, T2] i := by
  have hpos : Real.sqrt (T0 * T0 + T1 * T1 + T2 * T2) ≠ 0 := ne_of_gt (lt_trans (by norm_num) h)
  unfold zAxis; rw [if_pos h]
  fin_cases i <;> simp only [Matrix.cons_val_zero, Matrix.cons_val_one, Matrix.cons_val_two, Matrix.head_cons, Matrix.tail_cons, Fin.zero_eta, Fin.mk_one, Fin.reduceFinMk] <;> exact div_mul_cancel₀ _ hpos

noncomputable def yAxis (z0 z1 z2 c s : ℝ) : Fin 3 → ℝ :=
  if (1152921504606847:ℝ) * 2 ^ (-60:ℤ) < Real.sqrt (z2 * s * (z2 * s) + z2 * c * (z2 * c) + (z0 * s - z1 * c) * (z0 * s - z1 * c)) then
    ![-(z2 * s / Real.sqrt (z2 * s * (z2 * s) + z2 * c * (z2 * c) + (z0 * s - z1 * c) * (z0 * s - z1 * c))),
      z2 * c / Real.sqrt (z2 * s * (z2 * s) + z2 * c * (z2 * c) + (z0 * s - z1 * c) * (z0 * s - z1 * c)),
      (z0 * s - z1 * c) / Real.sqrt (z2 * s * (z2 * s) + z2 * c * (z2 * c) + (z0 * s - z1 * c) * (z0 * s - z1 * c))]
  else
    ![-((s + (c * z1 - s * z0) * z0) / Real.sqrt ((s + (c * z1 - s * z0) * z0) * (s + (c * z1 - s * z0) * z0) + (c - (c * z1 - s * z0) * z1) * (c - (c * z1 - s * z0) * z1) + (c * z1 - s * z0) * z2 * ((c * z1 - s * z0) * z2))),
      (c - (c * z1 - s * z0) * z1) / Real.sqrt ((s + (c * z1 - s * z0) * z0) * (s + (c * z1 - s * z0) * z0) + (c - (c * z1 - s * z0) * z1) * (c - (c * z1 - s * z0) * z1) + (c * z1 - s * z0) * z2 * ((c * z1 - s * z0) * z2)),
      -((c * z1 - s * z0) * z2 / Real.sqrt ((s + (c * z1 - s * z0) * z0) * (s + (c * z1 - s * z0) * z0) + (c - (c * z1 - s * z0) * z1) * (c - (c * z1 - s * z0) * z1) + (c * z1 - s * z0) * z2 * ((c * z1 - s * z0) * z2)))]

/-- the y axis is a unit vector perpendicular to z, for EVERY unit z and unit heading (both branches) -/
theorem yAxis_spec (z0 z1 z2 c s : ℝ) (hz : nsq ![z0, z1, z2] = 1) (hcs : c ^ 2 + s ^ 2 = 1) :
    nsq (yAxis z0 z1 z2 c s) = 1 ∧ dot3 (yAxis z0 z1 z2 c s) ![z0, z1, z2] = 0 := by
  set z : Fin 3 → ℝ := ![z0, z1, z2] with hzdef
  have hA : z2 * s * (z2 * s) + z2 * c * (z2 * c) + (z0 * s - z1 * c) * (z0 * s - z1 * c) = nsq (w z c s) := by
    simp [nsq, w, hzdef]; ring
  have hB : (s + (c * z1 - s * z0) * z0) * (s + (c * z1 - s * z0) * z0) + (c - (c * z1 - s * z0) * z1) * (c - (c * z1 - s * z0) * z1)
      + (c * z1 - s * z0) * z2 * ((c * z1 - s * z0) * z2) = nsq (yalt z c s) := by
    simp [nsq, yalt, dot3, yC, hzdef]; ring
  unfold yAxis
  split_ifs with h
  · rw [hA] at h ⊢
    have hpos : 0 < Real.sqrt (nsq (w z c s)) := lt_trans (by norm_num) h
    have h2 := Real.sq_sqrt (nsq_nonneg (w z c s))
    have hv : (![-(z2 * s / Real.sqrt (nsq (w z c s))), z2 * c / Real.sqrt (nsq (w z c s)), (z0 * s - z1 * c) / Real.sqrt (nsq (w z c s))] : Fin 3 → ℝ)
        = fun i => w z c s i / Real.sqrt (nsq (w z c s)) := by
      funext i; fin_cases i <;> simp [w, hzdef] <;> ring
    rw [hv]
    exact ⟨nsq_div _ _ h2 (ne_of_gt hpos), dot3_div_left _ _ _ (w_perp_z z c s)⟩
  · rw [hA] at h
    rw [hB]
    have hsmall : nsq (w z c s) < 1 := by
      have h0 := Real.sqrt_nonneg (nsq (w z c s))
      have h2 := Real.sq_sqrt (nsq_nonneg (w z c s))
      have hle : Real.sqrt (nsq (w z c s)) ≤ (1152921504606847:ℝ) * 2 ^ (-60:ℤ) := not_lt.mp h
      have : Real.sqrt (nsq (w z c s)) ^ 2 ≤ ((1152921504606847:ℝ) * 2 ^ (-60:ℤ)) ^ 2 := pow_le_pow_left₀ h0 hle 2
      rw [h2] at this
      refine lt_of_le_of_lt this ?_
      norm_num
    have hpos := nsq_yalt_pos z c s hz hcs hsmall
    have hsq : 0 < Real.sqrt (nsq (yalt z c s)) := Real.sqrt_pos.mpr hpos
    have h2 := Real.sq_sqrt (le_of_lt hpos)
    have hv : (![-((s + (c * z1 - s * z0) * z0) / Real.sqrt (nsq (yalt z c s))), (c - (c * z1 - s * z0) * z1) / Real.sqrt (nsq (yalt z c s)),
          -((c * z1 - s * z0) * z2 / Real.sqrt (nsq (yalt z c s)))] : Fin 3 → ℝ)
        = fun i => yalt z c s i / Real.sqrt (nsq (yalt z c s)) := by
      funext i; fin_cases i <;> simp [yalt, dot3, yC, hzdef] <;> ring
    rw [hv]
    exact ⟨nsq_div _ _ h2 (ne_of_gt hsq), dot3_div_left _ _ _ (yalt_perp_z z c s hz)⟩

/-- in the main branch the y axis is perpendicular to the heading vector (cos, sin, 0) -/
theorem yAxis_perp_heading (z0 z1 z2 c s : ℝ)
    (h : (1152921504606847:ℝ) * 2 ^ (-60:ℤ) < Real.sqrt (z2 * s * (z2 * s) + z2 * c * (z2 * c) + (z0 * s - z1 * c) * (z0 * s - z1 * c))) :
    dot3 (yAxis z0 z1 z2 c s) ![c, s, 0] = 0 := by
  unfold yAxis; rw [if_pos h]
  simp [dot3]; ring

/-- thrust straight up: the y axis is the horizontal normal of the heading, (−s, c, 0) -/
theorem yAxis_up (c s : ℝ) (hcs : c ^ 2 + s ^ 2 = 1) : yAxis 0 0 1 c s = ![-s, c, 0] := by
  have hA : (1:ℝ) * s * (1 * s) + 1 * c * (1 * c) + (0 * s - 0 * c) * (0 * s - 0 * c) = 1 := by nlinarith [hcs]
  unfold yAxis
  rw [hA, Real.sqrt_one, if_pos (by norm_num)]
  simp

/-- the frame the controllers hand to the quaternion extraction is a proper rotation, whatever the force and heading -/
theorem frame_yAxis_zAxis_isRot (T0 T1 T2 c s : ℝ) (hcs : c ^ 2 + s ^ 2 = 1) :
    IsRot (frame (yAxis (zAxis T0 T1 T2 0) (zAxis T0 T1 T2 1) (zAxis T0 T1 T2 2) c s) (zAxis T0 T1 T2)) := by
  have hz := nsq_zAxis T0 T1 T2
  have hz' : nsq ![zAxis T0 T1 T2 0, zAxis T0 T1 T2 1, zAxis T0 T1 T2 2] = 1 := by simpa [nsq] using hz
  obtain ⟨h1, h2⟩ := yAxis_spec _ _ _ c s hz' hcs
  refine frame_isRot _ _ h1 hz ?_
  simpa [dot3] using h2


/-! ## rotation rate of a thrust axis along a trajectory -/

/-- derivative of the direction of a moving non-zero vector: (u/‖u‖)' = (u' − z (z·u'))/‖u‖ with z = u/‖u‖ -/
theorem hasDerivAt_direction (u : ℝ → Fin 3 → ℝ) (u' : Fin 3 → ℝ) (t : ℝ)
    (hu : ∀ i, HasDerivAt (fun τ => u τ i) (u' i) t) (h0 : nsq (u t) ≠ 0) (i : Fin 3) :
    HasDerivAt (fun τ => u τ i / Real.sqrt (nsq (u τ)))
      ((u' i - (u t i / Real.sqrt (nsq (u t))) * dot3 (fun k => u t k / Real.sqrt (nsq (u t))) u') / Real.sqrt (nsq (u t))) t := by
  have hN : HasDerivAt (fun τ => nsq (u τ)) (2 * dot3 (u t) u') t := by
    have h := HasDerivAt.add (HasDerivAt.add ((hu 0).pow 2) ((hu 1).pow 2)) ((hu 2).pow 2)
    refine (show HasDerivAt (fun τ => nsq (u τ)) _ t from h).congr_deriv ?_
    simp [dot3]; ring
  have hS := hN.sqrt h0
  have hpos : 0 < nsq (u t) := lt_of_le_of_ne (nsq_nonneg _) (Ne.symm h0)
  have hs0 : Real.sqrt (nsq (u t)) ≠ 0 := ne_of_gt (Real.sqrt_pos.mpr hpos)
  have h2 := Real.sq_sqrt (le_of_lt hpos)
  have := (hu i).div hS hs0
  refine this.congr_deriv ?_
  simp only [dot3]
  field_simp


/-- roll and pitch rate of a frame (x, y, z) whose z axis follows u/‖u‖: with ż = (u' − z (z·u'))/n and y, x ⟂ z,
    p = −y·ż = −(y·u')/n and q = x·ż = (x·u')/n -/
theorem rates_of_direction (x y z u' : Fin 3 → ℝ) (n : ℝ) (hyz : dot3 y z = 0) (hxz : dot3 x z = 0) :
    -dot3 y (fun i => (u' i - z i * dot3 z u') / n) = -(dot3 y u') / n
      ∧ dot3 x (fun i => (u' i - z i * dot3 z u') / n) = dot3 x u' / n := by
  unfold dot3 at *
  constructor
  · have : y 0 * ((u' 0 - z 0 * (z 0 * u' 0 + z 1 * u' 1 + z 2 * u' 2)) / n) + y 1 * ((u' 1 - z 1 * (z 0 * u' 0 + z 1 * u' 1 + z 2 * u' 2)) / n)
        + y 2 * ((u' 2 - z 2 * (z 0 * u' 0 + z 1 * u' 1 + z 2 * u' 2)) / n)
        = ((y 0 * u' 0 + y 1 * u' 1 + y 2 * u' 2) - (y 0 * z 0 + y 1 * z 1 + y 2 * z 2) * (z 0 * u' 0 + z 1 * u' 1 + z 2 * u' 2)) / n := by ring
    rw [this, hyz]; ring
  · have : x 0 * ((u' 0 - z 0 * (z 0 * u' 0 + z 1 * u' 1 + z 2 * u' 2)) / n) + x 1 * ((u' 1 - z 1 * (z 0 * u' 0 + z 1 * u' 1 + z 2 * u' 2)) / n)
        + x 2 * ((u' 2 - z 2 * (z 0 * u' 0 + z 1 * u' 1 + z 2 * u' 2)) / n)
        = ((x 0 * u' 0 + x 1 * u' 1 + x 2 * u' 2) - (x 0 * z 0 + x 1 * z 1 + x 2 * z 2) * (z 0 * u' 0 + z 1 * u' 1 + z 2 * u' 2)) / n := by ring
    rw [this, hxz]; ring

end Triad
