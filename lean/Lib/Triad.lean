/-
  Lib/Triad.lean — orthonormal right-handed frames built from a thrust axis and a heading
  (code-independent).  `frame y z` has columns  y × z,  y,  z.
-/
import Lib.SO3

namespace Triad
open Rot Matrix

/-- the matrix with columns `y × z`, `y`, `z` -/
def frame (y z : Fin 3 → ℝ) : Matrix (Fin 3) (Fin 3) ℝ :=
  !![y 1 * z 2 - y 2 * z 1, y 0, z 0;
     y 2 * z 0 - y 0 * z 2, y 1, z 1;
     y 0 * z 1 - y 1 * z 0, y 2, z 2]

/-- two orthonormal vectors complete to a proper rotation -/
theorem frame_isRot (y z : Fin 3 → ℝ) (hy : nsq y = 1) (hz : nsq z = 1) (hyz : dot3 y z = 0) :
    IsRot (frame y z) := by
  unfold nsq at hy hz; unfold dot3 at hyz
  constructor
  · ext i j; fin_cases i <;> fin_cases j <;>
      simp [frame, Matrix.mul_apply, Fin.sum_univ_three, Matrix.transpose_apply]
    · linear_combination (z 0 ^ 2 + z 1 ^ 2 + z 2 ^ 2) * hy + hz - (y 0 * z 0 + y 1 * z 1 + y 2 * z 2) * hyz
    · ring
    · ring
    · ring
    · linear_combination hy
    · linear_combination hyz
    · ring
    · linear_combination hyz
    · linear_combination hz
  · rw [Matrix.det_fin_three]
    simp [frame]
    linear_combination (z 0 ^ 2 + z 1 ^ 2 + z 2 ^ 2) * hy + hz - (y 0 * z 0 + y 1 * z 1 + y 2 * z 2) * hyz

/-- heading vector and its horizontal normal -/
def xC (c s : ℝ) : Fin 3 → ℝ := ![c, s, 0]
def yC (c s : ℝ) : Fin 3 → ℝ := ![-s, c, 0]

/-- `z × xC` -/
def w (z : Fin 3 → ℝ) (c s : ℝ) : Fin 3 → ℝ := ![-(z 2 * s), z 2 * c, z 0 * s - z 1 * c]

theorem w_eq_cross (z : Fin 3 → ℝ) (c s : ℝ) : w z c s = cross z (xC c s) := by
  funext i; fin_cases i <;> simp [w, cross, xC]

theorem w_perp_z (z : Fin 3 → ℝ) (c s : ℝ) : dot3 (w z c s) z = 0 := by
  simp [w, dot3]; ring

theorem w_perp_xC (z : Fin 3 → ℝ) (c s : ℝ) : dot3 (w z c s) (xC c s) = 0 := by
  simp [w, dot3, xC]; ring

/-- `‖z × xC‖² = z₂² + (z · yC)²` for a unit heading -/
theorem nsq_w (z : Fin 3 → ℝ) (c s : ℝ) (hcs : c ^ 2 + s ^ 2 = 1) :
    nsq (w z c s) = z 2 ^ 2 + (dot3 (yC c s) z) ^ 2 := by
  simp [w, nsq, dot3, yC]; linear_combination (z 2 ^ 2) * hcs

/-- the Gram–Schmidt fallback `yC − (yC·z) z` -/
def yalt (z : Fin 3 → ℝ) (c s : ℝ) : Fin 3 → ℝ := fun i => yC c s i - dot3 (yC c s) z * z i

theorem yalt_perp_z (z : Fin 3 → ℝ) (c s : ℝ) (hz : nsq z = 1) : dot3 (yalt z c s) z = 0 := by
  unfold nsq at hz
  simp [yalt, dot3, yC]; linear_combination (s * z 0 - c * z 1) * hz

theorem nsq_yalt (z : Fin 3 → ℝ) (c s : ℝ) (hz : nsq z = 1) (hcs : c ^ 2 + s ^ 2 = 1) :
    nsq (yalt z c s) = 1 - (dot3 (yC c s) z) ^ 2 := by
  unfold nsq at hz
  simp [yalt, nsq, dot3, yC]
  linear_combination hcs + (s * z 0 - c * z 1) ^ 2 * hz

/-- the fallback is never the zero vector when it is used (`‖z × xC‖² < 1`) -/
theorem nsq_yalt_pos (z : Fin 3 → ℝ) (c s : ℝ) (hz : nsq z = 1) (hcs : c ^ 2 + s ^ 2 = 1)
    (hsmall : nsq (w z c s) < 1) : 0 < nsq (yalt z c s) := by
  rw [nsq_yalt z c s hz hcs]
  rw [nsq_w z c s hcs] at hsmall
  nlinarith [sq_nonneg (z 2)]

/-- scaling a vector by the inverse of its norm gives a unit vector -/
theorem nsq_div (v : Fin 3 → ℝ) (n : ℝ) (hn : n ^ 2 = nsq v) (h0 : n ≠ 0) :
    nsq (fun i => v i / n) = 1 := by
  unfold nsq at *
  field_simp
  linarith

theorem dot3_div_left (v z : Fin 3 → ℝ) (n : ℝ) (h : dot3 v z = 0) : dot3 (fun i => v i / n) z = 0 := by
  unfold dot3 at *
  have : v 0 / n * z 0 + v 1 / n * z 1 + v 2 / n * z 2 = (v 0 * z 0 + v 1 * z 1 + v 2 * z 2) / n := by ring
  rw [this, h, zero_div]

/-- main branch: z unit, y = (z × xC)/‖z × xC‖ -/
theorem main_isRot (z : Fin 3 → ℝ) (c s n : ℝ) (hz : nsq z = 1) (hn : n ^ 2 = nsq (w z c s)) (h0 : n ≠ 0) :
    IsRot (frame (fun i => w z c s i / n) z) :=
  frame_isRot _ _ (nsq_div _ n hn h0) hz (dot3_div_left _ _ n (w_perp_z z c s))

/-- fallback branch: z unit, y = yalt/‖yalt‖ -/
theorem alt_isRot (z : Fin 3 → ℝ) (c s n : ℝ) (hz : nsq z = 1) (hn : n ^ 2 = nsq (yalt z c s)) (h0 : n ≠ 0) :
    IsRot (frame (fun i => yalt z c s i / n) z) :=
  frame_isRot _ _ (nsq_div _ n hn h0) hz (dot3_div_left _ _ n (yalt_perp_z z c s hz))

/-- in the main branch the body y axis is perpendicular to the heading vector -/
theorem main_y_perp_heading (z : Fin 3 → ℝ) (c s n : ℝ) :
    dot3 (fun i => w z c s i / n) (xC c s) = 0 :=
  dot3_div_left _ _ n (w_perp_xC z c s)

end Triad
