/-
  Lib/Flow.lean — the exact flow of the strap-down IMU kinematics
        p' = v,   v' = R a − g e₃,   R' = R [ω]×        (a, ω, g constant)
  in closed form, with machine-checked derivatives.  Code-independent.
-/
import Lib.ExpForms
import Mathlib.Analysis.SpecialFunctions.Trigonometric.Deriv
import Mathlib.Analysis.Calculus.Deriv.Mul
import Mathlib.Analysis.Calculus.Deriv.Add
import Mathlib.Analysis.Calculus.Deriv.Pow

namespace Flow
open Rot Matrix

/-- coefficient functions of time for a rate of magnitude `n ≠ 0` -/
noncomputable def sig (n t : ℝ) : ℝ := Real.sin (n * t) / n
noncomputable def alpha (n t : ℝ) : ℝ := (1 - Real.cos (n * t)) / n ^ 2
noncomputable def beta (n t : ℝ) : ℝ := (n * t - Real.sin (n * t)) / n ^ 3
noncomputable def gamma (n t : ℝ) : ℝ := ((n * t) ^ 2 / 2 + Real.cos (n * t) - 1) / n ^ 4

theorem hasDerivAt_nt (n t : ℝ) : HasDerivAt (fun s => n * s) n t := by
  simpa using (hasDerivAt_id t).const_mul n

theorem hasDerivAt_sig (n t : ℝ) (hn : n ≠ 0) : HasDerivAt (sig n) (Real.cos (n * t)) t := by
  have h := ((Real.hasDerivAt_sin (n * t)).comp t (hasDerivAt_nt n t)).div_const n
  exact h.congr_deriv (by field_simp)

theorem hasDerivAt_alpha (n t : ℝ) (hn : n ≠ 0) : HasDerivAt (alpha n) (sig n t) t := by
  have h := (((Real.hasDerivAt_cos (n * t)).comp t (hasDerivAt_nt n t)).const_sub 1).div_const (n ^ 2)
  exact h.congr_deriv (by unfold sig; field_simp)

theorem hasDerivAt_beta (n t : ℝ) (hn : n ≠ 0) : HasDerivAt (beta n) (alpha n t) t := by
  have h := ((hasDerivAt_nt n t).sub ((Real.hasDerivAt_sin (n * t)).comp t (hasDerivAt_nt n t))).div_const (n ^ 3)
  exact h.congr_deriv (by unfold alpha; field_simp)

theorem hasDerivAt_gamma (n t : ℝ) (hn : n ≠ 0) : HasDerivAt (gamma n) (beta n t) t := by
  have h1 : HasDerivAt (fun s => (n * s) ^ 2 / 2) (n * (n * t)) t := by
    have := ((hasDerivAt_nt n t).pow 2).div_const 2
    exact this.congr_deriv (by simp; ring)
  have h := ((h1.add ((Real.hasDerivAt_cos (n * t)).comp t (hasDerivAt_nt n t))).sub_const 1).div_const (n ^ 4)
  exact h.congr_deriv (by unfold beta; field_simp; ring)

/-- derivative of  c₀ + c₁ t + c₂ t²/2 + c₃ σ + c₄ α + c₅ β + c₆ γ  -/
theorem hasDerivAt_combo (n t : ℝ) (hn : n ≠ 0) (c0 c1 c2 c3 c4 c5 c6 : ℝ) :
    HasDerivAt (fun s => c0 + c1 * s + c2 * (s ^ 2 / 2) + c3 * sig n s + c4 * alpha n s + c5 * beta n s + c6 * gamma n s)
      (c1 + c2 * t + c3 * Real.cos (n * t) + c4 * sig n t + c5 * alpha n t + c6 * beta n t) t := by
  have hs : HasDerivAt (fun s : ℝ => s ^ 2 / 2) t t := by
    have := ((hasDerivAt_id t).pow 2).div_const 2
    exact this.congr_deriv (by simp)
  have h := ((((((hasDerivAt_const t c0).add ((hasDerivAt_id t).const_mul c1)).add (hs.const_mul c2)).add
    ((hasDerivAt_sig n t hn).const_mul c3)).add ((hasDerivAt_alpha n t hn).const_mul c4)).add
    ((hasDerivAt_beta n t hn).const_mul c5)).add ((hasDerivAt_gamma n t hn).const_mul c6)
  exact h.congr_deriv (by simp)

/-- cos(nt) = 1 − n² α(t): lets Rflow' be expressed with the same three functions -/
theorem cos_eq_alpha (n t : ℝ) (hn : n ≠ 0) : Real.cos (n * t) = 1 - n ^ 2 * alpha n t := by
  unfold alpha; field_simp; ring

/-! ### the flow -/

/-- attitude: R(t) = R₀ (1 + σ ω^ + α ω^²) = R₀ exp(t ω^) -/
noncomputable def Rflow (R0 : Matrix (Fin 3) (Fin 3) ℝ) (w : Fin 3 → ℝ) (t : ℝ) : Matrix (Fin 3) (Fin 3) ℝ :=
  R0 * (1 + sig (Real.sqrt (nsq w)) t • hat w + alpha (Real.sqrt (nsq w)) t • (hat w * hat w))

/-- velocity: v(t) = v₀ − g t e₃ + R₀ (t + α ω^ + β ω^²) a -/
noncomputable def vflow (R0 : Matrix (Fin 3) (Fin 3) ℝ) (v0 a w : Fin 3 → ℝ) (g t : ℝ) : Fin 3 → ℝ :=
  v0 + ![0, 0, -(g * t)]
    + R0.mulVec ((t • (1 : Matrix (Fin 3) (Fin 3) ℝ) + alpha (Real.sqrt (nsq w)) t • hat w
        + beta (Real.sqrt (nsq w)) t • (hat w * hat w)).mulVec a)

/-- position: p(t) = p₀ + v₀ t − g t²/2 e₃ + R₀ (t²/2 + β ω^ + γ ω^²) a -/
noncomputable def pflow (R0 : Matrix (Fin 3) (Fin 3) ℝ) (p0 v0 a w : Fin 3 → ℝ) (g t : ℝ) : Fin 3 → ℝ :=
  p0 + t • v0 + ![0, 0, -(g * (t ^ 2 / 2))]
    + R0.mulVec (((t ^ 2 / 2) • (1 : Matrix (Fin 3) (Fin 3) ℝ) + beta (Real.sqrt (nsq w)) t • hat w
        + gamma (Real.sqrt (nsq w)) t • (hat w * hat w)).mulVec a)

end Flow

namespace Flow
open Rot Matrix

set_option maxHeartbeats 2000000

/-- v' = R a − g e₃ -/
theorem hasDerivAt_vflow (R0 : Matrix (Fin 3) (Fin 3) ℝ) (v0 a w : Fin 3 → ℝ) (g t : ℝ)
    (hn : Real.sqrt (nsq w) ≠ 0) (i : Fin 3) :
    HasDerivAt (fun s => vflow R0 v0 a w g s i) (((Rflow R0 w t).mulVec a) i + ![0, 0, -g] i) t := by
  have h := hasDerivAt_combo (Real.sqrt (nsq w)) t hn (v0 i) ((R0.mulVec a) i + ![0, 0, -g] i) 0 0
    ((R0.mulVec ((hat w).mulVec a)) i) ((R0.mulVec (((hat w * hat w)).mulVec a)) i) 0
  have hf : (fun s => vflow R0 v0 a w g s i)
      = fun s => v0 i + ((R0.mulVec a) i + ![0, 0, -g] i) * s + 0 * (s ^ 2 / 2) + 0 * sig (Real.sqrt (nsq w)) s
          + (R0.mulVec ((hat w).mulVec a)) i * alpha (Real.sqrt (nsq w)) s
          + (R0.mulVec (((hat w * hat w)).mulVec a)) i * beta (Real.sqrt (nsq w)) s + 0 * gamma (Real.sqrt (nsq w)) s := by
    funext s
    fin_cases i <;>
      simp [vflow, hat, Matrix.vecHead, Matrix.vecTail, Matrix.mulVec, dotProduct, Fin.sum_univ_succ, Matrix.mul_apply, Matrix.one_apply] <;> ring
  rw [hf]
  refine h.congr_deriv ?_
  fin_cases i <;>
    simp [Rflow, hat, Matrix.vecHead, Matrix.vecTail, Matrix.mulVec, dotProduct, Fin.sum_univ_succ, Matrix.mul_apply, Matrix.one_apply] <;> ring

/-- p' = v -/
theorem hasDerivAt_pflow (R0 : Matrix (Fin 3) (Fin 3) ℝ) (p0 v0 a w : Fin 3 → ℝ) (g t : ℝ)
    (hn : Real.sqrt (nsq w) ≠ 0) (i : Fin 3) :
    HasDerivAt (fun s => pflow R0 p0 v0 a w g s i) (vflow R0 v0 a w g t i) t := by
  have h := hasDerivAt_combo (Real.sqrt (nsq w)) t hn (p0 i) (v0 i) ((R0.mulVec a) i + ![0, 0, -g] i) 0 0
    ((R0.mulVec ((hat w).mulVec a)) i) ((R0.mulVec (((hat w * hat w)).mulVec a)) i)
  have hf : (fun s => pflow R0 p0 v0 a w g s i)
      = fun s => p0 i + v0 i * s + ((R0.mulVec a) i + ![0, 0, -g] i) * (s ^ 2 / 2) + 0 * sig (Real.sqrt (nsq w)) s
          + 0 * alpha (Real.sqrt (nsq w)) s + (R0.mulVec ((hat w).mulVec a)) i * beta (Real.sqrt (nsq w)) s
          + (R0.mulVec (((hat w * hat w)).mulVec a)) i * gamma (Real.sqrt (nsq w)) s := by
    funext s
    fin_cases i <;>
      simp [pflow, hat, Matrix.vecHead, Matrix.vecTail, Matrix.mulVec, dotProduct, Fin.sum_univ_succ, Matrix.mul_apply, Matrix.one_apply] <;> ring
  rw [hf]
  refine h.congr_deriv ?_
  fin_cases i <;>
    simp [vflow, hat, Matrix.vecHead, Matrix.vecTail, Matrix.mulVec, dotProduct, Fin.sum_univ_succ, Matrix.mul_apply, Matrix.one_apply] <;> ring

/-- R' = R [ω]× -/
theorem hasDerivAt_Rflow (R0 : Matrix (Fin 3) (Fin 3) ℝ) (w : Fin 3 → ℝ) (t : ℝ)
    (hn : Real.sqrt (nsq w) ≠ 0) (i j : Fin 3) :
    HasDerivAt (fun s => Rflow R0 w s i j) ((Rflow R0 w t * hat w) i j) t := by
  have hu : Real.sqrt (nsq w) ^ 2 = nsq w := Real.sq_sqrt (nsq_nonneg w)
  have h := hasDerivAt_combo (Real.sqrt (nsq w)) t hn (R0 i j) 0 0 ((R0 * hat w) i j) ((R0 * (hat w * hat w)) i j) 0 0
  have hf : (fun s => Rflow R0 w s i j)
      = fun s => R0 i j + 0 * s + 0 * (s ^ 2 / 2) + (R0 * hat w) i j * sig (Real.sqrt (nsq w)) s
          + (R0 * (hat w * hat w)) i j * alpha (Real.sqrt (nsq w)) s + 0 * beta (Real.sqrt (nsq w)) s
          + 0 * gamma (Real.sqrt (nsq w)) s := by
    funext s
    rw [Rflow]
    fin_cases i <;> fin_cases j <;>
      simp [Matrix.mul_apply, Fin.sum_univ_succ, Matrix.one_apply, hat] <;> ring
  rw [hf]
  refine h.congr_deriv ?_
  rw [cos_eq_alpha _ _ hn, hu, Rflow]
  fin_cases i <;> fin_cases j <;>
    simp [Matrix.mul_apply, Fin.sum_univ_succ, Matrix.one_apply, hat, nsq] <;> ring

/-- initial values -/
theorem flow_zero (R0 : Matrix (Fin 3) (Fin 3) ℝ) (p0 v0 a w : Fin 3 → ℝ) (g : ℝ) :
    pflow R0 p0 v0 a w g 0 = p0 ∧ vflow R0 v0 a w g 0 = v0 ∧ Rflow R0 w 0 = R0 := by
  refine ⟨?_, ?_, ?_⟩
  · funext i; fin_cases i <;> simp [pflow, beta, gamma, Matrix.mulVec, dotProduct, Fin.sum_univ_succ] <;> rfl
  · funext i; fin_cases i <;> simp [vflow, alpha, beta, Matrix.mulVec, dotProduct, Fin.sum_univ_succ] <;> rfl
  · simp [Rflow, sig, alpha]

end Flow

namespace Flow
open Rot Matrix RotExp

/-- (θ²/2 + cos θ − 1)/θ⁴, the coefficient of ω^² in the position integral -/
noncomputable def eFun (t : ℝ) : ℝ := (t ^ 2 / 2 + Real.cos t - 1) / t ^ 4

/-- the flow with the coefficient VALUES as parameters (what the code computes) -/
noncomputable def Rform (R0 : Matrix (Fin 3) (Fin 3) ℝ) (w : Fin 3 → ℝ) (k0 k1 : ℝ) : Matrix (Fin 3) (Fin 3) ℝ :=
  R0 * (1 + k0 • hat w + k1 • (hat w * hat w))
noncomputable def vform (R0 : Matrix (Fin 3) (Fin 3) ℝ) (v0 a w : Fin 3 → ℝ) (g t k1 k2 : ℝ) : Fin 3 → ℝ :=
  v0 + ![0, 0, -(g * t)] + R0.mulVec ((t • (1 : Matrix (Fin 3) (Fin 3) ℝ) + k1 • hat w + k2 • (hat w * hat w)).mulVec a)
noncomputable def pform (R0 : Matrix (Fin 3) (Fin 3) ℝ) (p0 v0 a w : Fin 3 → ℝ) (g t k2 k3 : ℝ) : Fin 3 → ℝ :=
  p0 + t • v0 + ![0, 0, -(g * (t ^ 2 / 2))]
    + R0.mulVec (((t ^ 2 / 2) • (1 : Matrix (Fin 3) (Fin 3) ℝ) + k2 • hat w + k3 • (hat w * hat w)).mulVec a)

theorem Rflow_eq (R0 : Matrix (Fin 3) (Fin 3) ℝ) (w : Fin 3 → ℝ) (t : ℝ) :
    Rflow R0 w t = Rform R0 w (sig (Real.sqrt (nsq w)) t) (alpha (Real.sqrt (nsq w)) t) := rfl
theorem vflow_eq (R0 : Matrix (Fin 3) (Fin 3) ℝ) (v0 a w : Fin 3 → ℝ) (g t : ℝ) :
    vflow R0 v0 a w g t = vform R0 v0 a w g t (alpha (Real.sqrt (nsq w)) t) (beta (Real.sqrt (nsq w)) t) := rfl
theorem pflow_eq (R0 : Matrix (Fin 3) (Fin 3) ℝ) (p0 v0 a w : Fin 3 → ℝ) (g t : ℝ) :
    pflow R0 p0 v0 a w g t = pform R0 p0 v0 a w g t (beta (Real.sqrt (nsq w)) t) (gamma (Real.sqrt (nsq w)) t) := rfl

/-- the code evaluates its coefficients at θ = |t|·n (θ² = |tω|²); they are even, so the flow
    coefficients come out for either sign of the step -/
theorem coeffs_of_abs (n t : ℝ) (hn : n ≠ 0) (ht : t ≠ 0) :
    t * sFun (|t| * n) = sig n t ∧ t ^ 2 * cFun (|t| * n) = alpha n t
      ∧ t ^ 3 * dFun (|t| * n) = beta n t ∧ t ^ 4 * eFun (|t| * n) = gamma n t := by
  have hθ : |t| * n ≠ 0 := mul_ne_zero (abs_ne_zero.mpr ht) hn
  unfold sFun cFun dFun eFun sig alpha beta gamma
  rw [if_neg hθ, if_neg hθ, if_neg hθ]
  rcases lt_or_gt_of_ne ht with hneg | hpos
  · rw [abs_of_neg hneg]
    have e : -t * n = -(n * t) := by ring
    rw [e, Real.sin_neg, Real.cos_neg]
    refine ⟨?_, ?_, ?_, ?_⟩ <;> field_simp <;> ring
  · rw [abs_of_pos hpos]
    have e : t * n = n * t := by ring
    rw [e]
    refine ⟨?_, ?_, ?_, ?_⟩ <;> field_simp <;> ring

theorem sqrt_nsq_smul (t : ℝ) (w : Fin 3 → ℝ) :
    Real.sqrt (nsq (fun i => t * w i)) = |t| * Real.sqrt (nsq w) := by
  have : nsq (fun i => t * w i) = t ^ 2 * nsq w := by simp only [nsq]; ring
  rw [this, Real.sqrt_mul (sq_nonneg t), Real.sqrt_sq_eq_abs]

end Flow

/-! ### semigroup law -/
set_option maxHeartbeats 4000000
namespace Flow
open Rot Matrix

/-- x·1 + y·ω^ + z·ω^² -/
def poly3 (w : Fin 3 → ℝ) (x y z : ℝ) : Matrix (Fin 3) (Fin 3) ℝ := x • (1 : Matrix (Fin 3) (Fin 3) ℝ) + y • hat w + z • (hat w * hat w)

/-- products of such matrices, reduced with ω^³ = −|ω|² ω^ -/
theorem poly3_mul (w : Fin 3 → ℝ) (x y z x' y' z' : ℝ) :
    poly3 w x y z * poly3 w x' y' z'
      = poly3 w (x * x') (x * y' + y * x' - nsq w * (y * z' + z * y')) (x * z' + z * x' + y * y' - nsq w * (z * z')) := by
  ext i j; fin_cases i <;> fin_cases j <;>
    simp [poly3, hat, Matrix.mul_apply, Fin.sum_univ_three, nsq, Matrix.one_apply] <;> ring

theorem poly3_add (w : Fin 3 → ℝ) (x y z x' y' z' : ℝ) :
    poly3 w x y z + poly3 w x' y' z' = poly3 w (x + x') (y + y') (z + z') := by
  simp only [poly3, add_smul]; abel

theorem poly3_smul (w : Fin 3 → ℝ) (c x y z : ℝ) : c • poly3 w x y z = poly3 w (c * x) (c * y) (c * z) := by
  simp only [poly3, smul_add, smul_smul]

section coeff
variable (n s t : ℝ) (hn : n ≠ 0)
include hn

theorem sig_add : sig n (s + t) = sig n s + sig n t - n ^ 2 * (sig n s * alpha n t + alpha n s * sig n t) := by
  unfold sig alpha; rw [mul_add, Real.sin_add]; field_simp; ring
theorem alpha_add : alpha n (s + t) = alpha n s + alpha n t + sig n s * sig n t - n ^ 2 * (alpha n s * alpha n t) := by
  unfold sig alpha; rw [mul_add, Real.cos_add]; field_simp; ring
theorem alpha_add' : alpha n (s + t) = alpha n s + (alpha n t + sig n s * t - n ^ 2 * (sig n s * beta n t + alpha n s * alpha n t)) := by
  unfold sig alpha beta; rw [mul_add, Real.cos_add]; field_simp; ring
theorem beta_add : beta n (s + t) = beta n s + (beta n t + alpha n s * t + sig n s * alpha n t - n ^ 2 * (alpha n s * beta n t)) := by
  unfold sig alpha beta; rw [mul_add, Real.sin_add]; field_simp; ring
theorem beta_add' : beta n (s + t) = beta n s + t * alpha n s
    + (beta n t + sig n s * (t ^ 2 / 2) - n ^ 2 * (sig n s * gamma n t + alpha n s * beta n t)) := by
  unfold sig alpha beta gamma; rw [mul_add, Real.sin_add]; field_simp; ring
theorem gamma_add : gamma n (s + t) = gamma n s + t * beta n s
    + (gamma n t + alpha n s * (t ^ 2 / 2) + sig n s * beta n t - n ^ 2 * (alpha n s * gamma n t)) := by
  unfold sig alpha beta gamma; rw [mul_add, Real.cos_add]; field_simp; ring
end coeff

theorem Rflow_poly (R0 : Matrix (Fin 3) (Fin 3) ℝ) (w : Fin 3 → ℝ) (t : ℝ) :
    Rflow R0 w t = R0 * poly3 w 1 (sig (Real.sqrt (nsq w)) t) (alpha (Real.sqrt (nsq w)) t) := by
  simp [Rflow, poly3]
theorem vflow_poly (R0 : Matrix (Fin 3) (Fin 3) ℝ) (v0 a w : Fin 3 → ℝ) (g t : ℝ) :
    vflow R0 v0 a w g t = v0 + ![0, 0, -(g * t)]
      + (R0 * poly3 w t (alpha (Real.sqrt (nsq w)) t) (beta (Real.sqrt (nsq w)) t)).mulVec a := by
  simp [vflow, poly3, Matrix.mulVec_mulVec]
theorem pflow_poly (R0 : Matrix (Fin 3) (Fin 3) ℝ) (p0 v0 a w : Fin 3 → ℝ) (g t : ℝ) :
    pflow R0 p0 v0 a w g t = p0 + t • v0 + ![0, 0, -(g * (t ^ 2 / 2))]
      + (R0 * poly3 w (t ^ 2 / 2) (beta (Real.sqrt (nsq w)) t) (gamma (Real.sqrt (nsq w)) t)).mulVec a := by
  simp [pflow, poly3, Matrix.mulVec_mulVec]

/-- **semigroup law of the strap-down flow**: flowing for s and then for t (with the same constant inputs) is flowing for
    s + t — attitude, velocity and position -/
theorem flow_semigroup (R0 : Matrix (Fin 3) (Fin 3) ℝ) (p0 v0 a w : Fin 3 → ℝ) (g s t : ℝ) (hw : nsq w ≠ 0) :
    Rflow R0 w (s + t) = Rflow (Rflow R0 w s) w t
    ∧ vflow R0 v0 a w g (s + t) = vflow (Rflow R0 w s) (vflow R0 v0 a w g s) a w g t
    ∧ pflow R0 p0 v0 a w g (s + t) = pflow (Rflow R0 w s) (pflow R0 p0 v0 a w g s) (vflow R0 v0 a w g s) a w g t := by
  have hn : Real.sqrt (nsq w) ≠ 0 := by
    intro h; exact hw (le_antisymm (Real.sqrt_eq_zero'.mp h) (nsq_nonneg w))
  have h2 : Real.sqrt (nsq w) ^ 2 = nsq w := Real.sq_sqrt (nsq_nonneg w)
  generalize hnn : Real.sqrt (nsq w) = n at hn h2
  refine ⟨?_, ?_, ?_⟩
  · rw [Rflow_poly, Rflow_poly, Rflow_poly, hnn, Matrix.mul_assoc, poly3_mul, ← h2, sig_add n s t hn, alpha_add n s t hn]
    congr 2 <;> ring
  · rw [vflow_poly, vflow_poly, vflow_poly, Rflow_poly, hnn, Matrix.mul_assoc, poly3_mul, ← h2,
      alpha_add' n s t hn, beta_add n s t hn]
    have e : poly3 w (s + t) (alpha n s + (alpha n t + sig n s * t - n ^ 2 * (sig n s * beta n t + alpha n s * alpha n t)))
          (beta n s + (beta n t + alpha n s * t + sig n s * alpha n t - n ^ 2 * (alpha n s * beta n t)))
        = poly3 w s (alpha n s) (beta n s)
          + poly3 w (1 * t) (1 * alpha n t + sig n s * t - n ^ 2 * (sig n s * beta n t + alpha n s * alpha n t))
              (1 * beta n t + alpha n s * t + sig n s * alpha n t - n ^ 2 * (alpha n s * beta n t)) := by
      rw [poly3_add]; congr 1 <;> ring
    rw [e, Matrix.mul_add, Matrix.add_mulVec]
    have hz : (![0, 0, -(g * (s + t))] : Fin 3 → ℝ) = ![0, 0, -(g * s)] + ![0, 0, -(g * t)] := by
      funext i; fin_cases i <;> simp; ring
    rw [hz]; simp only [one_mul]; abel
  · rw [pflow_poly, pflow_poly, pflow_poly, vflow_poly, Rflow_poly, hnn, Matrix.mul_assoc, poly3_mul, ← h2,
      beta_add' n s t hn, gamma_add n s t hn]
    have e : poly3 w ((s + t) ^ 2 / 2)
          (beta n s + t * alpha n s + (beta n t + sig n s * (t ^ 2 / 2) - n ^ 2 * (sig n s * gamma n t + alpha n s * beta n t)))
          (gamma n s + t * beta n s + (gamma n t + alpha n s * (t ^ 2 / 2) + sig n s * beta n t - n ^ 2 * (alpha n s * gamma n t)))
        = poly3 w (s ^ 2 / 2) (beta n s) (gamma n s) + t • poly3 w s (alpha n s) (beta n s)
          + poly3 w (1 * (t ^ 2 / 2)) (1 * beta n t + sig n s * (t ^ 2 / 2) - n ^ 2 * (sig n s * gamma n t + alpha n s * beta n t))
              (1 * gamma n t + alpha n s * (t ^ 2 / 2) + sig n s * beta n t - n ^ 2 * (alpha n s * gamma n t)) := by
      rw [poly3_smul, poly3_add, poly3_add]; congr 1 <;> ring
    rw [e, Matrix.mul_add, Matrix.mul_add, Matrix.add_mulVec, Matrix.add_mulVec, Matrix.mul_smul, Matrix.smul_mulVec]
    have hz : (![0, 0, -(g * ((s + t) ^ 2 / 2))] : Fin 3 → ℝ)
        = ![0, 0, -(g * (s ^ 2 / 2))] + t • ![0, 0, -(g * s)] + ![0, 0, -(g * (t ^ 2 / 2))] := by
      funext i; fin_cases i <;> simp; ring
    rw [hz]; simp only [one_mul, smul_add, add_smul]; abel
end Flow
