/-
  Lib/SO3.lean — proper rotation matrices: the quadratic relations of SO(3) and
  Shepperd's matrix-to-quaternion extraction (code-independent).
-/
import Lib.Rot
import Mathlib.LinearAlgebra.Matrix.Adjugate
import Mathlib.Analysis.SpecialFunctions.Sqrt

namespace Rot
open Matrix

/-- proper rotation matrix -/
structure IsRot (R : Matrix (Fin 3) (Fin 3) ℝ) : Prop where
  orth : R.transpose * R = 1
  det : R.det = 1

theorem IsRot.orth' {R : Matrix (Fin 3) (Fin 3) ℝ} (h : IsRot R) : R * R.transpose = 1 :=
  mul_eq_one_comm.mp h.orth

theorem IsRot.adjugate {R : Matrix (Fin 3) (Fin 3) ℝ} (h : IsRot R) : R.adjugate = R.transpose := by
  have h1 : R * R.adjugate = 1 := by rw [Matrix.mul_adjugate, h.det, one_smul]
  calc R.adjugate = (R.transpose * R) * R.adjugate := by rw [h.orth, Matrix.one_mul]
    _ = R.transpose * (R * R.adjugate) := by rw [Matrix.mul_assoc]
    _ = R.transpose := by rw [h1, Matrix.mul_one]

/-- the 21 quadratic relations (columns orthonormal, rows orthonormal, R = cofactor matrix) -/
theorem IsRot.rels {R : Matrix (Fin 3) (Fin 3) ℝ} (h : IsRot R) :
    (R 0 0 * R 0 0 + R 1 0 * R 1 0 + R 2 0 * R 2 0 = 1 ∧ R 0 1 * R 0 1 + R 1 1 * R 1 1 + R 2 1 * R 2 1 = 1
      ∧ R 0 2 * R 0 2 + R 1 2 * R 1 2 + R 2 2 * R 2 2 = 1 ∧ R 0 0 * R 0 1 + R 1 0 * R 1 1 + R 2 0 * R 2 1 = 0
      ∧ R 0 0 * R 0 2 + R 1 0 * R 1 2 + R 2 0 * R 2 2 = 0 ∧ R 0 1 * R 0 2 + R 1 1 * R 1 2 + R 2 1 * R 2 2 = 0)
    ∧ (R 0 0 * R 0 0 + R 0 1 * R 0 1 + R 0 2 * R 0 2 = 1 ∧ R 1 0 * R 1 0 + R 1 1 * R 1 1 + R 1 2 * R 1 2 = 1
      ∧ R 2 0 * R 2 0 + R 2 1 * R 2 1 + R 2 2 * R 2 2 = 1 ∧ R 0 0 * R 1 0 + R 0 1 * R 1 1 + R 0 2 * R 1 2 = 0
      ∧ R 0 0 * R 2 0 + R 0 1 * R 2 1 + R 0 2 * R 2 2 = 0 ∧ R 1 0 * R 2 0 + R 1 1 * R 2 1 + R 1 2 * R 2 2 = 0)
    ∧ (R 1 1 * R 2 2 - R 1 2 * R 2 1 = R 0 0 ∧ R 1 2 * R 2 0 - R 1 0 * R 2 2 = R 0 1
      ∧ R 1 0 * R 2 1 - R 1 1 * R 2 0 = R 0 2 ∧ R 0 2 * R 2 1 - R 0 1 * R 2 2 = R 1 0
      ∧ R 0 0 * R 2 2 - R 0 2 * R 2 0 = R 1 1 ∧ R 0 1 * R 2 0 - R 0 0 * R 2 1 = R 1 2
      ∧ R 0 1 * R 1 2 - R 0 2 * R 1 1 = R 2 0 ∧ R 0 2 * R 1 0 - R 0 0 * R 1 2 = R 2 1
      ∧ R 0 0 * R 1 1 - R 0 1 * R 1 0 = R 2 2) := by
  have o := h.orth
  have o' := h.orth'
  have a := h.adjugate
  have e := fun i j => congrFun (congrFun o i) j
  have e' := fun i j => congrFun (congrFun o' i) j
  have ea := fun i j => congrFun (congrFun a i) j
  refine ⟨⟨?_, ?_, ?_, ?_, ?_, ?_⟩, ⟨?_, ?_, ?_, ?_, ?_, ?_⟩, ⟨?_, ?_, ?_, ?_, ?_, ?_, ?_, ?_, ?_⟩⟩
  · have := e 0 0; simp [Matrix.mul_apply, Fin.sum_univ_succ] at this; linarith
  · have := e 1 1; simp [Matrix.mul_apply, Fin.sum_univ_succ] at this; linarith
  · have := e 2 2; simp [Matrix.mul_apply, Fin.sum_univ_succ] at this; linarith
  · have := e 0 1; simp [Matrix.mul_apply, Fin.sum_univ_succ] at this; linarith
  · have := e 0 2; simp [Matrix.mul_apply, Fin.sum_univ_succ] at this; linarith
  · have := e 1 2; simp [Matrix.mul_apply, Fin.sum_univ_succ] at this; linarith
  · have := e' 0 0; simp [Matrix.mul_apply, Fin.sum_univ_succ] at this; linarith
  · have := e' 1 1; simp [Matrix.mul_apply, Fin.sum_univ_succ] at this; linarith
  · have := e' 2 2; simp [Matrix.mul_apply, Fin.sum_univ_succ] at this; linarith
  · have := e' 0 1; simp [Matrix.mul_apply, Fin.sum_univ_succ] at this; linarith
  · have := e' 0 2; simp [Matrix.mul_apply, Fin.sum_univ_succ] at this; linarith
  · have := e' 1 2; simp [Matrix.mul_apply, Fin.sum_univ_succ] at this; linarith
  · have := ea 0 0; simp [Matrix.adjugate_fin_three] at this; linarith
  · have := ea 1 0; simp [Matrix.adjugate_fin_three] at this; linarith
  · have := ea 2 0; simp [Matrix.adjugate_fin_three] at this; linarith
  · have := ea 0 1; simp [Matrix.adjugate_fin_three] at this; linarith
  · have := ea 1 1; simp [Matrix.adjugate_fin_three] at this; linarith
  · have := ea 2 1; simp [Matrix.adjugate_fin_three] at this; linarith
  · have := ea 0 2; simp [Matrix.adjugate_fin_three] at this; linarith
  · have := ea 1 2; simp [Matrix.adjugate_fin_three] at this; linarith
  · have := ea 2 2; simp [Matrix.adjugate_fin_three] at this; linarith

theorem isRot_qmat (q : Fin 4 → ℝ) (h : qnormSq q = 1) : IsRot (qmat q) :=
  ⟨(qmat_orthogonal q h).1, (qmat_orthogonal q h).2.2⟩

theorem isRot_mrpMat (r : Fin 3 → ℝ) : IsRot (mrpMat r) :=
  ⟨(mrpMat_orthogonal r).1, (mrpMat_orthogonal r).2⟩

end Rot

namespace Rot
open Matrix

/-! ### Shepperd's four branches: for a proper rotation `R` and a non-zero pivot `s` with
`s² = 1 ± R00 ± R11 ± R22`, the extracted quaternion is of unit norm and reproduces `R`. -/

set_option maxHeartbeats 1000000 in
theorem shepperd1 {R : Matrix (Fin 3) (Fin 3) ℝ} (h : IsRot R) (s : ℝ)
    (hs : s * s = 1 + R 0 0 + R 1 1 + R 2 2) (hs0 : s ≠ 0) :
    qnormSq ![s / 2, (R 2 1 - R 1 2) / (2 * s), (R 0 2 - R 2 0) / (2 * s), (R 1 0 - R 0 1) / (2 * s)] = 1
    ∧ qmat ![s / 2, (R 2 1 - R 1 2) / (2 * s), (R 0 2 - R 2 0) / (2 * s), (R 1 0 - R 0 1) / (2 * s)] = R := by
  obtain ⟨⟨c1, c2, c3, c4, c5, c6⟩, ⟨r1, r2, r3, r4, r5, r6⟩, ⟨k1, k2, k3, k4, k5, k6, k7, k8, k9⟩⟩ := h.rels
  have hs4 : s ^ 4 = (1 + R 0 0 + R 1 1 + R 2 2) * (1 + R 0 0 + R 1 1 + R 2 2) := by
    rw [← hs]; ring
  have hs2 : s ^ 2 = 1 + R 0 0 + R 1 1 + R 2 2 := by rw [← hs]; ring
  constructor
  · simp [qnormSq]
    field_simp
    linarith [hs4, hs2, c1, c2, c3, c4, c5, c6, r1, r2, r3, r4, r5, r6, k1, k2, k3, k4, k5, k6, k7, k8, k9]
  · ext i j
    fin_cases i <;> fin_cases j <;> simp [qmat] <;> field_simp <;>
      linarith [hs4, hs2, c1, c2, c3, c4, c5, c6, r1, r2, r3, r4, r5, r6, k1, k2, k3, k4, k5, k6, k7, k8, k9,
        congrArg (fun x => x * R 0 0) hs2, congrArg (fun x => x * R 0 1) hs2, congrArg (fun x => x * R 0 2) hs2,
        congrArg (fun x => x * R 1 0) hs2, congrArg (fun x => x * R 1 1) hs2, congrArg (fun x => x * R 1 2) hs2,
        congrArg (fun x => x * R 2 0) hs2, congrArg (fun x => x * R 2 1) hs2, congrArg (fun x => x * R 2 2) hs2]

set_option maxHeartbeats 1000000 in
theorem shepperd2 {R : Matrix (Fin 3) (Fin 3) ℝ} (h : IsRot R) (s : ℝ)
    (hs : s * s = 1 + R 0 0 - R 1 1 - R 2 2) (hs0 : s ≠ 0) :
    qnormSq ![(R 2 1 - R 1 2) / (2 * s), s / 2, (R 0 1 + R 1 0) / (2 * s), (R 0 2 + R 2 0) / (2 * s)] = 1
    ∧ qmat ![(R 2 1 - R 1 2) / (2 * s), s / 2, (R 0 1 + R 1 0) / (2 * s), (R 0 2 + R 2 0) / (2 * s)] = R := by
  obtain ⟨⟨c1, c2, c3, c4, c5, c6⟩, ⟨r1, r2, r3, r4, r5, r6⟩, ⟨k1, k2, k3, k4, k5, k6, k7, k8, k9⟩⟩ := h.rels
  have hs4 : s ^ 4 = (1 + R 0 0 - R 1 1 - R 2 2) * (1 + R 0 0 - R 1 1 - R 2 2) := by
    rw [← hs]; ring
  have hs2 : s ^ 2 = 1 + R 0 0 - R 1 1 - R 2 2 := by rw [← hs]; ring
  constructor
  · simp [qnormSq]
    field_simp
    linarith [hs4, hs2, c1, c2, c3, c4, c5, c6, r1, r2, r3, r4, r5, r6, k1, k2, k3, k4, k5, k6, k7, k8, k9]
  · ext i j
    fin_cases i <;> fin_cases j <;> simp [qmat] <;> field_simp <;>
      linarith [hs4, hs2, c1, c2, c3, c4, c5, c6, r1, r2, r3, r4, r5, r6, k1, k2, k3, k4, k5, k6, k7, k8, k9,
        congrArg (fun x => x * R 0 0) hs2, congrArg (fun x => x * R 0 1) hs2, congrArg (fun x => x * R 0 2) hs2,
        congrArg (fun x => x * R 1 0) hs2, congrArg (fun x => x * R 1 1) hs2, congrArg (fun x => x * R 1 2) hs2,
        congrArg (fun x => x * R 2 0) hs2, congrArg (fun x => x * R 2 1) hs2, congrArg (fun x => x * R 2 2) hs2]

set_option maxHeartbeats 1000000 in
theorem shepperd3 {R : Matrix (Fin 3) (Fin 3) ℝ} (h : IsRot R) (s : ℝ)
    (hs : s * s = 1 - R 0 0 + R 1 1 - R 2 2) (hs0 : s ≠ 0) :
    qnormSq ![(R 0 2 - R 2 0) / (2 * s), (R 0 1 + R 1 0) / (2 * s), s / 2, (R 1 2 + R 2 1) / (2 * s)] = 1
    ∧ qmat ![(R 0 2 - R 2 0) / (2 * s), (R 0 1 + R 1 0) / (2 * s), s / 2, (R 1 2 + R 2 1) / (2 * s)] = R := by
  obtain ⟨⟨c1, c2, c3, c4, c5, c6⟩, ⟨r1, r2, r3, r4, r5, r6⟩, ⟨k1, k2, k3, k4, k5, k6, k7, k8, k9⟩⟩ := h.rels
  have hs4 : s ^ 4 = (1 - R 0 0 + R 1 1 - R 2 2) * (1 - R 0 0 + R 1 1 - R 2 2) := by
    rw [← hs]; ring
  have hs2 : s ^ 2 = 1 - R 0 0 + R 1 1 - R 2 2 := by rw [← hs]; ring
  constructor
  · simp [qnormSq]
    field_simp
    linarith [hs4, hs2, c1, c2, c3, c4, c5, c6, r1, r2, r3, r4, r5, r6, k1, k2, k3, k4, k5, k6, k7, k8, k9]
  · ext i j
    fin_cases i <;> fin_cases j <;> simp [qmat] <;> field_simp <;>
      linarith [hs4, hs2, c1, c2, c3, c4, c5, c6, r1, r2, r3, r4, r5, r6, k1, k2, k3, k4, k5, k6, k7, k8, k9,
        congrArg (fun x => x * R 0 0) hs2, congrArg (fun x => x * R 0 1) hs2, congrArg (fun x => x * R 0 2) hs2,
        congrArg (fun x => x * R 1 0) hs2, congrArg (fun x => x * R 1 1) hs2, congrArg (fun x => x * R 1 2) hs2,
        congrArg (fun x => x * R 2 0) hs2, congrArg (fun x => x * R 2 1) hs2, congrArg (fun x => x * R 2 2) hs2]

set_option maxHeartbeats 1000000 in
theorem shepperd4 {R : Matrix (Fin 3) (Fin 3) ℝ} (h : IsRot R) (s : ℝ)
    (hs : s * s = 1 - R 0 0 - R 1 1 + R 2 2) (hs0 : s ≠ 0) :
    qnormSq ![(R 1 0 - R 0 1) / (2 * s), (R 0 2 + R 2 0) / (2 * s), (R 1 2 + R 2 1) / (2 * s), s / 2] = 1
    ∧ qmat ![(R 1 0 - R 0 1) / (2 * s), (R 0 2 + R 2 0) / (2 * s), (R 1 2 + R 2 1) / (2 * s), s / 2] = R := by
  obtain ⟨⟨c1, c2, c3, c4, c5, c6⟩, ⟨r1, r2, r3, r4, r5, r6⟩, ⟨k1, k2, k3, k4, k5, k6, k7, k8, k9⟩⟩ := h.rels
  have hs4 : s ^ 4 = (1 - R 0 0 - R 1 1 + R 2 2) * (1 - R 0 0 - R 1 1 + R 2 2) := by
    rw [← hs]; ring
  have hs2 : s ^ 2 = 1 - R 0 0 - R 1 1 + R 2 2 := by rw [← hs]; ring
  constructor
  · simp [qnormSq]
    field_simp
    linarith [hs4, hs2, c1, c2, c3, c4, c5, c6, r1, r2, r3, r4, r5, r6, k1, k2, k3, k4, k5, k6, k7, k8, k9]
  · ext i j
    fin_cases i <;> fin_cases j <;> simp [qmat] <;> field_simp <;>
      linarith [hs4, hs2, c1, c2, c3, c4, c5, c6, r1, r2, r3, r4, r5, r6, k1, k2, k3, k4, k5, k6, k7, k8, k9,
        congrArg (fun x => x * R 0 0) hs2, congrArg (fun x => x * R 0 1) hs2, congrArg (fun x => x * R 0 2) hs2,
        congrArg (fun x => x * R 1 0) hs2, congrArg (fun x => x * R 1 1) hs2, congrArg (fun x => x * R 1 2) hs2,
        congrArg (fun x => x * R 2 0) hs2, congrArg (fun x => x * R 2 1) hs2, congrArg (fun x => x * R 2 2) hs2]

/-- the trace of a proper rotation lies in [-1, 3] -/
theorem IsRot.trace_bounds {R : Matrix (Fin 3) (Fin 3) ℝ} (h : IsRot R) :
    -1 ≤ R 0 0 + R 1 1 + R 2 2 ∧ R 0 0 + R 1 1 + R 2 2 ≤ 3 := by
  obtain ⟨⟨c1, c2, c3, c4, c5, c6⟩, ⟨r1, r2, r3, r4, r5, r6⟩, ⟨k1, k2, k3, k4, k5, k6, k7, k8, k9⟩⟩ := h.rels
  -- (1 + tr)(3 - tr) = |a|² ≥ 0 with a the axial vector of R - Rᵀ
  have key : (1 + (R 0 0 + R 1 1 + R 2 2)) * (3 - (R 0 0 + R 1 1 + R 2 2))
      = (R 2 1 - R 1 2) ^ 2 + (R 0 2 - R 2 0) ^ 2 + (R 1 0 - R 0 1) ^ 2 := by
    linarith [c1, c2, c3, c4, c5, c6, r1, r2, r3, r4, r5, r6, k1, k2, k3, k4, k5, k6, k7, k8, k9]
  have hpos : 0 ≤ (1 + (R 0 0 + R 1 1 + R 2 2)) * (3 - (R 0 0 + R 1 1 + R 2 2)) := by
    rw [key]; positivity
  -- every diagonal entry is at most 1, so tr ≤ 3
  have le1 : ∀ x y z : ℝ, x * x + y * y + z * z = 1 → x ≤ 1 := by
    intro x y z hxyz
    by_contra hx
    push Not at hx
    nlinarith [mul_self_nonneg y, mul_self_nonneg z]
  have d0 : R 0 0 ≤ 1 := le1 _ _ _ c1
  have d1 : R 1 1 ≤ 1 := le1 (R 1 1) (R 0 1) (R 2 1) (by linarith [c2])
  have d2 : R 2 2 ≤ 1 := le1 (R 2 2) (R 0 2) (R 1 2) (by linarith [c3])
  constructor
  · by_contra hlt
    push Not at hlt
    have h3 : 0 < 3 - (R 0 0 + R 1 1 + R 2 2) := by linarith
    have h1 : 1 + (R 0 0 + R 1 1 + R 2 2) < 0 := by linarith
    have := mul_neg_of_neg_of_pos h1 h3
    linarith
  · linarith

end Rot
