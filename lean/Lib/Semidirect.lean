/-
  Lib/Semidirect.lean — block matrices of SE(2), SE(3), SE_2(3) (code-independent).
-/
import Lib.Rot

namespace Rot

/-- `[[R, p],[0, 1]]` -/
def se3Mat (R : Matrix (Fin 3) (Fin 3) ℝ) (p : Fin 3 → ℝ) : Matrix (Fin 4) (Fin 4) ℝ :=
  !![R 0 0, R 0 1, R 0 2, p 0;
     R 1 0, R 1 1, R 1 2, p 1;
     R 2 0, R 2 1, R 2 2, p 2;
     0, 0, 0, 1]

theorem se3Mat_mul (R S : Matrix (Fin 3) (Fin 3) ℝ) (p q : Fin 3 → ℝ) :
    se3Mat R p * se3Mat S q = se3Mat (R * S) (R.mulVec q + p) := by
  mat_entries <;> simp [se3Mat, Matrix.mul_apply, Matrix.mulVec, dotProduct, Fin.sum_univ_succ] <;> ring

theorem se3Mat_one : se3Mat 1 0 = 1 := by
  mat_entries <;> simp [se3Mat]

theorem se3Mat_congr {R S : Matrix (Fin 3) (Fin 3) ℝ} {p q : Fin 3 → ℝ} (h : R = S) (h' : p = q) :
    se3Mat R p = se3Mat S q := by rw [h, h']

/-- `[[R, v, p],[0, 1, 0],[0, 0, 1]]` -/
def se23Mat (R : Matrix (Fin 3) (Fin 3) ℝ) (v p : Fin 3 → ℝ) : Matrix (Fin 5) (Fin 5) ℝ :=
  !![R 0 0, R 0 1, R 0 2, v 0, p 0;
     R 1 0, R 1 1, R 1 2, v 1, p 1;
     R 2 0, R 2 1, R 2 2, v 2, p 2;
     0, 0, 0, 1, 0;
     0, 0, 0, 0, 1]

theorem se23Mat_mul (R S : Matrix (Fin 3) (Fin 3) ℝ) (v p w q : Fin 3 → ℝ) :
    se23Mat R v p * se23Mat S w q = se23Mat (R * S) (R.mulVec w + v) (R.mulVec q + p) := by
  mat_entries <;> simp [se23Mat, Matrix.mul_apply, Matrix.mulVec, dotProduct, Fin.sum_univ_succ] <;> ring

theorem se23Mat_one : se23Mat 1 0 0 = 1 := by
  mat_entries <;> simp [se23Mat]

end Rot
