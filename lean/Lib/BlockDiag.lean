/- Lib/BlockDiag.lean — explicit block-diagonal matrices (code-independent). -/
import Lib.Rot

namespace Rot

/-- block diagonal `diag(A, B)` with a 3×3 and a 4×4 block, written out -/
def diag34 (A : Matrix (Fin 3) (Fin 3) ℝ) (B : Matrix (Fin 4) (Fin 4) ℝ) : Matrix (Fin 7) (Fin 7) ℝ :=
  !![A 0 0, A 0 1, A 0 2, 0, 0, 0, 0;
     A 1 0, A 1 1, A 1 2, 0, 0, 0, 0;
     A 2 0, A 2 1, A 2 2, 0, 0, 0, 0;
     0, 0, 0, B 0 0, B 0 1, B 0 2, B 0 3;
     0, 0, 0, B 1 0, B 1 1, B 1 2, B 1 3;
     0, 0, 0, B 2 0, B 2 1, B 2 2, B 2 3;
     0, 0, 0, B 3 0, B 3 1, B 3 2, B 3 3]

set_option maxHeartbeats 2000000 in
theorem diag34_mul (A A' : Matrix (Fin 3) (Fin 3) ℝ) (B B' : Matrix (Fin 4) (Fin 4) ℝ) :
    diag34 A B * diag34 A' B' = diag34 (A * A') (B * B') := by
  mat_entries <;> simp [diag34, Matrix.mul_apply, Fin.sum_univ_succ]

theorem diag34_one : diag34 1 1 = 1 := by
  mat_entries <;> simp [diag34]

end Rot
