/-
  Props/C06.lean — small-angle handling of the translated SERIES tables.

  For the four coefficients that drive exp and J_l (cos x, sin x/x, (1−cos x)/x², (x−sin x)/x³,
  squared-argument versions) we prove, over ℝ: the switch is at eps ≈ 1e-3; on the Taylor cell
  0 ≤ u < eps the returned polynomial is within 1e-14 of the analytic coefficient (hence the jump
  at the switch is below that); on the closed-form cell it equals it exactly (SeriesLemmas).
  Floating-point round-off is NOT modelled here.
-/
import Cas.Real
import Gen.Series
import Lib.Tail
import Props.SeriesLemmas
import Props.C02

set_option maxHeartbeats 4000000
open Gen RotExp Rot SeriesLemmas Tail

namespace C06

/-- the switch threshold is the double nearest 1e-3 -/
theorem switch_value : |eps - 1 / 1000| ≤ 1 / 10 ^ 18 := by
  unfold eps; rw [abs_le]; constructor <;> norm_num

theorem poly5_bound (d0 d1 d2 d3 d4 d5 u : ℝ) (hu : |u| ≤ 1) :
    |d0 + d1 * u + d2 * u ^ 2 + d3 * u ^ 3 + d4 * u ^ 4 + d5 * u ^ 5|
      ≤ |d0| + |d1| + |d2| + |d3| + |d4| + |d5| := by
  have h : ∀ (d : ℝ) (k : ℕ), |d * u ^ k| ≤ |d| := fun d k => by
    rw [abs_mul, abs_pow]
    calc |d| * |u| ^ k ≤ |d| * 1 := by
          apply mul_le_mul_of_nonneg_left (pow_le_one₀ (abs_nonneg u) hu) (abs_nonneg d)
      _ = |d| := mul_one _
  calc |d0 + d1 * u + d2 * u ^ 2 + d3 * u ^ 3 + d4 * u ^ 4 + d5 * u ^ 5|
      ≤ |d0| + |d1 * u| + |d2 * u ^ 2| + |d3 * u ^ 3| + |d4 * u ^ 4| + |d5 * u ^ 5| := by
        refine le_trans (abs_add_le _ _) ?_
        refine add_le_add (le_trans (abs_add_le _ _) ?_) le_rfl
        refine add_le_add (le_trans (abs_add_le _ _) ?_) le_rfl
        refine add_le_add (le_trans (abs_add_le _ _) ?_) le_rfl
        exact add_le_add (abs_add_le _ _) le_rfl
    _ ≤ |d0| + |d1| + |d2| + |d3| + |d4| + |d5| := by
        have h1 := h d1 1; rw [pow_one] at h1
        linarith [h1, h d2 2, h d3 3, h d4 4, h d5 5]

theorem eps_lt : eps < 1001 / 1000000 := by unfold eps; norm_num

theorem small_u {u : ℝ} (h0 : 0 ≤ u) (h : u < eps) :
    |u| < 1152921504606847 * (2:ℝ) ^ (-60:ℤ) ∧ u ≤ 1 / 2 ∧ |u| ≤ 1 ∧ u ≤ 1001 / 1000000 := by
  have hlt : u < 1001 / 1000000 := lt_trans h eps_lt
  rw [abs_of_nonneg h0]
  refine ⟨?_, ?_, ?_, ?_⟩
  · have := h; unfold eps at this; exact this
  · linarith
  · linarith
  · linarith

theorem u6_small {u : ℝ} (h0 : 0 ≤ u) (h1 : u ≤ 1001 / 1000000) : u ^ 6 ≤ 2 / 10 ^ 18 := by
  calc u ^ 6 ≤ (1001 / 1000000 : ℝ) ^ 6 := pow_le_pow_left₀ h0 h1 6
    _ ≤ 2 / 10 ^ 18 := by norm_num

theorem combine (T F P e1 e2 : ℝ) (h1 : |T - P| ≤ e1) (h2 : |F - P| ≤ e2) : |T - F| ≤ e1 + e2 := by
  have := abs_sub_le T P F
  rw [abs_sub_comm P F] at this
  linarith


/-- `sin_x_over_x` (squared argument): on the Taylor cell the polynomial is within 1e-14 of the analytic value -/
theorem sin_x_over_x_taylor (u : ℝ) (h0 : 0 ≤ u) (h : u < eps) :
    |SqSeries.sin_x_over_x u - sFun (Real.sqrt u)| ≤ 1 / 10 ^ 14 := by
  obtain ⟨hs, hhalf, hone, hmil⟩ := small_u h0 h
  have hT : SqSeries.sin_x_over_x u
      = 1 + -6004799503160661 * 2 ^ (-55:ℤ) * u + -3660068268593165 * 2 ^ (-64:ℤ) * (u * (u * u)) +
              -1892883791434041 * 2 ^ (-76:ℤ) * (u * (u * u * (u * u))) +
            4803839602528529 * 2 ^ (-59:ℤ) * (u * u) +
          1626697008263629 * 2 ^ (-69:ℤ) * (u * u * (u * u)) := by
    simp only [cas_series, cas_real]; rw [if_pos hs]
  have hP : ∑ k ∈ Finset.range 6, aTerm 1 u k = 1 - u * (1 / 6) + u ^ 2 * (1 / 120) - u ^ 3 * (1 / 5040) + u ^ 4 * (1 / 362880) - u ^ 5 * (1 / 39916800) := by
    simp [Finset.sum_range_succ, aTerm, Nat.factorial]; ring
  have hb := truncation_bound 1 u _ h0 hhalf (hasSum_sFun_sqrt u h0) 6
  rw [hP] at hb
  have hfac : ((Nat.factorial (2 * 6 + 1) : ℕ) : ℝ) = 6227020800 := by norm_num [Nat.factorial]
  rw [hfac] at hb
  have hd : SqSeries.sin_x_over_x u - (1 - u * (1 / 6) + u ^ 2 * (1 / 120) - u ^ 3 * (1 / 5040) + u ^ 4 * (1 / 362880) - u ^ 5 * (1 / 39916800))
      = (1 - (1)) + (-6004799503160661 * 2 ^ (-55:ℤ) - (-1 / 6)) * u + (4803839602528529 * 2 ^ (-59:ℤ) - (1 / 120)) * u ^ 2 + (-3660068268593165 * 2 ^ (-64:ℤ) - (-1 / 5040)) * u ^ 3 + (1626697008263629 * 2 ^ (-69:ℤ) - (1 / 362880)) * u ^ 4 + (-1892883791434041 * 2 ^ (-76:ℤ) - (-1 / 39916800)) * u ^ 5 := by
    rw [hT]; ring
  have hpb := poly5_bound (1 - (1)) (-6004799503160661 * 2 ^ (-55:ℤ) - (-1 / 6)) (4803839602528529 * 2 ^ (-59:ℤ) - (1 / 120)) (-3660068268593165 * 2 ^ (-64:ℤ) - (-1 / 5040)) (1626697008263629 * 2 ^ (-69:ℤ) - (1 / 362880)) (-1892883791434041 * 2 ^ (-76:ℤ) - (-1 / 39916800)) u hone
  rw [← hd] at hpb
  have hnum : |((1 - (1)) : ℝ)| + |((-6004799503160661 * 2 ^ (-55:ℤ) - (-1 / 6)) : ℝ)| + |((4803839602528529 * 2 ^ (-59:ℤ) - (1 / 120)) : ℝ)| + |((-3660068268593165 * 2 ^ (-64:ℤ) - (-1 / 5040)) : ℝ)| + |((1626697008263629 * 2 ^ (-69:ℤ) - (1 / 362880)) : ℝ)| + |((-1892883791434041 * 2 ^ (-76:ℤ) - (-1 / 39916800)) : ℝ)|
      ≤ 1 / 10 ^ 15 := by
    have a0 : |((1 - (1)) : ℝ)| ≤ 1 / 10 ^ 16 := by rw [abs_le]; constructor <;> norm_num
    have a1 : |((-6004799503160661 * 2 ^ (-55:ℤ) - (-1 / 6)) : ℝ)| ≤ 1 / 10 ^ 16 := by rw [abs_le]; constructor <;> norm_num
    have a2 : |((4803839602528529 * 2 ^ (-59:ℤ) - (1 / 120)) : ℝ)| ≤ 1 / 10 ^ 16 := by rw [abs_le]; constructor <;> norm_num
    have a3 : |((-3660068268593165 * 2 ^ (-64:ℤ) - (-1 / 5040)) : ℝ)| ≤ 1 / 10 ^ 16 := by rw [abs_le]; constructor <;> norm_num
    have a4 : |((1626697008263629 * 2 ^ (-69:ℤ) - (1 / 362880)) : ℝ)| ≤ 1 / 10 ^ 16 := by rw [abs_le]; constructor <;> norm_num
    have a5 : |((-1892883791434041 * 2 ^ (-76:ℤ) - (-1 / 39916800)) : ℝ)| ≤ 1 / 10 ^ 16 := by rw [abs_le]; constructor <;> norm_num
    linarith
  have h6 := u6_small h0 hmil
  have hb' : 2 * (u ^ 6 / 6227020800) ≤ 1 / 10 ^ 15 := by
    have : u ^ 6 / 6227020800 ≤ (2 / 10 ^ 18) / 6227020800 := div_le_div_of_nonneg_right h6 (by norm_num)
    linarith [this, (by norm_num : (2:ℝ) * ((2 / 10 ^ 18) / 6227020800) ≤ 1 / 10 ^ 15)]
  have := combine _ _ _ _ _ (le_trans hpb hnum) (le_trans hb hb')
  linarith


/-- `one_minus_cos_over_x2` (squared argument): on the Taylor cell the polynomial is within 1e-14 of the analytic value -/
theorem one_minus_cos_over_x2_taylor (u : ℝ) (h0 : 0 ≤ u) (h : u < eps) :
    |SqSeries.one_minus_cos_over_x2 u - cFun (Real.sqrt u)| ≤ 1 / 10 ^ 14 := by
  obtain ⟨hs, hhalf, hone, hmil⟩ := small_u h0 h
  have hT : SqSeries.one_minus_cos_over_x2 u
      = 1 * 2 ^ (-1:ℤ) + -6004799503160661 * 2 ^ (-57:ℤ) * u + -3660068268593165 * 2 ^ (-67:ℤ) * (u * (u * u)) +
                -630961263811347 * 2 ^ (-78:ℤ) * (u * (u * u * (u * u))) +
              6405119470038039 * 2 ^ (-62:ℤ) * (u * u) +
            1301357606610903 * 2 ^ (-72:ℤ) * (u * u * (u * u)) := by
    simp only [cas_series, cas_real]; rw [if_pos hs]
  have hP : ∑ k ∈ Finset.range 6, aTerm 2 u k = 1 / 2 - u * (1 / 24) + u ^ 2 * (1 / 720) - u ^ 3 * (1 / 40320) + u ^ 4 * (1 / 3628800) - u ^ 5 * (1 / 479001600) := by
    simp [Finset.sum_range_succ, aTerm, Nat.factorial]; ring
  have hb := truncation_bound 2 u _ h0 hhalf (hasSum_cFun_sqrt u h0) 6
  rw [hP] at hb
  have hfac : ((Nat.factorial (2 * 6 + 2) : ℕ) : ℝ) = 87178291200 := by norm_num [Nat.factorial]
  rw [hfac] at hb
  have hd : SqSeries.one_minus_cos_over_x2 u - (1 / 2 - u * (1 / 24) + u ^ 2 * (1 / 720) - u ^ 3 * (1 / 40320) + u ^ 4 * (1 / 3628800) - u ^ 5 * (1 / 479001600))
      = (1 * 2 ^ (-1:ℤ) - (1 / 2)) + (-6004799503160661 * 2 ^ (-57:ℤ) - (-1 / 24)) * u + (6405119470038039 * 2 ^ (-62:ℤ) - (1 / 720)) * u ^ 2 + (-3660068268593165 * 2 ^ (-67:ℤ) - (-1 / 40320)) * u ^ 3 + (1301357606610903 * 2 ^ (-72:ℤ) - (1 / 3628800)) * u ^ 4 + (-630961263811347 * 2 ^ (-78:ℤ) - (-1 / 479001600)) * u ^ 5 := by
    rw [hT]; ring
  have hpb := poly5_bound (1 * 2 ^ (-1:ℤ) - (1 / 2)) (-6004799503160661 * 2 ^ (-57:ℤ) - (-1 / 24)) (6405119470038039 * 2 ^ (-62:ℤ) - (1 / 720)) (-3660068268593165 * 2 ^ (-67:ℤ) - (-1 / 40320)) (1301357606610903 * 2 ^ (-72:ℤ) - (1 / 3628800)) (-630961263811347 * 2 ^ (-78:ℤ) - (-1 / 479001600)) u hone
  rw [← hd] at hpb
  have hnum : |((1 * 2 ^ (-1:ℤ) - (1 / 2)) : ℝ)| + |((-6004799503160661 * 2 ^ (-57:ℤ) - (-1 / 24)) : ℝ)| + |((6405119470038039 * 2 ^ (-62:ℤ) - (1 / 720)) : ℝ)| + |((-3660068268593165 * 2 ^ (-67:ℤ) - (-1 / 40320)) : ℝ)| + |((1301357606610903 * 2 ^ (-72:ℤ) - (1 / 3628800)) : ℝ)| + |((-630961263811347 * 2 ^ (-78:ℤ) - (-1 / 479001600)) : ℝ)|
      ≤ 1 / 10 ^ 15 := by
    have a0 : |((1 * 2 ^ (-1:ℤ) - (1 / 2)) : ℝ)| ≤ 1 / 10 ^ 16 := by rw [abs_le]; constructor <;> norm_num
    have a1 : |((-6004799503160661 * 2 ^ (-57:ℤ) - (-1 / 24)) : ℝ)| ≤ 1 / 10 ^ 16 := by rw [abs_le]; constructor <;> norm_num
    have a2 : |((6405119470038039 * 2 ^ (-62:ℤ) - (1 / 720)) : ℝ)| ≤ 1 / 10 ^ 16 := by rw [abs_le]; constructor <;> norm_num
    have a3 : |((-3660068268593165 * 2 ^ (-67:ℤ) - (-1 / 40320)) : ℝ)| ≤ 1 / 10 ^ 16 := by rw [abs_le]; constructor <;> norm_num
    have a4 : |((1301357606610903 * 2 ^ (-72:ℤ) - (1 / 3628800)) : ℝ)| ≤ 1 / 10 ^ 16 := by rw [abs_le]; constructor <;> norm_num
    have a5 : |((-630961263811347 * 2 ^ (-78:ℤ) - (-1 / 479001600)) : ℝ)| ≤ 1 / 10 ^ 16 := by rw [abs_le]; constructor <;> norm_num
    linarith
  have h6 := u6_small h0 hmil
  have hb' : 2 * (u ^ 6 / 87178291200) ≤ 1 / 10 ^ 15 := by
    have : u ^ 6 / 87178291200 ≤ (2 / 10 ^ 18) / 87178291200 := div_le_div_of_nonneg_right h6 (by norm_num)
    linarith [this, (by norm_num : (2:ℝ) * ((2 / 10 ^ 18) / 87178291200) ≤ 1 / 10 ^ 15)]
  have := combine _ _ _ _ _ (le_trans hpb hnum) (le_trans hb hb')
  linarith


/-- `x_minus_sin_over_x3` (squared argument): on the Taylor cell the polynomial is within 1e-14 of the analytic value -/
theorem x_minus_sin_over_x3_taylor (u : ℝ) (h0 : 0 ≤ u) (h : u < eps) :
    |SqSeries.x_minus_sin_over_x3 u - dFun (Real.sqrt u)| ≤ 1 / 10 ^ 14 := by
  obtain ⟨hs, hhalf, hone, hmil⟩ := small_u h0 h
  have hT : SqSeries.x_minus_sin_over_x3 u
      = 6004799503160661 * 2 ^ (-55:ℤ) + -4803839602528529 * 2 ^ (-59:ℤ) * u +
                    -1626697008263629 * 2 ^ (-69:ℤ) * (u * (u * u)) +
                  -6212541674450185 * 2 ^ (-85:ℤ) * (u * (u * u * (u * u))) +
                3660068268593165 * 2 ^ (-64:ℤ) * (u * u) +
              1892883791434041 * 2 ^ (-76:ℤ) * (u * u * (u * u)) := by
    simp only [cas_series, cas_real]; rw [if_pos hs]
  have hP : ∑ k ∈ Finset.range 6, aTerm 3 u k = 1 / 6 - u * (1 / 120) + u ^ 2 * (1 / 5040) - u ^ 3 * (1 / 362880) + u ^ 4 * (1 / 39916800) - u ^ 5 * (1 / 6227020800) := by
    simp [Finset.sum_range_succ, aTerm, Nat.factorial]; ring
  have hb := truncation_bound 3 u _ h0 hhalf (hasSum_dFun_sqrt u h0) 6
  rw [hP] at hb
  have hfac : ((Nat.factorial (2 * 6 + 3) : ℕ) : ℝ) = 1307674368000 := by norm_num [Nat.factorial]
  rw [hfac] at hb
  have hd : SqSeries.x_minus_sin_over_x3 u - (1 / 6 - u * (1 / 120) + u ^ 2 * (1 / 5040) - u ^ 3 * (1 / 362880) + u ^ 4 * (1 / 39916800) - u ^ 5 * (1 / 6227020800))
      = (6004799503160661 * 2 ^ (-55:ℤ) - (1 / 6)) + (-4803839602528529 * 2 ^ (-59:ℤ) - (-1 / 120)) * u + (3660068268593165 * 2 ^ (-64:ℤ) - (1 / 5040)) * u ^ 2 + (-1626697008263629 * 2 ^ (-69:ℤ) - (-1 / 362880)) * u ^ 3 + (1892883791434041 * 2 ^ (-76:ℤ) - (1 / 39916800)) * u ^ 4 + (-6212541674450185 * 2 ^ (-85:ℤ) - (-1 / 6227020800)) * u ^ 5 := by
    rw [hT]; ring
  have hpb := poly5_bound (6004799503160661 * 2 ^ (-55:ℤ) - (1 / 6)) (-4803839602528529 * 2 ^ (-59:ℤ) - (-1 / 120)) (3660068268593165 * 2 ^ (-64:ℤ) - (1 / 5040)) (-1626697008263629 * 2 ^ (-69:ℤ) - (-1 / 362880)) (1892883791434041 * 2 ^ (-76:ℤ) - (1 / 39916800)) (-6212541674450185 * 2 ^ (-85:ℤ) - (-1 / 6227020800)) u hone
  rw [← hd] at hpb
  have hnum : |((6004799503160661 * 2 ^ (-55:ℤ) - (1 / 6)) : ℝ)| + |((-4803839602528529 * 2 ^ (-59:ℤ) - (-1 / 120)) : ℝ)| + |((3660068268593165 * 2 ^ (-64:ℤ) - (1 / 5040)) : ℝ)| + |((-1626697008263629 * 2 ^ (-69:ℤ) - (-1 / 362880)) : ℝ)| + |((1892883791434041 * 2 ^ (-76:ℤ) - (1 / 39916800)) : ℝ)| + |((-6212541674450185 * 2 ^ (-85:ℤ) - (-1 / 6227020800)) : ℝ)|
      ≤ 1 / 10 ^ 15 := by
    have a0 : |((6004799503160661 * 2 ^ (-55:ℤ) - (1 / 6)) : ℝ)| ≤ 1 / 10 ^ 16 := by rw [abs_le]; constructor <;> norm_num
    have a1 : |((-4803839602528529 * 2 ^ (-59:ℤ) - (-1 / 120)) : ℝ)| ≤ 1 / 10 ^ 16 := by rw [abs_le]; constructor <;> norm_num
    have a2 : |((3660068268593165 * 2 ^ (-64:ℤ) - (1 / 5040)) : ℝ)| ≤ 1 / 10 ^ 16 := by rw [abs_le]; constructor <;> norm_num
    have a3 : |((-1626697008263629 * 2 ^ (-69:ℤ) - (-1 / 362880)) : ℝ)| ≤ 1 / 10 ^ 16 := by rw [abs_le]; constructor <;> norm_num
    have a4 : |((1892883791434041 * 2 ^ (-76:ℤ) - (1 / 39916800)) : ℝ)| ≤ 1 / 10 ^ 16 := by rw [abs_le]; constructor <;> norm_num
    have a5 : |((-6212541674450185 * 2 ^ (-85:ℤ) - (-1 / 6227020800)) : ℝ)| ≤ 1 / 10 ^ 16 := by rw [abs_le]; constructor <;> norm_num
    linarith
  have h6 := u6_small h0 hmil
  have hb' : 2 * (u ^ 6 / 1307674368000) ≤ 1 / 10 ^ 15 := by
    have : u ^ 6 / 1307674368000 ≤ (2 / 10 ^ 18) / 1307674368000 := div_le_div_of_nonneg_right h6 (by norm_num)
    linarith [this, (by norm_num : (2:ℝ) * ((2 / 10 ^ 18) / 1307674368000) ≤ 1 / 10 ^ 15)]
  have := combine _ _ _ _ _ (le_trans hpb hnum) (le_trans hb hb')
  linarith


/-- `half_x2_plus_cos_minus_one_over_x4` (squared argument; the ω^² coefficient of the strap-down position integral, C08):
    on the Taylor cell the polynomial is within 1e-14 of the analytic value (u/2 + cos √u − 1)/u² -/
theorem half_x2_plus_cos_minus_one_over_x4_taylor (u : ℝ) (h0 : 0 < u) (h : u < eps) :
    |SqSeries.half_x2_plus_cos_minus_one_over_x4 u - (u / 2 + Real.cos (Real.sqrt u) - 1) / u ^ 2| ≤ 1 / 10 ^ 14 := by
  obtain ⟨hs, hhalf, hone, hmil⟩ := small_u h0.le h
  have hT : SqSeries.half_x2_plus_cos_minus_one_over_x4 u
      = 6004799503160661 * 2 ^ (-57:ℤ) + -6405119470038039 * 2 ^ (-62:ℤ) * u +
                    -1301357606610903 * 2 ^ (-72:ℤ) * (u * (u * u)) +
                  -7100047627943069 * 2 ^ (-89:ℤ) * (u * (u * u * (u * u))) +
                3660068268593165 * 2 ^ (-67:ℤ) * (u * u) +
              630961263811347 * 2 ^ (-78:ℤ) * (u * u * (u * u)) := by
    simp only [cas_series, cas_real]; rw [if_pos hs]
  have hP : ∑ k ∈ Finset.range 6, aTerm 4 u k = 1 / 24 - u * (1 / 720) + u ^ 2 * (1 / 40320) - u ^ 3 * (1 / 3628800) + u ^ 4 * (1 / 479001600) - u ^ 5 * (1 / 87178291200) := by
    simp [Finset.sum_range_succ, aTerm, Nat.factorial]; ring
  have hb := truncation_bound 4 u _ h0.le hhalf (hasSum_aTerm4 u h0) 6
  rw [hP] at hb
  have hfac : ((Nat.factorial (2 * 6 + 4) : ℕ) : ℝ) = 20922789888000 := by norm_num [Nat.factorial]
  rw [hfac] at hb
  have hd : SqSeries.half_x2_plus_cos_minus_one_over_x4 u - (1 / 24 - u * (1 / 720) + u ^ 2 * (1 / 40320) - u ^ 3 * (1 / 3628800) + u ^ 4 * (1 / 479001600) - u ^ 5 * (1 / 87178291200))
      = (6004799503160661 * 2 ^ (-57:ℤ) - (1 / 24)) + (-6405119470038039 * 2 ^ (-62:ℤ) - (-1 / 720)) * u + (3660068268593165 * 2 ^ (-67:ℤ) - (1 / 40320)) * u ^ 2 + (-1301357606610903 * 2 ^ (-72:ℤ) - (-1 / 3628800)) * u ^ 3 + (630961263811347 * 2 ^ (-78:ℤ) - (1 / 479001600)) * u ^ 4 + (-7100047627943069 * 2 ^ (-89:ℤ) - (-1 / 87178291200)) * u ^ 5 := by
    rw [hT]; ring
  have hpb := poly5_bound (6004799503160661 * 2 ^ (-57:ℤ) - (1 / 24)) (-6405119470038039 * 2 ^ (-62:ℤ) - (-1 / 720)) (3660068268593165 * 2 ^ (-67:ℤ) - (1 / 40320)) (-1301357606610903 * 2 ^ (-72:ℤ) - (-1 / 3628800)) (630961263811347 * 2 ^ (-78:ℤ) - (1 / 479001600)) (-7100047627943069 * 2 ^ (-89:ℤ) - (-1 / 87178291200)) u hone
  rw [← hd] at hpb
  have hnum : |((6004799503160661 * 2 ^ (-57:ℤ) - (1 / 24)) : ℝ)| + |((-6405119470038039 * 2 ^ (-62:ℤ) - (-1 / 720)) : ℝ)| + |((3660068268593165 * 2 ^ (-67:ℤ) - (1 / 40320)) : ℝ)| + |((-1301357606610903 * 2 ^ (-72:ℤ) - (-1 / 3628800)) : ℝ)| + |((630961263811347 * 2 ^ (-78:ℤ) - (1 / 479001600)) : ℝ)| + |((-7100047627943069 * 2 ^ (-89:ℤ) - (-1 / 87178291200)) : ℝ)|
      ≤ 1 / 10 ^ 15 := by
    have a0 : |((6004799503160661 * 2 ^ (-57:ℤ) - (1 / 24)) : ℝ)| ≤ 1 / 10 ^ 16 := by rw [abs_le]; constructor <;> norm_num
    have a1 : |((-6405119470038039 * 2 ^ (-62:ℤ) - (-1 / 720)) : ℝ)| ≤ 1 / 10 ^ 16 := by rw [abs_le]; constructor <;> norm_num
    have a2 : |((3660068268593165 * 2 ^ (-67:ℤ) - (1 / 40320)) : ℝ)| ≤ 1 / 10 ^ 16 := by rw [abs_le]; constructor <;> norm_num
    have a3 : |((-1301357606610903 * 2 ^ (-72:ℤ) - (-1 / 3628800)) : ℝ)| ≤ 1 / 10 ^ 16 := by rw [abs_le]; constructor <;> norm_num
    have a4 : |((630961263811347 * 2 ^ (-78:ℤ) - (1 / 479001600)) : ℝ)| ≤ 1 / 10 ^ 16 := by rw [abs_le]; constructor <;> norm_num
    have a5 : |((-7100047627943069 * 2 ^ (-89:ℤ) - (-1 / 87178291200)) : ℝ)| ≤ 1 / 10 ^ 16 := by rw [abs_le]; constructor <;> norm_num
    linarith
  have h6 := u6_small h0.le hmil
  have hb' : 2 * (u ^ 6 / 20922789888000) ≤ 1 / 10 ^ 15 := by
    have : u ^ 6 / 20922789888000 ≤ (2 / 10 ^ 18) / 20922789888000 := div_le_div_of_nonneg_right h6 (by norm_num)
    linarith [this, (by norm_num : (2:ℝ) * ((2 / 10 ^ 18) / 20922789888000) ≤ 1 / 10 ^ 15)]
  have := combine _ _ _ _ _ (le_trans hpb hnum) (le_trans hb hb')
  linarith

/-- at exactly zero rotation the coefficient is the double nearest 1/24 (finite: no 0/0) -/
theorem half_x2_plus_cos_minus_one_over_x4_zero :
    |SqSeries.half_x2_plus_cos_minus_one_over_x4 (0:ℝ) - 1 / 24| ≤ 1 / 10 ^ 16 := by
  have hs : |(0:ℝ)| < eps := by rw [abs_zero]; exact eps_pos
  have hT : SqSeries.half_x2_plus_cos_minus_one_over_x4 (0:ℝ) = 6004799503160661 * 2 ^ (-57:ℤ) := by
    simp only [cas_series, cas_real]; rw [if_pos (by simpa using hs)]; simp
  rw [hT, abs_le]; constructor <;> norm_num


/-- `cos_x` (squared argument): on the Taylor cell the polynomial is within 1e-14 of the analytic value -/
theorem cos_x_taylor (u : ℝ) (h0 : 0 ≤ u) (h : u < eps) :
    |SqSeries.cos_x u - Real.cos (Real.sqrt u)| ≤ 1 / 10 ^ 14 := by
  obtain ⟨hs, hhalf, hone, hmil⟩ := small_u h0 h
  have hT : SqSeries.cos_x u
      = 1 + -1 * 2 ^ (-1:ℤ) * u + -6405119470038039 * 2 ^ (-62:ℤ) * (u * (u * u)) +
                    -1301357606610903 * 2 ^ (-72:ℤ) * (u * (u * u * (u * u))) +
                  6004799503160661 * 2 ^ (-57:ℤ) * (u * u) +
                3660068268593165 * 2 ^ (-67:ℤ) * (u * u * (u * u)) := by
    simp only [cas_series, cas_real]; rw [if_pos hs]
  have hP : ∑ k ∈ Finset.range 6, aTerm 0 u k = 1 - u * (1 / 2) + u ^ 2 * (1 / 24) - u ^ 3 * (1 / 720) + u ^ 4 * (1 / 40320) - u ^ 5 * (1 / 3628800) := by
    simp [Finset.sum_range_succ, aTerm, Nat.factorial]; ring
  have hb := truncation_bound 0 u _ h0 hhalf (hasSum_cos_sqrt u h0) 6
  rw [hP] at hb
  have hfac : ((Nat.factorial (2 * 6 + 0) : ℕ) : ℝ) = 479001600 := by norm_num [Nat.factorial]
  rw [hfac] at hb
  have hd : SqSeries.cos_x u - (1 - u * (1 / 2) + u ^ 2 * (1 / 24) - u ^ 3 * (1 / 720) + u ^ 4 * (1 / 40320) - u ^ 5 * (1 / 3628800))
      = (1 - (1)) + (-1 * 2 ^ (-1:ℤ) - (-1 / 2)) * u + (6004799503160661 * 2 ^ (-57:ℤ) - (1 / 24)) * u ^ 2 + (-6405119470038039 * 2 ^ (-62:ℤ) - (-1 / 720)) * u ^ 3 + (3660068268593165 * 2 ^ (-67:ℤ) - (1 / 40320)) * u ^ 4 + (-1301357606610903 * 2 ^ (-72:ℤ) - (-1 / 3628800)) * u ^ 5 := by
    rw [hT]; ring
  have hpb := poly5_bound (1 - (1)) (-1 * 2 ^ (-1:ℤ) - (-1 / 2)) (6004799503160661 * 2 ^ (-57:ℤ) - (1 / 24)) (-6405119470038039 * 2 ^ (-62:ℤ) - (-1 / 720)) (3660068268593165 * 2 ^ (-67:ℤ) - (1 / 40320)) (-1301357606610903 * 2 ^ (-72:ℤ) - (-1 / 3628800)) u hone
  rw [← hd] at hpb
  have hnum : |((1 - (1)) : ℝ)| + |((-1 * 2 ^ (-1:ℤ) - (-1 / 2)) : ℝ)| + |((6004799503160661 * 2 ^ (-57:ℤ) - (1 / 24)) : ℝ)| + |((-6405119470038039 * 2 ^ (-62:ℤ) - (-1 / 720)) : ℝ)| + |((3660068268593165 * 2 ^ (-67:ℤ) - (1 / 40320)) : ℝ)| + |((-1301357606610903 * 2 ^ (-72:ℤ) - (-1 / 3628800)) : ℝ)|
      ≤ 1 / 10 ^ 15 := by
    have a0 : |((1 - (1)) : ℝ)| ≤ 1 / 10 ^ 16 := by rw [abs_le]; constructor <;> norm_num
    have a1 : |((-1 * 2 ^ (-1:ℤ) - (-1 / 2)) : ℝ)| ≤ 1 / 10 ^ 16 := by rw [abs_le]; constructor <;> norm_num
    have a2 : |((6004799503160661 * 2 ^ (-57:ℤ) - (1 / 24)) : ℝ)| ≤ 1 / 10 ^ 16 := by rw [abs_le]; constructor <;> norm_num
    have a3 : |((-6405119470038039 * 2 ^ (-62:ℤ) - (-1 / 720)) : ℝ)| ≤ 1 / 10 ^ 16 := by rw [abs_le]; constructor <;> norm_num
    have a4 : |((3660068268593165 * 2 ^ (-67:ℤ) - (1 / 40320)) : ℝ)| ≤ 1 / 10 ^ 16 := by rw [abs_le]; constructor <;> norm_num
    have a5 : |((-1301357606610903 * 2 ^ (-72:ℤ) - (-1 / 3628800)) : ℝ)| ≤ 1 / 10 ^ 16 := by rw [abs_le]; constructor <;> norm_num
    linarith
  have h6 := u6_small h0 hmil
  have hb' : 2 * (u ^ 6 / 479001600) ≤ 1 / 10 ^ 15 := by
    have : u ^ 6 / 479001600 ≤ (2 / 10 ^ 18) / 479001600 := div_le_div_of_nonneg_right h6 (by norm_num)
    linarith [this, (by norm_num : (2:ℝ) * ((2 / 10 ^ 18) / 479001600) ≤ 1 / 10 ^ 15)]
  have := combine _ _ _ _ _ (le_trans hpb hnum) (le_trans hb hb')
  linarith



/-! ## consequence for a consumer: SO(3) exp (DCM form) on the Taylor cell -/

/-- for 0 ≤ θ² < eps every entry of to_Matrix(exp x) is within 1e-14·(|x^|ᵢⱼ + |x^²|ᵢⱼ) of the exact
    matrix exponential; together with `C02.SO3Dcm_exp` (θ² ≥ eps, exact) this covers every angle -/
theorem SO3Dcm_exp_taylor_cell (x : Fin 3 → ℝ) (h : C02.usq x < eps) (i j : Fin 3) :
    |SO3Dcm.toMatrix.M_mat (SO3Dcm.exp.r_vec x) i j - NormedSpace.exp (so3.toMatrix.M_mat x) i j|
      ≤ 1 / 10 ^ 14 * (|hat x i j| + |(hat x ^ 2) i j|) := by
  have h0 : 0 ≤ C02.usq x := by rw [C02.usq_eq]; exact nsq_nonneg x
  have e1 := sin_x_over_x_taylor (C02.usq x) h0 h
  have e2 := one_minus_cos_over_x2_taylor (C02.usq x) h0 h
  rw [C02.SO3Dcm_exp_core, C02.so3_hat, exp_hat, ← C02.usq_eq]
  have : ((1 : Matrix (Fin 3) (Fin 3) ℝ) + SqSeries.sin_x_over_x (C02.usq x) • hat x + SqSeries.one_minus_cos_over_x2 (C02.usq x) • hat x ^ 2) i j
      - ((1 : Matrix (Fin 3) (Fin 3) ℝ) + sFun (Real.sqrt (C02.usq x)) • hat x + cFun (Real.sqrt (C02.usq x)) • hat x ^ 2) i j
      = (SqSeries.sin_x_over_x (C02.usq x) - sFun (Real.sqrt (C02.usq x))) * hat x i j
        + (SqSeries.one_minus_cos_over_x2 (C02.usq x) - cFun (Real.sqrt (C02.usq x))) * (hat x ^ 2) i j := by
    simp only [Matrix.add_apply, Matrix.smul_apply, smul_eq_mul]; ring
  rw [this]
  calc |(SqSeries.sin_x_over_x (C02.usq x) - sFun (Real.sqrt (C02.usq x))) * hat x i j
        + (SqSeries.one_minus_cos_over_x2 (C02.usq x) - cFun (Real.sqrt (C02.usq x))) * (hat x ^ 2) i j|
      ≤ |SqSeries.sin_x_over_x (C02.usq x) - sFun (Real.sqrt (C02.usq x))| * |hat x i j|
        + |SqSeries.one_minus_cos_over_x2 (C02.usq x) - cFun (Real.sqrt (C02.usq x))| * |(hat x ^ 2) i j| := by
        refine le_trans (abs_add_le _ _) ?_
        rw [abs_mul, abs_mul]
    _ ≤ 1 / 10 ^ 14 * |hat x i j| + 1 / 10 ^ 14 * |(hat x ^ 2) i j| := by
        apply add_le_add
        · exact mul_le_mul_of_nonneg_right e1 (abs_nonneg _)
        · exact mul_le_mul_of_nonneg_right e2 (abs_nonneg _)
    _ = 1 / 10 ^ 14 * (|hat x i j| + |(hat x ^ 2) i j|) := by ring

end C06
