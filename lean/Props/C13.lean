/-
  Props/C13.lean — control allocation: reachable motor commands, feasible demands
  honoured exactly, moment priority with the least collective-thrust shift.

  `Gen.rdd2.control_allocation.*` is regenerated from rdd2.derive_control_allocation().
  The `_cut` definitions are the same programs with the outputs `F_moment`, `F_thrust`
  abstracted as arguments (`*_cut_eq : f args = f_cut args (F_moment args) (F_thrust args) := rfl`).
  Theorems are first stated on the peeled programs for ALL motor-force vectors m (moment
  part) and t (thrust part), then transported to the real function.
-/
import GenM.Alloc
import Lib.Sat

set_option maxHeartbeats 4000000
open Gen Gen.rdd2.control_allocation

namespace C13

/-- abbreviations used in the statements -/
def mx (s0 s1 s2 s3 : ℝ) : ℝ := max (max (max s0 s1) s2) s3
def mn (s0 s1 s2 s3 : ℝ) : ℝ := min (min (min s0 s1) s2) s3

/-- the collective shift the allocator applies when the moment spread fits in `F` -/
noncomputable def shift (F s0 s1 s2 s3 : ℝ) : ℝ :=
  if 0 ≤ F - mx s0 s1 s2 s3 then (if 0 ≤ mn s0 s1 s2 s3 then 0 else - mn s0 s1 s2 s3)
  else F - mx s0 s1 s2 s3


/-! ### motor 0 -/
theorem bounds_0_cut (F l Cm Ct T : ℝ) (M : Fin 3 → ℝ) (m0 m1 m2 m3 t0 t1 t2 t3 : ℝ) (hF : 0 ≤ F) :
    0 ≤ Fp_sum_0_cut F l Cm Ct T M m0 m1 m2 m3 t0 t1 t2 t3
      ∧ Fp_sum_0_cut F l Cm Ct T M m0 m1 m2 m3 t0 t1 t2 t3 ≤ F := by
  simp only [cas_defs, cas_real]
  exact Sat.clamp0_bounds hF _

/-- every allocated motor force lies in [0, F_max], for ANY demand and any constants -/
theorem bounds_0 (F l Cm Ct T : ℝ) (M : Fin 3 → ℝ) (hF : 0 ≤ F) :
    0 ≤ Fp_sum_0 F l Cm Ct T M ∧ Fp_sum_0 F l Cm Ct T M ≤ F := by
  rw [Fp_sum_0_cut_eq]; exact bounds_0_cut _ _ _ _ _ _ _ _ _ _ _ _ _ _ hF

/-- motor speed: `omega = sqrt(Fp/Ct)` with a non-negative radicand (so the square root is the
    real one) and a non-negative value -/
theorem omega_spec_0 (F l Cm Ct T : ℝ) (M : Fin 3 → ℝ) (hF : 0 ≤ F) (hCt : 0 < Ct) :
    omega_0 F l Cm Ct T M = Real.sqrt (Fp_sum_0 F l Cm Ct T M / Ct)
      ∧ 0 ≤ Fp_sum_0 F l Cm Ct T M / Ct ∧ 0 ≤ omega_0 F l Cm Ct T M := by
  have hb := bounds_0 F l Cm Ct T M hF
  have e : omega_0 F l Cm Ct T M = Real.sqrt (Fp_sum_0 F l Cm Ct T M / Ct) := by
    simp only [cas_defs, cas_real] <;> (try ring1)
  exact ⟨e, div_nonneg hb.1 hCt.le, by rw [e]; exact Real.sqrt_nonneg _⟩

theorem feasible_0_cut (F l Cm Ct T : ℝ) (M : Fin 3 → ℝ) (m0 m1 m2 m3 t0 t1 t2 t3 : ℝ)
    (h0 : 0 ≤ m0 + t0 ∧ m0 + t0 ≤ F) (h1 : 0 ≤ m1 + t1 ∧ m1 + t1 ≤ F)
    (h2 : 0 ≤ m2 + t2 ∧ m2 + t2 ≤ F) (h3 : 0 ≤ m3 + t3 ∧ m3 + t3 ≤ F) :
    Fp_sum_0_cut F l Cm Ct T M m0 m1 m2 m3 t0 t1 t2 t3 = m0 + t0 := by
  have hC1 : 0 ≤ F - max (max (max (m0 + t0) (m1 + t1)) (m2 + t2)) (m3 + t3) := by
    have := Sat.max4_le h0.2 h1.2 h2.2 h3.2; linarith
  have hC2 : 0 ≤ min (min (min (m0 + t0) (m1 + t1)) (m2 + t2)) (m3 + t3) :=
    Sat.le_min4 h0.1 h1.1 h2.1 h3.1
  simp only [cas_defs, cas_real] <;> (try ring1)
  -- robust to a harmless reordering of the sum in the source (t + m instead of m + t)
  try rw [add_comm t0 m0]
  try rw [add_comm t1 m1]
  try rw [add_comm t2 m2]
  try rw [add_comm t3 m3]
  simp only [hC1, hC2, not_lt.mpr hC1, not_lt.mpr hC2, if_true, false_and, if_false]
  exact Sat.clamp0_id h0.1 h0.2

/-- a jointly achievable (range-limited) demand is reproduced exactly — including when some
    motor sits exactly at 0 or exactly at F_max -/
theorem feasible_0 (F l Cm Ct T : ℝ) (M : Fin 3 → ℝ)
    (h0 : 0 ≤ F_moment_0 F l Cm Ct T M + F_thrust_0 F l Cm Ct T M ∧ F_moment_0 F l Cm Ct T M + F_thrust_0 F l Cm Ct T M ≤ F)
    (h1 : 0 ≤ F_moment_1 F l Cm Ct T M + F_thrust_1 F l Cm Ct T M ∧ F_moment_1 F l Cm Ct T M + F_thrust_1 F l Cm Ct T M ≤ F)
    (h2 : 0 ≤ F_moment_2 F l Cm Ct T M + F_thrust_2 F l Cm Ct T M ∧ F_moment_2 F l Cm Ct T M + F_thrust_2 F l Cm Ct T M ≤ F)
    (h3 : 0 ≤ F_moment_3 F l Cm Ct T M + F_thrust_3 F l Cm Ct T M ∧ F_moment_3 F l Cm Ct T M + F_thrust_3 F l Cm Ct T M ≤ F) :
    Fp_sum_0 F l Cm Ct T M = F_moment_0 F l Cm Ct T M + F_thrust_0 F l Cm Ct T M := by
  rw [Fp_sum_0_cut_eq]; exact feasible_0_cut _ _ _ _ _ _ _ _ _ _ _ _ _ _ h0 h1 h2 h3

/-- moment priority: if the spread of the demanded motor forces fits in `F` (collective part `t`
    equal on all motors), the allocator returns the moment part plus ONE common shift -/
theorem moment_priority_0_cut (F l Cm Ct T : ℝ) (M : Fin 3 → ℝ) (m0 m1 m2 m3 t : ℝ)
    (hsp : mx (m0 + t) (m1 + t) (m2 + t) (m3 + t) - mn (m0 + t) (m1 + t) (m2 + t) (m3 + t) ≤ F) :
    Fp_sum_0_cut F l Cm Ct T M m0 m1 m2 m3 t t t t
      = m0 + (t + shift F (m0 + t) (m1 + t) (m2 + t) (m3 + t)) := by
  unfold mx mn at hsp
  have hmax := Sat.le_max4 (m0 + t) (m1 + t) (m2 + t) (m3 + t)
  have hmin := Sat.min4_le (m0 + t) (m1 + t) (m2 + t) (m3 + t)
  simp only [cas_defs, cas_real, shift, mx, mn]
  try rw [add_comm t m0]
  try rw [add_comm t m1]
  try rw [add_comm t m2]
  try rw [add_comm t m3]
  by_cases hC1 : 0 ≤ F - max (max (max (m0 + t) (m1 + t)) (m2 + t)) (m3 + t)
  · by_cases hC2 : 0 ≤ min (min (min (m0 + t) (m1 + t)) (m2 + t)) (m3 + t)
    · simp only [hC1, hC2, not_lt.mpr hC1, if_true, false_and, if_false, add_zero]
      rw [Sat.clamp0_id] <;> linarith [hmax.1, hmax.2.1, hmax.2.2.1, hmax.2.2.2, hmin.1, hmin.2.1, hmin.2.2.1, hmin.2.2.2]
    · simp only [hC1, hC2, not_lt.mpr hC1, if_true, false_and, if_false]
      rw [Sat.clamp0_id] <;> linarith [hmax.1, hmax.2.1, hmax.2.2.1, hmax.2.2.2, hmin.1, hmin.2.1, hmin.2.2.1, hmin.2.2.2]
  · have hC2 : 0 ≤ min (min (min (m0 + t) (m1 + t)) (m2 + t)) (m3 + t) := by linarith [not_le.mp hC1]
    simp only [hC1, hC2, not_lt.mpr hC2, if_true, and_false, false_and, if_false]
    rw [Sat.clamp0_id] <;> linarith [hmax.1, hmax.2.1, hmax.2.2.1, hmax.2.2.2, hmin.1, hmin.2.1, hmin.2.2.1, hmin.2.2.2, not_le.mp hC1]

/-! ### motor 1 -/
theorem bounds_1_cut (F l Cm Ct T : ℝ) (M : Fin 3 → ℝ) (m0 m1 m2 m3 t0 t1 t2 t3 : ℝ) (hF : 0 ≤ F) :
    0 ≤ Fp_sum_1_cut F l Cm Ct T M m0 m1 m2 m3 t0 t1 t2 t3
      ∧ Fp_sum_1_cut F l Cm Ct T M m0 m1 m2 m3 t0 t1 t2 t3 ≤ F := by
  simp only [cas_defs, cas_real]
  exact Sat.clamp0_bounds hF _

/-- every allocated motor force lies in [0, F_max], for ANY demand and any constants -/
theorem bounds_1 (F l Cm Ct T : ℝ) (M : Fin 3 → ℝ) (hF : 0 ≤ F) :
    0 ≤ Fp_sum_1 F l Cm Ct T M ∧ Fp_sum_1 F l Cm Ct T M ≤ F := by
  rw [Fp_sum_1_cut_eq]; exact bounds_1_cut _ _ _ _ _ _ _ _ _ _ _ _ _ _ hF

/-- motor speed: `omega = sqrt(Fp/Ct)` with a non-negative radicand (so the square root is the
    real one) and a non-negative value -/
theorem omega_spec_1 (F l Cm Ct T : ℝ) (M : Fin 3 → ℝ) (hF : 0 ≤ F) (hCt : 0 < Ct) :
    omega_1 F l Cm Ct T M = Real.sqrt (Fp_sum_1 F l Cm Ct T M / Ct)
      ∧ 0 ≤ Fp_sum_1 F l Cm Ct T M / Ct ∧ 0 ≤ omega_1 F l Cm Ct T M := by
  have hb := bounds_1 F l Cm Ct T M hF
  have e : omega_1 F l Cm Ct T M = Real.sqrt (Fp_sum_1 F l Cm Ct T M / Ct) := by
    simp only [cas_defs, cas_real] <;> (try ring1)
  exact ⟨e, div_nonneg hb.1 hCt.le, by rw [e]; exact Real.sqrt_nonneg _⟩

theorem feasible_1_cut (F l Cm Ct T : ℝ) (M : Fin 3 → ℝ) (m0 m1 m2 m3 t0 t1 t2 t3 : ℝ)
    (h0 : 0 ≤ m0 + t0 ∧ m0 + t0 ≤ F) (h1 : 0 ≤ m1 + t1 ∧ m1 + t1 ≤ F)
    (h2 : 0 ≤ m2 + t2 ∧ m2 + t2 ≤ F) (h3 : 0 ≤ m3 + t3 ∧ m3 + t3 ≤ F) :
    Fp_sum_1_cut F l Cm Ct T M m0 m1 m2 m3 t0 t1 t2 t3 = m1 + t1 := by
  have hC1 : 0 ≤ F - max (max (max (m0 + t0) (m1 + t1)) (m2 + t2)) (m3 + t3) := by
    have := Sat.max4_le h0.2 h1.2 h2.2 h3.2; linarith
  have hC2 : 0 ≤ min (min (min (m0 + t0) (m1 + t1)) (m2 + t2)) (m3 + t3) :=
    Sat.le_min4 h0.1 h1.1 h2.1 h3.1
  simp only [cas_defs, cas_real] <;> (try ring1)
  -- robust to a harmless reordering of the sum in the source (t + m instead of m + t)
  try rw [add_comm t0 m0]
  try rw [add_comm t1 m1]
  try rw [add_comm t2 m2]
  try rw [add_comm t3 m3]
  simp only [hC1, hC2, not_lt.mpr hC1, not_lt.mpr hC2, if_true, false_and, if_false]
  exact Sat.clamp0_id h1.1 h1.2

/-- a jointly achievable (range-limited) demand is reproduced exactly — including when some
    motor sits exactly at 0 or exactly at F_max -/
theorem feasible_1 (F l Cm Ct T : ℝ) (M : Fin 3 → ℝ)
    (h0 : 0 ≤ F_moment_0 F l Cm Ct T M + F_thrust_0 F l Cm Ct T M ∧ F_moment_0 F l Cm Ct T M + F_thrust_0 F l Cm Ct T M ≤ F)
    (h1 : 0 ≤ F_moment_1 F l Cm Ct T M + F_thrust_1 F l Cm Ct T M ∧ F_moment_1 F l Cm Ct T M + F_thrust_1 F l Cm Ct T M ≤ F)
    (h2 : 0 ≤ F_moment_2 F l Cm Ct T M + F_thrust_2 F l Cm Ct T M ∧ F_moment_2 F l Cm Ct T M + F_thrust_2 F l Cm Ct T M ≤ F)
    (h3 : 0 ≤ F_moment_3 F l Cm Ct T M + F_thrust_3 F l Cm Ct T M ∧ F_moment_3 F l Cm Ct T M + F_thrust_3 F l Cm Ct T M ≤ F) :
    Fp_sum_1 F l Cm Ct T M = F_moment_1 F l Cm Ct T M + F_thrust_1 F l Cm Ct T M := by
  rw [Fp_sum_1_cut_eq]; exact feasible_1_cut _ _ _ _ _ _ _ _ _ _ _ _ _ _ h0 h1 h2 h3

/-- moment priority: if the spread of the demanded motor forces fits in `F` (collective part `t`
    equal on all motors), the allocator returns the moment part plus ONE common shift -/
theorem moment_priority_1_cut (F l Cm Ct T : ℝ) (M : Fin 3 → ℝ) (m0 m1 m2 m3 t : ℝ)
    (hsp : mx (m0 + t) (m1 + t) (m2 + t) (m3 + t) - mn (m0 + t) (m1 + t) (m2 + t) (m3 + t) ≤ F) :
    Fp_sum_1_cut F l Cm Ct T M m0 m1 m2 m3 t t t t
      = m1 + (t + shift F (m0 + t) (m1 + t) (m2 + t) (m3 + t)) := by
  unfold mx mn at hsp
  have hmax := Sat.le_max4 (m0 + t) (m1 + t) (m2 + t) (m3 + t)
  have hmin := Sat.min4_le (m0 + t) (m1 + t) (m2 + t) (m3 + t)
  simp only [cas_defs, cas_real, shift, mx, mn]
  try rw [add_comm t m0]
  try rw [add_comm t m1]
  try rw [add_comm t m2]
  try rw [add_comm t m3]
  by_cases hC1 : 0 ≤ F - max (max (max (m0 + t) (m1 + t)) (m2 + t)) (m3 + t)
  · by_cases hC2 : 0 ≤ min (min (min (m0 + t) (m1 + t)) (m2 + t)) (m3 + t)
    · simp only [hC1, hC2, not_lt.mpr hC1, if_true, false_and, if_false, add_zero]
      rw [Sat.clamp0_id] <;> linarith [hmax.1, hmax.2.1, hmax.2.2.1, hmax.2.2.2, hmin.1, hmin.2.1, hmin.2.2.1, hmin.2.2.2]
    · simp only [hC1, hC2, not_lt.mpr hC1, if_true, false_and, if_false]
      rw [Sat.clamp0_id] <;> linarith [hmax.1, hmax.2.1, hmax.2.2.1, hmax.2.2.2, hmin.1, hmin.2.1, hmin.2.2.1, hmin.2.2.2]
  · have hC2 : 0 ≤ min (min (min (m0 + t) (m1 + t)) (m2 + t)) (m3 + t) := by linarith [not_le.mp hC1]
    simp only [hC1, hC2, not_lt.mpr hC2, if_true, and_false, false_and, if_false]
    rw [Sat.clamp0_id] <;> linarith [hmax.1, hmax.2.1, hmax.2.2.1, hmax.2.2.2, hmin.1, hmin.2.1, hmin.2.2.1, hmin.2.2.2, not_le.mp hC1]

/-! ### motor 2 -/
theorem bounds_2_cut (F l Cm Ct T : ℝ) (M : Fin 3 → ℝ) (m0 m1 m2 m3 t0 t1 t2 t3 : ℝ) (hF : 0 ≤ F) :
    0 ≤ Fp_sum_2_cut F l Cm Ct T M m0 m1 m2 m3 t0 t1 t2 t3
      ∧ Fp_sum_2_cut F l Cm Ct T M m0 m1 m2 m3 t0 t1 t2 t3 ≤ F := by
  simp only [cas_defs, cas_real]
  exact Sat.clamp0_bounds hF _

/-- every allocated motor force lies in [0, F_max], for ANY demand and any constants -/
theorem bounds_2 (F l Cm Ct T : ℝ) (M : Fin 3 → ℝ) (hF : 0 ≤ F) :
    0 ≤ Fp_sum_2 F l Cm Ct T M ∧ Fp_sum_2 F l Cm Ct T M ≤ F := by
  rw [Fp_sum_2_cut_eq]; exact bounds_2_cut _ _ _ _ _ _ _ _ _ _ _ _ _ _ hF

/-- motor speed: `omega = sqrt(Fp/Ct)` with a non-negative radicand (so the square root is the
    real one) and a non-negative value -/
theorem omega_spec_2 (F l Cm Ct T : ℝ) (M : Fin 3 → ℝ) (hF : 0 ≤ F) (hCt : 0 < Ct) :
    omega_2 F l Cm Ct T M = Real.sqrt (Fp_sum_2 F l Cm Ct T M / Ct)
      ∧ 0 ≤ Fp_sum_2 F l Cm Ct T M / Ct ∧ 0 ≤ omega_2 F l Cm Ct T M := by
  have hb := bounds_2 F l Cm Ct T M hF
  have e : omega_2 F l Cm Ct T M = Real.sqrt (Fp_sum_2 F l Cm Ct T M / Ct) := by
    simp only [cas_defs, cas_real] <;> (try ring1)
  exact ⟨e, div_nonneg hb.1 hCt.le, by rw [e]; exact Real.sqrt_nonneg _⟩

theorem feasible_2_cut (F l Cm Ct T : ℝ) (M : Fin 3 → ℝ) (m0 m1 m2 m3 t0 t1 t2 t3 : ℝ)
    (h0 : 0 ≤ m0 + t0 ∧ m0 + t0 ≤ F) (h1 : 0 ≤ m1 + t1 ∧ m1 + t1 ≤ F)
    (h2 : 0 ≤ m2 + t2 ∧ m2 + t2 ≤ F) (h3 : 0 ≤ m3 + t3 ∧ m3 + t3 ≤ F) :
    Fp_sum_2_cut F l Cm Ct T M m0 m1 m2 m3 t0 t1 t2 t3 = m2 + t2 := by
  have hC1 : 0 ≤ F - max (max (max (m0 + t0) (m1 + t1)) (m2 + t2)) (m3 + t3) := by
    have := Sat.max4_le h0.2 h1.2 h2.2 h3.2; linarith
  have hC2 : 0 ≤ min (min (min (m0 + t0) (m1 + t1)) (m2 + t2)) (m3 + t3) :=
    Sat.le_min4 h0.1 h1.1 h2.1 h3.1
  simp only [cas_defs, cas_real] <;> (try ring1)
  -- robust to a harmless reordering of the sum in the source (t + m instead of m + t)
  try rw [add_comm t0 m0]
  try rw [add_comm t1 m1]
  try rw [add_comm t2 m2]
  try rw [add_comm t3 m3]
  simp only [hC1, hC2, not_lt.mpr hC1, not_lt.mpr hC2, if_true, false_and, if_false]
  exact Sat.clamp0_id h2.1 h2.2

/-- a jointly achievable (range-limited) demand is reproduced exactly — including when some
    motor sits exactly at 0 or exactly at F_max -/
theorem feasible_2 (F l Cm Ct T : ℝ) (M : Fin 3 → ℝ)
    (h0 : 0 ≤ F_moment_0 F l Cm Ct T M + F_thrust_0 F l Cm Ct T M ∧ F_moment_0 F l Cm Ct T M + F_thrust_0 F l Cm Ct T M ≤ F)
    (h1 : 0 ≤ F_moment_1 F l Cm Ct T M + F_thrust_1 F l Cm Ct T M ∧ F_moment_1 F l Cm Ct T M + F_thrust_1 F l Cm Ct T M ≤ F)
    (h2 : 0 ≤ F_moment_2 F l Cm Ct T M + F_thrust_2 F l Cm Ct T M ∧ F_moment_2 F l Cm Ct T M + F_thrust_2 F l Cm Ct T M ≤ F)
    (h3 : 0 ≤ F_moment_3 F l Cm Ct T M + F_thrust_3 F l Cm Ct T M ∧ F_moment_3 F l Cm Ct T M + F_thrust_3 F l Cm Ct T M ≤ F) :
    Fp_sum_2 F l Cm Ct T M = F_moment_2 F l Cm Ct T M + F_thrust_2 F l Cm Ct T M := by
  rw [Fp_sum_2_cut_eq]; exact feasible_2_cut _ _ _ _ _ _ _ _ _ _ _ _ _ _ h0 h1 h2 h3

/-- moment priority: if the spread of the demanded motor forces fits in `F` (collective part `t`
    equal on all motors), the allocator returns the moment part plus ONE common shift -/
theorem moment_priority_2_cut (F l Cm Ct T : ℝ) (M : Fin 3 → ℝ) (m0 m1 m2 m3 t : ℝ)
    (hsp : mx (m0 + t) (m1 + t) (m2 + t) (m3 + t) - mn (m0 + t) (m1 + t) (m2 + t) (m3 + t) ≤ F) :
    Fp_sum_2_cut F l Cm Ct T M m0 m1 m2 m3 t t t t
      = m2 + (t + shift F (m0 + t) (m1 + t) (m2 + t) (m3 + t)) := by
  unfold mx mn at hsp
  have hmax := Sat.le_max4 (m0 + t) (m1 + t) (m2 + t) (m3 + t)
  have hmin := Sat.min4_le (m0 + t) (m1 + t) (m2 + t) (m3 + t)
  simp only [cas_defs, cas_real, shift, mx, mn]
  try rw [add_comm t m0]
  try rw [add_comm t m1]
  try rw [add_comm t m2]
  try rw [add_comm t m3]
  by_cases hC1 : 0 ≤ F - max (max (max (m0 + t) (m1 + t)) (m2 + t)) (m3 + t)
  · by_cases hC2 : 0 ≤ min (min (min (m0 + t) (m1 + t)) (m2 + t)) (m3 + t)
    · simp only [hC1, hC2, not_lt.mpr hC1, if_true, false_and, if_false, add_zero]
      rw [Sat.clamp0_id] <;> linarith [hmax.1, hmax.2.1, hmax.2.2.1, hmax.2.2.2, hmin.1, hmin.2.1, hmin.2.2.1, hmin.2.2.2]
    · simp only [hC1, hC2, not_lt.mpr hC1, if_true, false_and, if_false]
      rw [Sat.clamp0_id] <;> linarith [hmax.1, hmax.2.1, hmax.2.2.1, hmax.2.2.2, hmin.1, hmin.2.1, hmin.2.2.1, hmin.2.2.2]
  · have hC2 : 0 ≤ min (min (min (m0 + t) (m1 + t)) (m2 + t)) (m3 + t) := by linarith [not_le.mp hC1]
    simp only [hC1, hC2, not_lt.mpr hC2, if_true, and_false, false_and, if_false]
    rw [Sat.clamp0_id] <;> linarith [hmax.1, hmax.2.1, hmax.2.2.1, hmax.2.2.2, hmin.1, hmin.2.1, hmin.2.2.1, hmin.2.2.2, not_le.mp hC1]

/-! ### motor 3 -/
theorem bounds_3_cut (F l Cm Ct T : ℝ) (M : Fin 3 → ℝ) (m0 m1 m2 m3 t0 t1 t2 t3 : ℝ) (hF : 0 ≤ F) :
    0 ≤ Fp_sum_3_cut F l Cm Ct T M m0 m1 m2 m3 t0 t1 t2 t3
      ∧ Fp_sum_3_cut F l Cm Ct T M m0 m1 m2 m3 t0 t1 t2 t3 ≤ F := by
  simp only [cas_defs, cas_real]
  exact Sat.clamp0_bounds hF _

/-- every allocated motor force lies in [0, F_max], for ANY demand and any constants -/
theorem bounds_3 (F l Cm Ct T : ℝ) (M : Fin 3 → ℝ) (hF : 0 ≤ F) :
    0 ≤ Fp_sum_3 F l Cm Ct T M ∧ Fp_sum_3 F l Cm Ct T M ≤ F := by
  rw [Fp_sum_3_cut_eq]; exact bounds_3_cut _ _ _ _ _ _ _ _ _ _ _ _ _ _ hF

/-- motor speed: `omega = sqrt(Fp/Ct)` with a non-negative radicand (so the square root is the
    real one) and a non-negative value -/
theorem omega_spec_3 (F l Cm Ct T : ℝ) (M : Fin 3 → ℝ) (hF : 0 ≤ F) (hCt : 0 < Ct) :
    omega_3 F l Cm Ct T M = Real.sqrt (Fp_sum_3 F l Cm Ct T M / Ct)
      ∧ 0 ≤ Fp_sum_3 F l Cm Ct T M / Ct ∧ 0 ≤ omega_3 F l Cm Ct T M := by
  have hb := bounds_3 F l Cm Ct T M hF
  have e : omega_3 F l Cm Ct T M = Real.sqrt (Fp_sum_3 F l Cm Ct T M / Ct) := by
    simp only [cas_defs, cas_real] <;> (try ring1)
  exact ⟨e, div_nonneg hb.1 hCt.le, by rw [e]; exact Real.sqrt_nonneg _⟩

theorem feasible_3_cut (F l Cm Ct T : ℝ) (M : Fin 3 → ℝ) (m0 m1 m2 m3 t0 t1 t2 t3 : ℝ)
    (h0 : 0 ≤ m0 + t0 ∧ m0 + t0 ≤ F) (h1 : 0 ≤ m1 + t1 ∧ m1 + t1 ≤ F)
    (h2 : 0 ≤ m2 + t2 ∧ m2 + t2 ≤ F) (h3 : 0 ≤ m3 + t3 ∧ m3 + t3 ≤ F) :
    Fp_sum_3_cut F l Cm Ct T M m0 m1 m2 m3 t0 t1 t2 t3 = m3 + t3 := by
  have hC1 : 0 ≤ F - max (max (max (m0 + t0) (m1 + t1)) (m2 + t2)) (m3 + t3) := by
    have := Sat.max4_le h0.2 h1.2 h2.2 h3.2; linarith
  have hC2 : 0 ≤ min (min (min (m0 + t0) (m1 + t1)) (m2 + t2)) (m3 + t3) :=
    Sat.le_min4 h0.1 h1.1 h2.1 h3.1
  simp only [cas_defs, cas_real] <;> (try ring1)
  -- robust to a harmless reordering of the sum in the source (t + m instead of m + t)
  try rw [add_comm t0 m0]
  try rw [add_comm t1 m1]
  try rw [add_comm t2 m2]
  try rw [add_comm t3 m3]
  simp only [hC1, hC2, not_lt.mpr hC1, not_lt.mpr hC2, if_true, false_and, if_false]
  exact Sat.clamp0_id h3.1 h3.2

/-- a jointly achievable (range-limited) demand is reproduced exactly — including when some
    motor sits exactly at 0 or exactly at F_max -/
theorem feasible_3 (F l Cm Ct T : ℝ) (M : Fin 3 → ℝ)
    (h0 : 0 ≤ F_moment_0 F l Cm Ct T M + F_thrust_0 F l Cm Ct T M ∧ F_moment_0 F l Cm Ct T M + F_thrust_0 F l Cm Ct T M ≤ F)
    (h1 : 0 ≤ F_moment_1 F l Cm Ct T M + F_thrust_1 F l Cm Ct T M ∧ F_moment_1 F l Cm Ct T M + F_thrust_1 F l Cm Ct T M ≤ F)
    (h2 : 0 ≤ F_moment_2 F l Cm Ct T M + F_thrust_2 F l Cm Ct T M ∧ F_moment_2 F l Cm Ct T M + F_thrust_2 F l Cm Ct T M ≤ F)
    (h3 : 0 ≤ F_moment_3 F l Cm Ct T M + F_thrust_3 F l Cm Ct T M ∧ F_moment_3 F l Cm Ct T M + F_thrust_3 F l Cm Ct T M ≤ F) :
    Fp_sum_3 F l Cm Ct T M = F_moment_3 F l Cm Ct T M + F_thrust_3 F l Cm Ct T M := by
  rw [Fp_sum_3_cut_eq]; exact feasible_3_cut _ _ _ _ _ _ _ _ _ _ _ _ _ _ h0 h1 h2 h3

/-- moment priority: if the spread of the demanded motor forces fits in `F` (collective part `t`
    equal on all motors), the allocator returns the moment part plus ONE common shift -/
theorem moment_priority_3_cut (F l Cm Ct T : ℝ) (M : Fin 3 → ℝ) (m0 m1 m2 m3 t : ℝ)
    (hsp : mx (m0 + t) (m1 + t) (m2 + t) (m3 + t) - mn (m0 + t) (m1 + t) (m2 + t) (m3 + t) ≤ F) :
    Fp_sum_3_cut F l Cm Ct T M m0 m1 m2 m3 t t t t
      = m3 + (t + shift F (m0 + t) (m1 + t) (m2 + t) (m3 + t)) := by
  unfold mx mn at hsp
  have hmax := Sat.le_max4 (m0 + t) (m1 + t) (m2 + t) (m3 + t)
  have hmin := Sat.min4_le (m0 + t) (m1 + t) (m2 + t) (m3 + t)
  simp only [cas_defs, cas_real, shift, mx, mn]
  try rw [add_comm t m0]
  try rw [add_comm t m1]
  try rw [add_comm t m2]
  try rw [add_comm t m3]
  by_cases hC1 : 0 ≤ F - max (max (max (m0 + t) (m1 + t)) (m2 + t)) (m3 + t)
  · by_cases hC2 : 0 ≤ min (min (min (m0 + t) (m1 + t)) (m2 + t)) (m3 + t)
    · simp only [hC1, hC2, not_lt.mpr hC1, if_true, false_and, if_false, add_zero]
      rw [Sat.clamp0_id] <;> linarith [hmax.1, hmax.2.1, hmax.2.2.1, hmax.2.2.2, hmin.1, hmin.2.1, hmin.2.2.1, hmin.2.2.2]
    · simp only [hC1, hC2, not_lt.mpr hC1, if_true, false_and, if_false]
      rw [Sat.clamp0_id] <;> linarith [hmax.1, hmax.2.1, hmax.2.2.1, hmax.2.2.2, hmin.1, hmin.2.1, hmin.2.2.1, hmin.2.2.2]
  · have hC2 : 0 ≤ min (min (min (m0 + t) (m1 + t)) (m2 + t)) (m3 + t) := by linarith [not_le.mp hC1]
    simp only [hC1, hC2, not_lt.mpr hC2, if_true, and_false, false_and, if_false]
    rw [Sat.clamp0_id] <;> linarith [hmax.1, hmax.2.1, hmax.2.2.1, hmax.2.2.2, hmin.1, hmin.2.1, hmin.2.2.1, hmin.2.2.2, not_le.mp hC1]

/-! ### the shift is the least one -/

/-- any other common shift that keeps every motor in [0, F] moves the collective thrust at
    least as far from the demanded one -/
theorem shift_least (F m0 m1 m2 m3 t : ℝ) (τ' : ℝ)
    (h0 : 0 ≤ m0 + τ' ∧ m0 + τ' ≤ F) (h1 : 0 ≤ m1 + τ' ∧ m1 + τ' ≤ F)
    (h2 : 0 ≤ m2 + τ' ∧ m2 + τ' ≤ F) (h3 : 0 ≤ m3 + τ' ∧ m3 + τ' ≤ F) :
    |shift F (m0 + t) (m1 + t) (m2 + t) (m3 + t)| ≤ |τ' - t| := by
  unfold shift mx mn
  have hmaxm := Sat.max4_mem (m0 + t) (m1 + t) (m2 + t) (m3 + t)
  have hminm := Sat.min4_mem (m0 + t) (m1 + t) (m2 + t) (m3 + t)
  by_cases hC1 : 0 ≤ F - max (max (max (m0 + t) (m1 + t)) (m2 + t)) (m3 + t)
  · by_cases hC2 : 0 ≤ min (min (min (m0 + t) (m1 + t)) (m2 + t)) (m3 + t)
    · simp only [hC1, hC2, if_true]; simp
    · simp only [hC1, hC2, if_true, if_false]
      have hneg := not_le.mp hC2
      rw [abs_of_nonneg (by linarith)]
      have : -min (min (min (m0 + t) (m1 + t)) (m2 + t)) (m3 + t) ≤ τ' - t := by
        rcases hminm with h | h | h | h <;> rw [h] <;> linarith [h0.1, h1.1, h2.1, h3.1]
      exact le_trans this (le_abs_self _)
  · simp only [hC1, if_false]
    have hneg := not_le.mp hC1
    rw [abs_of_neg hneg]
    have : -(F - max (max (max (m0 + t) (m1 + t)) (m2 + t)) (m3 + t)) ≤ -(τ' - t) := by
      rcases hmaxm with h | h | h | h <;> rw [h] <;> linarith [h0.2, h1.2, h2.2, h3.2]
    exact le_trans this (neg_le_abs _)

/-! ### the mixer: A is the inverse of the rotor geometry map G, on the real function -/

/-- thrust part: every motor gets a quarter of the range-limited thrust -/
theorem F_thrust_spec (F l Cm Ct T : ℝ) (M : Fin 3 → ℝ) :
    F_thrust_0 F l Cm Ct T M = (if 4 * F < T then 4 * F else if ¬ T < 0 then T else 0) / 4
    ∧ F_thrust_1 F l Cm Ct T M = F_thrust_0 F l Cm Ct T M
    ∧ F_thrust_2 F l Cm Ct T M = F_thrust_0 F l Cm Ct T M
    ∧ F_thrust_3 F l Cm Ct T M = F_thrust_0 F l Cm Ct T M := by
  refine ⟨?_, ?_, ?_, ?_⟩
  · simp only [cas_defs, cas_real]
    split_ifs <;> norm_num <;> ring
  all_goals simp only [cas_defs, cas_real] <;> (try ring1)

/-- range-limited moment: component-wise clamp to ±l·(4F)/2 -/
theorem M_sat_bounds (F l Cm Ct T : ℝ) (M : Fin 3 → ℝ) (hF : 0 ≤ F) (hl : 0 ≤ l) :
    (|M_sat_0 F l Cm Ct T M| ≤ l * (4 * F) / 2) ∧ (|M_sat_1 F l Cm Ct T M| ≤ l * (4 * F) / 2)
      ∧ (|M_sat_2 F l Cm Ct T M| ≤ l * (4 * F) / 2) := by
  have hb : -(l * (4 * F) / 2) ≤ l * (4 * F) / 2 := by
    have : 0 ≤ l * (4 * F) / 2 := by positivity
    linarith
  refine ⟨?_, ?_, ?_⟩ <;> simp only [cas_defs, cas_real] <;> rw [abs_le] <;>
    exact Sat.clamp_bounds hb _

/-- an in-range moment demand is passed through unchanged -/
theorem M_sat_id (F l Cm Ct T : ℝ) (M : Fin 3 → ℝ)
    (h0 : |M 0| ≤ l * (4 * F) / 2) (h1 : |M 1| ≤ l * (4 * F) / 2) (h2 : |M 2| ≤ l * (4 * F) / 2) :
    M_sat_0 F l Cm Ct T M = M 0 ∧ M_sat_1 F l Cm Ct T M = M 1 ∧ M_sat_2 F l Cm Ct T M = M 2 := by
  rw [abs_le] at h0 h1 h2
  refine ⟨?_, ?_, ?_⟩ <;> simp only [cas_defs, cas_real] <;> (try ring1)
  · rw [if_neg (not_lt.mpr h0.2), if_neg (not_lt.mpr h0.1)]
  · rw [if_neg (not_lt.mpr h1.2), if_neg (not_lt.mpr h1.1)]
  · rw [if_neg (not_lt.mpr h2.2), if_neg (not_lt.mpr h2.1)]

/-- the rotor geometry map applied to the moment part returns the range-limited moment and no
    thrust:  G = [[1,1,1,1],[-l,l,l,-l],[-l,l,-l,l],[-Cm,-Cm,Cm,Cm]] -/
theorem mixer_moment (F l Cm Ct T : ℝ) (M : Fin 3 → ℝ) (hl : l ≠ 0) (hCm : Cm ≠ 0) :
    F_moment_0 F l Cm Ct T M + F_moment_1 F l Cm Ct T M + F_moment_2 F l Cm Ct T M + F_moment_3 F l Cm Ct T M = 0
    ∧ l * (-F_moment_0 F l Cm Ct T M + F_moment_1 F l Cm Ct T M + F_moment_2 F l Cm Ct T M - F_moment_3 F l Cm Ct T M)
        = M_sat_0 F l Cm Ct T M
    ∧ l * (-F_moment_0 F l Cm Ct T M + F_moment_1 F l Cm Ct T M - F_moment_2 F l Cm Ct T M + F_moment_3 F l Cm Ct T M)
        = M_sat_1 F l Cm Ct T M
    ∧ Cm * (-F_moment_0 F l Cm Ct T M - F_moment_1 F l Cm Ct T M + F_moment_2 F l Cm Ct T M + F_moment_3 F l Cm Ct T M)
        = M_sat_2 F l Cm Ct T M := by
  refine ⟨?_, ?_, ?_, ?_⟩ <;> simp only [cas_defs, cas_real] <;> field_simp <;> ring

/-- **realised moment = demanded moment** whenever the moment alone is achievable: the rotor
    geometry map applied to the allocated forces gives back `M_sat` exactly (the common shift is
    annihilated by the moment rows), on the real function -/
theorem realised_moment (F l Cm Ct T : ℝ) (M : Fin 3 → ℝ) (hl : l ≠ 0) (hCm : Cm ≠ 0)
    (hsp : mx (F_moment_0 F l Cm Ct T M + F_thrust_0 F l Cm Ct T M) (F_moment_1 F l Cm Ct T M + F_thrust_0 F l Cm Ct T M)
              (F_moment_2 F l Cm Ct T M + F_thrust_0 F l Cm Ct T M) (F_moment_3 F l Cm Ct T M + F_thrust_0 F l Cm Ct T M)
          - mn (F_moment_0 F l Cm Ct T M + F_thrust_0 F l Cm Ct T M) (F_moment_1 F l Cm Ct T M + F_thrust_0 F l Cm Ct T M)
              (F_moment_2 F l Cm Ct T M + F_thrust_0 F l Cm Ct T M) (F_moment_3 F l Cm Ct T M + F_thrust_0 F l Cm Ct T M) ≤ F) :
    l * (-Fp_sum_0 F l Cm Ct T M + Fp_sum_1 F l Cm Ct T M + Fp_sum_2 F l Cm Ct T M - Fp_sum_3 F l Cm Ct T M)
        = M_sat_0 F l Cm Ct T M
    ∧ l * (-Fp_sum_0 F l Cm Ct T M + Fp_sum_1 F l Cm Ct T M - Fp_sum_2 F l Cm Ct T M + Fp_sum_3 F l Cm Ct T M)
        = M_sat_1 F l Cm Ct T M
    ∧ Cm * (-Fp_sum_0 F l Cm Ct T M - Fp_sum_1 F l Cm Ct T M + Fp_sum_2 F l Cm Ct T M + Fp_sum_3 F l Cm Ct T M)
        = M_sat_2 F l Cm Ct T M := by
  obtain ⟨_, e1, e2, e3⟩ := F_thrust_spec F l Cm Ct T M
  obtain ⟨_, g0, g1, g2⟩ := mixer_moment F l Cm Ct T M hl hCm
  rw [Fp_sum_0_cut_eq, Fp_sum_1_cut_eq, Fp_sum_2_cut_eq, Fp_sum_3_cut_eq, e1, e2, e3,
    moment_priority_0_cut _ _ _ _ _ _ _ _ _ _ _ hsp, moment_priority_1_cut _ _ _ _ _ _ _ _ _ _ _ hsp,
    moment_priority_2_cut _ _ _ _ _ _ _ _ _ _ _ hsp, moment_priority_3_cut _ _ _ _ _ _ _ _ _ _ _ hsp]
  refine ⟨?_, ?_, ?_⟩
  · rw [← g0]; ring
  · rw [← g1]; ring
  · rw [← g2]; ring

/-! ### non-vacuity: concrete demands meeting the hypotheses -/
example : (0:ℝ) ≤ 0 + 1 ∧ (0:ℝ) + 1 ≤ 4 := by norm_num
example : mx (1 + 1) (-1 + 1) (0 + 1) (0 + 1) - mn ((1:ℝ) + 1) (-1 + 1) (0 + 1) (0 + 1) ≤ 4 := by
  simp [mx, mn]; norm_num

end C13
