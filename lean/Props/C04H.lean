/-
  Props/C04H.lean — Ad is a homomorphism on SE_2(3) (quaternion and MRP form):
  Ad_{XY} = Ad_X Ad_Y and Ad_{X⁻¹} Ad_X = 1, for all valid X, Y.
  Derived (Lib/AdConj) from what C04 and C01 prove about the translated programs:
  (Ad_X y)^ M(X) = M(X) y^, M(XY) = M(X) M(Y), M(X⁻¹) M(X) = 1, and injectivity of the se_2(3) hat map.
  Same derivation for SE(3) Ad_{X⁻¹} Ad_X = 1.
-/
import Props.C04
import Props.C01
import Lib.AdConj

set_option maxHeartbeats 2000000
open Gen Rot

namespace C04H

theorem se23_hat_injective : Function.Injective (fun y : Fin 9 → ℝ => se23.toMatrix.M_mat y) := by
  intro x y h
  have e := fun i j => congrFun (congrFun h i) j
  have e0 := e 0 4; have e1 := e 1 4; have e2 := e 2 4
  have e3 := e 0 3; have e4 := e 1 3; have e5 := e 2 3
  have e6 := e 2 1; have e7 := e 0 2; have e8 := e 1 0
  simp [cas_defs, cas_real] at e0 e1 e2 e3 e4 e5 e6 e7 e8
  funext i; fin_cases i <;> simp_all

theorem se3_hat_injective : Function.Injective (fun y : Fin 6 → ℝ => se3.toMatrix.M_mat y) := by
  intro x y h
  have e := fun i j => congrFun (congrFun h i) j
  have e0 := e 0 3; have e1 := e 1 3; have e2 := e 2 3
  have e3 := e 2 1; have e4 := e 0 2; have e5 := e 1 0
  simp [cas_defs, cas_real] at e0 e1 e2 e3 e4 e5
  funext i; fin_cases i <;> simp_all

namespace SE23Quat
/-- the product of unit quaternions is a unit quaternion (rotation part of the SE_2(3) product) -/
theorem product_unit (a b : Fin 10 → ℝ) (ha : qnormSq (C04.SE23Quat.rot a) = 1) (hb : qnormSq (C04.SE23Quat.rot b) = 1) :
    qnormSq (C04.SE23Quat.rot (SE23Quat.product.r_vec a b)) = 1 := by
  have ha' : a 6 ^ 2 + a 7 ^ 2 + a 8 ^ 2 + a 9 ^ 2 = 1 := by simpa [qnormSq, C04.SE23Quat.rot] using ha
  have hb' : b 6 ^ 2 + b 7 ^ 2 + b 8 ^ 2 + b 9 ^ 2 = 1 := by simpa [qnormSq, C04.SE23Quat.rot] using hb
  simp [qnormSq, C04.SE23Quat.rot, cas_defs, cas_real]
  linear_combination (b 6 ^ 2 + b 7 ^ 2 + b 8 ^ 2 + b 9 ^ 2) * ha' + hb'

/-- **Ad_{XY} = Ad_X Ad_Y on SE_2(3), quaternion form, all unit X, Y.** -/
theorem Ad_hom (a b : Fin 10 → ℝ) (ha : qnormSq (C04.SE23Quat.rot a) = 1) (hb : qnormSq (C04.SE23Quat.rot b) = 1) :
    SE23Quat.Ad.M_mat (SE23Quat.product.r_vec a b) = SE23Quat.Ad.M_mat a * SE23Quat.Ad.M_mat b := by
  have hab := product_unit a b ha hb
  refine AdConj.hom_of_conj (fun y => se23.toMatrix.M_mat y) se23_hat_injective _ _ _
    (SE23Quat.toMatrix.M_mat a) (SE23Quat.toMatrix.M_mat b)
    (SE23Quat.toMatrix.M_mat (SE23Quat.inverse.r_vec (SE23Quat.product.r_vec a b))) ?_
    (C04.SE23Quat.Ad_conj a ha) (C04.SE23Quat.Ad_conj b hb) ?_
  · rw [← C01.SE23Quat.toMatrix_product]
    exact C01.SE23Quat.toMatrix_inverse_right _ hab
  · intro y
    rw [← C01.SE23Quat.toMatrix_product]
    exact C04.SE23Quat.Ad_conj _ hab y

theorem inverse_unit (a : Fin 10 → ℝ) (ha : qnormSq (C04.SE23Quat.rot a) = 1) :
    qnormSq (C04.SE23Quat.rot (SE23Quat.inverse.r_vec a)) = 1 := by
  have ha' : a 6 ^ 2 + a 7 ^ 2 + a 8 ^ 2 + a 9 ^ 2 = 1 := by simpa [qnormSq, C04.SE23Quat.rot] using ha
  simp [qnormSq, C04.SE23Quat.rot, cas_defs, cas_real]
  linear_combination ha'

/-- **Ad_{X⁻¹} Ad_X = 1 on SE_2(3), quaternion form.** -/
theorem Ad_inv (a : Fin 10 → ℝ) (ha : qnormSq (C04.SE23Quat.rot a) = 1) :
    SE23Quat.Ad.M_mat (SE23Quat.inverse.r_vec a) * SE23Quat.Ad.M_mat a = 1 :=
  AdConj.inv_of_conj (fun y => se23.toMatrix.M_mat y) se23_hat_injective _ _ _ _
    (C01.SE23Quat.toMatrix_inverse_left a ha)
    (C04.SE23Quat.Ad_conj _ (inverse_unit a ha)) (C04.SE23Quat.Ad_conj a ha)
end SE23Quat

namespace SE23Mrp
/-- **Ad_{XY} = Ad_X Ad_Y on SE_2(3), MRP form** (away from the 360° singularity of the MRP product). -/
theorem Ad_hom (a b : Fin 9 → ℝ) (h : mrpDen (C01.SE23Mrp.rot a) (C01.SE23Mrp.rot b) ≠ 0) :
    SE23Mrp.Ad.M_mat (SE23Mrp.product.r_vec a b) = SE23Mrp.Ad.M_mat a * SE23Mrp.Ad.M_mat b := by
  refine AdConj.hom_of_conj (fun y => se23.toMatrix.M_mat y) se23_hat_injective _ _ _
    (SE23Mrp.toMatrix.M_mat a) (SE23Mrp.toMatrix.M_mat b)
    (SE23Mrp.toMatrix.M_mat (SE23Mrp.inverse.r_vec (SE23Mrp.product.r_vec a b))) ?_
    (C04.SE23Mrp.Ad_conj a) (C04.SE23Mrp.Ad_conj b) ?_
  · rw [← C01.SE23Mrp.toMatrix_product a b h]
    exact C01.SE23Mrp.toMatrix_inverse_right _
  · intro y
    rw [← C01.SE23Mrp.toMatrix_product a b h]
    exact C04.SE23Mrp.Ad_conj _ y

/-- **Ad_{X⁻¹} Ad_X = 1 on SE_2(3), MRP form, every X.** -/
theorem Ad_inv (a : Fin 9 → ℝ) :
    SE23Mrp.Ad.M_mat (SE23Mrp.inverse.r_vec a) * SE23Mrp.Ad.M_mat a = 1 :=
  AdConj.inv_of_conj (fun y => se23.toMatrix.M_mat y) se23_hat_injective _ _ _ _
    (C01.SE23Mrp.toMatrix_inverse_left a) (C04.SE23Mrp.Ad_conj _) (C04.SE23Mrp.Ad_conj a)
end SE23Mrp

namespace SE3Quat
theorem inverse_unit (a : Fin 7 → ℝ) (ha : qnormSq (C04.SE3Quat.rot a) = 1) :
    qnormSq (C04.SE3Quat.rot (SE3Quat.inverse.r_vec a)) = 1 := by
  have ha' : a 3 ^ 2 + a 4 ^ 2 + a 5 ^ 2 + a 6 ^ 2 = 1 := by simpa [qnormSq, C04.SE3Quat.rot] using ha
  simp [qnormSq, C04.SE3Quat.rot, cas_defs, cas_real]
  linear_combination ha'

/-- **Ad_{X⁻¹} Ad_X = 1 on SE(3), quaternion form, every unit X.** -/
theorem Ad_inv (a : Fin 7 → ℝ) (ha : qnormSq (C04.SE3Quat.rot a) = 1) :
    SE3Quat.Ad.M_mat (SE3Quat.inverse.r_vec a) * SE3Quat.Ad.M_mat a = 1 :=
  AdConj.inv_of_conj (fun y => se3.toMatrix.M_mat y) se3_hat_injective _ _ _ _
    (C01.SE3Quat.toMatrix_inverse_left a ha)
    (C04.SE3Quat.Ad_conj _ (inverse_unit a ha)) (C04.SE3Quat.Ad_conj a ha)
end SE3Quat

namespace SE3Mrp
/-- **Ad_{X⁻¹} Ad_X = 1 on SE(3), MRP form, every X.** -/
theorem Ad_inv (a : Fin 6 → ℝ) :
    SE3Mrp.Ad.M_mat (SE3Mrp.inverse.r_vec a) * SE3Mrp.Ad.M_mat a = 1 :=
  AdConj.inv_of_conj (fun y => se3.toMatrix.M_mat y) se3_hat_injective _ _ _ _
    (C01.SE3Mrp.toMatrix_inverse_left a) (C04.SE3Mrp.Ad_conj _) (C04.SE3Mrp.Ad_conj a)
end SE3Mrp

namespace SO3Dcm
/-- **Ad_{X⁻¹} Ad_X = 1 on SO(3), DCM form, every orthonormal X** (Ad is the matrix itself) -/
theorem Ad_inv (a : Fin 9 → ℝ) (h : (SO3Dcm.toMatrix.M_mat a).transpose * SO3Dcm.toMatrix.M_mat a = 1) :
    SO3Dcm.Ad.M_mat (SO3Dcm.inverse.r_vec a) * SO3Dcm.Ad.M_mat a = 1 := by
  rw [C04.SO3Dcm.Ad_spec, C04.SO3Dcm.Ad_spec]
  exact C01.SO3Dcm.toMatrix_inverse_left a h
end SO3Dcm

end C04H
