/-
  Props/C12.lean — structural theorems behind the closed-loop behaviour of the packaged attitude simulator and
  MRP estimator (cyecca/estimate/attitude/algorithms/{sim,mrp}.py).  The trajectory-level convergence claim is
  NOT a theorem here (see DESIGN.md §2 C12); these are the step-level facts it rests on.
-/
import GenM.Est
import Cas.Real
import Lib.Rot
import Mathlib.Tactic.FieldSimp
import Mathlib.Tactic.Ring
import Mathlib.Tactic.FinCases
import Mathlib.Tactic.Linarith

set_option maxHeartbeats 4000000
set_option linter.unusedSimpArgs false
open Gen Matrix Rot

namespace C12

/-! ### sensor models of the simulator: noise-free readings rotate with the true attitude and keep their magnitude -/
section sensors
variable (x : Fin 6 → ℝ)

theorem den_ne (x : Fin 6 → ℝ) : (1 + (x 0 * x 0 + x 1 * x 1 + x 2 * x 2)) ≠ 0 := by
  nlinarith [mul_self_nonneg (x 0), mul_self_nonneg (x 1), mul_self_nonneg (x 2)]
theorem den_ne2 (x : Fin 6 → ℝ) : (1 + (x 0 ^ 2 + x 1 ^ 2 + x 2 ^ 2)) ≠ 0 := by positivity

/-- accelerometer: y = R(r)ᵀ (0, 0, −g) for every MRP r (no noise) -/
theorem accel_model (g : ℝ) :
    sim.measure_accel.y_vec x g 0 (fun _ => 0) = (mrpMat ![x 0, x 1, x 2])ᵀ *ᵥ ![0, 0, -g] := by
  have h := den_ne x; have h' := den_ne2 x
  funext i; fin_cases i <;>
    simp [cas_defs, cas_real, mrpMat, qmat, mrpQ, nsq, Matrix.mulVec, dotProduct, Fin.sum_univ_succ] <;> field_simp <;>
    (first | ring1 | (ring_nf; simp))

/-- … hence its magnitude is the configured gravity -/
theorem accel_norm (g : ℝ) :
    sim.measure_accel.y_0 x g 0 (fun _ => 0) ^ 2 + sim.measure_accel.y_1 x g 0 (fun _ => 0) ^ 2
      + sim.measure_accel.y_2 x g 0 (fun _ => 0) ^ 2 = g ^ 2 := by
  have h := den_ne x; have h' := den_ne2 x
  simp [cas_defs, cas_real]; field_simp; ring

/-- gyroscope: y = ω + b -/
theorem gyro_model (om : Fin 3 → ℝ) :
    sim.measure_gyro.y_vec x om 0 (fun _ => 0) = fun i => om i + x (Fin.natAdd 3 i) := by
  funext i; fin_cases i <;> simp [cas_defs, cas_real] <;> (try ring1)

/-- magnetometer: the noise-free reading is the true-attitude rotation R(r)ᵀ of the reading at the identity
    attitude (a nav-frame vector that depends only on field strength, declination and inclination) -/
theorem mag_rotates (s d i : ℝ) :
    sim.measure_mag.y_vec x s d i 0 (fun _ => 0)
      = (mrpMat ![x 0, x 1, x 2])ᵀ *ᵥ sim.measure_mag.y_vec (fun _ => 0) s d i 0 (fun _ => 0) := by
  have h := den_ne x; have h' := den_ne2 x
  funext k; fin_cases k <;>
    simp [cas_defs, cas_real, mrpMat, qmat, mrpQ, nsq, Matrix.mulVec, dotProduct, Fin.sum_univ_succ] <;> field_simp <;>
    (first | ring1 | (ring_nf; simp))

/-- … hence its magnitude does not depend on the attitude -/
theorem mag_norm_invariant (s d i : ℝ) :
    sim.measure_mag.y_0 x s d i 0 (fun _ => 0) ^ 2 + sim.measure_mag.y_1 x s d i 0 (fun _ => 0) ^ 2
      + sim.measure_mag.y_2 x s d i 0 (fun _ => 0) ^ 2
    = sim.measure_mag.y_0 (fun _ => 0) s d i 0 (fun _ => 0) ^ 2 + sim.measure_mag.y_1 (fun _ => 0) s d i 0 (fun _ => 0) ^ 2
      + sim.measure_mag.y_2 (fun _ => 0) s d i 0 (fun _ => 0) ^ 2 := by
  have h := den_ne x; have h' := den_ne2 x
  simp [cas_defs, cas_real]; field_simp; ring
end sensors

/-! ### truth propagation keeps the true MRP in the closed unit ball (shadow switch), bias random walk is additive -/
theorem shadow_norm_le (b0 b1 b2 : ℝ) :
    let n := b0 ^ 2 + b1 ^ 2 + b2 ^ 2
    let s := fun b : ℝ => if 1 < n then -(b / n) else b
    s b0 ^ 2 + s b1 ^ 2 + s b2 ^ 2 ≤ 1 := by
  intro n s
  by_cases h : 1 < n
  · have hn : 0 < n := by linarith
    have e : s b0 ^ 2 + s b1 ^ 2 + s b2 ^ 2 = 1 / n := by
      simp only [s, h, if_true]
      field_simp
      rfl
    rw [e, div_le_one hn]; exact h.le
  · simp only [s, h, if_false]
    exact not_lt.mp h

section simulate
variable (t : ℝ) (x : Fin 6 → ℝ) (om : Fin 3 → ℝ) (sn : ℝ) (w : Fin 3 → ℝ) (dt : ℝ)
open Gen.sim.simulate

theorem simulate_norm :
    x1_0 t x om sn w dt ^ 2 + x1_1 t x om sn w dt ^ 2 + x1_2 t x om sn w dt ^ 2 ≤ 1 := by
  set b0 := x1_0__b t x om sn w dt with hb0
  set b1 := x1_1__b t x om sn w dt with hb1
  set b2 := x1_2__b t x om sn w dt with hb2
  have hc0 : x1_0__c t x om sn w dt = CasNum.lt (CasNum.ofInt 1) (CasNum.add (CasNum.add (CasNum.sq b0) (CasNum.sq b1)) (CasNum.sq b2)) := rfl
  have hc1 : x1_1__c t x om sn w dt = CasNum.lt (CasNum.ofInt 1) (CasNum.add (CasNum.add (CasNum.sq b0) (CasNum.sq b1)) (CasNum.sq b2)) := rfl
  have hc2 : x1_2__c t x om sn w dt = CasNum.lt (CasNum.ofInt 1) (CasNum.add (CasNum.add (CasNum.sq b0) (CasNum.sq b1)) (CasNum.sq b2)) := rfl
  have ha0 : x1_0__a t x om sn w dt = CasNum.neg (CasNum.div b0 (CasNum.add (CasNum.add (CasNum.sq b0) (CasNum.sq b1)) (CasNum.sq b2))) := rfl
  have ha1 : x1_1__a t x om sn w dt = CasNum.neg (CasNum.div b1 (CasNum.add (CasNum.add (CasNum.sq b0) (CasNum.sq b1)) (CasNum.sq b2))) := rfl
  have ha2 : x1_2__a t x om sn w dt = CasNum.neg (CasNum.div b2 (CasNum.add (CasNum.add (CasNum.sq b0) (CasNum.sq b1)) (CasNum.sq b2))) := rfl
  rw [x1_0_sel, x1_1_sel, x1_2_sel, hc0, hc1, hc2, ha0, ha1, ha2, ← hb0, ← hb1, ← hb2]
  have := shadow_norm_le b0 b1 b2
  simp only [cas_real, pow_two] at this ⊢
  exact this
end simulate

/-! ### an accepted magnetometer correction writes ALL three gyro-bias components with the gain rule b⁺ = b + K r
    (QR-abstracted variant of the real program; K_i = qrR[0, 4+i] / qrR[0, 0], r = the returned residual) -/
section mag_bias
variable (x : Fin 6 → ℝ) (W : Fin 6 → Fin 6 → ℝ) (y_b : Fin 3 → ℝ) (decl std_mag beta_mag_c : ℝ) (qrQ qrR : Fin 7 → Fin 7 → ℝ)
open Gen.mrp.correct_mag_qr

open Lean in
macro "accept_entry " e:ident : tactic => do
  let ce := mkIdent (e.getId.appendAfter "_cut_eq")
  let cs := mkIdent (e.getId.appendAfter "_cut_sel")
  let cc := mkIdent (e.getId.appendAfter "_cut__c")
  let ca := mkIdent (e.getId.appendAfter "_cut__a")
  `(tactic| (rw [$ce:ident, $cs:ident]; simp only [$cc:ident, $ca:ident, cas_real]; simp [*]))

theorem mag_bias_update (h0 : error_code x W y_b decl std_mag beta_mag_c qrQ qrR = 0) :
    let r := r_mag x W y_b decl std_mag beta_mag_c qrQ qrR
    x_mag_3 x W y_b decl std_mag beta_mag_c qrQ qrR = x 3 + qrR 0 4 / qrR 0 0 * r
    ∧ x_mag_4 x W y_b decl std_mag beta_mag_c qrQ qrR = x 4 + qrR 0 5 / qrR 0 0 * r
    ∧ x_mag_5 x W y_b decl std_mag beta_mag_c qrQ qrR = x 5 + qrR 0 6 / qrR 0 0 * r := by
  intro r
  refine ⟨?_, ?_, ?_⟩
  · accept_entry x_mag_3; ring
  · accept_entry x_mag_4; ring
  · accept_entry x_mag_5; ring
end mag_bias

/-! ### … and so does an accepted accelerometer correction (gain rows from the 2×2 innovation factor) -/
section accel_bias
variable (x : Fin 6 → ℝ) (W : Fin 6 → Fin 6 → ℝ) (y_b : Fin 3 → ℝ) (g : ℝ) (omega_b : Fin 3 → ℝ) (std_accel std_accel_omega beta_accel_c : ℝ) (qrQ qrR : Fin 8 → Fin 8 → ℝ)
open Gen.mrp.correct_accel_qr

open Lean in
macro "accel_bias_entry " e:ident : tactic => do
  let ce := mkIdent (e.getId.appendAfter "_cut_eq")
  let cs := mkIdent (e.getId.appendAfter "_cut_sel")
  let cc := mkIdent (e.getId.appendAfter "_cut__c")
  let ca := mkIdent (e.getId.appendAfter "_cut__a")
  `(tactic| (rw [$ce:ident, $cs:ident]; simp only [$cc:ident, $ca:ident, cas_real, *]; simp only [r_accel_0, r_accel_1, cas_real]; split_ifs <;> ring))

theorem accel_bias_update (h0 : error_code x W y_b g omega_b std_accel std_accel_omega beta_accel_c qrQ qrR = 0) :
    let r0 := r_accel_0 x W y_b g omega_b std_accel std_accel_omega beta_accel_c qrQ qrR
    let r1 := r_accel_1 x W y_b g omega_b std_accel std_accel_omega beta_accel_c qrQ qrR
    let K := fun j : Fin 8 => (qrR 0 j / qrR 0 0 - qrR 1 j * (qrR 0 1 / qrR 0 0 / qrR 1 1), qrR 1 j / qrR 1 1)
    x_accel_3 x W y_b g omega_b std_accel std_accel_omega beta_accel_c qrQ qrR = x 3 + (K 5).1 * r0 + (K 5).2 * r1
    ∧ x_accel_4 x W y_b g omega_b std_accel std_accel_omega beta_accel_c qrQ qrR = x 4 + (K 6).1 * r0 + (K 6).2 * r1
    ∧ x_accel_5 x W y_b g omega_b std_accel std_accel_omega beta_accel_c qrQ qrR = x 5 + (K 7).1 * r0 + (K 7).2 * r1 := by
  intro r0 r1 K
  simp only [r0, r1, K]
  refine ⟨?_, ?_, ?_⟩
  · accel_bias_entry x_accel_3
  · accel_bias_entry x_accel_4
  · accel_bias_entry x_accel_5
end accel_bias

end C12
