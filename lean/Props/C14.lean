/-
  Props/C14.lean — attitude set-points: the Euler helper returns a unit quaternion of the same
  rotation (all angles, via the Shepperd theorem of C07); the flatness reference satisfies Euler's
  equation for the rates it returns, for every input (peeled program); structure of the returned
  thrust magnitude; the position controller and the SE_2(3) outer loop return, for EVERY input, a unit quaternion of a proper
  rotation whose third axis is the (guarded) normalised demanded force, with nT its norm (frame exposed by probes of the
  real body, Lib/Triad + the Shepperd theorem of C07); flatness references on their main branch.
-/
import GenM.Ref
import GenM.RefP
import Lib.Triad
import GenM.SO3
import Props.C07

set_option maxHeartbeats 4000000
open Gen Rot Triad

namespace C14

/-! ## Euler (3-2-1) → quaternion helper: proper rotation for EVERY yaw, pitch, roll (gimbal poles included) -/
theorem e2q_spec (y p r : ℝ) : bezier.eulerB321_to_quat.q_vec y p r = SO3Quat.from_Euler.r_vec ![y, p, r] := by
  funext i; fin_cases i <;> simp [cas_defs, cas_real] <;> (try ring1)

theorem eulerB321_to_quat_proper (y p r : ℝ) :
    qnormSq (bezier.eulerB321_to_quat.q_vec y p r) = 1
      ∧ qmat (bezier.eulerB321_to_quat.q_vec y p r) = SO3Euler.toMatrix.M_mat ![y, p, r] := by
  rw [e2q_spec]
  obtain ⟨h1, h2⟩ := C07.Quat_from_Euler ![y, p, r]
  exact ⟨h1, by rw [← C07.SO3Quat_toMatrix_spec]; exact h2⟩

/-! ## flatness reference (mr_ref_traj): Euler's equation M = J ω' + ω × Jω for the returned rates,
    for every input — including the degenerate branches, since it is a statement about the outputs -/
section euler
variable (psi psi_dot psi_ddot : ℝ) (v_e a_e j_e s_e : Fin 3 → ℝ) (m g Jx Jy Jz Jxz : ℝ) (w0 w1 w2 d0 d1 d2 : ℝ)

theorem euler_equation_cut :
    mr_ref_traj.mr_ref_traj.M_b_0_cut psi psi_dot psi_ddot v_e a_e j_e s_e m g Jx Jy Jz Jxz w0 w1 w2 d0 d1 d2
      = (Jx * d0 + Jxz * d2) + (w1 * (Jxz * w0 + Jz * w2) - w2 * (Jy * w1))
    ∧ mr_ref_traj.mr_ref_traj.M_b_1_cut psi psi_dot psi_ddot v_e a_e j_e s_e m g Jx Jy Jz Jxz w0 w1 w2 d0 d1 d2
      = Jy * d1 + (w2 * (Jx * w0 + Jxz * w2) - w0 * (Jxz * w0 + Jz * w2))
    ∧ mr_ref_traj.mr_ref_traj.M_b_2_cut psi psi_dot psi_ddot v_e a_e j_e s_e m g Jx Jy Jz Jxz w0 w1 w2 d0 d1 d2
      = (Jxz * d0 + Jz * d2) + (w0 * (Jy * w1) - w1 * (Jx * w0 + Jxz * w2)) := by
  refine ⟨?_, ?_, ?_⟩ <;> simp only [cas_defs, cas_real] <;> ring
end euler

/-- on the real function: the returned moment satisfies Euler's equation for the returned rates -/
theorem euler_equation (psi psi_dot psi_ddot : ℝ) (v_e a_e j_e s_e : Fin 3 → ℝ) (m g Jx Jy Jz Jxz : ℝ) :
    let w := mr_ref_traj.mr_ref_traj.omega_eb_b_vec psi psi_dot psi_ddot v_e a_e j_e s_e m g Jx Jy Jz Jxz
    let d := mr_ref_traj.mr_ref_traj.omega_dot_eb_b_vec psi psi_dot psi_ddot v_e a_e j_e s_e m g Jx Jy Jz Jxz
    mr_ref_traj.mr_ref_traj.M_b_0 psi psi_dot psi_ddot v_e a_e j_e s_e m g Jx Jy Jz Jxz
      = (Jx * d 0 + Jxz * d 2) + (w 1 * (Jxz * w 0 + Jz * w 2) - w 2 * (Jy * w 1))
    ∧ mr_ref_traj.mr_ref_traj.M_b_1 psi psi_dot psi_ddot v_e a_e j_e s_e m g Jx Jy Jz Jxz
      = Jy * d 1 + (w 2 * (Jx * w 0 + Jxz * w 2) - w 0 * (Jxz * w 0 + Jz * w 2))
    ∧ mr_ref_traj.mr_ref_traj.M_b_2 psi psi_dot psi_ddot v_e a_e j_e s_e m g Jx Jy Jz Jxz
      = (Jxz * d 0 + Jz * d 2) + (w 0 * (Jy * w 1) - w 1 * (Jx * w 0 + Jxz * w 2)) := by
  intro w d
  have h := euler_equation_cut psi psi_dot psi_ddot v_e a_e j_e s_e m g Jx Jy Jz Jxz (w 0) (w 1) (w 2) (d 0) (d 1) (d 2)
  rw [mr_ref_traj.mr_ref_traj.M_b_0_cut_eq, mr_ref_traj.mr_ref_traj.M_b_1_cut_eq, mr_ref_traj.mr_ref_traj.M_b_2_cut_eq]
  exact h

/-- the returned thrust magnitude is ‖m (g e₃ − a)‖ clamped below at 1e-6 -/
theorem thrust_magnitude (psi psi_dot psi_ddot : ℝ) (v_e a_e j_e s_e : Fin 3 → ℝ) (m g Jx Jy Jz Jxz : ℝ) :
    mr_ref_traj.mr_ref_traj.T psi psi_dot psi_ddot v_e a_e j_e s_e m g Jx Jy Jz Jxz
      = max (Real.sqrt ((m * a_e 0) * (m * a_e 0) + (m * a_e 1) * (m * a_e 1) + (m * (g - a_e 2)) * (m * (g - a_e 2))))
          (4722366482869645 * 2 ^ (-72:ℤ)) := by
  simp only [cas_defs, cas_real]
  split_ifs with h
  · rw [max_eq_left h.le]
  · rw [max_eq_right (not_lt.mp h)]


/-! ## position_control: frame exposed by probes (T = demanded force, yt = heading angle, yB = body y axis, Rd = matrix handed to
    `SO3Quat.from_Matrix`); the `_cut` programs are the real body between those points -/
section position_control_cut
variable (thrust_trim : ℝ) (pt_w vt_w at_w : Fin 3 → ℝ) (qc_wb : Fin 4 → ℝ) (p_w v_w : Fin 3 → ℝ) (z_i dt : ℝ)
variable (P0 P1 P2 T0 T1 T2 yt y0 y1 y2 : ℝ) (d00 d10 d20 d01 d11 d21 d02 d12 d22 : ℝ)

theorem position_control_Rd_cut_frame :
    (!![rdd2.position_control_p.Rd_0_0_cut thrust_trim pt_w vt_w at_w qc_wb p_w v_w z_i dt P0 P1 P2 T0 T1 T2 yt y0 y1 y2 d00 d10 d20 d01 d11 d21 d02 d12 d22,
        rdd2.position_control_p.Rd_0_1_cut thrust_trim pt_w vt_w at_w qc_wb p_w v_w z_i dt P0 P1 P2 T0 T1 T2 yt y0 y1 y2 d00 d10 d20 d01 d11 d21 d02 d12 d22,
        rdd2.position_control_p.Rd_0_2_cut thrust_trim pt_w vt_w at_w qc_wb p_w v_w z_i dt P0 P1 P2 T0 T1 T2 yt y0 y1 y2 d00 d10 d20 d01 d11 d21 d02 d12 d22;
        rdd2.position_control_p.Rd_1_0_cut thrust_trim pt_w vt_w at_w qc_wb p_w v_w z_i dt P0 P1 P2 T0 T1 T2 yt y0 y1 y2 d00 d10 d20 d01 d11 d21 d02 d12 d22,
        rdd2.position_control_p.Rd_1_1_cut thrust_trim pt_w vt_w at_w qc_wb p_w v_w z_i dt P0 P1 P2 T0 T1 T2 yt y0 y1 y2 d00 d10 d20 d01 d11 d21 d02 d12 d22,
        rdd2.position_control_p.Rd_1_2_cut thrust_trim pt_w vt_w at_w qc_wb p_w v_w z_i dt P0 P1 P2 T0 T1 T2 yt y0 y1 y2 d00 d10 d20 d01 d11 d21 d02 d12 d22;
        rdd2.position_control_p.Rd_2_0_cut thrust_trim pt_w vt_w at_w qc_wb p_w v_w z_i dt P0 P1 P2 T0 T1 T2 yt y0 y1 y2 d00 d10 d20 d01 d11 d21 d02 d12 d22,
        rdd2.position_control_p.Rd_2_1_cut thrust_trim pt_w vt_w at_w qc_wb p_w v_w z_i dt P0 P1 P2 T0 T1 T2 yt y0 y1 y2 d00 d10 d20 d01 d11 d21 d02 d12 d22,
        rdd2.position_control_p.Rd_2_2_cut thrust_trim pt_w vt_w at_w qc_wb p_w v_w z_i dt P0 P1 P2 T0 T1 T2 yt y0 y1 y2 d00 d10 d20 d01 d11 d21 d02 d12 d22] : Matrix (Fin 3) (Fin 3) ℝ)
    = frame ![y0, y1, y2] (zAxis T0 T1 T2) := by
  unfold zAxis frame
  by_cases h : (1152921504606847:ℝ) * 2 ^ (-60:ℤ) < Real.sqrt (T0 * T0 + T1 * T1 + T2 * T2)
  · rw [if_pos h]
    ext i j; fin_cases i <;> fin_cases j <;>
      simp only [cas_defs, cas_real, h, if_true, if_false, not_true_eq_false, not_false_eq_true] <;> simp <;> (try ring1)
  · rw [if_neg h]
    ext i j; fin_cases i <;> fin_cases j <;>
      simp only [cas_defs, cas_real, h, if_true, if_false, not_true_eq_false, not_false_eq_true] <;> simp <;> (try ring1)

theorem position_control_yB_cut :
   ![rdd2.position_control_p.yB_0_cut thrust_trim pt_w vt_w at_w qc_wb p_w v_w z_i dt P0 P1 P2 T0 T1 T2 yt y0 y1 y2 d00 d10 d20 d01 d11 d21 d02 d12 d22,
     rdd2.position_control_p.yB_1_cut thrust_trim pt_w vt_w at_w qc_wb p_w v_w z_i dt P0 P1 P2 T0 T1 T2 yt y0 y1 y2 d00 d10 d20 d01 d11 d21 d02 d12 d22,
     rdd2.position_control_p.yB_2_cut thrust_trim pt_w vt_w at_w qc_wb p_w v_w z_i dt P0 P1 P2 T0 T1 T2 yt y0 y1 y2 d00 d10 d20 d01 d11 d21 d02 d12 d22]
   = yAxis (zAxis T0 T1 T2 0) (zAxis T0 T1 T2 1) (zAxis T0 T1 T2 2) (Real.cos yt) (Real.sin yt) := by
  unfold yAxis zAxis
  by_cases h : (1152921504606847:ℝ) * 2 ^ (-60:ℤ) < Real.sqrt (T0 * T0 + T1 * T1 + T2 * T2)
  · simp only [cas_defs, cas_real, h, if_true, if_false, not_true_eq_false, not_false_eq_true, ne_eq, one_ne_zero, add_zero, zero_add,
      Matrix.cons_val_zero, Matrix.cons_val_one, Matrix.cons_val_two, Matrix.head_cons, Matrix.tail_cons]
    generalize Real.sqrt (T0 * T0 + T1 * T1 + T2 * T2) = n
    split_ifs <;> first | rfl | contradiction
  · simp only [cas_defs, cas_real, h, if_true, if_false, not_true_eq_false, not_false_eq_true, ne_eq, one_ne_zero, add_zero, zero_add,
      Matrix.cons_val_zero, Matrix.cons_val_one, Matrix.cons_val_two, Matrix.head_cons, Matrix.tail_cons]
    simp only [mul_zero, zero_mul, sub_zero, sub_self, one_mul, mul_one, add_zero, zero_add, not_not, zero_div, neg_zero]
    split_ifs <;> rfl

/-- the quaternion output is the library's Shepperd extraction applied to the exposed frame (definitional) -/
theorem position_control_qr_cut (R : Matrix (Fin 3) (Fin 3) ℝ) :
    ![rdd2.position_control_p.qr_wb_0_cut thrust_trim pt_w vt_w at_w qc_wb p_w v_w z_i dt P0 P1 P2 T0 T1 T2 yt y0 y1 y2 (R 0 0) (R 1 0) (R 2 0) (R 0 1) (R 1 1) (R 2 1) (R 0 2) (R 1 2) (R 2 2),
      rdd2.position_control_p.qr_wb_1_cut thrust_trim pt_w vt_w at_w qc_wb p_w v_w z_i dt P0 P1 P2 T0 T1 T2 yt y0 y1 y2 (R 0 0) (R 1 0) (R 2 0) (R 0 1) (R 1 1) (R 2 1) (R 0 2) (R 1 2) (R 2 2),
      rdd2.position_control_p.qr_wb_2_cut thrust_trim pt_w vt_w at_w qc_wb p_w v_w z_i dt P0 P1 P2 T0 T1 T2 yt y0 y1 y2 (R 0 0) (R 1 0) (R 2 0) (R 0 1) (R 1 1) (R 2 1) (R 0 2) (R 1 2) (R 2 2),
      rdd2.position_control_p.qr_wb_3_cut thrust_trim pt_w vt_w at_w qc_wb p_w v_w z_i dt P0 P1 P2 T0 T1 T2 yt y0 y1 y2 (R 0 0) (R 1 0) (R 2 0) (R 0 1) (R 1 1) (R 2 1) (R 0 2) (R 1 2) (R 2 2)]
     = SO3Quat.fromMatrix.r_vec (fun i j => R i j) := by
  funext i; fin_cases i <;> rfl
end position_control_cut

section position_control
variable (thrust_trim : ℝ) (pt_w vt_w at_w : Fin 3 → ℝ) (qc_wb : Fin 4 → ℝ) (p_w v_w : Fin 3 → ℝ) (z_i dt : ℝ)

local notation "PT" i => (rdd2.position_control_p.T_vec thrust_trim pt_w vt_w at_w qc_wb p_w v_w z_i dt) i
local notation "PYT" => rdd2.position_control_p.yt thrust_trim pt_w vt_w at_w qc_wb p_w v_w z_i dt
local notation "PRd" => rdd2.position_control_p.Rd_mat thrust_trim pt_w vt_w at_w qc_wb p_w v_w z_i dt
local notation "PyB" => rdd2.position_control_p.yB_vec thrust_trim pt_w vt_w at_w qc_wb p_w v_w z_i dt
local notation "Pq" => rdd2.position_control_p.qr_wb_vec thrust_trim pt_w vt_w at_w qc_wb p_w v_w z_i dt
local notation "PnT" => rdd2.position_control_p.nT thrust_trim pt_w vt_w at_w qc_wb p_w v_w z_i dt

/-- the frame handed to the quaternion extraction has columns yB × zB, yB, zB with zB the guarded thrust axis -/
theorem position_control_frame : PRd = frame PyB (zAxis (PT 0) (PT 1) (PT 2)) :=
  (show PRd = _ from by ext i j; fin_cases i <;> fin_cases j <;> rfl).trans
    (position_control_Rd_cut_frame thrust_trim pt_w vt_w at_w qc_wb p_w v_w z_i dt 0 0 0 (PT 0) (PT 1) (PT 2) PYT (PyB 0) (PyB 1) (PyB 2) 0 0 0 0 0 0 0 0 0)

theorem position_control_yB : PyB = yAxis (zAxis (PT 0) (PT 1) (PT 2) 0) (zAxis (PT 0) (PT 1) (PT 2) 1) (zAxis (PT 0) (PT 1) (PT 2) 2) (Real.cos PYT) (Real.sin PYT) :=
  (show PyB = _ from by funext i; fin_cases i <;> rfl).trans
    (position_control_yB_cut thrust_trim pt_w vt_w at_w qc_wb p_w v_w z_i dt 0 0 0 (PT 0) (PT 1) (PT 2) PYT 0 0 0 0 0 0 0 0 0 0 0 0)

/-- **position_control**: for EVERY input (zero thrust, thrust parallel to the heading included) the attitude set-point is a proper
    rotation; the returned quaternion is a unit quaternion of exactly that rotation; its third column is the thrust axis
    (the normalised demanded force when ‖T‖ > 1e-3); nT is the norm of the demanded force -/
theorem position_control_setpoint :
    IsRot PRd ∧ qnormSq Pq = 1 ∧ qmat Pq = PRd
      ∧ (∀ i, PRd i 2 = zAxis (PT 0) (PT 1) (PT 2) i)
      ∧ PnT = Real.sqrt ((PT 0) * (PT 0) + (PT 1) * (PT 1) + (PT 2) * (PT 2)) := by
  have hrot : IsRot PRd := by
    rw [position_control_frame, position_control_yB]
    exact frame_yAxis_zAxis_isRot _ _ _ _ _ (by rw [add_comm]; exact Real.sin_sq_add_cos_sq _)
  refine ⟨hrot, ?_, ?_, ?_, ?_⟩
  · have h := (C07.SO3Quat_fromMatrix PRd hrot).1
    rw [← position_control_qr_cut thrust_trim pt_w vt_w at_w qc_wb p_w v_w z_i dt 0 0 0 (PT 0) (PT 1) (PT 2) PYT (PyB 0) (PyB 1) (PyB 2) PRd] at h
    exact h
  · have h := (C07.SO3Quat_fromMatrix PRd hrot).2
    rw [← position_control_qr_cut thrust_trim pt_w vt_w at_w qc_wb p_w v_w z_i dt 0 0 0 (PT 0) (PT 1) (PT 2) PYT (PyB 0) (PyB 1) (PyB 2) PRd] at h
    exact h
  · intro i; rw [position_control_frame]; fin_cases i <;> simp [frame]
  · rfl

/-- above the zero-thrust guard the body z axis times ‖T‖ is the demanded force -/
theorem position_control_zaxis_is_force
    (h : (1152921504606847:ℝ) * 2 ^ (-60:ℤ) < Real.sqrt ((PT 0) * (PT 0) + (PT 1) * (PT 1) + (PT 2) * (PT 2))) (i : Fin 3) :
    PRd i 2 * PnT = ![PT 0, PT 1, PT 2] i := by
  rw [(position_control_setpoint thrust_trim pt_w vt_w at_w qc_wb p_w v_w z_i dt).2.2.2.1 i, (position_control_setpoint thrust_trim pt_w vt_w at_w qc_wb p_w v_w z_i dt).2.2.2.2]
  exact zAxis_main _ _ _ h i

/-- on the main branch (‖zB × xC‖ > 1e-3) the body y axis is perpendicular to the commanded heading direction -/
theorem position_control_y_perp_heading
    (h : (1152921504606847:ℝ) * 2 ^ (-60:ℤ) < Real.sqrt (zAxis (PT 0) (PT 1) (PT 2) 2 * Real.sin PYT * (zAxis (PT 0) (PT 1) (PT 2) 2 * Real.sin PYT)
        + zAxis (PT 0) (PT 1) (PT 2) 2 * Real.cos PYT * (zAxis (PT 0) (PT 1) (PT 2) 2 * Real.cos PYT)
        + (zAxis (PT 0) (PT 1) (PT 2) 0 * Real.sin PYT - zAxis (PT 0) (PT 1) (PT 2) 1 * Real.cos PYT)
          * (zAxis (PT 0) (PT 1) (PT 2) 0 * Real.sin PYT - zAxis (PT 0) (PT 1) (PT 2) 1 * Real.cos PYT))) :
    dot3 (fun i => PRd i 1) ![Real.cos PYT, Real.sin PYT, 0] = 0 := by
  have hy : (fun i => PRd i 1) = PyB := by
    rw [position_control_frame]; funext i; fin_cases i <;> simp [frame]
  rw [hy, position_control_yB]
  exact yAxis_perp_heading _ _ _ _ _ h
end position_control

/-! ## se23_position_control: frame exposed by probes (T = demanded force, yt = heading angle, yB = body y axis, Rd = matrix handed to
    `SO3Quat.from_Matrix`); the `_cut` programs are the real body between those points -/
section se23_position_control_cut
variable (thrust_trim : ℝ) (kp : Fin 3 → ℝ) (zeta : Fin 9 → ℝ) (at_w : Fin 3 → ℝ) (qc_wb : Fin 4 → ℝ) (z_i dt : ℝ)
variable (P0 P1 P2 T0 T1 T2 yt y0 y1 y2 : ℝ) (d00 d10 d20 d01 d11 d21 d02 d12 d22 : ℝ)

theorem se23_position_control_Rd_cut_frame :
    (!![loglinear.se23_position_control_p.Rd_0_0_cut thrust_trim kp zeta at_w qc_wb z_i dt P0 P1 P2 T0 T1 T2 yt y0 y1 y2 d00 d10 d20 d01 d11 d21 d02 d12 d22,
        loglinear.se23_position_control_p.Rd_0_1_cut thrust_trim kp zeta at_w qc_wb z_i dt P0 P1 P2 T0 T1 T2 yt y0 y1 y2 d00 d10 d20 d01 d11 d21 d02 d12 d22,
        loglinear.se23_position_control_p.Rd_0_2_cut thrust_trim kp zeta at_w qc_wb z_i dt P0 P1 P2 T0 T1 T2 yt y0 y1 y2 d00 d10 d20 d01 d11 d21 d02 d12 d22;
        loglinear.se23_position_control_p.Rd_1_0_cut thrust_trim kp zeta at_w qc_wb z_i dt P0 P1 P2 T0 T1 T2 yt y0 y1 y2 d00 d10 d20 d01 d11 d21 d02 d12 d22,
        loglinear.se23_position_control_p.Rd_1_1_cut thrust_trim kp zeta at_w qc_wb z_i dt P0 P1 P2 T0 T1 T2 yt y0 y1 y2 d00 d10 d20 d01 d11 d21 d02 d12 d22,
        loglinear.se23_position_control_p.Rd_1_2_cut thrust_trim kp zeta at_w qc_wb z_i dt P0 P1 P2 T0 T1 T2 yt y0 y1 y2 d00 d10 d20 d01 d11 d21 d02 d12 d22;
        loglinear.se23_position_control_p.Rd_2_0_cut thrust_trim kp zeta at_w qc_wb z_i dt P0 P1 P2 T0 T1 T2 yt y0 y1 y2 d00 d10 d20 d01 d11 d21 d02 d12 d22,
        loglinear.se23_position_control_p.Rd_2_1_cut thrust_trim kp zeta at_w qc_wb z_i dt P0 P1 P2 T0 T1 T2 yt y0 y1 y2 d00 d10 d20 d01 d11 d21 d02 d12 d22,
        loglinear.se23_position_control_p.Rd_2_2_cut thrust_trim kp zeta at_w qc_wb z_i dt P0 P1 P2 T0 T1 T2 yt y0 y1 y2 d00 d10 d20 d01 d11 d21 d02 d12 d22] : Matrix (Fin 3) (Fin 3) ℝ)
    = frame ![y0, y1, y2] (zAxis T0 T1 T2) := by
  unfold zAxis frame
  by_cases h : (1152921504606847:ℝ) * 2 ^ (-60:ℤ) < Real.sqrt (T0 * T0 + T1 * T1 + T2 * T2)
  · rw [if_pos h]
    ext i j; fin_cases i <;> fin_cases j <;>
      simp only [cas_defs, cas_real, h, if_true, if_false, not_true_eq_false, not_false_eq_true] <;> simp <;> (try ring1)
  · rw [if_neg h]
    ext i j; fin_cases i <;> fin_cases j <;>
      simp only [cas_defs, cas_real, h, if_true, if_false, not_true_eq_false, not_false_eq_true] <;> simp <;> (try ring1)

theorem se23_position_control_yB_cut :
   ![loglinear.se23_position_control_p.yB_0_cut thrust_trim kp zeta at_w qc_wb z_i dt P0 P1 P2 T0 T1 T2 yt y0 y1 y2 d00 d10 d20 d01 d11 d21 d02 d12 d22,
     loglinear.se23_position_control_p.yB_1_cut thrust_trim kp zeta at_w qc_wb z_i dt P0 P1 P2 T0 T1 T2 yt y0 y1 y2 d00 d10 d20 d01 d11 d21 d02 d12 d22,
     loglinear.se23_position_control_p.yB_2_cut thrust_trim kp zeta at_w qc_wb z_i dt P0 P1 P2 T0 T1 T2 yt y0 y1 y2 d00 d10 d20 d01 d11 d21 d02 d12 d22]
   = yAxis (zAxis T0 T1 T2 0) (zAxis T0 T1 T2 1) (zAxis T0 T1 T2 2) (Real.cos yt) (Real.sin yt) := by
  unfold yAxis zAxis
  by_cases h : (1152921504606847:ℝ) * 2 ^ (-60:ℤ) < Real.sqrt (T0 * T0 + T1 * T1 + T2 * T2)
  · simp only [cas_defs, cas_real, h, if_true, if_false, not_true_eq_false, not_false_eq_true, ne_eq, one_ne_zero, add_zero, zero_add,
      Matrix.cons_val_zero, Matrix.cons_val_one, Matrix.cons_val_two, Matrix.head_cons, Matrix.tail_cons]
    generalize Real.sqrt (T0 * T0 + T1 * T1 + T2 * T2) = n
    split_ifs <;> first | rfl | contradiction
  · simp only [cas_defs, cas_real, h, if_true, if_false, not_true_eq_false, not_false_eq_true, ne_eq, one_ne_zero, add_zero, zero_add,
      Matrix.cons_val_zero, Matrix.cons_val_one, Matrix.cons_val_two, Matrix.head_cons, Matrix.tail_cons]
    simp only [mul_zero, zero_mul, sub_zero, sub_self, one_mul, mul_one, add_zero, zero_add, not_not, zero_div, neg_zero]
    split_ifs <;> rfl

/-- the quaternion output is the library's Shepperd extraction applied to the exposed frame (definitional) -/
theorem se23_position_control_qr_cut (R : Matrix (Fin 3) (Fin 3) ℝ) :
    ![loglinear.se23_position_control_p.qr_wb_0_cut thrust_trim kp zeta at_w qc_wb z_i dt P0 P1 P2 T0 T1 T2 yt y0 y1 y2 (R 0 0) (R 1 0) (R 2 0) (R 0 1) (R 1 1) (R 2 1) (R 0 2) (R 1 2) (R 2 2),
      loglinear.se23_position_control_p.qr_wb_1_cut thrust_trim kp zeta at_w qc_wb z_i dt P0 P1 P2 T0 T1 T2 yt y0 y1 y2 (R 0 0) (R 1 0) (R 2 0) (R 0 1) (R 1 1) (R 2 1) (R 0 2) (R 1 2) (R 2 2),
      loglinear.se23_position_control_p.qr_wb_2_cut thrust_trim kp zeta at_w qc_wb z_i dt P0 P1 P2 T0 T1 T2 yt y0 y1 y2 (R 0 0) (R 1 0) (R 2 0) (R 0 1) (R 1 1) (R 2 1) (R 0 2) (R 1 2) (R 2 2),
      loglinear.se23_position_control_p.qr_wb_3_cut thrust_trim kp zeta at_w qc_wb z_i dt P0 P1 P2 T0 T1 T2 yt y0 y1 y2 (R 0 0) (R 1 0) (R 2 0) (R 0 1) (R 1 1) (R 2 1) (R 0 2) (R 1 2) (R 2 2)]
     = SO3Quat.fromMatrix.r_vec (fun i j => R i j) := by
  funext i; fin_cases i <;> rfl
end se23_position_control_cut

section se23_position_control
variable (thrust_trim : ℝ) (kp : Fin 3 → ℝ) (zeta : Fin 9 → ℝ) (at_w : Fin 3 → ℝ) (qc_wb : Fin 4 → ℝ) (z_i dt : ℝ)

local notation "PT" i => (loglinear.se23_position_control_p.T_vec thrust_trim kp zeta at_w qc_wb z_i dt) i
local notation "PYT" => loglinear.se23_position_control_p.yt thrust_trim kp zeta at_w qc_wb z_i dt
local notation "PRd" => loglinear.se23_position_control_p.Rd_mat thrust_trim kp zeta at_w qc_wb z_i dt
local notation "PyB" => loglinear.se23_position_control_p.yB_vec thrust_trim kp zeta at_w qc_wb z_i dt
local notation "Pq" => loglinear.se23_position_control_p.qr_wb_vec thrust_trim kp zeta at_w qc_wb z_i dt
local notation "PnT" => loglinear.se23_position_control_p.nT thrust_trim kp zeta at_w qc_wb z_i dt

/-- the frame handed to the quaternion extraction has columns yB × zB, yB, zB with zB the guarded thrust axis -/
theorem se23_position_control_frame : PRd = frame PyB (zAxis (PT 0) (PT 1) (PT 2)) :=
  (show PRd = _ from by ext i j; fin_cases i <;> fin_cases j <;> rfl).trans
    (se23_position_control_Rd_cut_frame thrust_trim kp zeta at_w qc_wb z_i dt 0 0 0 (PT 0) (PT 1) (PT 2) PYT (PyB 0) (PyB 1) (PyB 2) 0 0 0 0 0 0 0 0 0)

theorem se23_position_control_yB : PyB = yAxis (zAxis (PT 0) (PT 1) (PT 2) 0) (zAxis (PT 0) (PT 1) (PT 2) 1) (zAxis (PT 0) (PT 1) (PT 2) 2) (Real.cos PYT) (Real.sin PYT) :=
  (show PyB = _ from by funext i; fin_cases i <;> rfl).trans
    (se23_position_control_yB_cut thrust_trim kp zeta at_w qc_wb z_i dt 0 0 0 (PT 0) (PT 1) (PT 2) PYT 0 0 0 0 0 0 0 0 0 0 0 0)

/-- **se23_position_control**: for EVERY input (zero thrust, thrust parallel to the heading included) the attitude set-point is a proper
    rotation; the returned quaternion is a unit quaternion of exactly that rotation; its third column is the thrust axis
    (the normalised demanded force when ‖T‖ > 1e-3); nT is the norm of the demanded force -/
theorem se23_position_control_setpoint :
    IsRot PRd ∧ qnormSq Pq = 1 ∧ qmat Pq = PRd
      ∧ (∀ i, PRd i 2 = zAxis (PT 0) (PT 1) (PT 2) i)
      ∧ PnT = Real.sqrt ((PT 0) * (PT 0) + (PT 1) * (PT 1) + (PT 2) * (PT 2)) := by
  have hrot : IsRot PRd := by
    rw [se23_position_control_frame, se23_position_control_yB]
    exact frame_yAxis_zAxis_isRot _ _ _ _ _ (by rw [add_comm]; exact Real.sin_sq_add_cos_sq _)
  refine ⟨hrot, ?_, ?_, ?_, ?_⟩
  · have h := (C07.SO3Quat_fromMatrix PRd hrot).1
    rw [← se23_position_control_qr_cut thrust_trim kp zeta at_w qc_wb z_i dt 0 0 0 (PT 0) (PT 1) (PT 2) PYT (PyB 0) (PyB 1) (PyB 2) PRd] at h
    exact h
  · have h := (C07.SO3Quat_fromMatrix PRd hrot).2
    rw [← se23_position_control_qr_cut thrust_trim kp zeta at_w qc_wb z_i dt 0 0 0 (PT 0) (PT 1) (PT 2) PYT (PyB 0) (PyB 1) (PyB 2) PRd] at h
    exact h
  · intro i; rw [se23_position_control_frame]; fin_cases i <;> simp [frame]
  · rfl

/-- above the zero-thrust guard the body z axis times ‖T‖ is the demanded force -/
theorem se23_position_control_zaxis_is_force
    (h : (1152921504606847:ℝ) * 2 ^ (-60:ℤ) < Real.sqrt ((PT 0) * (PT 0) + (PT 1) * (PT 1) + (PT 2) * (PT 2))) (i : Fin 3) :
    PRd i 2 * PnT = ![PT 0, PT 1, PT 2] i := by
  rw [(se23_position_control_setpoint thrust_trim kp zeta at_w qc_wb z_i dt).2.2.2.1 i, (se23_position_control_setpoint thrust_trim kp zeta at_w qc_wb z_i dt).2.2.2.2]
  exact zAxis_main _ _ _ h i

/-- on the main branch (‖zB × xC‖ > 1e-3) the body y axis is perpendicular to the commanded heading direction -/
theorem se23_position_control_y_perp_heading
    (h : (1152921504606847:ℝ) * 2 ^ (-60:ℤ) < Real.sqrt (zAxis (PT 0) (PT 1) (PT 2) 2 * Real.sin PYT * (zAxis (PT 0) (PT 1) (PT 2) 2 * Real.sin PYT)
        + zAxis (PT 0) (PT 1) (PT 2) 2 * Real.cos PYT * (zAxis (PT 0) (PT 1) (PT 2) 2 * Real.cos PYT)
        + (zAxis (PT 0) (PT 1) (PT 2) 0 * Real.sin PYT - zAxis (PT 0) (PT 1) (PT 2) 1 * Real.cos PYT)
          * (zAxis (PT 0) (PT 1) (PT 2) 0 * Real.sin PYT - zAxis (PT 0) (PT 1) (PT 2) 1 * Real.cos PYT))) :
    dot3 (fun i => PRd i 1) ![Real.cos PYT, Real.sin PYT, 0] = 0 := by
  have hy : (fun i => PRd i 1) = PyB := by
    rw [se23_position_control_frame]; funext i; fin_cases i <;> simp [frame]
  rw [hy, se23_position_control_yB]
  exact yAxis_perp_heading _ _ _ _ _ h
end se23_position_control


/-! ## flatness reference (mr_ref_traj) on its main branch: ‖thrust‖ > 1e-6 and ‖z_b × x_c‖ > 1e-6.
    (The degenerate branches are recorded findings: thrust below the clamp leaves z_b non-unit, the y_h fallback is not
    perpendicular to z_b.) -/
section mr
variable (psi psi_dot psi_ddot : ℝ) (v_e a_e j_e s_e : Fin 3 → ℝ) (m g Jx Jy Jz Jxz : ℝ)

local notation "tol6" => ((4722366482869645:ℝ) * 2 ^ (-72:ℤ))
/-- the demanded force m (g e₃ − a) -/
def thrust (m g : ℝ) (a_e : Fin 3 → ℝ) : Fin 3 → ℝ := ![-(m * a_e 0), -(m * a_e 1), m * (g - a_e 2)]
/-- its direction -/
noncomputable def zb (m g : ℝ) (a_e : Fin 3 → ℝ) : Fin 3 → ℝ := fun i => thrust m g a_e i / Real.sqrt (nsq (thrust m g a_e))
/-- (z_b × x_c)/‖z_b × x_c‖ with x_c = (cos ψ, sin ψ, 0) -/
noncomputable def yb (m g : ℝ) (a_e : Fin 3 → ℝ) (psi : ℝ) : Fin 3 → ℝ :=
  fun i => w (zb m g a_e) (Real.cos psi) (Real.sin psi) i / Real.sqrt (nsq (w (zb m g a_e) (Real.cos psi) (Real.sin psi)))

local notation "MC" => mr_ref_traj.mr_ref_traj.C_be_mat psi psi_dot psi_ddot v_e a_e j_e s_e m g Jx Jy Jz Jxz
local notation "MW" => mr_ref_traj.mr_ref_traj.omega_eb_b_vec psi psi_dot psi_ddot v_e a_e j_e s_e m g Jx Jy Jz Jxz
local notation "MT" => mr_ref_traj.mr_ref_traj.T psi psi_dot psi_ddot v_e a_e j_e s_e m g Jx Jy Jz Jxz

theorem thrust_nsq_shape : nsq (thrust m g a_e) = m * a_e 0 * (m * a_e 0) + m * a_e 1 * (m * a_e 1) + m * (g - a_e 2) * (m * (g - a_e 2)) := by
  simp [nsq, thrust]; ring

theorem w_nsq_shape : nsq (w (fun i => thrust m g a_e i / Real.sqrt (m * a_e 0 * (m * a_e 0) + m * a_e 1 * (m * a_e 1) + m * (g - a_e 2) * (m * (g - a_e 2)))) (Real.cos psi) (Real.sin psi))
      = m * (g - a_e 2) / Real.sqrt (m * a_e 0 * (m * a_e 0) + m * a_e 1 * (m * a_e 1) + m * (g - a_e 2) * (m * (g - a_e 2))) * Real.sin psi * (m * (g - a_e 2) / Real.sqrt (m * a_e 0 * (m * a_e 0) + m * a_e 1 * (m * a_e 1) + m * (g - a_e 2) * (m * (g - a_e 2))) * Real.sin psi) +
          m * (g - a_e 2) / Real.sqrt (m * a_e 0 * (m * a_e 0) + m * a_e 1 * (m * a_e 1) + m * (g - a_e 2) * (m * (g - a_e 2))) * Real.cos psi * (m * (g - a_e 2) / Real.sqrt (m * a_e 0 * (m * a_e 0) + m * a_e 1 * (m * a_e 1) + m * (g - a_e 2) * (m * (g - a_e 2))) * Real.cos psi) +
        (m * a_e 1 / Real.sqrt (m * a_e 0 * (m * a_e 0) + m * a_e 1 * (m * a_e 1) + m * (g - a_e 2) * (m * (g - a_e 2))) * Real.cos psi - m * a_e 0 / Real.sqrt (m * a_e 0 * (m * a_e 0) + m * a_e 1 * (m * a_e 1) + m * (g - a_e 2) * (m * (g - a_e 2))) * Real.sin psi) * (m * a_e 1 / Real.sqrt (m * a_e 0 * (m * a_e 0) + m * a_e 1 * (m * a_e 1) + m * (g - a_e 2) * (m * (g - a_e 2))) * Real.cos psi - m * a_e 0 / Real.sqrt (m * a_e 0 * (m * a_e 0) + m * a_e 1 * (m * a_e 1) + m * (g - a_e 2) * (m * (g - a_e 2))) * Real.sin psi) := by
  generalize Real.sqrt (m * a_e 0 * (m * a_e 0) + m * a_e 1 * (m * a_e 1) + m * (g - a_e 2) * (m * (g - a_e 2))) = n
  simp [nsq, w, thrust]; ring

/-- the returned matrix has columns y_b × z_b, y_b, z_b -/
theorem mr_frame_main
    (h1 : tol6 < Real.sqrt (nsq (thrust m g a_e)))
    (h2 : tol6 < Real.sqrt (nsq (w (zb m g a_e) (Real.cos psi) (Real.sin psi)))) :
    MC = frame (yb m g a_e psi) (zb m g a_e) := by
  unfold yb zb at *
  rw [thrust_nsq_shape] at h1 h2 ⊢
  rw [w_nsq_shape] at h2 ⊢
  ext i j; fin_cases i <;> fin_cases j <;>
    simp only [cas_defs, cas_real, h1, h2, if_true, if_false, not_true_eq_false, not_false_eq_true, ne_eq, one_ne_zero, add_zero, zero_add, not_not] <;>
    generalize Real.sqrt (m * a_e 0 * (m * a_e 0) + m * a_e 1 * (m * a_e 1) + m * (g - a_e 2) * (m * (g - a_e 2))) = n <;>
    simp [frame, w, thrust] <;> ring

/-- **mr_ref_traj, main branch**: proper rotation, body z axis = normalised demanded force, body y axis perpendicular to the
    heading vector, returned thrust = ‖m (g e₃ − a)‖ -/
theorem mr_setpoint_main
    (h1 : tol6 < Real.sqrt (nsq (thrust m g a_e)))
    (h2 : tol6 < Real.sqrt (nsq (w (zb m g a_e) (Real.cos psi) (Real.sin psi)))) :
    IsRot MC ∧ (∀ i, MC i 2 = thrust m g a_e i / Real.sqrt (nsq (thrust m g a_e)))
      ∧ dot3 (fun i => MC i 1) ![Real.cos psi, Real.sin psi, 0] = 0
      ∧ MT = Real.sqrt (nsq (thrust m g a_e)) := by
  have hn : 0 < Real.sqrt (nsq (thrust m g a_e)) := lt_trans (by norm_num) h1
  have hz : nsq (zb m g a_e) = 1 := nsq_div _ _ (Real.sq_sqrt (nsq_nonneg _)) (ne_of_gt hn)
  have hny : 0 < Real.sqrt (nsq (w (zb m g a_e) (Real.cos psi) (Real.sin psi))) := lt_trans (by norm_num) h2
  rw [mr_frame_main psi psi_dot psi_ddot v_e a_e j_e s_e m g Jx Jy Jz Jxz h1 h2]
  refine ⟨main_isRot _ _ _ _ hz (Real.sq_sqrt (nsq_nonneg _)) (ne_of_gt hny), ?_, ?_, ?_⟩
  · intro i; fin_cases i <;> simp [frame, zb]
  · have : (fun i => frame (yb m g a_e psi) (zb m g a_e) i 1) = yb m g a_e psi := by
      funext i; fin_cases i <;> simp [frame]
    rw [this]
    exact main_y_perp_heading _ _ _ _
  · rw [thrust_magnitude, thrust_nsq_shape]
    exact max_eq_left (by rw [thrust_nsq_shape] at h1; exact h1.le)

/-- the returned roll and pitch rates: p = (m/‖thrust‖) j·y_b, q = −(m/‖thrust‖) j·x_b -/
theorem mr_rates_main
    (h1 : tol6 < Real.sqrt (nsq (thrust m g a_e)))
    (h2 : tol6 < Real.sqrt (nsq (w (zb m g a_e) (Real.cos psi) (Real.sin psi)))) :
    MW 0 = m / Real.sqrt (nsq (thrust m g a_e)) * dot3 j_e (yb m g a_e psi)
    ∧ MW 1 = -(m / Real.sqrt (nsq (thrust m g a_e)) * dot3 j_e (cross (yb m g a_e psi) (zb m g a_e))) := by
  unfold yb zb at *
  rw [thrust_nsq_shape] at h1 h2 ⊢
  rw [w_nsq_shape] at h2 ⊢
  constructor <;>
    simp only [cas_defs, cas_real, h1, h2, if_true, if_false, not_true_eq_false, not_false_eq_true, ne_eq, one_ne_zero, add_zero, zero_add, not_not] <;>
    generalize Real.sqrt (m * a_e 0 * (m * a_e 0) + m * a_e 1 * (m * a_e 1) + m * (g - a_e 2) * (m * (g - a_e 2))) = n <;>
    simp [w, thrust, dot3, cross] <;> ring

/-- **the rates are the true rotation rate of the thrust axis along the trajectory**: for any differentiable acceleration
    curve a(τ) with a'(t) = j, the thrust direction z_b(τ) = u(τ)/‖u(τ)‖, u = m (g e₃ − a), is differentiable at t and the
    returned p, q are −y_b·ż_b and x_b·ż_b -/
theorem mr_rates_true (a : ℝ → Fin 3 → ℝ) (t : ℝ) (ha : ∀ i, HasDerivAt (fun τ => a τ i) (j_e i) t) (hat : a t = a_e)
    (h1 : tol6 < Real.sqrt (nsq (thrust m g a_e)))
    (h2 : tol6 < Real.sqrt (nsq (w (zb m g a_e) (Real.cos psi) (Real.sin psi)))) :
    ∃ zd : Fin 3 → ℝ, (∀ i, HasDerivAt (fun τ => zb m g (a τ) i) (zd i) t)
      ∧ MW 0 = -dot3 (yb m g a_e psi) zd ∧ MW 1 = dot3 (cross (yb m g a_e psi) (zb m g a_e)) zd := by
  have hn : 0 < Real.sqrt (nsq (thrust m g a_e)) := lt_trans (by norm_num) h1
  have hn0 : nsq (thrust m g a_e) ≠ 0 := ne_of_gt (Real.sqrt_pos.mp hn)
  have hz : nsq (zb m g a_e) = 1 := nsq_div _ _ (Real.sq_sqrt (nsq_nonneg _)) (ne_of_gt hn)
  have hny : 0 < Real.sqrt (nsq (w (zb m g a_e) (Real.cos psi) (Real.sin psi))) := lt_trans (by norm_num) h2
  -- u' = −m j
  have hu : ∀ i, HasDerivAt (fun τ => thrust m g (a τ) i) (![-(m * j_e 0), -(m * j_e 1), -(m * j_e 2)] i) t := by
    intro i; fin_cases i
    · show HasDerivAt (fun τ => -(m * a τ 0)) (-(m * j_e 0)) t
      exact ((ha 0).const_mul m).neg
    · show HasDerivAt (fun τ => -(m * a τ 1)) (-(m * j_e 1)) t
      exact ((ha 1).const_mul m).neg
    · show HasDerivAt (fun τ => m * (g - a τ 2)) (-(m * j_e 2)) t
      have := ((ha 2).const_sub g).const_mul m
      refine this.congr_deriv (by ring)
  have hd := hasDerivAt_direction (fun τ => thrust m g (a τ)) _ t hu (by simpa [hat] using hn0)
  simp only [hat] at hd
  have hyz : dot3 (yb m g a_e psi) (zb m g a_e) = 0 := dot3_div_left _ _ _ (w_perp_z _ _ _)
  have hx : dot3 (cross (yb m g a_e psi) (zb m g a_e)) (zb m g a_e) = 0 := by simp [dot3, cross]; ring
  refine ⟨fun i => (![-(m * j_e 0), -(m * j_e 1), -(m * j_e 2)] i - zb m g a_e i * dot3 (zb m g a_e) ![-(m * j_e 0), -(m * j_e 1), -(m * j_e 2)])
      / Real.sqrt (nsq (thrust m g a_e)), fun i => hd i, ?_, ?_⟩
  · rw [(rates_of_direction _ _ (zb m g a_e) _ _ hyz hx).1,
      (mr_rates_main psi psi_dot psi_ddot v_e a_e j_e s_e m g Jx Jy Jz Jxz h1 h2).1]
    simp [dot3]; ring
  · rw [(rates_of_direction _ _ (zb m g a_e) _ _ hyz hx).2,
      (mr_rates_main psi psi_dot psi_ddot v_e a_e j_e s_e m g Jx Jy Jz Jxz h1 h2).2]
    simp [dot3]; ring

/-- non-vacuity: hover (a = 0) with heading 0 at m = 2, g = 9.8 is on the main branch -/
example : tol6 < Real.sqrt (nsq (thrust 2 9.8 ![0, 0, 0])) := by
  have : nsq (thrust 2 9.8 ![0, 0, 0]) = 19.6 ^ 2 := by simp [nsq, thrust]; norm_num
  rw [this, Real.sqrt_sq (by norm_num)]; norm_num
end mr

end C14
