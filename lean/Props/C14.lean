/-
  Props/C14.lean — attitude set-points: the Euler helper returns a unit quaternion of the same
  rotation (all angles, via the Shepperd theorem of C07); the flatness reference satisfies Euler's
  equation for the rates it returns, for every input (peeled program); structure of the returned
  thrust magnitude.  The frame properties of the large controller programs are explored numerically.
-/
import GenM.Ref
import GenM.SO3
import Props.C07

set_option maxHeartbeats 4000000
open Gen Rot

namespace C14

/-! ## Euler (3-2-1) → quaternion helper: proper rotation for EVERY yaw, pitch, roll (gimbal poles included) -/
theorem e2q_spec (y p r : ℝ) : bezier.eulerB321_to_quat.q_vec y p r = SO3Quat.from_Euler.r_vec ![y, p, r] := by
  funext i; fin_cases i <;> simp [cas_defs, cas_real] <;> (try ring1)

theorem eulerB321_to_quat_proper (y p r : ℝ) :
    qnormSq (bezier.eulerB321_to_quat.q_vec y p r) = 1
      ∧ qmat (bezier.eulerB321_to_quat.q_vec y p r) = SO3Euler.toMatrix.M_mat ![y, p, r] := by
  rw [e2q_spec]
  obtain ⟨h1, h2⟩ := C07.Quat_from_Euler ![y, p, r]
  exact ⟨h1, by rw [← C07.SO3Quat_toMatrix_spec]; exact h2⟩

/-! ## flatness reference (mr_ref_traj): Euler's equation M = J ω' + ω × Jω for the returned rates,
    for every input — including the degenerate branches, since it is a statement about the outputs -/
section euler
variable (psi psi_dot psi_ddot : ℝ) (v_e a_e j_e s_e : Fin 3 → ℝ) (m g Jx Jy Jz Jxz : ℝ) (w0 w1 w2 d0 d1 d2 : ℝ)

theorem euler_equation_cut :
    mr_ref_traj.mr_ref_traj.M_b_0_cut psi psi_dot psi_ddot v_e a_e j_e s_e m g Jx Jy Jz Jxz w0 w1 w2 d0 d1 d2
      = (Jx * d0 + Jxz * d2) + (w1 * (Jxz * w0 + Jz * w2) - w2 * (Jy * w1))
    ∧ mr_ref_traj.mr_ref_traj.M_b_1_cut psi psi_dot psi_ddot v_e a_e j_e s_e m g Jx Jy Jz Jxz w0 w1 w2 d0 d1 d2
      = Jy * d1 + (w2 * (Jx * w0 + Jxz * w2) - w0 * (Jxz * w0 + Jz * w2))
    ∧ mr_ref_traj.mr_ref_traj.M_b_2_cut psi psi_dot psi_ddot v_e a_e j_e s_e m g Jx Jy Jz Jxz w0 w1 w2 d0 d1 d2
      = (Jxz * d0 + Jz * d2) + (w0 * (Jy * w1) - w1 * (Jx * w0 + Jxz * w2)) := by
  refine ⟨?_, ?_, ?_⟩ <;> simp only [cas_defs, cas_real] <;> ring
end euler

/-- on the real function: the returned moment satisfies Euler's equation for the returned rates -/
theorem euler_equation (psi psi_dot psi_ddot : ℝ) (v_e a_e j_e s_e : Fin 3 → ℝ) (m g Jx Jy Jz Jxz : ℝ) :
    let w := mr_ref_traj.mr_ref_traj.omega_eb_b_vec psi psi_dot psi_ddot v_e a_e j_e s_e m g Jx Jy Jz Jxz
    let d := mr_ref_traj.mr_ref_traj.omega_dot_eb_b_vec psi psi_dot psi_ddot v_e a_e j_e s_e m g Jx Jy Jz Jxz
    mr_ref_traj.mr_ref_traj.M_b_0 psi psi_dot psi_ddot v_e a_e j_e s_e m g Jx Jy Jz Jxz
      = (Jx * d 0 + Jxz * d 2) + (w 1 * (Jxz * w 0 + Jz * w 2) - w 2 * (Jy * w 1))
    ∧ mr_ref_traj.mr_ref_traj.M_b_1 psi psi_dot psi_ddot v_e a_e j_e s_e m g Jx Jy Jz Jxz
      = Jy * d 1 + (w 2 * (Jx * w 0 + Jxz * w 2) - w 0 * (Jxz * w 0 + Jz * w 2))
    ∧ mr_ref_traj.mr_ref_traj.M_b_2 psi psi_dot psi_ddot v_e a_e j_e s_e m g Jx Jy Jz Jxz
      = (Jxz * d 0 + Jz * d 2) + (w 0 * (Jy * w 1) - w 1 * (Jx * w 0 + Jxz * w 2)) := by
  intro w d
  have h := euler_equation_cut psi psi_dot psi_ddot v_e a_e j_e s_e m g Jx Jy Jz Jxz (w 0) (w 1) (w 2) (d 0) (d 1) (d 2)
  rw [mr_ref_traj.mr_ref_traj.M_b_0_cut_eq, mr_ref_traj.mr_ref_traj.M_b_1_cut_eq, mr_ref_traj.mr_ref_traj.M_b_2_cut_eq]
  exact h

/-- the returned thrust magnitude is ‖m (g e₃ − a)‖ clamped below at 1e-6 -/
theorem thrust_magnitude (psi psi_dot psi_ddot : ℝ) (v_e a_e j_e s_e : Fin 3 → ℝ) (m g Jx Jy Jz Jxz : ℝ) :
    mr_ref_traj.mr_ref_traj.T psi psi_dot psi_ddot v_e a_e j_e s_e m g Jx Jy Jz Jxz
      = max (Real.sqrt ((m * a_e 0) * (m * a_e 0) + (m * a_e 1) * (m * a_e 1) + (m * (g - a_e 2)) * (m * (g - a_e 2))))
          (4722366482869645 * 2 ^ (-72:ℤ)) := by
  simp only [cas_defs, cas_real]
  split_ifs with h
  · rw [max_eq_left h.le]
  · rw [max_eq_right (not_lt.mp h)]

end C14
