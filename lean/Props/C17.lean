/-
  Props/C17.lean — interface theorems of the control cascade (PARTIAL: closed-loop convergence is not a theorem,
  see DESIGN.md §2 C17): the plant's rotor geometry (cyecca/models/quadrotor.py) realises the moment the allocator
  (cyecca/models/rdd2.py) asks for, axis by axis, with POSITIVE gains — no sign or axis mismatch between the two
  independently written modules.
-/
import GenM.Quad
import GenM.Ctrl
import GenM.RefP
import Props.C13
import Props.C14
import Props.C15
import Props.C16
import Mathlib.Tactic.Ring
import Mathlib.Tactic.Linarith
import Mathlib.Analysis.SpecialFunctions.Trigonometric.Basic

set_option maxHeartbeats 4000000
open Gen Rot Triad

namespace C17

/-- body moment produced by the plant (whatever the motor COMMAND u: only the actual rotor speeds count) for motor forces Fᵢ = CT·ωᵢ², with the shipped rotor geometry
    (arm angles −π/4, 3π/4, π/4, −3π/4, spin directions +,+,−,−, equal arms l) and no aerodynamic moment
    coefficients: the rows of the allocator's geometry map, scaled by (√2/2)·l, (√2/2)·l and CM.
    Indices: p 2..5 spin directions, p 6..9 arms, p 10..13 arm angles, p 14 CT, p 15 CM, p 16..18 aerodynamic moment
    coefficients; x 13..16 motor speeds (checked against model["p_index"], model["x_index"] by the harness). -/
theorem plant_moment (x : Fin 17 → ℝ) (u : Fin 4 → ℝ) (p : Fin 39 → ℝ) (r l : ℝ)
    (hc0 : Real.cos (p 10) = r) (hs0 : Real.sin (p 10) = -r) (hc1 : Real.cos (p 11) = -r) (hs1 : Real.sin (p 11) = r)
    (hc2 : Real.cos (p 12) = r) (hs2 : Real.sin (p 12) = r) (hc3 : Real.cos (p 13) = -r) (hs3 : Real.sin (p 13) = -r)
    (hd : p 2 = 1 ∧ p 3 = 1 ∧ p 4 = -1 ∧ p 5 = -1) (hl : p 6 = l ∧ p 7 = l ∧ p 8 = l ∧ p 9 = l)
    (ha : p 16 = 0 ∧ p 17 = 0 ∧ p 18 = 0) :
    let F : Fin 4 → ℝ := fun i => p 14 * (x (Fin.natAdd 13 i)) ^ 2
    quadrotor.M_b.M_b_0 x u p = r * l * (-F 0 + F 1 + F 2 - F 3)
    ∧ quadrotor.M_b.M_b_1 x u p = r * l * (-F 0 + F 1 - F 2 + F 3)
    ∧ quadrotor.M_b.M_b_2 x u p = p 15 * (-F 0 - F 1 + F 2 + F 3) := by
  obtain ⟨d0, d1, d2, d3⟩ := hd
  obtain ⟨l0, l1, l2, l3⟩ := hl
  obtain ⟨a0, a1, a2⟩ := ha
  intro F
  have e0 : x (Fin.natAdd 13 (0 : Fin 4)) = x 13 := rfl
  have e1 : x (Fin.natAdd 13 (1 : Fin 4)) = x 14 := rfl
  have e2 : x (Fin.natAdd 13 (2 : Fin 4)) = x 15 := rfl
  have e3 : x (Fin.natAdd 13 (3 : Fin 4)) = x 16 := rfl
  refine ⟨?_, ?_, ?_⟩ <;>
    simp only [cas_defs, cas_real, F, e0, e1, e2, e3, hc0, hs0, hc1, hs1, hc2, hs2, hc3, hs3, d0, d1, d2, d3, l0, l1, l2, l3, a0, a1, a2] <;>
    ring

open Gen.rdd2.control_allocation in
/-- allocator → plant: if the motors run at the speeds the allocator commands (the fixed point of the first-order
    motor model) and the demanded moment is achievable together with some thrust, the plant's body moment is the
    range-limited demanded moment scaled by (√2/2, √2/2, 1): same axes, same signs, positive gains -/
theorem cascade_moment (x : Fin 17 → ℝ) (u : Fin 4 → ℝ) (p : Fin 39 → ℝ) (r l Fmax T : ℝ) (M : Fin 3 → ℝ)
    (hc0 : Real.cos (p 10) = r) (hs0 : Real.sin (p 10) = -r) (hc1 : Real.cos (p 11) = -r) (hs1 : Real.sin (p 11) = r)
    (hc2 : Real.cos (p 12) = r) (hs2 : Real.sin (p 12) = r) (hc3 : Real.cos (p 13) = -r) (hs3 : Real.sin (p 13) = -r)
    (hd : p 2 = 1 ∧ p 3 = 1 ∧ p 4 = -1 ∧ p 5 = -1) (hl : p 6 = l ∧ p 7 = l ∧ p 8 = l ∧ p 9 = l)
    (ha : p 16 = 0 ∧ p 17 = 0 ∧ p 18 = 0)
    (hF : 0 ≤ Fmax) (hCt : 0 < p 14) (hl0 : l ≠ 0) (hCm : p 15 ≠ 0)
    (hw0 : x 13 = omega_0 Fmax l (p 15) (p 14) T M) (hw1 : x 14 = omega_1 Fmax l (p 15) (p 14) T M)
    (hw2 : x 15 = omega_2 Fmax l (p 15) (p 14) T M) (hw3 : x 16 = omega_3 Fmax l (p 15) (p 14) T M)
    (hsp : C13.mx (F_moment_0 Fmax l (p 15) (p 14) T M + F_thrust_0 Fmax l (p 15) (p 14) T M) (F_moment_1 Fmax l (p 15) (p 14) T M + F_thrust_0 Fmax l (p 15) (p 14) T M)
              (F_moment_2 Fmax l (p 15) (p 14) T M + F_thrust_0 Fmax l (p 15) (p 14) T M) (F_moment_3 Fmax l (p 15) (p 14) T M + F_thrust_0 Fmax l (p 15) (p 14) T M)
          - C13.mn (F_moment_0 Fmax l (p 15) (p 14) T M + F_thrust_0 Fmax l (p 15) (p 14) T M) (F_moment_1 Fmax l (p 15) (p 14) T M + F_thrust_0 Fmax l (p 15) (p 14) T M)
              (F_moment_2 Fmax l (p 15) (p 14) T M + F_thrust_0 Fmax l (p 15) (p 14) T M) (F_moment_3 Fmax l (p 15) (p 14) T M + F_thrust_0 Fmax l (p 15) (p 14) T M) ≤ Fmax) :
    quadrotor.M_b.M_b_0 x u p = r * M_sat_0 Fmax l (p 15) (p 14) T M
    ∧ quadrotor.M_b.M_b_1 x u p = r * M_sat_1 Fmax l (p 15) (p 14) T M
    ∧ quadrotor.M_b.M_b_2 x u p = M_sat_2 Fmax l (p 15) (p 14) T M := by
  obtain ⟨m0, m1, m2⟩ := plant_moment x u p r l hc0 hs0 hc1 hs1 hc2 hs2 hc3 hs3 hd hl ha
  obtain ⟨g0, g1, g2⟩ := C13.realised_moment Fmax l (p 15) (p 14) T M hl0 hCm hsp
  have sq : ∀ (w Fp : ℝ), w = Real.sqrt (Fp / p 14) → 0 ≤ Fp / p 14 → p 14 * w ^ 2 = Fp := by
    intro w Fp hw hnn
    rw [hw, Real.sq_sqrt hnn]; field_simp
  obtain ⟨a0, b0, _⟩ := C13.omega_spec_0 Fmax l (p 15) (p 14) T M hF hCt
  obtain ⟨a1, b1, _⟩ := C13.omega_spec_1 Fmax l (p 15) (p 14) T M hF hCt
  obtain ⟨a2, b2, _⟩ := C13.omega_spec_2 Fmax l (p 15) (p 14) T M hF hCt
  obtain ⟨a3, b3, _⟩ := C13.omega_spec_3 Fmax l (p 15) (p 14) T M hF hCt
  have f0 := sq _ _ (hw0.trans a0) b0
  have f1 := sq _ _ (hw1.trans a1) b1
  have f2 := sq _ _ (hw2.trans a2) b2
  have f3 := sq _ _ (hw3.trans a3) b3
  have e0 : x (Fin.natAdd 13 (0 : Fin 4)) = x 13 := rfl
  have e1 : x (Fin.natAdd 13 (1 : Fin 4)) = x 14 := rfl
  have e2 : x (Fin.natAdd 13 (2 : Fin 4)) = x 15 := rfl
  have e3 : x (Fin.natAdd 13 (3 : Fin 4)) = x 16 := rfl
  simp only [e0, e1, e2, e3, f0, f1, f2, f3] at m0 m1 m2
  refine ⟨?_, ?_, ?_⟩
  · rw [m0, ← g0]; ring
  · rw [m1, ← g1]; ring
  · rw [m2, ← g2]

/-- non-vacuity: the shipped arm angles (−π/4, 3π/4, π/4, −3π/4) satisfy the geometric hypotheses with r = √2/2 -/
theorem geometry_hypotheses_satisfiable :
    let r := Real.sqrt 2 / 2
    Real.cos (-(Real.pi / 4)) = r ∧ Real.sin (-(Real.pi / 4)) = -r
    ∧ Real.cos (3 * Real.pi / 4) = -r ∧ Real.sin (3 * Real.pi / 4) = r
    ∧ Real.cos (Real.pi / 4) = r ∧ Real.sin (Real.pi / 4) = r
    ∧ Real.cos (-(3 * Real.pi / 4)) = -r ∧ Real.sin (-(3 * Real.pi / 4)) = -r := by
  intro r
  have e : 3 * Real.pi / 4 = Real.pi - Real.pi / 4 := by ring
  refine ⟨?_, ?_, ?_, ?_, ?_, ?_, ?_, ?_⟩
  · rw [Real.cos_neg, Real.cos_pi_div_four]
  · rw [Real.sin_neg, Real.sin_pi_div_four]
  · rw [e, Real.cos_pi_sub, Real.cos_pi_div_four]
  · rw [e, Real.sin_pi_sub, Real.sin_pi_div_four]
  · rw [Real.cos_pi_div_four]
  · rw [Real.sin_pi_div_four]
  · rw [Real.cos_neg, e, Real.cos_pi_sub, Real.cos_pi_div_four]
  · rw [Real.sin_neg, e, Real.sin_pi_sub, Real.sin_pi_div_four]

/-! ## the commanded hover is a fixed point of every stage of the cascade -/

/-- stage 1 (position controller): at zero position / velocity error, zero feed-forward acceleration and an empty height
    integrator the demanded force is `trim` straight up; the thrust command is `trim` and the set-point rotation is the pure
    yaw rotation by the commanded heading -/
theorem hover_position_control (trim : ℝ) (pt vt : Fin 3 → ℝ) (qc : Fin 4 → ℝ) (dt : ℝ)
    (htrim : (1152921504606847:ℝ) * 2 ^ (-60:ℤ) < trim) :
    rdd2.position_control_p.T_vec trim pt vt ![0, 0, 0] qc pt vt 0 dt = ![0, 0, trim]
    ∧ rdd2.position_control_p.nT trim pt vt ![0, 0, 0] qc pt vt 0 dt = trim
    ∧ rdd2.position_control_p.Rd_mat trim pt vt ![0, 0, 0] qc pt vt 0 dt
        = !![Real.cos (rdd2.position_control_p.yt trim pt vt ![0, 0, 0] qc pt vt 0 dt), -Real.sin (rdd2.position_control_p.yt trim pt vt ![0, 0, 0] qc pt vt 0 dt), 0;
             Real.sin (rdd2.position_control_p.yt trim pt vt ![0, 0, 0] qc pt vt 0 dt), Real.cos (rdd2.position_control_p.yt trim pt vt ![0, 0, 0] qc pt vt 0 dt), 0;
             0, 0, 1] := by
  have hP : rdd2.position_control_p.P_vec trim pt vt ![0, 0, 0] qc pt vt 0 dt = ![0, 0, 0] := by
    funext i; fin_cases i <;> simp [cas_defs, cas_real]
  have hpos : (0:ℝ) < trim := lt_trans (by norm_num) htrim
  have hT : rdd2.position_control_p.T_vec trim pt vt ![0, 0, 0] qc pt vt 0 dt = ![0, 0, trim] := by
    obtain ⟨h0, h1, h2⟩ := C15.position_feedback_id trim pt vt ![0, 0, 0] qc pt vt 0 dt (by rw [hP]; simp)
    funext i; fin_cases i
    · simpa [hP] using h0
    · simpa [hP] using h1
    · simpa [hP] using h2
  have hs : Real.sqrt (0 * 0 + 0 * 0 + trim * trim) = trim := by
    rw [zero_mul, zero_add, zero_add]; exact Real.sqrt_mul_self hpos.le
  obtain ⟨_, _, _, hcol, hn⟩ := C14.position_control_setpoint trim pt vt ![0, 0, 0] qc pt vt 0 dt
  refine ⟨hT, ?_, ?_⟩
  · rw [hn, hT]; simpa using hs
  · rw [C14.position_control_frame, C14.position_control_yB, hT]
    have hz : zAxis 0 0 trim = ![0, 0, 1] := by
      unfold zAxis; rw [hs, if_pos htrim]; simp [div_self (ne_of_gt hpos)]
    simp only [Matrix.cons_val_zero, Matrix.cons_val_one, Matrix.cons_val_two, Matrix.head_cons, Matrix.tail_cons]
    rw [hz]
    simp only [Matrix.cons_val_zero, Matrix.cons_val_one, Matrix.cons_val_two, Matrix.head_cons, Matrix.tail_cons]
    rw [yAxis_up _ _ (by rw [add_comm]; exact Real.sin_sq_add_cos_sq _)]
    ext i j; fin_cases i <;> fin_cases j <;> simp [frame]

/-- stage 1, log-linear cascade (SE₂(3) outer loop): at zero group error ζ = 0, zero feed-forward acceleration and an empty height
    integrator the demanded force is `trim` straight up; the thrust command is `trim` and the set-point rotation is the pure
    yaw rotation by the commanded heading -/
theorem hover_se23_position_control (trim : ℝ) (kp : Fin 3 → ℝ) (qc : Fin 4 → ℝ) (dt : ℝ)
    (htrim : (1152921504606847:ℝ) * 2 ^ (-60:ℤ) < trim) :
    loglinear.se23_position_control_p.T_vec trim kp ![0, 0, 0, 0, 0, 0, 0, 0, 0] ![0, 0, 0] qc 0 dt = ![0, 0, trim]
    ∧ loglinear.se23_position_control_p.nT trim kp ![0, 0, 0, 0, 0, 0, 0, 0, 0] ![0, 0, 0] qc 0 dt = trim
    ∧ loglinear.se23_position_control_p.Rd_mat trim kp ![0, 0, 0, 0, 0, 0, 0, 0, 0] ![0, 0, 0] qc 0 dt
        = !![Real.cos (loglinear.se23_position_control_p.yt trim kp ![0, 0, 0, 0, 0, 0, 0, 0, 0] ![0, 0, 0] qc 0 dt), -Real.sin (loglinear.se23_position_control_p.yt trim kp ![0, 0, 0, 0, 0, 0, 0, 0, 0] ![0, 0, 0] qc 0 dt), 0;
             Real.sin (loglinear.se23_position_control_p.yt trim kp ![0, 0, 0, 0, 0, 0, 0, 0, 0] ![0, 0, 0] qc 0 dt), Real.cos (loglinear.se23_position_control_p.yt trim kp ![0, 0, 0, 0, 0, 0, 0, 0, 0] ![0, 0, 0] qc 0 dt), 0;
             0, 0, 1] := by
  have hP : loglinear.se23_position_control_p.P_vec trim kp ![0, 0, 0, 0, 0, 0, 0, 0, 0] ![0, 0, 0] qc 0 dt = ![0, 0, 0] := by
    funext i; fin_cases i <;> simp [cas_defs, cas_real]
  have hpos : (0:ℝ) < trim := lt_trans (by norm_num) htrim
  have hT : loglinear.se23_position_control_p.T_vec trim kp ![0, 0, 0, 0, 0, 0, 0, 0, 0] ![0, 0, 0] qc 0 dt = ![0, 0, trim] := by
    obtain ⟨h0, h1, h2⟩ := C15.se23_position_feedback_id trim kp ![0, 0, 0, 0, 0, 0, 0, 0, 0] ![0, 0, 0] qc 0 dt (by rw [hP]; simp)
    funext i; fin_cases i
    · simpa [hP] using h0
    · simpa [hP] using h1
    · simpa [hP] using h2
  have hs : Real.sqrt (0 * 0 + 0 * 0 + trim * trim) = trim := by
    rw [zero_mul, zero_add, zero_add]; exact Real.sqrt_mul_self hpos.le
  obtain ⟨_, _, _, hcol, hn⟩ := C14.se23_position_control_setpoint trim kp ![0, 0, 0, 0, 0, 0, 0, 0, 0] ![0, 0, 0] qc 0 dt
  refine ⟨hT, ?_, ?_⟩
  · rw [hn, hT]; simpa using hs
  · rw [C14.se23_position_control_frame, C14.se23_position_control_yB, hT]
    have hz : zAxis 0 0 trim = ![0, 0, 1] := by
      unfold zAxis; rw [hs, if_pos htrim]; simp [div_self (ne_of_gt hpos)]
    simp only [Matrix.cons_val_zero, Matrix.cons_val_one, Matrix.cons_val_two, Matrix.head_cons, Matrix.tail_cons]
    rw [hz]
    simp only [Matrix.cons_val_zero, Matrix.cons_val_one, Matrix.cons_val_two, Matrix.head_cons, Matrix.tail_cons]
    rw [yAxis_up _ _ (by rw [add_comm]; exact Real.sin_sq_add_cos_sq _)]
    ext i j; fin_cases i <;> fin_cases j <;> simp [frame]

/-- stage 2, log-linear cascade: the SE₂(3) attitude law at zero group error and the so(3) log-linear law at q = q_r command
    zero rate (the position-controller cascade's stage 2 is `C15.attitude_zero_same`) -/
theorem hover_se23_attitude (kp : Fin 3 → ℝ) :
    loglinear.se23_attitude_control.omega_vec kp ![0, 0, 0, 0, 0, 0, 0, 0, 0] = ![0, 0, 0] := by
  funext i; fin_cases i <;> simp [cas_defs, cas_real]
theorem hover_so3_attitude (kp : Fin 3 → ℝ) (q : Fin 4 → ℝ) :
    loglinear.so3_attitude_control.omega_0 kp q q = 0 ∧ loglinear.so3_attitude_control.omega_1 kp q q = 0
      ∧ loglinear.so3_attitude_control.omega_2 kp q q = 0 := by
  refine ⟨?_, ?_, ?_⟩ <;> simp only [cas_defs, cas_real] <;> ring_nf <;> simp

/-- stage 3 (rate controller): zero rate error with empty integrator and derivative filter commands zero moment -/
theorem hover_rate_control (kp ki kd i_max om : Fin 3 → ℝ) (f dt : ℝ) (hi : ∀ i, 0 ≤ i_max i) :
    rdd2.attitude_rate_control.M_vec kp ki kd f i_max om om ![0, 0, 0] ![0, 0, 0] ![0, 0, 0] dt = ![0, 0, 0] := by
  have h0 := hi 0; have h1 := hi 1; have h2 := hi 2
  funext i; fin_cases i <;> simp [cas_defs, cas_real] <;> (split_ifs <;> first | rfl | linarith | simp)

/-- stage 4 (control allocation): a pure thrust demand W within the collective range and zero moment is split equally:
    every motor force is W/4 and every motor speed is √(W/(4 Ct)) -/
theorem hover_allocation (F l Cm Ct W : ℝ) (hW0 : 0 ≤ W) (hW1 : W ≤ 4 * F) (hCt : 0 < Ct) (hl : 0 ≤ l) :
    rdd2.control_allocation.Fp_sum_0 F l Cm Ct W ![0, 0, 0] = W / 4 ∧ rdd2.control_allocation.Fp_sum_1 F l Cm Ct W ![0, 0, 0] = W / 4
    ∧ rdd2.control_allocation.Fp_sum_2 F l Cm Ct W ![0, 0, 0] = W / 4 ∧ rdd2.control_allocation.Fp_sum_3 F l Cm Ct W ![0, 0, 0] = W / 4
    ∧ rdd2.control_allocation.omega_0 F l Cm Ct W ![0, 0, 0] = Real.sqrt (W / 4 / Ct) ∧ rdd2.control_allocation.omega_1 F l Cm Ct W ![0, 0, 0] = Real.sqrt (W / 4 / Ct)
    ∧ rdd2.control_allocation.omega_2 F l Cm Ct W ![0, 0, 0] = Real.sqrt (W / 4 / Ct) ∧ rdd2.control_allocation.omega_3 F l Cm Ct W ![0, 0, 0] = Real.sqrt (W / 4 / Ct) := by
  have hF : 0 ≤ F := by linarith
  obtain ⟨t0, t1, t2, t3⟩ := C13.F_thrust_spec F l Cm Ct W ![0, 0, 0]
  have ht : rdd2.control_allocation.F_thrust_0 F l Cm Ct W ![0, 0, 0] = W / 4 := by
    rw [t0, if_neg (not_lt.mpr hW1), if_pos (not_lt.mpr hW0)]
  have hm : rdd2.control_allocation.F_moment_0 F l Cm Ct W ![0, 0, 0] = 0 ∧ rdd2.control_allocation.F_moment_1 F l Cm Ct W ![0, 0, 0] = 0
      ∧ rdd2.control_allocation.F_moment_2 F l Cm Ct W ![0, 0, 0] = 0 ∧ rdd2.control_allocation.F_moment_3 F l Cm Ct W ![0, 0, 0] = 0 := by
    have hpos : 0 ≤ l * (4 * F) / 2 := by positivity
    refine ⟨?_, ?_, ?_, ?_⟩ <;> simp [cas_defs, cas_real] <;>
      (split_ifs <;> first | simp | (exfalso; linarith))
  obtain ⟨m0, m1, m2, m3⟩ := hm
  have hq : 0 ≤ W / 4 ∧ W / 4 ≤ F := ⟨by positivity, by linarith⟩
  have f0 := C13.feasible_0 F l Cm Ct W ![0, 0, 0] (by rw [m0, ht, zero_add]; exact hq) (by rw [m1, t1, ht, zero_add]; exact hq)
    (by rw [m2, t2, ht, zero_add]; exact hq) (by rw [m3, t3, ht, zero_add]; exact hq)
  have f1 := C13.feasible_1 F l Cm Ct W ![0, 0, 0] (by rw [m0, ht, zero_add]; exact hq) (by rw [m1, t1, ht, zero_add]; exact hq)
    (by rw [m2, t2, ht, zero_add]; exact hq) (by rw [m3, t3, ht, zero_add]; exact hq)
  have f2 := C13.feasible_2 F l Cm Ct W ![0, 0, 0] (by rw [m0, ht, zero_add]; exact hq) (by rw [m1, t1, ht, zero_add]; exact hq)
    (by rw [m2, t2, ht, zero_add]; exact hq) (by rw [m3, t3, ht, zero_add]; exact hq)
  have f3 := C13.feasible_3 F l Cm Ct W ![0, 0, 0] (by rw [m0, ht, zero_add]; exact hq) (by rw [m1, t1, ht, zero_add]; exact hq)
    (by rw [m2, t2, ht, zero_add]; exact hq) (by rw [m3, t3, ht, zero_add]; exact hq)
  rw [m0, ht, zero_add] at f0; rw [m1, t1, ht, zero_add] at f1; rw [m2, t2, ht, zero_add] at f2; rw [m3, t3, ht, zero_add] at f3
  refine ⟨f0, f1, f2, f3, ?_, ?_, ?_, ?_⟩
  · rw [(C13.omega_spec_0 F l Cm Ct W ![0, 0, 0] hF hCt).1, f0]
  · rw [(C13.omega_spec_1 F l Cm Ct W ![0, 0, 0] hF hCt).1, f1]
  · rw [(C13.omega_spec_2 F l Cm Ct W ![0, 0, 0] hF hCt).1, f2]
  · rw [(C13.omega_spec_3 F l Cm Ct W ![0, 0, 0] hF hCt).1, f3]

/-- stage 2 (attitude controller) is `C15.attitude_zero_same`: measured attitude = reference ⇒ zero rate command.

    **composition at hover**: with the weight W = m·g demanded (what stage 1 returns for trim = W) and zero moment (stages 2, 3),
    the allocator's motor speeds put the plant — level, at rest, above ground, rotors at those speeds and commanded to them —
    exactly in equilibrium: every component of the state derivative is 0.  (Symmetric frame hypotheses as in C16.) -/
theorem hover_cascade_equilibrium (x : Fin 17 → ℝ) (u : Fin 4 → ℝ) (p : Fin 39 → ℝ) (F l Cm : ℝ)
    (hm : p 23 ≠ 0) (hJx : p 24 ≠ 0) (hJy : p 25 ≠ 0) (hJz : p 26 ≠ 0) (hCt : 0 < p 14)
    (hW0 : 0 ≤ p 23 * p 22) (hW1 : p 23 * p 22 ≤ 4 * F) (hl : 0 ≤ l)
    (habove : ¬ x 2 < 0) (hv : x 3 = 0 ∧ x 4 = 0 ∧ x 5 = 0) (hq : x 6 = 1 ∧ x 7 = 0 ∧ x 8 = 0 ∧ x 9 = 0)
    (hw : x 10 = 0 ∧ x 11 = 0 ∧ x 12 = 0)
    (hx0 : x 13 = rdd2.control_allocation.omega_0 F l Cm (p 14) (p 23 * p 22) ![0, 0, 0])
    (hx1 : x 14 = rdd2.control_allocation.omega_1 F l Cm (p 14) (p 23 * p 22) ![0, 0, 0])
    (hx2 : x 15 = rdd2.control_allocation.omega_2 F l Cm (p 14) (p 23 * p 22) ![0, 0, 0])
    (hx3 : x 16 = rdd2.control_allocation.omega_3 F l Cm (p 14) (p 23 * p 22) ![0, 0, 0])
    (hcmd : u 0 = x 13 ∧ u 1 = x 14 ∧ u 2 = x 15 ∧ u 3 = x 16)
    (hsin : p 6 * Real.sin (p 10) + p 7 * Real.sin (p 11) + p 8 * Real.sin (p 12) + p 9 * Real.sin (p 13) = 0)
    (hcos : p 6 * Real.cos (p 10) + p 7 * Real.cos (p 11) + p 8 * Real.cos (p 12) + p 9 * Real.cos (p 13) = 0)
    (hdir : p 2 + p 3 + p 4 + p 5 = 0) :
    ∀ i, C16.xdot x u p i = 0 := by
  obtain ⟨_, _, _, _, w0, w1, w2, w3⟩ := hover_allocation F l Cm (p 14) (p 23 * p 22) hW0 hW1 hCt hl
  have e0 : x 13 = Real.sqrt (p 23 * p 22 / 4 / p 14) := hx0.trans w0
  refine C16.hover_equilibrium x u p hm hJx hJy hJz habove hv hq hw
    ⟨(hx1.trans w1).trans e0.symm, (hx2.trans w2).trans e0.symm, (hx3.trans w3).trans e0.symm⟩ ?_ hcmd hsin hcos hdir
  rw [e0, Real.mul_self_sqrt (by positivity)]
  field_simp

end C17
