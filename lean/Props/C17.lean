/-
  Props/C17.lean — interface theorems of the control cascade (PARTIAL: closed-loop convergence is not a theorem,
  see DESIGN.md §2 C17): the plant's rotor geometry (cyecca/models/quadrotor.py) realises the moment the allocator
  (cyecca/models/rdd2.py) asks for, axis by axis, with POSITIVE gains — no sign or axis mismatch between the two
  independently written modules.
-/
import GenM.Quad
import Props.C13
import Mathlib.Tactic.Ring
import Mathlib.Tactic.Linarith
import Mathlib.Analysis.SpecialFunctions.Trigonometric.Basic

set_option maxHeartbeats 2000000
open Gen

namespace C17

/-- body moment produced by the plant for motor forces Fᵢ = CT·ωᵢ², with the shipped rotor geometry
    (arm angles −π/4, 3π/4, π/4, −3π/4, spin directions +,+,−,−, equal arms l) and no aerodynamic moment
    coefficients: the rows of the allocator's geometry map, scaled by (√2/2)·l, (√2/2)·l and CM.
    Indices: p 2..5 spin directions, p 6..9 arms, p 10..13 arm angles, p 14 CT, p 15 CM, p 16..18 aerodynamic moment
    coefficients; x 13..16 motor speeds (checked against model["p_index"], model["x_index"] by the harness). -/
theorem plant_moment (x : Fin 17 → ℝ) (p : Fin 39 → ℝ) (r l : ℝ)
    (hc0 : Real.cos (p 10) = r) (hs0 : Real.sin (p 10) = -r) (hc1 : Real.cos (p 11) = -r) (hs1 : Real.sin (p 11) = r)
    (hc2 : Real.cos (p 12) = r) (hs2 : Real.sin (p 12) = r) (hc3 : Real.cos (p 13) = -r) (hs3 : Real.sin (p 13) = -r)
    (hd : p 2 = 1 ∧ p 3 = 1 ∧ p 4 = -1 ∧ p 5 = -1) (hl : p 6 = l ∧ p 7 = l ∧ p 8 = l ∧ p 9 = l)
    (ha : p 16 = 0 ∧ p 17 = 0 ∧ p 18 = 0) :
    let F : Fin 4 → ℝ := fun i => p 14 * (x (Fin.natAdd 13 i)) ^ 2
    quadrotor.M_b.M_b_0 x p = r * l * (-F 0 + F 1 + F 2 - F 3)
    ∧ quadrotor.M_b.M_b_1 x p = r * l * (-F 0 + F 1 - F 2 + F 3)
    ∧ quadrotor.M_b.M_b_2 x p = p 15 * (-F 0 - F 1 + F 2 + F 3) := by
  obtain ⟨d0, d1, d2, d3⟩ := hd
  obtain ⟨l0, l1, l2, l3⟩ := hl
  obtain ⟨a0, a1, a2⟩ := ha
  intro F
  have e0 : x (Fin.natAdd 13 (0 : Fin 4)) = x 13 := rfl
  have e1 : x (Fin.natAdd 13 (1 : Fin 4)) = x 14 := rfl
  have e2 : x (Fin.natAdd 13 (2 : Fin 4)) = x 15 := rfl
  have e3 : x (Fin.natAdd 13 (3 : Fin 4)) = x 16 := rfl
  refine ⟨?_, ?_, ?_⟩ <;>
    simp only [cas_defs, cas_real, F, e0, e1, e2, e3, hc0, hs0, hc1, hs1, hc2, hs2, hc3, hs3, d0, d1, d2, d3, l0, l1, l2, l3, a0, a1, a2] <;>
    ring

open Gen.rdd2.control_allocation in
/-- allocator → plant: if the motors run at the speeds the allocator commands (the fixed point of the first-order
    motor model) and the demanded moment is achievable together with some thrust, the plant's body moment is the
    range-limited demanded moment scaled by (√2/2, √2/2, 1): same axes, same signs, positive gains -/
theorem cascade_moment (x : Fin 17 → ℝ) (p : Fin 39 → ℝ) (r l Fmax T : ℝ) (M : Fin 3 → ℝ)
    (hc0 : Real.cos (p 10) = r) (hs0 : Real.sin (p 10) = -r) (hc1 : Real.cos (p 11) = -r) (hs1 : Real.sin (p 11) = r)
    (hc2 : Real.cos (p 12) = r) (hs2 : Real.sin (p 12) = r) (hc3 : Real.cos (p 13) = -r) (hs3 : Real.sin (p 13) = -r)
    (hd : p 2 = 1 ∧ p 3 = 1 ∧ p 4 = -1 ∧ p 5 = -1) (hl : p 6 = l ∧ p 7 = l ∧ p 8 = l ∧ p 9 = l)
    (ha : p 16 = 0 ∧ p 17 = 0 ∧ p 18 = 0)
    (hF : 0 ≤ Fmax) (hCt : 0 < p 14) (hl0 : l ≠ 0) (hCm : p 15 ≠ 0)
    (hw0 : x 13 = omega_0 Fmax l (p 15) (p 14) T M) (hw1 : x 14 = omega_1 Fmax l (p 15) (p 14) T M)
    (hw2 : x 15 = omega_2 Fmax l (p 15) (p 14) T M) (hw3 : x 16 = omega_3 Fmax l (p 15) (p 14) T M)
    (hsp : C13.mx (F_moment_0 Fmax l (p 15) (p 14) T M + F_thrust_0 Fmax l (p 15) (p 14) T M) (F_moment_1 Fmax l (p 15) (p 14) T M + F_thrust_0 Fmax l (p 15) (p 14) T M)
              (F_moment_2 Fmax l (p 15) (p 14) T M + F_thrust_0 Fmax l (p 15) (p 14) T M) (F_moment_3 Fmax l (p 15) (p 14) T M + F_thrust_0 Fmax l (p 15) (p 14) T M)
          - C13.mn (F_moment_0 Fmax l (p 15) (p 14) T M + F_thrust_0 Fmax l (p 15) (p 14) T M) (F_moment_1 Fmax l (p 15) (p 14) T M + F_thrust_0 Fmax l (p 15) (p 14) T M)
              (F_moment_2 Fmax l (p 15) (p 14) T M + F_thrust_0 Fmax l (p 15) (p 14) T M) (F_moment_3 Fmax l (p 15) (p 14) T M + F_thrust_0 Fmax l (p 15) (p 14) T M) ≤ Fmax) :
    quadrotor.M_b.M_b_0 x p = r * M_sat_0 Fmax l (p 15) (p 14) T M
    ∧ quadrotor.M_b.M_b_1 x p = r * M_sat_1 Fmax l (p 15) (p 14) T M
    ∧ quadrotor.M_b.M_b_2 x p = M_sat_2 Fmax l (p 15) (p 14) T M := by
  obtain ⟨m0, m1, m2⟩ := plant_moment x p r l hc0 hs0 hc1 hs1 hc2 hs2 hc3 hs3 hd hl ha
  obtain ⟨g0, g1, g2⟩ := C13.realised_moment Fmax l (p 15) (p 14) T M hl0 hCm hsp
  have sq : ∀ (w Fp : ℝ), w = Real.sqrt (Fp / p 14) → 0 ≤ Fp / p 14 → p 14 * w ^ 2 = Fp := by
    intro w Fp hw hnn
    rw [hw, Real.sq_sqrt hnn]; field_simp
  obtain ⟨a0, b0, _⟩ := C13.omega_spec_0 Fmax l (p 15) (p 14) T M hF hCt
  obtain ⟨a1, b1, _⟩ := C13.omega_spec_1 Fmax l (p 15) (p 14) T M hF hCt
  obtain ⟨a2, b2, _⟩ := C13.omega_spec_2 Fmax l (p 15) (p 14) T M hF hCt
  obtain ⟨a3, b3, _⟩ := C13.omega_spec_3 Fmax l (p 15) (p 14) T M hF hCt
  have f0 := sq _ _ (hw0.trans a0) b0
  have f1 := sq _ _ (hw1.trans a1) b1
  have f2 := sq _ _ (hw2.trans a2) b2
  have f3 := sq _ _ (hw3.trans a3) b3
  have e0 : x (Fin.natAdd 13 (0 : Fin 4)) = x 13 := rfl
  have e1 : x (Fin.natAdd 13 (1 : Fin 4)) = x 14 := rfl
  have e2 : x (Fin.natAdd 13 (2 : Fin 4)) = x 15 := rfl
  have e3 : x (Fin.natAdd 13 (3 : Fin 4)) = x 16 := rfl
  simp only [e0, e1, e2, e3, f0, f1, f2, f3] at m0 m1 m2
  refine ⟨?_, ?_, ?_⟩
  · rw [m0, ← g0]; ring
  · rw [m1, ← g1]; ring
  · rw [m2, ← g2]

/-- non-vacuity: the shipped arm angles (−π/4, 3π/4, π/4, −3π/4) satisfy the geometric hypotheses with r = √2/2 -/
theorem geometry_hypotheses_satisfiable :
    let r := Real.sqrt 2 / 2
    Real.cos (-(Real.pi / 4)) = r ∧ Real.sin (-(Real.pi / 4)) = -r
    ∧ Real.cos (3 * Real.pi / 4) = -r ∧ Real.sin (3 * Real.pi / 4) = r
    ∧ Real.cos (Real.pi / 4) = r ∧ Real.sin (Real.pi / 4) = r
    ∧ Real.cos (-(3 * Real.pi / 4)) = -r ∧ Real.sin (-(3 * Real.pi / 4)) = -r := by
  intro r
  have e : 3 * Real.pi / 4 = Real.pi - Real.pi / 4 := by ring
  refine ⟨?_, ?_, ?_, ?_, ?_, ?_, ?_, ?_⟩
  · rw [Real.cos_neg, Real.cos_pi_div_four]
  · rw [Real.sin_neg, Real.sin_pi_div_four]
  · rw [e, Real.cos_pi_sub, Real.cos_pi_div_four]
  · rw [e, Real.sin_pi_sub, Real.sin_pi_div_four]
  · rw [Real.cos_pi_div_four]
  · rw [Real.sin_pi_div_four]
  · rw [Real.cos_neg, e, Real.cos_pi_sub, Real.cos_pi_div_four]
  · rw [Real.sin_neg, e, Real.sin_pi_sub, Real.sin_pi_div_four]

end C17
