/-
  Props/C11.lean — attitude-estimator step contracts (cyecca/estimate/attitude/algorithms/mrp.py),
  on the regenerated programs Gen.mrp.{initialize, predict, correct_mag, correct_accel}.
-/
import GenM.Est
import GenM.SO3
import Cas.Real
import Mathlib.Tactic.FieldSimp
import Mathlib.Tactic.Ring
import Mathlib.Tactic.FinCases
import Mathlib.Tactic.Linarith

set_option maxHeartbeats 4000000
set_option linter.unusedSimpArgs false
open Gen

namespace C11

-- one selected entry of a correction: rewrite with the generated peeling (`_cut_eq`) and selection (`_cut_sel`)
-- lemmas; the accepted branch stays an opaque term
open Lean in
macro "reject_entry " e:ident : tactic => do
  let ce := mkIdent (e.getId.appendAfter "_cut_eq")
  let cs := mkIdent (e.getId.appendAfter "_cut_sel")
  let cc := mkIdent (e.getId.appendAfter "_cut__c")
  let cb := mkIdent (e.getId.appendAfter "_cut__b")
  `(tactic| (rw [$ce:ident, $cs:ident]; simp only [$cc:ident, $cb:ident, cas_real]; simp [*]))

section correct_mag
variable (x : Fin 6 → ℝ) (W : Fin 6 → Fin 6 → ℝ) (y_b : Fin 3 → ℝ) (decl std_mag beta_mag_c : ℝ)
open Gen.mrp.correct_mag

/-- the error code of `correct_mag` is one of the documented values -/
theorem correct_mag_codes : error_code x W y_b decl std_mag beta_mag_c ∈ ({0, 1, 2} : Set ℝ) := by
  simp only [cas_defs, cas_real]; split_ifs <;> simp

/-- a rejected correction (error code ≠ 0) returns the state unchanged, all six components -/
theorem correct_mag_reject_x (h : error_code x W y_b decl std_mag beta_mag_c ≠ 0) :
    x_mag_vec x W y_b decl std_mag beta_mag_c = x := by
  funext i; fin_cases i <;> simp only [x_mag_vec, Matrix.cons_val_zero, Matrix.cons_val_one, Matrix.cons_val]
  · reject_entry x_mag_0
  · reject_entry x_mag_1
  · reject_entry x_mag_2
  · reject_entry x_mag_3
  · reject_entry x_mag_4
  · reject_entry x_mag_5

/-- … and the covariance factor unchanged: every entry of the lower triangle (the part the routine reads and
    writes; the strictly upper entries of the output are structural zeros) -/
theorem correct_mag_reject_W (h : error_code x W y_b decl std_mag beta_mag_c ≠ 0) (i j : Fin 6) (hij : j ≤ i) :
    W_mag_mat x W y_b decl std_mag beta_mag_c i j = W i j := by
  fin_cases i <;> fin_cases j <;> first | (exfalso; revert hij; decide) | skip
  all_goals simp only [W_mag_mat, Matrix.of_apply, Matrix.cons_val', Matrix.cons_val_zero, Matrix.cons_val_one, Matrix.cons_val, Matrix.cons_val_fin_one]
  · reject_entry W_mag_0_0
  · reject_entry W_mag_1_0
  · reject_entry W_mag_1_1
  · reject_entry W_mag_2_0
  · reject_entry W_mag_2_1
  · reject_entry W_mag_2_2
  · reject_entry W_mag_3_0
  · reject_entry W_mag_3_1
  · reject_entry W_mag_3_2
  · reject_entry W_mag_3_3
  · reject_entry W_mag_4_0
  · reject_entry W_mag_4_1
  · reject_entry W_mag_4_2
  · reject_entry W_mag_4_3
  · reject_entry W_mag_4_4
  · reject_entry W_mag_5_0
  · reject_entry W_mag_5_1
  · reject_entry W_mag_5_2
  · reject_entry W_mag_5_3
  · reject_entry W_mag_5_4
  · reject_entry W_mag_5_5
theorem correct_mag_upper_zero (i j : Fin 6) (hij : i < j) :
    W_mag_mat x W y_b decl std_mag beta_mag_c i j = 0 := by
  fin_cases i <;> fin_cases j <;> first | (exfalso; revert hij; decide) | simp [cas_defs, cas_real]
end correct_mag

section correct_accel
variable (x : Fin 6 → ℝ) (W : Fin 6 → Fin 6 → ℝ) (y_b : Fin 3 → ℝ) (g : ℝ) (omega_b : Fin 3 → ℝ) (std_accel std_accel_omega beta_accel_c : ℝ)
open Gen.mrp.correct_accel

/-- the error code of `correct_accel` is one of the documented values -/
theorem correct_accel_codes : error_code x W y_b g omega_b std_accel std_accel_omega beta_accel_c ∈ ({0, 1} : Set ℝ) := by
  simp only [cas_defs, cas_real]; split_ifs <;> simp

/-- a rejected correction (error code ≠ 0) returns the state unchanged, all six components -/
theorem correct_accel_reject_x (h : error_code x W y_b g omega_b std_accel std_accel_omega beta_accel_c ≠ 0) :
    x_accel_vec x W y_b g omega_b std_accel std_accel_omega beta_accel_c = x := by
  funext i; fin_cases i <;> simp only [x_accel_vec, Matrix.cons_val_zero, Matrix.cons_val_one, Matrix.cons_val]
  · reject_entry x_accel_0
  · reject_entry x_accel_1
  · reject_entry x_accel_2
  · reject_entry x_accel_3
  · reject_entry x_accel_4
  · reject_entry x_accel_5

/-- … and the covariance factor unchanged: every entry of the lower triangle (the part the routine reads and
    writes; the strictly upper entries of the output are structural zeros) -/
theorem correct_accel_reject_W (h : error_code x W y_b g omega_b std_accel std_accel_omega beta_accel_c ≠ 0) (i j : Fin 6) (hij : j ≤ i) :
    W_accel_mat x W y_b g omega_b std_accel std_accel_omega beta_accel_c i j = W i j := by
  fin_cases i <;> fin_cases j <;> first | (exfalso; revert hij; decide) | skip
  all_goals simp only [W_accel_mat, Matrix.of_apply, Matrix.cons_val', Matrix.cons_val_zero, Matrix.cons_val_one, Matrix.cons_val, Matrix.cons_val_fin_one]
  · reject_entry W_accel_0_0
  · reject_entry W_accel_1_0
  · reject_entry W_accel_1_1
  · reject_entry W_accel_2_0
  · reject_entry W_accel_2_1
  · reject_entry W_accel_2_2
  · reject_entry W_accel_3_0
  · reject_entry W_accel_3_1
  · reject_entry W_accel_3_2
  · reject_entry W_accel_3_3
  · reject_entry W_accel_4_0
  · reject_entry W_accel_4_1
  · reject_entry W_accel_4_2
  · reject_entry W_accel_4_3
  · reject_entry W_accel_4_4
  · reject_entry W_accel_5_0
  · reject_entry W_accel_5_1
  · reject_entry W_accel_5_2
  · reject_entry W_accel_5_3
  · reject_entry W_accel_5_4
  · reject_entry W_accel_5_5
theorem correct_accel_upper_zero (i j : Fin 6) (hij : i < j) :
    W_accel_mat x W y_b g omega_b std_accel std_accel_omega beta_accel_c i j = 0 := by
  fin_cases i <;> fin_cases j <;> first | (exfalso; revert hij; decide) | simp [cas_defs, cas_real]
end correct_accel

end C11
