/-
  Props/C11.lean — attitude-estimator step contracts (cyecca/estimate/attitude/algorithms/mrp.py),
  on the regenerated programs Gen.mrp.{initialize, predict, correct_mag, correct_accel}.
-/
import GenM.Est
import GenM.SO3
import Cas.Real
import Mathlib.Tactic.FieldSimp
import Mathlib.Tactic.Ring
import Mathlib.Tactic.FinCases
import Mathlib.Tactic.Linarith
import Lib.SqrtFilter
import Lib.Rot
import Mathlib.Logic.Equiv.Fin.Basic

set_option maxHeartbeats 4000000
set_option linter.unusedSimpArgs false
open Gen Matrix

namespace C11

-- one selected entry of a correction: rewrite with the generated peeling (`_cut_eq`) and selection (`_cut_sel`)
-- lemmas; the accepted branch stays an opaque term
open Lean in
macro "reject_entry " e:ident : tactic => do
  let ce := mkIdent (e.getId.appendAfter "_cut_eq")
  let cs := mkIdent (e.getId.appendAfter "_cut_sel")
  let cc := mkIdent (e.getId.appendAfter "_cut__c")
  let cb := mkIdent (e.getId.appendAfter "_cut__b")
  `(tactic| (rw [$ce:ident, $cs:ident]; simp only [$cc:ident, $cb:ident, cas_real]; simp [*]))

section correct_mag
variable (x : Fin 6 → ℝ) (W : Fin 6 → Fin 6 → ℝ) (y_b : Fin 3 → ℝ) (decl std_mag beta_mag_c : ℝ)
open Gen.mrp.correct_mag

/-- the error code of `correct_mag` is one of the documented values -/
theorem correct_mag_codes : error_code x W y_b decl std_mag beta_mag_c ∈ ({0, 1, 2} : Set ℝ) := by
  simp only [cas_defs, cas_real]; split_ifs <;> simp

/-- a rejected correction (error code ≠ 0) returns the state unchanged, all six components -/
theorem correct_mag_reject_x (h : error_code x W y_b decl std_mag beta_mag_c ≠ 0) :
    x_mag_vec x W y_b decl std_mag beta_mag_c = x := by
  funext i; fin_cases i <;> simp only [x_mag_vec, Matrix.cons_val_zero, Matrix.cons_val_one, Matrix.cons_val]
  · reject_entry x_mag_0
  · reject_entry x_mag_1
  · reject_entry x_mag_2
  · reject_entry x_mag_3
  · reject_entry x_mag_4
  · reject_entry x_mag_5

/-- … and the covariance factor unchanged: every entry of the lower triangle (the part the routine reads and
    writes; the strictly upper entries of the output are structural zeros) -/
theorem correct_mag_reject_W (h : error_code x W y_b decl std_mag beta_mag_c ≠ 0) (i j : Fin 6) (hij : j ≤ i) :
    W_mag_mat x W y_b decl std_mag beta_mag_c i j = W i j := by
  fin_cases i <;> fin_cases j <;> first | (exfalso; revert hij; decide) | skip
  all_goals simp only [W_mag_mat, Matrix.of_apply, Matrix.cons_val', Matrix.cons_val_zero, Matrix.cons_val_one, Matrix.cons_val, Matrix.cons_val_fin_one]
  · reject_entry W_mag_0_0
  · reject_entry W_mag_1_0
  · reject_entry W_mag_1_1
  · reject_entry W_mag_2_0
  · reject_entry W_mag_2_1
  · reject_entry W_mag_2_2
  · reject_entry W_mag_3_0
  · reject_entry W_mag_3_1
  · reject_entry W_mag_3_2
  · reject_entry W_mag_3_3
  · reject_entry W_mag_4_0
  · reject_entry W_mag_4_1
  · reject_entry W_mag_4_2
  · reject_entry W_mag_4_3
  · reject_entry W_mag_4_4
  · reject_entry W_mag_5_0
  · reject_entry W_mag_5_1
  · reject_entry W_mag_5_2
  · reject_entry W_mag_5_3
  · reject_entry W_mag_5_4
  · reject_entry W_mag_5_5
theorem correct_mag_upper_zero (i j : Fin 6) (hij : i < j) :
    W_mag_mat x W y_b decl std_mag beta_mag_c i j = 0 := by
  fin_cases i <;> fin_cases j <;> first | (exfalso; revert hij; decide) | simp [cas_defs, cas_real] <;> (try ring1)
end correct_mag

section correct_accel
variable (x : Fin 6 → ℝ) (W : Fin 6 → Fin 6 → ℝ) (y_b : Fin 3 → ℝ) (g : ℝ) (omega_b : Fin 3 → ℝ) (std_accel std_accel_omega beta_accel_c : ℝ)
open Gen.mrp.correct_accel

/-- the error code of `correct_accel` is one of the documented values -/
theorem correct_accel_codes : error_code x W y_b g omega_b std_accel std_accel_omega beta_accel_c ∈ ({0, 1} : Set ℝ) := by
  simp only [cas_defs, cas_real]; split_ifs <;> simp

/-- a rejected correction (error code ≠ 0) returns the state unchanged, all six components -/
theorem correct_accel_reject_x (h : error_code x W y_b g omega_b std_accel std_accel_omega beta_accel_c ≠ 0) :
    x_accel_vec x W y_b g omega_b std_accel std_accel_omega beta_accel_c = x := by
  funext i; fin_cases i <;> simp only [x_accel_vec, Matrix.cons_val_zero, Matrix.cons_val_one, Matrix.cons_val]
  · reject_entry x_accel_0
  · reject_entry x_accel_1
  · reject_entry x_accel_2
  · reject_entry x_accel_3
  · reject_entry x_accel_4
  · reject_entry x_accel_5

/-- … and the covariance factor unchanged: every entry of the lower triangle (the part the routine reads and
    writes; the strictly upper entries of the output are structural zeros) -/
theorem correct_accel_reject_W (h : error_code x W y_b g omega_b std_accel std_accel_omega beta_accel_c ≠ 0) (i j : Fin 6) (hij : j ≤ i) :
    W_accel_mat x W y_b g omega_b std_accel std_accel_omega beta_accel_c i j = W i j := by
  fin_cases i <;> fin_cases j <;> first | (exfalso; revert hij; decide) | skip
  all_goals simp only [W_accel_mat, Matrix.of_apply, Matrix.cons_val', Matrix.cons_val_zero, Matrix.cons_val_one, Matrix.cons_val, Matrix.cons_val_fin_one]
  · reject_entry W_accel_0_0
  · reject_entry W_accel_1_0
  · reject_entry W_accel_1_1
  · reject_entry W_accel_2_0
  · reject_entry W_accel_2_1
  · reject_entry W_accel_2_2
  · reject_entry W_accel_3_0
  · reject_entry W_accel_3_1
  · reject_entry W_accel_3_2
  · reject_entry W_accel_3_3
  · reject_entry W_accel_4_0
  · reject_entry W_accel_4_1
  · reject_entry W_accel_4_2
  · reject_entry W_accel_4_3
  · reject_entry W_accel_4_4
  · reject_entry W_accel_5_0
  · reject_entry W_accel_5_1
  · reject_entry W_accel_5_2
  · reject_entry W_accel_5_3
  · reject_entry W_accel_5_4
  · reject_entry W_accel_5_5
theorem correct_accel_upper_zero (i j : Fin 6) (hij : i < j) :
    W_accel_mat x W y_b g omega_b std_accel std_accel_omega beta_accel_c i j = 0 := by
  fin_cases i <;> fin_cases j <;> first | (exfalso; revert hij; decide) | simp [cas_defs, cas_real] <;> (try ring1)
end correct_accel

/-! ### accepted corrections never increase the covariance (under the contract of the QR factorisation)

`Gen.mrp.correct_*_qr` are the REAL correction programs with the single `ca.qr` call replaced by two extra inputs
(qrQ, qrR upper triangular) and the matrix handed to `ca.qr` exposed as the extra output `qr_arg`.  Under the contract
qrQᵀ qrQ = 1 and qrQ · qrR = qr_arg — what a QR factorisation returns — the accepted covariance factor W⁺ satisfies
P − W⁺W⁺ᵀ = G Gᵀ ⪰ 0 with P = W Wᵀ (W read on its lower triangle), for EVERY state, covariance factor and measurement. -/

def lowerPart {k : ℕ} (W : Fin k → Fin k → ℝ) : Matrix (Fin k) (Fin k) ℝ := Matrix.of fun i j => if j ≤ i then W i j else 0
def upperPart {k : ℕ} (R : Fin k → Fin k → ℝ) : Matrix (Fin k) (Fin k) ℝ := Matrix.of fun i j => if i ≤ j then R i j else 0

@[simp] theorem e1_inl0 : (finSumFinEquiv (Sum.inl (0 : Fin 1)) : Fin (1 + 6)) = (0 : Fin 7) := by decide
@[simp] theorem e1_inr0 : (finSumFinEquiv (Sum.inr (0 : Fin 6)) : Fin (1 + 6)) = (1 : Fin 7) := by decide
@[simp] theorem e1_inr1 : (finSumFinEquiv (Sum.inr (1 : Fin 6)) : Fin (1 + 6)) = (2 : Fin 7) := by decide
@[simp] theorem e1_inr2 : (finSumFinEquiv (Sum.inr (2 : Fin 6)) : Fin (1 + 6)) = (3 : Fin 7) := by decide
@[simp] theorem e1_inr3 : (finSumFinEquiv (Sum.inr (3 : Fin 6)) : Fin (1 + 6)) = (4 : Fin 7) := by decide
@[simp] theorem e1_inr4 : (finSumFinEquiv (Sum.inr (4 : Fin 6)) : Fin (1 + 6)) = (5 : Fin 7) := by decide
@[simp] theorem e1_inr5 : (finSumFinEquiv (Sum.inr (5 : Fin 6)) : Fin (1 + 6)) = (6 : Fin 7) := by decide
@[simp] theorem e2_inl0 : (finSumFinEquiv (Sum.inl (0 : Fin 2)) : Fin (2 + 6)) = (0 : Fin 8) := by decide
@[simp] theorem e2_inl1 : (finSumFinEquiv (Sum.inl (1 : Fin 2)) : Fin (2 + 6)) = (1 : Fin 8) := by decide
@[simp] theorem e2_inr0 : (finSumFinEquiv (Sum.inr (0 : Fin 6)) : Fin (2 + 6)) = (2 : Fin 8) := by decide
@[simp] theorem e2_inr1 : (finSumFinEquiv (Sum.inr (1 : Fin 6)) : Fin (2 + 6)) = (3 : Fin 8) := by decide
@[simp] theorem e2_inr2 : (finSumFinEquiv (Sum.inr (2 : Fin 6)) : Fin (2 + 6)) = (4 : Fin 8) := by decide
@[simp] theorem e2_inr3 : (finSumFinEquiv (Sum.inr (3 : Fin 6)) : Fin (2 + 6)) = (5 : Fin 8) := by decide
@[simp] theorem e2_inr4 : (finSumFinEquiv (Sum.inr (4 : Fin 6)) : Fin (2 + 6)) = (6 : Fin 8) := by decide
@[simp] theorem e2_inr5 : (finSumFinEquiv (Sum.inr (5 : Fin 6)) : Fin (2 + 6)) = (7 : Fin 8) := by decide

open Lean in
macro "accept_entry " e:ident : tactic => do
  let ce := mkIdent (e.getId.appendAfter "_cut_eq")
  let cs := mkIdent (e.getId.appendAfter "_cut_sel")
  let cc := mkIdent (e.getId.appendAfter "_cut__c")
  let ca := mkIdent (e.getId.appendAfter "_cut__a")
  `(tactic| (rw [$ce:ident, $cs:ident]; simp only [$cc:ident, $ca:ident, cas_real]; simp [*]))

section correct_mag_cov
variable (x : Fin 6 → ℝ) (W : Fin 6 → Fin 6 → ℝ) (y_b : Fin 3 → ℝ) (decl std_mag beta_mag_c : ℝ) (qrQ qrR : Fin 7 → Fin 7 → ℝ)
open Gen.mrp.correct_mag_qr
/-- accepted: the returned factor is the lower-right block of qrRᵀ -/
theorem correct_mag_accept_W (h0 : error_code x W y_b decl std_mag beta_mag_c qrQ qrR = 0) :
    W_mag_mat x W y_b decl std_mag beta_mag_c qrQ qrR
      = (((upperPart qrR)ᵀ).submatrix finSumFinEquiv finSumFinEquiv).toBlocks₂₂ (n := Fin 1) (o := Fin 6) := by
  ext i j
  fin_cases i <;> fin_cases j <;> simp [W_mag_mat, toBlocks₂₂, upperPart]
  · accept_entry W_mag_0_0
  · simp [cas_defs, cas_real] <;> (try ring1)
  · simp [cas_defs, cas_real] <;> (try ring1)
  · simp [cas_defs, cas_real] <;> (try ring1)
  · simp [cas_defs, cas_real] <;> (try ring1)
  · simp [cas_defs, cas_real] <;> (try ring1)
  · accept_entry W_mag_1_0
  · accept_entry W_mag_1_1
  · simp [cas_defs, cas_real] <;> (try ring1)
  · simp [cas_defs, cas_real] <;> (try ring1)
  · simp [cas_defs, cas_real] <;> (try ring1)
  · simp [cas_defs, cas_real] <;> (try ring1)
  · accept_entry W_mag_2_0
  · accept_entry W_mag_2_1
  · accept_entry W_mag_2_2
  · simp [cas_defs, cas_real] <;> (try ring1)
  · simp [cas_defs, cas_real] <;> (try ring1)
  · simp [cas_defs, cas_real] <;> (try ring1)
  · accept_entry W_mag_3_0
  · accept_entry W_mag_3_1
  · accept_entry W_mag_3_2
  · accept_entry W_mag_3_3
  · simp [cas_defs, cas_real] <;> (try ring1)
  · simp [cas_defs, cas_real] <;> (try ring1)
  · accept_entry W_mag_4_0
  · accept_entry W_mag_4_1
  · accept_entry W_mag_4_2
  · accept_entry W_mag_4_3
  · accept_entry W_mag_4_4
  · simp [cas_defs, cas_real] <;> (try ring1)
  · accept_entry W_mag_5_0
  · accept_entry W_mag_5_1
  · accept_entry W_mag_5_2
  · accept_entry W_mag_5_3
  · accept_entry W_mag_5_4
  · accept_entry W_mag_5_5
/-- the lower-right block of the matrix handed to the QR routine is the (lower triangle of the) prior factor W -/
theorem correct_mag_arg_W :
    (((qr_arg_mat x W y_b decl std_mag beta_mag_c qrQ qrR)ᵀ).submatrix finSumFinEquiv finSumFinEquiv).toBlocks₂₂ (n := Fin 1) (o := Fin 6) = lowerPart W := by
  ext i j
  simp only [toBlocks₂₂, Matrix.of_apply, submatrix_apply, transpose_apply]
  fin_cases i <;> fin_cases j <;> simp only [e1_inr0, e1_inr1, e1_inr2, e1_inr3, e1_inr4, e1_inr5, e2_inr0, e2_inr1, e2_inr2, e2_inr3, e2_inr4, e2_inr5]
  all_goals simp only [qr_arg_mat, Matrix.of_apply, Matrix.cons_val', Matrix.cons_val_zero, Matrix.cons_val_one, Matrix.cons_val, Matrix.cons_val_fin_one]
  all_goals simp [lowerPart, cas_defs, cas_real]
/-- P − W⁺W⁺ᵀ is positive semidefinite and W⁺ is lower triangular -/
theorem correct_mag_accept_cov (hQ : (Matrix.of qrQ)ᵀ * Matrix.of qrQ = 1)
    (hQR : Matrix.of qrQ * upperPart qrR = qr_arg_mat x W y_b decl std_mag beta_mag_c qrQ qrR)
    (h0 : error_code x W y_b decl std_mag beta_mag_c qrQ qrR = 0) :
    (lowerPart W * (lowerPart W)ᵀ - W_mag_mat x W y_b decl std_mag beta_mag_c qrQ qrR * (W_mag_mat x W y_b decl std_mag beta_mag_c qrQ qrR)ᵀ).PosSemidef := by
  have hA : ∀ (i : Fin 6) (j : Fin 1), qr_arg_mat x W y_b decl std_mag beta_mag_c qrQ qrR (finSumFinEquiv (m := 1) (n := 6) (Sum.inl j)) (finSumFinEquiv (Sum.inr i)) = 0 := by
    intro i j; fin_cases i <;> fin_cases j <;> simp only [e1_inl0, e2_inl0, e2_inl1, e1_inr0, e1_inr1, e1_inr2, e1_inr3, e1_inr4, e1_inr5, e2_inr0, e2_inr1, e2_inr2, e2_inr3, e2_inr4, e2_inr5]
    all_goals simp only [qr_arg_mat, Matrix.of_apply, Matrix.cons_val', Matrix.cons_val_zero, Matrix.cons_val_one, Matrix.cons_val, Matrix.cons_val_fin_one]
    all_goals simp [cas_defs, cas_real] <;> (try ring1)
  have hR : ∀ (i : Fin 6) (j : Fin 1), upperPart qrR (finSumFinEquiv (m := 1) (n := 6) (Sum.inr i)) (finSumFinEquiv (m := 1) (n := 6) (Sum.inl j)) = 0 := by
    intro i j; fin_cases i <;> fin_cases j <;> simp [upperPart]
  obtain ⟨_, _, d⟩ := SqrtFilter.flat (M := Fin 1) (N := Fin 6) finSumFinEquiv _ _ _ hQ hQR hA hR
  rw [correct_mag_arg_W, ← correct_mag_accept_W _ _ _ _ _ _ _ _ h0] at d
  rw [← d, add_sub_cancel_right]
  exact posSemidef_self_mul_conjTranspose _
end correct_mag_cov

section correct_accel_cov
variable (x : Fin 6 → ℝ) (W : Fin 6 → Fin 6 → ℝ) (y_b : Fin 3 → ℝ) (g : ℝ) (omega_b : Fin 3 → ℝ) (std_accel std_accel_omega beta_accel_c : ℝ) (qrQ qrR : Fin 8 → Fin 8 → ℝ)
open Gen.mrp.correct_accel_qr
/-- accepted: the returned factor is the lower-right block of qrRᵀ -/
theorem correct_accel_accept_W (h0 : error_code x W y_b g omega_b std_accel std_accel_omega beta_accel_c qrQ qrR = 0) :
    W_accel_mat x W y_b g omega_b std_accel std_accel_omega beta_accel_c qrQ qrR
      = (((upperPart qrR)ᵀ).submatrix finSumFinEquiv finSumFinEquiv).toBlocks₂₂ (n := Fin 2) (o := Fin 6) := by
  ext i j
  fin_cases i <;> fin_cases j <;> simp [W_accel_mat, toBlocks₂₂, upperPart]
  · accept_entry W_accel_0_0
  · simp [cas_defs, cas_real] <;> (try ring1)
  · simp [cas_defs, cas_real] <;> (try ring1)
  · simp [cas_defs, cas_real] <;> (try ring1)
  · simp [cas_defs, cas_real] <;> (try ring1)
  · simp [cas_defs, cas_real] <;> (try ring1)
  · accept_entry W_accel_1_0
  · accept_entry W_accel_1_1
  · simp [cas_defs, cas_real] <;> (try ring1)
  · simp [cas_defs, cas_real] <;> (try ring1)
  · simp [cas_defs, cas_real] <;> (try ring1)
  · simp [cas_defs, cas_real] <;> (try ring1)
  · accept_entry W_accel_2_0
  · accept_entry W_accel_2_1
  · accept_entry W_accel_2_2
  · simp [cas_defs, cas_real] <;> (try ring1)
  · simp [cas_defs, cas_real] <;> (try ring1)
  · simp [cas_defs, cas_real] <;> (try ring1)
  · accept_entry W_accel_3_0
  · accept_entry W_accel_3_1
  · accept_entry W_accel_3_2
  · accept_entry W_accel_3_3
  · simp [cas_defs, cas_real] <;> (try ring1)
  · simp [cas_defs, cas_real] <;> (try ring1)
  · accept_entry W_accel_4_0
  · accept_entry W_accel_4_1
  · accept_entry W_accel_4_2
  · accept_entry W_accel_4_3
  · accept_entry W_accel_4_4
  · simp [cas_defs, cas_real] <;> (try ring1)
  · accept_entry W_accel_5_0
  · accept_entry W_accel_5_1
  · accept_entry W_accel_5_2
  · accept_entry W_accel_5_3
  · accept_entry W_accel_5_4
  · accept_entry W_accel_5_5
/-- the lower-right block of the matrix handed to the QR routine is the (lower triangle of the) prior factor W -/
theorem correct_accel_arg_W :
    (((qr_arg_mat x W y_b g omega_b std_accel std_accel_omega beta_accel_c qrQ qrR)ᵀ).submatrix finSumFinEquiv finSumFinEquiv).toBlocks₂₂ (n := Fin 2) (o := Fin 6) = lowerPart W := by
  ext i j
  simp only [toBlocks₂₂, Matrix.of_apply, submatrix_apply, transpose_apply]
  fin_cases i <;> fin_cases j <;> simp only [e1_inr0, e1_inr1, e1_inr2, e1_inr3, e1_inr4, e1_inr5, e2_inr0, e2_inr1, e2_inr2, e2_inr3, e2_inr4, e2_inr5]
  all_goals simp only [qr_arg_mat, Matrix.of_apply, Matrix.cons_val', Matrix.cons_val_zero, Matrix.cons_val_one, Matrix.cons_val, Matrix.cons_val_fin_one]
  all_goals simp [lowerPart, cas_defs, cas_real]
/-- P − W⁺W⁺ᵀ is positive semidefinite and W⁺ is lower triangular -/
theorem correct_accel_accept_cov (hQ : (Matrix.of qrQ)ᵀ * Matrix.of qrQ = 1)
    (hQR : Matrix.of qrQ * upperPart qrR = qr_arg_mat x W y_b g omega_b std_accel std_accel_omega beta_accel_c qrQ qrR)
    (h0 : error_code x W y_b g omega_b std_accel std_accel_omega beta_accel_c qrQ qrR = 0) :
    (lowerPart W * (lowerPart W)ᵀ - W_accel_mat x W y_b g omega_b std_accel std_accel_omega beta_accel_c qrQ qrR * (W_accel_mat x W y_b g omega_b std_accel std_accel_omega beta_accel_c qrQ qrR)ᵀ).PosSemidef := by
  have hA : ∀ (i : Fin 6) (j : Fin 2), qr_arg_mat x W y_b g omega_b std_accel std_accel_omega beta_accel_c qrQ qrR (finSumFinEquiv (m := 2) (n := 6) (Sum.inl j)) (finSumFinEquiv (Sum.inr i)) = 0 := by
    intro i j; fin_cases i <;> fin_cases j <;> simp only [e1_inl0, e2_inl0, e2_inl1, e1_inr0, e1_inr1, e1_inr2, e1_inr3, e1_inr4, e1_inr5, e2_inr0, e2_inr1, e2_inr2, e2_inr3, e2_inr4, e2_inr5]
    all_goals simp only [qr_arg_mat, Matrix.of_apply, Matrix.cons_val', Matrix.cons_val_zero, Matrix.cons_val_one, Matrix.cons_val, Matrix.cons_val_fin_one]
    all_goals simp [cas_defs, cas_real] <;> (try ring1)
  have hR : ∀ (i : Fin 6) (j : Fin 2), upperPart qrR (finSumFinEquiv (m := 2) (n := 6) (Sum.inr i)) (finSumFinEquiv (m := 2) (n := 6) (Sum.inl j)) = 0 := by
    intro i j; fin_cases i <;> fin_cases j <;> simp [upperPart]
  obtain ⟨_, _, d⟩ := SqrtFilter.flat (M := Fin 2) (N := Fin 6) finSumFinEquiv _ _ _ hQ hQR hA hR
  rw [correct_accel_arg_W, ← correct_accel_accept_W _ _ _ _ _ _ _ _ _ _ h0] at d
  rw [← d, add_sub_cancel_right]
  exact posSemidef_self_mul_conjTranspose _
end correct_accel_cov

/-! ### prediction: the returned MRP is in the closed unit ball and is the same rotation as the integrated one;
    the gyro bias is carried over exactly -/

/-- the shadow selection (−r/|r|² when |r|² > 1) keeps any vector in the closed unit ball -/
theorem shadow_norm_le (b0 b1 b2 : ℝ) :
    let n := b0 ^ 2 + b1 ^ 2 + b2 ^ 2
    let s := fun b : ℝ => if 1 < n then -(b / n) else b
    s b0 ^ 2 + s b1 ^ 2 + s b2 ^ 2 ≤ 1 := by
  intro n s
  by_cases h : 1 < n
  · have hn : 0 < n := by linarith
    have e : s b0 ^ 2 + s b1 ^ 2 + s b2 ^ 2 = 1 / n := by
      simp only [s, h, if_true]
      field_simp
      rfl
    rw [e, div_le_one hn]; exact h.le
  · simp only [s, h, if_false]
    exact not_lt.mp h

section predict
variable (t : ℝ) (x : Fin 6 → ℝ) (W : Fin 6 → Fin 6 → ℝ) (om : Fin 3 → ℝ) (sg sn dt : ℝ)
open Gen.mrp.predict

/-- the three attitude outputs are the shadow selection applied to the integrated MRP `x1_i__b` (structural, rfl) -/
theorem predict_shadow_form :
    let b0 := x1_0__b t x W om sg sn dt
    let b1 := x1_1__b t x W om sg sn dt
    let b2 := x1_2__b t x W om sg sn dt
    let n := b0 ^ 2 + b1 ^ 2 + b2 ^ 2
    x1_0 t x W om sg sn dt = (if 1 < n then -(b0 / n) else b0)
    ∧ x1_1 t x W om sg sn dt = (if 1 < n then -(b1 / n) else b1)
    ∧ x1_2 t x W om sg sn dt = (if 1 < n then -(b2 / n) else b2) := by
  intro b0 b1 b2 n
  have hc0 : x1_0__c t x W om sg sn dt = CasNum.lt (CasNum.ofInt 1) (CasNum.add (CasNum.add (CasNum.sq b0) (CasNum.sq b1)) (CasNum.sq b2)) := rfl
  have hc1 : x1_1__c t x W om sg sn dt = CasNum.lt (CasNum.ofInt 1) (CasNum.add (CasNum.add (CasNum.sq b0) (CasNum.sq b1)) (CasNum.sq b2)) := rfl
  have hc2 : x1_2__c t x W om sg sn dt = CasNum.lt (CasNum.ofInt 1) (CasNum.add (CasNum.add (CasNum.sq b0) (CasNum.sq b1)) (CasNum.sq b2)) := rfl
  have ha0 : x1_0__a t x W om sg sn dt = CasNum.neg (CasNum.div b0 (CasNum.add (CasNum.add (CasNum.sq b0) (CasNum.sq b1)) (CasNum.sq b2))) := rfl
  have ha1 : x1_1__a t x W om sg sn dt = CasNum.neg (CasNum.div b1 (CasNum.add (CasNum.add (CasNum.sq b0) (CasNum.sq b1)) (CasNum.sq b2))) := rfl
  have ha2 : x1_2__a t x W om sg sn dt = CasNum.neg (CasNum.div b2 (CasNum.add (CasNum.add (CasNum.sq b0) (CasNum.sq b1)) (CasNum.sq b2))) := rfl
  refine ⟨?_, ?_, ?_⟩
  · rw [x1_0_sel, hc0, ha0]; simp only [cas_real, n, pow_two]; rfl
  · rw [x1_1_sel, hc1, ha1]; simp only [cas_real, n, pow_two]; rfl
  · rw [x1_2_sel, hc2, ha2]; simp only [cas_real, n, pow_two]; rfl

/-- the predicted MRP has norm at most 1, for EVERY state, rate, step and covariance -/
theorem predict_norm :
    x1_0 t x W om sg sn dt ^ 2 + x1_1 t x W om sg sn dt ^ 2 + x1_2 t x W om sg sn dt ^ 2 ≤ 1 := by
  obtain ⟨e0, e1, e2⟩ := predict_shadow_form t x W om sg sn dt
  rw [e0, e1, e2]
  exact shadow_norm_le _ _ _

/-- … and it represents the same rotation as the integrated (pre-shadow) MRP -/
theorem predict_same_rotation :
    Rot.mrpMat ![x1_0 t x W om sg sn dt, x1_1 t x W om sg sn dt, x1_2 t x W om sg sn dt]
      = Rot.mrpMat ![x1_0__b t x W om sg sn dt, x1_1__b t x W om sg sn dt, x1_2__b t x W om sg sn dt] := by
  obtain ⟨e0, e1, e2⟩ := predict_shadow_form t x W om sg sn dt
  rw [e0, e1, e2]
  set b0 := x1_0__b t x W om sg sn dt
  set b1 := x1_1__b t x W om sg sn dt
  set b2 := x1_2__b t x W om sg sn dt
  by_cases h : 1 < b0 ^ 2 + b1 ^ 2 + b2 ^ 2
  · simp only [h, if_true]
    have hn : Rot.nsq ![b0, b1, b2] = b0 ^ 2 + b1 ^ 2 + b2 ^ 2 := by simp [Rot.nsq]
    have := Rot.mrpMat_shadow ![b0, b1, b2] (by rw [hn]; linarith)
    rw [← this]; congr 1; funext i; fin_cases i <;> simp [hn]
  · simp only [h, if_false]

/-- the gyro-bias part of the state is carried over unchanged by prediction -/
theorem predict_bias : x1_3 t x W om sg sn dt = x 3 ∧ x1_4 t x W om sg sn dt = x 4 ∧ x1_5 t x W om sg sn dt = x 5 := by
  refine ⟨?_, ?_, ?_⟩ <;> simp only [cas_defs]
end predict

/-! ### initialisation: documented error codes; a failed initialisation returns the zero state -/
section init
variable (g_b B_b : Fin 3 → ℝ) (decl : ℝ)
open Gen.mrp.initialize

theorem init_codes : error_code g_b B_b decl ∈ ({0, 1, 2, 3} : Set ℝ) := by
  simp only [cas_defs, cas_real]; split_ifs <;> simp

open Lean in
macro "init_entry " e:ident : tactic => do
  let ce := mkIdent (e.getId.appendAfter "_cut_eq")
  let cs := mkIdent (e.getId.appendAfter "_cut_sel")
  let cc := mkIdent (e.getId.appendAfter "_cut__c")
  `(tactic| (rw [$ce:ident, $cs:ident]; simp only [$cc:ident, cas_real]; simp [*]))

theorem init_reject_zero (h : error_code g_b B_b decl ≠ 0) : x0_vec g_b B_b decl = 0 := by
  funext i; fin_cases i <;> simp only [x0_vec, Matrix.cons_val_zero, Matrix.cons_val_one, Matrix.cons_val, Pi.zero_apply]
  · init_entry x0_0
  · init_entry x0_1
  · init_entry x0_2
  · simp [cas_defs, cas_real] <;> (try ring1)
  · simp [cas_defs, cas_real] <;> (try ring1)
  · simp [cas_defs, cas_real] <;> (try ring1)

/-- the initial gyro bias is zero whatever the measurements -/
theorem init_bias_zero : x0_3 g_b B_b decl = 0 ∧ x0_4 g_b B_b decl = 0 ∧ x0_5 g_b B_b decl = 0 := by
  refine ⟨?_, ?_, ?_⟩ <;> simp [cas_defs, cas_real] <;> (try ring1)
end init

end C11
