/-
  Props/C05A.lean — J_l(x) = Ad_{exp x} J_r(x) on so(3) (closed-form cell): the translated left / right Jacobians and the matrix
  exponential are all of the form x·1 + y·ω^ + z·ω^² (Lib/Flow.poly3), so the identity reduces to two scalar trigonometric
  identities; with C04E, Ad of the library's exp is that matrix exponential.
-/
import Props.C05
import Props.C04E
import Lib.Flow

set_option maxHeartbeats 4000000
open Gen Rot RotExp NormedSpace SeriesLemmas Flow

namespace C05A

/-- scalar identities behind J_l = exp(ω^) J_r -/
theorem jl_Ad_jr_scalars (t : ℝ) (ht : t ≠ 0) :
    -cFun t + sFun t - t ^ 2 * (sFun t * dFun t + cFun t * -cFun t) = cFun t
    ∧ dFun t + cFun t + sFun t * -cFun t - t ^ 2 * (cFun t * dFun t) = dFun t := by
  unfold sFun cFun dFun
  rw [if_neg ht, if_neg ht, if_neg ht]
  have h := Real.sin_sq_add_cos_sq t
  constructor
  · field_simp; nlinarith [h]
  · field_simp; ring

/-- **J_l(x) = Ad_{exp x} J_r(x)** on so(3), closed-form cell (Ad of a rotation is its matrix, C04) -/
theorem so3_jl_eq_Ad_jr (x : Fin 3 → ℝ) (h : eps ≤ C05.usq x) :
    so3.left_jacobian.M_mat x = exp (hat x) * so3.right_jacobian.M_mat x := by
  have hpos : 0 < nsq x := by rw [← C05.usq_eq]; exact lt_of_lt_of_le eps_pos h
  have hθ : Real.sqrt (nsq x) ≠ 0 := (Real.sqrt_pos.mpr hpos).ne'
  have h2 : Real.sqrt (nsq x) ^ 2 = nsq x := Real.sq_sqrt hpos.le
  obtain ⟨e1, e2⟩ := jl_Ad_jr_scalars _ hθ
  rw [C05.so3_jl_core, C05.so3_jr_core, exp_hat, sq_one_minus_cos_over_x2_closed h, sq_x_minus_sin_over_x3_closed h, C05.usq_eq]
  have p1 : (1 : Matrix (Fin 3) (Fin 3) ℝ) + sFun (Real.sqrt (nsq x)) • hat x + cFun (Real.sqrt (nsq x)) • hat x ^ 2
      = poly3 x 1 (sFun (Real.sqrt (nsq x))) (cFun (Real.sqrt (nsq x))) := by simp [poly3, pow_two]
  have p2 : (1 : Matrix (Fin 3) (Fin 3) ℝ) - cFun (Real.sqrt (nsq x)) • hat x + dFun (Real.sqrt (nsq x)) • hat x ^ 2
      = poly3 x 1 (-cFun (Real.sqrt (nsq x))) (dFun (Real.sqrt (nsq x))) := by simp [poly3, pow_two, sub_eq_add_neg]
  have p3 : (1 : Matrix (Fin 3) (Fin 3) ℝ) + cFun (Real.sqrt (nsq x)) • hat x + dFun (Real.sqrt (nsq x)) • hat x ^ 2
      = poly3 x 1 (cFun (Real.sqrt (nsq x))) (dFun (Real.sqrt (nsq x))) := by simp [poly3, pow_two]
  rw [p1, p2, p3, poly3_mul]
  generalize hn : Real.sqrt (nsq x) = n at e1 e2 h2 ⊢
  rw [← h2]
  congr 1
  · ring
  · linear_combination (-1 : ℝ) * e1
  · linear_combination (-1 : ℝ) * e2

/-- in the library's own terms: J_l(x) = Ad(exp x) · J_r(x), quaternion form of the exponential -/
theorem so3_jl_eq_AdQuat_jr (x : Fin 3 → ℝ) (h : eps ≤ C05.usq x) (h4 : eps ≤ C02.usq x / 4) :
    so3.left_jacobian.M_mat x = SO3Quat.Ad.M_mat (SO3Quat.exp.r_vec x) * so3.right_jacobian.M_mat x := by
  rw [C04E.SO3Quat_Ad_exp x h4, C04E.so3_ad_spec]
  exact so3_jl_eq_Ad_jr x h

end C05A
