/-
  Props/C08U.lean — the propagator returns THE solution of the IMU kinematics.
  For ANY differentiable curves p, v, R with  p' = v,  v' = R a − g e₃,  R' = R [ω]×  (constant a, ω, g) starting at the
  input state, the output of `rdd2.strapdown_ins_propagate` for the step dt is (p dt, v dt, R dt) — position and velocity
  exactly, attitude as the rotation of the returned quaternion — on the closed-form cell |ω dt|² ≥ 4 eps.
  Uses the uniqueness theorem of Lib/FlowUnique (no discretisation error, no other solution).
-/
import Props.C08
import Lib.FlowUnique

set_option maxHeartbeats 2000000
open Gen Rot RotExp Flow SeriesLemmas

namespace C08U

theorem propagate_is_the_solution (x0 : Fin 10 → ℝ) (a w : Fin 3 → ℝ) (g dt : ℝ) (h : eps ≤ C08.th2 w dt / 4)
    (p v : ℝ → Fin 3 → ℝ) (R : ℝ → Matrix (Fin 3) (Fin 3) ℝ)
    (hp : ∀ i t, HasDerivAt (fun s => p s i) (v t i) t)
    (hv : ∀ i t, HasDerivAt (fun s => v s i) (((R t).mulVec a) i + ![0, 0, -g] i) t)
    (hR : ∀ i j t, HasDerivAt (fun s => R s i j) ((R t * hat w) i j) t)
    (hp0 : p 0 = C08.p0 x0) (hv0 : v 0 = C08.v0 x0) (hR0 : R 0 = qmat (C08.q0 x0)) :
    ![rdd2.strapdown_ins_propagate.x1_0 x0 a w g dt, rdd2.strapdown_ins_propagate.x1_1 x0 a w g dt,
      rdd2.strapdown_ins_propagate.x1_2 x0 a w g dt] = p dt
    ∧ ![rdd2.strapdown_ins_propagate.x1_3 x0 a w g dt, rdd2.strapdown_ins_propagate.x1_4 x0 a w g dt,
      rdd2.strapdown_ins_propagate.x1_5 x0 a w g dt] = v dt
    ∧ qmat ![rdd2.strapdown_ins_propagate.x1_6 x0 a w g dt, rdd2.strapdown_ins_propagate.x1_7 x0 a w g dt,
      rdd2.strapdown_ins_propagate.x1_8 x0 a w g dt, rdd2.strapdown_ins_propagate.x1_9 x0 a w g dt] = R dt := by
  have hn : Real.sqrt (nsq w) ≠ 0 := by
    intro h0
    have hz : nsq w = 0 := le_antisymm (Real.sqrt_eq_zero'.mp h0) (nsq_nonneg w)
    have : C08.th2 w dt = 0 := by
      rw [C08.th2_eq]; have e : nsq (fun i => dt * w i) = dt ^ 2 * nsq w := by simp only [nsq]; ring
      rw [e, hz, mul_zero]
    have := eps_pos
    linarith
  obtain ⟨e1, e2, e3, _⟩ := C08.exact_flow x0 a w g dt h
  obtain ⟨u1, u2, u3⟩ := flow_unique p v R (qmat (C08.q0 x0)) (C08.p0 x0) (C08.v0 x0) a w g hn hp hv hR hp0 hv0 hR0 dt
  exact ⟨e1.trans u1.symm, e2.trans u2.symm, e3.trans u3.symm⟩

end C08U
