/-
  Props/C18G.lean — Bezier curves of EVERY degree (hand model Model/Bezier.lean, tied to the real
  `cyecca.models.bezier.Bezier` class by the C18 correspondence run):
    * De Casteljau evaluation = Bernstein polynomial of the control points, for every n;
    * start / end points;
    * `deriv(m).eval` is the exact m-th time derivative of `eval`, for every n and every m ≤ n
      (HasDerivAt, and `iteratedDeriv`), for every t inside or outside [0, T];
    * the generic model at n = 3 and n = 7 IS the translated program (`Gen.bezier.eval3/7`).
-/
import Model.Bezier
import GenM.Bezier
import Mathlib.Analysis.Calculus.Deriv.Mul
import Mathlib.Analysis.Calculus.Deriv.Add
import Mathlib.Analysis.Calculus.Deriv.Comp
import Mathlib.Analysis.Calculus.IteratedDeriv.Defs
import Mathlib.Algebra.BigOperators.Intervals
import Mathlib.Data.Nat.Choose.Sum

set_option maxHeartbeats 1000000
open BezierModel Finset

namespace C18G

/-! ## the model over ℝ in ordinary notation -/

theorem dcStep_apply (β : ℝ) (A : ℕ → ℝ) (k : ℕ) :
    dcStep β A k = A k * (1 - β) + A (k + 1) * β := by
  simp [dcStep, cas_real]

theorem iter_eq {β : Type} (f : β → β) (n : ℕ) (a : β) : iter f n a = f^[n] a := by
  induction n generalizing a with
  | zero => rfl
  | succ n ih => rw [iter, ih]; rfl

/-- De Casteljau value after n sweeps, as a function of β -/
noncomputable def e (n : ℕ) (A : ℕ → ℝ) (β : ℝ) : ℝ := ((dcStep β)^[n] A) 0

theorem eval_eq_e (n : ℕ) (T : ℝ) (P : ℕ → ℝ) (t : ℝ) : eval n T P t = e n P (t / T) := by
  simp [eval, e, iter_eq, cas_real]

def shift (A : ℕ → ℝ) : ℕ → ℝ := fun k => A (k + 1)

theorem iter_shift (β : ℝ) (n : ℕ) (A : ℕ → ℝ) :
    (dcStep β)^[n] (shift A) = shift ((dcStep β)^[n] A) := by
  induction n generalizing A with
  | zero => rfl
  | succ n ih =>
    rw [Function.iterate_succ_apply, Function.iterate_succ_apply, ← ih]
    rfl

theorem e_zero (A : ℕ → ℝ) (β : ℝ) : e 0 A β = A 0 := rfl

/-- the recursion of De Casteljau's scheme -/
theorem e_succ (n : ℕ) (A : ℕ → ℝ) (β : ℝ) :
    e (n + 1) A β = e n A β * (1 - β) + e n (shift A) β * β := by
  unfold e
  rw [Function.iterate_succ_apply', dcStep_apply, iter_shift]
  rfl

theorem e_linear (n : ℕ) (c d : ℝ) (A B : ℕ → ℝ) (β : ℝ) :
    e n (fun k => c * A k + d * B k) β = c * e n A β + d * e n B β := by
  induction n generalizing A B with
  | zero => rfl
  | succ n ih =>
    rw [e_succ, e_succ, e_succ, ih]
    have : shift (fun k => c * A k + d * B k) = fun k => c * shift A k + d * shift B k := rfl
    rw [this, ih]; ring

theorem e_smul (n : ℕ) (c : ℝ) (A : ℕ → ℝ) (β : ℝ) : e n (fun k => c * A k) β = c * e n A β := by
  have := e_linear n c 0 A A β
  simpa using this

/-! ## Bernstein form, every degree -/

/-- Bernstein polynomial of degree n of the points A 0 … A n -/
noncomputable def bern (n : ℕ) (A : ℕ → ℝ) (β : ℝ) : ℝ :=
  ∑ k ∈ range (n + 1), (n.choose k : ℝ) * (1 - β) ^ (n - k) * β ^ k * A k

theorem bern_succ (n : ℕ) (A : ℕ → ℝ) (β : ℝ) :
    bern (n + 1) A β = bern n A β * (1 - β) + bern n (shift A) β * β := by
  unfold bern shift
  -- (1 - β) · bern n A, re-indexed to exponents n + 1 - k and extended by the vanishing term k = n + 1
  have h0 : (∑ k ∈ range (n + 1), (n.choose k : ℝ) * (1 - β) ^ (n - k) * β ^ k * A k) * (1 - β)
      = ∑ k ∈ range (n + 1 + 1), (n.choose k : ℝ) * (1 - β) ^ (n + 1 - k) * β ^ k * A k := by
    rw [sum_range_succ _ (n + 1), Nat.choose_succ_self, sum_mul]
    simp only [Nat.cast_zero, zero_mul, add_zero]
    refine sum_congr rfl fun k hk => ?_
    have : n + 1 - k = (n - k) + 1 := by have := mem_range.mp hk; omega
    rw [this, pow_succ]; ring
  have h1 : (∑ k ∈ range (n + 1), (n.choose k : ℝ) * (1 - β) ^ (n - k) * β ^ k * A (k + 1)) * β
      = ∑ k ∈ range (n + 1), (n.choose k : ℝ) * (1 - β) ^ (n + 1 - (k + 1)) * β ^ (k + 1) * A (k + 1) := by
    rw [sum_mul]
    refine sum_congr rfl fun k _ => ?_
    rw [Nat.add_sub_add_right, pow_succ]; ring
  rw [h0, h1, sum_range_succ' _ (n + 1), sum_range_succ' _ (n + 1), add_right_comm, ← sum_add_distrib]
  congr 1
  · refine sum_congr rfl fun k _ => ?_
    rw [Nat.choose_succ_succ]; push_cast; ring
  · simp

/-- **De Casteljau = Bernstein, for every degree.** -/
theorem e_eq_bern (n : ℕ) (A : ℕ → ℝ) (β : ℝ) : e n A β = bern n A β := by
  induction n generalizing A with
  | zero => simp [e, bern]
  | succ n ih => rw [e_succ, bern_succ, ih, ih]

/-- `Bezier(P, T).eval(t)` is the Bernstein polynomial of the control points in β = t / T. -/
theorem eval_bernstein (n : ℕ) (T : ℝ) (P : ℕ → ℝ) (t : ℝ) :
    eval n T P t = ∑ k ∈ range (n + 1), (n.choose k : ℝ) * (1 - t / T) ^ (n - k) * (t / T) ^ k * P k := by
  rw [eval_eq_e, e_eq_bern]; rfl

theorem eval_start (n : ℕ) (T : ℝ) (P : ℕ → ℝ) : eval n T P 0 = P 0 := by
  rw [eval_bernstein, sum_range_succ']
  simp

theorem eval_end (n : ℕ) (T : ℝ) (hT : T ≠ 0) (P : ℕ → ℝ) : eval n T P T = P n := by
  rw [eval_bernstein, sum_range_succ, div_self hT]
  have : ∀ k ∈ range n, (n.choose k : ℝ) * (1 - 1) ^ (n - k) * 1 ^ k * P k = 0 := by
    intro k hk
    have : n - k ≠ 0 := by have := mem_range.mp hk; omega
    simp [this]
  rw [sum_eq_zero this]; simp

/-! ## the derivative curve, every degree and order -/

def Δ (A : ℕ → ℝ) : ℕ → ℝ := fun k => A (k + 1) - A k

theorem e_shift_sub (n : ℕ) (A : ℕ → ℝ) (β : ℝ) : e n (shift A) β - e n A β = e n (Δ A) β := by
  have := e_linear n 1 (-1) (shift A) A β
  have h : (fun k => 1 * shift A k + -1 * A k) = Δ A := by funext k; simp [Δ, shift]; ring
  rw [h] at this; rw [this]; ring

/-- derivative of De Casteljau's value with respect to β -/
theorem e_hasDerivAt (n : ℕ) (A : ℕ → ℝ) (β : ℝ) :
    HasDerivAt (fun b => e (n + 1) A b) ((n + 1 : ℝ) * e n (Δ A) β) β := by
  induction n generalizing A with
  | zero =>
    have hf : (fun b => e 1 A b) = fun b => A 0 * (1 - b) + A 1 * b := by
      funext b; rw [e_succ]; rfl
    rw [hf]
    have h := (((hasDerivAt_id β).const_sub 1).const_mul (A 0)).add ((hasDerivAt_id β).const_mul (A 1))
    have hg : ((fun y => A 0 * (1 - id y)) + fun y => A 1 * id y) = fun b => A 0 * (1 - b) + A 1 * b := by
      funext b; simp
    rw [hg] at h
    refine h.congr_deriv ?_
    simp only [e_zero, Δ]; ring
  | succ n ih =>
    have hf : (fun b => e (n + 1 + 1) A b) = fun b => e (n + 1) A b * (1 - b) + e (n + 1) (shift A) b * b := by
      funext b; rw [e_succ]
    rw [hf]
    have h := ((ih A).mul ((hasDerivAt_id β).const_sub 1)).add ((ih (shift A)).mul (hasDerivAt_id β))
    have hg : (((fun b => e (n + 1) A b) * fun y => 1 - id y) + (fun b => e (n + 1) (shift A) b) * id)
        = fun b => e (n + 1) A b * (1 - b) + e (n + 1) (shift A) b * b := by
      funext b; simp
    rw [hg] at h
    refine h.congr_deriv ?_
    have hs : Δ (shift A) = shift (Δ A) := rfl
    have hΔ := e_shift_sub (n + 1) A β
    have hrec := e_succ n (Δ A) β
    rw [hs]
    simp only [id]
    push_cast
    linear_combination (-(n + 1 : ℝ)) * hrec + hΔ

theorem npow_eq (x : ℝ) (m : ℕ) : npow x m = x ^ m := by
  induction m with
  | zero => simp [npow, cas_real]
  | succ m ih => simp [npow, cas_real, ih, pow_succ]

theorem diffStep_apply (c : ℝ) (D : ℕ → ℝ) (i : ℕ) : diffStep c D i = c * (D (i + 1) - D i) := by
  simp [diffStep, cas_real]

theorem deriv_apply (n m : ℕ) (T : ℝ) (P : ℕ → ℝ) (i : ℕ) :
    BezierModel.deriv n m T P i = derivRaw n m P i / T ^ m := by
  simp [BezierModel.deriv, cas_real, npow_eq]

/-- the control points of `deriv(m+1)` are those of `deriv(1)` of the curve `deriv(m)` (degree n − m) -/
theorem deriv_succ (n m : ℕ) (T : ℝ) (P : ℕ → ℝ) (i : ℕ) :
    BezierModel.deriv n (m + 1) T P i = ((n - m : ℕ) : ℝ) * (BezierModel.deriv n m T P (i + 1) - BezierModel.deriv n m T P i) / T := by
  rw [deriv_apply, deriv_apply, deriv_apply]
  simp only [derivRaw, diffStep_apply]
  simp only [cas_real]
  rw [pow_succ]
  by_cases hT : T = 0
  · subst hT; simp
  · field_simp

/-- **`deriv(m+1).eval` is the time derivative of `deriv(m).eval`** for every degree n, every order
    m < n, every t (inside or outside [0, T]), T ≠ 0. -/
theorem evalDeriv_hasDerivAt (n m : ℕ) (hm : m < n) (T : ℝ) (_hT : T ≠ 0) (P : ℕ → ℝ) (t : ℝ) :
    HasDerivAt (fun s => evalDeriv n m T P s) (evalDeriv n (m + 1) T P t) t := by
  unfold evalDeriv
  obtain ⟨d, hd⟩ : ∃ d, n - m = d + 1 := ⟨n - m - 1, by omega⟩
  have hd' : n - (m + 1) = d := by omega
  rw [hd, hd']
  simp only [eval_eq_e]
  have hin : HasDerivAt (fun s : ℝ => s / T) (1 / T) t := by
    simpa using (hasDerivAt_id t).div_const T
  have h := (e_hasDerivAt d (BezierModel.deriv n m T P) (t / T)).comp t hin
  refine h.congr_deriv ?_
  have hpts : BezierModel.deriv n (m + 1) T P = fun k => ((d + 1 : ℝ) / T) * Δ (BezierModel.deriv n m T P) k := by
    funext k; rw [deriv_succ, hd]; simp [Δ]; ring
  rw [hpts, e_smul]; ring

/-- order 0 of the model's derivative curve is the curve itself -/
theorem evalDeriv_zero (n : ℕ) (T : ℝ) (P : ℕ → ℝ) (t : ℝ) : evalDeriv n 0 T P t = eval n T P t := by
  unfold evalDeriv
  have : BezierModel.deriv n 0 T P = P := by funext i; simp [deriv_apply, derivRaw]
  rw [this]; rfl

/-- **every order at once**: the m-th iterated derivative of `eval` is `deriv(m).eval`, m ≤ n. -/
theorem iteratedDeriv_eval (n m : ℕ) (hm : m ≤ n) (T : ℝ) (hT : T ≠ 0) (P : ℕ → ℝ) :
    iteratedDeriv m (fun s => eval n T P s) = fun s => evalDeriv n m T P s := by
  induction m with
  | zero => funext s; simp [evalDeriv_zero]
  | succ m ih =>
    rw [iteratedDeriv_succ, ih (by omega)]
    funext s
    exact (evalDeriv_hasDerivAt n m (by omega) T hT P s).deriv

/-! ## the generic model IS the translated program, at every translated degree and derivative order
     (so the every-degree theorems above apply to `Gen.bezier.evalN`, the programs regenerated from the source) -/

/-- control points of a translated program (1 × N matrix) as the model's column function -/
def pts {N : ℕ} (P : Fin 1 → Fin N → ℝ) : ℕ → ℝ := fun k => if h : k < N then P 0 ⟨k, h⟩ else 0

macro "gen_link" : tactic =>
  `(tactic| (simp [cas_defs, cas_real, evalDeriv, eval, BezierModel.deriv, derivRaw, diffStep, npow, dcStep, iter, pts]
             try ring))

theorem gen_eval1 (P : Fin 1 → Fin 2 → ℝ) (T t : ℝ) :
    Gen.bezier.eval1.p P T t = eval 1 T (pts P) t := by gen_link
theorem gen_eval1_deriv1 (P : Fin 1 → Fin 2 → ℝ) (T t : ℝ) :
    Gen.bezier.eval1.d P T t = evalDeriv 1 1 T (pts P) t := by gen_link
theorem gen_eval2 (P : Fin 1 → Fin 3 → ℝ) (T t : ℝ) :
    Gen.bezier.eval2.p P T t = eval 2 T (pts P) t := by gen_link
theorem gen_eval2_deriv1 (P : Fin 1 → Fin 3 → ℝ) (T t : ℝ) :
    Gen.bezier.eval2.d_0 P T t = evalDeriv 2 1 T (pts P) t := by gen_link
theorem gen_eval2_deriv2 (P : Fin 1 → Fin 3 → ℝ) (T t : ℝ) :
    Gen.bezier.eval2.d_1 P T t = evalDeriv 2 2 T (pts P) t := by gen_link
theorem gen_eval3 (P : Fin 1 → Fin 4 → ℝ) (T t : ℝ) :
    Gen.bezier.eval3.p P T t = eval 3 T (pts P) t := by gen_link
theorem gen_eval3_deriv1 (P : Fin 1 → Fin 4 → ℝ) (T t : ℝ) :
    Gen.bezier.eval3.d_0 P T t = evalDeriv 3 1 T (pts P) t := by gen_link
theorem gen_eval3_deriv2 (P : Fin 1 → Fin 4 → ℝ) (T t : ℝ) :
    Gen.bezier.eval3.d_1 P T t = evalDeriv 3 2 T (pts P) t := by gen_link
theorem gen_eval3_deriv3 (P : Fin 1 → Fin 4 → ℝ) (T t : ℝ) :
    Gen.bezier.eval3.d_2 P T t = evalDeriv 3 3 T (pts P) t := by gen_link
theorem gen_eval4 (P : Fin 1 → Fin 5 → ℝ) (T t : ℝ) :
    Gen.bezier.eval4.p P T t = eval 4 T (pts P) t := by gen_link
theorem gen_eval4_deriv1 (P : Fin 1 → Fin 5 → ℝ) (T t : ℝ) :
    Gen.bezier.eval4.d_0 P T t = evalDeriv 4 1 T (pts P) t := by gen_link
theorem gen_eval4_deriv2 (P : Fin 1 → Fin 5 → ℝ) (T t : ℝ) :
    Gen.bezier.eval4.d_1 P T t = evalDeriv 4 2 T (pts P) t := by gen_link
theorem gen_eval4_deriv3 (P : Fin 1 → Fin 5 → ℝ) (T t : ℝ) :
    Gen.bezier.eval4.d_2 P T t = evalDeriv 4 3 T (pts P) t := by gen_link
theorem gen_eval4_deriv4 (P : Fin 1 → Fin 5 → ℝ) (T t : ℝ) :
    Gen.bezier.eval4.d_3 P T t = evalDeriv 4 4 T (pts P) t := by gen_link
theorem gen_eval5 (P : Fin 1 → Fin 6 → ℝ) (T t : ℝ) :
    Gen.bezier.eval5.p P T t = eval 5 T (pts P) t := by gen_link
theorem gen_eval5_deriv1 (P : Fin 1 → Fin 6 → ℝ) (T t : ℝ) :
    Gen.bezier.eval5.d_0 P T t = evalDeriv 5 1 T (pts P) t := by gen_link
theorem gen_eval5_deriv2 (P : Fin 1 → Fin 6 → ℝ) (T t : ℝ) :
    Gen.bezier.eval5.d_1 P T t = evalDeriv 5 2 T (pts P) t := by gen_link
theorem gen_eval5_deriv3 (P : Fin 1 → Fin 6 → ℝ) (T t : ℝ) :
    Gen.bezier.eval5.d_2 P T t = evalDeriv 5 3 T (pts P) t := by gen_link
theorem gen_eval5_deriv4 (P : Fin 1 → Fin 6 → ℝ) (T t : ℝ) :
    Gen.bezier.eval5.d_3 P T t = evalDeriv 5 4 T (pts P) t := by gen_link
theorem gen_eval5_deriv5 (P : Fin 1 → Fin 6 → ℝ) (T t : ℝ) :
    Gen.bezier.eval5.d_4 P T t = evalDeriv 5 5 T (pts P) t := by gen_link
theorem gen_eval6 (P : Fin 1 → Fin 7 → ℝ) (T t : ℝ) :
    Gen.bezier.eval6.p P T t = eval 6 T (pts P) t := by gen_link
theorem gen_eval6_deriv1 (P : Fin 1 → Fin 7 → ℝ) (T t : ℝ) :
    Gen.bezier.eval6.d_0 P T t = evalDeriv 6 1 T (pts P) t := by gen_link
theorem gen_eval6_deriv2 (P : Fin 1 → Fin 7 → ℝ) (T t : ℝ) :
    Gen.bezier.eval6.d_1 P T t = evalDeriv 6 2 T (pts P) t := by gen_link
theorem gen_eval6_deriv3 (P : Fin 1 → Fin 7 → ℝ) (T t : ℝ) :
    Gen.bezier.eval6.d_2 P T t = evalDeriv 6 3 T (pts P) t := by gen_link
theorem gen_eval6_deriv4 (P : Fin 1 → Fin 7 → ℝ) (T t : ℝ) :
    Gen.bezier.eval6.d_3 P T t = evalDeriv 6 4 T (pts P) t := by gen_link
theorem gen_eval6_deriv5 (P : Fin 1 → Fin 7 → ℝ) (T t : ℝ) :
    Gen.bezier.eval6.d_4 P T t = evalDeriv 6 5 T (pts P) t := by gen_link
theorem gen_eval6_deriv6 (P : Fin 1 → Fin 7 → ℝ) (T t : ℝ) :
    Gen.bezier.eval6.d_5 P T t = evalDeriv 6 6 T (pts P) t := by gen_link
theorem gen_eval7 (P : Fin 1 → Fin 8 → ℝ) (T t : ℝ) :
    Gen.bezier.eval7.p P T t = eval 7 T (pts P) t := by gen_link
theorem gen_eval7_deriv1 (P : Fin 1 → Fin 8 → ℝ) (T t : ℝ) :
    Gen.bezier.eval7.d_0 P T t = evalDeriv 7 1 T (pts P) t := by gen_link
theorem gen_eval7_deriv2 (P : Fin 1 → Fin 8 → ℝ) (T t : ℝ) :
    Gen.bezier.eval7.d_1 P T t = evalDeriv 7 2 T (pts P) t := by gen_link
theorem gen_eval7_deriv3 (P : Fin 1 → Fin 8 → ℝ) (T t : ℝ) :
    Gen.bezier.eval7.d_2 P T t = evalDeriv 7 3 T (pts P) t := by gen_link
theorem gen_eval7_deriv4 (P : Fin 1 → Fin 8 → ℝ) (T t : ℝ) :
    Gen.bezier.eval7.d_3 P T t = evalDeriv 7 4 T (pts P) t := by gen_link
theorem gen_eval7_deriv5 (P : Fin 1 → Fin 8 → ℝ) (T t : ℝ) :
    Gen.bezier.eval7.d_4 P T t = evalDeriv 7 5 T (pts P) t := by gen_link
theorem gen_eval7_deriv6 (P : Fin 1 → Fin 8 → ℝ) (T t : ℝ) :
    Gen.bezier.eval7.d_5 P T t = evalDeriv 7 6 T (pts P) t := by gen_link
theorem gen_eval7_deriv7 (P : Fin 1 → Fin 8 → ℝ) (T t : ℝ) :
    Gen.bezier.eval7.d_6 P T t = evalDeriv 7 7 T (pts P) t := by gen_link

/-! ## non-vacuity -/
example : eval 2 (2:ℝ) (fun k => (k:ℝ)) 1 = 1 := by
  rw [eval_bernstein]; simp [sum_range_succ]; norm_num

end C18G
