/-
  Props/C05.lean — Jacobians: algebraic relations, closed forms, series characterisation and
  attitude kinematics.  (The statement that Σ adⁿ/(n+1)! is the differential of exp on
  se(3)/se₂(3) is cited mathematics; see evidence.missing_for_full_property.)
-/
import GenM.SO3
import GenM.SE3
import GenM.SE23
import Lib.JacSeries
import Props.SeriesLemmas
import Mathlib.Analysis.Calculus.Deriv.Inv

set_option maxHeartbeats 8000000
open Gen Rot RotExp SeriesLemmas

namespace C05

def usq (x : Fin 3 → ℝ) : ℝ := x 0 * x 0 + x 1 * x 1 + x 2 * x 2
theorem usq_eq (x : Fin 3 → ℝ) : usq x = nsq x := by unfold usq nsq; ring

/-! ## J_l(x) = J_r(−x), for every x (all cells) -/
theorem so3_jl_eq_jr_neg (x : Fin 3 → ℝ) : so3.left_jacobian.M_mat x = so3.right_jacobian.M_mat (-x) := by
  mat_entries <;> simp [cas_defs, cas_real] <;> ring
theorem so3_jli_eq_jri_neg (x : Fin 3 → ℝ) : so3.left_jacobian_inv.M_mat x = so3.right_jacobian_inv.M_mat (-x) := by
  mat_entries <;> simp [cas_defs, cas_real] <;> ring
theorem se3_jl_eq_jr_neg (x : Fin 6 → ℝ) : se3.left_jacobian.M_mat x = se3.right_jacobian.M_mat (-x) := by
  ext i j; fin_cases i <;> fin_cases j <;> simp [cas_defs, cas_real] <;> ring
theorem se23_jl_eq_jr_neg (x : Fin 9 → ℝ) : se23.left_jacobian.M_mat x = se23.right_jacobian.M_mat (-x) := by
  ext i j; fin_cases i <;> fin_cases j <;> simp [cas_defs, cas_real] <;> ring

/-! ## so(3): core forms in the coefficient values -/
theorem so3_jl_core (x : Fin 3 → ℝ) :
    so3.left_jacobian.M_mat x = 1 + SqSeries.one_minus_cos_over_x2 (usq x) • hat x
      + SqSeries.x_minus_sin_over_x3 (usq x) • hat x ^ 2 := by
  rw [pow_two]
  mat_entries <;> simp [cas_defs, cas_real, usq, hat, Matrix.mul_apply, Fin.sum_univ_succ, Matrix.one_apply] <;> ring
theorem so3_jr_core (x : Fin 3 → ℝ) :
    so3.right_jacobian.M_mat x = 1 - SqSeries.one_minus_cos_over_x2 (usq x) • hat x
      + SqSeries.x_minus_sin_over_x3 (usq x) • hat x ^ 2 := by
  rw [pow_two]
  mat_entries <;> simp [cas_defs, cas_real, usq, hat, Matrix.mul_apply, Fin.sum_univ_succ, Matrix.one_apply] <;> ring
theorem so3_jli_core (x : Fin 3 → ℝ) :
    so3.left_jacobian_inv.M_mat x = 1 - (1 / 2 : ℝ) • hat x + SqSeries.jinv_coeff (usq x) • hat x ^ 2 := by
  rw [pow_two]
  mat_entries <;> simp [cas_defs, cas_real, usq, hat, Matrix.mul_apply, Fin.sum_univ_succ, Matrix.one_apply] <;> ring
theorem so3_jri_core (x : Fin 3 → ℝ) :
    so3.right_jacobian_inv.M_mat x = 1 + (1 / 2 : ℝ) • hat x + SqSeries.jinv_coeff (usq x) • hat x ^ 2 := by
  rw [pow_two]
  mat_entries <;> simp [cas_defs, cas_real, usq, hat, Matrix.mul_apply, Fin.sum_univ_succ, Matrix.one_apply] <;> ring

/-- on the closed-form cell the code's J_l is the left-Jacobian series Σₙ (ad_x)ⁿ/(n+1)!  (ad_x = x^) -/
theorem so3_jl_series (x : Fin 3 → ℝ) (h : eps ≤ usq x) :
    HasSum (fun n : ℕ => (((n + 1).factorial : ℝ)⁻¹) • (so3.ad.M_mat x) ^ n) (so3.left_jacobian.M_mat x) := by
  have had : so3.ad.M_mat x = hat x := by mat_entries <;> simp [cas_defs, cas_real, hat]
  have ht : Real.sqrt (nsq x) ^ 2 = nsq x := Real.sq_sqrt (nsq_nonneg x)
  have h3 : hat x ^ 3 = (-(Real.sqrt (nsq x) ^ 2)) • hat x := by rw [ht]; exact hat_pow_three x
  rw [had, so3_jl_core, sq_one_minus_cos_over_x2_closed h, sq_x_minus_sin_over_x3_closed h, usq_eq]
  letI : SeminormedRing (Matrix (Fin 3) (Fin 3) ℝ) := Matrix.linftyOpSemiNormedRing
  letI : NormedRing (Matrix (Fin 3) (Fin 3) ℝ) := Matrix.linftyOpNormedRing
  letI : NormedAlgebra ℝ (Matrix (Fin 3) (Fin 3) ℝ) := Matrix.linftyOpNormedAlgebra
  exact hasSum_jacobian_series h3

/-- the inverse-Jacobian coefficient on the closed-form cell -/
theorem jinv_coeff_closed (u : ℝ) (h : eps ≤ u) (hc : Real.cos (Real.sqrt u) ≠ 1) :
    SqSeries.jinv_coeff u
      = 1 / u + Real.sin (Real.sqrt u) / (2 * Real.sqrt u * (Real.cos (Real.sqrt u) - 1)) := by
  have hu : 0 < u := lt_of_lt_of_le eps_pos h
  have hn : ¬ |u| < 1152921504606847 * (2:ℝ) ^ (-60:ℤ) := by
    rw [abs_of_pos hu]; have := h; unfold eps at this; linarith
  have hc' : Real.cos (Real.sqrt u) - 1 ≠ 0 := sub_ne_zero.mpr hc
  have hc'' : -1 + Real.cos (Real.sqrt u) ≠ 0 := by rw [neg_add_eq_sub]; exact hc'
  have hs : Real.sqrt u ≠ 0 := (Real.sqrt_pos.mpr hu).ne'
  simp only [cas_series, cas_real]
  rw [if_neg hn, rpow_neg_half hu]
  field_simp
  ring

/-- the two scalar identities behind J_l J_l⁻¹ = 1 -/
theorem jl_jli_scalars (t : ℝ) (ht : t ≠ 0) (hc : Real.cos t ≠ 1) :
    cFun t + -(1 / 2) - t ^ 2 * (cFun t * (1 / t ^ 2 + Real.sin t / (2 * t * (Real.cos t - 1))) + dFun t * -(1 / 2)) = 0
    ∧ (1 / t ^ 2 + Real.sin t / (2 * t * (Real.cos t - 1))) + cFun t * -(1 / 2) + dFun t
        - t ^ 2 * (dFun t * (1 / t ^ 2 + Real.sin t / (2 * t * (Real.cos t - 1)))) = 0 := by
  have hc' : Real.cos t - 1 ≠ 0 := sub_ne_zero.mpr hc
  have hp := Real.sin_sq_add_cos_sq t
  unfold cFun dFun
  rw [if_neg ht, if_neg ht]
  constructor
  · field_simp; ring
  · field_simp; linear_combination (t) * hp

/-- J_l J_l⁻¹ = 1 on the closed-form cell, for every angle with cos θ ≠ 1 (all θ in [√eps, 2π)) -/
theorem so3_jl_jli (x : Fin 3 → ℝ) (h : eps ≤ usq x) (hc : Real.cos (Real.sqrt (nsq x)) ≠ 1) :
    so3.left_jacobian.M_mat x * so3.left_jacobian_inv.M_mat x = 1 := by
  have hu : 0 < nsq x := by rw [← usq_eq]; exact lt_of_lt_of_le eps_pos h
  have ht0 : Real.sqrt (nsq x) ≠ 0 := (Real.sqrt_pos.mpr hu).ne'
  have ht : Real.sqrt (nsq x) ^ 2 = nsq x := Real.sq_sqrt hu.le
  obtain ⟨ha, hb⟩ := jl_jli_scalars (Real.sqrt (nsq x)) ht0 hc
  rw [ht] at ha hb
  have h' : eps ≤ nsq x := by rw [← usq_eq]; exact h
  rw [so3_jl_core, so3_jli_core, sq_one_minus_cos_over_x2_closed h, sq_x_minus_sin_over_x3_closed h, usq_eq,
    jinv_coeff_closed _ h' hc, sub_eq_add_neg, ← neg_smul, hat_quad_mul, ha, hb]
  simp

/-- the same for the right Jacobian -/
theorem so3_jr_jri (x : Fin 3 → ℝ) (h : eps ≤ usq x) (hc : Real.cos (Real.sqrt (nsq x)) ≠ 1) :
    so3.right_jacobian.M_mat x * so3.right_jacobian_inv.M_mat x = 1 := by
  have hu : 0 < nsq x := by rw [← usq_eq]; exact lt_of_lt_of_le eps_pos h
  have ht0 : Real.sqrt (nsq x) ≠ 0 := (Real.sqrt_pos.mpr hu).ne'
  have ht : Real.sqrt (nsq x) ^ 2 = nsq x := Real.sq_sqrt hu.le
  obtain ⟨ha, hb⟩ := jl_jli_scalars (Real.sqrt (nsq x)) ht0 hc
  rw [ht] at ha hb
  have h' : eps ≤ nsq x := by rw [← usq_eq]; exact h
  rw [so3_jr_core, so3_jri_core, sq_one_minus_cos_over_x2_closed h, sq_x_minus_sin_over_x3_closed h, usq_eq,
    jinv_coeff_closed _ h' hc, sub_eq_add_neg, ← neg_smul, hat_quad_mul]
  have ha' : -cFun (Real.sqrt (nsq x)) + 1 / 2
      - nsq x * (-cFun (Real.sqrt (nsq x)) * (1 / nsq x + Real.sin (Real.sqrt (nsq x)) / (2 * Real.sqrt (nsq x) * (Real.cos (Real.sqrt (nsq x)) - 1)))
          + dFun (Real.sqrt (nsq x)) * (1 / 2)) = 0 := by linarith [ha]
  have hb' : (1 / nsq x + Real.sin (Real.sqrt (nsq x)) / (2 * Real.sqrt (nsq x) * (Real.cos (Real.sqrt (nsq x)) - 1)))
      + -cFun (Real.sqrt (nsq x)) * (1 / 2) + dFun (Real.sqrt (nsq x))
      - nsq x * (dFun (Real.sqrt (nsq x)) * (1 / nsq x + Real.sin (Real.sqrt (nsq x)) / (2 * Real.sqrt (nsq x) * (Real.cos (Real.sqrt (nsq x)) - 1)))) = 0 := by
    linarith [hb]
  rw [ha', hb']
  simp

/-! ## quaternion kinematic Jacobians: q' = J ω gives R' = [ω]× R (world frame) / R [ω]× (body frame),
    and the quaternion norm is preserved, for EVERY quaternion -/
theorem SO3Quat_left_kinematics (q : Fin 4 → ℝ) (w : Fin 3 → ℝ) :
    dqmat q ((SO3Quat.left_jacobian.M_mat q).mulVec w) = hat w * qmat q := by
  mat_entries <;>
    simp [cas_defs, cas_real, dqmat, qmat, hat, Matrix.mulVec, dotProduct, Matrix.mul_apply, Fin.sum_univ_succ] <;> ring
theorem SO3Quat_right_kinematics (q : Fin 4 → ℝ) (w : Fin 3 → ℝ) :
    dqmat q ((SO3Quat.right_jacobian.M_mat q).mulVec w) = qmat q * hat w := by
  mat_entries <;>
    simp [cas_defs, cas_real, dqmat, qmat, hat, Matrix.mulVec, dotProduct, Matrix.mul_apply, Fin.sum_univ_succ] <;> ring
theorem SO3Quat_left_norm (q : Fin 4 → ℝ) (w : Fin 3 → ℝ) :
    q ⬝ᵥ (SO3Quat.left_jacobian.M_mat q).mulVec w = 0 := by
  simp [cas_defs, cas_real, Matrix.mulVec, dotProduct, Fin.sum_univ_succ]; ring
theorem SO3Quat_right_norm (q : Fin 4 → ℝ) (w : Fin 3 → ℝ) :
    q ⬝ᵥ (SO3Quat.right_jacobian.M_mat q).mulVec w = 0 := by
  simp [cas_defs, cas_real, Matrix.mulVec, dotProduct, Fin.sum_univ_succ]; ring

/-- along any differentiable quaternion curve driven by the world-frame Jacobian, R' = [ω]× R -/
theorem SO3Quat_left_curve (q : ℝ → Fin 4 → ℝ) (w : Fin 3 → ℝ) (t : ℝ)
    (h : ∀ i, HasDerivAt (fun s => q s i) ((SO3Quat.left_jacobian.M_mat (q t)).mulVec w i) t) (i j : Fin 3) :
    HasDerivAt (fun s => qmat (q s) i j) ((hat w * qmat (q t)) i j) t := by
  rw [← SO3Quat_left_kinematics]; exact hasDerivAt_qmat q _ t h i j
theorem SO3Quat_right_curve (q : ℝ → Fin 4 → ℝ) (w : Fin 3 → ℝ) (t : ℝ)
    (h : ∀ i, HasDerivAt (fun s => q s i) ((SO3Quat.right_jacobian.M_mat (q t)).mulVec w i) t) (i j : Fin 3) :
    HasDerivAt (fun s => qmat (q s) i j) ((qmat (q t) * hat w) i j) t := by
  rw [← SO3Quat_right_kinematics]; exact hasDerivAt_qmat q _ t h i j

/-! ## MRP body-frame Jacobian: r' = B(r) ω gives R' = R [ω]× along every differentiable curve -/

theorem SO3Mrp_kinematics_0_0 (r0 r1 r2 : ℝ → ℝ) (w : Fin 3 → ℝ) (t : ℝ)
    (h0 : HasDerivAt r0 ((SO3Mrp.right_jacobian.M_mat ![r0 t, r1 t, r2 t]).mulVec w 0) t)
    (h1 : HasDerivAt r1 ((SO3Mrp.right_jacobian.M_mat ![r0 t, r1 t, r2 t]).mulVec w 1) t)
    (h2 : HasDerivAt r2 ((SO3Mrp.right_jacobian.M_mat ![r0 t, r1 t, r2 t]).mulVec w 2) t) :
    HasDerivAt (fun s => SO3Mrp.toMatrix.M_0_0 ![r0 s, r1 s, r2 s])
      ((SO3Mrp.toMatrix.M_mat ![r0 t, r1 t, r2 t] * hat w) 0 0) t := by
  have d0 := h0.differentiableAt; have d1 := h1.differentiableAt; have d2 := h2.differentiableAt
  have e0 := h0.deriv; have e1 := h1.deriv; have e2 := h2.deriv
  simp only [cas_defs, cas_real] at e0 e1 e2 ⊢
  simp [Matrix.mulVec, dotProduct, Fin.sum_univ_succ, Matrix.mul_apply, hat] at e0 e1 e2 ⊢
  have hn : (1 + (r0 t * r0 t + r1 t * r1 t + r2 t * r2 t)) ≠ 0 := by
    nlinarith [mul_self_nonneg (r0 t), mul_self_nonneg (r1 t), mul_self_nonneg (r2 t)]
  have hnn : (1 + (r0 t * r0 t + r1 t * r1 t + r2 t * r2 t)) * (1 + (r0 t * r0 t + r1 t * r1 t + r2 t * r2 t)) ≠ 0 :=
    mul_ne_zero hn hn
  refine HasDerivAt.congr_deriv (DifferentiableAt.hasDerivAt (by fun_prop (disch := assumption))) ?_
  simp (disch := first | assumption | fun_prop (disch := assumption))
    [deriv_fun_div, deriv_fun_add, deriv_fun_mul, deriv_fun_sub, deriv_const, e0, e1, e2]
  field_simp
  ring

theorem SO3Mrp_kinematics_0_1 (r0 r1 r2 : ℝ → ℝ) (w : Fin 3 → ℝ) (t : ℝ)
    (h0 : HasDerivAt r0 ((SO3Mrp.right_jacobian.M_mat ![r0 t, r1 t, r2 t]).mulVec w 0) t)
    (h1 : HasDerivAt r1 ((SO3Mrp.right_jacobian.M_mat ![r0 t, r1 t, r2 t]).mulVec w 1) t)
    (h2 : HasDerivAt r2 ((SO3Mrp.right_jacobian.M_mat ![r0 t, r1 t, r2 t]).mulVec w 2) t) :
    HasDerivAt (fun s => SO3Mrp.toMatrix.M_0_1 ![r0 s, r1 s, r2 s])
      ((SO3Mrp.toMatrix.M_mat ![r0 t, r1 t, r2 t] * hat w) 0 1) t := by
  have d0 := h0.differentiableAt; have d1 := h1.differentiableAt; have d2 := h2.differentiableAt
  have e0 := h0.deriv; have e1 := h1.deriv; have e2 := h2.deriv
  simp only [cas_defs, cas_real] at e0 e1 e2 ⊢
  simp [Matrix.mulVec, dotProduct, Fin.sum_univ_succ, Matrix.mul_apply, hat] at e0 e1 e2 ⊢
  have hn : (1 + (r0 t * r0 t + r1 t * r1 t + r2 t * r2 t)) ≠ 0 := by
    nlinarith [mul_self_nonneg (r0 t), mul_self_nonneg (r1 t), mul_self_nonneg (r2 t)]
  have hnn : (1 + (r0 t * r0 t + r1 t * r1 t + r2 t * r2 t)) * (1 + (r0 t * r0 t + r1 t * r1 t + r2 t * r2 t)) ≠ 0 :=
    mul_ne_zero hn hn
  refine HasDerivAt.congr_deriv (DifferentiableAt.hasDerivAt (by fun_prop (disch := assumption))) ?_
  simp (disch := first | assumption | fun_prop (disch := assumption))
    [deriv_fun_div, deriv_fun_add, deriv_fun_mul, deriv_fun_sub, deriv_const, e0, e1, e2]
  field_simp
  ring

theorem SO3Mrp_kinematics_0_2 (r0 r1 r2 : ℝ → ℝ) (w : Fin 3 → ℝ) (t : ℝ)
    (h0 : HasDerivAt r0 ((SO3Mrp.right_jacobian.M_mat ![r0 t, r1 t, r2 t]).mulVec w 0) t)
    (h1 : HasDerivAt r1 ((SO3Mrp.right_jacobian.M_mat ![r0 t, r1 t, r2 t]).mulVec w 1) t)
    (h2 : HasDerivAt r2 ((SO3Mrp.right_jacobian.M_mat ![r0 t, r1 t, r2 t]).mulVec w 2) t) :
    HasDerivAt (fun s => SO3Mrp.toMatrix.M_0_2 ![r0 s, r1 s, r2 s])
      ((SO3Mrp.toMatrix.M_mat ![r0 t, r1 t, r2 t] * hat w) 0 2) t := by
  have d0 := h0.differentiableAt; have d1 := h1.differentiableAt; have d2 := h2.differentiableAt
  have e0 := h0.deriv; have e1 := h1.deriv; have e2 := h2.deriv
  simp only [cas_defs, cas_real] at e0 e1 e2 ⊢
  simp [Matrix.mulVec, dotProduct, Fin.sum_univ_succ, Matrix.mul_apply, hat] at e0 e1 e2 ⊢
  have hn : (1 + (r0 t * r0 t + r1 t * r1 t + r2 t * r2 t)) ≠ 0 := by
    nlinarith [mul_self_nonneg (r0 t), mul_self_nonneg (r1 t), mul_self_nonneg (r2 t)]
  have hnn : (1 + (r0 t * r0 t + r1 t * r1 t + r2 t * r2 t)) * (1 + (r0 t * r0 t + r1 t * r1 t + r2 t * r2 t)) ≠ 0 :=
    mul_ne_zero hn hn
  refine HasDerivAt.congr_deriv (DifferentiableAt.hasDerivAt (by fun_prop (disch := assumption))) ?_
  simp (disch := first | assumption | fun_prop (disch := assumption))
    [deriv_fun_div, deriv_fun_add, deriv_fun_mul, deriv_fun_sub, deriv_const, e0, e1, e2]
  field_simp
  ring

theorem SO3Mrp_kinematics_1_0 (r0 r1 r2 : ℝ → ℝ) (w : Fin 3 → ℝ) (t : ℝ)
    (h0 : HasDerivAt r0 ((SO3Mrp.right_jacobian.M_mat ![r0 t, r1 t, r2 t]).mulVec w 0) t)
    (h1 : HasDerivAt r1 ((SO3Mrp.right_jacobian.M_mat ![r0 t, r1 t, r2 t]).mulVec w 1) t)
    (h2 : HasDerivAt r2 ((SO3Mrp.right_jacobian.M_mat ![r0 t, r1 t, r2 t]).mulVec w 2) t) :
    HasDerivAt (fun s => SO3Mrp.toMatrix.M_1_0 ![r0 s, r1 s, r2 s])
      ((SO3Mrp.toMatrix.M_mat ![r0 t, r1 t, r2 t] * hat w) 1 0) t := by
  have d0 := h0.differentiableAt; have d1 := h1.differentiableAt; have d2 := h2.differentiableAt
  have e0 := h0.deriv; have e1 := h1.deriv; have e2 := h2.deriv
  simp only [cas_defs, cas_real] at e0 e1 e2 ⊢
  simp [Matrix.mulVec, dotProduct, Fin.sum_univ_succ, Matrix.mul_apply, hat] at e0 e1 e2 ⊢
  have hn : (1 + (r0 t * r0 t + r1 t * r1 t + r2 t * r2 t)) ≠ 0 := by
    nlinarith [mul_self_nonneg (r0 t), mul_self_nonneg (r1 t), mul_self_nonneg (r2 t)]
  have hnn : (1 + (r0 t * r0 t + r1 t * r1 t + r2 t * r2 t)) * (1 + (r0 t * r0 t + r1 t * r1 t + r2 t * r2 t)) ≠ 0 :=
    mul_ne_zero hn hn
  refine HasDerivAt.congr_deriv (DifferentiableAt.hasDerivAt (by fun_prop (disch := assumption))) ?_
  simp (disch := first | assumption | fun_prop (disch := assumption))
    [deriv_fun_div, deriv_fun_add, deriv_fun_mul, deriv_fun_sub, deriv_const, e0, e1, e2]
  field_simp
  ring

theorem SO3Mrp_kinematics_1_1 (r0 r1 r2 : ℝ → ℝ) (w : Fin 3 → ℝ) (t : ℝ)
    (h0 : HasDerivAt r0 ((SO3Mrp.right_jacobian.M_mat ![r0 t, r1 t, r2 t]).mulVec w 0) t)
    (h1 : HasDerivAt r1 ((SO3Mrp.right_jacobian.M_mat ![r0 t, r1 t, r2 t]).mulVec w 1) t)
    (h2 : HasDerivAt r2 ((SO3Mrp.right_jacobian.M_mat ![r0 t, r1 t, r2 t]).mulVec w 2) t) :
    HasDerivAt (fun s => SO3Mrp.toMatrix.M_1_1 ![r0 s, r1 s, r2 s])
      ((SO3Mrp.toMatrix.M_mat ![r0 t, r1 t, r2 t] * hat w) 1 1) t := by
  have d0 := h0.differentiableAt; have d1 := h1.differentiableAt; have d2 := h2.differentiableAt
  have e0 := h0.deriv; have e1 := h1.deriv; have e2 := h2.deriv
  simp only [cas_defs, cas_real] at e0 e1 e2 ⊢
  simp [Matrix.mulVec, dotProduct, Fin.sum_univ_succ, Matrix.mul_apply, hat] at e0 e1 e2 ⊢
  have hn : (1 + (r0 t * r0 t + r1 t * r1 t + r2 t * r2 t)) ≠ 0 := by
    nlinarith [mul_self_nonneg (r0 t), mul_self_nonneg (r1 t), mul_self_nonneg (r2 t)]
  have hnn : (1 + (r0 t * r0 t + r1 t * r1 t + r2 t * r2 t)) * (1 + (r0 t * r0 t + r1 t * r1 t + r2 t * r2 t)) ≠ 0 :=
    mul_ne_zero hn hn
  refine HasDerivAt.congr_deriv (DifferentiableAt.hasDerivAt (by fun_prop (disch := assumption))) ?_
  simp (disch := first | assumption | fun_prop (disch := assumption))
    [deriv_fun_div, deriv_fun_add, deriv_fun_mul, deriv_fun_sub, deriv_const, e0, e1, e2]
  field_simp
  ring

theorem SO3Mrp_kinematics_1_2 (r0 r1 r2 : ℝ → ℝ) (w : Fin 3 → ℝ) (t : ℝ)
    (h0 : HasDerivAt r0 ((SO3Mrp.right_jacobian.M_mat ![r0 t, r1 t, r2 t]).mulVec w 0) t)
    (h1 : HasDerivAt r1 ((SO3Mrp.right_jacobian.M_mat ![r0 t, r1 t, r2 t]).mulVec w 1) t)
    (h2 : HasDerivAt r2 ((SO3Mrp.right_jacobian.M_mat ![r0 t, r1 t, r2 t]).mulVec w 2) t) :
    HasDerivAt (fun s => SO3Mrp.toMatrix.M_1_2 ![r0 s, r1 s, r2 s])
      ((SO3Mrp.toMatrix.M_mat ![r0 t, r1 t, r2 t] * hat w) 1 2) t := by
  have d0 := h0.differentiableAt; have d1 := h1.differentiableAt; have d2 := h2.differentiableAt
  have e0 := h0.deriv; have e1 := h1.deriv; have e2 := h2.deriv
  simp only [cas_defs, cas_real] at e0 e1 e2 ⊢
  simp [Matrix.mulVec, dotProduct, Fin.sum_univ_succ, Matrix.mul_apply, hat] at e0 e1 e2 ⊢
  have hn : (1 + (r0 t * r0 t + r1 t * r1 t + r2 t * r2 t)) ≠ 0 := by
    nlinarith [mul_self_nonneg (r0 t), mul_self_nonneg (r1 t), mul_self_nonneg (r2 t)]
  have hnn : (1 + (r0 t * r0 t + r1 t * r1 t + r2 t * r2 t)) * (1 + (r0 t * r0 t + r1 t * r1 t + r2 t * r2 t)) ≠ 0 :=
    mul_ne_zero hn hn
  refine HasDerivAt.congr_deriv (DifferentiableAt.hasDerivAt (by fun_prop (disch := assumption))) ?_
  simp (disch := first | assumption | fun_prop (disch := assumption))
    [deriv_fun_div, deriv_fun_add, deriv_fun_mul, deriv_fun_sub, deriv_const, e0, e1, e2]
  field_simp
  ring

theorem SO3Mrp_kinematics_2_0 (r0 r1 r2 : ℝ → ℝ) (w : Fin 3 → ℝ) (t : ℝ)
    (h0 : HasDerivAt r0 ((SO3Mrp.right_jacobian.M_mat ![r0 t, r1 t, r2 t]).mulVec w 0) t)
    (h1 : HasDerivAt r1 ((SO3Mrp.right_jacobian.M_mat ![r0 t, r1 t, r2 t]).mulVec w 1) t)
    (h2 : HasDerivAt r2 ((SO3Mrp.right_jacobian.M_mat ![r0 t, r1 t, r2 t]).mulVec w 2) t) :
    HasDerivAt (fun s => SO3Mrp.toMatrix.M_2_0 ![r0 s, r1 s, r2 s])
      ((SO3Mrp.toMatrix.M_mat ![r0 t, r1 t, r2 t] * hat w) 2 0) t := by
  have d0 := h0.differentiableAt; have d1 := h1.differentiableAt; have d2 := h2.differentiableAt
  have e0 := h0.deriv; have e1 := h1.deriv; have e2 := h2.deriv
  simp only [cas_defs, cas_real] at e0 e1 e2 ⊢
  simp [Matrix.mulVec, dotProduct, Fin.sum_univ_succ, Matrix.mul_apply, hat] at e0 e1 e2 ⊢
  have hn : (1 + (r0 t * r0 t + r1 t * r1 t + r2 t * r2 t)) ≠ 0 := by
    nlinarith [mul_self_nonneg (r0 t), mul_self_nonneg (r1 t), mul_self_nonneg (r2 t)]
  have hnn : (1 + (r0 t * r0 t + r1 t * r1 t + r2 t * r2 t)) * (1 + (r0 t * r0 t + r1 t * r1 t + r2 t * r2 t)) ≠ 0 :=
    mul_ne_zero hn hn
  refine HasDerivAt.congr_deriv (DifferentiableAt.hasDerivAt (by fun_prop (disch := assumption))) ?_
  simp (disch := first | assumption | fun_prop (disch := assumption))
    [deriv_fun_div, deriv_fun_add, deriv_fun_mul, deriv_fun_sub, deriv_const, e0, e1, e2]
  field_simp
  ring

theorem SO3Mrp_kinematics_2_1 (r0 r1 r2 : ℝ → ℝ) (w : Fin 3 → ℝ) (t : ℝ)
    (h0 : HasDerivAt r0 ((SO3Mrp.right_jacobian.M_mat ![r0 t, r1 t, r2 t]).mulVec w 0) t)
    (h1 : HasDerivAt r1 ((SO3Mrp.right_jacobian.M_mat ![r0 t, r1 t, r2 t]).mulVec w 1) t)
    (h2 : HasDerivAt r2 ((SO3Mrp.right_jacobian.M_mat ![r0 t, r1 t, r2 t]).mulVec w 2) t) :
    HasDerivAt (fun s => SO3Mrp.toMatrix.M_2_1 ![r0 s, r1 s, r2 s])
      ((SO3Mrp.toMatrix.M_mat ![r0 t, r1 t, r2 t] * hat w) 2 1) t := by
  have d0 := h0.differentiableAt; have d1 := h1.differentiableAt; have d2 := h2.differentiableAt
  have e0 := h0.deriv; have e1 := h1.deriv; have e2 := h2.deriv
  simp only [cas_defs, cas_real] at e0 e1 e2 ⊢
  simp [Matrix.mulVec, dotProduct, Fin.sum_univ_succ, Matrix.mul_apply, hat] at e0 e1 e2 ⊢
  have hn : (1 + (r0 t * r0 t + r1 t * r1 t + r2 t * r2 t)) ≠ 0 := by
    nlinarith [mul_self_nonneg (r0 t), mul_self_nonneg (r1 t), mul_self_nonneg (r2 t)]
  have hnn : (1 + (r0 t * r0 t + r1 t * r1 t + r2 t * r2 t)) * (1 + (r0 t * r0 t + r1 t * r1 t + r2 t * r2 t)) ≠ 0 :=
    mul_ne_zero hn hn
  refine HasDerivAt.congr_deriv (DifferentiableAt.hasDerivAt (by fun_prop (disch := assumption))) ?_
  simp (disch := first | assumption | fun_prop (disch := assumption))
    [deriv_fun_div, deriv_fun_add, deriv_fun_mul, deriv_fun_sub, deriv_const, e0, e1, e2]
  field_simp
  ring

theorem SO3Mrp_kinematics_2_2 (r0 r1 r2 : ℝ → ℝ) (w : Fin 3 → ℝ) (t : ℝ)
    (h0 : HasDerivAt r0 ((SO3Mrp.right_jacobian.M_mat ![r0 t, r1 t, r2 t]).mulVec w 0) t)
    (h1 : HasDerivAt r1 ((SO3Mrp.right_jacobian.M_mat ![r0 t, r1 t, r2 t]).mulVec w 1) t)
    (h2 : HasDerivAt r2 ((SO3Mrp.right_jacobian.M_mat ![r0 t, r1 t, r2 t]).mulVec w 2) t) :
    HasDerivAt (fun s => SO3Mrp.toMatrix.M_2_2 ![r0 s, r1 s, r2 s])
      ((SO3Mrp.toMatrix.M_mat ![r0 t, r1 t, r2 t] * hat w) 2 2) t := by
  have d0 := h0.differentiableAt; have d1 := h1.differentiableAt; have d2 := h2.differentiableAt
  have e0 := h0.deriv; have e1 := h1.deriv; have e2 := h2.deriv
  simp only [cas_defs, cas_real] at e0 e1 e2 ⊢
  simp [Matrix.mulVec, dotProduct, Fin.sum_univ_succ, Matrix.mul_apply, hat] at e0 e1 e2 ⊢
  have hn : (1 + (r0 t * r0 t + r1 t * r1 t + r2 t * r2 t)) ≠ 0 := by
    nlinarith [mul_self_nonneg (r0 t), mul_self_nonneg (r1 t), mul_self_nonneg (r2 t)]
  have hnn : (1 + (r0 t * r0 t + r1 t * r1 t + r2 t * r2 t)) * (1 + (r0 t * r0 t + r1 t * r1 t + r2 t * r2 t)) ≠ 0 :=
    mul_ne_zero hn hn
  refine HasDerivAt.congr_deriv (DifferentiableAt.hasDerivAt (by fun_prop (disch := assumption))) ?_
  simp (disch := first | assumption | fun_prop (disch := assumption))
    [deriv_fun_div, deriv_fun_add, deriv_fun_mul, deriv_fun_sub, deriv_const, e0, e1, e2]
  field_simp
  ring


end C05
