/-
  Props/C15A.lean — the log-linear SO(3) attitude law (`rdd2_loglinear.derive_so3_attitude_control`):
  for EVERY input the command is  J_l(e) · diag(kp) · e  with  e = log(q⁻¹ ⊗ q_r)  the library's QUATERNION
  log of the error quaternion (principal rotation vector, same for ±q_r — C03) and J_l the so(3) left
  Jacobian (C05).  Any other way of forming the error (matrix log, right-invariant error, other Jacobian)
  breaks this theorem.  Kept apart from Props/C15 because the three component goals are large.
-/
import GenM.Ctrl
import GenM.SO3
import Lib.Rot
set_option maxHeartbeats 4000000
set_option maxRecDepth 1000000
open Gen Rot

namespace C15A

theorem so3_attitude_law (kp : Fin 3 → ℝ) (q qr : Fin 4 → ℝ) (i : Fin 3) :
    loglinear.so3_attitude_control.omega_vec kp q qr i
      = (so3.left_jacobian.M_mat (SO3Quat.log.r_vec (qmul (qconj q) qr))).mulVec
          (fun j => kp j * SO3Quat.log.r_vec (qmul (qconj q) qr) j) i := by
  fin_cases i <;> simp [cas_defs, cas_real, qmul, qconj, Matrix.mulVec, dotProduct, Fin.sum_univ_succ] <;> ring_nf

end C15A
