/-
  Props/C02.lean — the group exponential is the matrix exponential of the algebra element.

  For each group: (i) a *core* identity, valid for every input, expressing M(exp x) through the
  series coefficient values the code consumes (calls to `Gen.SqSeries.*` stay calls);
  (ii) on the closed-form cell of those coefficients (argument ≥ the switch `eps` ≈ 1e-3) and at
  exactly zero rotation: M(exp x) = `NormedSpace.exp` (hat x), with no bound on the angle.
  Taylor cells (0 < θ² < eps) are covered by the truncation bounds of C06, not here.
-/
import GenM.SO2
import GenM.SE2
import GenM.Rn
import GenM.SO3
import GenM.SE3
import GenM.SE23
import Lib.ExpForms
import Props.SeriesLemmas

set_option maxHeartbeats 4000000
open Gen Rot RotExp NormedSpace SeriesLemmas

namespace C02

/-- θ² as the code computes it -/
def usq (x : Fin 3 → ℝ) : ℝ := x 0 * x 0 + x 1 * x 1 + x 2 * x 2
theorem usq_eq (x : Fin 3 → ℝ) : usq x = nsq x := by unfold usq nsq; ring

theorem so3_hat (x : Fin 3 → ℝ) : so3.toMatrix.M_mat x = hat x := by
  mat_entries <;> simp [cas_defs, cas_real, hat] <;> (try ring1)

/-! ## SO(3), DCM form -/
theorem SO3Dcm_exp_core (x : Fin 3 → ℝ) :
    SO3Dcm.toMatrix.M_mat (SO3Dcm.exp.r_vec x)
      = 1 + SqSeries.sin_x_over_x (usq x) • hat x + SqSeries.one_minus_cos_over_x2 (usq x) • hat x ^ 2 := by
  rw [pow_two]
  mat_entries <;>
    simp [cas_defs, cas_real, usq, hat, Matrix.mul_apply, Fin.sum_univ_succ, Matrix.one_apply] <;> ring

/-- exact for every rotation angle on the closed-form cell (θ² ≥ eps; no upper bound) -/
theorem SO3Dcm_exp (x : Fin 3 → ℝ) (h : eps ≤ usq x) :
    SO3Dcm.toMatrix.M_mat (SO3Dcm.exp.r_vec x) = exp (so3.toMatrix.M_mat x) := by
  rw [SO3Dcm_exp_core, so3_hat, exp_hat, sq_sin_x_over_x_closed h, sq_one_minus_cos_over_x2_closed h, usq_eq]

/-- exact at zero rotation -/
theorem SO3Dcm_exp_zero : SO3Dcm.toMatrix.M_mat (SO3Dcm.exp.r_vec (0 : Fin 3 → ℝ)) = exp (so3.toMatrix.M_mat 0) := by
  rw [SO3Dcm_exp_core, so3_hat]
  have : hat (0 : Fin 3 → ℝ) = 0 := by mat_entries <;> simp [hat]
  simp [this]

/-! ## SO(3), quaternion form -/
theorem SO3Quat_exp_spec (x : Fin 3 → ℝ) :
    SO3Quat.exp.r_vec x = ![SqSeries.cos_x (usq x / 4), SqSeries.sin_x_over_x (usq x / 4) / 2 * x 0,
      SqSeries.sin_x_over_x (usq x / 4) / 2 * x 1, SqSeries.sin_x_over_x (usq x / 4) / 2 * x 2] := by
  funext i; fin_cases i <;> simp [cas_defs, cas_real, usq] <;> ring_nf

theorem sqrt_quarter (u : ℝ) : Real.sqrt (u / 4) = Real.sqrt u / 2 := by
  rw [Real.sqrt_div' u (by norm_num : (0:ℝ) ≤ 4)]
  have : Real.sqrt 4 = 2 := by
    rw [show (4:ℝ) = 2 ^ 2 by norm_num]; exact Real.sqrt_sq (by norm_num)
  rw [this]

/-- on the closed-form cell of the half-angle series (θ² ≥ 4 eps) the quaternion is exactly
    (cos θ/2, sin(θ/2)/θ · ω): unit norm and `R(q) = exp(ω^)`, for every angle (beyond π too) -/
theorem SO3Quat_exp (x : Fin 3 → ℝ) (h : eps ≤ usq x / 4) :
    qnormSq (SO3Quat.exp.r_vec x) = 1
      ∧ SO3Quat.toMatrix.M_mat (SO3Quat.exp.r_vec x) = exp (so3.toMatrix.M_mat x) := by
  have hq : SO3Quat.exp.r_vec x = qexp x := by
    rw [SO3Quat_exp_spec, sq_cos_x_closed h, sq_sin_x_over_x_closed h, sqrt_quarter, usq_eq]
    rfl
  have hM : SO3Quat.toMatrix.M_mat (SO3Quat.exp.r_vec x) = qmat (SO3Quat.exp.r_vec x) := by
    mat_entries <;> simp [cas_defs, cas_real, qmat] <;> ring
  rw [hM, hq, so3_hat]
  exact ⟨qnormSq_qexp x, qmat_qexp x⟩

theorem SO3Quat_exp_zero : SO3Quat.exp.r_vec (0 : Fin 3 → ℝ) = ![1, 0, 0, 0] := by
  rw [SO3Quat_exp_spec]
  simp [usq, sq_cos_x_zero]

/-! ## SO(2), SE(2), ℝⁿ -/
theorem SO2_exp (x : ℝ) : SO2.toMatrix.M_mat (SO2.exp.r x) = exp (so2.toMatrix.M_mat x) := by
  have h : so2.toMatrix.M_mat x = so2Hat x := by
    mat_entries <;> simp [cas_defs, cas_real, so2Hat] <;> (try ring1)
  rw [h, exp_so2Hat]
  mat_entries <;> simp [cas_defs, cas_real] <;> (try ring1)

theorem se2_hat (x : Fin 3 → ℝ) : se2.toMatrix.M_mat x = se2Hat (x 0) (x 1) (x 2) := by
  mat_entries <;> simp [cas_defs, cas_real, se2Hat] <;> (try ring1)

theorem SE2_exp_core (x : Fin 3 → ℝ) :
    SE2.toMatrix.M_mat (SE2.exp.r_vec x)
      = !![Real.cos (x 2), -Real.sin (x 2),
             Series.sin_x_over_x (x 2) * x 0 - Series.one_minus_cos_over_x (x 2) * x 1;
           Real.sin (x 2), Real.cos (x 2),
             Series.one_minus_cos_over_x (x 2) * x 0 + Series.sin_x_over_x (x 2) * x 1;
           0, 0, 1] := by
  mat_entries <;> simp [cas_defs, cas_real] <;> ring

/-- SE(2) on the closed-form cell of the (non-squared) series: |θ| ≥ eps, any size -/
theorem SE2_exp (x : Fin 3 → ℝ) (h : eps ≤ |x 2|) :
    SE2.toMatrix.M_mat (SE2.exp.r_vec x) = exp (se2.toMatrix.M_mat x) := by
  rw [SE2_exp_core, se2_hat, exp_se2Hat, sin_x_over_x_closed h, one_minus_cos_over_x_closed h]

theorem SE2_exp_zero (x : Fin 3 → ℝ) (h : x 2 = 0) :
    SE2.toMatrix.M_mat (SE2.exp.r_vec x) = exp (se2.toMatrix.M_mat x) := by
  rw [SE2_exp_core, se2_hat, exp_se2Hat, h, sin_x_over_x_zero, one_minus_cos_over_x_zero]
  simp [sFun, cFun]

/-! ## ℝ² and ℝ³: the hat matrix is nilpotent of order 2 -/
theorem R3_exp (x : Fin 3 → ℝ) : R3.toMatrix.M_mat (R3.exp.r_vec x) = exp (r3.toMatrix.M_mat x) := by
  have h4 : r3.toMatrix.M_mat x ^ 4 = (-((0:ℝ) ^ 2)) • r3.toMatrix.M_mat x ^ 2 := by
    have e : r3.toMatrix.M_mat x ^ 4 = r3.toMatrix.M_mat x ^ 2 * r3.toMatrix.M_mat x ^ 2 := by rw [← pow_add]
    rw [e, pow_two]
    mat_entries <;> simp [cas_defs, cas_real, Matrix.mul_apply, Fin.sum_univ_succ] <;> (try ring1)
  rw [matrix_exp_closed_form _ _ h4]
  have e3 : ∀ (B : Matrix (Fin 4) (Fin 4) ℝ), B ^ 3 = B * B * B := fun B => by rw [pow_succ, pow_two]
  rw [e3, pow_two]
  mat_entries <;> simp [cas_defs, cas_real, Matrix.mul_apply, Fin.sum_univ_succ, Matrix.one_apply] <;> (try ring1)
theorem R2_exp (x : Fin 2 → ℝ) : R2.toMatrix.M_mat (R2.exp.r_vec x) = exp (r2.toMatrix.M_mat x) := by
  have h4 : r2.toMatrix.M_mat x ^ 4 = (-((0:ℝ) ^ 2)) • r2.toMatrix.M_mat x ^ 2 := by
    have e : r2.toMatrix.M_mat x ^ 4 = r2.toMatrix.M_mat x ^ 2 * r2.toMatrix.M_mat x ^ 2 := by rw [← pow_add]
    rw [e, pow_two]
    mat_entries <;> simp [cas_defs, cas_real, Matrix.mul_apply, Fin.sum_univ_succ] <;> (try ring1)
  rw [matrix_exp_closed_form _ _ h4]
  have e3 : ∀ (B : Matrix (Fin 3) (Fin 3) ℝ), B ^ 3 = B * B * B := fun B => by rw [pow_succ, pow_two]
  rw [e3, pow_two]
  mat_entries <;> simp [cas_defs, cas_real, Matrix.mul_apply, Fin.sum_univ_succ, Matrix.one_apply] <;> (try ring1)


/-! ## SO(3), MRP form (with the shadow switch) -/
theorem SO3Mrp_toMatrix_spec (r : Fin 3 → ℝ) : SO3Mrp.toMatrix.M_mat r = mrpMat r := by
  have h : (1 + (r 0 * r 0 + r 1 * r 1 + r 2 * r 2)) ≠ 0 := by
    nlinarith [mul_self_nonneg (r 0), mul_self_nonneg (r 1), mul_self_nonneg (r 2)]
  have h' : (1 + (r 0 ^ 2 + r 1 ^ 2 + r 2 ^ 2)) ≠ 0 := by positivity
  mat_entries <;> simp [cas_defs, cas_real, mrpMat, qmat, mrpQ, nsq] <;> field_simp <;> ring

/-- the code: scale by the quarter-angle coefficient, then switch to the shadow set if needed -/
theorem SO3Mrp_exp_spec (x : Fin 3 → ℝ) :
    SO3Mrp.exp.r_vec x =
      (if 1 < nsq (fun i => SqSeries.tan_quarter_over_x (usq x) * x i)
        then (fun i => -(SqSeries.tan_quarter_over_x (usq x) * x i
                / nsq (fun i => SqSeries.tan_quarter_over_x (usq x) * x i)))
        else (fun i => SqSeries.tan_quarter_over_x (usq x) * x i)) := by
  funext i
  by_cases h : 1 < nsq (fun i => SqSeries.tan_quarter_over_x (usq x) * x i)
  · have h' : 1 < SqSeries.tan_quarter_over_x (usq x) * x 0 * (SqSeries.tan_quarter_over_x (usq x) * x 0)
        + SqSeries.tan_quarter_over_x (usq x) * x 1 * (SqSeries.tan_quarter_over_x (usq x) * x 1)
        + SqSeries.tan_quarter_over_x (usq x) * x 2 * (SqSeries.tan_quarter_over_x (usq x) * x 2) := by
      simpa [nsq, pow_two] using h
    rw [if_pos h]
    unfold usq at h'
    fin_cases i <;> simp [cas_defs, cas_real, usq, h', nsq, pow_two] <;> (try ring1)
  · have h' : ¬ 1 < SqSeries.tan_quarter_over_x (usq x) * x 0 * (SqSeries.tan_quarter_over_x (usq x) * x 0)
        + SqSeries.tan_quarter_over_x (usq x) * x 1 * (SqSeries.tan_quarter_over_x (usq x) * x 1)
        + SqSeries.tan_quarter_over_x (usq x) * x 2 * (SqSeries.tan_quarter_over_x (usq x) * x 2) := by
      simpa [nsq, pow_two] using h
    rw [if_neg h]
    unfold usq at h'
    fin_cases i <;> simp [cas_defs, cas_real, usq, h'] <;> (try ring1)

/-- MRP exponential on the closed-form cell, for every angle with θ/4 away from the poles of tan
    (in particular all θ in [√eps, 2π)), shadow switch included: same matrix as exp(ω^) and norm ≤ 1 -/
theorem SO3Mrp_exp (x : Fin 3 → ℝ) (h : eps ≤ usq x)
    (hc : Real.cos (Real.sqrt (nsq x) / 4) ≠ 0) :
    nsq (SO3Mrp.exp.r_vec x) ≤ 1
      ∧ SO3Mrp.toMatrix.M_mat (SO3Mrp.exp.r_vec x) = exp (so3.toMatrix.M_mat x) := by
  have hu : 0 < nsq x := by rw [← usq_eq]; exact lt_of_lt_of_le eps_pos h
  have hθ : Real.sqrt (nsq x) ≠ 0 := (Real.sqrt_pos.mpr hu).ne'
  have hτ : SqSeries.tan_quarter_over_x (usq x) = Real.tan (Real.sqrt (nsq x) / 4) / Real.sqrt (nsq x) := by
    rw [sq_tan_quarter_over_x_closed h, usq_eq]
  have hbase : mrpMat (fun i => SqSeries.tan_quarter_over_x (usq x) * x i) = exp (hat x) := by
    rw [hτ, mrpMat_eq_qmat, mrpUnitQ_tan_quarter x hθ hc, qmat_qexp]
  rw [SO3Mrp_toMatrix_spec, so3_hat, SO3Mrp_exp_spec]
  by_cases hs : 1 < nsq (fun i => SqSeries.tan_quarter_over_x (usq x) * x i)
  · rw [if_pos hs]
    exact ⟨nsq_shadow_le _ hs, by rw [mrpMat_shadow _ (by linarith), hbase]⟩
  · rw [if_neg hs]
    exact ⟨not_lt.mp hs, hbase⟩

/-! ## SE(3) -/
def rotv (x : Fin 6 → ℝ) : Fin 3 → ℝ := ![x 3, x 4, x 5]
def trv (x : Fin 6 → ℝ) : Fin 3 → ℝ := ![x 0, x 1, x 2]

theorem se3_hat (x : Fin 6 → ℝ) : se3.toMatrix.M_mat x = se3Hat (trv x) (rotv x) := by
  mat_entries <;> simp [cas_defs, cas_real, se3Hat, trv, rotv] <;> (try ring1)

/-- translational part: the code multiplies by J_l = 1 + A ω^ + B ω^² with series coefficients A, B -/
theorem SE3Quat_exp_core (x : Fin 6 → ℝ) :
    SE3Quat.toMatrix.M_mat (SE3Quat.exp.r_vec x)
      = se3Mat (qmat (SO3Quat.exp.r_vec (rotv x)))
          ((1 + SqSeries.one_minus_cos_over_x2 (usq (rotv x)) • hat (rotv x)
              + SqSeries.x_minus_sin_over_x3 (usq (rotv x)) • hat (rotv x) ^ 2).mulVec (trv x)) := by
  rw [pow_two]
  mat_entries <;>
    simp [cas_defs, cas_real, se3Mat, qmat, usq, rotv, trv, hat, Matrix.mul_apply, Matrix.mulVec, dotProduct,
      Fin.sum_univ_succ, Matrix.one_apply] <;> ring

theorem SE3Quat_exp (x : Fin 6 → ℝ) (h : eps ≤ usq (rotv x) / 4) :
    SE3Quat.toMatrix.M_mat (SE3Quat.exp.r_vec x) = exp (se3.toMatrix.M_mat x) := by
  have h1 : eps ≤ usq (rotv x) := by
    have := eps_pos; linarith
  have hq : SO3Quat.exp.r_vec (rotv x) = qexp (rotv x) := by
    rw [SO3Quat_exp_spec, sq_cos_x_closed h, sq_sin_x_over_x_closed h, sqrt_quarter, usq_eq]
    rfl
  rw [SE3Quat_exp_core, se3_hat, exp_se3Hat, hq, qmat_qexp, sq_one_minus_cos_over_x2_closed h1,
    sq_x_minus_sin_over_x3_closed h1, usq_eq]
  rfl

theorem SE3Mrp_exp_core (x : Fin 6 → ℝ) :
    SE3Mrp.toMatrix.M_mat (SE3Mrp.exp.r_vec x)
      = se3Mat (SO3Mrp.toMatrix.M_mat (SO3Mrp.exp.r_vec (rotv x)))
          ((1 + SqSeries.one_minus_cos_over_x2 (usq (rotv x)) • hat (rotv x)
              + SqSeries.x_minus_sin_over_x3 (usq (rotv x)) • hat (rotv x) ^ 2).mulVec (trv x)) := by
  rw [pow_two]
  mat_entries <;>
    simp [cas_defs, cas_real, se3Mat, usq, rotv, trv, hat, Matrix.mul_apply, Matrix.mulVec, dotProduct,
      Fin.sum_univ_succ, Matrix.one_apply] <;> ring

theorem SE3Mrp_exp (x : Fin 6 → ℝ) (h : eps ≤ usq (rotv x))
    (hc : Real.cos (Real.sqrt (nsq (rotv x)) / 4) ≠ 0) :
    SE3Mrp.toMatrix.M_mat (SE3Mrp.exp.r_vec x) = exp (se3.toMatrix.M_mat x) := by
  rw [SE3Mrp_exp_core, se3_hat, exp_se3Hat, (SO3Mrp_exp (rotv x) h hc).2, so3_hat,
    sq_one_minus_cos_over_x2_closed h, sq_x_minus_sin_over_x3_closed h, usq_eq]
  rfl

/-- at zero rotation the translation passes through unchanged (J_l(0) = 1 acts on v) -/
theorem SE3Quat_exp_zero_rot (v : Fin 3 → ℝ) :
    SE3Quat.exp.r_vec ![v 0, v 1, v 2, 0, 0, 0] = ![v 0, v 1, v 2, 1, 0, 0, 0] := by
  funext i; fin_cases i <;> simp [cas_defs, cas_real, sq_cos_x_zero, sq_sin_x_over_x_zero] <;> (try ring1)

/-! non-vacuity: a rotation vector on the closed-form cell with θ > π -/
example : eps ≤ usq ![0, 4, 0] / 4 := by
  have := eps_bounds.2; simp [usq]; linarith

end C02
