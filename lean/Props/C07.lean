/-
  Props/C07.lean — SO(3) representation conversions preserve the rotation and return
  valid parameters.  Property theorems only; `IsRot R` means RᵀR = 1 ∧ det R = 1.
-/
import GenM.SO3
import Lib.Rot
import Lib.SO3

set_option maxHeartbeats 2000000
open Gen Rot

namespace C07

/-! ## matrix → quaternion (Shepperd, all four branches), for EVERY proper rotation matrix -/

theorem SO3Quat_fromMatrix (R : Matrix (Fin 3) (Fin 3) ℝ) (h : IsRot R) :
    qnormSq (SO3Quat.fromMatrix.r_vec (fun i j => R i j)) = 1
      ∧ qmat (SO3Quat.fromMatrix.r_vec (fun i j => R i j)) = R := by
  have htr := h.trace_bounds
  by_cases h1 : 0 < R 0 0 + R 1 1 + R 2 2
  · -- branch 1
    have hpos : 0 < 1 + R 0 0 + R 1 1 + R 2 2 := by linarith
    have hv : SO3Quat.fromMatrix.r_vec (fun i j => R i j)
        = ![Real.sqrt (1 + R 0 0 + R 1 1 + R 2 2) / 2,
            (R 2 1 - R 1 2) / (2 * Real.sqrt (1 + R 0 0 + R 1 1 + R 2 2)),
            (R 0 2 - R 2 0) / (2 * Real.sqrt (1 + R 0 0 + R 1 1 + R 2 2)),
            (R 1 0 - R 0 1) / (2 * Real.sqrt (1 + R 0 0 + R 1 1 + R 2 2))] := by
      funext i; fin_cases i <;> simp [cas_defs, cas_real, h1] <;> ring
    rw [hv]
    exact shepperd1 h _ (Real.mul_self_sqrt hpos.le) (ne_of_gt (Real.sqrt_pos.mpr hpos))
  · by_cases h2 : R 1 1 < R 0 0 ∧ R 2 2 < R 0 0
    · have hpos : 0 < 1 + R 0 0 - R 1 1 - R 2 2 := by linarith [h2.1, h2.2, htr.1]
      have hv : SO3Quat.fromMatrix.r_vec (fun i j => R i j)
          = ![(R 2 1 - R 1 2) / (2 * Real.sqrt (1 + R 0 0 - R 1 1 - R 2 2)),
              Real.sqrt (1 + R 0 0 - R 1 1 - R 2 2) / 2,
              (R 0 1 + R 1 0) / (2 * Real.sqrt (1 + R 0 0 - R 1 1 - R 2 2)),
              (R 0 2 + R 2 0) / (2 * Real.sqrt (1 + R 0 0 - R 1 1 - R 2 2))] := by
        funext i; fin_cases i <;> simp [cas_defs, cas_real, h1, h2] <;> ring
      rw [hv]
      exact shepperd2 h _ (Real.mul_self_sqrt hpos.le) (ne_of_gt (Real.sqrt_pos.mpr hpos))
    · by_cases h3 : R 2 2 < R 1 1
      · have hpos : 0 < 1 - R 0 0 + R 1 1 - R 2 2 := by
          rcases not_and_or.mp h2 with h2' | h2' <;> linarith [htr.1]
        have hv : SO3Quat.fromMatrix.r_vec (fun i j => R i j)
            = ![(R 0 2 - R 2 0) / (2 * Real.sqrt (1 - R 0 0 + R 1 1 - R 2 2)),
                (R 0 1 + R 1 0) / (2 * Real.sqrt (1 - R 0 0 + R 1 1 - R 2 2)),
                Real.sqrt (1 - R 0 0 + R 1 1 - R 2 2) / 2,
                (R 1 2 + R 2 1) / (2 * Real.sqrt (1 - R 0 0 + R 1 1 - R 2 2))] := by
          funext i; fin_cases i <;> simp [cas_defs, cas_real, h1, h2, h3] <;> ring
        rw [hv]
        exact shepperd3 h _ (Real.mul_self_sqrt hpos.le) (ne_of_gt (Real.sqrt_pos.mpr hpos))
      · have hpos : 0 < 1 - R 0 0 - R 1 1 + R 2 2 := by
          rcases not_and_or.mp h2 with h2' | h2' <;> linarith [htr.1]
        have hv : SO3Quat.fromMatrix.r_vec (fun i j => R i j)
            = ![(R 1 0 - R 0 1) / (2 * Real.sqrt (1 - R 0 0 - R 1 1 + R 2 2)),
                (R 0 2 + R 2 0) / (2 * Real.sqrt (1 - R 0 0 - R 1 1 + R 2 2)),
                (R 1 2 + R 2 1) / (2 * Real.sqrt (1 - R 0 0 - R 1 1 + R 2 2)),
                Real.sqrt (1 - R 0 0 - R 1 1 + R 2 2) / 2] := by
          funext i; fin_cases i <;> simp [cas_defs, cas_real, h1, h2, h3] <;> ring
        rw [hv]
        exact shepperd4 h _ (Real.mul_self_sqrt hpos.le) (ne_of_gt (Real.sqrt_pos.mpr hpos))


/-! ## specs of the translated to_Matrix maps -/
theorem SO3Quat_toMatrix_spec (a : Fin 4 → ℝ) : SO3Quat.toMatrix.M_mat a = qmat a := by
  mat_entries <;> simp [cas_defs, cas_real, qmat] <;> ring
theorem SO3Mrp_toMatrix_spec (r : Fin 3 → ℝ) : SO3Mrp.toMatrix.M_mat r = mrpMat r := by
  have h : (1 + (r 0 * r 0 + r 1 * r 1 + r 2 * r 2)) ≠ 0 := by
    nlinarith [mul_self_nonneg (r 0), mul_self_nonneg (r 1), mul_self_nonneg (r 2)]
  have h' : (1 + (r 0 ^ 2 + r 1 ^ 2 + r 2 ^ 2)) ≠ 0 := by positivity
  mat_entries <;> simp [cas_defs, cas_real, mrpMat, qmat, mrpQ, nsq] <;> field_simp <;> ring
theorem SO3Dcm_fromMatrix_toMatrix (R : Matrix (Fin 3) (Fin 3) ℝ) :
    SO3Dcm.toMatrix.M_mat (SO3Dcm.fromMatrix.r_vec (fun i j => R i j)) = R := by
  mat_entries <;> simp [cas_defs, cas_real] <;> (try ring1)

/-! ## quaternion → DCM, MRP → DCM, MRP → quaternion (no side conditions) -/
theorem Dcm_from_Quat (q : Fin 4 → ℝ) :
    SO3Dcm.toMatrix.M_mat (SO3Dcm.from_Quat.r_vec q) = SO3Quat.toMatrix.M_mat q := by
  mat_entries <;> simp [cas_defs, cas_real] <;> (try ring1)
theorem Dcm_from_Quat_valid (q : Fin 4 → ℝ) (h : qnormSq q = 1) :
    IsRot (SO3Dcm.toMatrix.M_mat (SO3Dcm.from_Quat.r_vec q)) := by
  rw [Dcm_from_Quat, SO3Quat_toMatrix_spec]; exact isRot_qmat q h
theorem Dcm_from_Mrp (r : Fin 3 → ℝ) :
    SO3Dcm.toMatrix.M_mat (SO3Dcm.from_Mrp.r_vec r) = SO3Mrp.toMatrix.M_mat r := by
  mat_entries <;> simp [cas_defs, cas_real] <;> (try ring1)
theorem Dcm_from_Mrp_valid (r : Fin 3 → ℝ) :
    IsRot (SO3Dcm.toMatrix.M_mat (SO3Dcm.from_Mrp.r_vec r)) := by
  rw [Dcm_from_Mrp, SO3Mrp_toMatrix_spec]; exact isRot_mrpMat r
theorem Quat_from_Mrp_spec (r : Fin 3 → ℝ) : SO3Quat.from_Mrp.r_vec r = mrpUnitQ r := by
  have h : (1 + (r 0 * r 0 + r 1 * r 1 + r 2 * r 2)) ≠ 0 := by
    nlinarith [mul_self_nonneg (r 0), mul_self_nonneg (r 1), mul_self_nonneg (r 2)]
  have h' : (1 + (r 0 ^ 2 + r 1 ^ 2 + r 2 ^ 2)) ≠ 0 := by positivity
  funext i; fin_cases i <;> simp [cas_defs, cas_real, mrpUnitQ, mrpQ, nsq] <;> field_simp <;> ring
/-- MRP → quaternion: unit norm and the same rotation, for every MRP (inside or outside the unit ball) -/
theorem Quat_from_Mrp (r : Fin 3 → ℝ) :
    qnormSq (SO3Quat.from_Mrp.r_vec r) = 1
      ∧ SO3Quat.toMatrix.M_mat (SO3Quat.from_Mrp.r_vec r) = SO3Mrp.toMatrix.M_mat r := by
  rw [Quat_from_Mrp_spec, SO3Quat_toMatrix_spec, SO3Mrp_toMatrix_spec, mrpMat_eq_qmat]
  exact ⟨qnormSq_mrpUnitQ r, rfl⟩

/-! ## quaternion → MRP: for every unit quaternion of EITHER sign (including q0 = -1) -/
theorem Mrp_from_Quat (q : Fin 4 → ℝ) (hq : qnormSq q = 1) :
    nsq (SO3Mrp.from_Quat.r_vec q) ≤ 1
      ∧ SO3Mrp.toMatrix.M_mat (SO3Mrp.from_Quat.r_vec q) = SO3Quat.toMatrix.M_mat q := by
  rw [SO3Mrp_toMatrix_spec, SO3Quat_toMatrix_spec]
  by_cases h0 : q 0 < 0
  · -- the code switches to -q
    have hq' : qnormSq (-q) = 1 := by rw [qnormSq_neg]; exact hq
    have h0' : 0 ≤ (-q) 0 := by simp; linarith
    have hle := nsq_quatToMrp_le (-q) hq' h0'
    have hv : SO3Mrp.from_Quat.r_vec q = quatToMrp (-q) := by
      have hc : -q 1 / (1 + -q 0) * (-q 1 / (1 + -q 0)) + -q 2 / (1 + -q 0) * (-q 2 / (1 + -q 0))
          + -q 3 / (1 + -q 0) * (-q 3 / (1 + -q 0)) ≤ 1 := by
        have := hle; simp only [nsq, quatToMrp] at this; simpa [pow_two] using this
      funext i; fin_cases i <;> simp [cas_defs, cas_real, h0, quatToMrp, hc, not_lt.mpr hc] <;> (try ring1)
    rw [hv, mrpMat_quatToMrp (-q) hq' h0', qmat_neg]
    exact ⟨hle, rfl⟩
  · have h0' : 0 ≤ q 0 := not_lt.mp h0
    have hle := nsq_quatToMrp_le q hq h0'
    have hv : SO3Mrp.from_Quat.r_vec q = quatToMrp q := by
      have hc : q 1 / (1 + q 0) * (q 1 / (1 + q 0)) + q 2 / (1 + q 0) * (q 2 / (1 + q 0))
          + q 3 / (1 + q 0) * (q 3 / (1 + q 0)) ≤ 1 := by
        have := hle; simp only [nsq, quatToMrp] at this; simpa [pow_two] using this
      funext i; fin_cases i <;> simp [cas_defs, cas_real, h0, quatToMrp, hc, not_lt.mpr hc] <;> (try ring1)
    rw [hv, mrpMat_quatToMrp q hq h0']
    exact ⟨hle, rfl⟩

/-! ## DCM → quaternion, DCM → MRP: for every orthonormal DCM of determinant one -/
theorem Quat_from_Dcm_spec (a : Fin 9 → ℝ) :
    SO3Quat.from_Dcm.r_vec a = SO3Quat.fromMatrix.r_vec (fun i j => SO3Dcm.toMatrix.M_mat a i j) := by
  funext i; fin_cases i <;> simp [cas_defs, cas_real] <;> (try ring1)
theorem Quat_from_Dcm (a : Fin 9 → ℝ) (h : IsRot (SO3Dcm.toMatrix.M_mat a)) :
    qnormSq (SO3Quat.from_Dcm.r_vec a) = 1
      ∧ SO3Quat.toMatrix.M_mat (SO3Quat.from_Dcm.r_vec a) = SO3Dcm.toMatrix.M_mat a := by
  rw [Quat_from_Dcm_spec, SO3Quat_toMatrix_spec]
  exact SO3Quat_fromMatrix _ h
theorem Mrp_from_Dcm_spec (a : Fin 9 → ℝ) :
    SO3Mrp.from_Dcm.r_vec a = SO3Mrp.from_Quat.r_vec (SO3Quat.from_Dcm.r_vec a) := by
  funext i; fin_cases i <;> simp [cas_defs, cas_real] <;> (try ring1)
theorem Mrp_from_Dcm (a : Fin 9 → ℝ) (h : IsRot (SO3Dcm.toMatrix.M_mat a)) :
    nsq (SO3Mrp.from_Dcm.r_vec a) ≤ 1
      ∧ SO3Mrp.toMatrix.M_mat (SO3Mrp.from_Dcm.r_vec a) = SO3Dcm.toMatrix.M_mat a := by
  obtain ⟨hu, hm⟩ := Quat_from_Dcm a h
  obtain ⟨hn, hm'⟩ := Mrp_from_Quat _ hu
  rw [Mrp_from_Dcm_spec]
  exact ⟨hn, hm'.trans hm⟩
theorem Mrp_fromMatrix_spec (R : Matrix (Fin 3) (Fin 3) ℝ) :
    SO3Mrp.fromMatrix.r_vec (fun i j => R i j)
      = SO3Mrp.from_Quat.r_vec (SO3Quat.fromMatrix.r_vec (fun i j => R i j)) := by
  funext i; fin_cases i <;> simp [cas_defs, cas_real] <;> (try ring1)
/-- matrix → MRP for every proper rotation matrix: non-shadow branch, same rotation -/
theorem Mrp_fromMatrix (R : Matrix (Fin 3) (Fin 3) ℝ) (h : IsRot R) :
    nsq (SO3Mrp.fromMatrix.r_vec (fun i j => R i j)) ≤ 1
      ∧ SO3Mrp.toMatrix.M_mat (SO3Mrp.fromMatrix.r_vec (fun i j => R i j)) = R := by
  obtain ⟨hu, hm⟩ := SO3Quat_fromMatrix R h
  obtain ⟨hn, hm'⟩ := Mrp_from_Quat _ hu
  rw [Mrp_fromMatrix_spec]
  exact ⟨hn, by rw [hm', SO3Quat_toMatrix_spec, hm]⟩

/-! ## the shadow switch never changes the rotation and returns norm ≤ 1 -/
theorem shadow_spec (r : Fin 3 → ℝ) :
    SO3Mrp.shadow.r_vec r = if 1 < nsq r then (fun i => -(r i / nsq r)) else r := by
  funext i
  by_cases h : 1 < nsq r
  · have h' : 1 < r 0 * r 0 + r 1 * r 1 + r 2 * r 2 := by simpa [nsq, pow_two] using h
    fin_cases i <;> simp [cas_defs, cas_real, h, h', nsq, pow_two] <;> (try ring1)
  · have h' : ¬ 1 < r 0 * r 0 + r 1 * r 1 + r 2 * r 2 := by simpa [nsq, pow_two] using h
    fin_cases i <;> simp [cas_defs, cas_real, h, h'] <;> (try ring1)
theorem shadow_same_rotation (r : Fin 3 → ℝ) :
    SO3Mrp.toMatrix.M_mat (SO3Mrp.shadow.r_vec r) = SO3Mrp.toMatrix.M_mat r := by
  rw [SO3Mrp_toMatrix_spec, SO3Mrp_toMatrix_spec, shadow_spec]
  by_cases h : 1 < nsq r
  · rw [if_pos h]; exact mrpMat_shadow r (by linarith)
  · rw [if_neg h]
theorem shadow_norm_le (r : Fin 3 → ℝ) : nsq (SO3Mrp.shadow.r_vec r) ≤ 1 := by
  rw [shadow_spec]
  by_cases h : 1 < nsq r
  · rw [if_pos h]; exact nsq_shadow_le r h
  · rw [if_neg h]; exact not_lt.mp h

/-! ## Euler: pitch range; the Euler matrix is a proper rotation, hence Euler → quaternion / MRP / DCM -/
theorem Euler_fromMatrix_pitch (M : Fin 3 → Fin 3 → ℝ) :
    -(Real.pi / 2) ≤ SO3Euler.fromMatrix.r_1 M ∧ SO3Euler.fromMatrix.r_1 M ≤ Real.pi / 2 := by
  simp only [cas_defs, cas_real]
  split_ifs <;> exact ⟨Real.neg_pi_div_two_le_arcsin _, Real.arcsin_le_pi_div_two _⟩

theorem Euler_toMatrix_isRot (e : Fin 3 → ℝ) : IsRot (SO3Euler.toMatrix.M_mat e) := by
  have h0 := Real.sin_sq_add_cos_sq (e 0)
  have h1 := Real.sin_sq_add_cos_sq (e 1)
  have h2 := Real.sin_sq_add_cos_sq (e 2)
  have s0 : Real.sin (e 0) ^ 2 = 1 - Real.cos (e 0) ^ 2 := by linarith
  have s1 : Real.sin (e 1) ^ 2 = 1 - Real.cos (e 1) ^ 2 := by linarith
  have s2 : Real.sin (e 2) ^ 2 = 1 - Real.cos (e 2) ^ 2 := by linarith
  constructor
  · mat_entries <;> simp [cas_defs, cas_real, Matrix.mul_apply, Fin.sum_univ_succ] <;> ring_nf <;>
      simp only [s0, s1, s2] <;> ring
  · simp [cas_defs, cas_real, Matrix.det_fin_three]; ring_nf; simp only [s0, s1, s2]; ring

theorem Quat_from_Euler_spec (e : Fin 3 → ℝ) :
    SO3Quat.from_Euler.r_vec e = SO3Quat.fromMatrix.r_vec (fun i j => SO3Euler.toMatrix.M_mat e i j) := by
  funext i; fin_cases i <;> simp [cas_defs, cas_real] <;> split_ifs <;> ring
/-- Euler → quaternion for EVERY Euler triple (gimbal poles included) -/
theorem Quat_from_Euler (e : Fin 3 → ℝ) :
    qnormSq (SO3Quat.from_Euler.r_vec e) = 1
      ∧ SO3Quat.toMatrix.M_mat (SO3Quat.from_Euler.r_vec e) = SO3Euler.toMatrix.M_mat e := by
  rw [Quat_from_Euler_spec, SO3Quat_toMatrix_spec]
  exact SO3Quat_fromMatrix _ (Euler_toMatrix_isRot e)
theorem Dcm_from_Euler_spec (e : Fin 3 → ℝ) :
    SO3Dcm.from_Euler.r_vec e = SO3Dcm.from_Quat.r_vec (SO3Quat.from_Euler.r_vec e) := by
  funext i; fin_cases i <;> simp [cas_defs, cas_real] <;> (try ring1)
theorem Dcm_from_Euler (e : Fin 3 → ℝ) :
    SO3Dcm.toMatrix.M_mat (SO3Dcm.from_Euler.r_vec e) = SO3Euler.toMatrix.M_mat e := by
  rw [Dcm_from_Euler_spec, Dcm_from_Quat]; exact (Quat_from_Euler e).2

/-! non-vacuity -/
example : IsRot (qmat ![0, 1, 0, 0]) := isRot_qmat _ (by simp [qnormSq])
example : qnormSq ![-1, 0, 0, 0] = 1 := by simp [qnormSq]

end C07
