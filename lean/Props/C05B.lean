/-
  Props/C05B.lean — every so(3) Jacobian the library publishes fixes its own argument:
      J_l(x) x = x,  J_r(x) x = x,  J_l⁻¹(x) x = x,  J_r⁻¹(x) x = x      for EVERY x and every value of the series coefficients
  (Σ adⁿ/(n+1)! x = x because ad_x x = 0).  Pins the constant term of each translated Jacobian to the identity and its
  remaining terms to polynomials in [x]×.
-/
import GenM.SO3
import Lib.Rot

set_option maxHeartbeats 2000000
open Gen Rot

namespace C05B

macro "jac_fix" : tactic =>
  `(tactic| (funext i; fin_cases i <;>
      simp [cas_defs, cas_real, Matrix.mulVec, dotProduct, Fin.sum_univ_succ] <;> ring))

theorem so3_jl_fix (x : Fin 3 → ℝ) : (so3.left_jacobian.M_mat x).mulVec x = x := by jac_fix
theorem so3_jr_fix (x : Fin 3 → ℝ) : (so3.right_jacobian.M_mat x).mulVec x = x := by jac_fix
theorem so3_jli_fix (x : Fin 3 → ℝ) : (so3.left_jacobian_inv.M_mat x).mulVec x = x := by jac_fix
theorem so3_jri_fix (x : Fin 3 → ℝ) : (so3.right_jacobian_inv.M_mat x).mulVec x = x := by jac_fix

end C05B
