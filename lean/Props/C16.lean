/-
  Props/C16.lean — rigid-body invariants of the quadrotor model `cyecca.models.quadrotor`.
  State x = (p[0:3], v_b[3:6], q[6:10], ω_b[10:13], ω_motor[13:17]); input u = motor commands;
  parameters p: tau_up 0, tau_down 1, dir 2..5, l 6..9, theta 10..13, CT 14, CM 15, Cl_p 16,
  Cm_q 17, Cn_r 18, CD0 19, S 20, rho 21, g 22, m 23, Jx 24, Jy 25, Jz 26, noise powers 27..38.
  All theorems are for symbolic parameters (not only the defaults).
-/
import GenM.Quad
import Lib.Rot

set_option maxHeartbeats 4000000
open Gen Rot

namespace C16

/-- the state derivative as a vector -/
noncomputable abbrev xdot (x : Fin 17 → ℝ) (u : Fin 4 → ℝ) (p : Fin 39 → ℝ) : Fin 17 → ℝ :=
  quadrotor.f.x_dot_vec x u p

/-! ## attitude kinematics preserve the quaternion norm: q · q' = 0 for EVERY state -/
theorem quat_norm_preserved (x : Fin 17 → ℝ) (u : Fin 4 → ℝ) (p : Fin 39 → ℝ) :
    x 6 * quadrotor.f.x_dot_6 x u p + x 7 * quadrotor.f.x_dot_7 x u p
      + x 8 * quadrotor.f.x_dot_8 x u p + x 9 * quadrotor.f.x_dot_9 x u p = 0 := by
  simp only [cas_defs, cas_real]; ring

/-- the quaternion derivative is ½ q ⊗ (0, ω): body-frame kinematics R' = R [ω]× -/
theorem quat_kinematics (x : Fin 17 → ℝ) (u : Fin 4 → ℝ) (p : Fin 39 → ℝ) :
    ![quadrotor.f.x_dot_6 x u p, quadrotor.f.x_dot_7 x u p, quadrotor.f.x_dot_8 x u p, quadrotor.f.x_dot_9 x u p]
      = (1 / 2 : ℝ) • qmul ![x 6, x 7, x 8, x 9] ![0, x 10, x 11, x 12] := by
  funext i; fin_cases i <;> simp [cas_defs, cas_real, qmul] <;> ring

/-- position kinematics: p' = R(q) v_b -/
theorem position_kinematics (x : Fin 17 → ℝ) (u : Fin 4 → ℝ) (p : Fin 39 → ℝ) :
    ![quadrotor.f.x_dot_0 x u p, quadrotor.f.x_dot_1 x u p, quadrotor.f.x_dot_2 x u p]
      = (qmat ![x 6, x 7, x 8, x 9]).mulVec ![x 3, x 4, x 5] := by
  funext i; fin_cases i <;>
    simp [cas_defs, cas_real, qmat, Matrix.mulVec, dotProduct, Fin.sum_univ_succ] <;> ring

/-! ## motors: first-order relaxation toward the command, spin-up / spin-down time constant -/
theorem motor_0 (x : Fin 17 → ℝ) (u : Fin 4 → ℝ) (p : Fin 39 → ℝ) :
    quadrotor.f.x_dot_13 x u p = (if 0 < u 0 - x 13 then 1 / p 0 else 1 / p 1) * (u 0 - x 13) := by
  simp only [cas_defs, cas_real] <;> (try ring1)
theorem motor_1 (x : Fin 17 → ℝ) (u : Fin 4 → ℝ) (p : Fin 39 → ℝ) :
    quadrotor.f.x_dot_14 x u p = (if 0 < u 1 - x 14 then 1 / p 0 else 1 / p 1) * (u 1 - x 14) := by
  simp only [cas_defs, cas_real] <;> (try ring1)
theorem motor_2 (x : Fin 17 → ℝ) (u : Fin 4 → ℝ) (p : Fin 39 → ℝ) :
    quadrotor.f.x_dot_15 x u p = (if 0 < u 2 - x 15 then 1 / p 0 else 1 / p 1) * (u 2 - x 15) := by
  simp only [cas_defs, cas_real] <;> (try ring1)
theorem motor_3 (x : Fin 17 → ℝ) (u : Fin 4 → ℝ) (p : Fin 39 → ℝ) :
    quadrotor.f.x_dot_16 x u p = (if 0 < u 3 - x 16 then 1 / p 0 else 1 / p 1) * (u 3 - x 16) := by
  simp only [cas_defs, cas_real] <;> (try ring1)

/-- a motor speed moves toward its command and never overshoots in sign (monotone relaxation) -/
theorem motor_monotone (c w tu td : ℝ) (htu : 0 < tu) (htd : 0 < td) :
    (w < c → 0 < (if 0 < c - w then 1 / tu else 1 / td) * (c - w)
              ∧ (if 0 < c - w then 1 / tu else 1 / td) * (c - w) = (c - w) / tu)
    ∧ (c < w → (if 0 < c - w then 1 / tu else 1 / td) * (c - w) < 0
              ∧ (if 0 < c - w then 1 / tu else 1 / td) * (c - w) = (c - w) / td)
    ∧ (c = w → (if 0 < c - w then 1 / tu else 1 / td) * (c - w) = 0) := by
  refine ⟨fun h => ?_, fun h => ?_, fun h => ?_⟩
  · have : 0 < c - w := by linarith
    rw [if_pos this]; constructor
    · positivity
    · ring
  · have hn : ¬ 0 < c - w := by linarith
    have : c - w < 0 := by linarith
    rw [if_neg hn]; constructor
    · have : 0 < 1 / td := by positivity
      nlinarith
    · ring
  · rw [h]; simp

/-! ## Newton–Euler: net force and moment are the sum over rotors (+ ground, drag, gravity) -/

/-- rotor thrusts -/
def thrust (x : Fin 17 → ℝ) (p : Fin 39 → ℝ) (i : Fin 4) : ℝ := p 14 * (x (13 + i.castLE (by omega)) * x (13 + i.castLE (by omega)))

/-- Euler's equation: J ω' + ω × Jω = Σ_i [ r_i × T_i ẑ − CM dir_i T_i ẑ + (Cl, Cm, Cn) S l_i ] -/
theorem euler_equation (x : Fin 17 → ℝ) (u : Fin 4 → ℝ) (p : Fin 39 → ℝ)
    (hJx : p 24 ≠ 0) (hJy : p 25 ≠ 0) (hJz : p 26 ≠ 0) :
    p 24 * quadrotor.f.x_dot_10 x u p + (x 11 * (p 26 * x 12) - x 12 * (p 25 * x 11))
      = (p 6 * Real.sin (p 10) * (p 14 * (x 13 * x 13)) + p 7 * Real.sin (p 11) * (p 14 * (x 14 * x 14))
          + p 8 * Real.sin (p 12) * (p 14 * (x 15 * x 15)) + p 9 * Real.sin (p 13) * (p 14 * (x 16 * x 16)))
        + p 16 * x 10 * p 20 * (p 6 + p 7 + p 8 + p 9)
    ∧ p 25 * quadrotor.f.x_dot_11 x u p + (x 12 * (p 24 * x 10) - x 10 * (p 26 * x 12))
      = -(p 6 * Real.cos (p 10) * (p 14 * (x 13 * x 13)) + p 7 * Real.cos (p 11) * (p 14 * (x 14 * x 14))
          + p 8 * Real.cos (p 12) * (p 14 * (x 15 * x 15)) + p 9 * Real.cos (p 13) * (p 14 * (x 16 * x 16)))
        + p 17 * x 11 * p 20 * (p 6 + p 7 + p 8 + p 9)
    ∧ p 26 * quadrotor.f.x_dot_12 x u p + (x 10 * (p 25 * x 11) - x 11 * (p 24 * x 10))
      = -(p 15 * (p 2 * (p 14 * (x 13 * x 13)) + p 3 * (p 14 * (x 14 * x 14))
          + p 4 * (p 14 * (x 15 * x 15)) + p 5 * (p 14 * (x 16 * x 16))))
        + p 18 * x 12 * p 20 * (p 6 + p 7 + p 8 + p 9) := by
  refine ⟨?_, ?_, ?_⟩ <;> simp only [cas_defs, cas_real] <;> field_simp <;> ring

/-- zero net moment for equal rotor speeds on a symmetric frame (arms balance, spin directions
    cancel) at zero body rate: ω' = 0 -/
theorem zero_moment_symmetric (x : Fin 17 → ℝ) (u : Fin 4 → ℝ) (p : Fin 39 → ℝ)
    (hJx : p 24 ≠ 0) (hJy : p 25 ≠ 0) (hJz : p 26 ≠ 0)
    (hw : x 10 = 0 ∧ x 11 = 0 ∧ x 12 = 0)
    (heq : x 14 = x 13 ∧ x 15 = x 13 ∧ x 16 = x 13)
    (hsin : p 6 * Real.sin (p 10) + p 7 * Real.sin (p 11) + p 8 * Real.sin (p 12) + p 9 * Real.sin (p 13) = 0)
    (hcos : p 6 * Real.cos (p 10) + p 7 * Real.cos (p 11) + p 8 * Real.cos (p 12) + p 9 * Real.cos (p 13) = 0)
    (hdir : p 2 + p 3 + p 4 + p 5 = 0) :
    quadrotor.f.x_dot_10 x u p = 0 ∧ quadrotor.f.x_dot_11 x u p = 0 ∧ quadrotor.f.x_dot_12 x u p = 0 := by
  obtain ⟨e0, e1, e2⟩ := euler_equation x u p hJx hJy hJz
  obtain ⟨w0, w1, w2⟩ := hw
  obtain ⟨q1, q2, q3⟩ := heq
  rw [w0, w1, w2, q1, q2, q3] at e0 e1 e2
  refine ⟨?_, ?_, ?_⟩
  · have : p 24 * quadrotor.f.x_dot_10 x u p = 0 := by
      linear_combination e0 + (p 14 * (x 13 * x 13)) * hsin
    exact (mul_eq_zero.mp this).resolve_left hJx
  · have : p 25 * quadrotor.f.x_dot_11 x u p = 0 := by
      linear_combination e1 - (p 14 * (x 13 * x 13)) * hcos
    exact (mul_eq_zero.mp this).resolve_left hJy
  · have : p 26 * quadrotor.f.x_dot_12 x u p = 0 := by
      linear_combination e2 - (p 15 * (p 14 * (x 13 * x 13))) * hdir
    exact (mul_eq_zero.mp this).resolve_left hJz

/-- Newton's equation in the body frame: m (v' + ω × v) = R(q)ᵀ F_ground − drag + Σ thrust ẑ + R(q)ᵀ (−m g ẑ) -/
theorem newton_equation (x : Fin 17 → ℝ) (u : Fin 4 → ℝ) (p : Fin 39 → ℝ) (hm : p 23 ≠ 0) :
    let R := qmat ![x 6, x 7, x 8, x 9]
    let vw := R.mulVec ![x 3, x 4, x 5]
    let Fg : Fin 3 → ℝ := if x 2 < 0 then ![-1000 * vw 0, -1000 * vw 1, -1000 * x 2 - 1000 * vw 2] else 0
    let V := Real.sqrt (x 3 * x 3 + x 4 * x 4 + x 5 * x 5)
    let wX : Fin 3 → ℝ := if 5902958103587057 * (2:ℝ) ^ (-69:ℤ) < V then ![x 3 / V, x 4 / V, x 5 / V] else ![1, 0, 0]
    let drag : Fin 3 → ℝ := fun k => p 19 * (1 / 2 * p 21 * (x 3 * x 3 + x 4 * x 4 + x 5 * x 5)) * p 20 * wX k
    let T := p 14 * (x 13 * x 13) + p 14 * (x 14 * x 14) + p 14 * (x 15 * x 15) + p 14 * (x 16 * x 16)
    p 23 * (quadrotor.f.x_dot_3 x u p + (x 11 * x 5 - x 12 * x 4))
        = (R.transpose.mulVec Fg) 0 - drag 0 + (R.transpose.mulVec ![0, 0, -(p 23 * p 22)]) 0
    ∧ p 23 * (quadrotor.f.x_dot_4 x u p + (x 12 * x 3 - x 10 * x 5))
        = (R.transpose.mulVec Fg) 1 - drag 1 + (R.transpose.mulVec ![0, 0, -(p 23 * p 22)]) 1
    ∧ p 23 * (quadrotor.f.x_dot_5 x u p + (x 10 * x 4 - x 11 * x 3))
        = (R.transpose.mulVec Fg) 2 - drag 2 + T + (R.transpose.mulVec ![0, 0, -(p 23 * p 22)]) 2 := by
  intro R vw Fg V wX drag T
  refine ⟨?_, ?_, ?_⟩ <;>
    simp only [cas_defs, cas_real, R, vw, Fg, V, wX, drag, T] <;>
    split_ifs <;>
    simp [qmat, Matrix.mulVec, dotProduct, Fin.sum_univ_succ] <;> field_simp <;> ring

/-! ## level hover with each rotor carrying a quarter of the weight is an equilibrium -/
theorem hover_equilibrium (x : Fin 17 → ℝ) (u : Fin 4 → ℝ) (p : Fin 39 → ℝ)
    (hm : p 23 ≠ 0) (hJx : p 24 ≠ 0) (hJy : p 25 ≠ 0) (hJz : p 26 ≠ 0)
    (habove : ¬ x 2 < 0)
    (hv : x 3 = 0 ∧ x 4 = 0 ∧ x 5 = 0)
    (hq : x 6 = 1 ∧ x 7 = 0 ∧ x 8 = 0 ∧ x 9 = 0)
    (hw : x 10 = 0 ∧ x 11 = 0 ∧ x 12 = 0)
    (heq : x 14 = x 13 ∧ x 15 = x 13 ∧ x 16 = x 13)
    (hquarter : p 14 * (x 13 * x 13) = p 23 * p 22 / 4)
    (hcmd : u 0 = x 13 ∧ u 1 = x 14 ∧ u 2 = x 15 ∧ u 3 = x 16)
    (hsin : p 6 * Real.sin (p 10) + p 7 * Real.sin (p 11) + p 8 * Real.sin (p 12) + p 9 * Real.sin (p 13) = 0)
    (hcos : p 6 * Real.cos (p 10) + p 7 * Real.cos (p 11) + p 8 * Real.cos (p 12) + p 9 * Real.cos (p 13) = 0)
    (hdir : p 2 + p 3 + p 4 + p 5 = 0) :
    ∀ i, xdot x u p i = 0 := by
  obtain ⟨m0, m1, m2⟩ := zero_moment_symmetric x u p hJx hJy hJz hw heq hsin hcos hdir
  obtain ⟨v0, v1, v2⟩ := hv
  obtain ⟨q0, q1, q2, q3⟩ := hq
  obtain ⟨w0, w1, w2⟩ := hw
  obtain ⟨e1, e2, e3⟩ := heq
  obtain ⟨c0, c1, c2, c3⟩ := hcmd
  intro i
  fin_cases i
  · simp [xdot, cas_defs, cas_real, v0, v1, v2]
  · simp [xdot, cas_defs, cas_real, v0, v1, v2]
  · simp [xdot, cas_defs, cas_real, v0, v1, v2]
  · simp [xdot, cas_defs, cas_real, v0, v1, v2, q0, q1, q2, q3, w0, w1, w2, habove]
  · simp [xdot, cas_defs, cas_real, v0, v1, v2, q0, q1, q2, q3, w0, w1, w2, habove]
  · simp [xdot, cas_defs, cas_real, v0, v1, v2, q0, q1, q2, q3, w0, w1, w2, habove, e1, e2, e3]
    field_simp
    left
    linear_combination 4 * hquarter
  · simp [xdot, cas_defs, cas_real, w0, w1, w2]
  · simp [xdot, cas_defs, cas_real, w0, w1, w2]
  · simp [xdot, cas_defs, cas_real, w0, w1, w2]
  · simp [xdot, cas_defs, cas_real, w0, w1, w2]
  · simpa [xdot, cas_defs] using m0
  · simpa [xdot, cas_defs] using m1
  · simpa [xdot, cas_defs] using m2
  · simp [xdot, cas_defs, cas_real, c0]
  · simp [xdot, cas_defs, cas_real, c1]
  · simp [xdot, cas_defs, cas_real, c2]
  · simp [xdot, cas_defs, cas_real, c3]

/-! ## sensors -/
/-- the accelerometer reads zero in free fall (no thrust, above ground, no aerodynamic drag) -/
theorem accel_free_fall (x : Fin 17 → ℝ) (u : Fin 4 → ℝ) (p : Fin 39 → ℝ) (dt : ℝ)
    (habove : ¬ x 2 < 0) (hmot : x 13 = 0 ∧ x 14 = 0 ∧ x 15 = 0 ∧ x 16 = 0) (hdrag : p 19 = 0) :
    quadrotor.g_accel.y_0 x u p 0 dt = 0 ∧ quadrotor.g_accel.y_1 x u p 0 dt = 0
      ∧ quadrotor.g_accel.y_2 x u p 0 dt = 0 := by
  obtain ⟨a, b, c, d⟩ := hmot
  refine ⟨?_, ?_, ?_⟩ <;> simp [cas_defs, cas_real, habove, a, b, c, d, hdrag] <;> (try ring1)

/-- the noise-free gyro reads the body rate -/
theorem gyro_noise_free (x : Fin 17 → ℝ) (u : Fin 4 → ℝ) (p : Fin 39 → ℝ) (dt : ℝ) :
    quadrotor.g_gyro.y_0 x u p 0 dt = x 10 ∧ quadrotor.g_gyro.y_1 x u p 0 dt = x 11
      ∧ quadrotor.g_gyro.y_2 x u p 0 dt = x 12 := by
  refine ⟨?_, ?_, ?_⟩ <;> simp [cas_defs, cas_real] <;> (try ring1)

end C16
