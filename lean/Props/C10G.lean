/-
  Props/C10G.lean — LDLᵀ factorization for EVERY size n (hand model Model/Ldl.lean, tied to the real
  `cyecca.util.ldl_symmetric_decomposition` by the C10 correspondence run, sizes 1..6):
    * L has a unit diagonal and is zero above it, D is diagonal (kept as its diagonal);
    * (L D Lᵀ)_{ij} = P_{ij} on the triangle the routine reads (j ≤ i < n), whenever the pivots
      D_0 … D_j are non-zero; for a symmetric P, on the whole matrix.
-/
import Model.Ldl
import Cas.Real
import GenM.Util
import Mathlib.Algebra.BigOperators.Intervals
import Mathlib.Algebra.BigOperators.Field
import Mathlib.Tactic.Ring
import Mathlib.Tactic.FieldSimp
import Mathlib.Tactic.Linarith

set_option maxHeartbeats 1000000
open LdlModel Finset

namespace C10G

variable (n : ℕ) (P : ℕ → ℕ → ℝ)

theorem subLoop_eq (acc : ℝ) (f : ℕ → ℝ) (j : ℕ) : subLoop acc f j = acc - ∑ k ∈ range j, f k := by
  induction j with
  | zero => simp [subLoop]
  | succ j ih => simp [subLoop, cas_real, ih, sum_range_succ]; ring

/-- pivot computed in pass j from the state before it -/
noncomputable def piv (s : St ℝ) (j : ℕ) : ℝ := P j j - ∑ k ∈ range j, s.L j k * s.L j k * s.D k

theorem step_D (j : ℕ) (s : St ℝ) (c : ℕ) :
    (step n P j s).D c = if c = j then piv P s j else s.D c := by
  simp [step, piv, subLoop_eq, cas_real]

theorem step_L (j : ℕ) (s : St ℝ) (i c : ℕ) :
    (step n P j s).L i c =
      if c = j then
        (if i = j then 1
         else if j < i ∧ i < n then (P i j - ∑ k ∈ range j, s.L i k * s.L j k * s.D k) / piv P s j
         else s.L i c)
      else s.L i c := by
  simp [step, piv, subLoop_eq, cas_real]

/-- columns the outer loop has not reached yet are still zero -/
theorem run_zero (m c : ℕ) (h : m ≤ c) (i : ℕ) : (run n P m).L i c = 0 ∧ (run n P m).D c = 0 := by
  induction m with
  | zero => simp [run, cas_real]
  | succ m ih =>
    have hc : c ≠ m := by omega
    have := ih (by omega)
    simp [run, step_L, step_D, hc, this]

/-- a finished column is never touched again -/
theorem run_stable (m c : ℕ) (h : c < m) (i : ℕ) :
    (run n P m).L i c = (run n P (c + 1)).L i c ∧ (run n P m).D c = (run n P (c + 1)).D c := by
  induction m with
  | zero => omega
  | succ m ih =>
    by_cases hcm : c = m
    · subst hcm; exact ⟨rfl, rfl⟩
    · have := ih (by omega)
      simp [run, step_L, step_D, hcm] at this ⊢
      exact this

/-- the factors returned for an n × n matrix -/
noncomputable def Lf (i j : ℕ) : ℝ := (ldl n P).L i j
noncomputable def Df (j : ℕ) : ℝ := (ldl n P).D j

theorem final_col (j : ℕ) (hj : j < n) (i : ℕ) :
    Lf n P i j = (run n P (j + 1)).L i j ∧ Df n P j = (run n P (j + 1)).D j :=
  run_stable n P n j hj i

theorem before_col (j k : ℕ) (hk : k < j) (hj : j < n) (i : ℕ) :
    (run n P j).L i k = Lf n P i k ∧ (run n P j).D k = Df n P k := by
  have a := run_stable n P j k hk i
  have b := final_col n P k (by omega) i
  exact ⟨a.1.trans b.1.symm, a.2.trans b.2.symm⟩

/-- **unit diagonal** -/
theorem L_diag (j : ℕ) (hj : j < n) : Lf n P j j = 1 := by
  rw [(final_col n P j hj j).1]; simp [run, step_L]

/-- **zero above the diagonal** -/
theorem L_upper (i j : ℕ) (hij : i < j) (hj : j < n) : Lf n P i j = 0 := by
  rw [(final_col n P j hj i).1]
  have hne : i ≠ j := by omega
  have hnot : ¬ (j < i ∧ i < n) := by omega
  simp [run, step_L, hne, hnot, (run_zero n P j j le_rfl i).1]

/-- the pivot recursion in terms of the returned factors -/
theorem D_rec (j : ℕ) (hj : j < n) :
    Df n P j = P j j - ∑ k ∈ range j, Lf n P j k * Lf n P j k * Df n P k := by
  rw [(final_col n P j hj j).2]
  simp only [run, step_D, if_true, piv]
  congr 1
  refine sum_congr rfl fun k hk => ?_
  have := before_col n P j k (mem_range.mp hk) hj j
  rw [this.1, this.2]

/-- the column recursion in terms of the returned factors -/
theorem L_rec (i j : ℕ) (hji : j < i) (hi : i < n) :
    Lf n P i j = (P i j - ∑ k ∈ range j, Lf n P i k * Lf n P j k * Df n P k) / Df n P j := by
  have hj : j < n := by omega
  rw [(final_col n P j hj i).1, D_rec n P j hj]
  have hne : i ≠ j := by omega
  simp only [run, step_L, if_true, hne, if_false, hji, hi, and_self, piv]
  congr 1
  · congr 1
    refine sum_congr rfl fun k hk => ?_
    have a := before_col n P j k (mem_range.mp hk) hj i
    have b := before_col n P j k (mem_range.mp hk) hj j
    rw [a.1, b.1, a.2]
  · congr 1
    refine sum_congr rfl fun k hk => ?_
    have b := before_col n P j k (mem_range.mp hk) hj j
    rw [b.1, b.2]

/-- **L D Lᵀ = P on the triangle the routine reads**, every size, given a non-zero pivot in column j. -/
theorem reconstruct_lower (i j : ℕ) (hji : j ≤ i) (hi : i < n) (hp : Df n P j ≠ 0) :
    ∑ k ∈ range (j + 1), Lf n P i k * Df n P k * Lf n P j k = P i j := by
  have hj : j < n := by omega
  rw [sum_range_succ, L_diag n P j hj]
  rcases Nat.eq_or_lt_of_le hji with h | h
  · subst h
    rw [L_diag n P j hj]
    have := D_rec n P j hj
    have e : ∑ k ∈ range j, Lf n P j k * Df n P k * Lf n P j k = ∑ k ∈ range j, Lf n P j k * Lf n P j k * Df n P k :=
      sum_congr rfl fun k _ => by ring
    rw [e]; linarith
  · have := L_rec n P i j h hi
    have e : ∑ k ∈ range j, Lf n P i k * Df n P k * Lf n P j k = ∑ k ∈ range j, Lf n P i k * Lf n P j k * Df n P k :=
      sum_congr rfl fun k _ => by ring
    rw [e, this]
    field_simp
    ring

/-- **(L D Lᵀ)_{ij} = P_{ij} for all i, j < n** when P is symmetric and all pivots are non-zero. -/
theorem reconstruct (hs : ∀ i j, P i j = P j i) (hp : ∀ j, j < n → Df n P j ≠ 0)
    (i j : ℕ) (hi : i < n) (hj : j < n) :
    ∑ k ∈ range n, Lf n P i k * Df n P k * Lf n P j k = P i j := by
  -- terms beyond min i j vanish because L is lower triangular
  have key : ∀ a b, b ≤ a → a < n →
      ∑ k ∈ range n, Lf n P a k * Df n P k * Lf n P b k = P a b := by
    intro a b hba ha
    have hb : b < n := by omega
    rw [← reconstruct_lower n P a b hba ha (hp b hb)]
    have hsplit : range n = range (b + 1) ∪ Ico (b + 1) n := by
      ext x; simp only [mem_union, mem_range, mem_Ico]; omega
    have hdis : Disjoint (range (b + 1)) (Ico (b + 1) n) := by
      rw [disjoint_left]; intro x hx hx'; simp only [mem_range, mem_Ico] at hx hx'; omega
    rw [hsplit, sum_union hdis]
    have hz : ∑ k ∈ Ico (b + 1) n, Lf n P a k * Df n P k * Lf n P b k = 0 := by
      refine sum_eq_zero fun k hk => ?_
      have hk' := mem_Ico.mp hk
      rw [L_upper n P b k (by omega) hk'.2]; ring
    rw [hz, add_zero]
  rcases le_total j i with h | h
  · exact key i j h hi
  · rw [hs i j, ← key j i h hj]
    exact sum_congr rfl fun k _ => by ring

/-! ## the every-size model IS the translated program at the translated sizes
     (`Gen.util.ldlN` is regenerated from cyecca/util.py on every run) -/

/-- an N × N matrix of a translated program as the model's index function -/
def ext {N : ℕ} (P : Fin N → Fin N → ℝ) : ℕ → ℕ → ℝ :=
  fun i j => if h : i < N ∧ j < N then P ⟨i, h.1⟩ ⟨j, h.2⟩ else 0

open Gen in
macro "ldl_link" : tactic =>
  `(tactic| (simp [C10G.Lf, C10G.Df, ldl, run, step, subLoop, ext, cas_defs, cas_real] <;> (try ring)))

theorem gen_ldl2_L (P : Fin 2 → Fin 2 → ℝ) (i j : Fin 2) :
    Gen.util.ldl2.L_mat P i j = Lf 2 (ext P) i j := by
  fin_cases i <;> fin_cases j <;> ldl_link
theorem gen_ldl2_D (P : Fin 2 → Fin 2 → ℝ) (j : Fin 2) :
    Gen.util.ldl2.D_mat P j j = Df 2 (ext P) j := by
  fin_cases j <;> ldl_link
theorem gen_ldl3_L (P : Fin 3 → Fin 3 → ℝ) (i j : Fin 3) :
    Gen.util.ldl3.L_mat P i j = Lf 3 (ext P) i j := by
  fin_cases i <;> fin_cases j <;> ldl_link
theorem gen_ldl3_D (P : Fin 3 → Fin 3 → ℝ) (j : Fin 3) :
    Gen.util.ldl3.D_mat P j j = Df 3 (ext P) j := by
  fin_cases j <;> ldl_link
theorem gen_ldl4_L (P : Fin 4 → Fin 4 → ℝ) (i j : Fin 4) :
    Gen.util.ldl4.L_mat P i j = Lf 4 (ext P) i j := by
  fin_cases i <;> fin_cases j <;> ldl_link
theorem gen_ldl4_D (P : Fin 4 → Fin 4 → ℝ) (j : Fin 4) :
    Gen.util.ldl4.D_mat P j j = Df 4 (ext P) j := by
  fin_cases j <;> ldl_link

/-! ## non-vacuity: a concrete 2 × 2 instance -/
example : Df 2 (fun i j => if i = j then 2 else 1) 1 = 3 / 2 := by
  rw [D_rec 2 _ 1 (by norm_num)]
  simp
  rw [L_rec 2 _ 1 0 (by norm_num) (by norm_num), D_rec 2 _ 0 (by norm_num)]
  simp; norm_num

end C10G
