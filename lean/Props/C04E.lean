/-
  Props/C04E.lean — Ad_{exp x} = exp(ad_x) (matrix exponential of the adjoint operator) for the rotation groups,
  composed from the translated Ad / ad operators (C04) and the exponential theorems (C02).  On so(3) the adjoint
  operator IS the hat matrix and Ad of a rotation IS its rotation matrix, so the statement reduces to C02's
  closed-form-cell theorems; zero rotation is covered separately.  SE(2), SE(3), SE_2(3): numeric search only.
-/
import Props.C04
import Props.C02

set_option maxHeartbeats 4000000
open Gen Rot RotExp NormedSpace SeriesLemmas

namespace C04E

/-- on so(3) the adjoint operator is the hat matrix -/
theorem so3_ad_spec (x : Fin 3 → ℝ) : so3.ad.M_mat x = hat x := by
  mat_entries <;> simp [cas_defs, cas_real, hat] <;> (try ring1)

/-- quaternion form: Ad_{exp x} = exp(ad_x) for every angle on the closed-form cell (no upper bound on the angle) -/
theorem SO3Quat_Ad_exp (x : Fin 3 → ℝ) (h : eps ≤ C02.usq x / 4) :
    SO3Quat.Ad.M_mat (SO3Quat.exp.r_vec x) = exp (so3.ad.M_mat x) := by
  have h2 := (C02.SO3Quat_exp x h).2
  rw [C04.SO3Quat.toMatrix_spec, C02.so3_hat] at h2
  rw [C04.SO3Quat.Ad_spec, so3_ad_spec, h2]

/-- DCM form -/
theorem SO3Dcm_Ad_exp (x : Fin 3 → ℝ) (h : eps ≤ C02.usq x) :
    SO3Dcm.Ad.M_mat (SO3Dcm.exp.r_vec x) = exp (so3.ad.M_mat x) := by
  rw [C04.SO3Dcm.Ad_spec, C02.SO3Dcm_exp x h, C02.so3_hat, so3_ad_spec]

/-- MRP form (shadow switch included), angles with cos(θ/4) ≠ 0 -/
theorem SO3Mrp_Ad_exp (x : Fin 3 → ℝ) (h : eps ≤ C02.usq x) (hc : Real.cos (Real.sqrt (nsq x) / 4) ≠ 0) :
    SO3Mrp.Ad.M_mat (SO3Mrp.exp.r_vec x) = exp (so3.ad.M_mat x) := by
  have h2 := (C02.SO3Mrp_exp x h hc).2
  rw [C02.SO3Mrp_toMatrix_spec, C02.so3_hat] at h2
  rw [C04.SO3Mrp.Ad_spec, so3_ad_spec, h2]

/-- zero rotation: Ad_{exp 0} = exp(ad_0) = 1 (DCM form) -/
theorem SO3Dcm_Ad_exp_zero : SO3Dcm.Ad.M_mat (SO3Dcm.exp.r_vec (0 : Fin 3 → ℝ)) = exp (so3.ad.M_mat 0) := by
  rw [C04.SO3Dcm.Ad_spec, C02.SO3Dcm_exp_zero, C02.so3_hat, so3_ad_spec]

end C04E
