/-
  Props/C10.lean — filter numerics (cyecca/util.py): LDLᵀ / UDUᵀ factorizations, RK4, square-root
  covariance derivative and measurement update, on the translated instances.
-/
import GenM.Util
import Mathlib.Tactic.FieldSimp
import Mathlib.Tactic.Ring
import Mathlib.Tactic.FinCases
import Mathlib.Logic.Equiv.Fin.Basic
import Lib.SqrtFilter

set_option maxHeartbeats 8000000
set_option linter.unusedSimpArgs false
set_option linter.unusedTactic false
set_option linter.unreachableTactic false
set_option linter.unnecessarySeqFocus false
open Gen

namespace C10

macro "ents" : tactic => `(tactic| (ext i j; fin_cases i <;> fin_cases j))

/-- the symmetric matrix whose lower (resp. upper) triangle is that of `P`: the routines only read one triangle -/
def symL {n : ℕ} (P : Fin n → Fin n → ℝ) : Matrix (Fin n) (Fin n) ℝ := Matrix.of fun i j => if j ≤ i then P i j else P j i
def symU {n : ℕ} (P : Fin n → Fin n → ℝ) : Matrix (Fin n) (Fin n) ℝ := Matrix.of fun i j => if i ≤ j then P i j else P j i


/-! ### LDLᵀ, n = 2 : for a symmetric input with non-zero pivots the factors reconstruct P; L is unit lower
    triangular and D diagonal (the zero pattern is structural: those entries are literally 0) -/
theorem ldl2_reconstructs (P : Fin 2 → Fin 2 → ℝ) (h0 : util.ldl2.D_0_0 P ≠ 0) :
    util.ldl2.L_mat P * util.ldl2.D_mat P * (util.ldl2.L_mat P).transpose = symL P := by
  simp only [cas_defs, cas_real] at *
  ents <;> simp [symL, cas_defs, cas_real, Matrix.mul_apply, Fin.sum_univ_succ] <;> field_simp <;> ring
theorem ldl2_shape (P : Fin 2 → Fin 2 → ℝ) :
    (∀ i, util.ldl2.L_mat P i i = 1) ∧ (∀ i j, i < j → util.ldl2.L_mat P i j = 0)
      ∧ (∀ i j, i ≠ j → util.ldl2.D_mat P i j = 0) := by
  refine ⟨?_, ?_, ?_⟩
  · intro i; fin_cases i <;> simp [cas_defs, cas_real] <;> (try ring1)
  · intro i j h; fin_cases i <;> fin_cases j <;> simp [cas_defs, cas_real] at *
  · intro i j h; fin_cases i <;> fin_cases j <;> simp [cas_defs, cas_real] at *


theorem udu2_reconstructs (P : Fin 2 → Fin 2 → ℝ) (h1 : util.udu2.D_1_1 P ≠ 0) :
    util.udu2.U_mat P * util.udu2.D_mat P * (util.udu2.U_mat P).transpose = symU P := by
  simp only [cas_defs, cas_real] at *
  ents <;> simp [symU, cas_defs, cas_real, Matrix.mul_apply, Fin.sum_univ_succ] <;> field_simp <;> ring
theorem udu2_shape (P : Fin 2 → Fin 2 → ℝ) :
    (∀ i, util.udu2.U_mat P i i = 1) ∧ (∀ i j, j < i → util.udu2.U_mat P i j = 0)
      ∧ (∀ i j, i ≠ j → util.udu2.D_mat P i j = 0) := by
  refine ⟨?_, ?_, ?_⟩
  · intro i; fin_cases i <;> simp [cas_defs, cas_real] <;> (try ring1)
  · intro i j h; fin_cases i <;> fin_cases j <;> simp [cas_defs, cas_real] at *
  · intro i j h; fin_cases i <;> fin_cases j <;> simp [cas_defs, cas_real] at *


/-! ### LDLᵀ, n = 3 : for a symmetric input with non-zero pivots the factors reconstruct P; L is unit lower
    triangular and D diagonal (the zero pattern is structural: those entries are literally 0) -/
theorem ldl3_reconstructs (P : Fin 3 → Fin 3 → ℝ) (h0 : util.ldl3.D_0_0 P ≠ 0) (h1 : util.ldl3.D_1_1 P ≠ 0) :
    util.ldl3.L_mat P * util.ldl3.D_mat P * (util.ldl3.L_mat P).transpose = symL P := by
  simp only [cas_defs, cas_real] at *
  have h1a : -P 1 0 ^ 2 + P 0 0 * P 1 1 ≠ 0 := by
    intro h; apply h1; field_simp; linarith
  have h1b : P 0 0 * P 1 1 - P 1 0 ^ 2 ≠ 0 := by
    intro h; apply h1a; linarith
  ents <;> simp [symL, cas_defs, cas_real, Matrix.mul_apply, Fin.sum_univ_succ] <;> field_simp <;> ring
theorem ldl3_shape (P : Fin 3 → Fin 3 → ℝ) :
    (∀ i, util.ldl3.L_mat P i i = 1) ∧ (∀ i j, i < j → util.ldl3.L_mat P i j = 0)
      ∧ (∀ i j, i ≠ j → util.ldl3.D_mat P i j = 0) := by
  refine ⟨?_, ?_, ?_⟩
  · intro i; fin_cases i <;> simp [cas_defs, cas_real] <;> (try ring1)
  · intro i j h; fin_cases i <;> fin_cases j <;> simp [cas_defs, cas_real] at *
  · intro i j h; fin_cases i <;> fin_cases j <;> simp [cas_defs, cas_real] at *


theorem udu3_reconstructs (P : Fin 3 → Fin 3 → ℝ) (h1 : util.udu3.D_1_1 P ≠ 0) (h2 : util.udu3.D_2_2 P ≠ 0) :
    util.udu3.U_mat P * util.udu3.D_mat P * (util.udu3.U_mat P).transpose = symU P := by
  simp only [cas_defs, cas_real] at *
  have h1a : P 2 2 * P 1 1 - P 1 2 ^ 2 ≠ 0 := by
    intro h; apply h1; field_simp; linarith
  have h1b : P 1 1 * P 2 2 - P 1 2 ^ 2 ≠ 0 := by
    intro h; apply h1a; linarith
  ents <;> simp [symU, cas_defs, cas_real, Matrix.mul_apply, Fin.sum_univ_succ] <;> field_simp <;> ring
theorem udu3_shape (P : Fin 3 → Fin 3 → ℝ) :
    (∀ i, util.udu3.U_mat P i i = 1) ∧ (∀ i j, j < i → util.udu3.U_mat P i j = 0)
      ∧ (∀ i j, i ≠ j → util.udu3.D_mat P i j = 0) := by
  refine ⟨?_, ?_, ?_⟩
  · intro i; fin_cases i <;> simp [cas_defs, cas_real] <;> (try ring1)
  · intro i j h; fin_cases i <;> fin_cases j <;> simp [cas_defs, cas_real] at *
  · intro i j h; fin_cases i <;> fin_cases j <;> simp [cas_defs, cas_real] at *


/-! ### RK4 -/
/-- exact when the derivative is a cubic polynomial in time, for every t, h and coefficients -/
theorem rk4_cubic_exact (t y h : ℝ) (c : Fin 4 → ℝ) :
    util.rk4_cubic.y1 t y h c
      = y + (c 0 * ((t + h) - t) + c 1 * ((t + h) ^ 2 - t ^ 2) / 2 + c 2 * ((t + h) ^ 3 - t ^ 3) / 3
            + c 3 * ((t + h) ^ 4 - t ^ 4) / 4) := by
  simp only [cas_defs, cas_real]; ring
/-- on y' = λ y the step is the degree-4 Taylor polynomial of the exponential (order 4) -/
theorem rk4_linear (y h lam : ℝ) :
    util.rk4_linear.y1 y h lam
      = y * (1 + (lam * h) + (lam * h) ^ 2 / 2 + (lam * h) ^ 3 / 6 + (lam * h) ^ 4 / 24) := by
  simp only [cas_defs, cas_real]; ring
/-- consistency on an affine planar system y' = A y + b: y1 = y + h (A y + b) + O(h²); stated as the exact
    degree-4 expansion  Σ_{k=1..4} h^k A^{k-1}(A y + b)/k! -/
theorem rk4_affine2 (y : Fin 2 → ℝ) (h : ℝ) (A : Fin 2 → Fin 2 → ℝ) (b : Fin 2 → ℝ) :
    let f : Fin 2 → ℝ := fun i => A i 0 * y 0 + A i 1 * y 1 + b i
    let Af : Fin 2 → ℝ := fun i => A i 0 * f 0 + A i 1 * f 1
    let AAf : Fin 2 → ℝ := fun i => A i 0 * Af 0 + A i 1 * Af 1
    let AAAf : Fin 2 → ℝ := fun i => A i 0 * AAf 0 + A i 1 * AAf 1
    util.rk4_affine2.y1_0 y h A b = y 0 + h * f 0 + h ^ 2 / 2 * Af 0 + h ^ 3 / 6 * AAf 0 + h ^ 4 / 24 * AAAf 0
    ∧ util.rk4_affine2.y1_1 y h A b = y 1 + h * f 1 + h ^ 2 / 2 * Af 1 + h ^ 3 / 6 * AAf 1 + h ^ 4 / 24 * AAAf 1 := by
  intro f Af AAf AAAf
  constructor <;> simp only [cas_defs, cas_real, f, Af, AAf, AAAf] <;> ring

/-! ### square-root covariance derivative: lower triangular and W'Wᵀ + WW'ᵀ = FP + PFᵀ + Q (P = WWᵀ) -/
theorem sqrt_predict2 (W F Q : Fin 2 → Fin 2 → ℝ) (hq : Q 0 1 = Q 1 0) (h0 : W 0 0 ≠ 0) (h1 : W 1 1 ≠ 0) :
    let d00 := util.sqrt_predict2.Wdot_0_0 W F Q
    let d01 := util.sqrt_predict2.Wdot_0_1 W F Q
    let d10 := util.sqrt_predict2.Wdot_1_0 W F Q
    let d11 := util.sqrt_predict2.Wdot_1_1 W F Q
    let P00 := W 0 0 * W 0 0
    let P10 := W 1 0 * W 0 0
    let P11 := W 1 0 * W 1 0 + W 1 1 * W 1 1
    -- W' is lower triangular
    d01 = 0
    -- (W' Wᵀ + W W'ᵀ) = F P + P Fᵀ + Q, entry by entry (W = [[W00, 0],[W10, W11]])
    ∧ d00 * W 0 0 + W 0 0 * d00 = (F 0 0 * P00 + F 0 1 * P10) + (P00 * F 0 0 + P10 * F 0 1) + Q 0 0
    ∧ (d10 * W 0 0) + (W 1 0 * d00 + W 1 1 * d01) = (F 1 0 * P00 + F 1 1 * P10) + (P10 * F 0 0 + P11 * F 0 1) + Q 1 0
    ∧ (d10 * W 1 0 + d11 * W 1 1) + (W 1 0 * d10 + W 1 1 * d11)
        = (F 1 0 * P10 + F 1 1 * P11) + (P10 * F 1 0 + P11 * F 1 1) + Q 1 1 := by
  intro d00 d01 d10 d11 P00 P10 P11
  refine ⟨?_, ?_, ?_, ?_⟩ <;> simp only [d00, d01, d10, d11, P00, P10, P11, cas_defs, cas_real] <;> field_simp <;>
    first | ring1 | linear_combination (W 0 0 * W 1 1 * 2) * hq | linear_combination (-(W 0 0 * W 1 1 * 2)) * hq
          | linear_combination (W 0 0 * W 1 1) * hq | linear_combination (-(W 0 0 * W 1 1)) * hq
          | linear_combination (W 0 0) * hq | linear_combination (-(W 0 0)) * hq
          | (rw [hq]; ring1) | (rw [← hq]; ring1)

/-! ### square-root measurement update, n = 1, m = 1 (CasADi's symbolic QR inlined) -/
theorem sqrt_correct_1_1 (Rs H W : ℝ) (hR : Rs ≠ 0) :
    let P := W * W
    let S := H * P * H + Rs * Rs
    util.sqrt_correct_1_1.Ss Rs H W * util.sqrt_correct_1_1.Ss Rs H W = S
    ∧ util.sqrt_correct_1_1.K Rs H W * S = P * H
    ∧ util.sqrt_correct_1_1.Wp Rs H W * util.sqrt_correct_1_1.Wp Rs H W
        = (1 - util.sqrt_correct_1_1.K Rs H W * H) * P := by
  intro P S
  have hS : 0 < Rs * Rs + H * W * (H * W) := by
    have := mul_self_pos.mpr hR
    nlinarith [mul_self_nonneg (H * W)]
  have hs := Real.mul_self_sqrt hS.le
  have hsp : 0 < Real.sqrt (Rs * Rs + H * W * (H * W)) := Real.sqrt_pos.mpr hS
  have hne : Real.sqrt (Rs * Rs + H * W * (H * W)) ≠ 0 := hsp.ne'
  simp only [cas_defs, cas_real, P, S]
  generalize Real.sqrt (Rs * Rs + H * W * (H * W)) = s at *
  have h2 : s ^ 2 = Rs * Rs + H * W * (H * W) := by rw [pow_two]; exact hs
  refine ⟨?_, ?_, ?_⟩
  · linarith [hs]
  · field_simp
    rw [h2]; ring
  · rw [Real.mul_self_sqrt]
    · field_simp
      rw [h2]; ring
    · first
      | exact add_nonneg (mul_self_nonneg _) (mul_self_nonneg _)
      | exact add_nonneg (sq_nonneg _) (sq_nonneg _)

/-! ### square-root measurement update, 3 states, 2 measurements, with `ca.qr` replaced by its contract
    (`Gen.util.sqrt_correct_qr_3_2`: the real routine, the one ca.qr call swapped for inputs qrQ, qrR and the matrix handed to it
    exposed as qr_arg).  Under QᵀQ = 1 and Q·R = qr_arg, with an invertible innovation factor:
    Ss Ssᵀ = H P Hᵀ + Rs Rsᵀ,  K S = P Hᵀ,  W⁺W⁺ᵀ = (1 − K H) P,  P − W⁺W⁺ᵀ ⪰ 0  — for EVERY Rs, H, W. -/
section sqrt_correct_qr
open Matrix
open Gen.util.sqrt_correct_qr_3_2

def lowerPart {k : ℕ} (W : Fin k → Fin k → ℝ) : Matrix (Fin k) (Fin k) ℝ := Matrix.of fun i j => if j ≤ i then W i j else 0
def upperPart {k : ℕ} (R : Fin k → Fin k → ℝ) : Matrix (Fin k) (Fin k) ℝ := Matrix.of fun i j => if i ≤ j then R i j else 0

@[simp] theorem e_inl0 : (finSumFinEquiv (Sum.inl (0 : Fin 2)) : Fin (2 + 3)) = (0 : Fin 5) := by decide
@[simp] theorem e_inl1 : (finSumFinEquiv (Sum.inl (1 : Fin 2)) : Fin (2 + 3)) = (1 : Fin 5) := by decide
@[simp] theorem e_inr0 : (finSumFinEquiv (Sum.inr (0 : Fin 3)) : Fin (2 + 3)) = (2 : Fin 5) := by decide
@[simp] theorem e_inr1 : (finSumFinEquiv (Sum.inr (1 : Fin 3)) : Fin (2 + 3)) = (3 : Fin 5) := by decide
@[simp] theorem e_inr2 : (finSumFinEquiv (Sum.inr (2 : Fin 3)) : Fin (2 + 3)) = (4 : Fin 5) := by decide

variable (Rs : Fin 2 → Fin 2 → ℝ) (H : Fin 2 → Fin 3 → ℝ) (W : Fin 3 → Fin 3 → ℝ) (qrQ qrR : Fin 5 → Fin 5 → ℝ)

/-- qrRᵀ and the transposed QR argument, re-indexed by (measurement ⊕ state) -/
def Lb (qrR : Fin 5 → Fin 5 → ℝ) : Matrix (Fin 2 ⊕ Fin 3) (Fin 2 ⊕ Fin 3) ℝ := ((upperPart qrR)ᵀ).submatrix finSumFinEquiv finSumFinEquiv
def Bb (A : Matrix (Fin 5) (Fin 5) ℝ) : Matrix (Fin 2 ⊕ Fin 3) (Fin 2 ⊕ Fin 3) ℝ := (Aᵀ).submatrix finSumFinEquiv finSumFinEquiv

/-- G: the lower-left block of qrRᵀ (K is G Ss⁻¹) -/
def Gblk (qrR : Fin 5 → Fin 5 → ℝ) : Matrix (Fin 3) (Fin 2) ℝ := Matrix.of fun i j => qrR (Fin.castAdd 3 j) (Fin.natAdd 2 i)

theorem sqrt_correct_qr_3_2 (hQ : (Matrix.of qrQ)ᵀ * Matrix.of qrQ = 1)
    (hQR : Matrix.of qrQ * upperPart qrR = qr_arg_mat Rs H W qrQ qrR) (h0 : qrR 0 0 ≠ 0) (h1 : qrR 1 1 ≠ 0) :
    let P := lowerPart W * (lowerPart W)ᵀ
    let Hm : Matrix (Fin 2) (Fin 3) ℝ := Matrix.of H
    let S := Hm * P * Hmᵀ + lowerPart Rs * (lowerPart Rs)ᵀ
    Ss_mat Rs H W qrQ qrR * (Ss_mat Rs H W qrQ qrR)ᵀ = S
    ∧ K_mat Rs H W qrQ qrR * S = P * Hmᵀ
    ∧ Wp_mat Rs H W qrQ qrR * (Wp_mat Rs H W qrQ qrR)ᵀ = (1 - K_mat Rs H W qrQ qrR * Hm) * P
    ∧ (P - Wp_mat Rs H W qrQ qrR * (Wp_mat Rs H W qrQ qrR)ᵀ).PosSemidef := by
  intro P Hm S
  have hA : ∀ (i : Fin 3) (j : Fin 2), qr_arg_mat Rs H W qrQ qrR (finSumFinEquiv (m := 2) (n := 3) (Sum.inl j)) (finSumFinEquiv (m := 2) (n := 3) (Sum.inr i)) = 0 := by
    intro i j; fin_cases i <;> fin_cases j <;> simp only [e_inl0, e_inl1, e_inr0, e_inr1, e_inr2]
    all_goals simp only [qr_arg_mat, Matrix.of_apply, Matrix.cons_val', Matrix.cons_val_zero, Matrix.cons_val_one, Matrix.cons_val, Matrix.cons_val_fin_one]
    all_goals simp [cas_defs, cas_real] <;> (try ring1)
  have hR : ∀ (i : Fin 3) (j : Fin 2), upperPart qrR (finSumFinEquiv (m := 2) (n := 3) (Sum.inr i)) (finSumFinEquiv (m := 2) (n := 3) (Sum.inl j)) = 0 := by
    intro i j; fin_cases i <;> fin_cases j <;> simp [upperPart]
  obtain ⟨a, c, d⟩ := SqrtFilter.flat (M := Fin 2) (N := Fin 3) finSumFinEquiv _ _ _ hQ hQR hA hR
  -- identify the blocks with the generated outputs / the inputs
  have eSs : (Lb qrR).toBlocks₁₁ = Ss_mat Rs H W qrQ qrR := by
    ext i j; fin_cases i <;> fin_cases j <;> simp [Lb, Ss_mat, toBlocks₁₁, upperPart, cas_defs, cas_real]
  have eWp : (Lb qrR).toBlocks₂₂ = Wp_mat Rs H W qrQ qrR := by
    ext i j; fin_cases i <;> fin_cases j <;> simp [Lb, Wp_mat, toBlocks₂₂, upperPart, cas_defs, cas_real]
  have eG : (Lb qrR).toBlocks₂₁ = Gblk qrR := by
    ext i j; fin_cases i <;> fin_cases j <;> simp [Lb, Gblk, toBlocks₂₁, upperPart] <;> rfl
  have eRs : (Bb (qr_arg_mat Rs H W qrQ qrR)).toBlocks₁₁ = lowerPart Rs := by
    ext i j
    simp only [Bb, toBlocks₁₁, Matrix.of_apply, submatrix_apply, transpose_apply]
    fin_cases i <;> fin_cases j <;> simp only [e_inl0, e_inl1]
    all_goals simp only [qr_arg_mat, Matrix.of_apply, Matrix.cons_val', Matrix.cons_val_zero, Matrix.cons_val_one, Matrix.cons_val, Matrix.cons_val_fin_one]
    all_goals simp [lowerPart, cas_defs, cas_real]
  have eW : (Bb (qr_arg_mat Rs H W qrQ qrR)).toBlocks₂₂ = lowerPart W := by
    ext i j
    simp only [Bb, toBlocks₂₂, Matrix.of_apply, submatrix_apply, transpose_apply]
    fin_cases i <;> fin_cases j <;> simp only [e_inr0, e_inr1, e_inr2]
    all_goals simp only [qr_arg_mat, Matrix.of_apply, Matrix.cons_val', Matrix.cons_val_zero, Matrix.cons_val_one, Matrix.cons_val, Matrix.cons_val_fin_one]
    all_goals simp [lowerPart, cas_defs, cas_real]
  have eC : (Bb (qr_arg_mat Rs H W qrQ qrR)).toBlocks₁₂ = Hm * lowerPart W := by
    ext i j
    simp only [Bb, toBlocks₁₂, Matrix.of_apply, submatrix_apply, transpose_apply]
    fin_cases i <;> fin_cases j <;> simp only [e_inl0, e_inl1, e_inr0, e_inr1, e_inr2]
    all_goals simp only [qr_arg_mat, Matrix.of_apply, Matrix.cons_val', Matrix.cons_val_zero, Matrix.cons_val_one, Matrix.cons_val, Matrix.cons_val_fin_one]
    all_goals simp [Hm, lowerPart, cas_defs, cas_real, Matrix.mul_apply, Fin.sum_univ_succ]
    all_goals try ring
  change (Lb qrR).toBlocks₁₁ * (Lb qrR).toBlocks₁₁ᵀ = (Bb _).toBlocks₁₂ * (Bb _).toBlocks₁₂ᵀ + (Bb _).toBlocks₁₁ * (Bb _).toBlocks₁₁ᵀ at a
  change (Lb qrR).toBlocks₂₁ * (Lb qrR).toBlocks₁₁ᵀ = (Bb _).toBlocks₂₂ * (Bb _).toBlocks₁₂ᵀ at c
  change (Lb qrR).toBlocks₂₁ * (Lb qrR).toBlocks₂₁ᵀ + (Lb qrR).toBlocks₂₂ * (Lb qrR).toBlocks₂₂ᵀ = (Bb _).toBlocks₂₂ * (Bb _).toBlocks₂₂ᵀ at d
  rw [eSs, eRs, eC] at a
  rw [eG, eSs, eW, eC] at c
  rw [eG, eWp, eW] at d
  have hK : K_mat Rs H W qrQ qrR * Ss_mat Rs H W qrQ qrR = Gblk qrR := by
    ext i j; fin_cases i <;> fin_cases j <;>
      simp [K_mat, Ss_mat, Gblk, cas_defs, cas_real, Matrix.mul_apply, Fin.sum_univ_succ] <;> field_simp <;> ring
  obtain ⟨g1, g2, g3⟩ := SqrtFilter.gain _ _ _ _ _ _ c d hK
  have eS : Ss_mat Rs H W qrQ qrR * (Ss_mat Rs H W qrQ qrR)ᵀ = S := by
    rw [a]; simp only [S, P, transpose_mul, Matrix.mul_assoc]
  refine ⟨eS, ?_, ?_, g3⟩
  · rw [← eS, g1]; simp only [P, transpose_mul, Matrix.mul_assoc]
  · rw [g2]; simp only [P, Matrix.sub_mul, Matrix.one_mul, transpose_mul, Matrix.mul_assoc]
end sqrt_correct_qr

end C10
