/-
  Props/C10.lean — filter numerics (cyecca/util.py): LDLᵀ / UDUᵀ factorizations, RK4, square-root
  covariance derivative and measurement update, on the translated instances.
-/
import GenM.Util
import Mathlib.Tactic.FieldSimp
import Mathlib.Tactic.Ring

set_option maxHeartbeats 8000000
open Gen

namespace C10

macro "ents" : tactic => `(tactic| (ext i j; fin_cases i <;> fin_cases j))

/-- the symmetric matrix whose lower (resp. upper) triangle is that of `P`: the routines only read one triangle -/
def symL {n : ℕ} (P : Fin n → Fin n → ℝ) : Matrix (Fin n) (Fin n) ℝ := Matrix.of fun i j => if j ≤ i then P i j else P j i
def symU {n : ℕ} (P : Fin n → Fin n → ℝ) : Matrix (Fin n) (Fin n) ℝ := Matrix.of fun i j => if i ≤ j then P i j else P j i


/-! ### LDLᵀ, n = 2 : for a symmetric input with non-zero pivots the factors reconstruct P; L is unit lower
    triangular and D diagonal (the zero pattern is structural: those entries are literally 0) -/
theorem ldl2_reconstructs (P : Fin 2 → Fin 2 → ℝ) (h0 : util.ldl2.D_0_0 P ≠ 0) :
    util.ldl2.L_mat P * util.ldl2.D_mat P * (util.ldl2.L_mat P).transpose = symL P := by
  simp only [cas_defs, cas_real] at *
  ents <;> simp [symL, cas_defs, cas_real, Matrix.mul_apply, Fin.sum_univ_succ] <;> field_simp <;> ring
theorem ldl2_shape (P : Fin 2 → Fin 2 → ℝ) :
    (∀ i, util.ldl2.L_mat P i i = 1) ∧ (∀ i j, i < j → util.ldl2.L_mat P i j = 0)
      ∧ (∀ i j, i ≠ j → util.ldl2.D_mat P i j = 0) := by
  refine ⟨?_, ?_, ?_⟩
  · intro i; fin_cases i <;> simp [cas_defs, cas_real]
  · intro i j h; fin_cases i <;> fin_cases j <;> simp [cas_defs, cas_real] at *
  · intro i j h; fin_cases i <;> fin_cases j <;> simp [cas_defs, cas_real] at *


theorem udu2_reconstructs (P : Fin 2 → Fin 2 → ℝ) (h1 : util.udu2.D_1_1 P ≠ 0) :
    util.udu2.U_mat P * util.udu2.D_mat P * (util.udu2.U_mat P).transpose = symU P := by
  simp only [cas_defs, cas_real] at *
  ents <;> simp [symU, cas_defs, cas_real, Matrix.mul_apply, Fin.sum_univ_succ] <;> field_simp <;> ring
theorem udu2_shape (P : Fin 2 → Fin 2 → ℝ) :
    (∀ i, util.udu2.U_mat P i i = 1) ∧ (∀ i j, j < i → util.udu2.U_mat P i j = 0)
      ∧ (∀ i j, i ≠ j → util.udu2.D_mat P i j = 0) := by
  refine ⟨?_, ?_, ?_⟩
  · intro i; fin_cases i <;> simp [cas_defs, cas_real]
  · intro i j h; fin_cases i <;> fin_cases j <;> simp [cas_defs, cas_real] at *
  · intro i j h; fin_cases i <;> fin_cases j <;> simp [cas_defs, cas_real] at *


/-! ### LDLᵀ, n = 3 : for a symmetric input with non-zero pivots the factors reconstruct P; L is unit lower
    triangular and D diagonal (the zero pattern is structural: those entries are literally 0) -/
theorem ldl3_reconstructs (P : Fin 3 → Fin 3 → ℝ) (h0 : util.ldl3.D_0_0 P ≠ 0) (h1 : util.ldl3.D_1_1 P ≠ 0) :
    util.ldl3.L_mat P * util.ldl3.D_mat P * (util.ldl3.L_mat P).transpose = symL P := by
  simp only [cas_defs, cas_real] at *
  have h1a : -P 1 0 ^ 2 + P 0 0 * P 1 1 ≠ 0 := by
    intro h; apply h1; field_simp; linarith
  have h1b : P 0 0 * P 1 1 - P 1 0 ^ 2 ≠ 0 := by
    intro h; apply h1a; linarith
  ents <;> simp [symL, cas_defs, cas_real, Matrix.mul_apply, Fin.sum_univ_succ] <;> field_simp <;> ring
theorem ldl3_shape (P : Fin 3 → Fin 3 → ℝ) :
    (∀ i, util.ldl3.L_mat P i i = 1) ∧ (∀ i j, i < j → util.ldl3.L_mat P i j = 0)
      ∧ (∀ i j, i ≠ j → util.ldl3.D_mat P i j = 0) := by
  refine ⟨?_, ?_, ?_⟩
  · intro i; fin_cases i <;> simp [cas_defs, cas_real]
  · intro i j h; fin_cases i <;> fin_cases j <;> simp [cas_defs, cas_real] at *
  · intro i j h; fin_cases i <;> fin_cases j <;> simp [cas_defs, cas_real] at *


theorem udu3_reconstructs (P : Fin 3 → Fin 3 → ℝ) (h1 : util.udu3.D_1_1 P ≠ 0) (h2 : util.udu3.D_2_2 P ≠ 0) :
    util.udu3.U_mat P * util.udu3.D_mat P * (util.udu3.U_mat P).transpose = symU P := by
  simp only [cas_defs, cas_real] at *
  have h1a : P 2 2 * P 1 1 - P 1 2 ^ 2 ≠ 0 := by
    intro h; apply h1; field_simp; linarith
  have h1b : P 1 1 * P 2 2 - P 1 2 ^ 2 ≠ 0 := by
    intro h; apply h1a; linarith
  ents <;> simp [symU, cas_defs, cas_real, Matrix.mul_apply, Fin.sum_univ_succ] <;> field_simp <;> ring
theorem udu3_shape (P : Fin 3 → Fin 3 → ℝ) :
    (∀ i, util.udu3.U_mat P i i = 1) ∧ (∀ i j, j < i → util.udu3.U_mat P i j = 0)
      ∧ (∀ i j, i ≠ j → util.udu3.D_mat P i j = 0) := by
  refine ⟨?_, ?_, ?_⟩
  · intro i; fin_cases i <;> simp [cas_defs, cas_real]
  · intro i j h; fin_cases i <;> fin_cases j <;> simp [cas_defs, cas_real] at *
  · intro i j h; fin_cases i <;> fin_cases j <;> simp [cas_defs, cas_real] at *


/-! ### RK4 -/
/-- exact when the derivative is a cubic polynomial in time, for every t, h and coefficients -/
theorem rk4_cubic_exact (t y h : ℝ) (c : Fin 4 → ℝ) :
    util.rk4_cubic.y1 t y h c
      = y + (c 0 * ((t + h) - t) + c 1 * ((t + h) ^ 2 - t ^ 2) / 2 + c 2 * ((t + h) ^ 3 - t ^ 3) / 3
            + c 3 * ((t + h) ^ 4 - t ^ 4) / 4) := by
  simp only [cas_defs, cas_real]; ring
/-- on y' = λ y the step is the degree-4 Taylor polynomial of the exponential (order 4) -/
theorem rk4_linear (y h lam : ℝ) :
    util.rk4_linear.y1 y h lam
      = y * (1 + (lam * h) + (lam * h) ^ 2 / 2 + (lam * h) ^ 3 / 6 + (lam * h) ^ 4 / 24) := by
  simp only [cas_defs, cas_real]; ring
/-- consistency on an affine planar system y' = A y + b: y1 = y + h (A y + b) + O(h²); stated as the exact
    degree-4 expansion  Σ_{k=1..4} h^k A^{k-1}(A y + b)/k! -/
theorem rk4_affine2 (y : Fin 2 → ℝ) (h : ℝ) (A : Fin 2 → Fin 2 → ℝ) (b : Fin 2 → ℝ) :
    let f : Fin 2 → ℝ := fun i => A i 0 * y 0 + A i 1 * y 1 + b i
    let Af : Fin 2 → ℝ := fun i => A i 0 * f 0 + A i 1 * f 1
    let AAf : Fin 2 → ℝ := fun i => A i 0 * Af 0 + A i 1 * Af 1
    let AAAf : Fin 2 → ℝ := fun i => A i 0 * AAf 0 + A i 1 * AAf 1
    util.rk4_affine2.y1_0 y h A b = y 0 + h * f 0 + h ^ 2 / 2 * Af 0 + h ^ 3 / 6 * AAf 0 + h ^ 4 / 24 * AAAf 0
    ∧ util.rk4_affine2.y1_1 y h A b = y 1 + h * f 1 + h ^ 2 / 2 * Af 1 + h ^ 3 / 6 * AAf 1 + h ^ 4 / 24 * AAAf 1 := by
  intro f Af AAf AAAf
  constructor <;> simp only [cas_defs, cas_real, f, Af, AAf, AAAf] <;> ring

/-! ### square-root covariance derivative: lower triangular and W'Wᵀ + WW'ᵀ = FP + PFᵀ + Q (P = WWᵀ) -/
theorem sqrt_predict2 (W F Q : Fin 2 → Fin 2 → ℝ) (hq : Q 0 1 = Q 1 0) (h0 : W 0 0 ≠ 0) (h1 : W 1 1 ≠ 0) :
    let d00 := util.sqrt_predict2.Wdot_0_0 W F Q
    let d01 := util.sqrt_predict2.Wdot_0_1 W F Q
    let d10 := util.sqrt_predict2.Wdot_1_0 W F Q
    let d11 := util.sqrt_predict2.Wdot_1_1 W F Q
    let P00 := W 0 0 * W 0 0
    let P10 := W 1 0 * W 0 0
    let P11 := W 1 0 * W 1 0 + W 1 1 * W 1 1
    -- W' is lower triangular
    d01 = 0
    -- (W' Wᵀ + W W'ᵀ) = F P + P Fᵀ + Q, entry by entry (W = [[W00, 0],[W10, W11]])
    ∧ d00 * W 0 0 + W 0 0 * d00 = (F 0 0 * P00 + F 0 1 * P10) + (P00 * F 0 0 + P10 * F 0 1) + Q 0 0
    ∧ (d10 * W 0 0) + (W 1 0 * d00 + W 1 1 * d01) = (F 1 0 * P00 + F 1 1 * P10) + (P10 * F 0 0 + P11 * F 0 1) + Q 1 0
    ∧ (d10 * W 1 0 + d11 * W 1 1) + (W 1 0 * d10 + W 1 1 * d11)
        = (F 1 0 * P10 + F 1 1 * P11) + (P10 * F 1 0 + P11 * F 1 1) + Q 1 1 := by
  intro d00 d01 d10 d11 P00 P10 P11
  refine ⟨?_, ?_, ?_, ?_⟩ <;> simp only [d00, d01, d10, d11, P00, P10, P11, cas_defs, cas_real] <;> field_simp <;>
    first | ring1 | linear_combination (W 0 0 * W 1 1 * 2) * hq | linear_combination (-(W 0 0 * W 1 1 * 2)) * hq
          | linear_combination (W 0 0 * W 1 1) * hq | linear_combination (-(W 0 0 * W 1 1)) * hq
          | linear_combination (W 0 0) * hq | linear_combination (-(W 0 0)) * hq
          | (rw [hq]; ring1) | (rw [← hq]; ring1)

/-! ### square-root measurement update, n = 1, m = 1 (CasADi's symbolic QR inlined) -/
theorem sqrt_correct_1_1 (Rs H W : ℝ) (hR : Rs ≠ 0) :
    let P := W * W
    let S := H * P * H + Rs * Rs
    util.sqrt_correct_1_1.Ss Rs H W * util.sqrt_correct_1_1.Ss Rs H W = S
    ∧ util.sqrt_correct_1_1.K Rs H W * S = P * H
    ∧ util.sqrt_correct_1_1.Wp Rs H W * util.sqrt_correct_1_1.Wp Rs H W
        = (1 - util.sqrt_correct_1_1.K Rs H W * H) * P := by
  intro P S
  have hS : 0 < Rs * Rs + H * W * (H * W) := by
    have := mul_self_pos.mpr hR
    nlinarith [mul_self_nonneg (H * W)]
  have hs := Real.mul_self_sqrt hS.le
  have hsp : 0 < Real.sqrt (Rs * Rs + H * W * (H * W)) := Real.sqrt_pos.mpr hS
  have hne : Real.sqrt (Rs * Rs + H * W * (H * W)) ≠ 0 := hsp.ne'
  simp only [cas_defs, cas_real, P, S]
  generalize Real.sqrt (Rs * Rs + H * W * (H * W)) = s at *
  have h2 : s ^ 2 = Rs * Rs + H * W * (H * W) := by rw [pow_two]; exact hs
  refine ⟨?_, ?_, ?_⟩
  · linarith [hs]
  · field_simp
    rw [h2]; ring
  · rw [Real.mul_self_sqrt]
    · field_simp
      rw [h2]; ring
    · first
      | exact add_nonneg (mul_self_nonneg _) (mul_self_nonneg _)
      | exact add_nonneg (sq_nonneg _) (sq_nonneg _)

end C10
