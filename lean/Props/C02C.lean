/-
  Props/C02C.lean — the "in particular" clauses of C02 as corollaries of exp = matrix exponential (Props/C02):
      exp((s+t)x) = exp(sx) exp(tx),   exp(−x) exp(x) = identity
  as statements about the matrix forms of the translated programs, on the closed-form cells (every argument on the cell).
  Uses linearity of the translated hat maps and `Matrix.exp_add_of_commute`.
-/
import Props.C02
import Mathlib.Analysis.Normed.Algebra.MatrixExponential

set_option maxHeartbeats 2000000
open Gen Rot RotExp NormedSpace SeriesLemmas

namespace C02C

theorem so3_hat_smul (s : ℝ) (x : Fin 3 → ℝ) : so3.toMatrix.M_mat (s • x) = s • so3.toMatrix.M_mat x := by
  mat_entries <;> simp [cas_defs, cas_real]
theorem se2_hat_smul (s : ℝ) (x : Fin 3 → ℝ) : se2.toMatrix.M_mat (s • x) = s • se2.toMatrix.M_mat x := by
  mat_entries <;> simp [cas_defs, cas_real]
theorem se3_hat_smul (s : ℝ) (x : Fin 6 → ℝ) : se3.toMatrix.M_mat (s • x) = s • se3.toMatrix.M_mat x := by
  mat_entries <;> simp [cas_defs, cas_real]

/-- exp((s+t)A) = exp(sA) exp(tA) for matrices -/
theorem exp_add_smul {n : Type*} [Fintype n] [DecidableEq n] (A : Matrix n n ℝ) (s t : ℝ) :
    exp ((s + t) • A) = exp (s • A) * exp (t • A) := by
  rw [add_smul]
  exact Matrix.exp_add_of_commute _ _ ((Commute.refl A).smul_left s |>.smul_right t)

/-- exp(−A) exp(A) = 1 for matrices -/
theorem exp_neg_mul {n : Type*} [Fintype n] [DecidableEq n] (A : Matrix n n ℝ) : exp (-A) * exp A = 1 := by
  rw [← Matrix.exp_add_of_commute _ _ (Commute.neg_left (Commute.refl A)), neg_add_cancel]
  exact NormedSpace.exp_zero

/-! ## SO(3), DCM form -/
theorem SO3Dcm_exp_add (x : Fin 3 → ℝ) (s t : ℝ)
    (hs : eps ≤ C02.usq (s • x)) (ht : eps ≤ C02.usq (t • x)) (hst : eps ≤ C02.usq ((s + t) • x)) :
    SO3Dcm.toMatrix.M_mat (SO3Dcm.exp.r_vec ((s + t) • x))
      = SO3Dcm.toMatrix.M_mat (SO3Dcm.exp.r_vec (s • x)) * SO3Dcm.toMatrix.M_mat (SO3Dcm.exp.r_vec (t • x)) := by
  rw [C02.SO3Dcm_exp _ hs, C02.SO3Dcm_exp _ ht, C02.SO3Dcm_exp _ hst, so3_hat_smul, so3_hat_smul, so3_hat_smul, exp_add_smul]

theorem SO3Dcm_exp_neg (x : Fin 3 → ℝ) (h : eps ≤ C02.usq x) :
    SO3Dcm.toMatrix.M_mat (SO3Dcm.exp.r_vec (-x)) * SO3Dcm.toMatrix.M_mat (SO3Dcm.exp.r_vec x) = 1 := by
  have hn : eps ≤ C02.usq (-x) := by simpa [C02.usq] using h
  have e : so3.toMatrix.M_mat (-x) = -so3.toMatrix.M_mat x := by
    have := so3_hat_smul (-1) x; simpa using this
  rw [C02.SO3Dcm_exp _ hn, C02.SO3Dcm_exp _ h, e, exp_neg_mul]

/-! ## SO(3), quaternion form -/
theorem SO3Quat_exp_add (x : Fin 3 → ℝ) (s t : ℝ)
    (hs : eps ≤ C02.usq (s • x) / 4) (ht : eps ≤ C02.usq (t • x) / 4) (hst : eps ≤ C02.usq ((s + t) • x) / 4) :
    SO3Quat.toMatrix.M_mat (SO3Quat.exp.r_vec ((s + t) • x))
      = SO3Quat.toMatrix.M_mat (SO3Quat.exp.r_vec (s • x)) * SO3Quat.toMatrix.M_mat (SO3Quat.exp.r_vec (t • x)) := by
  rw [(C02.SO3Quat_exp _ hs).2, (C02.SO3Quat_exp _ ht).2, (C02.SO3Quat_exp _ hst).2, so3_hat_smul, so3_hat_smul, so3_hat_smul,
    exp_add_smul]

theorem SO3Quat_exp_neg (x : Fin 3 → ℝ) (h : eps ≤ C02.usq x / 4) :
    SO3Quat.toMatrix.M_mat (SO3Quat.exp.r_vec (-x)) * SO3Quat.toMatrix.M_mat (SO3Quat.exp.r_vec x) = 1 := by
  have hn : eps ≤ C02.usq (-x) / 4 := by simpa [C02.usq] using h
  have e : so3.toMatrix.M_mat (-x) = -so3.toMatrix.M_mat x := by
    have := so3_hat_smul (-1) x; simpa using this
  rw [(C02.SO3Quat_exp _ hn).2, (C02.SO3Quat_exp _ h).2, e, exp_neg_mul]

/-! ## SE(2) -/
theorem SE2_exp_add (x : Fin 3 → ℝ) (s t : ℝ)
    (hs : eps ≤ |(s • x) 2|) (ht : eps ≤ |(t • x) 2|) (hst : eps ≤ |((s + t) • x) 2|) :
    SE2.toMatrix.M_mat (SE2.exp.r_vec ((s + t) • x))
      = SE2.toMatrix.M_mat (SE2.exp.r_vec (s • x)) * SE2.toMatrix.M_mat (SE2.exp.r_vec (t • x)) := by
  rw [C02.SE2_exp _ hs, C02.SE2_exp _ ht, C02.SE2_exp _ hst, se2_hat_smul, se2_hat_smul, se2_hat_smul, exp_add_smul]

theorem SE2_exp_neg (x : Fin 3 → ℝ) (h : eps ≤ |x 2|) :
    SE2.toMatrix.M_mat (SE2.exp.r_vec (-x)) * SE2.toMatrix.M_mat (SE2.exp.r_vec x) = 1 := by
  have hn : eps ≤ |(-x) 2| := by simpa using h
  have e : se2.toMatrix.M_mat (-x) = -se2.toMatrix.M_mat x := by
    have := se2_hat_smul (-1) x; simpa using this
  rw [C02.SE2_exp _ hn, C02.SE2_exp _ h, e, exp_neg_mul]

/-! ## SE(3), quaternion form -/
theorem SE3Quat_exp_add (x : Fin 6 → ℝ) (s t : ℝ)
    (hs : eps ≤ C02.usq (C02.rotv (s • x)) / 4) (ht : eps ≤ C02.usq (C02.rotv (t • x)) / 4)
    (hst : eps ≤ C02.usq (C02.rotv ((s + t) • x)) / 4) :
    SE3Quat.toMatrix.M_mat (SE3Quat.exp.r_vec ((s + t) • x))
      = SE3Quat.toMatrix.M_mat (SE3Quat.exp.r_vec (s • x)) * SE3Quat.toMatrix.M_mat (SE3Quat.exp.r_vec (t • x)) := by
  rw [C02.SE3Quat_exp _ hs, C02.SE3Quat_exp _ ht, C02.SE3Quat_exp _ hst, se3_hat_smul, se3_hat_smul, se3_hat_smul, exp_add_smul]

theorem SE3Quat_exp_neg (x : Fin 6 → ℝ) (h : eps ≤ C02.usq (C02.rotv x) / 4) :
    SE3Quat.toMatrix.M_mat (SE3Quat.exp.r_vec (-x)) * SE3Quat.toMatrix.M_mat (SE3Quat.exp.r_vec x) = 1 := by
  have hn : eps ≤ C02.usq (C02.rotv (-x)) / 4 := by simpa [C02.usq, C02.rotv] using h
  have e : se3.toMatrix.M_mat (-x) = -se3.toMatrix.M_mat x := by
    have := se3_hat_smul (-1) x; simpa using this
  rw [C02.SE3Quat_exp _ hn, C02.SE3Quat_exp _ h, e, exp_neg_mul]

end C02C

namespace C02C
open Gen Rot RotExp NormedSpace SeriesLemmas

/-! ## SO(3) and SE(3), MRP form (away from the 360° singularity of tan(θ/4)) -/
theorem SO3Mrp_exp_add (x : Fin 3 → ℝ) (s t : ℝ)
    (hs : eps ≤ C02.usq (s • x)) (ht : eps ≤ C02.usq (t • x)) (hst : eps ≤ C02.usq ((s + t) • x))
    (cs : Real.cos (Real.sqrt (nsq (s • x)) / 4) ≠ 0) (ct : Real.cos (Real.sqrt (nsq (t • x)) / 4) ≠ 0)
    (cst : Real.cos (Real.sqrt (nsq ((s + t) • x)) / 4) ≠ 0) :
    SO3Mrp.toMatrix.M_mat (SO3Mrp.exp.r_vec ((s + t) • x))
      = SO3Mrp.toMatrix.M_mat (SO3Mrp.exp.r_vec (s • x)) * SO3Mrp.toMatrix.M_mat (SO3Mrp.exp.r_vec (t • x)) := by
  rw [(C02.SO3Mrp_exp _ hs cs).2, (C02.SO3Mrp_exp _ ht ct).2, (C02.SO3Mrp_exp _ hst cst).2, so3_hat_smul, so3_hat_smul, so3_hat_smul,
    exp_add_smul]

theorem SO3Mrp_exp_neg (x : Fin 3 → ℝ) (h : eps ≤ C02.usq x) (hc : Real.cos (Real.sqrt (nsq x) / 4) ≠ 0) :
    SO3Mrp.toMatrix.M_mat (SO3Mrp.exp.r_vec (-x)) * SO3Mrp.toMatrix.M_mat (SO3Mrp.exp.r_vec x) = 1 := by
  have hn : eps ≤ C02.usq (-x) := by simpa [C02.usq] using h
  have hcn : Real.cos (Real.sqrt (nsq (-x)) / 4) ≠ 0 := by simpa [nsq] using hc
  have e : so3.toMatrix.M_mat (-x) = -so3.toMatrix.M_mat x := by
    have := so3_hat_smul (-1) x; simpa using this
  rw [(C02.SO3Mrp_exp _ hn hcn).2, (C02.SO3Mrp_exp _ h hc).2, e, exp_neg_mul]

theorem SE3Mrp_exp_add (x : Fin 6 → ℝ) (s t : ℝ)
    (hs : eps ≤ C02.usq (C02.rotv (s • x))) (ht : eps ≤ C02.usq (C02.rotv (t • x))) (hst : eps ≤ C02.usq (C02.rotv ((s + t) • x)))
    (cs : Real.cos (Real.sqrt (nsq (C02.rotv (s • x))) / 4) ≠ 0) (ct : Real.cos (Real.sqrt (nsq (C02.rotv (t • x))) / 4) ≠ 0)
    (cst : Real.cos (Real.sqrt (nsq (C02.rotv ((s + t) • x))) / 4) ≠ 0) :
    SE3Mrp.toMatrix.M_mat (SE3Mrp.exp.r_vec ((s + t) • x))
      = SE3Mrp.toMatrix.M_mat (SE3Mrp.exp.r_vec (s • x)) * SE3Mrp.toMatrix.M_mat (SE3Mrp.exp.r_vec (t • x)) := by
  rw [C02.SE3Mrp_exp _ hs cs, C02.SE3Mrp_exp _ ht ct, C02.SE3Mrp_exp _ hst cst, se3_hat_smul, se3_hat_smul, se3_hat_smul, exp_add_smul]

theorem SE3Mrp_exp_neg (x : Fin 6 → ℝ) (h : eps ≤ C02.usq (C02.rotv x)) (hc : Real.cos (Real.sqrt (nsq (C02.rotv x)) / 4) ≠ 0) :
    SE3Mrp.toMatrix.M_mat (SE3Mrp.exp.r_vec (-x)) * SE3Mrp.toMatrix.M_mat (SE3Mrp.exp.r_vec x) = 1 := by
  have hn : eps ≤ C02.usq (C02.rotv (-x)) := by simpa [C02.usq, C02.rotv] using h
  have hcn : Real.cos (Real.sqrt (nsq (C02.rotv (-x))) / 4) ≠ 0 := by simpa [nsq, C02.rotv] using hc
  have e : se3.toMatrix.M_mat (-x) = -se3.toMatrix.M_mat x := by
    have := se3_hat_smul (-1) x; simpa using this
  rw [C02.SE3Mrp_exp _ hn hcn, C02.SE3Mrp_exp _ h hc, e, exp_neg_mul]

end C02C
