/-
  Props/C02S.lean — SE₂(3): the matrix the real `exp` hands to `from_Matrix` (exposed by a probe of the real body, module
  SE23P) is 1 + X + C₁X² + C₂X³ with the code's coefficient values for EVERY x, and on the closed-form cell it IS
  NormedSpace.exp X (Lib/ExpForms.exp_se23Hat); `to_Matrix ∘ from_Matrix` is the identity on matrices of SE₂(3) shape whose
  3×3 block is a proper rotation (Shepperd theorem of C07).
  The outputs of `exp` equal `from_Matrix` applied to that matrix — a semantic equality over ℝ (`ring_nf`), not a definitional
  one: CasADi folds the constant 1 of the block's diagonal across the probe boundary.  Together:
  `SE23Quat_exp : to_Matrix (exp x) = NormedSpace.exp (x^)` for every angle on the closed-form cell.
-/
import GenM.SE23P
import GenM.SE23
import Props.C02
import Props.C07

set_option maxHeartbeats 8000000
open Gen Rot RotExp NormedSpace SeriesLemmas

namespace C02S

def pv (x : Fin 9 → ℝ) : Fin 3 → ℝ := ![x 0, x 1, x 2]
def vv (x : Fin 9 → ℝ) : Fin 3 → ℝ := ![x 3, x 4, x 5]
def wv (x : Fin 9 → ℝ) : Fin 3 → ℝ := ![x 6, x 7, x 8]

theorem se23_hat (x : Fin 9 → ℝ) : se23.toMatrix.M_mat x = se23Hat (pv x) (vv x) (wv x) := by
  mat_entries <;> simp [cas_defs, cas_real, se23Hat, pv, vv, wv] <;> (try ring1)

/-- the matrix handed to from_Matrix: 1 + X + C₁X² + C₂X³ with the code's coefficient values -/
theorem SE23Quat_exp_M (x : Fin 9 → ℝ) :
    SE23Quat.exp_p.M_mat x = 1 + se23Hat (pv x) (vv x) (wv x)
      + SqSeries.one_minus_cos_over_x2 (C02.usq (wv x)) • se23Hat (pv x) (vv x) (wv x) ^ 2
      + SqSeries.x_minus_sin_over_x3 (C02.usq (wv x)) • se23Hat (pv x) (vv x) (wv x) ^ 3 := by
  have e3 : ∀ (B : Matrix (Fin 5) (Fin 5) ℝ), B ^ 3 = B * B * B := fun B => by rw [pow_succ, pow_two]
  rw [e3, pow_two]
  mat_entries <;>
    simp [cas_defs, cas_real, C02.usq, se23Hat, pv, vv, wv, Matrix.mul_apply, Fin.sum_univ_succ, Matrix.one_apply] <;> ring

/-- on the closed-form cell that matrix IS the matrix exponential of the algebra element -/
theorem SE23Quat_exp_M_exp (x : Fin 9 → ℝ) (h : eps ≤ C02.usq (wv x)) :
    SE23Quat.exp_p.M_mat x = exp (se23.toMatrix.M_mat x) := by
  have ht : Real.sqrt (nsq (wv x)) ^ 2 = nsq (wv x) := Real.sq_sqrt (nsq_nonneg _)
  have h4 : se23Hat (pv x) (vv x) (wv x) ^ 4 = (-(Real.sqrt (nsq (wv x)) ^ 2)) • se23Hat (pv x) (vv x) (wv x) ^ 2 := by
    rw [ht]; exact se23Hat_pow_four _ _ _
  rw [SE23Quat_exp_M, se23_hat, matrix_exp_closed_form _ _ h4, sq_one_minus_cos_over_x2_closed h, sq_x_minus_sin_over_x3_closed h, C02.usq_eq]

/-- to_Matrix in block form -/
theorem SE23Quat_toMatrix_spec (r : Fin 10 → ℝ) :
    SE23Quat.toMatrix.M_mat r = se23Mat (qmat ![r 6, r 7, r 8, r 9]) ![r 3, r 4, r 5] ![r 0, r 1, r 2] := by
  mat_entries <;> simp [cas_defs, cas_real, se23Mat, qmat] <;> (try ring1)

/-- from_Matrix reads position and velocity off the last two columns and extracts the quaternion from the 3×3 block with the
    library's Shepperd routine (definitional) -/
theorem SE23Quat_fromMatrix_spec (M : Matrix (Fin 5) (Fin 5) ℝ) :
    SE23Quat.fromMatrix.r_vec (fun i j => M i j)
      = ![M 0 4, M 1 4, M 2 4, M 0 3, M 1 3, M 2 3,
          SO3Quat.fromMatrix.r_vec (fun i j => M (Fin.castLE (by omega) i) (Fin.castLE (by omega) j)) 0,
          SO3Quat.fromMatrix.r_vec (fun i j => M (Fin.castLE (by omega) i) (Fin.castLE (by omega) j)) 1,
          SO3Quat.fromMatrix.r_vec (fun i j => M (Fin.castLE (by omega) i) (Fin.castLE (by omega) j)) 2,
          SO3Quat.fromMatrix.r_vec (fun i j => M (Fin.castLE (by omega) i) (Fin.castLE (by omega) j)) 3] := by
  funext k; fin_cases k <;> rfl

/-- to_Matrix ∘ from_Matrix = id on matrices of SE₂(3) shape whose 3×3 block is a proper rotation -/
theorem SE23Quat_to_from (R : Matrix (Fin 3) (Fin 3) ℝ) (a v : Fin 3 → ℝ) (hrot : IsRot R) :
    SE23Quat.toMatrix.M_mat (SE23Quat.fromMatrix.r_vec (fun i j => se23Mat R a v i j)) = se23Mat R a v := by
  obtain ⟨h1, h2⟩ := C07.SO3Quat_fromMatrix R hrot
  rw [SE23Quat_fromMatrix_spec, SE23Quat_toMatrix_spec]
  have hb : (fun i j : Fin 3 => se23Mat R a v (Fin.castLE (by omega) i) (Fin.castLE (by omega) j)) = fun i j => R i j := by
    funext i j; fin_cases i <;> fin_cases j <;> rfl
  simp only [Matrix.cons_val_zero, Matrix.cons_val_one, Matrix.cons_val_two, Matrix.head_cons, Matrix.tail_cons, hb]
  have hq : (![SO3Quat.fromMatrix.r_vec (fun i j => R i j) 0, SO3Quat.fromMatrix.r_vec (fun i j => R i j) 1,
      SO3Quat.fromMatrix.r_vec (fun i j => R i j) 2, SO3Quat.fromMatrix.r_vec (fun i j => R i j) 3] : Fin 4 → ℝ)
      = SO3Quat.fromMatrix.r_vec (fun i j => R i j) := by
    funext k; fin_cases k <;> rfl
  show se23Mat (qmat ![SO3Quat.fromMatrix.r_vec (fun i j => R i j) 0, SO3Quat.fromMatrix.r_vec (fun i j => R i j) 1,
      SO3Quat.fromMatrix.r_vec (fun i j => R i j) 2, SO3Quat.fromMatrix.r_vec (fun i j => R i j) 3])
      ![se23Mat R a v 0 3, se23Mat R a v 1 3, se23Mat R a v 2 3] ![se23Mat R a v 0 4, se23Mat R a v 1 4, se23Mat R a v 2 4] = se23Mat R a v
  rw [hq, h2]
  have ha : (![se23Mat R a v 0 3, se23Mat R a v 1 3, se23Mat R a v 2 3] : Fin 3 → ℝ) = a := by
    funext i; fin_cases i <;> simp [se23Mat]
  have hv : (![se23Mat R a v 0 4, se23Mat R a v 1 4, se23Mat R a v 2 4] : Fin 3 → ℝ) = v := by
    funext i; fin_cases i <;> simp [se23Mat]
  rw [ha, hv]

/-- the probed extraction is the same program as the un-probed one -/
theorem exp_is_probed (x : Fin 9 → ℝ) : SE23Quat.exp.r_vec x = SE23Quat.exp_p.r_vec x := by
  funext k; fin_cases k <;> rfl

/-- peeling: the outputs are the cut programs applied to the exposed matrix -/
theorem exp_peeled (x : Fin 9 → ℝ) :
    SE23Quat.exp_p.r_vec x = (fun M : Matrix (Fin 5) (Fin 5) ℝ =>
      (![SE23Quat.exp_p.r_0_cut x (M 0 0) (M 1 0) (M 2 0) (M 3 0) (M 4 0) (M 0 1) (M 1 1) (M 2 1) (M 3 1) (M 4 1) (M 0 2) (M 1 2) (M 2 2) (M 3 2) (M 4 2) (M 0 3) (M 1 3) (M 2 3) (M 3 3) (M 4 3) (M 0 4) (M 1 4) (M 2 4) (M 3 4) (M 4 4), SE23Quat.exp_p.r_1_cut x (M 0 0) (M 1 0) (M 2 0) (M 3 0) (M 4 0) (M 0 1) (M 1 1) (M 2 1) (M 3 1) (M 4 1) (M 0 2) (M 1 2) (M 2 2) (M 3 2) (M 4 2) (M 0 3) (M 1 3) (M 2 3) (M 3 3) (M 4 3) (M 0 4) (M 1 4) (M 2 4) (M 3 4) (M 4 4), SE23Quat.exp_p.r_2_cut x (M 0 0) (M 1 0) (M 2 0) (M 3 0) (M 4 0) (M 0 1) (M 1 1) (M 2 1) (M 3 1) (M 4 1) (M 0 2) (M 1 2) (M 2 2) (M 3 2) (M 4 2) (M 0 3) (M 1 3) (M 2 3) (M 3 3) (M 4 3) (M 0 4) (M 1 4) (M 2 4) (M 3 4) (M 4 4),
       SE23Quat.exp_p.r_3_cut x (M 0 0) (M 1 0) (M 2 0) (M 3 0) (M 4 0) (M 0 1) (M 1 1) (M 2 1) (M 3 1) (M 4 1) (M 0 2) (M 1 2) (M 2 2) (M 3 2) (M 4 2) (M 0 3) (M 1 3) (M 2 3) (M 3 3) (M 4 3) (M 0 4) (M 1 4) (M 2 4) (M 3 4) (M 4 4), SE23Quat.exp_p.r_4_cut x (M 0 0) (M 1 0) (M 2 0) (M 3 0) (M 4 0) (M 0 1) (M 1 1) (M 2 1) (M 3 1) (M 4 1) (M 0 2) (M 1 2) (M 2 2) (M 3 2) (M 4 2) (M 0 3) (M 1 3) (M 2 3) (M 3 3) (M 4 3) (M 0 4) (M 1 4) (M 2 4) (M 3 4) (M 4 4), SE23Quat.exp_p.r_5_cut x (M 0 0) (M 1 0) (M 2 0) (M 3 0) (M 4 0) (M 0 1) (M 1 1) (M 2 1) (M 3 1) (M 4 1) (M 0 2) (M 1 2) (M 2 2) (M 3 2) (M 4 2) (M 0 3) (M 1 3) (M 2 3) (M 3 3) (M 4 3) (M 0 4) (M 1 4) (M 2 4) (M 3 4) (M 4 4),
       SE23Quat.exp_p.r_6_cut x (M 0 0) (M 1 0) (M 2 0) (M 3 0) (M 4 0) (M 0 1) (M 1 1) (M 2 1) (M 3 1) (M 4 1) (M 0 2) (M 1 2) (M 2 2) (M 3 2) (M 4 2) (M 0 3) (M 1 3) (M 2 3) (M 3 3) (M 4 3) (M 0 4) (M 1 4) (M 2 4) (M 3 4) (M 4 4), SE23Quat.exp_p.r_7_cut x (M 0 0) (M 1 0) (M 2 0) (M 3 0) (M 4 0) (M 0 1) (M 1 1) (M 2 1) (M 3 1) (M 4 1) (M 0 2) (M 1 2) (M 2 2) (M 3 2) (M 4 2) (M 0 3) (M 1 3) (M 2 3) (M 3 3) (M 4 3) (M 0 4) (M 1 4) (M 2 4) (M 3 4) (M 4 4), SE23Quat.exp_p.r_8_cut x (M 0 0) (M 1 0) (M 2 0) (M 3 0) (M 4 0) (M 0 1) (M 1 1) (M 2 1) (M 3 1) (M 4 1) (M 0 2) (M 1 2) (M 2 2) (M 3 2) (M 4 2) (M 0 3) (M 1 3) (M 2 3) (M 3 3) (M 4 3) (M 0 4) (M 1 4) (M 2 4) (M 3 4) (M 4 4),
       SE23Quat.exp_p.r_9_cut x (M 0 0) (M 1 0) (M 2 0) (M 3 0) (M 4 0) (M 0 1) (M 1 1) (M 2 1) (M 3 1) (M 4 1) (M 0 2) (M 1 2) (M 2 2) (M 3 2) (M 4 2) (M 0 3) (M 1 3) (M 2 3) (M 3 3) (M 4 3) (M 0 4) (M 1 4) (M 2 4) (M 3 4) (M 4 4)] : Fin 10 → ℝ)) (SE23Quat.exp_p.M_mat x) := by
  funext k; fin_cases k
  · exact SE23Quat.exp_p.r_0_cut_eq x
  · exact SE23Quat.exp_p.r_1_cut_eq x
  · exact SE23Quat.exp_p.r_2_cut_eq x
  · exact SE23Quat.exp_p.r_3_cut_eq x
  · exact SE23Quat.exp_p.r_4_cut_eq x
  · exact SE23Quat.exp_p.r_5_cut_eq x
  · exact SE23Quat.exp_p.r_6_cut_eq x
  · exact SE23Quat.exp_p.r_7_cut_eq x
  · exact SE23Quat.exp_p.r_8_cut_eq x
  · exact SE23Quat.exp_p.r_9_cut_eq x


/-- **SE₂(3), quaternion form**: the library's `from_Matrix` applied to the matrix the real `exp` builds gives an element whose
    matrix is the matrix exponential of the algebra element — for every rotation angle on the closed-form cell (θ² ≥ eps) -/
theorem SE23Quat_exp_via_fromMatrix (x : Fin 9 → ℝ) (h : eps ≤ C02.usq (wv x)) :
    SE23Quat.toMatrix.M_mat (SE23Quat.fromMatrix.r_vec (fun i j => SE23Quat.exp_p.M_mat x i j)) = exp (se23.toMatrix.M_mat x) := by
  have hE : exp (se23.toMatrix.M_mat x) = se23Mat (exp (hat (wv x))) ((Vmat (wv x)).mulVec (vv x)) ((Vmat (wv x)).mulVec (pv x)) := by
    rw [se23_hat, exp_se23Hat]
  rw [SE23Quat_exp_M_exp x h, hE]
  exact SE23Quat_to_from _ _ _ (isRot_exp_hat _)


/-! ### the outputs of the real exp are from_Matrix of the exposed matrix -/
theorem link0 (x : Fin 9 → ℝ) : SE23Quat.exp_p.r_0 x = SE23Quat.fromMatrix.r_0 (fun i j => SE23Quat.exp_p.M_mat x i j) := by
  simp only [cas_defs, cas_real, Matrix.of_apply, Matrix.cons_val', Matrix.cons_val_zero, Matrix.cons_val_one, Matrix.cons_val_two,
    Matrix.head_cons, Matrix.tail_cons, Matrix.cons_val_fin_one, Matrix.empty_val', Matrix.cons_val_three, Matrix.cons_val_four] <;> (try ring_nf)
theorem link1 (x : Fin 9 → ℝ) : SE23Quat.exp_p.r_1 x = SE23Quat.fromMatrix.r_1 (fun i j => SE23Quat.exp_p.M_mat x i j) := by
  simp only [cas_defs, cas_real, Matrix.of_apply, Matrix.cons_val', Matrix.cons_val_zero, Matrix.cons_val_one, Matrix.cons_val_two,
    Matrix.head_cons, Matrix.tail_cons, Matrix.cons_val_fin_one, Matrix.empty_val', Matrix.cons_val_three, Matrix.cons_val_four] <;> (try ring_nf)
theorem link2 (x : Fin 9 → ℝ) : SE23Quat.exp_p.r_2 x = SE23Quat.fromMatrix.r_2 (fun i j => SE23Quat.exp_p.M_mat x i j) := by
  simp only [cas_defs, cas_real, Matrix.of_apply, Matrix.cons_val', Matrix.cons_val_zero, Matrix.cons_val_one, Matrix.cons_val_two,
    Matrix.head_cons, Matrix.tail_cons, Matrix.cons_val_fin_one, Matrix.empty_val', Matrix.cons_val_three, Matrix.cons_val_four] <;> (try ring_nf)
theorem link3 (x : Fin 9 → ℝ) : SE23Quat.exp_p.r_3 x = SE23Quat.fromMatrix.r_3 (fun i j => SE23Quat.exp_p.M_mat x i j) := by
  simp only [cas_defs, cas_real, Matrix.of_apply, Matrix.cons_val', Matrix.cons_val_zero, Matrix.cons_val_one, Matrix.cons_val_two,
    Matrix.head_cons, Matrix.tail_cons, Matrix.cons_val_fin_one, Matrix.empty_val', Matrix.cons_val_three, Matrix.cons_val_four] <;> (try ring_nf)
theorem link4 (x : Fin 9 → ℝ) : SE23Quat.exp_p.r_4 x = SE23Quat.fromMatrix.r_4 (fun i j => SE23Quat.exp_p.M_mat x i j) := by
  simp only [cas_defs, cas_real, Matrix.of_apply, Matrix.cons_val', Matrix.cons_val_zero, Matrix.cons_val_one, Matrix.cons_val_two,
    Matrix.head_cons, Matrix.tail_cons, Matrix.cons_val_fin_one, Matrix.empty_val', Matrix.cons_val_three, Matrix.cons_val_four] <;> (try ring_nf)
theorem link5 (x : Fin 9 → ℝ) : SE23Quat.exp_p.r_5 x = SE23Quat.fromMatrix.r_5 (fun i j => SE23Quat.exp_p.M_mat x i j) := by
  simp only [cas_defs, cas_real, Matrix.of_apply, Matrix.cons_val', Matrix.cons_val_zero, Matrix.cons_val_one, Matrix.cons_val_two,
    Matrix.head_cons, Matrix.tail_cons, Matrix.cons_val_fin_one, Matrix.empty_val', Matrix.cons_val_three, Matrix.cons_val_four] <;> (try ring_nf)
theorem link6 (x : Fin 9 → ℝ) : SE23Quat.exp_p.r_6 x = SE23Quat.fromMatrix.r_6 (fun i j => SE23Quat.exp_p.M_mat x i j) := by
  simp only [cas_defs, cas_real, Matrix.of_apply, Matrix.cons_val', Matrix.cons_val_zero, Matrix.cons_val_one, Matrix.cons_val_two,
    Matrix.head_cons, Matrix.tail_cons, Matrix.cons_val_fin_one, Matrix.empty_val', Matrix.cons_val_three, Matrix.cons_val_four] <;> (try ring_nf)
theorem link7 (x : Fin 9 → ℝ) : SE23Quat.exp_p.r_7 x = SE23Quat.fromMatrix.r_7 (fun i j => SE23Quat.exp_p.M_mat x i j) := by
  simp only [cas_defs, cas_real, Matrix.of_apply, Matrix.cons_val', Matrix.cons_val_zero, Matrix.cons_val_one, Matrix.cons_val_two,
    Matrix.head_cons, Matrix.tail_cons, Matrix.cons_val_fin_one, Matrix.empty_val', Matrix.cons_val_three, Matrix.cons_val_four] <;> (try ring_nf)
theorem link8 (x : Fin 9 → ℝ) : SE23Quat.exp_p.r_8 x = SE23Quat.fromMatrix.r_8 (fun i j => SE23Quat.exp_p.M_mat x i j) := by
  simp only [cas_defs, cas_real, Matrix.of_apply, Matrix.cons_val', Matrix.cons_val_zero, Matrix.cons_val_one, Matrix.cons_val_two,
    Matrix.head_cons, Matrix.tail_cons, Matrix.cons_val_fin_one, Matrix.empty_val', Matrix.cons_val_three, Matrix.cons_val_four] <;> (try ring_nf)
theorem link9 (x : Fin 9 → ℝ) : SE23Quat.exp_p.r_9 x = SE23Quat.fromMatrix.r_9 (fun i j => SE23Quat.exp_p.M_mat x i j) := by
  simp only [cas_defs, cas_real, Matrix.of_apply, Matrix.cons_val', Matrix.cons_val_zero, Matrix.cons_val_one, Matrix.cons_val_two,
    Matrix.head_cons, Matrix.tail_cons, Matrix.cons_val_fin_one, Matrix.empty_val', Matrix.cons_val_three, Matrix.cons_val_four] <;> (try ring_nf)

/-- the outputs of the real exp ARE from_Matrix applied to the exposed matrix (semantic equality over ℝ: CasADi folds constants
    across the probe boundary, so this is `ring_nf`, not `rfl`) -/
theorem exp_is_fromMatrix (x : Fin 9 → ℝ) :
    SE23Quat.exp_p.r_vec x = SE23Quat.fromMatrix.r_vec (fun i j => SE23Quat.exp_p.M_mat x i j) := by
  funext k; fin_cases k
  · exact link0 x
  · exact link1 x
  · exact link2 x
  · exact link3 x
  · exact link4 x
  · exact link5 x
  · exact link6 x
  · exact link7 x
  · exact link8 x
  · exact link9 x

/-- **SE₂(3), quaternion form: the group exponential is the matrix exponential** on the closed-form cell (θ² ≥ eps, no upper
    bound on the angle) -/
theorem SE23Quat_exp (x : Fin 9 → ℝ) (h : eps ≤ C02.usq (wv x)) :
    SE23Quat.toMatrix.M_mat (SE23Quat.exp.r_vec x) = exp (se23.toMatrix.M_mat x) := by
  rw [exp_is_probed, exp_is_fromMatrix]
  exact SE23Quat_exp_via_fromMatrix x h

end C02S
