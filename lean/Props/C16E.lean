/-
  Props/C16E.lean — equivariance of the quadrotor model under horizontal translations and
  rotations of the world frame about the vertical.

  The world rotation by ψ is parametrised rationally by w = tan(ψ/4) ∈ ℝ (c = cos(ψ/2) =
  (1−w²)/(1+w²), s = sin(ψ/2) = 2w/(1+w²); every ψ ∈ (−π, π] is reached with |w| ≤ 1), so the
  statement is a rational identity with no trigonometric side relation.
-/
import GenM.Quad
import Lib.Rot

set_option maxHeartbeats 8000000
open Gen Rot

namespace C16E

/-- the state seen from the rotated / translated world frame -/
noncomputable def moved (x : Fin 17 → ℝ) (a b w : ℝ) : Fin 17 → ℝ :=
  let c := (1 - w ^ 2) / (1 + w ^ 2)
  let s := 2 * w / (1 + w ^ 2)
  ![(c * c - s * s) * x 0 - 2 * c * s * x 1 + a, 2 * c * s * x 0 + (c * c - s * s) * x 1 + b, x 2,
    x 3, x 4, x 5,
    c * x 6 - s * x 9, c * x 7 - s * x 8, c * x 8 + s * x 7, c * x 9 + s * x 6,
    x 10, x 11, x 12, x 13, x 14, x 15, x 16]

macro "equiv_close" : tactic =>
  `(tactic| (simp only [cas_defs, cas_real, moved]
             simp
             try (first | (split_ifs <;> field_simp <;> ring) | (field_simp; ring) | ring)))

theorem equivariant_0 (x : Fin 17 → ℝ) (u : Fin 4 → ℝ) (p : Fin 39 → ℝ) (a b w : ℝ)
    (hm : p 23 ≠ 0) (hJx : p 24 ≠ 0) (hJy : p 25 ≠ 0) (hJz : p 26 ≠ 0) :
    quadrotor.f.x_dot_0 (moved x a b w) u p = (((1 - w ^ 2) / (1 + w ^ 2)) * ((1 - w ^ 2) / (1 + w ^ 2)) - (2 * w / (1 + w ^ 2)) * (2 * w / (1 + w ^ 2))) * quadrotor.f.x_dot_0 x u p - 2 * ((1 - w ^ 2) / (1 + w ^ 2)) * (2 * w / (1 + w ^ 2)) * quadrotor.f.x_dot_1 x u p := by
  have hw : 1 + w ^ 2 ≠ 0 := by positivity
  equiv_close

theorem equivariant_1 (x : Fin 17 → ℝ) (u : Fin 4 → ℝ) (p : Fin 39 → ℝ) (a b w : ℝ)
    (hm : p 23 ≠ 0) (hJx : p 24 ≠ 0) (hJy : p 25 ≠ 0) (hJz : p 26 ≠ 0) :
    quadrotor.f.x_dot_1 (moved x a b w) u p = 2 * ((1 - w ^ 2) / (1 + w ^ 2)) * (2 * w / (1 + w ^ 2)) * quadrotor.f.x_dot_0 x u p + (((1 - w ^ 2) / (1 + w ^ 2)) * ((1 - w ^ 2) / (1 + w ^ 2)) - (2 * w / (1 + w ^ 2)) * (2 * w / (1 + w ^ 2))) * quadrotor.f.x_dot_1 x u p := by
  have hw : 1 + w ^ 2 ≠ 0 := by positivity
  equiv_close

theorem equivariant_2 (x : Fin 17 → ℝ) (u : Fin 4 → ℝ) (p : Fin 39 → ℝ) (a b w : ℝ)
    (hm : p 23 ≠ 0) (hJx : p 24 ≠ 0) (hJy : p 25 ≠ 0) (hJz : p 26 ≠ 0) :
    quadrotor.f.x_dot_2 (moved x a b w) u p = quadrotor.f.x_dot_2 x u p := by
  have hw : 1 + w ^ 2 ≠ 0 := by positivity
  equiv_close

theorem equivariant_3 (x : Fin 17 → ℝ) (u : Fin 4 → ℝ) (p : Fin 39 → ℝ) (a b w : ℝ)
    (hm : p 23 ≠ 0) (hJx : p 24 ≠ 0) (hJy : p 25 ≠ 0) (hJz : p 26 ≠ 0) :
    quadrotor.f.x_dot_3 (moved x a b w) u p = quadrotor.f.x_dot_3 x u p := by
  have hw : 1 + w ^ 2 ≠ 0 := by positivity
  equiv_close

theorem equivariant_4 (x : Fin 17 → ℝ) (u : Fin 4 → ℝ) (p : Fin 39 → ℝ) (a b w : ℝ)
    (hm : p 23 ≠ 0) (hJx : p 24 ≠ 0) (hJy : p 25 ≠ 0) (hJz : p 26 ≠ 0) :
    quadrotor.f.x_dot_4 (moved x a b w) u p = quadrotor.f.x_dot_4 x u p := by
  have hw : 1 + w ^ 2 ≠ 0 := by positivity
  equiv_close

theorem equivariant_5 (x : Fin 17 → ℝ) (u : Fin 4 → ℝ) (p : Fin 39 → ℝ) (a b w : ℝ)
    (hm : p 23 ≠ 0) (hJx : p 24 ≠ 0) (hJy : p 25 ≠ 0) (hJz : p 26 ≠ 0) :
    quadrotor.f.x_dot_5 (moved x a b w) u p = quadrotor.f.x_dot_5 x u p := by
  have hw : 1 + w ^ 2 ≠ 0 := by positivity
  equiv_close

theorem equivariant_6 (x : Fin 17 → ℝ) (u : Fin 4 → ℝ) (p : Fin 39 → ℝ) (a b w : ℝ)
    (hm : p 23 ≠ 0) (hJx : p 24 ≠ 0) (hJy : p 25 ≠ 0) (hJz : p 26 ≠ 0) :
    quadrotor.f.x_dot_6 (moved x a b w) u p = ((1 - w ^ 2) / (1 + w ^ 2)) * quadrotor.f.x_dot_6 x u p - (2 * w / (1 + w ^ 2)) * quadrotor.f.x_dot_9 x u p := by
  have hw : 1 + w ^ 2 ≠ 0 := by positivity
  equiv_close

theorem equivariant_7 (x : Fin 17 → ℝ) (u : Fin 4 → ℝ) (p : Fin 39 → ℝ) (a b w : ℝ)
    (hm : p 23 ≠ 0) (hJx : p 24 ≠ 0) (hJy : p 25 ≠ 0) (hJz : p 26 ≠ 0) :
    quadrotor.f.x_dot_7 (moved x a b w) u p = ((1 - w ^ 2) / (1 + w ^ 2)) * quadrotor.f.x_dot_7 x u p - (2 * w / (1 + w ^ 2)) * quadrotor.f.x_dot_8 x u p := by
  have hw : 1 + w ^ 2 ≠ 0 := by positivity
  equiv_close

theorem equivariant_8 (x : Fin 17 → ℝ) (u : Fin 4 → ℝ) (p : Fin 39 → ℝ) (a b w : ℝ)
    (hm : p 23 ≠ 0) (hJx : p 24 ≠ 0) (hJy : p 25 ≠ 0) (hJz : p 26 ≠ 0) :
    quadrotor.f.x_dot_8 (moved x a b w) u p = ((1 - w ^ 2) / (1 + w ^ 2)) * quadrotor.f.x_dot_8 x u p + (2 * w / (1 + w ^ 2)) * quadrotor.f.x_dot_7 x u p := by
  have hw : 1 + w ^ 2 ≠ 0 := by positivity
  equiv_close

theorem equivariant_9 (x : Fin 17 → ℝ) (u : Fin 4 → ℝ) (p : Fin 39 → ℝ) (a b w : ℝ)
    (hm : p 23 ≠ 0) (hJx : p 24 ≠ 0) (hJy : p 25 ≠ 0) (hJz : p 26 ≠ 0) :
    quadrotor.f.x_dot_9 (moved x a b w) u p = ((1 - w ^ 2) / (1 + w ^ 2)) * quadrotor.f.x_dot_9 x u p + (2 * w / (1 + w ^ 2)) * quadrotor.f.x_dot_6 x u p := by
  have hw : 1 + w ^ 2 ≠ 0 := by positivity
  equiv_close

theorem equivariant_10 (x : Fin 17 → ℝ) (u : Fin 4 → ℝ) (p : Fin 39 → ℝ) (a b w : ℝ)
    (hm : p 23 ≠ 0) (hJx : p 24 ≠ 0) (hJy : p 25 ≠ 0) (hJz : p 26 ≠ 0) :
    quadrotor.f.x_dot_10 (moved x a b w) u p = quadrotor.f.x_dot_10 x u p := by
  have hw : 1 + w ^ 2 ≠ 0 := by positivity
  equiv_close

theorem equivariant_11 (x : Fin 17 → ℝ) (u : Fin 4 → ℝ) (p : Fin 39 → ℝ) (a b w : ℝ)
    (hm : p 23 ≠ 0) (hJx : p 24 ≠ 0) (hJy : p 25 ≠ 0) (hJz : p 26 ≠ 0) :
    quadrotor.f.x_dot_11 (moved x a b w) u p = quadrotor.f.x_dot_11 x u p := by
  have hw : 1 + w ^ 2 ≠ 0 := by positivity
  equiv_close

theorem equivariant_12 (x : Fin 17 → ℝ) (u : Fin 4 → ℝ) (p : Fin 39 → ℝ) (a b w : ℝ)
    (hm : p 23 ≠ 0) (hJx : p 24 ≠ 0) (hJy : p 25 ≠ 0) (hJz : p 26 ≠ 0) :
    quadrotor.f.x_dot_12 (moved x a b w) u p = quadrotor.f.x_dot_12 x u p := by
  have hw : 1 + w ^ 2 ≠ 0 := by positivity
  equiv_close

theorem equivariant_13 (x : Fin 17 → ℝ) (u : Fin 4 → ℝ) (p : Fin 39 → ℝ) (a b w : ℝ)
    (hm : p 23 ≠ 0) (hJx : p 24 ≠ 0) (hJy : p 25 ≠ 0) (hJz : p 26 ≠ 0) :
    quadrotor.f.x_dot_13 (moved x a b w) u p = quadrotor.f.x_dot_13 x u p := by
  have hw : 1 + w ^ 2 ≠ 0 := by positivity
  equiv_close

theorem equivariant_14 (x : Fin 17 → ℝ) (u : Fin 4 → ℝ) (p : Fin 39 → ℝ) (a b w : ℝ)
    (hm : p 23 ≠ 0) (hJx : p 24 ≠ 0) (hJy : p 25 ≠ 0) (hJz : p 26 ≠ 0) :
    quadrotor.f.x_dot_14 (moved x a b w) u p = quadrotor.f.x_dot_14 x u p := by
  have hw : 1 + w ^ 2 ≠ 0 := by positivity
  equiv_close

theorem equivariant_15 (x : Fin 17 → ℝ) (u : Fin 4 → ℝ) (p : Fin 39 → ℝ) (a b w : ℝ)
    (hm : p 23 ≠ 0) (hJx : p 24 ≠ 0) (hJy : p 25 ≠ 0) (hJz : p 26 ≠ 0) :
    quadrotor.f.x_dot_15 (moved x a b w) u p = quadrotor.f.x_dot_15 x u p := by
  have hw : 1 + w ^ 2 ≠ 0 := by positivity
  equiv_close

theorem equivariant_16 (x : Fin 17 → ℝ) (u : Fin 4 → ℝ) (p : Fin 39 → ℝ) (a b w : ℝ)
    (hm : p 23 ≠ 0) (hJx : p 24 ≠ 0) (hJy : p 25 ≠ 0) (hJz : p 26 ≠ 0) :
    quadrotor.f.x_dot_16 (moved x a b w) u p = quadrotor.f.x_dot_16 x u p := by
  have hw : 1 + w ^ 2 ≠ 0 := by positivity
  equiv_close

end C16E
