/-
  Props/C19.lean — SymPy ↔ CasADi conversion preserves meaning: soundness of the hand model
  (Model/Symbolic.lean) of cyecca/symbolic.py's two converters, for ALL expression trees, by structural induction.
  The model is tied to the real converters by the differential runs of harness/props/C19.py.
-/
import Model.Symbolic
import Cas.Real
import Mathlib.Analysis.SpecialFunctions.Pow.Real
import Mathlib.Analysis.SpecialFunctions.Sqrt
import Mathlib.Tactic.Ring
import Mathlib.Tactic.Linarith
import Mathlib.Tactic.FieldSimp
import Mathlib.Algebra.Order.Round

set_option maxHeartbeats 1000000
set_option linter.unusedSimpArgs false
set_option linter.unusedTactic false
set_option linter.unreachableTactic false
open Sym

namespace C19

/-- value of a dyadic constant m·2^e -/
noncomputable def dy (m e : Int) : ℝ := (m : ℝ) * (2 : ℝ) ^ e

noncomputable def b2r (p : Prop) [Decidable p] : ℝ := if p then 1 else 0

/-- sympy Mod for real arguments: a − b·⌊a/b⌋ -/
noncomputable def smod (a b : ℝ) : ℝ := a - b * (⌊a / b⌋ : ℝ)

/-- unary functions: the ones whose meaning the converters rely on are fixed; all others are one uninterpreted
    function per name, THE SAME on both sides (the converters map them name to name) -/
noncomputable def ufnR (ufn : UFn → ℝ → ℝ) : UFn → ℝ → ℝ
  | .abs => fun x => |x|
  | .sign => CasReal.sign
  | .floor => fun x => (⌊x⌋ : ℝ)
  | .ceil => fun x => (⌈x⌉ : ℝ)
  | f => ufn f

noncomputable def relR : Rel → ℝ → ℝ → ℝ
  | .lt, a, b => b2r (a < b) | .le, a, b => b2r (a ≤ b) | .eq, a, b => b2r (a = b)
  | .ne, a, b => b2r (a ≠ b) | .gt, a, b => b2r (a > b) | .ge, a, b => b2r (a ≥ b)

/-- meaning of a SymPy tree: symbols by name, user functions by name -/
noncomputable def evalS (env : String → ℝ) (fenv : String → ℝ → ℝ) (ufn : UFn → ℝ → ℝ) : S → ℝ
  | .int n => n | .rat p q => (p : ℝ) / q | .flt m e => dy m e
  | .half => 1 / 2 | .one => 1 | .zero => 0 | .negone => -1
  | .pyint n => n | .pybool b => if b then 1 else 0
  | .sym n => env n
  | .add a b => evalS env fenv ufn a + evalS env fenv ufn b
  | .mul a b => evalS env fenv ufn a * evalS env fenv ufn b
  | .pow b e => (evalS env fenv ufn b) ^ (evalS env fenv ufn e)
  | .un f a => ufnR ufn f (evalS env fenv ufn a)
  | .app g a => fenv g (evalS env fenv ufn a)
  | .mod a b => smod (evalS env fenv ufn a) (evalS env fenv ufn b)
  | .atan2 a b => CasReal.atan2 (evalS env fenv ufn a) (evalS env fenv ufn b)
  | .rel r a b => relR r (evalS env fenv ufn a) (evalS env fenv ufn b)
  | .not a => b2r (evalS env fenv ufn a = 0)
  | .and a b => b2r (evalS env fenv ufn a ≠ 0 ∧ evalS env fenv ufn b ≠ 0)
  | .or a b => b2r (evalS env fenv ufn a ≠ 0 ∨ evalS env fenv ufn b ≠ 0)
  | .pw v c d => if evalS env fenv ufn c ≠ 0 then evalS env fenv ufn v else evalS env fenv ufn d
  | .other _ => 0

noncomputable def op1R (ufn : UFn → ℝ → ℝ) : Op1 → ℝ → ℝ
  | .neg => fun x => -x | .sqrt => Real.sqrt | .sq => fun x => x * x | .twice => fun x => 2 * x
  | .not => fun x => b2r (x = 0) | .inv => fun x => x⁻¹
  | .exp => ufn .exp | .log => ufn .log | .sin => ufn .sin | .cos => ufn .cos | .tan => ufn .tan
  | .asin => ufn .asin | .acos => ufn .acos | .atan => ufn .atan
  | .floor => fun x => (⌊x⌋ : ℝ) | .ceil => fun x => (⌈x⌉ : ℝ) | .fabs => fun x => |x| | .sign => CasReal.sign
  | .erf => ufn .erf | .sinh => ufn .sinh | .cosh => ufn .cosh | .tanh => ufn .tanh
  | .asinh => ufn .asinh | .acosh => ufn .acosh | .atanh => ufn .atanh

noncomputable def op2R : Op2 → ℝ → ℝ → ℝ
  | .add => (· + ·) | .sub => (· - ·) | .mul => (· * ·) | .div => (· / ·)
  | .pow => fun a b => a ^ b | .constpow => fun a b => a ^ b
  | .lt => fun a b => b2r (a < b) | .le => fun a b => b2r (a ≤ b) | .eq => fun a b => b2r (a = b) | .ne => fun a b => b2r (a ≠ b)
  | .and => fun a b => b2r (a ≠ 0 ∧ b ≠ 0) | .or => fun a b => b2r (a ≠ 0 ∨ b ≠ 0)
  | .fmod => CasReal.fmod | .copysign => fun a b => if b < 0 then -|a| else |a|
  | .ifz => fun c v => if c ≠ 0 then v else 0
  | .fmin => fun a b => if a < b then a else b | .fmax => fun a b => if a > b then a else b
  | .atan2 => CasReal.atan2 | .remainder => CasReal.remainder | .hypot => fun a b => Real.sqrt (a * a + b * b)

/-- meaning of a CasADi tree (opcode semantics as in Cas/Real.lean) -/
noncomputable def evalC (env : String → ℝ) (fenv : String → ℝ → ℝ) (ufn : UFn → ℝ → ℝ) : C → ℝ
  | .cint n => n | .const m e => dy m e | .sym n => env n
  | .un op a => op1R ufn op (evalC env fenv ufn a)
  | .bin op a b => op2R op (evalC env fenv ufn a) (evalC env fenv ufn b)
  | .call g a => fenv g (evalC env fenv ufn a)
  | .unsupported _ => 0

theorem bind_ok {α β : Type} (x : Except String α) (f : α → Except String β) (c : β)
    (h : (x >>= f) = .ok c) : ∃ a, x = .ok a ∧ f a = .ok c := by
  cases x with
  | error e => simp [bind, Except.bind] at h
  | ok a => exact ⟨a, rfl, by simpa [bind, Except.bind] using h⟩

theorem pure_ok {α : Type} (a c : α) (h : (pure a : Except String α) = .ok c) : a = c := by
  simpa [pure, Except.pure] using h

section
variable (env : String → ℝ) (fenv : String → ℝ → ℝ) (ufn : UFn → ℝ → ℝ)

/-- sympy → casadi: whenever the converter returns an expression it has the same value as its input at every point,
    for every interpretation of the symbols and of the user functions.  The user-function map sends a name to the
    map REGISTERED UNDER THAT NAME (`fenv g`) — not to the first entry. -/
theorem s2c_sound (fd : List String)
    -- a user map registered under the name of a sympy function the converter has no case of its own for
    -- (exp, log, asin, …) is that function
    (hfd : ∀ f : UFn, f.name ∈ fd → fenv f.name = ufnR ufn f) :
    ∀ (e : S) (c : C), s2c fd e = .ok c → evalC env fenv ufn c = evalS env fenv ufn e := by
  intro e
  induction e with
  | add a b iha ihb =>
      intro c h
      simp only [s2c] at h
      obtain ⟨x, hx, h⟩ := bind_ok _ _ _ h
      obtain ⟨y, hy, h⟩ := bind_ok _ _ _ h
      cases pure_ok _ _ h
      simp [evalC, evalS, op2R, iha _ hx, ihb _ hy]
  | mul a b iha ihb =>
      intro c h
      simp only [s2c] at h
      obtain ⟨x, hx, h⟩ := bind_ok _ _ _ h
      obtain ⟨y, hy, h⟩ := bind_ok _ _ _ h
      cases pure_ok _ _ h
      simp [evalC, evalS, op2R, iha _ hx, ihb _ hy]
  | pow b e ihb ihe =>
      intro c h
      simp only [s2c] at h
      obtain ⟨x, hx, h⟩ := bind_ok _ _ _ h
      split at h
      · cases pure_ok _ _ h
        simp [evalC, evalS, op1R, ihb _ hx, Real.sqrt_eq_rpow]
      · obtain ⟨y, hy, h⟩ := bind_ok _ _ _ h
        cases pure_ok _ _ h
        simp [evalC, evalS, op2R, ihb _ hx, ihe _ hy]
  | un f a iha =>
      intro c h
      simp only [s2c] at h
      split at h
      · rename_i op hop
        obtain ⟨x, hx, h⟩ := bind_ok _ _ _ h
        cases pure_ok _ _ h
        cases f <;> simp [trigOf] at hop <;> subst hop <;> simp [evalC, evalS, op1R, ufnR, iha _ hx]
      · by_cases hm : fd.contains f.name = true
        · rw [if_pos hm] at h
          obtain ⟨x, hx, h⟩ := bind_ok _ _ _ h
          cases pure_ok _ _ h
          have := hfd f (by simpa using hm)
          simp [evalC, evalS, iha _ hx, this]
        · rw [if_neg hm] at h
          cases h
  | app g a iha =>
      intro c h
      simp only [s2c] at h
      split at h
      · obtain ⟨x, hx, h⟩ := bind_ok _ _ _ h
        cases pure_ok _ _ h
        simp [evalC, evalS, iha _ hx]
      · cases h
  | int n => intro c h; cases pure_ok _ _ h; simp [evalC, evalS]
  | pyint n => intro c h; cases pure_ok _ _ h; simp [evalC, evalS]
  | rat p q => intro c h; cases pure_ok _ _ h; simp [evalC, evalS, op2R]
  | flt m e => intro c h; cases pure_ok _ _ h; simp [evalC, evalS]
  | half => intro c h; cases pure_ok _ _ h; simp [evalC, evalS, dy]
  | one => intro c h; cases pure_ok _ _ h; simp [evalC, evalS]
  | zero => intro c h; cases pure_ok _ _ h; simp [evalC, evalS]
  | negone => intro c h; cases pure_ok _ _ h; simp [evalC, evalS]
  | sym n => intro c h; cases pure_ok _ _ h; simp [evalC, evalS]
  | _ => intro c h; simp [s2c] at h

/-! ### casadi → sympy -/

/-- C fmod (truncated division) written with sympy's floored Mod: sign(a)·(|a| mod |b|) -/
theorem fmod_eq (a b : ℝ) : CasReal.fmod a b = CasReal.sign a * smod |a| |b| := by
  unfold CasReal.fmod CasReal.sign smod
  rcases lt_trichotomy a 0 with ha | ha | ha
  · rcases lt_trichotomy b 0 with hb | hb | hb
    · have hq : ¬ a / b < 0 := not_lt.mpr (div_nonneg_of_nonpos ha.le hb.le)
      simp only [hq, if_false, ha, if_true, abs_of_neg ha, abs_of_neg hb, neg_div_neg_eq]
      ring
    · subst hb; simp [ha, abs_of_neg ha]
    · have hq : a / b < 0 := div_neg_of_neg_of_pos ha hb
      have e : (⌈a / b⌉ : ℝ) = -(⌊-a / b⌋ : ℝ) := by
        rw [neg_div, Int.floor_neg]; simp
      simp only [hq, if_true, ha, abs_of_neg ha, abs_of_pos hb, e]
      ring
  · subst ha; simp
  · have hna : ¬ a < 0 := not_lt.mpr ha.le
    rcases lt_trichotomy b 0 with hb | hb | hb
    · have hq : a / b < 0 := div_neg_of_pos_of_neg ha hb
      have e : (⌈a / b⌉ : ℝ) = -(⌊a / -b⌋ : ℝ) := by
        rw [div_neg, Int.floor_neg]; simp
      simp only [hq, if_true, hna, if_false, ha, abs_of_pos ha, abs_of_neg hb, e]
      ring
    · subst hb; simp [ha, hna, abs_of_pos ha]
    · have hq : ¬ a / b < 0 := not_lt.mpr (div_nonneg ha.le hb.le)
      simp only [hq, if_false, hna, ha, if_true, abs_of_pos ha, abs_of_pos hb]
      ring

/-- for an integer k (as a real): k mod 2 = 1 iff k is odd -/
theorem smod_two_int (k : ℤ) : smod (k : ℝ) 2 = 1 ↔ Odd k := by
  unfold smod
  rcases Int.even_or_odd' k with ⟨j, hj | hj⟩
  · subst hj
    have : ⌊((2 * j : ℤ) : ℝ) / 2⌋ = j := by
      rw [Int.floor_eq_iff]; push_cast; constructor <;> linarith
    rw [this]; push_cast
    constructor
    · intro h; exfalso; linarith
    · intro h; exfalso; exact (Int.not_odd_iff_even.mpr ⟨j, by ring⟩) h
  · subst hj
    have : ⌊((2 * j + 1 : ℤ) : ℝ) / 2⌋ = j := by
      rw [Int.floor_eq_iff]; push_cast; constructor <;> linarith
    rw [this]; push_cast
    constructor
    · intro _; exact ⟨j, rfl⟩
    · intro _; ring

/-- round-half-even through floor and a tie indicator -/
theorem roundHalfEven_eq (q : ℝ) :
    (CasReal.roundHalfEven q : ℝ) = (⌊q + 1 / 2⌋ : ℝ) - (if smod (q + 1 / 2) 2 = 1 then 1 else 0) := by
  unfold CasReal.roundHalfEven
  by_cases hf : Int.fract q = 1 / 2
  · rw [if_pos hf]
    have hq : q = (⌊q⌋ : ℝ) + 1 / 2 := by
      have := Int.floor_add_fract q; rw [hf] at this; linarith
    have hh : q + 1 / 2 = ((⌊q⌋ + 1 : ℤ) : ℝ) := by push_cast; linarith
    have hfl : ⌊q + 1 / 2⌋ = ⌊q⌋ + 1 := by rw [hh, Int.floor_intCast]
    have hs := smod_two_int (⌊q⌋ + 1)
    rw [hfl, hh]
    by_cases he : Even ⌊q⌋
    · rw [if_pos he, if_pos (hs.mpr (Even.add_one he))]; push_cast; ring
    · rw [if_neg he]
      have : ¬ Odd (⌊q⌋ + 1) := by
        rw [Int.not_odd_iff_even]; exact (Int.not_even_iff_odd.mp he).add_one
      rw [if_neg (fun h => this (hs.mp h))]; push_cast; ring
  · rw [if_neg hf]
    have hr : round q = ⌊q + 1 / 2⌋ := round_eq q
    have hn : ¬ smod (q + 1 / 2) 2 = 1 := by
      intro h
      apply hf
      unfold smod at h
      have hq : q = ((2 * ⌊(q + 1 / 2) / 2⌋ : ℤ) : ℝ) + 1 / 2 := by push_cast; linarith
      rw [hq, Int.fract_intCast_add]
      rw [Int.fract_eq_iff]; refine ⟨by norm_num, by norm_num, ⟨0, by simp⟩⟩
    rw [if_neg hn, hr]; simp

theorem remainder_eq (a b : ℝ) :
    a + -1 * (b * ((⌊a * b ^ (-1 : ℝ) + 1 / 2⌋ : ℝ) + -1 * (if b2r (smod (a * b ^ (-1 : ℝ) + 1 / 2) ((2 : ℤ) : ℝ) = 1) ≠ 0 then 1 else 0)))
      = CasReal.remainder a b := by
  unfold CasReal.remainder
  rw [Real.rpow_neg_one, ← div_eq_mul_inv, roundHalfEven_eq]
  have : ((2 : ℤ) : ℝ) = 2 := by norm_num
  rw [this]
  by_cases h : smod (a / b + 1 / 2) 2 = 1
  · have e : b2r (smod (a / b + 1 / 2) 2 = 1) ≠ 0 := by unfold b2r; rw [if_pos h]; exact one_ne_zero
    rw [if_pos e, if_pos h]; ring
  · have e : ¬ b2r (smod (a / b + 1 / 2) 2 = 1) ≠ 0 := by unfold b2r; rw [if_neg h]; simp
    rw [if_neg e, if_neg h]; ring

theorem c2s_sound : ∀ (c : C) (s : S), c2s c = .ok s → evalS env fenv ufn s = evalC env fenv ufn c := by
  intro c
  induction c with
  | cint n => intro s h; cases pure_ok _ _ h; simp [evalC, evalS]
  | const m e => intro s h; cases pure_ok _ _ h; simp [evalC, evalS]
  | sym n => intro s h; cases pure_ok _ _ h; simp [evalC, evalS]
  | call g a _ => intro s h; simp [c2s] at h
  | unsupported t => intro s h; simp [c2s] at h
  | un op a iha =>
      intro s h
      simp only [c2s] at h
      obtain ⟨x, hx, h⟩ := bind_ok _ _ _ h
      have ih := iha _ hx
      cases op <;> simp only [un1] at h <;> first
        | (cases pure_ok _ _ h; simp [evalC, evalS, op1R, ufnR, ih, Real.sqrt_eq_rpow, Real.rpow_neg_one, b2r]; done)
        | (cases pure_ok _ _ h; simp [evalC, evalS, op1R, ufnR, ih, Real.sqrt_eq_rpow, Real.rpow_neg_one, b2r]; ring)
        | (simp at h)
        | skip
  | bin op a b iha ihb =>
      intro s h
      simp only [c2s] at h
      obtain ⟨x, hx, h⟩ := bind_ok _ _ _ h
      obtain ⟨y, hy, h⟩ := bind_ok _ _ _ h
      have ia := iha _ hx
      have ib := ihb _ hy
      cases op <;> first
        | (cases pure_ok _ _ h; simp [evalC, evalS, op2R, ufnR, relR, ia, ib, Real.rpow_neg_one, b2r, div_eq_mul_inv, sub_eq_add_neg, fmod_eq]; done)
        | (simp at h; done)
        | (cases pure_ok _ _ h
           simp only [evalC, evalS, op2R, ufnR, relR, ia, ib]
           exact remainder_eq _ _)
end

end C19
