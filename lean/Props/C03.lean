/-
  Props/C03.lean — log inverts exp and returns the principal rotation vector.
  Core identities hold for every input with the series coefficients as opaque values;
  cell statements use the closed-form branch of the coefficients.
-/
import GenM.SO2
import GenM.SE2
import GenM.Rn
import GenM.SO3
import Lib.ExpForms
import Props.SeriesLemmas
import Props.C02

set_option maxHeartbeats 4000000
open Gen Rot RotExp SeriesLemmas

namespace C03

/-! ## SO(2), ℝⁿ: exp and log are mutually inverse identically -/
theorem SO2_log_exp (x : ℝ) : SO2.log.r (SO2.exp.r x) = x := by simp [cas_defs, cas_real] <;> (try ring1)
theorem SO2_exp_log (a : ℝ) : SO2.exp.r (SO2.log.r a) = a := by simp [cas_defs, cas_real] <;> (try ring1)
theorem R3_log_exp (x : Fin 3 → ℝ) : R3.log.r_vec (R3.exp.r_vec x) = x := by
  funext i; fin_cases i <;> simp [cas_defs, cas_real] <;> (try ring1)
theorem R3_exp_log (a : Fin 3 → ℝ) : R3.exp.r_vec (R3.log.r_vec a) = a := by
  funext i; fin_cases i <;> simp [cas_defs, cas_real] <;> (try ring1)
theorem R2_log_exp (x : Fin 2 → ℝ) : R2.log.r_vec (R2.exp.r_vec x) = x := by
  funext i; fin_cases i <;> simp [cas_defs, cas_real] <;> (try ring1)
theorem R2_exp_log (a : Fin 2 → ℝ) : R2.exp.r_vec (R2.log.r_vec a) = a := by
  funext i; fin_cases i <;> simp [cas_defs, cas_real] <;> (try ring1)

/-! ## SE(2): V⁻¹ V = 1 whenever the code's denominator a² + b² is non-zero -/
theorem SE2_exp_log (X : Fin 3 → ℝ)
    (hden : Series.sin_x_over_x (X 2) * Series.sin_x_over_x (X 2)
            + Series.one_minus_cos_over_x (X 2) * Series.one_minus_cos_over_x (X 2) ≠ 0) :
    SE2.exp.r_vec (SE2.log.r_vec X) = X := by
  have hden' : Series.sin_x_over_x (X 2) ^ 2 + Series.one_minus_cos_over_x (X 2) ^ 2 ≠ 0 := by
    simpa [pow_two] using hden
  have hden'' : Series.one_minus_cos_over_x (X 2) ^ 2 + Series.sin_x_over_x (X 2) ^ 2 ≠ 0 := by
    rw [add_comm]; exact hden'
  funext i; fin_cases i <;> simp [cas_defs, cas_real] <;> field_simp <;> ring
theorem SE2_log_exp (x : Fin 3 → ℝ)
    (hden : Series.sin_x_over_x (x 2) * Series.sin_x_over_x (x 2)
            + Series.one_minus_cos_over_x (x 2) * Series.one_minus_cos_over_x (x 2) ≠ 0) :
    SE2.log.r_vec (SE2.exp.r_vec x) = x := by
  have hden' : Series.sin_x_over_x (x 2) ^ 2 + Series.one_minus_cos_over_x (x 2) ^ 2 ≠ 0 := by
    simpa [pow_two] using hden
  have hden'' : Series.one_minus_cos_over_x (x 2) ^ 2 + Series.sin_x_over_x (x 2) ^ 2 ≠ 0 := by
    rw [add_comm]; exact hden'
  funext i; fin_cases i <;> simp [cas_defs, cas_real] <;> field_simp <;> ring
/-- the denominator is non-zero for eps ≤ |θ| < 2π (closed-form cell): it equals (2 − 2cos θ)/θ² -/
theorem SE2_den_ne_zero (t : ℝ) (h : eps ≤ |t|) (h2 : |t| < 2 * Real.pi) :
    Series.sin_x_over_x t * Series.sin_x_over_x t
      + Series.one_minus_cos_over_x t * Series.one_minus_cos_over_x t ≠ 0 := by
  have h0 : t ≠ 0 := by
    intro h0; rw [h0, abs_zero] at h; exact absurd h (not_le.mpr eps_pos)
  rw [sin_x_over_x_closed h, one_minus_cos_over_x_closed h]
  unfold sFun cFun
  rw [if_neg h0, if_neg h0]
  have hc : Real.cos t ≠ 1 := by
    intro hc
    obtain ⟨n, hn⟩ := (Real.cos_eq_one_iff t).mp hc
    have : |(n:ℝ)| < 1 := by
      have hp := Real.pi_pos
      rw [← hn, abs_mul, abs_of_pos (by positivity : (0:ℝ) < 2 * Real.pi)] at h2
      have : |(n:ℝ)| * (2 * Real.pi) < 1 * (2 * Real.pi) := by linarith
      exact lt_of_mul_lt_mul_right this (by positivity)
    have hn0 : n = 0 := by
      have : |n| < 1 := by exact_mod_cast this
      exact Int.abs_lt_one_iff.mp this
    rw [hn0] at hn; simp at hn; exact h0 hn.symm
  have key : Real.sin t / t * (Real.sin t / t) + t * ((1 - Real.cos t) / t ^ 2) * (t * ((1 - Real.cos t) / t ^ 2))
      = 2 * (1 - Real.cos t) / t ^ 2 := by
    have := Real.sin_sq_add_cos_sq t
    field_simp; nlinarith [this]
  rw [key]
  have : 0 < 1 - Real.cos t := by
    have := Real.cos_le_one t
    rcases lt_or_eq_of_le this with h' | h'
    · linarith
    · exact absurd h' hc
  positivity

/-! ## SO(3), MRP form -/
def usq (x : Fin 3 → ℝ) : ℝ := x 0 * x 0 + x 1 * x 1 + x 2 * x 2
theorem usq_eq (x : Fin 3 → ℝ) : usq x = nsq x := by unfold usq nsq; ring

theorem SO3Mrp_log_spec (r : Fin 3 → ℝ) :
    SO3Mrp.log.r_vec r = fun i => SqSeries.four_atan_over_x (usq r) * r i := by
  funext i; fin_cases i <;> simp [cas_defs, cas_real, usq] <;> (try ring1)

/-- the MRP log is the principal rotation vector: angle 4·atan|r| ≤ π for |r| ≤ 1 -/
theorem SO3Mrp_log_principal (r : Fin 3 → ℝ) (h : eps ≤ usq r) (h1 : usq r ≤ 1) :
    Real.sqrt (nsq (SO3Mrp.log.r_vec r)) = 4 * Real.arctan (Real.sqrt (nsq r))
      ∧ Real.sqrt (nsq (SO3Mrp.log.r_vec r)) ≤ Real.pi := by
  have hu : 0 < nsq r := by rw [← usq_eq]; exact lt_of_lt_of_le eps_pos h
  have hs : 0 < Real.sqrt (nsq r) := Real.sqrt_pos.mpr hu
  have hat : 0 ≤ Real.arctan (Real.sqrt (nsq r)) := by
    rw [← Real.arctan_zero]; exact Real.arctan_strictMono.monotone hs.le
  have e : nsq (SO3Mrp.log.r_vec r) = (4 * Real.arctan (Real.sqrt (nsq r))) ^ 2 := by
    rw [SO3Mrp_log_spec, sq_four_atan_over_x_closed h, usq_eq]
    have : nsq (fun i => 4 * Real.arctan (Real.sqrt (nsq r)) / Real.sqrt (nsq r) * r i)
        = (4 * Real.arctan (Real.sqrt (nsq r)) / Real.sqrt (nsq r)) ^ 2 * nsq r := by
      simp only [nsq]; ring
    rw [this]
    have hsq : Real.sqrt (nsq r) ^ 2 = nsq r := Real.sq_sqrt hu.le
    field_simp
    rw [hsq]
  constructor
  · rw [e]; exact Real.sqrt_sq (by positivity)
  · rw [e, Real.sqrt_sq (by positivity)]
    have hle : Real.sqrt (nsq r) ≤ 1 := by
      rw [← Real.sqrt_one]; exact Real.sqrt_le_sqrt (by rw [← usq_eq]; exact h1)
    have : Real.arctan (Real.sqrt (nsq r)) ≤ Real.pi / 4 := by
      rw [← Real.arctan_one]; exact Real.arctan_strictMono.monotone hle
    linarith


/-- exp(log r) = r for canonical MRPs (|r| ≤ 1) on the closed-form cells of both coefficients -/
theorem SO3Mrp_exp_log (r : Fin 3 → ℝ) (h : eps ≤ usq r) (h1 : usq r ≤ 1)
    (h2 : eps ≤ usq (SO3Mrp.log.r_vec r)) :
    SO3Mrp.exp.r_vec (SO3Mrp.log.r_vec r) = r := by
  have hu : 0 < nsq r := by rw [← usq_eq]; exact lt_of_lt_of_le eps_pos h
  have hs : 0 < Real.sqrt (nsq r) := Real.sqrt_pos.mpr hu
  obtain ⟨hθ, _⟩ := SO3Mrp_log_principal r h h1
  have hatpos : 0 < Real.arctan (Real.sqrt (nsq r)) := by
    rw [← Real.arctan_zero]; exact Real.arctan_strictMono hs
  have hτ : SqSeries.tan_quarter_over_x (C02.usq (SO3Mrp.log.r_vec r))
      = Real.sqrt (nsq r) / (4 * Real.arctan (Real.sqrt (nsq r))) := by
    have h2' : eps ≤ C02.usq (SO3Mrp.log.r_vec r) := h2
    rw [sq_tan_quarter_over_x_closed h2', C02.usq_eq, hθ]
    rw [show 4 * Real.arctan (Real.sqrt (nsq r)) / 4 = Real.arctan (Real.sqrt (nsq r)) by ring,
      Real.tan_arctan]
  have hy : (fun i => SqSeries.tan_quarter_over_x (C02.usq (SO3Mrp.log.r_vec r)) * SO3Mrp.log.r_vec r i) = r := by
    funext i
    rw [hτ, SO3Mrp_log_spec, sq_four_atan_over_x_closed h, usq_eq]
    field_simp
  rw [C02.SO3Mrp_exp_spec, hy]
  have : ¬ 1 < nsq r := by rw [← usq_eq]; exact not_lt.mpr h1
  rw [if_neg this]

/-! ## SO(3), quaternion form: principal and sign-independent -/

/-- log(−q) = log(q) whenever q0 ≠ 0: the sign of a quaternion does not matter -/
theorem SO3Quat_log_neg (q : Fin 4 → ℝ) (h0 : q 0 ≠ 0)
    (hn : 0 < q 0 * q 0 + q 1 * q 1 + q 2 * q 2 + q 3 * q 3) :
    SO3Quat.log.r_0 (-q) = SO3Quat.log.r_0 q ∧ SO3Quat.log.r_1 (-q) = SO3Quat.log.r_1 q
      ∧ SO3Quat.log.r_2 (-q) = SO3Quat.log.r_2 q := by
  have hs : 0 < Real.sqrt (q 0 * q 0 + q 1 * q 1 + q 2 * q 2 + q 3 * q 3) := Real.sqrt_pos.mpr hn
  rcases lt_or_gt_of_ne h0 with hlt | hgt
  · have a : q 0 / Real.sqrt (q 0 * q 0 + q 1 * q 1 + q 2 * q 2 + q 3 * q 3) < 0 := div_neg_of_neg_of_pos hlt hs
    have b : ¬ -(q 0 / Real.sqrt (q 0 * q 0 + q 1 * q 1 + q 2 * q 2 + q 3 * q 3)) < 0 := by linarith
    refine ⟨?_, ?_, ?_⟩ <;>
      simp only [cas_defs, cas_real, Pi.neg_apply, neg_mul_neg, neg_div, a, b, if_true, if_false, neg_neg] <;> simp
  · have a : ¬ q 0 / Real.sqrt (q 0 * q 0 + q 1 * q 1 + q 2 * q 2 + q 3 * q 3) < 0 :=
      not_lt.mpr (div_pos hgt hs).le
    have b : -(q 0 / Real.sqrt (q 0 * q 0 + q 1 * q 1 + q 2 * q 2 + q 3 * q 3)) < 0 := by
      have := div_pos hgt hs; linarith
    refine ⟨?_, ?_, ?_⟩ <;>
      simp only [cas_defs, cas_real, Pi.neg_apply, neg_mul_neg, neg_div, a, b, if_true, if_false, neg_neg] <;> simp

/-- the half-angle the quaternion log works with is in [0, π/2]: the rotation angle is ≤ π
    for EVERY quaternion (either sign) -/
theorem SO3Quat_log_half_angle (c : ℝ) :
    0 ≤ Real.arccos (if c < 0 then -c else c) ∧ Real.arccos (if c < 0 then -c else c) ≤ Real.pi / 2 := by
  constructor
  · exact Real.arccos_nonneg _
  · apply Real.arccos_le_pi_div_two.mpr
    split_ifs with h <;> linarith

end C03
