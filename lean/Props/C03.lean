/-
  Props/C03.lean — log inverts exp and returns the principal rotation vector.
  Core identities hold for every input with the series coefficients as opaque values;
  cell statements use the closed-form branch of the coefficients.
-/
import GenM.SO2
import GenM.SE2
import GenM.Rn
import GenM.SO3
import Lib.ExpForms
import Props.SeriesLemmas
import Props.C02
import Mathlib.Analysis.Real.Pi.Bounds

set_option maxHeartbeats 4000000
open Gen Rot RotExp SeriesLemmas

namespace C03

/-! ## SO(2), ℝⁿ: exp and log are mutually inverse identically -/
theorem SO2_log_exp (x : ℝ) : SO2.log.r (SO2.exp.r x) = x := by simp [cas_defs, cas_real] <;> (try ring1)
theorem SO2_exp_log (a : ℝ) : SO2.exp.r (SO2.log.r a) = a := by simp [cas_defs, cas_real] <;> (try ring1)
theorem R3_log_exp (x : Fin 3 → ℝ) : R3.log.r_vec (R3.exp.r_vec x) = x := by
  funext i; fin_cases i <;> simp [cas_defs, cas_real] <;> (try ring1)
theorem R3_exp_log (a : Fin 3 → ℝ) : R3.exp.r_vec (R3.log.r_vec a) = a := by
  funext i; fin_cases i <;> simp [cas_defs, cas_real] <;> (try ring1)
theorem R2_log_exp (x : Fin 2 → ℝ) : R2.log.r_vec (R2.exp.r_vec x) = x := by
  funext i; fin_cases i <;> simp [cas_defs, cas_real] <;> (try ring1)
theorem R2_exp_log (a : Fin 2 → ℝ) : R2.exp.r_vec (R2.log.r_vec a) = a := by
  funext i; fin_cases i <;> simp [cas_defs, cas_real] <;> (try ring1)

/-! ## SE(2): V⁻¹ V = 1 whenever the code's denominator a² + b² is non-zero -/
theorem SE2_exp_log (X : Fin 3 → ℝ)
    (hden : Series.sin_x_over_x (X 2) * Series.sin_x_over_x (X 2)
            + Series.one_minus_cos_over_x (X 2) * Series.one_minus_cos_over_x (X 2) ≠ 0) :
    SE2.exp.r_vec (SE2.log.r_vec X) = X := by
  have hden' : Series.sin_x_over_x (X 2) ^ 2 + Series.one_minus_cos_over_x (X 2) ^ 2 ≠ 0 := by
    simpa [pow_two] using hden
  have hden'' : Series.one_minus_cos_over_x (X 2) ^ 2 + Series.sin_x_over_x (X 2) ^ 2 ≠ 0 := by
    rw [add_comm]; exact hden'
  funext i; fin_cases i <;> simp [cas_defs, cas_real] <;> field_simp <;> ring
theorem SE2_log_exp (x : Fin 3 → ℝ)
    (hden : Series.sin_x_over_x (x 2) * Series.sin_x_over_x (x 2)
            + Series.one_minus_cos_over_x (x 2) * Series.one_minus_cos_over_x (x 2) ≠ 0) :
    SE2.log.r_vec (SE2.exp.r_vec x) = x := by
  have hden' : Series.sin_x_over_x (x 2) ^ 2 + Series.one_minus_cos_over_x (x 2) ^ 2 ≠ 0 := by
    simpa [pow_two] using hden
  have hden'' : Series.one_minus_cos_over_x (x 2) ^ 2 + Series.sin_x_over_x (x 2) ^ 2 ≠ 0 := by
    rw [add_comm]; exact hden'
  funext i; fin_cases i <;> simp [cas_defs, cas_real] <;> field_simp <;> ring
/-- the denominator is non-zero for eps ≤ |θ| < 2π (closed-form cell): it equals (2 − 2cos θ)/θ² -/
theorem SE2_den_ne_zero (t : ℝ) (h : eps ≤ |t|) (h2 : |t| < 2 * Real.pi) :
    Series.sin_x_over_x t * Series.sin_x_over_x t
      + Series.one_minus_cos_over_x t * Series.one_minus_cos_over_x t ≠ 0 := by
  have h0 : t ≠ 0 := by
    intro h0; rw [h0, abs_zero] at h; exact absurd h (not_le.mpr eps_pos)
  rw [sin_x_over_x_closed h, one_minus_cos_over_x_closed h]
  unfold sFun cFun
  rw [if_neg h0, if_neg h0]
  have hc : Real.cos t ≠ 1 := by
    intro hc
    obtain ⟨n, hn⟩ := (Real.cos_eq_one_iff t).mp hc
    have : |(n:ℝ)| < 1 := by
      have hp := Real.pi_pos
      rw [← hn, abs_mul, abs_of_pos (by positivity : (0:ℝ) < 2 * Real.pi)] at h2
      have : |(n:ℝ)| * (2 * Real.pi) < 1 * (2 * Real.pi) := by linarith
      exact lt_of_mul_lt_mul_right this (by positivity)
    have hn0 : n = 0 := by
      have : |n| < 1 := by exact_mod_cast this
      exact Int.abs_lt_one_iff.mp this
    rw [hn0] at hn; simp at hn; exact h0 hn.symm
  have key : Real.sin t / t * (Real.sin t / t) + t * ((1 - Real.cos t) / t ^ 2) * (t * ((1 - Real.cos t) / t ^ 2))
      = 2 * (1 - Real.cos t) / t ^ 2 := by
    have := Real.sin_sq_add_cos_sq t
    field_simp; nlinarith [this]
  rw [key]
  have : 0 < 1 - Real.cos t := by
    have := Real.cos_le_one t
    rcases lt_or_eq_of_le this with h' | h'
    · linarith
    · exact absurd h' hc
  positivity

/-! ## SO(3), MRP form -/
def usq (x : Fin 3 → ℝ) : ℝ := x 0 * x 0 + x 1 * x 1 + x 2 * x 2
theorem usq_eq (x : Fin 3 → ℝ) : usq x = nsq x := by unfold usq nsq; ring

theorem SO3Mrp_log_spec (r : Fin 3 → ℝ) :
    SO3Mrp.log.r_vec r = fun i => SqSeries.four_atan_over_x (usq r) * r i := by
  funext i; fin_cases i <;> simp [cas_defs, cas_real, usq] <;> (try ring1)

/-- the MRP log is the principal rotation vector: angle 4·atan|r| ≤ π for |r| ≤ 1 -/
theorem SO3Mrp_log_principal (r : Fin 3 → ℝ) (h : eps ≤ usq r) (h1 : usq r ≤ 1) :
    Real.sqrt (nsq (SO3Mrp.log.r_vec r)) = 4 * Real.arctan (Real.sqrt (nsq r))
      ∧ Real.sqrt (nsq (SO3Mrp.log.r_vec r)) ≤ Real.pi := by
  have hu : 0 < nsq r := by rw [← usq_eq]; exact lt_of_lt_of_le eps_pos h
  have hs : 0 < Real.sqrt (nsq r) := Real.sqrt_pos.mpr hu
  have hat : 0 ≤ Real.arctan (Real.sqrt (nsq r)) := by
    rw [← Real.arctan_zero]; exact Real.arctan_strictMono.monotone hs.le
  have e : nsq (SO3Mrp.log.r_vec r) = (4 * Real.arctan (Real.sqrt (nsq r))) ^ 2 := by
    rw [SO3Mrp_log_spec, sq_four_atan_over_x_closed h, usq_eq]
    have : nsq (fun i => 4 * Real.arctan (Real.sqrt (nsq r)) / Real.sqrt (nsq r) * r i)
        = (4 * Real.arctan (Real.sqrt (nsq r)) / Real.sqrt (nsq r)) ^ 2 * nsq r := by
      simp only [nsq]; ring
    rw [this]
    have hsq : Real.sqrt (nsq r) ^ 2 = nsq r := Real.sq_sqrt hu.le
    field_simp
    rw [hsq]
  constructor
  · rw [e]; exact Real.sqrt_sq (by positivity)
  · rw [e, Real.sqrt_sq (by positivity)]
    have hle : Real.sqrt (nsq r) ≤ 1 := by
      rw [← Real.sqrt_one]; exact Real.sqrt_le_sqrt (by rw [← usq_eq]; exact h1)
    have : Real.arctan (Real.sqrt (nsq r)) ≤ Real.pi / 4 := by
      rw [← Real.arctan_one]; exact Real.arctan_strictMono.monotone hle
    linarith


/-- exp(log r) = r for canonical MRPs (|r| ≤ 1) on the closed-form cells of both coefficients -/
theorem SO3Mrp_exp_log (r : Fin 3 → ℝ) (h : eps ≤ usq r) (h1 : usq r ≤ 1)
    (h2 : eps ≤ usq (SO3Mrp.log.r_vec r)) :
    SO3Mrp.exp.r_vec (SO3Mrp.log.r_vec r) = r := by
  have hu : 0 < nsq r := by rw [← usq_eq]; exact lt_of_lt_of_le eps_pos h
  have hs : 0 < Real.sqrt (nsq r) := Real.sqrt_pos.mpr hu
  obtain ⟨hθ, _⟩ := SO3Mrp_log_principal r h h1
  have hatpos : 0 < Real.arctan (Real.sqrt (nsq r)) := by
    rw [← Real.arctan_zero]; exact Real.arctan_strictMono hs
  have hτ : SqSeries.tan_quarter_over_x (C02.usq (SO3Mrp.log.r_vec r))
      = Real.sqrt (nsq r) / (4 * Real.arctan (Real.sqrt (nsq r))) := by
    have h2' : eps ≤ C02.usq (SO3Mrp.log.r_vec r) := h2
    rw [sq_tan_quarter_over_x_closed h2', C02.usq_eq, hθ]
    rw [show 4 * Real.arctan (Real.sqrt (nsq r)) / 4 = Real.arctan (Real.sqrt (nsq r)) by ring,
      Real.tan_arctan]
  have hy : (fun i => SqSeries.tan_quarter_over_x (C02.usq (SO3Mrp.log.r_vec r)) * SO3Mrp.log.r_vec r i) = r := by
    funext i
    rw [hτ, SO3Mrp_log_spec, sq_four_atan_over_x_closed h, usq_eq]
    field_simp
  rw [C02.SO3Mrp_exp_spec, hy]
  have : ¬ 1 < nsq r := by rw [← usq_eq]; exact not_lt.mpr h1
  rw [if_neg this]

/-! ## SO(3), quaternion form: principal and sign-independent -/

/-- log(−q) = log(q) whenever q0 ≠ 0: the sign of a quaternion does not matter -/
theorem SO3Quat_log_neg (q : Fin 4 → ℝ) (h0 : q 0 ≠ 0)
    (hn : 0 < q 0 * q 0 + q 1 * q 1 + q 2 * q 2 + q 3 * q 3) :
    SO3Quat.log.r_0 (-q) = SO3Quat.log.r_0 q ∧ SO3Quat.log.r_1 (-q) = SO3Quat.log.r_1 q
      ∧ SO3Quat.log.r_2 (-q) = SO3Quat.log.r_2 q := by
  have hs : 0 < Real.sqrt (q 0 * q 0 + q 1 * q 1 + q 2 * q 2 + q 3 * q 3) := Real.sqrt_pos.mpr hn
  rcases lt_or_gt_of_ne h0 with hlt | hgt
  · have a : q 0 / Real.sqrt (q 0 * q 0 + q 1 * q 1 + q 2 * q 2 + q 3 * q 3) < 0 := div_neg_of_neg_of_pos hlt hs
    have b : ¬ -(q 0 / Real.sqrt (q 0 * q 0 + q 1 * q 1 + q 2 * q 2 + q 3 * q 3)) < 0 := by linarith
    refine ⟨?_, ?_, ?_⟩ <;>
      simp only [cas_defs, cas_real, Pi.neg_apply, neg_mul_neg, neg_div, a, b, if_true, if_false, neg_neg] <;> simp
  · have a : ¬ q 0 / Real.sqrt (q 0 * q 0 + q 1 * q 1 + q 2 * q 2 + q 3 * q 3) < 0 :=
      not_lt.mpr (div_pos hgt hs).le
    have b : -(q 0 / Real.sqrt (q 0 * q 0 + q 1 * q 1 + q 2 * q 2 + q 3 * q 3)) < 0 := by
      have := div_pos hgt hs; linarith
    refine ⟨?_, ?_, ?_⟩ <;>
      simp only [cas_defs, cas_real, Pi.neg_apply, neg_mul_neg, neg_div, a, b, if_true, if_false, neg_neg] <;> simp

/-- the half-angle the quaternion log works with is in [0, π/2]: the rotation angle is ≤ π
    for EVERY quaternion (either sign) -/
theorem SO3Quat_log_half_angle (c : ℝ) :
    0 ≤ Real.arccos (if c < 0 then -c else c) ∧ Real.arccos (if c < 0 then -c else c) ≤ Real.pi / 2 := by
  constructor
  · exact Real.arccos_nonneg _
  · apply Real.arccos_le_pi_div_two.mpr
    split_ifs with h <;> linarith


/-! ## SO(3), quaternion form: exp and log are mutually inverse on unit quaternions (closed-form cells) -/

/-- the quaternion log of a unit quaternion with non-negative scalar part: 2 (h / sin h) q_v with h = arccos q₀ -/
theorem SO3Quat_log_spec_pos (q : Fin 4 → ℝ) (hq : q 0 * q 0 + q 1 * q 1 + q 2 * q 2 + q 3 * q 3 = 1) (h0 : ¬ q 0 < 0) :
    SO3Quat.log.r_vec q = ![2 * (q 1 * Series.x_over_sin_x (Real.arccos (q 0))), 2 * (q 2 * Series.x_over_sin_x (Real.arccos (q 0))),
      2 * (q 3 * Series.x_over_sin_x (Real.arccos (q 0)))] := by
  funext i; fin_cases i <;>
    simp only [cas_defs, cas_real, hq, Real.sqrt_one, div_one, h0, if_false, if_true, ne_eq, not_true_eq_false, one_ne_zero,
      not_false_eq_true, zero_add]

/-- **exp ∘ log = id on unit quaternions** (scalar part ≥ 0, half angle h = arccos q₀ on the closed-form cells of the two
    series the code consumes: eps ≤ h and eps ≤ h²): the very same quaternion comes back -/
theorem SO3Quat_exp_log (q : Fin 4 → ℝ) (hq : q 0 * q 0 + q 1 * q 1 + q 2 * q 2 + q 3 * q 3 = 1) (h0 : 0 ≤ q 0)
    (hc1 : eps ≤ Real.arccos (q 0)) (hc2 : eps ≤ Real.arccos (q 0) ^ 2) :
    SO3Quat.exp.r_vec (SO3Quat.log.r_vec q) = q := by
  set h := Real.arccos (q 0) with hh
  have hq1 : q 0 ≤ 1 := by nlinarith [mul_self_nonneg (q 1), mul_self_nonneg (q 2), mul_self_nonneg (q 3)]
  have hpos : 0 < h := lt_of_lt_of_le eps_pos hc1
  have hle : h ≤ Real.pi / 2 := Real.arccos_le_pi_div_two.mpr h0
  have hcos : Real.cos h = q 0 := Real.cos_arccos (by linarith) hq1
  have hsinpos : 0 < Real.sin h := Real.sin_pos_of_pos_of_lt_pi hpos (by linarith [Real.pi_pos])
  have hsin2 : Real.sin h ^ 2 = q 1 * q 1 + q 2 * q 2 + q 3 * q 3 := by
    have := Real.sin_sq_add_cos_sq h; rw [hcos] at this; nlinarith
  rw [SO3Quat_log_spec_pos q hq (not_lt.mpr h0), C02.SO3Quat_exp_spec]
  rw [x_over_sin_x_closed (by rw [abs_of_pos hpos]; exact hc1)]
  have hu : C02.usq ![2 * (q 1 * (h / Real.sin h)), 2 * (q 2 * (h / Real.sin h)), 2 * (q 3 * (h / Real.sin h))] / 4 = h ^ 2 := by
    simp only [C02.usq, Matrix.cons_val_zero, Matrix.cons_val_one, Matrix.cons_val_two, Matrix.head_cons, Matrix.tail_cons]
    field_simp
    nlinarith [hsin2]
  rw [hu, sq_cos_x_closed hc2, sq_sin_x_over_x_closed hc2, Real.sqrt_sq hpos.le, hcos]
  funext i; fin_cases i <;> simp [sFun, ne_of_gt hpos] <;> (simp only [← hh]) <;> field_simp

/-- either sign: exp(log q) is q or −q, hence the same rotation — for every unit quaternion with non-zero scalar part on the cell -/
theorem SO3Quat_exp_log_rotation (q : Fin 4 → ℝ) (hq : q 0 * q 0 + q 1 * q 1 + q 2 * q 2 + q 3 * q 3 = 1) (h0 : q 0 ≠ 0)
    (hc1 : eps ≤ Real.arccos |q 0|) (hc2 : eps ≤ Real.arccos |q 0| ^ 2) :
    qmat (SO3Quat.exp.r_vec (SO3Quat.log.r_vec q)) = qmat q := by
  rcases lt_or_gt_of_ne h0 with hneg | hpos
  · have hl : SO3Quat.log.r_vec (-q) = SO3Quat.log.r_vec q := by
      obtain ⟨a, b, c⟩ := SO3Quat_log_neg q h0 (by rw [hq]; norm_num)
      funext i; fin_cases i
      · exact a
      · exact b
      · exact c
    have hq' : (-q) 0 * (-q) 0 + (-q) 1 * (-q) 1 + (-q) 2 * (-q) 2 + (-q) 3 * (-q) 3 = 1 := by
      simp only [Pi.neg_apply]; linarith
    have habs : |q 0| = (-q) 0 := by rw [abs_of_neg hneg]; rfl
    rw [habs] at hc1 hc2
    have := SO3Quat_exp_log (-q) hq' (by simp only [Pi.neg_apply]; linarith) hc1 hc2
    rw [hl] at this
    rw [this, qmat_neg]
  · rw [abs_of_pos hpos] at hc1 hc2
    rw [SO3Quat_exp_log q hq hpos.le hc1 hc2]

/-- the returned rotation vector is the principal one: its length is twice the half angle arccos |q₀| ≤ π -/
theorem SO3Quat_log_principal (q : Fin 4 → ℝ) (hq : q 0 * q 0 + q 1 * q 1 + q 2 * q 2 + q 3 * q 3 = 1) (h0 : 0 ≤ q 0)
    (hc1 : eps ≤ Real.arccos (q 0)) :
    nsq (SO3Quat.log.r_vec q) = (2 * Real.arccos (q 0)) ^ 2 ∧ 2 * Real.arccos (q 0) ≤ Real.pi := by
  have hq1 : q 0 ≤ 1 := by nlinarith [mul_self_nonneg (q 1), mul_self_nonneg (q 2), mul_self_nonneg (q 3)]
  have hpos : 0 < Real.arccos (q 0) := lt_of_lt_of_le eps_pos hc1
  have hle : Real.arccos (q 0) ≤ Real.pi / 2 := Real.arccos_le_pi_div_two.mpr h0
  have hcos : Real.cos (Real.arccos (q 0)) = q 0 := Real.cos_arccos (by linarith) hq1
  have hsinpos : 0 < Real.sin (Real.arccos (q 0)) := Real.sin_pos_of_pos_of_lt_pi hpos (by linarith [Real.pi_pos])
  have hsin2 : Real.sin (Real.arccos (q 0)) ^ 2 = q 1 * q 1 + q 2 * q 2 + q 3 * q 3 := by
    have := Real.sin_sq_add_cos_sq (Real.arccos (q 0)); rw [hcos] at this; nlinarith
  refine ⟨?_, by linarith⟩
  rw [SO3Quat_log_spec_pos q hq (not_lt.mpr h0), x_over_sin_x_closed (by rw [abs_of_pos hpos]; exact hc1)]
  simp only [nsq, Matrix.cons_val_zero, Matrix.cons_val_one, Matrix.cons_val_two, Matrix.head_cons, Matrix.tail_cons]
  field_simp
  nlinarith [hsin2]

/-- **log ∘ exp = id** for rotation vectors of length θ < π on the closed-form cells (eps ≤ θ/2, eps ≤ θ²/4) -/
theorem SO3Quat_log_exp (x : Fin 3 → ℝ) (hpi : Real.sqrt (nsq x) < Real.pi)
    (hc1 : eps ≤ Real.sqrt (nsq x) / 2) (hc2 : eps ≤ C02.usq x / 4) :
    SO3Quat.log.r_vec (SO3Quat.exp.r_vec x) = x := by
  have hq : SO3Quat.exp.r_vec x = qexp x := by
    rw [C02.SO3Quat_exp_spec, sq_cos_x_closed hc2, sq_sin_x_over_x_closed hc2, sqrt_quarter, C02.usq_eq]
    rfl
  set θ := Real.sqrt (nsq x) with hθ
  have hpos : 0 < θ / 2 := lt_of_lt_of_le eps_pos hc1
  have hn := qnormSq_qexp x
  have hn' : qexp x 0 * qexp x 0 + qexp x 1 * qexp x 1 + qexp x 2 * qexp x 2 + qexp x 3 * qexp x 3 = 1 := by
    unfold qnormSq at hn; nlinarith [hn]
  have h00 : qexp x 0 = Real.cos (θ / 2) := by simp [qexp, hθ]
  have hcospos : 0 ≤ Real.cos (θ / 2) := Real.cos_nonneg_of_mem_Icc ⟨by linarith, by linarith⟩
  have harc : Real.arccos (qexp x 0) = θ / 2 := by
    rw [h00]; exact Real.arccos_cos hpos.le (by linarith)
  have hsinpos : 0 < Real.sin (θ / 2) := Real.sin_pos_of_pos_of_lt_pi hpos (by linarith)
  rw [hq, SO3Quat_log_spec_pos (qexp x) hn' (by rw [h00]; exact not_lt.mpr hcospos), harc,
    x_over_sin_x_closed (by rw [abs_of_pos hpos]; exact hc1)]
  have hθ0 : θ ≠ 0 := by linarith
  funext i; fin_cases i <;> simp [qexp, sFun, ne_of_gt hpos, ← hθ] <;> field_simp

/-- non-vacuity of the cell hypotheses: the 90° rotation about x, q = (√2/2, √2/2, 0, 0), half angle π/4 -/
example : eps ≤ Real.pi / 4 ∧ eps ≤ (Real.pi / 4) ^ 2 := by
  have h := Real.pi_gt_three
  have e := eps_bounds.2
  constructor
  · linarith
  · nlinarith

end C03
