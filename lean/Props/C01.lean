/-
  Props/C01.lean — group axioms under the matrix representation.
  Property theorems only (helpers live in Lib/).  The `Gen.*` definitions are
  regenerated from /repo's working tree on every run.

  Validity hypotheses are exactly those of the property: unit quaternion (either
  sign), MRP away from the product singularity (`mrpDen ≠ 0`), orthonormal DCM.
-/
import GenM.SO2
import GenM.SE2
import GenM.Rn
import GenM.SO3
import GenM.SE3
import GenM.SE23
import Lib.Rot
import Lib.Semidirect
import Mathlib.Analysis.SpecialFunctions.Trigonometric.Basic

set_option maxHeartbeats 1000000
open Gen Rot

namespace C01

/-- unfold translated code to real arithmetic and expand small matrix products -/
macro "cas_mat" : tactic =>
  `(tactic| simp [cas_defs, cas_real, Matrix.mul_apply, Fin.sum_univ_succ])

/-! ## SO(2) -/
namespace SO2
theorem toMatrix_product (a b : ℝ) :
    SO2.toMatrix.M_mat (SO2.product.r a b) = SO2.toMatrix.M_mat a * SO2.toMatrix.M_mat b := by
  mat_entries <;> simp [cas_defs, cas_real, Matrix.mul_apply, Fin.sum_univ_succ, Real.cos_add, Real.sin_add] <;> ring
theorem toMatrix_identity : SO2.toMatrix.M_mat (SO2.identity.r (α := ℝ)) = 1 := by
  mat_entries <;> simp [cas_defs, cas_real] <;> (try ring1)
theorem toMatrix_inverse_left (a : ℝ) :
    SO2.toMatrix.M_mat (SO2.inverse.r a) * SO2.toMatrix.M_mat a = 1 := by
  mat_entries <;> cas_mat <;> nlinarith [Real.sin_sq_add_cos_sq a]
theorem toMatrix_inverse_right (a : ℝ) :
    SO2.toMatrix.M_mat a * SO2.toMatrix.M_mat (SO2.inverse.r a) = 1 := by
  mat_entries <;> cas_mat <;> nlinarith [Real.sin_sq_add_cos_sq a]
theorem identity_left (a : ℝ) : SO2.product.r (SO2.identity.r) a = a := by cas_mat
theorem identity_right (a : ℝ) : SO2.product.r a (SO2.identity.r) = a := by cas_mat
theorem product_assoc (a b c : ℝ) :
    SO2.product.r (SO2.product.r a b) c = SO2.product.r a (SO2.product.r b c) := by
  cas_mat; ring
end SO2

/-! ## SE(2) -/
namespace SE2
theorem toMatrix_product (a b : Fin 3 → ℝ) :
    SE2.toMatrix.M_mat (SE2.product.r_vec a b) = SE2.toMatrix.M_mat a * SE2.toMatrix.M_mat b := by
  mat_entries <;> simp [cas_defs, cas_real, Matrix.mul_apply, Fin.sum_univ_succ, Real.cos_add, Real.sin_add] <;> ring
theorem toMatrix_identity : SE2.toMatrix.M_mat (SE2.identity.r_vec (α := ℝ)) = 1 := by
  mat_entries <;> simp [cas_defs, cas_real] <;> (try ring1)
theorem toMatrix_inverse_left (a : Fin 3 → ℝ) :
    SE2.toMatrix.M_mat (SE2.inverse.r_vec a) * SE2.toMatrix.M_mat a = 1 := by
  have h := Real.sin_sq_add_cos_sq (a 2)
  mat_entries <;> cas_mat <;>
    linarith [h, congrArg (fun t => a 0 * t) h, congrArg (fun t => a 1 * t) h]
theorem toMatrix_inverse_right (a : Fin 3 → ℝ) :
    SE2.toMatrix.M_mat a * SE2.toMatrix.M_mat (SE2.inverse.r_vec a) = 1 := by
  have h := Real.sin_sq_add_cos_sq (a 2)
  mat_entries <;> cas_mat <;>
    linarith [h, congrArg (fun t => a 0 * t) h, congrArg (fun t => a 1 * t) h]
theorem identity_left (a : Fin 3 → ℝ) : SE2.product.r_vec (SE2.identity.r_vec) a = a := by
  funext i; fin_cases i <;> cas_mat
theorem identity_right (a : Fin 3 → ℝ) : SE2.product.r_vec a (SE2.identity.r_vec) = a := by
  funext i; fin_cases i <;> cas_mat
theorem toMatrix_assoc (a b c : Fin 3 → ℝ) :
    SE2.toMatrix.M_mat (SE2.product.r_vec (SE2.product.r_vec a b) c)
      = SE2.toMatrix.M_mat (SE2.product.r_vec a (SE2.product.r_vec b c)) := by
  simp only [toMatrix_product, Matrix.mul_assoc]
end SE2

/-! ## ℝ² and ℝ³ -/
namespace R2
theorem toMatrix_product (a b : Fin 2 → ℝ) :
    R2.toMatrix.M_mat (R2.product.r_vec a b) = R2.toMatrix.M_mat a * R2.toMatrix.M_mat b := by
  mat_entries <;> cas_mat <;> ring
theorem toMatrix_identity : R2.toMatrix.M_mat (R2.identity.r_vec (α := ℝ)) = 1 := by
  mat_entries <;> simp [cas_defs, cas_real] <;> (try ring1)
theorem toMatrix_inverse_left (a : Fin 2 → ℝ) :
    R2.toMatrix.M_mat (R2.inverse.r_vec a) * R2.toMatrix.M_mat a = 1 := by
  mat_entries <;> cas_mat
theorem toMatrix_inverse_right (a : Fin 2 → ℝ) :
    R2.toMatrix.M_mat a * R2.toMatrix.M_mat (R2.inverse.r_vec a) = 1 := by
  mat_entries <;> cas_mat
theorem identity_left (a : Fin 2 → ℝ) : R2.product.r_vec (R2.identity.r_vec) a = a := by
  funext i; fin_cases i <;> cas_mat
theorem identity_right (a : Fin 2 → ℝ) : R2.product.r_vec a (R2.identity.r_vec) = a := by
  funext i; fin_cases i <;> cas_mat
end R2

namespace R3
theorem toMatrix_product (a b : Fin 3 → ℝ) :
    R3.toMatrix.M_mat (R3.product.r_vec a b) = R3.toMatrix.M_mat a * R3.toMatrix.M_mat b := by
  mat_entries <;> cas_mat <;> ring
theorem toMatrix_identity : R3.toMatrix.M_mat (R3.identity.r_vec (α := ℝ)) = 1 := by
  mat_entries <;> simp [cas_defs, cas_real] <;> (try ring1)
theorem toMatrix_inverse_left (a : Fin 3 → ℝ) :
    R3.toMatrix.M_mat (R3.inverse.r_vec a) * R3.toMatrix.M_mat a = 1 := by
  mat_entries <;> cas_mat
theorem toMatrix_inverse_right (a : Fin 3 → ℝ) :
    R3.toMatrix.M_mat a * R3.toMatrix.M_mat (R3.inverse.r_vec a) = 1 := by
  mat_entries <;> cas_mat
theorem identity_left (a : Fin 3 → ℝ) : R3.product.r_vec (R3.identity.r_vec) a = a := by
  funext i; fin_cases i <;> cas_mat
theorem identity_right (a : Fin 3 → ℝ) : R3.product.r_vec a (R3.identity.r_vec) = a := by
  funext i; fin_cases i <;> cas_mat
end R3

/-! ## SO(3), quaternion form.  Valid = unit norm, either sign. -/
namespace SO3Quat
/-- the translated `to_Matrix` is the quadratic form `Rot.qmat` -/
theorem toMatrix_spec (a : Fin 4 → ℝ) : SO3Quat.toMatrix.M_mat a = qmat a := by
  mat_entries <;> simp [cas_defs, cas_real, qmat] <;> ring
theorem product_spec (a b : Fin 4 → ℝ) : SO3Quat.product.r_vec a b = qmul a b := by
  funext i; fin_cases i <;> simp [cas_defs, cas_real, qmul] <;> (try ring1)
theorem inverse_spec (a : Fin 4 → ℝ) : SO3Quat.inverse.r_vec a = qconj a := by
  funext i; fin_cases i <;> simp [cas_defs, cas_real, qconj] <;> (try ring1)
/-- holds for every pair of quaternions, unit or not -/
theorem toMatrix_product (a b : Fin 4 → ℝ) :
    SO3Quat.toMatrix.M_mat (SO3Quat.product.r_vec a b)
      = SO3Quat.toMatrix.M_mat a * SO3Quat.toMatrix.M_mat b := by
  simp only [toMatrix_spec, product_spec, qmat_mul]
theorem product_unit (a b : Fin 4 → ℝ) (ha : qnormSq a = 1) (hb : qnormSq b = 1) :
    qnormSq (SO3Quat.product.r_vec a b) = 1 := by
  rw [product_spec, qnormSq_mul, ha, hb]; norm_num
theorem toMatrix_identity : SO3Quat.toMatrix.M_mat (SO3Quat.identity.r_vec (α := ℝ)) = 1 := by
  mat_entries <;> simp [cas_defs, cas_real] <;> (try ring1)
theorem toMatrix_inverse_left (a : Fin 4 → ℝ) (h : qnormSq a = 1) :
    SO3Quat.toMatrix.M_mat (SO3Quat.inverse.r_vec a) * SO3Quat.toMatrix.M_mat a = 1 := by
  rw [toMatrix_spec, toMatrix_spec, inverse_spec, qmat_conj_mul, h]; simp
theorem toMatrix_inverse_right (a : Fin 4 → ℝ) (h : qnormSq a = 1) :
    SO3Quat.toMatrix.M_mat a * SO3Quat.toMatrix.M_mat (SO3Quat.inverse.r_vec a) = 1 := by
  rw [toMatrix_spec, toMatrix_spec, inverse_spec, qmat_mul_conj, h]; simp
theorem identity_left (a : Fin 4 → ℝ) : SO3Quat.product.r_vec (SO3Quat.identity.r_vec) a = a := by
  funext i; fin_cases i <;> cas_mat
theorem identity_right (a : Fin 4 → ℝ) : SO3Quat.product.r_vec a (SO3Quat.identity.r_vec) = a := by
  funext i; fin_cases i <;> cas_mat
theorem product_assoc (a b c : Fin 4 → ℝ) :
    SO3Quat.product.r_vec (SO3Quat.product.r_vec a b) c
      = SO3Quat.product.r_vec a (SO3Quat.product.r_vec b c) := by
  funext i; fin_cases i <;> cas_mat <;> ring
/-- a valid element is a proper rotation -/
theorem toMatrix_orthogonal (a : Fin 4 → ℝ) (h : qnormSq a = 1) :
    (SO3Quat.toMatrix.M_mat a).transpose * SO3Quat.toMatrix.M_mat a = 1
      ∧ (SO3Quat.toMatrix.M_mat a).det = 1 := by
  rw [toMatrix_spec]; exact ⟨(qmat_orthogonal a h).1, (qmat_orthogonal a h).2.2⟩
example : qnormSq ![-(1/2), 1/2, -(1/2), 1/2] = 1 := by simp [qnormSq]; norm_num
end SO3Quat

/-! ## SO(3), MRP form.  Valid = away from the 360° product singularity. -/
namespace SO3Mrp
theorem toMatrix_spec (r : Fin 3 → ℝ) : SO3Mrp.toMatrix.M_mat r = mrpMat r := by
  have h : (1 + (r 0 * r 0 + r 1 * r 1 + r 2 * r 2)) ≠ 0 := by
    nlinarith [mul_self_nonneg (r 0), mul_self_nonneg (r 1), mul_self_nonneg (r 2)]
  have h' : (1 + (r 0 ^ 2 + r 1 ^ 2 + r 2 ^ 2)) ≠ 0 := by positivity
  mat_entries <;> simp [cas_defs, cas_real, mrpMat, qmat, mrpQ, nsq] <;> field_simp <;> ring
theorem product_spec (a b : Fin 3 → ℝ) : SO3Mrp.product.r_vec a b = mrpMul a b := by
  funext i; fin_cases i <;>
    simp [cas_defs, cas_real, mrpMul, mrpNum, mrpDen, nsq, dot3, cross] <;> ring
theorem toMatrix_product (a b : Fin 3 → ℝ) (h : mrpDen a b ≠ 0) :
    SO3Mrp.toMatrix.M_mat (SO3Mrp.product.r_vec a b)
      = SO3Mrp.toMatrix.M_mat a * SO3Mrp.toMatrix.M_mat b := by
  simp only [toMatrix_spec, product_spec, mrpMat_mul a b h]
theorem toMatrix_identity : SO3Mrp.toMatrix.M_mat (SO3Mrp.identity.r_vec (α := ℝ)) = 1 := by
  mat_entries <;> simp [cas_defs, cas_real] <;> (try ring1)
theorem inverse_spec (a : Fin 3 → ℝ) : SO3Mrp.inverse.r_vec a = -a := by
  funext i; fin_cases i <;> simp [cas_defs, cas_real] <;> (try ring1)
theorem toMatrix_inverse_left (a : Fin 3 → ℝ) :
    SO3Mrp.toMatrix.M_mat (SO3Mrp.inverse.r_vec a) * SO3Mrp.toMatrix.M_mat a = 1 := by
  rw [toMatrix_spec, toMatrix_spec, inverse_spec]
  exact mrpMat_neg_mul a
theorem toMatrix_inverse_right (a : Fin 3 → ℝ) :
    SO3Mrp.toMatrix.M_mat a * SO3Mrp.toMatrix.M_mat (SO3Mrp.inverse.r_vec a) = 1 := by
  rw [toMatrix_spec, toMatrix_spec, inverse_spec]
  exact mrpMat_mul_neg a
theorem identity_left (a : Fin 3 → ℝ) : SO3Mrp.product.r_vec (SO3Mrp.identity.r_vec) a = a := by
  funext i; fin_cases i <;> cas_mat
theorem identity_right (a : Fin 3 → ℝ) : SO3Mrp.product.r_vec a (SO3Mrp.identity.r_vec) = a := by
  funext i; fin_cases i <;> cas_mat
example : mrpDen ![1/2, 0, 0] ![0, 3, 0] ≠ 0 := by simp [mrpDen, nsq, dot3]; norm_num
end SO3Mrp


/-! ## SO(3), DCM form.  Valid = orthonormal. -/
namespace SO3Dcm
theorem toMatrix_product (a b : Fin 9 → ℝ) :
    SO3Dcm.toMatrix.M_mat (SO3Dcm.product.r_vec a b)
      = SO3Dcm.toMatrix.M_mat a * SO3Dcm.toMatrix.M_mat b := by
  mat_entries <;> cas_mat <;> ring
theorem toMatrix_identity : SO3Dcm.toMatrix.M_mat (SO3Dcm.identity.r_vec (α := ℝ)) = 1 := by
  mat_entries <;> simp [cas_defs, cas_real] <;> (try ring1)
theorem toMatrix_inverse (a : Fin 9 → ℝ) :
    SO3Dcm.toMatrix.M_mat (SO3Dcm.inverse.r_vec a) = (SO3Dcm.toMatrix.M_mat a).transpose := by
  mat_entries <;> simp [cas_defs, cas_real] <;> (try ring1)
theorem toMatrix_inverse_left (a : Fin 9 → ℝ)
    (h : (SO3Dcm.toMatrix.M_mat a).transpose * SO3Dcm.toMatrix.M_mat a = 1) :
    SO3Dcm.toMatrix.M_mat (SO3Dcm.inverse.r_vec a) * SO3Dcm.toMatrix.M_mat a = 1 := by
  rw [toMatrix_inverse, h]
theorem toMatrix_inverse_right (a : Fin 9 → ℝ)
    (h : (SO3Dcm.toMatrix.M_mat a).transpose * SO3Dcm.toMatrix.M_mat a = 1) :
    SO3Dcm.toMatrix.M_mat a * SO3Dcm.toMatrix.M_mat (SO3Dcm.inverse.r_vec a) = 1 := by
  rw [toMatrix_inverse]; exact mul_eq_one_comm.mp h
theorem identity_left (a : Fin 9 → ℝ) : SO3Dcm.product.r_vec (SO3Dcm.identity.r_vec) a = a := by
  funext i; fin_cases i <;> cas_mat
theorem identity_right (a : Fin 9 → ℝ) : SO3Dcm.product.r_vec a (SO3Dcm.identity.r_vec) = a := by
  funext i; fin_cases i <;> cas_mat
/-- the matrix-to-element conversion returns the same element -/
theorem fromMatrix_toMatrix (a : Fin 9 → ℝ) :
    SO3Dcm.fromMatrix.r_vec (fun i j => SO3Dcm.toMatrix.M_mat a i j) = a := by
  funext i; fin_cases i <;> simp [cas_defs, cas_real] <;> (try ring1)
end SO3Dcm

/-! ## from_Matrix on SO(2), SE(2): same element back for θ in (-π, π] -/
namespace SO2
theorem fromMatrix_toMatrix (a : ℝ) (h1 : -Real.pi < a) (h2 : a ≤ Real.pi) :
    SO2.fromMatrix.r (fun i j => SO2.toMatrix.M_mat a i j) = a := by
  simp [cas_defs, cas_real, CasReal.atan2]
  have : (⟨Real.cos a, Real.sin a⟩ : ℂ) = Complex.exp (a * Complex.I) := by
    apply Complex.ext <;> simp [Complex.exp_ofReal_mul_I_re, Complex.exp_ofReal_mul_I_im]
  rw [this, Complex.arg_exp_mul_I, toIocMod_eq_self]
  constructor <;> [linarith; (have := Real.pi_pos; linarith)]
/-- for every angle the returned element has the same matrix -/
theorem toMatrix_fromMatrix_toMatrix (a : ℝ) :
    SO2.toMatrix.M_mat (SO2.fromMatrix.r (fun i j => SO2.toMatrix.M_mat a i j)) = SO2.toMatrix.M_mat a := by
  have key : (⟨Real.cos a, Real.sin a⟩ : ℂ) = Complex.exp (a * Complex.I) := by
    apply Complex.ext <;> simp [Complex.exp_ofReal_mul_I_re, Complex.exp_ofReal_mul_I_im]
  have hn : ‖Complex.exp (a * Complex.I)‖ = 1 := Complex.norm_exp_ofReal_mul_I _
  have hz : Complex.exp (a * Complex.I) ≠ 0 := Complex.exp_ne_zero _
  have hc : Real.cos (Complex.arg (Complex.exp (a * Complex.I))) = Real.cos a := by
    rw [Complex.cos_arg hz, hn, Complex.exp_ofReal_mul_I_re]; simp
  have hs : Real.sin (Complex.arg (Complex.exp (a * Complex.I))) = Real.sin a := by
    rw [Complex.sin_arg, hn, Complex.exp_ofReal_mul_I_im]; simp
  mat_entries <;> simp [cas_defs, cas_real, CasReal.atan2, key, hc, hs] <;> (try ring1)
end SO2

namespace SE2
theorem toMatrix_fromMatrix_toMatrix (a : Fin 3 → ℝ) :
    SE2.toMatrix.M_mat (SE2.fromMatrix.r_vec (fun i j => SE2.toMatrix.M_mat a i j)) = SE2.toMatrix.M_mat a := by
  have key : (⟨Real.cos (a 2), Real.sin (a 2)⟩ : ℂ) = Complex.exp ((a 2) * Complex.I) := by
    apply Complex.ext <;> simp [Complex.exp_ofReal_mul_I_re, Complex.exp_ofReal_mul_I_im]
  have hn : ‖Complex.exp ((a 2) * Complex.I)‖ = 1 := Complex.norm_exp_ofReal_mul_I _
  have hz : Complex.exp ((a 2) * Complex.I) ≠ 0 := Complex.exp_ne_zero _
  have hc : Real.cos (Complex.arg (Complex.exp ((a 2) * Complex.I))) = Real.cos (a 2) := by
    rw [Complex.cos_arg hz, hn, Complex.exp_ofReal_mul_I_re]; simp
  have hs : Real.sin (Complex.arg (Complex.exp ((a 2) * Complex.I))) = Real.sin (a 2) := by
    rw [Complex.sin_arg, hn, Complex.exp_ofReal_mul_I_im]; simp
  mat_entries <;> simp [cas_defs, cas_real, CasReal.atan2, key, hc, hs] <;> (try ring1)
end SE2

/-! ## SE(3) -/
namespace SE3Quat
def rot (a : Fin 7 → ℝ) : Fin 4 → ℝ := ![a 3, a 4, a 5, a 6]
/-- holds for every pair (unit or not) -/
theorem toMatrix_product (a b : Fin 7 → ℝ) :
    SE3Quat.toMatrix.M_mat (SE3Quat.product.r_vec a b)
      = SE3Quat.toMatrix.M_mat a * SE3Quat.toMatrix.M_mat b := by
  mat_entries <;> cas_mat <;> ring
theorem toMatrix_identity : SE3Quat.toMatrix.M_mat (SE3Quat.identity.r_vec (α := ℝ)) = 1 := by
  mat_entries <;> simp [cas_defs, cas_real] <;> (try ring1)
theorem toMatrix_inverse_left (a : Fin 7 → ℝ) (h : qnormSq (rot a) = 1) :
    SE3Quat.toMatrix.M_mat (SE3Quat.inverse.r_vec a) * SE3Quat.toMatrix.M_mat a = 1 := by
  have h' : a 3 ^ 2 + a 4 ^ 2 + a 5 ^ 2 + a 6 ^ 2 = 1 := by simpa [qnormSq, rot] using h
  mat_entries <;> cas_mat <;>
    first
    | ring1
    | linear_combination (a 3 ^ 2 + a 4 ^ 2 + a 5 ^ 2 + a 6 ^ 2 + 1) * h'
theorem toMatrix_inverse_right (a : Fin 7 → ℝ) (h : qnormSq (rot a) = 1) :
    SE3Quat.toMatrix.M_mat a * SE3Quat.toMatrix.M_mat (SE3Quat.inverse.r_vec a) = 1 :=
  mul_eq_one_comm.mp (toMatrix_inverse_left a h)
theorem identity_left (a : Fin 7 → ℝ) : SE3Quat.product.r_vec (SE3Quat.identity.r_vec) a = a := by
  funext i; fin_cases i <;> cas_mat
theorem identity_right (a : Fin 7 → ℝ) : SE3Quat.product.r_vec a (SE3Quat.identity.r_vec) = a := by
  funext i; fin_cases i <;> cas_mat
theorem product_assoc (a b c : Fin 7 → ℝ) :
    SE3Quat.product.r_vec (SE3Quat.product.r_vec a b) c
      = SE3Quat.product.r_vec a (SE3Quat.product.r_vec b c) := by
  funext i; fin_cases i <;> cas_mat <;> ring
end SE3Quat

namespace SE3Mrp
def rot (a : Fin 6 → ℝ) : Fin 3 → ℝ := ![a 3, a 4, a 5]
def tr (a : Fin 6 → ℝ) : Fin 3 → ℝ := ![a 0, a 1, a 2]

theorem toMatrix_spec (a : Fin 6 → ℝ) :
    SE3Mrp.toMatrix.M_mat a = se3Mat (mrpMat (rot a)) (tr a) := by
  have h : (1 + (a 3 * a 3 + a 4 * a 4 + a 5 * a 5)) ≠ 0 := by
    nlinarith [mul_self_nonneg (a 3), mul_self_nonneg (a 4), mul_self_nonneg (a 5)]
  have h' : (1 + (a 3 ^ 2 + a 4 ^ 2 + a 5 ^ 2)) ≠ 0 := by positivity
  mat_entries <;> simp [cas_defs, cas_real, se3Mat, mrpMat, qmat, mrpQ, nsq, rot, tr] <;> field_simp <;> ring
theorem product_rot (a b : Fin 6 → ℝ) :
    rot (SE3Mrp.product.r_vec a b) = mrpMul (rot a) (rot b) := by
  funext i; fin_cases i <;>
    simp [cas_defs, cas_real, rot, mrpMul, mrpNum, mrpDen, nsq, dot3, cross] <;> ring
theorem product_tr (a b : Fin 6 → ℝ) :
    tr (SE3Mrp.product.r_vec a b) = (mrpMat (rot a)).mulVec (tr b) + tr a := by
  have h : (1 + (a 3 * a 3 + a 4 * a 4 + a 5 * a 5)) ≠ 0 := by
    nlinarith [mul_self_nonneg (a 3), mul_self_nonneg (a 4), mul_self_nonneg (a 5)]
  have h' : (1 + (a 3 ^ 2 + a 4 ^ 2 + a 5 ^ 2)) ≠ 0 := by positivity
  funext i; fin_cases i <;>
    simp [cas_defs, cas_real, rot, tr, mrpMat, qmat, mrpQ, nsq] <;>
    field_simp <;> ring
theorem toMatrix_product (a b : Fin 6 → ℝ) (h : mrpDen (rot a) (rot b) ≠ 0) :
    SE3Mrp.toMatrix.M_mat (SE3Mrp.product.r_vec a b)
      = SE3Mrp.toMatrix.M_mat a * SE3Mrp.toMatrix.M_mat b := by
  rw [toMatrix_spec, toMatrix_spec, toMatrix_spec, se3Mat_mul, product_rot, product_tr, mrpMat_mul _ _ h]
theorem toMatrix_identity : SE3Mrp.toMatrix.M_mat (SE3Mrp.identity.r_vec (α := ℝ)) = 1 := by
  mat_entries <;> simp [cas_defs, cas_real] <;> (try ring1)
theorem inverse_rot (a : Fin 6 → ℝ) : rot (SE3Mrp.inverse.r_vec a) = -rot a := by
  funext i; fin_cases i <;> simp [cas_defs, cas_real, rot] <;> (try ring1)
theorem inverse_tr (a : Fin 6 → ℝ) :
    tr (SE3Mrp.inverse.r_vec a) = -((mrpMat (-rot a)).mulVec (tr a)) := by
  have h : (1 + (a 3 * a 3 + a 4 * a 4 + a 5 * a 5)) ≠ 0 := by
    nlinarith [mul_self_nonneg (a 3), mul_self_nonneg (a 4), mul_self_nonneg (a 5)]
  have h' : (1 + (a 3 ^ 2 + a 4 ^ 2 + a 5 ^ 2)) ≠ 0 := by positivity
  funext i; fin_cases i <;>
    simp [cas_defs, cas_real, rot, tr, mrpMat, qmat, mrpQ, nsq] <;>
    field_simp <;> ring
theorem toMatrix_inverse_left (a : Fin 6 → ℝ) :
    SE3Mrp.toMatrix.M_mat (SE3Mrp.inverse.r_vec a) * SE3Mrp.toMatrix.M_mat a = 1 := by
  rw [toMatrix_spec, toMatrix_spec, se3Mat_mul, inverse_rot, inverse_tr, mrpMat_neg_mul]
  rw [← se3Mat_one]; congr 1; simp
theorem toMatrix_inverse_right (a : Fin 6 → ℝ) :
    SE3Mrp.toMatrix.M_mat a * SE3Mrp.toMatrix.M_mat (SE3Mrp.inverse.r_vec a) = 1 :=
  mul_eq_one_comm.mp (toMatrix_inverse_left a)
theorem identity_left (a : Fin 6 → ℝ) : SE3Mrp.product.r_vec (SE3Mrp.identity.r_vec) a = a := by
  funext i; fin_cases i <;> cas_mat
theorem identity_right (a : Fin 6 → ℝ) : SE3Mrp.product.r_vec a (SE3Mrp.identity.r_vec) = a := by
  funext i; fin_cases i <;> cas_mat
end SE3Mrp


/-! ## SE_2(3) -/
namespace SE23Quat
def rot (a : Fin 10 → ℝ) : Fin 4 → ℝ := ![a 6, a 7, a 8, a 9]
/-- holds for every pair (unit or not) -/
theorem toMatrix_product (a b : Fin 10 → ℝ) :
    SE23Quat.toMatrix.M_mat (SE23Quat.product.r_vec a b)
      = SE23Quat.toMatrix.M_mat a * SE23Quat.toMatrix.M_mat b := by
  mat_entries <;> cas_mat <;> ring
theorem toMatrix_identity : SE23Quat.toMatrix.M_mat (SE23Quat.identity.r_vec (α := ℝ)) = 1 := by
  mat_entries <;> simp [cas_defs, cas_real] <;> (try ring1)
theorem toMatrix_inverse_left (a : Fin 10 → ℝ) (h : qnormSq (rot a) = 1) :
    SE23Quat.toMatrix.M_mat (SE23Quat.inverse.r_vec a) * SE23Quat.toMatrix.M_mat a = 1 := by
  have h' : a 6 ^ 2 + a 7 ^ 2 + a 8 ^ 2 + a 9 ^ 2 = 1 := by simpa [qnormSq, rot] using h
  mat_entries <;> cas_mat <;>
    first
    | ring1
    | linear_combination (a 6 ^ 2 + a 7 ^ 2 + a 8 ^ 2 + a 9 ^ 2 + 1) * h'
theorem toMatrix_inverse_right (a : Fin 10 → ℝ) (h : qnormSq (rot a) = 1) :
    SE23Quat.toMatrix.M_mat a * SE23Quat.toMatrix.M_mat (SE23Quat.inverse.r_vec a) = 1 :=
  mul_eq_one_comm.mp (toMatrix_inverse_left a h)
theorem identity_left (a : Fin 10 → ℝ) : SE23Quat.product.r_vec (SE23Quat.identity.r_vec) a = a := by
  funext i; fin_cases i <;> cas_mat
theorem identity_right (a : Fin 10 → ℝ) : SE23Quat.product.r_vec a (SE23Quat.identity.r_vec) = a := by
  funext i; fin_cases i <;> cas_mat
end SE23Quat

namespace SE23Mrp
def rot (a : Fin 9 → ℝ) : Fin 3 → ℝ := ![a 6, a 7, a 8]
def pos (a : Fin 9 → ℝ) : Fin 3 → ℝ := ![a 0, a 1, a 2]
def vel (a : Fin 9 → ℝ) : Fin 3 → ℝ := ![a 3, a 4, a 5]

theorem toMatrix_spec (a : Fin 9 → ℝ) :
    SE23Mrp.toMatrix.M_mat a = se23Mat (mrpMat (rot a)) (vel a) (pos a) := by
  have h : (1 + (a 6 * a 6 + a 7 * a 7 + a 8 * a 8)) ≠ 0 := by
    nlinarith [mul_self_nonneg (a 6), mul_self_nonneg (a 7), mul_self_nonneg (a 8)]
  have h' : (1 + (a 6 ^ 2 + a 7 ^ 2 + a 8 ^ 2)) ≠ 0 := by positivity
  mat_entries <;> simp [cas_defs, cas_real, se23Mat, mrpMat, qmat, mrpQ, nsq, rot, pos, vel] <;>
    field_simp <;> ring
theorem product_rot (a b : Fin 9 → ℝ) :
    rot (SE23Mrp.product.r_vec a b) = mrpMul (rot a) (rot b) := by
  funext i; fin_cases i <;>
    simp [cas_defs, cas_real, rot, mrpMul, mrpNum, mrpDen, nsq, dot3, cross] <;> ring
theorem product_pos (a b : Fin 9 → ℝ) :
    pos (SE23Mrp.product.r_vec a b) = (mrpMat (rot a)).mulVec (pos b) + pos a := by
  have h : (1 + (a 6 * a 6 + a 7 * a 7 + a 8 * a 8)) ≠ 0 := by
    nlinarith [mul_self_nonneg (a 6), mul_self_nonneg (a 7), mul_self_nonneg (a 8)]
  have h' : (1 + (a 6 ^ 2 + a 7 ^ 2 + a 8 ^ 2)) ≠ 0 := by positivity
  funext i; fin_cases i <;>
    simp [cas_defs, cas_real, rot, pos, mrpMat, qmat, mrpQ, nsq] <;> field_simp <;> ring
theorem product_vel (a b : Fin 9 → ℝ) :
    vel (SE23Mrp.product.r_vec a b) = (mrpMat (rot a)).mulVec (vel b) + vel a := by
  have h : (1 + (a 6 * a 6 + a 7 * a 7 + a 8 * a 8)) ≠ 0 := by
    nlinarith [mul_self_nonneg (a 6), mul_self_nonneg (a 7), mul_self_nonneg (a 8)]
  have h' : (1 + (a 6 ^ 2 + a 7 ^ 2 + a 8 ^ 2)) ≠ 0 := by positivity
  funext i; fin_cases i <;>
    simp [cas_defs, cas_real, rot, vel, mrpMat, qmat, mrpQ, nsq] <;> field_simp <;> ring
theorem toMatrix_product (a b : Fin 9 → ℝ) (h : mrpDen (rot a) (rot b) ≠ 0) :
    SE23Mrp.toMatrix.M_mat (SE23Mrp.product.r_vec a b)
      = SE23Mrp.toMatrix.M_mat a * SE23Mrp.toMatrix.M_mat b := by
  rw [toMatrix_spec, toMatrix_spec, toMatrix_spec, se23Mat_mul, product_rot, product_pos, product_vel,
    mrpMat_mul _ _ h]
theorem toMatrix_identity : SE23Mrp.toMatrix.M_mat (SE23Mrp.identity.r_vec (α := ℝ)) = 1 := by
  mat_entries <;> simp [cas_defs, cas_real] <;> (try ring1)
theorem inverse_rot (a : Fin 9 → ℝ) : rot (SE23Mrp.inverse.r_vec a) = -rot a := by
  funext i; fin_cases i <;> simp [cas_defs, cas_real, rot] <;> (try ring1)
theorem inverse_pos (a : Fin 9 → ℝ) :
    pos (SE23Mrp.inverse.r_vec a) = -((mrpMat (-rot a)).mulVec (pos a)) := by
  have h : (1 + (a 6 * a 6 + a 7 * a 7 + a 8 * a 8)) ≠ 0 := by
    nlinarith [mul_self_nonneg (a 6), mul_self_nonneg (a 7), mul_self_nonneg (a 8)]
  have h' : (1 + (a 6 ^ 2 + a 7 ^ 2 + a 8 ^ 2)) ≠ 0 := by positivity
  funext i; fin_cases i <;>
    simp [cas_defs, cas_real, rot, pos, mrpMat, qmat, mrpQ, nsq] <;> field_simp <;> ring
theorem inverse_vel (a : Fin 9 → ℝ) :
    vel (SE23Mrp.inverse.r_vec a) = -((mrpMat (-rot a)).mulVec (vel a)) := by
  have h : (1 + (a 6 * a 6 + a 7 * a 7 + a 8 * a 8)) ≠ 0 := by
    nlinarith [mul_self_nonneg (a 6), mul_self_nonneg (a 7), mul_self_nonneg (a 8)]
  have h' : (1 + (a 6 ^ 2 + a 7 ^ 2 + a 8 ^ 2)) ≠ 0 := by positivity
  funext i; fin_cases i <;>
    simp [cas_defs, cas_real, rot, vel, mrpMat, qmat, mrpQ, nsq] <;> field_simp <;> ring
theorem toMatrix_inverse_left (a : Fin 9 → ℝ) :
    SE23Mrp.toMatrix.M_mat (SE23Mrp.inverse.r_vec a) * SE23Mrp.toMatrix.M_mat a = 1 := by
  rw [toMatrix_spec, toMatrix_spec, se23Mat_mul, inverse_rot, inverse_pos, inverse_vel, mrpMat_neg_mul]
  rw [← se23Mat_one]; congr 1 <;> simp
theorem toMatrix_inverse_right (a : Fin 9 → ℝ) :
    SE23Mrp.toMatrix.M_mat a * SE23Mrp.toMatrix.M_mat (SE23Mrp.inverse.r_vec a) = 1 :=
  mul_eq_one_comm.mp (toMatrix_inverse_left a)
theorem identity_left (a : Fin 9 → ℝ) : SE23Mrp.product.r_vec (SE23Mrp.identity.r_vec) a = a := by
  funext i; fin_cases i <;> cas_mat
theorem identity_right (a : Fin 9 → ℝ) : SE23Mrp.product.r_vec a (SE23Mrp.identity.r_vec) = a := by
  funext i; fin_cases i <;> cas_mat
end SE23Mrp

end C01
