/-
  Props/C01.lean — group axioms under the matrix representation.
  Property theorems only (helpers live in Lib/).  The `Gen.*` definitions are
  regenerated from /repo's working tree on every run.

  Validity hypotheses are exactly those of the property: unit quaternion (either
  sign), MRP away from the product singularity (`mrpDen ≠ 0`), orthonormal DCM.
-/
import GenM.SO2
import GenM.SE2
import GenM.Rn
import GenM.SO3
import GenM.SE3
import GenM.SE23
import Lib.Rot
import Lib.Semidirect
import Mathlib.Analysis.SpecialFunctions.Trigonometric.Basic

set_option maxHeartbeats 1000000
open Gen Rot

namespace C01

/-- unfold translated code to real arithmetic and expand small matrix products -/
macro "cas_mat" : tactic =>
  `(tactic| simp [cas_defs, cas_real, Matrix.mul_apply, Fin.sum_univ_succ])

/-! ## SO(2) -/
namespace SO2
theorem toMatrix_product (a b : ℝ) :
    SO2.toMatrix.M_mat (SO2.product.r a b) = SO2.toMatrix.M_mat a * SO2.toMatrix.M_mat b := by
  mat_entries <;> simp [cas_defs, cas_real, Matrix.mul_apply, Fin.sum_univ_succ, Real.cos_add, Real.sin_add] <;> ring
theorem toMatrix_identity : SO2.toMatrix.M_mat (SO2.identity.r (α := ℝ)) = 1 := by
  mat_entries <;> simp [cas_defs, cas_real]
theorem toMatrix_inverse_left (a : ℝ) :
    SO2.toMatrix.M_mat (SO2.inverse.r a) * SO2.toMatrix.M_mat a = 1 := by
  mat_entries <;> cas_mat <;> nlinarith [Real.sin_sq_add_cos_sq a]
theorem toMatrix_inverse_right (a : ℝ) :
    SO2.toMatrix.M_mat a * SO2.toMatrix.M_mat (SO2.inverse.r a) = 1 := by
  mat_entries <;> cas_mat <;> nlinarith [Real.sin_sq_add_cos_sq a]
theorem identity_left (a : ℝ) : SO2.product.r (SO2.identity.r) a = a := by cas_mat
theorem identity_right (a : ℝ) : SO2.product.r a (SO2.identity.r) = a := by cas_mat
theorem product_assoc (a b c : ℝ) :
    SO2.product.r (SO2.product.r a b) c = SO2.product.r a (SO2.product.r b c) := by
  cas_mat; ring
end SO2

/-! ## SE(2) -/
namespace SE2
theorem toMatrix_product (a b : Fin 3 → ℝ) :
    SE2.toMatrix.M_mat (SE2.product.r_vec a b) = SE2.toMatrix.M_mat a * SE2.toMatrix.M_mat b := by
  mat_entries <;> simp [cas_defs, cas_real, Matrix.mul_apply, Fin.sum_univ_succ, Real.cos_add, Real.sin_add] <;> ring
theorem toMatrix_identity : SE2.toMatrix.M_mat (SE2.identity.r_vec (α := ℝ)) = 1 := by
  mat_entries <;> simp [cas_defs, cas_real]
theorem toMatrix_inverse_left (a : Fin 3 → ℝ) :
    SE2.toMatrix.M_mat (SE2.inverse.r_vec a) * SE2.toMatrix.M_mat a = 1 := by
  have h := Real.sin_sq_add_cos_sq (a 2)
  mat_entries <;> cas_mat <;>
    linarith [h, congrArg (fun t => a 0 * t) h, congrArg (fun t => a 1 * t) h]
theorem toMatrix_inverse_right (a : Fin 3 → ℝ) :
    SE2.toMatrix.M_mat a * SE2.toMatrix.M_mat (SE2.inverse.r_vec a) = 1 := by
  have h := Real.sin_sq_add_cos_sq (a 2)
  mat_entries <;> cas_mat <;>
    linarith [h, congrArg (fun t => a 0 * t) h, congrArg (fun t => a 1 * t) h]
theorem identity_left (a : Fin 3 → ℝ) : SE2.product.r_vec (SE2.identity.r_vec) a = a := by
  funext i; fin_cases i <;> cas_mat
theorem identity_right (a : Fin 3 → ℝ) : SE2.product.r_vec a (SE2.identity.r_vec) = a := by
  funext i; fin_cases i <;> cas_mat
theorem toMatrix_assoc (a b c : Fin 3 → ℝ) :
    SE2.toMatrix.M_mat (SE2.product.r_vec (SE2.product.r_vec a b) c)
      = SE2.toMatrix.M_mat (SE2.product.r_vec a (SE2.product.r_vec b c)) := by
  simp only [toMatrix_product, Matrix.mul_assoc]
end SE2

/-! ## ℝ² and ℝ³ -/
namespace R2
theorem toMatrix_product (a b : Fin 2 → ℝ) :
    R2.toMatrix.M_mat (R2.product.r_vec a b) = R2.toMatrix.M_mat a * R2.toMatrix.M_mat b := by
  mat_entries <;> cas_mat <;> ring
theorem toMatrix_identity : R2.toMatrix.M_mat (R2.identity.r_vec (α := ℝ)) = 1 := by
  mat_entries <;> simp [cas_defs, cas_real]
theorem toMatrix_inverse_left (a : Fin 2 → ℝ) :
    R2.toMatrix.M_mat (R2.inverse.r_vec a) * R2.toMatrix.M_mat a = 1 := by
  mat_entries <;> cas_mat
theorem toMatrix_inverse_right (a : Fin 2 → ℝ) :
    R2.toMatrix.M_mat a * R2.toMatrix.M_mat (R2.inverse.r_vec a) = 1 := by
  mat_entries <;> cas_mat
theorem identity_left (a : Fin 2 → ℝ) : R2.product.r_vec (R2.identity.r_vec) a = a := by
  funext i; fin_cases i <;> cas_mat
theorem identity_right (a : Fin 2 → ℝ) : R2.product.r_vec a (R2.identity.r_vec) = a := by
  funext i; fin_cases i <;> cas_mat
end R2

namespace R3
theorem toMatrix_product (a b : Fin 3 → ℝ) :
    R3.toMatrix.M_mat (R3.product.r_vec a b) = R3.toMatrix.M_mat a * R3.toMatrix.M_mat b := by
  mat_entries <;> cas_mat <;> ring
theorem toMatrix_identity : R3.toMatrix.M_mat (R3.identity.r_vec (α := ℝ)) = 1 := by
  mat_entries <;> simp [cas_defs, cas_real]
theorem toMatrix_inverse_left (a : Fin 3 → ℝ) :
    R3.toMatrix.M_mat (R3.inverse.r_vec a) * R3.toMatrix.M_mat a = 1 := by
  mat_entries <;> cas_mat
theorem toMatrix_inverse_right (a : Fin 3 → ℝ) :
    R3.toMatrix.M_mat a * R3.toMatrix.M_mat (R3.inverse.r_vec a) = 1 := by
  mat_entries <;> cas_mat
theorem identity_left (a : Fin 3 → ℝ) : R3.product.r_vec (R3.identity.r_vec) a = a := by
  funext i; fin_cases i <;> cas_mat
theorem identity_right (a : Fin 3 → ℝ) : R3.product.r_vec a (R3.identity.r_vec) = a := by
  funext i; fin_cases i <;> cas_mat
end R3

/-! ## SO(3), quaternion form.  Valid = unit norm, either sign. -/
namespace SO3Quat
/-- the translated `to_Matrix` is the quadratic form `Rot.qmat` -/
theorem toMatrix_spec (a : Fin 4 → ℝ) : SO3Quat.toMatrix.M_mat a = qmat a := by
  mat_entries <;> simp [cas_defs, cas_real, qmat] <;> ring
theorem product_spec (a b : Fin 4 → ℝ) : SO3Quat.product.r_vec a b = qmul a b := by
  funext i; fin_cases i <;> simp [cas_defs, cas_real, qmul]
theorem inverse_spec (a : Fin 4 → ℝ) : SO3Quat.inverse.r_vec a = qconj a := by
  funext i; fin_cases i <;> simp [cas_defs, cas_real, qconj]
/-- holds for every pair of quaternions, unit or not -/
theorem toMatrix_product (a b : Fin 4 → ℝ) :
    SO3Quat.toMatrix.M_mat (SO3Quat.product.r_vec a b)
      = SO3Quat.toMatrix.M_mat a * SO3Quat.toMatrix.M_mat b := by
  simp only [toMatrix_spec, product_spec, qmat_mul]
theorem product_unit (a b : Fin 4 → ℝ) (ha : qnormSq a = 1) (hb : qnormSq b = 1) :
    qnormSq (SO3Quat.product.r_vec a b) = 1 := by
  rw [product_spec, qnormSq_mul, ha, hb]; norm_num
theorem toMatrix_identity : SO3Quat.toMatrix.M_mat (SO3Quat.identity.r_vec (α := ℝ)) = 1 := by
  mat_entries <;> simp [cas_defs, cas_real]
theorem toMatrix_inverse_left (a : Fin 4 → ℝ) (h : qnormSq a = 1) :
    SO3Quat.toMatrix.M_mat (SO3Quat.inverse.r_vec a) * SO3Quat.toMatrix.M_mat a = 1 := by
  rw [toMatrix_spec, toMatrix_spec, inverse_spec, qmat_conj_mul, h]; simp
theorem toMatrix_inverse_right (a : Fin 4 → ℝ) (h : qnormSq a = 1) :
    SO3Quat.toMatrix.M_mat a * SO3Quat.toMatrix.M_mat (SO3Quat.inverse.r_vec a) = 1 := by
  rw [toMatrix_spec, toMatrix_spec, inverse_spec, qmat_mul_conj, h]; simp
theorem identity_left (a : Fin 4 → ℝ) : SO3Quat.product.r_vec (SO3Quat.identity.r_vec) a = a := by
  funext i; fin_cases i <;> cas_mat
theorem identity_right (a : Fin 4 → ℝ) : SO3Quat.product.r_vec a (SO3Quat.identity.r_vec) = a := by
  funext i; fin_cases i <;> cas_mat
theorem product_assoc (a b c : Fin 4 → ℝ) :
    SO3Quat.product.r_vec (SO3Quat.product.r_vec a b) c
      = SO3Quat.product.r_vec a (SO3Quat.product.r_vec b c) := by
  funext i; fin_cases i <;> cas_mat <;> ring
/-- a valid element is a proper rotation -/
theorem toMatrix_orthogonal (a : Fin 4 → ℝ) (h : qnormSq a = 1) :
    (SO3Quat.toMatrix.M_mat a).transpose * SO3Quat.toMatrix.M_mat a = 1
      ∧ (SO3Quat.toMatrix.M_mat a).det = 1 := by
  rw [toMatrix_spec]; exact ⟨(qmat_orthogonal a h).1, (qmat_orthogonal a h).2.2⟩
example : qnormSq ![-(1/2), 1/2, -(1/2), 1/2] = 1 := by simp [qnormSq]; norm_num
end SO3Quat

/-! ## SO(3), MRP form.  Valid = away from the 360° product singularity. -/
namespace SO3Mrp
theorem toMatrix_spec (r : Fin 3 → ℝ) : SO3Mrp.toMatrix.M_mat r = mrpMat r := by
  have h : (1 + (r 0 * r 0 + r 1 * r 1 + r 2 * r 2)) ≠ 0 := by
    nlinarith [mul_self_nonneg (r 0), mul_self_nonneg (r 1), mul_self_nonneg (r 2)]
  have h' : (1 + (r 0 ^ 2 + r 1 ^ 2 + r 2 ^ 2)) ≠ 0 := by positivity
  mat_entries <;> simp [cas_defs, cas_real, mrpMat, qmat, mrpQ, nsq] <;> field_simp <;> ring
theorem product_spec (a b : Fin 3 → ℝ) : SO3Mrp.product.r_vec a b = mrpMul a b := by
  funext i; fin_cases i <;>
    simp [cas_defs, cas_real, mrpMul, mrpNum, mrpDen, nsq, dot3, cross] <;> ring
theorem toMatrix_product (a b : Fin 3 → ℝ) (h : mrpDen a b ≠ 0) :
    SO3Mrp.toMatrix.M_mat (SO3Mrp.product.r_vec a b)
      = SO3Mrp.toMatrix.M_mat a * SO3Mrp.toMatrix.M_mat b := by
  simp only [toMatrix_spec, product_spec, mrpMat_mul a b h]
theorem toMatrix_identity : SO3Mrp.toMatrix.M_mat (SO3Mrp.identity.r_vec (α := ℝ)) = 1 := by
  mat_entries <;> simp [cas_defs, cas_real]
theorem inverse_spec (a : Fin 3 → ℝ) : SO3Mrp.inverse.r_vec a = -a := by
  funext i; fin_cases i <;> simp [cas_defs, cas_real]
theorem toMatrix_inverse_left (a : Fin 3 → ℝ) :
    SO3Mrp.toMatrix.M_mat (SO3Mrp.inverse.r_vec a) * SO3Mrp.toMatrix.M_mat a = 1 := by
  rw [toMatrix_spec, toMatrix_spec, inverse_spec]
  exact mrpMat_neg_mul a
theorem toMatrix_inverse_right (a : Fin 3 → ℝ) :
    SO3Mrp.toMatrix.M_mat a * SO3Mrp.toMatrix.M_mat (SO3Mrp.inverse.r_vec a) = 1 := by
  rw [toMatrix_spec, toMatrix_spec, inverse_spec]
  exact mrpMat_mul_neg a
theorem identity_left (a : Fin 3 → ℝ) : SO3Mrp.product.r_vec (SO3Mrp.identity.r_vec) a = a := by
  funext i; fin_cases i <;> cas_mat
theorem identity_right (a : Fin 3 → ℝ) : SO3Mrp.product.r_vec a (SO3Mrp.identity.r_vec) = a := by
  funext i; fin_cases i <;> cas_mat
example : mrpDen ![1/2, 0, 0] ![0, 3, 0] ≠ 0 := by simp [mrpDen, nsq, dot3]; norm_num
end SO3Mrp

end C01
