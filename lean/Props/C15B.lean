/-
  Props/C15B.lean — the log-linear SO(3) attitude law with a scalar gain commands the gain times the rotation
  vector of the attitude error, and (gain 1) applying it to the measured attitude reaches the reference.
  From Props/C15A (omega = J_l(e) diag(kp) e), the identity J_l(x) x = x of the translated so(3) left Jacobian
  (for every value of its series coefficients), and C15.attitude_reaches_reference / C03.
-/
import Props.C15A
import Props.C15

set_option maxHeartbeats 2000000
open Gen Rot

namespace C15B

/-- the so(3) left Jacobian fixes its own argument: J_l(x) x = x, for every x -/
theorem so3_left_jacobian_fix (x : Fin 3 → ℝ) : (so3.left_jacobian.M_mat x).mulVec x = x := by
  funext i
  fin_cases i <;>
    simp [cas_defs, cas_real, Matrix.mulVec, dotProduct, Fin.sum_univ_succ] <;> ring

/-- scalar gain k: the command is k times the library's quaternion log of q⁻¹ ⊗ q_r -/
theorem so3_attitude_scalar_gain (k : ℝ) (q qr : Fin 4 → ℝ) (i : Fin 3) :
    loglinear.so3_attitude_control.omega_vec (fun _ => k) q qr i
      = k * SO3Quat.log.r_vec (qmul (qconj q) qr) i := by
  rw [C15A.so3_attitude_law]
  have h : (fun j => k * SO3Quat.log.r_vec (qmul (qconj q) qr) j) = k • SO3Quat.log.r_vec (qmul (qconj q) qr) := by
    funext j; simp
  rw [h, Matrix.mulVec_smul, so3_left_jacobian_fix]
  simp

/-- the two shipped attitude laws agree for equal scalar gains -/
theorem so3_attitude_eq_rdd2 (k : ℝ) (q qr : Fin 4 → ℝ) :
    loglinear.so3_attitude_control.omega_vec (fun _ => k) q qr
      = rdd2.attitude_control.omega_vec (fun _ => k) q qr := by
  funext i; rw [so3_attitude_scalar_gain, C15.attitude_law]

/-- **applying the commanded rotation (gain 1) to the measured attitude reaches the reference** — log-linear SO(3) law,
    unit q, q_r, error angle ≠ π, closed-form cells (same hypotheses as `C15.attitude_reaches_reference`) -/
theorem so3_attitude_reaches_reference (q qr : Fin 4 → ℝ) (hq : qnormSq q = 1) (hr : qnormSq qr = 1)
    (h0 : qmul (qconj q) qr 0 ≠ 0)
    (hc1 : SeriesLemmas.eps ≤ Real.arccos |qmul (qconj q) qr 0|) (hc2 : SeriesLemmas.eps ≤ Real.arccos |qmul (qconj q) qr 0| ^ 2) :
    qmat q * qmat (SO3Quat.exp.r_vec (loglinear.so3_attitude_control.omega_vec (fun _ => 1) q qr)) = qmat qr := by
  rw [so3_attitude_eq_rdd2]
  exact C15.attitude_reaches_reference q qr hq hr h0 hc1 hc2

end C15B
