/-
  Props/C04.lean — Ad, ad and the bracket agree with matrix conjugation / commutators.
  Property theorems only.  Shapes: every `Ad`/`ad` below has type
  `Matrix (Fin k) (Fin k) ℝ` with k the algebra dimension — the statements do not
  type-check unless the translated operators are k×k.
-/
import GenM.SO2
import GenM.SE2
import GenM.Rn
import GenM.SO3
import GenM.SE3
import GenM.SE23
import Lib.Rot
import Lib.AdBlocks
import Mathlib.Analysis.SpecialFunctions.Trigonometric.Basic

set_option maxHeartbeats 2000000
open Gen Rot

namespace C04

macro "cas_mat" : tactic =>
  `(tactic| simp [cas_defs, cas_real, Matrix.mul_apply, Matrix.mulVec, dotProduct, Fin.sum_univ_succ])

/-! ## algebras: ad_x y = [x,y],  [x,y]^ = x^ y^ − y^ x^,  antisymmetry, Jacobi -/

namespace so2
theorem ad_bracket (x y : ℝ) : so2.ad.M x * y = so2.bracket.r x y := by cas_mat
theorem bracket_comm (x y : ℝ) :
    so2.toMatrix.M_mat (so2.bracket.r x y)
      = so2.toMatrix.M_mat x * so2.toMatrix.M_mat y - so2.toMatrix.M_mat y * so2.toMatrix.M_mat x := by
  mat_entries <;> cas_mat <;> ring
end so2

namespace se2
theorem ad_bracket (x y : Fin 3 → ℝ) : (se2.ad.M_mat x).mulVec y = se2.bracket.r_vec x y := by
  funext i; fin_cases i <;> cas_mat <;> ring
theorem bracket_comm (x y : Fin 3 → ℝ) :
    se2.toMatrix.M_mat (se2.bracket.r_vec x y)
      = se2.toMatrix.M_mat x * se2.toMatrix.M_mat y - se2.toMatrix.M_mat y * se2.toMatrix.M_mat x := by
  mat_entries <;> cas_mat <;> ring
theorem bracket_antisymm (x y : Fin 3 → ℝ) : se2.bracket.r_vec x y = -se2.bracket.r_vec y x := by
  funext i; fin_cases i <;> cas_mat <;> ring
theorem bracket_jacobi (x y z : Fin 3 → ℝ) :
    se2.bracket.r_vec x (se2.bracket.r_vec y z) + se2.bracket.r_vec y (se2.bracket.r_vec z x)
      + se2.bracket.r_vec z (se2.bracket.r_vec x y) = 0 := by
  funext i; fin_cases i <;> cas_mat <;> ring
end se2

namespace r2
theorem ad_bracket (x y : Fin 2 → ℝ) : (r2.ad.M_mat x).mulVec y = r2.bracket.r_vec x y := by
  funext i; fin_cases i <;> cas_mat
theorem bracket_comm (x y : Fin 2 → ℝ) :
    r2.toMatrix.M_mat (r2.bracket.r_vec x y)
      = r2.toMatrix.M_mat x * r2.toMatrix.M_mat y - r2.toMatrix.M_mat y * r2.toMatrix.M_mat x := by
  mat_entries <;> cas_mat
end r2

namespace r3
theorem ad_bracket (x y : Fin 3 → ℝ) : (r3.ad.M_mat x).mulVec y = r3.bracket.r_vec x y := by
  funext i; fin_cases i <;> cas_mat
theorem bracket_comm (x y : Fin 3 → ℝ) :
    r3.toMatrix.M_mat (r3.bracket.r_vec x y)
      = r3.toMatrix.M_mat x * r3.toMatrix.M_mat y - r3.toMatrix.M_mat y * r3.toMatrix.M_mat x := by
  mat_entries <;> cas_mat
end r3

namespace so3
theorem toMatrix_spec (x : Fin 3 → ℝ) : so3.toMatrix.M_mat x = hat x := by
  mat_entries <;> simp [cas_defs, cas_real, hat] <;> (try ring1)
theorem ad_bracket (x y : Fin 3 → ℝ) : (so3.ad.M_mat x).mulVec y = so3.bracket.r_vec x y := by
  funext i; fin_cases i <;> cas_mat <;> ring
theorem bracket_comm (x y : Fin 3 → ℝ) :
    so3.toMatrix.M_mat (so3.bracket.r_vec x y)
      = so3.toMatrix.M_mat x * so3.toMatrix.M_mat y - so3.toMatrix.M_mat y * so3.toMatrix.M_mat x := by
  mat_entries <;> cas_mat <;> ring
theorem bracket_antisymm (x y : Fin 3 → ℝ) : so3.bracket.r_vec x y = -so3.bracket.r_vec y x := by
  funext i; fin_cases i <;> cas_mat <;> ring
theorem bracket_jacobi (x y z : Fin 3 → ℝ) :
    so3.bracket.r_vec x (so3.bracket.r_vec y z) + so3.bracket.r_vec y (so3.bracket.r_vec z x)
      + so3.bracket.r_vec z (so3.bracket.r_vec x y) = 0 := by
  funext i; fin_cases i <;> cas_mat <;> ring
end so3

namespace se3
theorem ad_bracket (x y : Fin 6 → ℝ) : (se3.ad.M_mat x).mulVec y = se3.bracket.r_vec x y := by
  funext i; fin_cases i <;> cas_mat <;> ring
theorem bracket_comm (x y : Fin 6 → ℝ) :
    se3.toMatrix.M_mat (se3.bracket.r_vec x y)
      = se3.toMatrix.M_mat x * se3.toMatrix.M_mat y - se3.toMatrix.M_mat y * se3.toMatrix.M_mat x := by
  mat_entries <;> cas_mat <;> ring
theorem bracket_antisymm (x y : Fin 6 → ℝ) : se3.bracket.r_vec x y = -se3.bracket.r_vec y x := by
  funext i; fin_cases i <;> cas_mat <;> ring
theorem bracket_jacobi (x y z : Fin 6 → ℝ) :
    se3.bracket.r_vec x (se3.bracket.r_vec y z) + se3.bracket.r_vec y (se3.bracket.r_vec z x)
      + se3.bracket.r_vec z (se3.bracket.r_vec x y) = 0 := by
  funext i; fin_cases i <;> cas_mat <;> ring
end se3

namespace se23
theorem ad_bracket (x y : Fin 9 → ℝ) : (se23.ad.M_mat x).mulVec y = se23.bracket.r_vec x y := by
  funext i; fin_cases i <;> cas_mat <;> ring
theorem bracket_comm (x y : Fin 9 → ℝ) :
    se23.toMatrix.M_mat (se23.bracket.r_vec x y)
      = se23.toMatrix.M_mat x * se23.toMatrix.M_mat y - se23.toMatrix.M_mat y * se23.toMatrix.M_mat x := by
  mat_entries <;> cas_mat <;> ring
theorem bracket_antisymm (x y : Fin 9 → ℝ) : se23.bracket.r_vec x y = -se23.bracket.r_vec y x := by
  funext i; fin_cases i <;> cas_mat <;> ring
theorem bracket_jacobi (x y z : Fin 9 → ℝ) :
    se23.bracket.r_vec x (se23.bracket.r_vec y z) + se23.bracket.r_vec y (se23.bracket.r_vec z x)
      + se23.bracket.r_vec z (se23.bracket.r_vec x y) = 0 := by
  funext i; fin_cases i <;> cas_mat <;> ring
end se23


/-! ## groups: (Ad_X y)^ M(X) = M(X) y^  (inverse-free form of  Ad_X y = vee(X y^ X⁻¹)),
    Ad_{XY} = Ad_X Ad_Y,  Ad_{X⁻¹} Ad_X = 1 -/

namespace SO2
theorem Ad_conj (a y : ℝ) :
    so2.toMatrix.M_mat (SO2.Ad.M a * y) * SO2.toMatrix.M_mat a
      = SO2.toMatrix.M_mat a * so2.toMatrix.M_mat y := by
  mat_entries <;> cas_mat <;> ring
theorem Ad_hom (a b : ℝ) : SO2.Ad.M (SO2.product.r a b) = SO2.Ad.M a * SO2.Ad.M b := by cas_mat
theorem Ad_inv (a : ℝ) : SO2.Ad.M (SO2.inverse.r a) * SO2.Ad.M a = 1 := by cas_mat
end SO2

namespace SE2
theorem Ad_conj (a y : Fin 3 → ℝ) :
    se2.toMatrix.M_mat ((SE2.Ad.M_mat a).mulVec y) * SE2.toMatrix.M_mat a
      = SE2.toMatrix.M_mat a * se2.toMatrix.M_mat y := by
  mat_entries <;> cas_mat <;> ring
theorem Ad_hom (a b : Fin 3 → ℝ) :
    SE2.Ad.M_mat (SE2.product.r_vec a b) = SE2.Ad.M_mat a * SE2.Ad.M_mat b := by
  mat_entries <;>
    simp [cas_defs, cas_real, Matrix.mul_apply, Fin.sum_univ_succ, Real.cos_add, Real.sin_add] <;> ring
theorem Ad_inv (a : Fin 3 → ℝ) : SE2.Ad.M_mat (SE2.inverse.r_vec a) * SE2.Ad.M_mat a = 1 := by
  have h := Real.sin_sq_add_cos_sq (a 2)
  mat_entries <;> cas_mat <;>
    linarith [h, congrArg (fun t => a 0 * t) h, congrArg (fun t => a 1 * t) h]
end SE2

namespace R3
theorem Ad_conj (a y : Fin 3 → ℝ) :
    r3.toMatrix.M_mat ((R3.Ad.M_mat a).mulVec y) * R3.toMatrix.M_mat a
      = R3.toMatrix.M_mat a * r3.toMatrix.M_mat y := by
  mat_entries <;> cas_mat
theorem Ad_hom (a b : Fin 3 → ℝ) :
    R3.Ad.M_mat (R3.product.r_vec a b) = R3.Ad.M_mat a * R3.Ad.M_mat b := by
  mat_entries <;> cas_mat
end R3

namespace R2
theorem Ad_conj (a y : Fin 2 → ℝ) :
    r2.toMatrix.M_mat ((R2.Ad.M_mat a).mulVec y) * R2.toMatrix.M_mat a
      = R2.toMatrix.M_mat a * r2.toMatrix.M_mat y := by
  mat_entries <;> cas_mat
theorem Ad_hom (a b : Fin 2 → ℝ) :
    R2.Ad.M_mat (R2.product.r_vec a b) = R2.Ad.M_mat a * R2.Ad.M_mat b := by
  mat_entries <;> cas_mat
end R2

namespace SO3Quat
theorem Ad_spec (a : Fin 4 → ℝ) : SO3Quat.Ad.M_mat a = qmat a := by
  mat_entries <;> simp [cas_defs, cas_real, qmat] <;> ring
theorem toMatrix_spec (a : Fin 4 → ℝ) : SO3Quat.toMatrix.M_mat a = qmat a := by
  mat_entries <;> simp [cas_defs, cas_real, qmat] <;> ring
theorem product_spec (a b : Fin 4 → ℝ) : SO3Quat.product.r_vec a b = qmul a b := by
  funext i; fin_cases i <;> simp [cas_defs, cas_real, qmul] <;> (try ring1)
theorem inverse_spec (a : Fin 4 → ℝ) : SO3Quat.inverse.r_vec a = qconj a := by
  funext i; fin_cases i <;> simp [cas_defs, cas_real, qconj] <;> (try ring1)
theorem Ad_conj (a : Fin 4 → ℝ) (h : qnormSq a = 1) (y : Fin 3 → ℝ) :
    so3.toMatrix.M_mat ((SO3Quat.Ad.M_mat a).mulVec y) * SO3Quat.toMatrix.M_mat a
      = SO3Quat.toMatrix.M_mat a * so3.toMatrix.M_mat y := by
  rw [Ad_spec, toMatrix_spec, C04.so3.toMatrix_spec, C04.so3.toMatrix_spec]
  exact hat_qmat_mulVec_unit a h y
theorem Ad_hom (a b : Fin 4 → ℝ) :
    SO3Quat.Ad.M_mat (SO3Quat.product.r_vec a b) = SO3Quat.Ad.M_mat a * SO3Quat.Ad.M_mat b := by
  rw [Ad_spec, Ad_spec, Ad_spec, product_spec, qmat_mul]
theorem Ad_inv (a : Fin 4 → ℝ) (h : qnormSq a = 1) :
    SO3Quat.Ad.M_mat (SO3Quat.inverse.r_vec a) * SO3Quat.Ad.M_mat a = 1 := by
  rw [Ad_spec, Ad_spec, inverse_spec, qmat_conj_mul, h]; simp
end SO3Quat

namespace SO3Mrp
theorem Ad_spec (a : Fin 3 → ℝ) : SO3Mrp.Ad.M_mat a = mrpMat a := by
  have h : (1 + (a 0 * a 0 + a 1 * a 1 + a 2 * a 2)) ≠ 0 := by
    nlinarith [mul_self_nonneg (a 0), mul_self_nonneg (a 1), mul_self_nonneg (a 2)]
  have h' : (1 + (a 0 ^ 2 + a 1 ^ 2 + a 2 ^ 2)) ≠ 0 := by positivity
  mat_entries <;> simp [cas_defs, cas_real, mrpMat, qmat, mrpQ, nsq] <;> field_simp <;> ring
theorem toMatrix_spec (a : Fin 3 → ℝ) : SO3Mrp.toMatrix.M_mat a = mrpMat a := by
  have h : (1 + (a 0 * a 0 + a 1 * a 1 + a 2 * a 2)) ≠ 0 := by
    nlinarith [mul_self_nonneg (a 0), mul_self_nonneg (a 1), mul_self_nonneg (a 2)]
  have h' : (1 + (a 0 ^ 2 + a 1 ^ 2 + a 2 ^ 2)) ≠ 0 := by positivity
  mat_entries <;> simp [cas_defs, cas_real, mrpMat, qmat, mrpQ, nsq] <;> field_simp <;> ring
theorem product_spec (a b : Fin 3 → ℝ) : SO3Mrp.product.r_vec a b = mrpMul a b := by
  funext i; fin_cases i <;>
    simp [cas_defs, cas_real, mrpMul, mrpNum, mrpDen, nsq, dot3, cross] <;> ring
theorem inverse_spec (a : Fin 3 → ℝ) : SO3Mrp.inverse.r_vec a = -a := by
  funext i; fin_cases i <;> simp [cas_defs, cas_real] <;> (try ring1)
theorem Ad_conj (a y : Fin 3 → ℝ) :
    so3.toMatrix.M_mat ((SO3Mrp.Ad.M_mat a).mulVec y) * SO3Mrp.toMatrix.M_mat a
      = SO3Mrp.toMatrix.M_mat a * so3.toMatrix.M_mat y := by
  rw [Ad_spec, toMatrix_spec, C04.so3.toMatrix_spec, C04.so3.toMatrix_spec]
  exact hat_mrpMat_mulVec a y
theorem Ad_hom (a b : Fin 3 → ℝ) (h : mrpDen a b ≠ 0) :
    SO3Mrp.Ad.M_mat (SO3Mrp.product.r_vec a b) = SO3Mrp.Ad.M_mat a * SO3Mrp.Ad.M_mat b := by
  rw [Ad_spec, Ad_spec, Ad_spec, product_spec, mrpMat_mul a b h]
theorem Ad_inv (a : Fin 3 → ℝ) :
    SO3Mrp.Ad.M_mat (SO3Mrp.inverse.r_vec a) * SO3Mrp.Ad.M_mat a = 1 := by
  rw [Ad_spec, Ad_spec, inverse_spec, mrpMat_neg_mul]
end SO3Mrp

namespace SO3Dcm
theorem Ad_spec (a : Fin 9 → ℝ) : SO3Dcm.Ad.M_mat a = SO3Dcm.toMatrix.M_mat a := by
  mat_entries <;> simp [cas_defs, cas_real] <;> (try ring1)
/-- for every orthonormal DCM of determinant one -/
theorem Ad_conj (a : Fin 9 → ℝ)
    (ho : (SO3Dcm.toMatrix.M_mat a).transpose * SO3Dcm.toMatrix.M_mat a = 1)
    (hd : (SO3Dcm.toMatrix.M_mat a).det = 1) (y : Fin 3 → ℝ) :
    so3.toMatrix.M_mat ((SO3Dcm.Ad.M_mat a).mulVec y) * SO3Dcm.toMatrix.M_mat a
      = SO3Dcm.toMatrix.M_mat a * so3.toMatrix.M_mat y := by
  rw [Ad_spec, C04.so3.toMatrix_spec, C04.so3.toMatrix_spec]
  exact hatConj_of_orthogonal _ ho hd y
theorem Ad_hom (a b : Fin 9 → ℝ) :
    SO3Dcm.Ad.M_mat (SO3Dcm.product.r_vec a b) = SO3Dcm.Ad.M_mat a * SO3Dcm.Ad.M_mat b := by
  mat_entries <;> cas_mat <;> ring
end SO3Dcm

namespace SE3Quat
def rot (a : Fin 7 → ℝ) : Fin 4 → ℝ := ![a 3, a 4, a 5, a 6]
def tr (a : Fin 7 → ℝ) : Fin 3 → ℝ := ![a 0, a 1, a 2]
theorem Ad_conj (a : Fin 7 → ℝ) (h : qnormSq (rot a) = 1) (y : Fin 6 → ℝ) :
    se3.toMatrix.M_mat ((SE3Quat.Ad.M_mat a).mulVec y) * SE3Quat.toMatrix.M_mat a
      = SE3Quat.toMatrix.M_mat a * se3.toMatrix.M_mat y := by
  have L := hat_qmat_mulVec_unit (rot a) h ![y 3, y 4, y 5]
  have e := fun i j => congrFun (congrFun L i) j
  have e00 := e 0 0; have e01 := e 0 1; have e02 := e 0 2
  have e10 := e 1 0; have e11 := e 1 1; have e12 := e 1 2
  have e20 := e 2 0; have e21 := e 2 1; have e22 := e 2 2
  simp [hat, qmat, rot, Matrix.mul_apply, Matrix.mulVec, dotProduct, Fin.sum_univ_succ]
    at e00 e01 e02 e10 e11 e12 e20 e21 e22
  mat_entries <;> cas_mat <;>
    first
    | ring1
    | linear_combination e00 | linear_combination e01 | linear_combination e02
    | linear_combination e10 | linear_combination e11 | linear_combination e12
    | linear_combination e20 | linear_combination e21 | linear_combination e22
theorem Ad_spec (a : Fin 7 → ℝ) : SE3Quat.Ad.M_mat a = se3AdMat (qmat (rot a)) (tr a) := by
  mat_entries <;>
    simp [cas_defs, cas_real, se3AdMat, finSumFinEquiv, Fin.addCases, qmat, hat, rot, tr,
      Matrix.mul_apply, Fin.sum_univ_succ] <;> ring
theorem product_rot (a b : Fin 7 → ℝ) : rot (SE3Quat.product.r_vec a b) = qmul (rot a) (rot b) := by
  funext i; fin_cases i <;> simp [cas_defs, cas_real, rot, qmul] <;> (try ring1)
theorem product_tr (a b : Fin 7 → ℝ) :
    tr (SE3Quat.product.r_vec a b) = (qmat (rot a)).mulVec (tr b) + tr a := by
  funext i; fin_cases i <;>
    simp [cas_defs, cas_real, rot, tr, qmat, Matrix.mulVec, dotProduct, Fin.sum_univ_succ] <;> ring
theorem Ad_hom (a b : Fin 7 → ℝ) (h : qnormSq (rot a) = 1) :
    SE3Quat.Ad.M_mat (SE3Quat.product.r_vec a b) = SE3Quat.Ad.M_mat a * SE3Quat.Ad.M_mat b := by
  rw [Ad_spec, Ad_spec, Ad_spec, se3AdMat_mul _ _ _ _ (hatConj_qmat _ h), product_rot, product_tr, qmat_mul]
end SE3Quat

namespace SE3Mrp
def rot (a : Fin 6 → ℝ) : Fin 3 → ℝ := ![a 3, a 4, a 5]
def tr (a : Fin 6 → ℝ) : Fin 3 → ℝ := ![a 0, a 1, a 2]
theorem Ad_conj (a : Fin 6 → ℝ) (y : Fin 6 → ℝ) :
    se3.toMatrix.M_mat ((SE3Mrp.Ad.M_mat a).mulVec y) * SE3Mrp.toMatrix.M_mat a
      = SE3Mrp.toMatrix.M_mat a * se3.toMatrix.M_mat y := by
  have h : (1 + (a 3 * a 3 + a 4 * a 4 + a 5 * a 5)) ≠ 0 := by
    nlinarith [mul_self_nonneg (a 3), mul_self_nonneg (a 4), mul_self_nonneg (a 5)]
  have h' : (1 + (a 3 ^ 2 + a 4 ^ 2 + a 5 ^ 2)) ≠ 0 := by positivity
  mat_entries <;> cas_mat <;> field_simp <;> ring
theorem Ad_spec (a : Fin 6 → ℝ) : SE3Mrp.Ad.M_mat a = se3AdMat (mrpMat (rot a)) (tr a) := by
  have h : (1 + (a 3 * a 3 + a 4 * a 4 + a 5 * a 5)) ≠ 0 := by
    nlinarith [mul_self_nonneg (a 3), mul_self_nonneg (a 4), mul_self_nonneg (a 5)]
  have h' : (1 + (a 3 ^ 2 + a 4 ^ 2 + a 5 ^ 2)) ≠ 0 := by positivity
  mat_entries <;>
    simp [cas_defs, cas_real, se3AdMat, finSumFinEquiv, Fin.addCases, mrpMat, qmat, mrpQ, nsq, hat, rot, tr,
      Matrix.mul_apply, Fin.sum_univ_succ] <;> field_simp <;> ring
theorem product_rot (a b : Fin 6 → ℝ) :
    rot (SE3Mrp.product.r_vec a b) = mrpMul (rot a) (rot b) := by
  funext i; fin_cases i <;>
    simp [cas_defs, cas_real, rot, mrpMul, mrpNum, mrpDen, nsq, dot3, cross] <;> ring
theorem product_tr (a b : Fin 6 → ℝ) :
    tr (SE3Mrp.product.r_vec a b) = (mrpMat (rot a)).mulVec (tr b) + tr a := by
  have h : (1 + (a 3 * a 3 + a 4 * a 4 + a 5 * a 5)) ≠ 0 := by
    nlinarith [mul_self_nonneg (a 3), mul_self_nonneg (a 4), mul_self_nonneg (a 5)]
  have h' : (1 + (a 3 ^ 2 + a 4 ^ 2 + a 5 ^ 2)) ≠ 0 := by positivity
  funext i; fin_cases i <;>
    simp [cas_defs, cas_real, rot, tr, mrpMat, qmat, mrpQ, nsq] <;> field_simp <;> ring
theorem Ad_hom (a b : Fin 6 → ℝ) (h : mrpDen (rot a) (rot b) ≠ 0) :
    SE3Mrp.Ad.M_mat (SE3Mrp.product.r_vec a b) = SE3Mrp.Ad.M_mat a * SE3Mrp.Ad.M_mat b := by
  rw [Ad_spec, Ad_spec, Ad_spec, se3AdMat_mul _ _ _ _ (hatConj_mrpMat _), product_rot, product_tr,
    mrpMat_mul _ _ h]
end SE3Mrp

namespace SE23Mrp
theorem Ad_conj (a : Fin 9 → ℝ) (y : Fin 9 → ℝ) :
    se23.toMatrix.M_mat ((SE23Mrp.Ad.M_mat a).mulVec y) * SE23Mrp.toMatrix.M_mat a
      = SE23Mrp.toMatrix.M_mat a * se23.toMatrix.M_mat y := by
  have h : (1 + (a 6 * a 6 + a 7 * a 7 + a 8 * a 8)) ≠ 0 := by
    nlinarith [mul_self_nonneg (a 6), mul_self_nonneg (a 7), mul_self_nonneg (a 8)]
  have h' : (1 + (a 6 ^ 2 + a 7 ^ 2 + a 8 ^ 2)) ≠ 0 := by positivity
  mat_entries <;> cas_mat <;> field_simp <;> ring
end SE23Mrp

namespace SE23Quat
def rot (a : Fin 10 → ℝ) : Fin 4 → ℝ := ![a 6, a 7, a 8, a 9]
theorem Ad_conj (a : Fin 10 → ℝ) (h : qnormSq (rot a) = 1) (y : Fin 9 → ℝ) :
    se23.toMatrix.M_mat ((SE23Quat.Ad.M_mat a).mulVec y) * SE23Quat.toMatrix.M_mat a
      = SE23Quat.toMatrix.M_mat a * se23.toMatrix.M_mat y := by
  have L := hat_qmat_mulVec_unit (rot a) h ![y 6, y 7, y 8]
  have e := fun i j => congrFun (congrFun L i) j
  have e00 := e 0 0; have e01 := e 0 1; have e02 := e 0 2
  have e10 := e 1 0; have e11 := e 1 1; have e12 := e 1 2
  have e20 := e 2 0; have e21 := e 2 1; have e22 := e 2 2
  simp [hat, qmat, rot, Matrix.mul_apply, Matrix.mulVec, dotProduct, Fin.sum_univ_succ]
    at e00 e01 e02 e10 e11 e12 e20 e21 e22
  mat_entries <;> cas_mat <;>
    first
    | ring1
    | linear_combination e00 | linear_combination e01 | linear_combination e02
    | linear_combination e10 | linear_combination e11 | linear_combination e12
    | linear_combination e20 | linear_combination e21 | linear_combination e22
end SE23Quat

end C04
