/-
  Props/C20.lean — the simulation bus and the estimator node's rate limits: theorems about the hand model
  lean/Model/Bus.lean, for ALL operation histories (induction over the operation list).
  The model is tied to cyecca/sim/uros.py and estimator.py by the differential runs of harness/props/C20.py.
-/
import Model.Bus
import Mathlib.Tactic.Linarith
import Mathlib.Data.List.Basic

set_option linter.unusedSimpArgs false
open Bus

namespace C20

/-! ### fan-out of one publication -/

/-- a message of the declared type is delivered to exactly the subscribers of its topic, once each, in subscription
    order, appended to what was delivered before; topology untouched -/
theorem publish_fanout (s : St) (topic ty : String) (p : Int) (h : s.pubs.lookup topic = some ty) :
    (step s (.publish topic ty p)).2 = .ok
    ∧ (step s (.publish topic ty p)).1.inbox = s.inbox ++ (subsOf s topic).map (fun u => (u, topic, p))
    ∧ (step s (.publish topic ty p)).1.subs = s.subs ∧ (step s (.publish topic ty p)).1.pubs = s.pubs := by
  simp only [step, h]
  simp only [ne_eq, not_true_eq_false, if_false, deliver]
  split <;> simp [subsOf]

/-- a message of the wrong type is rejected and nothing at all changes -/
theorem publish_wrong_type (s : St) (topic ty ty' : String) (p : Int) (h : s.pubs.lookup topic = some ty') (hne : ty' ≠ ty) :
    step s (.publish topic ty p) = (s, .error "ValueError") := by
  simp [step, h, hne]

/-- the inbox of a publication only ever contains subscribers of that topic -/
theorem deliver_inbox (s : St) (topic : String) (p : Int) :
    (deliver s topic p).inbox = s.inbox ++ (subsOf s topic).map (fun u => (u, topic, p)) ∧ (deliver s topic p).subs = s.subs := by
  simp only [deliver]; split <;> simp [subsOf]

/-! ### "to no one else": every delivery ever made went to a subscriber of that topic (all histories) -/

def InboxOk (s : St) : Prop := ∀ e ∈ s.inbox, (e.2.1, e.1) ∈ s.subs

theorem mem_subsOf {s : St} {topic : String} {u : Nat} (h : u ∈ subsOf s topic) : (topic, u) ∈ s.subs := by
  simp only [subsOf, List.mem_map, List.mem_filter, decide_eq_true_eq] at h
  obtain ⟨⟨t, v⟩, ⟨hm, ht⟩, hv⟩ := h
  simp only at ht hv; subst ht; subst hv; exact hm

theorem deliver_ok (s : St) (topic : String) (p : Int) (h : InboxOk s) : InboxOk (deliver s topic p) := by
  intro e he
  obtain ⟨hi, hs⟩ := deliver_inbox s topic p
  rw [hi] at he; rw [hs]
  rcases List.mem_append.mp he with h1 | h2
  · exact h e h1
  · simp only [List.mem_map] at h2
    obtain ⟨u, hu, rfl⟩ := h2
    exact mem_subsOf hu

theorem inboxOk_congr {s s' : St} (hi : s'.inbox = s.inbox) (hs : s'.subs = s.subs) (h : InboxOk s) : InboxOk s' := by
  intro e he; rw [hi] at he; rw [hs]; exact h e he

theorem broadcast_ok (s : St) (c : List (String × Int)) (h : InboxOk s) : InboxOk (broadcast s c) := by
  have := deliver_ok { s with core := some c } "params" 0 h
  exact inboxOk_congr (s := deliver { s with core := some c } "params" 0) rfl rfl this

theorem ticks_inbox (fuel : Nat) (t : Int) (s : St) : (ticks fuel t s).inbox = s.inbox ∧ (ticks fuel t s).subs = s.subs := by
  induction fuel generalizing s with
  | zero => simp [ticks]
  | succ n ih =>
    simp only [ticks]
    split
    · obtain ⟨a, b⟩ := ih { s with rows := _, nextTick := _ }
      exact ⟨a, b⟩
    · exact ⟨rfl, rfl⟩

theorem step_ok (s : St) (op : Op) (h : InboxOk s) : InboxOk (step s op).1 := by
  cases op with
  | advertise topic ty => simp only [step]; split; exact h; split; exact h; exact h
  | subscribe topic id =>
      simp only [step]; split; exact h
      intro e he; exact List.mem_append_left _ (h e he)
  | publish topic ty p =>
      simp only [step]; split; exact h; split; exact h; exact deliver_ok _ _ _ h
  | declare node name d => simp only [step]; split; exact h; split; exact h; exact h
  | initParams => exact h
  | setParam name v =>
      simp only [step]; split; exact h; split; exact h
      exact broadcast_ok _ _ h
  | startLogger => simp only [step]; split; exact h; split; exact h; exact h
  | runUntil t =>
      simp only [step]
      generalize coreOrInit s = c
      have hb := broadcast_ok s c h
      by_cases ht : t ≤ (broadcast s c).now
      · simp only [ht, if_true]; exact hb
      · simp only [ht, if_false]
        by_cases hl : (broadcast s c).logging = true
        · simp only [hl, if_true]
          have := ticks_inbox (t - (broadcast s c).nextTick).toNat.succ t (broadcast s c)
          exact inboxOk_congr (s := broadcast s c) this.1 this.2 hb
        · simp only [hl]
          exact inboxOk_congr (s := broadcast s c) rfl rfl hb

/-- for every history from the initial state: each delivery went to a subscriber of its topic -/
theorem no_one_else (ops : List Op) : InboxOk (run {} ops).1 := by
  have gen : ∀ (ops : List Op) (s : St), InboxOk s → InboxOk (run s ops).1 := by
    intro ops
    induction ops with
    | nil => intro s h; exact h
    | cons op ops ih => intro s h; simp only [run]; exact ih _ (step_ok s op h)
  exact gen ops {} (by intro e he; simp at he)

/-! ### exactly once and in publication order, for every sequence of publications on a fixed topology -/

def accepted (s : St) (m : String × String × Int) : Bool := s.pubs.lookup m.1 == some m.2.1

def pubOps (ms : List (String × String × Int)) : List Op := ms.map fun m => .publish m.1 m.2.1 m.2.2

theorem publications_in_order (ms : List (String × String × Int)) (s : St) :
    (run s (pubOps ms)).1.inbox
      = s.inbox ++ (ms.filter (accepted s)).flatMap (fun m => (subsOf s m.1).map (fun u => (u, m.1, m.2.2)))
    ∧ (run s (pubOps ms)).1.subs = s.subs ∧ (run s (pubOps ms)).1.pubs = s.pubs := by
  induction ms generalizing s with
  | nil => simp [pubOps, run]
  | cons m ms ih =>
    obtain ⟨topic, ty, p⟩ := m
    simp only [pubOps, List.map_cons, run]
    cases hl : s.pubs.lookup topic with
    | none =>
      have e : step s (.publish topic ty p) = (s, .error "no-publisher") := by simp [step, hl]
      rw [e]
      have := ih s
      simp only [pubOps] at this
      simp [this, accepted, hl]
    | some t =>
      by_cases ht : t = ty
      · subst ht
        obtain ⟨_, hi, hs, hp⟩ := publish_fanout s topic t p hl
        have := ih (step s (.publish topic t p)).1
        simp only [pubOps] at this
        obtain ⟨a, b, c⟩ := this
        refine ⟨?_, by rw [b, hs], by rw [c, hp]⟩
        rw [a, hi]
        have hsub : ∀ T, subsOf (step s (.publish topic t p)).1 T = subsOf s T := by intro T; simp [subsOf, hs]
        have hacc : accepted (step s (.publish topic t p)).1 = accepted s := by funext m; simp [accepted, hp]
        have h1 : accepted s (topic, t, p) = true := by simp [accepted, hl]
        rw [hacc, List.filter_cons, if_pos h1, List.flatMap_cons]
        simp [hsub, List.append_assoc]
      · have e : step s (.publish topic ty p) = (s, .error "ValueError") := publish_wrong_type s topic ty t p hl ht
        rw [e]
        have := ih s
        simp only [pubOps] at this
        have hne : (some t == some ty) = false := by simp [ht]
        simp [this, accepted, hl, hne, List.filter_cons]

/-! ### the logger's lock freezes the topology -/
theorem locked_rejects (s : St) (h : s.locked = true) (topic ty : String) (id node : Nat) (name : String) (d : Int) :
    step s (.advertise topic ty) = (s, .error "AssertionError") ∧ step s (.subscribe topic id) = (s, .error "AssertionError")
    ∧ step s (.declare node name d) = (s, .error "AssertionError") ∧ step s .startLogger = (s, .error "AssertionError") := by
  simp [step, h]

theorem startLogger_locks (s : St) (h : (step s .startLogger).2 = .ok) : (step s .startLogger).1.locked = true := by
  simp only [step] at h ⊢
  split at h <;> try (simp at h)
  split at h <;> try (simp at h)
  rename_i h1 h2
  simp [h1, h2]

/-! ### parameters -/
theorem setKey_lookup (k : String) (v : Int) (l : List (String × Int)) : (setKey k v l).lookup k = some v := by
  induction l with
  | nil => simp [setKey, List.lookup]
  | cons a t ih =>
    obtain ⟨k', v'⟩ := a
    simp only [setKey]
    by_cases h : k' = k
    · simp [h, List.lookup]
    · have : (k == k') = false := by simp [Ne.symm h]
      simp [h, List.lookup, this, ih]

/-- after an accepted `set_param name v` every node that follows the parameter topic holds v in each of its
    parameters called `name`; parameters of nodes that do not follow it are untouched -/
theorem setParam_seen (s : St) (name : String) (v : Int) (c : List (String × Int)) (hc : s.core = some c)
    (hd : (c.lookup name).isSome) :
    let s' := (step s (.setParam name v)).1
    (step s (.setParam name v)).2 = .ok
    ∧ s'.core = some (setKey name v c)
    ∧ s'.cache = s.cache.map (fun e => if (followers s).contains e.1 then (e.1, e.2.1, ((setKey name v c).lookup e.2.1).getD e.2.2) else e)
    ∧ ∀ e ∈ s'.cache, (followers s).contains e.1 = true → e.2.1 = name → e.2.2 = v := by
  have hn : ¬ (c.lookup name).isNone = true := by
    cases hl : c.lookup name with
    | none => simp [hl] at hd
    | some x => simp
  have hf : followers (deliver { s with core := some (setKey name v c) } "params" 0) = followers s := by
    simp only [followers, deliver]; split <;> simp [subsOf]
  have hcache : (deliver { s with core := some (setKey name v c) } "params" 0).cache = s.cache := by
    simp only [deliver]; split <;> rfl
  have hcore : (deliver { s with core := some (setKey name v c) } "params" 0).core = some (setKey name v c) := by
    simp only [deliver]; split <;> rfl
  have hstep : step s (.setParam name v) = (broadcast s (setKey name v c), .ok) := by
    simp [step, hc, hn]
  have hcache' : (broadcast s (setKey name v c)).cache
      = s.cache.map (fun e => if (followers s).contains e.1 then (e.1, e.2.1, ((setKey name v c).lookup e.2.1).getD e.2.2) else e) := by
    simp only [broadcast, refresh, hf, hcache]
  refine ⟨by rw [hstep], by rw [hstep]; simp only [broadcast]; exact hcore, by rw [hstep]; exact hcache', ?_⟩
  intro e he hfol hname
  rw [hstep] at he
  simp only at he
  rw [hcache'] at he
  simp only [List.mem_map] at he
  obtain ⟨⟨n, nm, x⟩, _, rfl⟩ := he
  by_cases hc' : (followers s).contains n = true
  · simp only [hc', if_true] at hname ⊢
    subst hname
    simp [setKey_lookup]
  · exfalso
    simp only [hc'] at hfol
    exact hc' (by simpa using hfol)

/-! ### logger rows -/
/-- each wake-up of the logger appends exactly one row: its time stamp and the latest message of every topic -/
theorem tick_row (fuel : Nat) (t : Int) (s : St) (h : s.nextTick < t) :
    ∃ dt, ticks (fuel + 1) t s = ticks fuel t { s with rows := s.rows ++ [(s.nextTick, s.latest)], nextTick := s.nextTick + dt } := by
  simp only [ticks, h, if_true]
  exact ⟨_, rfl⟩

/-- the rows written during one `run(until=t)` carry non-decreasing (indeed increasing) times when the period is positive -/
def RowsLe (s : St) : Prop := s.rows.Pairwise (fun a b => a.1 ≤ b.1) ∧ ∀ r ∈ s.rows, r.1 ≤ s.nextTick

def period (s : St) : Int := ((s.cache.filter fun (n, nm, _) => n = loggerNode ∧ nm = "logger/dt").map (·.2.2)).headD 1

theorem ticks_sorted (fuel : Nat) (t : Int) (s : St) (hp : 0 ≤ period s) (h : RowsLe s) : RowsLe (ticks fuel t s) := by
  induction fuel generalizing s with
  | zero => exact h
  | succ n ih =>
    simp only [ticks]
    split
    · apply ih
      · exact hp
      · obtain ⟨hs, hb⟩ := h
        refine ⟨?_, ?_⟩
        · rw [List.pairwise_append]
          refine ⟨hs, by simp, ?_⟩
          intro a ha b hb'
          simp only [List.mem_singleton] at hb'
          subst hb'
          exact hb a ha
        · intro r hr
          have hp' : 0 ≤ ((s.cache.filter fun (n, nm, _) => n = loggerNode ∧ nm = "logger/dt").map (·.2.2)).headD 1 := hp
          rcases List.mem_append.mp hr with h1 | h2
          · have := hb r h1; simp only; linarith
          · simp only [List.mem_singleton] at h2; subst h2; simp only; linarith
    · exact h

/-- a delivery on a logged topic becomes that topic's latest entry -/
theorem deliver_latest (s : St) (topic : String) (p : Int) (hl : s.logging = true) (ht : s.logsubs.contains topic = true) :
    (deliver s topic p).latest.lookup topic = some p := by
  simp only [deliver, hl, ht, Bool.and_self, if_true]
  exact setKey_lookup topic p s.latest

/-! ### estimator node: never a non-positive prediction step; corrections no more often than their minimum
    periods minus the 1 ms tolerance — checked by an independent monitor that only sees the actions -/

structure Mon where
  lastA : Option Int := none
  lastM : Option Int := none

def check (dtA dtM : Int) : Mon → List Act → Option Mon
  | m, [] => some m
  | m, .predict _ dt :: r => if 0 < dt then check dtA dtM m r else none
  | m, .accel t :: r =>
      match m.lastA with
      | some p => if t - p ≥ dtA - timeEps then check dtA dtM { m with lastA := some t } r else none
      | none => check dtA dtM { m with lastA := some t } r
  | m, .mag t :: r =>
      match m.lastM with
      | some p => if t - p ≥ dtM - timeEps then check dtA dtM { m with lastM := some t } r else none
      | none => check dtA dtM { m with lastM := some t } r
  | m, _ :: r => check dtA dtM m r

def monitor : Node → Mon → List Msg → Bool
  | _, _, [] => true
  | n, m, x :: xs =>
      match check (nstep n x).1.dtMinAccel (nstep n x).1.dtMinMag m (nstep n x).2 with
      | none => false
      | some m' => monitor (nstep n x).1 m' xs

def Agree (n : Node) (m : Mon) : Prop :=
  (m.lastA = none ∨ m.lastA = some n.tAccel) ∧ (m.lastM = none ∨ m.lastM = some n.tMag)

theorem nstep_check (n : Node) (m : Mon) (x : Msg) (h : Agree n m) :
    ∃ m', check (nstep n x).1.dtMinAccel (nstep n x).1.dtMinMag m (nstep n x).2 = some m' ∧ Agree (nstep n x).1 m' := by
  obtain ⟨ha, hm⟩ := h
  cases x with
  | setDtMin a b => exact ⟨m, by simp [nstep, check], by simp [nstep, Agree, ha, hm]⟩
  | mag t =>
    simp only [nstep]
    split
    · exact ⟨m, by simp [check], ⟨ha, hm⟩⟩
    · rename_i hc
      simp only [Bool.or_eq_true, Bool.not_eq_true', decide_eq_true_eq, not_or, not_lt] at hc
      rcases hm with hm | hm
      · exact ⟨{ m with lastM := some t }, by simp [check, hm], ⟨ha, Or.inr rfl⟩⟩
      · refine ⟨{ m with lastM := some t }, ?_, ⟨ha, Or.inr rfl⟩⟩
        simp only [check, hm]
        have : t - n.tMag ≥ n.dtMinMag - timeEps := hc.2
        simp [this]
  | imu t ok =>
    simp only [nstep]
    split
    · split
      · split
        · exact ⟨m, by simp [check], ⟨ha, hm⟩⟩
        · exact ⟨m, by simp [check], ⟨ha, hm⟩⟩
      · exact ⟨m, by simp [check], ⟨ha, hm⟩⟩
    · split
      · exact ⟨m, by simp [check], ⟨ha, hm⟩⟩
      · rename_i hdt
        have hpos : 0 < t - n.tImu := by omega
        split
        · rename_i hacc
          rcases ha with ha | ha
          · exact ⟨{ m with lastA := some t }, by simp [check, ha]; omega, ⟨Or.inr rfl, hm⟩⟩
          · refine ⟨{ m with lastA := some t }, ?_, ⟨Or.inr rfl, hm⟩⟩
            simp only [check, hpos, if_true, ha]
            simp [hacc]
        · exact ⟨m, by simp [check]; omega, ⟨ha, hm⟩⟩

/-- for EVERY message history (any timing, out-of-order stamps, parameter updates in between) the monitor accepts -/
theorem monitor_ok (xs : List Msg) : ∀ (n : Node) (m : Mon), Agree n m → monitor n m xs = true := by
  induction xs with
  | nil => intro n m _; rfl
  | cons x xs ih =>
    intro n m h
    obtain ⟨m', hc, hag⟩ := nstep_check n m x h
    simp only [monitor, hc]
    exact ih _ _ hag

theorem predict_dt_pos (n : Node) (x : Msg) (t dt : Int) (h : Act.predict t dt ∈ (nstep n x).2) : 0 < dt := by
  cases x with
  | setDtMin a b => simp [nstep] at h
  | mag t' => simp only [nstep] at h; split at h <;> simp at h
  | imu t' ok =>
    simp only [nstep] at h
    split at h
    · split at h
      · split at h <;> simp at h
      · simp at h
    · split at h
      · simp at h
      · rename_i hdt
        split at h <;> simp at h <;> omega

theorem accel_spacing (n : Node) (x : Msg) (t : Int) (h : Act.accel t ∈ (nstep n x).2) :
    t - n.tAccel ≥ n.dtMinAccel - timeEps ∧ (nstep n x).1.tAccel = t := by
  cases x with
  | setDtMin a b => simp [nstep] at h
  | mag t' => simp only [nstep] at h; split at h <;> simp at h
  | imu t' ok =>
    simp only [nstep] at h ⊢
    split at h
    · split at h
      · split at h <;> simp at h
      · simp at h
    · split at h
      · simp at h
      · split at h
        · rename_i hacc
          simp at h; subst h
          simp [*]
        · simp at h

theorem mag_spacing (n : Node) (x : Msg) (t : Int) (h : Act.mag t ∈ (nstep n x).2) :
    t - n.tMag ≥ n.dtMinMag - timeEps ∧ (nstep n x).1.tMag = t := by
  cases x with
  | setDtMin a b => simp [nstep] at h
  | imu t' ok =>
    simp only [nstep] at h
    split at h
    · split at h
      · split at h <;> simp at h
      · simp at h
    · split at h
      · simp at h
      · split at h <;> simp at h
  | mag t' =>
    simp only [nstep] at h ⊢
    split at h
    · simp at h
    · rename_i hc
      have hc2 := hc
      simp only [Bool.or_eq_true, Bool.not_eq_true', decide_eq_true_eq, not_or, not_lt] at hc2
      simp at h; subst h
      refine ⟨hc2.2, ?_⟩
      rw [if_neg hc]

end C20
