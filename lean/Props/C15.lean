/-
  Props/C15.lean — controller saturations as invariants of the caller-fed recursions, stick maps,
  and the zero-error property of the attitude laws.
-/
import GenM.Ctrl
import GenM.RefP
import Props.C03
import Lib.Sat
import Lib.Rot
import Mathlib.Analysis.Real.Pi.Bounds

set_option maxHeartbeats 4000000
open Gen

namespace C15

/-! ## rate controller -/
section rate
variable (kp ki kd i_max om omr i0 e0 de0 : Fin 3 → ℝ) (f dt : ℝ)

/-- one step: the integrator output is the clamp of i0 + e dt to ±i_max, whatever the previous state -/
theorem integrator_bound_0 (h : 0 ≤ i_max 0) :
    |rdd2.attitude_rate_control.i1_0 kp ki kd f i_max om omr i0 e0 de0 dt| ≤ i_max 0 := by
  simp only [cas_defs, cas_real]; rw [abs_le]
  exact Sat.clamp_bounds (by linarith) _
theorem integrator_bound_1 (h : 0 ≤ i_max 1) :
    |rdd2.attitude_rate_control.i1_1 kp ki kd f i_max om omr i0 e0 de0 dt| ≤ i_max 1 := by
  simp only [cas_defs, cas_real]; rw [abs_le]
  exact Sat.clamp_bounds (by linarith) _
theorem integrator_bound_2 (h : 0 ≤ i_max 2) :
    |rdd2.attitude_rate_control.i1_2 kp ki kd f i_max om omr i0 e0 de0 dt| ≤ i_max 2 := by
  simp only [cas_defs, cas_real]; rw [abs_le]
  exact Sat.clamp_bounds (by linarith) _

/-- the derivative-filter coefficient lies strictly between 0 and 1 whenever dt·f_cut > 0 -/
theorem alpha_range (h : 0 < dt * f) :
    0 < rdd2.attitude_rate_control.alpha kp ki kd f i_max om omr i0 e0 de0 dt
      ∧ rdd2.attitude_rate_control.alpha kp ki kd f i_max om omr i0 e0 de0 dt < 1 := by
  simp only [cas_defs, cas_real]
  have hc : (0:ℝ) < 884279719003555 * 2 ^ (-47:ℤ) := by positivity
  have hx : 0 < 884279719003555 * (2:ℝ) ^ (-47:ℤ) * dt * f := by
    have : 884279719003555 * (2:ℝ) ^ (-47:ℤ) * dt * f = 884279719003555 * (2:ℝ) ^ (-47:ℤ) * (dt * f) := by ring
    rw [this]; positivity
  constructor
  · positivity
  · rw [div_lt_one (by linarith)]; linarith

/-- the moment command is kp e + ki i1 + kd de1 with the filtered derivative -/
theorem law_0 :
    rdd2.attitude_rate_control.M_0 kp ki kd f i_max om omr i0 e0 de0 dt
      = kp 0 * rdd2.attitude_rate_control.e1_0 kp ki kd f i_max om omr i0 e0 de0 dt
        + ki 0 * rdd2.attitude_rate_control.i1_0 kp ki kd f i_max om omr i0 e0 de0 dt
        + kd 0 * rdd2.attitude_rate_control.de1_0 kp ki kd f i_max om omr i0 e0 de0 dt
    ∧ rdd2.attitude_rate_control.e1_0 kp ki kd f i_max om omr i0 e0 de0 dt = omr 0 - om 0
    ∧ rdd2.attitude_rate_control.de1_0 kp ki kd f i_max om omr i0 e0 de0 dt
        = rdd2.attitude_rate_control.alpha kp ki kd f i_max om omr i0 e0 de0 dt * ((omr 0 - om 0 - e0 0) / dt)
          + (1 - rdd2.attitude_rate_control.alpha kp ki kd f i_max om omr i0 e0 de0 dt) * de0 0 := by
  refine ⟨?_, ?_, ?_⟩ <;> simp only [cas_defs, cas_real] <;> (try ring1)
end rate

/-- **invariant of the recursion**: after ANY non-empty sequence of steps, from ANY initial integrator
    state, with any measurements and step sizes, the integrator is within ±i_max -/
theorem integrator_invariant (kp ki kd i_max e0 de0 : Fin 3 → ℝ) (f : ℝ) (h : 0 ≤ i_max 0)
    (steps : List ((Fin 3 → ℝ) × (Fin 3 → ℝ) × ℝ)) (i_init : Fin 3 → ℝ) (hne : steps ≠ []) :
    |(steps.foldl (fun i s => fun k : Fin 3 =>
        if k = 0 then rdd2.attitude_rate_control.i1_0 kp ki kd f i_max s.1 s.2.1 i e0 de0 s.2.2
        else if k = 1 then rdd2.attitude_rate_control.i1_1 kp ki kd f i_max s.1 s.2.1 i e0 de0 s.2.2
        else rdd2.attitude_rate_control.i1_2 kp ki kd f i_max s.1 s.2.1 i e0 de0 s.2.2) i_init) 0| ≤ i_max 0 := by
  induction steps using List.reverseRecOn with
  | nil => exact absurd rfl hne
  | append_singleton l s _ =>
    rw [List.foldl_append]
    simp only [List.foldl_cons, List.foldl_nil, if_true]
    exact integrator_bound_0 kp ki kd i_max s.1 s.2.1 _ e0 de0 f s.2.2 h

/-! ## stick maps -/
theorem acro_linear (trim delta : ℝ) (st : Fin 4 → ℝ) :
    rdd2.input_acro.omega_0 trim delta st = 4716158501352293 * 2 ^ (-52:ℤ) * st 0
    ∧ rdd2.input_acro.omega_1 trim delta st = 4716158501352293 * 2 ^ (-52:ℤ) * st 1
    ∧ rdd2.input_acro.omega_2 trim delta st = 4716158501352293 * 2 ^ (-52:ℤ) * st 3
    ∧ rdd2.input_acro.thrust trim delta st = st 2 * delta + trim := by
  refine ⟨?_, ?_, ?_, ?_⟩ <;> simp only [cas_defs, cas_real] <;> (try ring1)

/-- the rate limit constant is 60°/s (as a double: within 1e-15 of π/3) and stick inputs in [-1,1] give
    bounded rate commands -/
theorem acro_bounded (trim delta : ℝ) (st : Fin 4 → ℝ) (h : |st 0| ≤ 1) :
    |rdd2.input_acro.omega_0 trim delta st| ≤ 4716158501352293 * 2 ^ (-52:ℤ) := by
  rw [(acro_linear trim delta st).1, abs_mul, abs_of_pos (by positivity)]
  calc 4716158501352293 * (2:ℝ) ^ (-52:ℤ) * |st 0| ≤ 4716158501352293 * (2:ℝ) ^ (-52:ℤ) * 1 := by
        apply mul_le_mul_of_nonneg_left h (by positivity)
    _ = _ := mul_one _

/-! ## velocity-mode input -/
section velocity
variable (dt psi : ℝ) (pwsp pw : Fin 3 → ℝ) (st : Fin 4 → ℝ) (reset : ℝ)

/-- the yaw set-point stays in [-π, π] for every previous value, stick and step -/
theorem yaw_wrapped :
    |rdd2.input_velocity.psi_sp1 dt psi pwsp pw st reset| ≤ Real.pi := by
  simp only [cas_defs, cas_real]
  have hy : (0:ℝ) < 884279719003555 * 2 ^ (-47:ℤ) := by positivity
  have h := Sat.abs_remainder_le (psi + 4716158501352293 * 2 ^ (-52:ℤ) * st 3 * dt) _ hy
  have hpi : (884279719003555 * (2:ℝ) ^ (-47:ℤ)) / 2 ≤ Real.pi := by
    have := Real.pi_gt_d20
    have e : (884279719003555 * (2:ℝ) ^ (-47:ℤ)) / 2 < 3.14159265358979323846 := by norm_num
    linarith
  exact le_trans h hpi

/-- the position set-point is never farther than 2 m from the vehicle -/
theorem leash :
    (rdd2.input_velocity.pw_sp1_0 dt psi pwsp pw st reset - pw 0) ^ 2
      + (rdd2.input_velocity.pw_sp1_1 dt psi pwsp pw st reset - pw 1) ^ 2
      + (rdd2.input_velocity.pw_sp1_2 dt psi pwsp pw st reset - pw 2) ^ 2 ≤ 2 ^ 2 := by
  simp only [cas_defs, cas_real]
  exact Sat.leash _ _ _ _ _ _ 2 (by norm_num)

/-- a reset puts the set-point on the vehicle -/
theorem reset_on_vehicle (h : reset ≠ 0) :
    rdd2.input_velocity.pw_sp1_0 dt psi pwsp pw st reset = pw 0
    ∧ rdd2.input_velocity.pw_sp1_1 dt psi pwsp pw st reset = pw 1
    ∧ rdd2.input_velocity.pw_sp1_2 dt psi pwsp pw st reset = pw 2 := by
  refine ⟨?_, ?_, ?_⟩ <;> simp [cas_defs, cas_real, h] <;> (try ring1)
end velocity

/-! ## attitude law: zero exactly when measured and reference attitude are the same rotation (q_r = ±q) -/
theorem attitude_zero_same (kp : Fin 3 → ℝ) (q : Fin 4 → ℝ) :
    rdd2.attitude_control.omega_0 kp q q = 0 ∧ rdd2.attitude_control.omega_1 kp q q = 0
      ∧ rdd2.attitude_control.omega_2 kp q q = 0 := by
  refine ⟨?_, ?_, ?_⟩ <;> simp only [cas_defs, cas_real] <;> ring_nf <;> simp
theorem attitude_zero_neg (kp : Fin 3 → ℝ) (q : Fin 4 → ℝ) :
    rdd2.attitude_control.omega_0 kp q (-q) = 0 ∧ rdd2.attitude_control.omega_1 kp q (-q) = 0
      ∧ rdd2.attitude_control.omega_2 kp q (-q) = 0 := by
  refine ⟨?_, ?_, ?_⟩ <;> simp only [cas_defs, cas_real, Pi.neg_apply] <;> ring_nf <;> simp


/-! ## position: the feedback part of the demanded force (T minus trim and height-integrator terms) never exceeds 30 % of the
    weight, whatever the errors; it IS the unsaturated feedback when that is within the limit; the height integrator stays
    within its limit (the shipped limit is 0).  `P` = feedback before saturation, exposed by a probe of the real body. -/
section position
variable (thrust_trim : ℝ) (pt_w vt_w at_w : Fin 3 → ℝ) (qc_wb : Fin 4 → ℝ) (p_w v_w : Fin 3 → ℝ) (z_i dt : ℝ)
variable (P0 P1 P2 T0 T1 T2 yt y0 y1 y2 : ℝ) (d00 d10 d20 d01 d11 d21 d02 d12 d22 : ℝ)

theorem position_feedback_cut :
    (rdd2.position_control_p.T_0_cut thrust_trim pt_w vt_w at_w qc_wb p_w v_w z_i dt P0 P1 P2 T0 T1 T2 yt y0 y1 y2 d00 d10 d20 d01 d11 d21 d02 d12 d22) ^ 2
    + (rdd2.position_control_p.T_1_cut thrust_trim pt_w vt_w at_w qc_wb p_w v_w z_i dt P0 P1 P2 T0 T1 T2 yt y0 y1 y2 d00 d10 d20 d01 d11 d21 d02 d12 d22) ^ 2
    + (rdd2.position_control_p.T_2_cut thrust_trim pt_w vt_w at_w qc_wb p_w v_w z_i dt P0 P1 P2 T0 T1 T2 yt y0 y1 y2 d00 d10 d20 d01 d11 d21 d02 d12 d22
        - thrust_trim - 3602879701896397 * 2 ^ (-56:ℤ) * z_i) ^ 2
    ≤ ((3707363213251393:ℝ) * 2 ^ (-49:ℤ)) ^ 2 := by
  have h := Sat.leash 0 0 0 P0 P1 P2 ((3707363213251393:ℝ) * 2 ^ (-49:ℤ)) (by positivity)
  simp only [cas_defs, cas_real]
  refine le_trans (le_of_eq ?_) h
  split_ifs <;> ring

theorem position_feedback_id_cut (h : Real.sqrt (P0 * P0 + P1 * P1 + P2 * P2) ≤ (3707363213251393:ℝ) * 2 ^ (-49:ℤ)) :
    rdd2.position_control_p.T_0_cut thrust_trim pt_w vt_w at_w qc_wb p_w v_w z_i dt P0 P1 P2 T0 T1 T2 yt y0 y1 y2 d00 d10 d20 d01 d11 d21 d02 d12 d22 = P0
    ∧ rdd2.position_control_p.T_1_cut thrust_trim pt_w vt_w at_w qc_wb p_w v_w z_i dt P0 P1 P2 T0 T1 T2 yt y0 y1 y2 d00 d10 d20 d01 d11 d21 d02 d12 d22 = P1
    ∧ rdd2.position_control_p.T_2_cut thrust_trim pt_w vt_w at_w qc_wb p_w v_w z_i dt P0 P1 P2 T0 T1 T2 yt y0 y1 y2 d00 d10 d20 d01 d11 d21 d02 d12 d22 = P2 + thrust_trim + 3602879701896397 * 2 ^ (-56:ℤ) * z_i := by
  have h' := not_lt.mpr h
  refine ⟨?_, ?_, ?_⟩ <;>
    simp only [cas_defs, cas_real, h', if_false, if_true, not_false_eq_true, not_true_eq_false, ne_eq, one_ne_zero, zero_add]
end position

section position_real
variable (thrust_trim : ℝ) (pt_w vt_w at_w : Fin 3 → ℝ) (qc_wb : Fin 4 → ℝ) (p_w v_w : Fin 3 → ℝ) (z_i dt : ℝ)
local notation "PP" i => (rdd2.position_control_p.P_vec thrust_trim pt_w vt_w at_w qc_wb p_w v_w z_i dt) i
local notation "PT" i => (rdd2.position_control_p.T_vec thrust_trim pt_w vt_w at_w qc_wb p_w v_w z_i dt) i

/-- **position**: ‖T − (trim + k_i z_i) e₃‖ ≤ 0.3 m g for EVERY input (0.3·m·g = 6.5856 as the code's double) -/
theorem position_feedback_bound :
    (PT 0) ^ 2 + (PT 1) ^ 2 + ((PT 2) - thrust_trim - 3602879701896397 * 2 ^ (-56:ℤ) * z_i) ^ 2
      ≤ ((3707363213251393:ℝ) * 2 ^ (-49:ℤ)) ^ 2 :=
  position_feedback_cut thrust_trim pt_w vt_w at_w qc_wb p_w v_w z_i dt (PP 0) (PP 1) (PP 2) 0 0 0 0 0 0 0 0 0 0 0 0 0 0 0 0

/-- within the limit the demanded force is feedback + trim + integrator term, unchanged -/
theorem position_feedback_id (h : Real.sqrt ((PP 0) * (PP 0) + (PP 1) * (PP 1) + (PP 2) * (PP 2)) ≤ (3707363213251393:ℝ) * 2 ^ (-49:ℤ)) :
    (PT 0) = (PP 0) ∧ (PT 1) = (PP 1) ∧ (PT 2) = (PP 2) + thrust_trim + 3602879701896397 * 2 ^ (-56:ℤ) * z_i :=
  position_feedback_id_cut thrust_trim pt_w vt_w at_w qc_wb p_w v_w z_i dt (PP 0) (PP 1) (PP 2) 0 0 0 0 0 0 0 0 0 0 0 0 0 0 0 0 h

/-- the height integrator output stays within its limit (the shipped limit is 0, so the output is 0) -/
theorem position_height_integrator : rdd2.position_control_p.z_i_2 thrust_trim pt_w vt_w at_w qc_wb p_w v_w z_i dt = 0 := by
  simp only [cas_defs, cas_real]
  split_ifs <;> first | rfl | linarith
end position_real

/-! ## se23_position: the feedback part of the demanded force (T minus trim and height-integrator terms) never exceeds 30 % of the
    weight, whatever the errors; it IS the unsaturated feedback when that is within the limit; the height integrator stays
    within its limit (the shipped limit is 0).  `P` = feedback before saturation, exposed by a probe of the real body. -/
section se23_position
variable (thrust_trim : ℝ) (kp : Fin 3 → ℝ) (zeta : Fin 9 → ℝ) (at_w : Fin 3 → ℝ) (qc_wb : Fin 4 → ℝ) (z_i dt : ℝ)
variable (P0 P1 P2 T0 T1 T2 yt y0 y1 y2 : ℝ) (d00 d10 d20 d01 d11 d21 d02 d12 d22 : ℝ)

theorem se23_position_feedback_cut :
    (loglinear.se23_position_control_p.T_0_cut thrust_trim kp zeta at_w qc_wb z_i dt P0 P1 P2 T0 T1 T2 yt y0 y1 y2 d00 d10 d20 d01 d11 d21 d02 d12 d22) ^ 2
    + (loglinear.se23_position_control_p.T_1_cut thrust_trim kp zeta at_w qc_wb z_i dt P0 P1 P2 T0 T1 T2 yt y0 y1 y2 d00 d10 d20 d01 d11 d21 d02 d12 d22) ^ 2
    + (loglinear.se23_position_control_p.T_2_cut thrust_trim kp zeta at_w qc_wb z_i dt P0 P1 P2 T0 T1 T2 yt y0 y1 y2 d00 d10 d20 d01 d11 d21 d02 d12 d22
        - thrust_trim - 3602879701896397 * 2 ^ (-56:ℤ) * z_i) ^ 2
    ≤ ((3707363213251393:ℝ) * 2 ^ (-49:ℤ)) ^ 2 := by
  have h := Sat.leash 0 0 0 P0 P1 P2 ((3707363213251393:ℝ) * 2 ^ (-49:ℤ)) (by positivity)
  simp only [cas_defs, cas_real]
  refine le_trans (le_of_eq ?_) h
  split_ifs <;> ring

theorem se23_position_feedback_id_cut (h : Real.sqrt (P0 * P0 + P1 * P1 + P2 * P2) ≤ (3707363213251393:ℝ) * 2 ^ (-49:ℤ)) :
    loglinear.se23_position_control_p.T_0_cut thrust_trim kp zeta at_w qc_wb z_i dt P0 P1 P2 T0 T1 T2 yt y0 y1 y2 d00 d10 d20 d01 d11 d21 d02 d12 d22 = P0
    ∧ loglinear.se23_position_control_p.T_1_cut thrust_trim kp zeta at_w qc_wb z_i dt P0 P1 P2 T0 T1 T2 yt y0 y1 y2 d00 d10 d20 d01 d11 d21 d02 d12 d22 = P1
    ∧ loglinear.se23_position_control_p.T_2_cut thrust_trim kp zeta at_w qc_wb z_i dt P0 P1 P2 T0 T1 T2 yt y0 y1 y2 d00 d10 d20 d01 d11 d21 d02 d12 d22 = P2 + thrust_trim + 3602879701896397 * 2 ^ (-56:ℤ) * z_i := by
  have h' := not_lt.mpr h
  refine ⟨?_, ?_, ?_⟩ <;>
    simp only [cas_defs, cas_real, h', if_false, if_true, not_false_eq_true, not_true_eq_false, ne_eq, one_ne_zero, zero_add]
end se23_position

section se23_position_real
variable (thrust_trim : ℝ) (kp : Fin 3 → ℝ) (zeta : Fin 9 → ℝ) (at_w : Fin 3 → ℝ) (qc_wb : Fin 4 → ℝ) (z_i dt : ℝ)
local notation "PP" i => (loglinear.se23_position_control_p.P_vec thrust_trim kp zeta at_w qc_wb z_i dt) i
local notation "PT" i => (loglinear.se23_position_control_p.T_vec thrust_trim kp zeta at_w qc_wb z_i dt) i

/-- **se23_position**: ‖T − (trim + k_i z_i) e₃‖ ≤ 0.3 m g for EVERY input (0.3·m·g = 6.5856 as the code's double) -/
theorem se23_position_feedback_bound :
    (PT 0) ^ 2 + (PT 1) ^ 2 + ((PT 2) - thrust_trim - 3602879701896397 * 2 ^ (-56:ℤ) * z_i) ^ 2
      ≤ ((3707363213251393:ℝ) * 2 ^ (-49:ℤ)) ^ 2 :=
  se23_position_feedback_cut thrust_trim kp zeta at_w qc_wb z_i dt (PP 0) (PP 1) (PP 2) 0 0 0 0 0 0 0 0 0 0 0 0 0 0 0 0

/-- within the limit the demanded force is feedback + trim + integrator term, unchanged -/
theorem se23_position_feedback_id (h : Real.sqrt ((PP 0) * (PP 0) + (PP 1) * (PP 1) + (PP 2) * (PP 2)) ≤ (3707363213251393:ℝ) * 2 ^ (-49:ℤ)) :
    (PT 0) = (PP 0) ∧ (PT 1) = (PP 1) ∧ (PT 2) = (PP 2) + thrust_trim + 3602879701896397 * 2 ^ (-56:ℤ) * z_i :=
  se23_position_feedback_id_cut thrust_trim kp zeta at_w qc_wb z_i dt (PP 0) (PP 1) (PP 2) 0 0 0 0 0 0 0 0 0 0 0 0 0 0 0 0 h

/-- the height integrator output stays within its limit (the shipped limit is 0, so the output is 0) -/
theorem se23_position_height_integrator : loglinear.se23_position_control_p.z_i_2 thrust_trim kp zeta at_w qc_wb z_i dt = 0 := by
  simp only [cas_defs, cas_real]
  split_ifs <;> first | rfl | linarith
end se23_position_real


/-! ## attitude law: rotation vector of the attitude error, and it reaches the reference -/
section reach
open Rot RotExp SeriesLemmas
/-- the attitude law is the gain times the library's quaternion log of the error quaternion q⁻¹ ⊗ q_r -/
theorem attitude_law (kp : Fin 3 → ℝ) (q qr : Fin 4 → ℝ) (i : Fin 3) :
    rdd2.attitude_control.omega_vec kp q qr i = kp i * SO3Quat.log.r_vec (qmul (qconj q) qr) i := by
  fin_cases i <;> simp [cas_defs, cas_real, qmul, qconj] <;> ring_nf <;> simp

/-- **applying the commanded rotation to the measured attitude reaches the reference** (unit gains): for unit q, q_r whose
    error quaternion e = q⁻¹ ⊗ q_r has non-zero scalar part (angle ≠ π) and half angle on the closed-form cells,
    R(q) · R(exp ω) = R(q_r) -/
theorem attitude_reaches_reference (q qr : Fin 4 → ℝ) (hq : qnormSq q = 1) (hr : qnormSq qr = 1)
    (h0 : qmul (qconj q) qr 0 ≠ 0)
    (hc1 : eps ≤ Real.arccos |qmul (qconj q) qr 0|) (hc2 : eps ≤ Real.arccos |qmul (qconj q) qr 0| ^ 2) :
    qmat q * qmat (SO3Quat.exp.r_vec (rdd2.attitude_control.omega_vec (fun _ => 1) q qr)) = qmat qr := by
  have hw : rdd2.attitude_control.omega_vec (fun _ => 1) q qr = SO3Quat.log.r_vec (qmul (qconj q) qr) := by
    funext i; rw [attitude_law]; simp
  have hc : qnormSq (qconj q) = 1 := by simpa [qnormSq, qconj] using hq
  have he : qnormSq (qmul (qconj q) qr) = 1 := by rw [qnormSq_mul, hc, hr, one_mul]
  have he' : qmul (qconj q) qr 0 * qmul (qconj q) qr 0 + qmul (qconj q) qr 1 * qmul (qconj q) qr 1
      + qmul (qconj q) qr 2 * qmul (qconj q) qr 2 + qmul (qconj q) qr 3 * qmul (qconj q) qr 3 = 1 := by
    unfold qnormSq at he; nlinarith [he]
  rw [hw, C03.SO3Quat_exp_log_rotation _ he' h0 hc1 hc2, qmat_mul, ← Matrix.mul_assoc, qmat_mul_conj, hq]
  simp
end reach

end C15
