/-
  Props/C18.lean — Bezier curves: Bernstein form, end points, exact derivatives of every
  order, boundary-value solvers, consistency of the multirotor trajectory outputs.
  `Gen.bezier.evalN` is `Bezier(P, T).eval(t)` (De Casteljau) and `Bezier(P, T).deriv(m).eval(t)`
  for the curve of degree N with symbolic control points, regenerated from cyecca/models/bezier.py.
  All statements hold for every t (inside or outside [0, T]); the derivative statements are
  `HasDerivAt` facts about the translated functions themselves.
-/
import GenM.Bezier
import Mathlib.Analysis.Calculus.Deriv.Pow
import Mathlib.Analysis.Calculus.Deriv.Mul
import Mathlib.Analysis.Calculus.Deriv.Add
import Mathlib.Tactic.FunProp

set_option maxHeartbeats 4000000
open Gen

namespace C18

/-- derivative of a translated polynomial-in-time function, by computing `deriv` -/
macro "bezier_deriv" : tactic =>
  `(tactic| (simp only [cas_defs, cas_real]
             simp (disch := fun_prop) [deriv_fun_add, deriv_fun_mul, deriv_fun_sub, deriv_const, deriv_div_const]
             try ring))


/-! ## degree 1 -/
theorem eval1_bernstein (P : Fin 1 → Fin 2 → ℝ) (T t : ℝ) :
    bezier.eval1.p P T t
      = ∑ k : Fin 2, (Nat.choose 1 k : ℝ) * (1 - t / T) ^ (1 - (k:ℕ)) * (t / T) ^ (k:ℕ) * P 0 k := by
  simp [cas_defs, cas_real, Fin.sum_univ_succ, Nat.choose]
  ring
theorem eval1_start (P : Fin 1 → Fin 2 → ℝ) (T : ℝ) : bezier.eval1.p P T 0 = P 0 0 := by
  simp [cas_defs, cas_real] <;> (try ring1)
theorem eval1_end (P : Fin 1 → Fin 2 → ℝ) (T : ℝ) (hT : T ≠ 0) : bezier.eval1.p P T T = P 0 1 := by
  simp [cas_defs, cas_real, div_self hT] <;> (try ring1)
theorem eval1_deriv1 (P : Fin 1 → Fin 2 → ℝ) (T t : ℝ) :
    HasDerivAt (fun s => bezier.eval1.p P T s) (bezier.eval1.d P T t) t := by
  have hd : DifferentiableAt ℝ (fun s => bezier.eval1.p P T s) t := by
    simp only [cas_defs, cas_real]; fun_prop
  have e : deriv (fun s => bezier.eval1.p P T s) t = bezier.eval1.d P T t := by bezier_deriv
  rw [← e]; exact hd.hasDerivAt

/-! ## degree 2 -/
theorem eval2_bernstein (P : Fin 1 → Fin 3 → ℝ) (T t : ℝ) :
    bezier.eval2.p P T t
      = ∑ k : Fin 3, (Nat.choose 2 k : ℝ) * (1 - t / T) ^ (2 - (k:ℕ)) * (t / T) ^ (k:ℕ) * P 0 k := by
  simp [cas_defs, cas_real, Fin.sum_univ_succ, Nat.choose]
  ring
theorem eval2_start (P : Fin 1 → Fin 3 → ℝ) (T : ℝ) : bezier.eval2.p P T 0 = P 0 0 := by
  simp [cas_defs, cas_real] <;> (try ring1)
theorem eval2_end (P : Fin 1 → Fin 3 → ℝ) (T : ℝ) (hT : T ≠ 0) : bezier.eval2.p P T T = P 0 2 := by
  simp [cas_defs, cas_real, div_self hT] <;> (try ring1)
theorem eval2_deriv1 (P : Fin 1 → Fin 3 → ℝ) (T t : ℝ) :
    HasDerivAt (fun s => bezier.eval2.p P T s) (bezier.eval2.d_0 P T t) t := by
  have hd : DifferentiableAt ℝ (fun s => bezier.eval2.p P T s) t := by
    simp only [cas_defs, cas_real]; fun_prop
  have e : deriv (fun s => bezier.eval2.p P T s) t = bezier.eval2.d_0 P T t := by bezier_deriv
  rw [← e]; exact hd.hasDerivAt
theorem eval2_deriv2 (P : Fin 1 → Fin 3 → ℝ) (T t : ℝ) :
    HasDerivAt (fun s => bezier.eval2.d_0 P T s) (bezier.eval2.d_1 P T t) t := by
  have hd : DifferentiableAt ℝ (fun s => bezier.eval2.d_0 P T s) t := by
    simp only [cas_defs, cas_real]; fun_prop
  have e : deriv (fun s => bezier.eval2.d_0 P T s) t = bezier.eval2.d_1 P T t := by bezier_deriv
  rw [← e]; exact hd.hasDerivAt

/-! ## degree 3 -/
theorem eval3_bernstein (P : Fin 1 → Fin 4 → ℝ) (T t : ℝ) :
    bezier.eval3.p P T t
      = ∑ k : Fin 4, (Nat.choose 3 k : ℝ) * (1 - t / T) ^ (3 - (k:ℕ)) * (t / T) ^ (k:ℕ) * P 0 k := by
  simp [cas_defs, cas_real, Fin.sum_univ_succ, Nat.choose]
  ring
theorem eval3_start (P : Fin 1 → Fin 4 → ℝ) (T : ℝ) : bezier.eval3.p P T 0 = P 0 0 := by
  simp [cas_defs, cas_real] <;> (try ring1)
theorem eval3_end (P : Fin 1 → Fin 4 → ℝ) (T : ℝ) (hT : T ≠ 0) : bezier.eval3.p P T T = P 0 3 := by
  simp [cas_defs, cas_real, div_self hT] <;> (try ring1)
theorem eval3_deriv1 (P : Fin 1 → Fin 4 → ℝ) (T t : ℝ) :
    HasDerivAt (fun s => bezier.eval3.p P T s) (bezier.eval3.d_0 P T t) t := by
  have hd : DifferentiableAt ℝ (fun s => bezier.eval3.p P T s) t := by
    simp only [cas_defs, cas_real]; fun_prop
  have e : deriv (fun s => bezier.eval3.p P T s) t = bezier.eval3.d_0 P T t := by bezier_deriv
  rw [← e]; exact hd.hasDerivAt
theorem eval3_deriv2 (P : Fin 1 → Fin 4 → ℝ) (T t : ℝ) :
    HasDerivAt (fun s => bezier.eval3.d_0 P T s) (bezier.eval3.d_1 P T t) t := by
  have hd : DifferentiableAt ℝ (fun s => bezier.eval3.d_0 P T s) t := by
    simp only [cas_defs, cas_real]; fun_prop
  have e : deriv (fun s => bezier.eval3.d_0 P T s) t = bezier.eval3.d_1 P T t := by bezier_deriv
  rw [← e]; exact hd.hasDerivAt
theorem eval3_deriv3 (P : Fin 1 → Fin 4 → ℝ) (T t : ℝ) :
    HasDerivAt (fun s => bezier.eval3.d_1 P T s) (bezier.eval3.d_2 P T t) t := by
  have hd : DifferentiableAt ℝ (fun s => bezier.eval3.d_1 P T s) t := by
    simp only [cas_defs, cas_real]; fun_prop
  have e : deriv (fun s => bezier.eval3.d_1 P T s) t = bezier.eval3.d_2 P T t := by bezier_deriv
  rw [← e]; exact hd.hasDerivAt

/-! ## degree 4 -/
theorem eval4_bernstein (P : Fin 1 → Fin 5 → ℝ) (T t : ℝ) :
    bezier.eval4.p P T t
      = ∑ k : Fin 5, (Nat.choose 4 k : ℝ) * (1 - t / T) ^ (4 - (k:ℕ)) * (t / T) ^ (k:ℕ) * P 0 k := by
  simp [cas_defs, cas_real, Fin.sum_univ_succ, Nat.choose]
  ring
theorem eval4_start (P : Fin 1 → Fin 5 → ℝ) (T : ℝ) : bezier.eval4.p P T 0 = P 0 0 := by
  simp [cas_defs, cas_real] <;> (try ring1)
theorem eval4_end (P : Fin 1 → Fin 5 → ℝ) (T : ℝ) (hT : T ≠ 0) : bezier.eval4.p P T T = P 0 4 := by
  simp [cas_defs, cas_real, div_self hT] <;> (try ring1)
theorem eval4_deriv1 (P : Fin 1 → Fin 5 → ℝ) (T t : ℝ) :
    HasDerivAt (fun s => bezier.eval4.p P T s) (bezier.eval4.d_0 P T t) t := by
  have hd : DifferentiableAt ℝ (fun s => bezier.eval4.p P T s) t := by
    simp only [cas_defs, cas_real]; fun_prop
  have e : deriv (fun s => bezier.eval4.p P T s) t = bezier.eval4.d_0 P T t := by bezier_deriv
  rw [← e]; exact hd.hasDerivAt
theorem eval4_deriv2 (P : Fin 1 → Fin 5 → ℝ) (T t : ℝ) :
    HasDerivAt (fun s => bezier.eval4.d_0 P T s) (bezier.eval4.d_1 P T t) t := by
  have hd : DifferentiableAt ℝ (fun s => bezier.eval4.d_0 P T s) t := by
    simp only [cas_defs, cas_real]; fun_prop
  have e : deriv (fun s => bezier.eval4.d_0 P T s) t = bezier.eval4.d_1 P T t := by bezier_deriv
  rw [← e]; exact hd.hasDerivAt
theorem eval4_deriv3 (P : Fin 1 → Fin 5 → ℝ) (T t : ℝ) :
    HasDerivAt (fun s => bezier.eval4.d_1 P T s) (bezier.eval4.d_2 P T t) t := by
  have hd : DifferentiableAt ℝ (fun s => bezier.eval4.d_1 P T s) t := by
    simp only [cas_defs, cas_real]; fun_prop
  have e : deriv (fun s => bezier.eval4.d_1 P T s) t = bezier.eval4.d_2 P T t := by bezier_deriv
  rw [← e]; exact hd.hasDerivAt
theorem eval4_deriv4 (P : Fin 1 → Fin 5 → ℝ) (T t : ℝ) :
    HasDerivAt (fun s => bezier.eval4.d_2 P T s) (bezier.eval4.d_3 P T t) t := by
  have hd : DifferentiableAt ℝ (fun s => bezier.eval4.d_2 P T s) t := by
    simp only [cas_defs, cas_real]; fun_prop
  have e : deriv (fun s => bezier.eval4.d_2 P T s) t = bezier.eval4.d_3 P T t := by bezier_deriv
  rw [← e]; exact hd.hasDerivAt

/-! ## degree 5 -/
theorem eval5_bernstein (P : Fin 1 → Fin 6 → ℝ) (T t : ℝ) :
    bezier.eval5.p P T t
      = ∑ k : Fin 6, (Nat.choose 5 k : ℝ) * (1 - t / T) ^ (5 - (k:ℕ)) * (t / T) ^ (k:ℕ) * P 0 k := by
  simp [cas_defs, cas_real, Fin.sum_univ_succ, Nat.choose]
  ring
theorem eval5_start (P : Fin 1 → Fin 6 → ℝ) (T : ℝ) : bezier.eval5.p P T 0 = P 0 0 := by
  simp [cas_defs, cas_real] <;> (try ring1)
theorem eval5_end (P : Fin 1 → Fin 6 → ℝ) (T : ℝ) (hT : T ≠ 0) : bezier.eval5.p P T T = P 0 5 := by
  simp [cas_defs, cas_real, div_self hT] <;> (try ring1)
theorem eval5_deriv1 (P : Fin 1 → Fin 6 → ℝ) (T t : ℝ) :
    HasDerivAt (fun s => bezier.eval5.p P T s) (bezier.eval5.d_0 P T t) t := by
  have hd : DifferentiableAt ℝ (fun s => bezier.eval5.p P T s) t := by
    simp only [cas_defs, cas_real]; fun_prop
  have e : deriv (fun s => bezier.eval5.p P T s) t = bezier.eval5.d_0 P T t := by bezier_deriv
  rw [← e]; exact hd.hasDerivAt
theorem eval5_deriv2 (P : Fin 1 → Fin 6 → ℝ) (T t : ℝ) :
    HasDerivAt (fun s => bezier.eval5.d_0 P T s) (bezier.eval5.d_1 P T t) t := by
  have hd : DifferentiableAt ℝ (fun s => bezier.eval5.d_0 P T s) t := by
    simp only [cas_defs, cas_real]; fun_prop
  have e : deriv (fun s => bezier.eval5.d_0 P T s) t = bezier.eval5.d_1 P T t := by bezier_deriv
  rw [← e]; exact hd.hasDerivAt
theorem eval5_deriv3 (P : Fin 1 → Fin 6 → ℝ) (T t : ℝ) :
    HasDerivAt (fun s => bezier.eval5.d_1 P T s) (bezier.eval5.d_2 P T t) t := by
  have hd : DifferentiableAt ℝ (fun s => bezier.eval5.d_1 P T s) t := by
    simp only [cas_defs, cas_real]; fun_prop
  have e : deriv (fun s => bezier.eval5.d_1 P T s) t = bezier.eval5.d_2 P T t := by bezier_deriv
  rw [← e]; exact hd.hasDerivAt
theorem eval5_deriv4 (P : Fin 1 → Fin 6 → ℝ) (T t : ℝ) :
    HasDerivAt (fun s => bezier.eval5.d_2 P T s) (bezier.eval5.d_3 P T t) t := by
  have hd : DifferentiableAt ℝ (fun s => bezier.eval5.d_2 P T s) t := by
    simp only [cas_defs, cas_real]; fun_prop
  have e : deriv (fun s => bezier.eval5.d_2 P T s) t = bezier.eval5.d_3 P T t := by bezier_deriv
  rw [← e]; exact hd.hasDerivAt
theorem eval5_deriv5 (P : Fin 1 → Fin 6 → ℝ) (T t : ℝ) :
    HasDerivAt (fun s => bezier.eval5.d_3 P T s) (bezier.eval5.d_4 P T t) t := by
  have hd : DifferentiableAt ℝ (fun s => bezier.eval5.d_3 P T s) t := by
    simp only [cas_defs, cas_real]; fun_prop
  have e : deriv (fun s => bezier.eval5.d_3 P T s) t = bezier.eval5.d_4 P T t := by bezier_deriv
  rw [← e]; exact hd.hasDerivAt

/-! ## degree 6 -/
theorem eval6_bernstein (P : Fin 1 → Fin 7 → ℝ) (T t : ℝ) :
    bezier.eval6.p P T t
      = ∑ k : Fin 7, (Nat.choose 6 k : ℝ) * (1 - t / T) ^ (6 - (k:ℕ)) * (t / T) ^ (k:ℕ) * P 0 k := by
  simp [cas_defs, cas_real, Fin.sum_univ_succ, Nat.choose]
  ring
theorem eval6_start (P : Fin 1 → Fin 7 → ℝ) (T : ℝ) : bezier.eval6.p P T 0 = P 0 0 := by
  simp [cas_defs, cas_real] <;> (try ring1)
theorem eval6_end (P : Fin 1 → Fin 7 → ℝ) (T : ℝ) (hT : T ≠ 0) : bezier.eval6.p P T T = P 0 6 := by
  simp [cas_defs, cas_real, div_self hT] <;> (try ring1)
theorem eval6_deriv1 (P : Fin 1 → Fin 7 → ℝ) (T t : ℝ) :
    HasDerivAt (fun s => bezier.eval6.p P T s) (bezier.eval6.d_0 P T t) t := by
  have hd : DifferentiableAt ℝ (fun s => bezier.eval6.p P T s) t := by
    simp only [cas_defs, cas_real]; fun_prop
  have e : deriv (fun s => bezier.eval6.p P T s) t = bezier.eval6.d_0 P T t := by bezier_deriv
  rw [← e]; exact hd.hasDerivAt
theorem eval6_deriv2 (P : Fin 1 → Fin 7 → ℝ) (T t : ℝ) :
    HasDerivAt (fun s => bezier.eval6.d_0 P T s) (bezier.eval6.d_1 P T t) t := by
  have hd : DifferentiableAt ℝ (fun s => bezier.eval6.d_0 P T s) t := by
    simp only [cas_defs, cas_real]; fun_prop
  have e : deriv (fun s => bezier.eval6.d_0 P T s) t = bezier.eval6.d_1 P T t := by bezier_deriv
  rw [← e]; exact hd.hasDerivAt
theorem eval6_deriv3 (P : Fin 1 → Fin 7 → ℝ) (T t : ℝ) :
    HasDerivAt (fun s => bezier.eval6.d_1 P T s) (bezier.eval6.d_2 P T t) t := by
  have hd : DifferentiableAt ℝ (fun s => bezier.eval6.d_1 P T s) t := by
    simp only [cas_defs, cas_real]; fun_prop
  have e : deriv (fun s => bezier.eval6.d_1 P T s) t = bezier.eval6.d_2 P T t := by bezier_deriv
  rw [← e]; exact hd.hasDerivAt
theorem eval6_deriv4 (P : Fin 1 → Fin 7 → ℝ) (T t : ℝ) :
    HasDerivAt (fun s => bezier.eval6.d_2 P T s) (bezier.eval6.d_3 P T t) t := by
  have hd : DifferentiableAt ℝ (fun s => bezier.eval6.d_2 P T s) t := by
    simp only [cas_defs, cas_real]; fun_prop
  have e : deriv (fun s => bezier.eval6.d_2 P T s) t = bezier.eval6.d_3 P T t := by bezier_deriv
  rw [← e]; exact hd.hasDerivAt
theorem eval6_deriv5 (P : Fin 1 → Fin 7 → ℝ) (T t : ℝ) :
    HasDerivAt (fun s => bezier.eval6.d_3 P T s) (bezier.eval6.d_4 P T t) t := by
  have hd : DifferentiableAt ℝ (fun s => bezier.eval6.d_3 P T s) t := by
    simp only [cas_defs, cas_real]; fun_prop
  have e : deriv (fun s => bezier.eval6.d_3 P T s) t = bezier.eval6.d_4 P T t := by bezier_deriv
  rw [← e]; exact hd.hasDerivAt
theorem eval6_deriv6 (P : Fin 1 → Fin 7 → ℝ) (T t : ℝ) :
    HasDerivAt (fun s => bezier.eval6.d_4 P T s) (bezier.eval6.d_5 P T t) t := by
  have hd : DifferentiableAt ℝ (fun s => bezier.eval6.d_4 P T s) t := by
    simp only [cas_defs, cas_real]; fun_prop
  have e : deriv (fun s => bezier.eval6.d_4 P T s) t = bezier.eval6.d_5 P T t := by bezier_deriv
  rw [← e]; exact hd.hasDerivAt

/-! ## degree 7 -/
theorem eval7_bernstein (P : Fin 1 → Fin 8 → ℝ) (T t : ℝ) :
    bezier.eval7.p P T t
      = ∑ k : Fin 8, (Nat.choose 7 k : ℝ) * (1 - t / T) ^ (7 - (k:ℕ)) * (t / T) ^ (k:ℕ) * P 0 k := by
  simp [cas_defs, cas_real, Fin.sum_univ_succ, Nat.choose]
  ring
theorem eval7_start (P : Fin 1 → Fin 8 → ℝ) (T : ℝ) : bezier.eval7.p P T 0 = P 0 0 := by
  simp [cas_defs, cas_real] <;> (try ring1)
theorem eval7_end (P : Fin 1 → Fin 8 → ℝ) (T : ℝ) (hT : T ≠ 0) : bezier.eval7.p P T T = P 0 7 := by
  simp [cas_defs, cas_real, div_self hT] <;> (try ring1)
theorem eval7_deriv1 (P : Fin 1 → Fin 8 → ℝ) (T t : ℝ) :
    HasDerivAt (fun s => bezier.eval7.p P T s) (bezier.eval7.d_0 P T t) t := by
  have hd : DifferentiableAt ℝ (fun s => bezier.eval7.p P T s) t := by
    simp only [cas_defs, cas_real]; fun_prop
  have e : deriv (fun s => bezier.eval7.p P T s) t = bezier.eval7.d_0 P T t := by bezier_deriv
  rw [← e]; exact hd.hasDerivAt
theorem eval7_deriv2 (P : Fin 1 → Fin 8 → ℝ) (T t : ℝ) :
    HasDerivAt (fun s => bezier.eval7.d_0 P T s) (bezier.eval7.d_1 P T t) t := by
  have hd : DifferentiableAt ℝ (fun s => bezier.eval7.d_0 P T s) t := by
    simp only [cas_defs, cas_real]; fun_prop
  have e : deriv (fun s => bezier.eval7.d_0 P T s) t = bezier.eval7.d_1 P T t := by bezier_deriv
  rw [← e]; exact hd.hasDerivAt
theorem eval7_deriv3 (P : Fin 1 → Fin 8 → ℝ) (T t : ℝ) :
    HasDerivAt (fun s => bezier.eval7.d_1 P T s) (bezier.eval7.d_2 P T t) t := by
  have hd : DifferentiableAt ℝ (fun s => bezier.eval7.d_1 P T s) t := by
    simp only [cas_defs, cas_real]; fun_prop
  have e : deriv (fun s => bezier.eval7.d_1 P T s) t = bezier.eval7.d_2 P T t := by bezier_deriv
  rw [← e]; exact hd.hasDerivAt
theorem eval7_deriv4 (P : Fin 1 → Fin 8 → ℝ) (T t : ℝ) :
    HasDerivAt (fun s => bezier.eval7.d_2 P T s) (bezier.eval7.d_3 P T t) t := by
  have hd : DifferentiableAt ℝ (fun s => bezier.eval7.d_2 P T s) t := by
    simp only [cas_defs, cas_real]; fun_prop
  have e : deriv (fun s => bezier.eval7.d_2 P T s) t = bezier.eval7.d_3 P T t := by bezier_deriv
  rw [← e]; exact hd.hasDerivAt
theorem eval7_deriv5 (P : Fin 1 → Fin 8 → ℝ) (T t : ℝ) :
    HasDerivAt (fun s => bezier.eval7.d_3 P T s) (bezier.eval7.d_4 P T t) t := by
  have hd : DifferentiableAt ℝ (fun s => bezier.eval7.d_3 P T s) t := by
    simp only [cas_defs, cas_real]; fun_prop
  have e : deriv (fun s => bezier.eval7.d_3 P T s) t = bezier.eval7.d_4 P T t := by bezier_deriv
  rw [← e]; exact hd.hasDerivAt
theorem eval7_deriv6 (P : Fin 1 → Fin 8 → ℝ) (T t : ℝ) :
    HasDerivAt (fun s => bezier.eval7.d_4 P T s) (bezier.eval7.d_5 P T t) t := by
  have hd : DifferentiableAt ℝ (fun s => bezier.eval7.d_4 P T s) t := by
    simp only [cas_defs, cas_real]; fun_prop
  have e : deriv (fun s => bezier.eval7.d_4 P T s) t = bezier.eval7.d_5 P T t := by bezier_deriv
  rw [← e]; exact hd.hasDerivAt
theorem eval7_deriv7 (P : Fin 1 → Fin 8 → ℝ) (T t : ℝ) :
    HasDerivAt (fun s => bezier.eval7.d_5 P T s) (bezier.eval7.d_6 P T t) t := by
  have hd : DifferentiableAt ℝ (fun s => bezier.eval7.d_5 P T s) t := by
    simp only [cas_defs, cas_real]; fun_prop
  have e : deriv (fun s => bezier.eval7.d_5 P T s) t = bezier.eval7.d_6 P T t := by bezier_deriv
  rw [← e]; exact hd.hasDerivAt

/-! ## vector-valued curve (3 × 4 control points): same per component -/
theorem eval3_dim3_bernstein (P : Fin 3 → Fin 4 → ℝ) (T t : ℝ) (i : Fin 3) :
    ![bezier.eval3_dim3.p_0 P T t, bezier.eval3_dim3.p_1 P T t, bezier.eval3_dim3.p_2 P T t] i
      = ∑ k : Fin 4, (Nat.choose 3 k : ℝ) * (1 - t / T) ^ (3 - (k:ℕ)) * (t / T) ^ (k:ℕ) * P i k := by
  fin_cases i <;> simp [cas_defs, cas_real, Fin.sum_univ_succ, Nat.choose] <;> ring
theorem eval3_dim3_deriv (P : Fin 3 → Fin 4 → ℝ) (T t : ℝ) :
    HasDerivAt (fun s => bezier.eval3_dim3.p_1 P T s) (bezier.eval3_dim3.d1_1 P T t) t := by
  have hd : DifferentiableAt ℝ (fun s => bezier.eval3_dim3.p_1 P T s) t := by
    simp only [cas_defs, cas_real]; fun_prop
  have e : deriv (fun s => bezier.eval3_dim3.p_1 P T s) t = bezier.eval3_dim3.d1_1 P T t := by bezier_deriv
  rw [← e]; exact hd.hasDerivAt

/-! ## boundary-value solvers -/

/-- cubic: position and velocity at both ends -/
theorem bezier3_solve_meets (wp_0 wp_1 : Fin 2 → ℝ) (T : ℝ) (hT : T ≠ 0) :
    bezier.eval3.p (bezier.bezier3_solve.P_mat wp_0 wp_1 T) T 0 = wp_0 0
    ∧ bezier.eval3.d_0 (bezier.bezier3_solve.P_mat wp_0 wp_1 T) T 0 = wp_0 1
    ∧ bezier.eval3.p (bezier.bezier3_solve.P_mat wp_0 wp_1 T) T T = wp_1 0
    ∧ bezier.eval3.d_0 (bezier.bezier3_solve.P_mat wp_0 wp_1 T) T T = wp_1 1 := by
  refine ⟨?_, ?_, ?_, ?_⟩ <;> simp [cas_defs, cas_real, div_self hT] <;> field_simp <;> ring

/-- septic: position, velocity, acceleration and jerk at both ends -/
theorem bezier7_solve_meets_start (wp_0 wp_1 : Fin 4 → ℝ) (T : ℝ) (hT : T ≠ 0) :
    bezier.eval7.p (bezier.bezier7_solve.P_mat wp_0 wp_1 T) T 0 = wp_0 0
    ∧ bezier.eval7.d_0 (bezier.bezier7_solve.P_mat wp_0 wp_1 T) T 0 = wp_0 1
    ∧ bezier.eval7.d_1 (bezier.bezier7_solve.P_mat wp_0 wp_1 T) T 0 = wp_0 2
    ∧ bezier.eval7.d_2 (bezier.bezier7_solve.P_mat wp_0 wp_1 T) T 0 = wp_0 3 := by
  refine ⟨?_, ?_, ?_, ?_⟩ <;> simp [cas_defs, cas_real] <;> field_simp <;> ring
theorem bezier7_solve_meets_end (wp_0 wp_1 : Fin 4 → ℝ) (T : ℝ) (hT : T ≠ 0) :
    bezier.eval7.p (bezier.bezier7_solve.P_mat wp_0 wp_1 T) T T = wp_1 0
    ∧ bezier.eval7.d_0 (bezier.bezier7_solve.P_mat wp_0 wp_1 T) T T = wp_1 1
    ∧ bezier.eval7.d_1 (bezier.bezier7_solve.P_mat wp_0 wp_1 T) T T = wp_1 2
    ∧ bezier.eval7.d_2 (bezier.bezier7_solve.P_mat wp_0 wp_1 T) T T = wp_1 3 := by
  refine ⟨?_, ?_, ?_, ?_⟩ <;> simp [cas_defs, cas_real, div_self hT] <;> field_simp <;> ring

/-! ## trajectory functions are the curve and its successive derivatives -/
theorem bezier7_traj_spec (t T : ℝ) (P : Fin 1 → Fin 8 → ℝ) :
    bezier.bezier7_traj.r_0 t T P = bezier.eval7.p P T t
    ∧ bezier.bezier7_traj.r_1 t T P = bezier.eval7.d_0 P T t
    ∧ bezier.bezier7_traj.r_2 t T P = bezier.eval7.d_1 P T t
    ∧ bezier.bezier7_traj.r_3 t T P = bezier.eval7.d_2 P T t
    ∧ bezier.bezier7_traj.r_4 t T P = bezier.eval7.d_3 P T t := by
  refine ⟨?_, ?_, ?_, ?_, ?_⟩ <;> simp only [cas_defs, cas_real] <;> ring
theorem bezier3_traj_spec (t T : ℝ) (P : Fin 1 → Fin 4 → ℝ) :
    bezier.bezier3_traj.r_0 t T P = bezier.eval3.p P T t
    ∧ bezier.bezier3_traj.r_1 t T P = bezier.eval3.d_0 P T t
    ∧ bezier.bezier3_traj.r_2 t T P = bezier.eval3.d_1 P T t := by
  refine ⟨?_, ?_, ?_⟩ <;> simp only [cas_defs, cas_real] <;> ring

/-- the multirotor trajectory stacks the septic position curves and the cubic heading curve -/
theorem multirotor_spec (t T : ℝ) (PX PY PZ : Fin 1 → Fin 8 → ℝ) (Ppsi : Fin 1 → Fin 4 → ℝ) :
    bezier.bezier_multirotor.x t T PX PY PZ Ppsi = bezier.eval7.p PX T t
    ∧ bezier.bezier_multirotor.y t T PX PY PZ Ppsi = bezier.eval7.p PY T t
    ∧ bezier.bezier_multirotor.z t T PX PY PZ Ppsi = bezier.eval7.p PZ T t
    ∧ bezier.bezier_multirotor.v_0 t T PX PY PZ Ppsi = bezier.eval7.d_0 PX T t
    ∧ bezier.bezier_multirotor.v_1 t T PX PY PZ Ppsi = bezier.eval7.d_0 PY T t
    ∧ bezier.bezier_multirotor.v_2 t T PX PY PZ Ppsi = bezier.eval7.d_0 PZ T t
    ∧ bezier.bezier_multirotor.a_0 t T PX PY PZ Ppsi = bezier.eval7.d_1 PX T t
    ∧ bezier.bezier_multirotor.a_1 t T PX PY PZ Ppsi = bezier.eval7.d_1 PY T t
    ∧ bezier.bezier_multirotor.a_2 t T PX PY PZ Ppsi = bezier.eval7.d_1 PZ T t
    ∧ bezier.bezier_multirotor.j_0 t T PX PY PZ Ppsi = bezier.eval7.d_2 PX T t
    ∧ bezier.bezier_multirotor.j_1 t T PX PY PZ Ppsi = bezier.eval7.d_2 PY T t
    ∧ bezier.bezier_multirotor.j_2 t T PX PY PZ Ppsi = bezier.eval7.d_2 PZ T t
    ∧ bezier.bezier_multirotor.s_0 t T PX PY PZ Ppsi = bezier.eval7.d_3 PX T t
    ∧ bezier.bezier_multirotor.s_1 t T PX PY PZ Ppsi = bezier.eval7.d_3 PY T t
    ∧ bezier.bezier_multirotor.s_2 t T PX PY PZ Ppsi = bezier.eval7.d_3 PZ T t
    ∧ bezier.bezier_multirotor.psi t T PX PY PZ Ppsi = bezier.eval3.p Ppsi T t
    ∧ bezier.bezier_multirotor.psidot t T PX PY PZ Ppsi = bezier.eval3.d_0 Ppsi T t
    ∧ bezier.bezier_multirotor.psiddot t T PX PY PZ Ppsi = bezier.eval3.d_1 Ppsi T t := by
  refine ⟨?_, ?_, ?_, ?_, ?_, ?_, ?_, ?_, ?_, ?_, ?_, ?_, ?_, ?_, ?_, ?_, ?_, ?_⟩ <;>
    simp only [cas_defs, cas_real] <;> ring

/-- hence the outputs are mutually consistent derivatives (x-axis shown; y, z, psi identical) -/
theorem multirotor_consistent_x (T t : ℝ) (PX PY PZ : Fin 1 → Fin 8 → ℝ) (Ppsi : Fin 1 → Fin 4 → ℝ) :
    HasDerivAt (fun s => bezier.bezier_multirotor.x s T PX PY PZ Ppsi) (bezier.bezier_multirotor.v_0 t T PX PY PZ Ppsi) t
    ∧ HasDerivAt (fun s => bezier.bezier_multirotor.v_0 s T PX PY PZ Ppsi) (bezier.bezier_multirotor.a_0 t T PX PY PZ Ppsi) t
    ∧ HasDerivAt (fun s => bezier.bezier_multirotor.a_0 s T PX PY PZ Ppsi) (bezier.bezier_multirotor.j_0 t T PX PY PZ Ppsi) t
    ∧ HasDerivAt (fun s => bezier.bezier_multirotor.j_0 s T PX PY PZ Ppsi) (bezier.bezier_multirotor.s_0 t T PX PY PZ Ppsi) t := by
  have h := fun s => multirotor_spec s T PX PY PZ Ppsi
  refine ⟨?_, ?_, ?_, ?_⟩
  · simp only [(h _).1, (h _).2.2.2.1]; exact eval7_deriv1 PX T t
  · simp only [(h _).2.2.2.1, (h _).2.2.2.2.2.2.1]; exact eval7_deriv2 PX T t
  · simp only [(h _).2.2.2.2.2.2.1, (h _).2.2.2.2.2.2.2.2.2.1]; exact eval7_deriv3 PX T t
  · simp only [(h _).2.2.2.2.2.2.2.2.2.1, (h _).2.2.2.2.2.2.2.2.2.2.2.2.1]; exact eval7_deriv4 PX T t

end C18
