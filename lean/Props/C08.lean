/-
  Props/C08.lean — strap-down INS propagation on SE₂(3) is the exact flow of
      p' = v,   v' = R a − g e₃,   R' = R [ω]×.
  (i) core identities, for every input: the translated `strapdown_ins_propagate` returns the flow
      *form* with the series coefficient values the code computes;
  (ii) on the closed-form cell of those coefficients (|ω dt|² ≥ 4 eps) the output is exactly
      `Flow.pflow / vflow / Rflow` at t = dt, whose derivatives are proved in Lib/Flow to satisfy the
      differential equations with the right initial values — for every dt (no discretisation error).
-/
import GenM.Ins
import Lib.Flow
import Props.SeriesLemmas

set_option maxHeartbeats 8000000
open Gen Rot RotExp Flow SeriesLemmas

namespace C08

def q0 (x0 : Fin 10 → ℝ) : Fin 4 → ℝ := ![x0 6, x0 7, x0 8, x0 9]
def p0 (x0 : Fin 10 → ℝ) : Fin 3 → ℝ := ![x0 0, x0 1, x0 2]
def v0 (x0 : Fin 10 → ℝ) : Fin 3 → ℝ := ![x0 3, x0 4, x0 5]
/-- θ² as the code computes it -/
def th2 (w : Fin 3 → ℝ) (dt : ℝ) : ℝ := dt * w 0 * (dt * w 0) + dt * w 1 * (dt * w 1) + dt * w 2 * (dt * w 2)
theorem th2_def (w : Fin 3 → ℝ) (dt : ℝ) :
    dt * w 0 * (dt * w 0) + dt * w 1 * (dt * w 1) + dt * w 2 * (dt * w 2) = th2 w dt := rfl

/-- position: the flow form with the code's coefficient values -/
theorem position_core (x0 : Fin 10 → ℝ) (a w : Fin 3 → ℝ) (g dt : ℝ) :
    ![rdd2.strapdown_ins_propagate.x1_0 x0 a w g dt, rdd2.strapdown_ins_propagate.x1_1 x0 a w g dt,
      rdd2.strapdown_ins_propagate.x1_2 x0 a w g dt]
      = pform (qmat (SqSeries.cos_x (0:ℝ) • q0 x0)) (SqSeries.cos_x (0:ℝ) ^ 2 • p0 x0) (SqSeries.cos_x (0:ℝ) ^ 2 • v0 x0) a w
          g dt
          (dt ^ 3 * SqSeries.x_minus_sin_over_x3 (th2 w dt))
          (dt ^ 4 * SqSeries.half_x2_plus_cos_minus_one_over_x4 (th2 w dt)) := by
  funext i
  fin_cases i <;> simp only [cas_defs, cas_real, th2_def] <;>
    simp [pform, qmat, q0, p0, v0, hat, Matrix.vecHead, Matrix.vecTail, Matrix.mulVec, Matrix.vecMul,
      dotProduct, Fin.sum_univ_succ, Matrix.mul_apply, Matrix.one_apply] <;> ring

theorem velocity_core (x0 : Fin 10 → ℝ) (a w : Fin 3 → ℝ) (g dt : ℝ) :
    ![rdd2.strapdown_ins_propagate.x1_3 x0 a w g dt, rdd2.strapdown_ins_propagate.x1_4 x0 a w g dt,
      rdd2.strapdown_ins_propagate.x1_5 x0 a w g dt]
      = vform (qmat (SqSeries.cos_x (0:ℝ) • q0 x0)) (SqSeries.cos_x (0:ℝ) ^ 2 • v0 x0) a w g dt
          (dt ^ 2 * SqSeries.one_minus_cos_over_x2 (th2 w dt))
          (dt ^ 3 * SqSeries.x_minus_sin_over_x3 (th2 w dt)) := by
  funext i
  fin_cases i <;> simp only [cas_defs, cas_real, th2_def] <;>
    simp [vform, qmat, q0, v0, hat, Matrix.vecHead, Matrix.vecTail, Matrix.mulVec, Matrix.vecMul,
      dotProduct, Fin.sum_univ_succ, Matrix.mul_apply, Matrix.one_apply] <;> ring

/-- attitude: q₁ = (cos_x(0)·q₀) ⊗ (quaternion exponential of ω dt, in coefficient values) -/
theorem attitude_core (x0 : Fin 10 → ℝ) (a w : Fin 3 → ℝ) (g dt : ℝ) :
    ![rdd2.strapdown_ins_propagate.x1_6 x0 a w g dt, rdd2.strapdown_ins_propagate.x1_7 x0 a w g dt,
      rdd2.strapdown_ins_propagate.x1_8 x0 a w g dt, rdd2.strapdown_ins_propagate.x1_9 x0 a w g dt]
      = qmul (SqSeries.cos_x (0:ℝ) • q0 x0)
          ![SqSeries.cos_x (th2 w dt / 4), SqSeries.sin_x_over_x (th2 w dt / 4) / 2 * (dt * w 0),
            SqSeries.sin_x_over_x (th2 w dt / 4) / 2 * (dt * w 1), SqSeries.sin_x_over_x (th2 w dt / 4) / 2 * (dt * w 2)] := by
  funext i
  fin_cases i <;> simp only [cas_defs, cas_real, th2_def] <;> simp [qmul, q0] <;> ring

theorem th2_eq (w : Fin 3 → ℝ) (dt : ℝ) : th2 w dt = nsq (fun i => dt * w i) := by
  unfold th2 nsq; ring

/-- **exact flow** on the closed-form cell (|ω dt|² ≥ 4 eps), for every dt ≠ 0 of either sign -/
theorem exact_flow (x0 : Fin 10 → ℝ) (a w : Fin 3 → ℝ) (g dt : ℝ) (h : eps ≤ th2 w dt / 4) :
    ![rdd2.strapdown_ins_propagate.x1_0 x0 a w g dt, rdd2.strapdown_ins_propagate.x1_1 x0 a w g dt,
      rdd2.strapdown_ins_propagate.x1_2 x0 a w g dt] = pflow (qmat (q0 x0)) (p0 x0) (v0 x0) a w g dt
    ∧ ![rdd2.strapdown_ins_propagate.x1_3 x0 a w g dt, rdd2.strapdown_ins_propagate.x1_4 x0 a w g dt,
      rdd2.strapdown_ins_propagate.x1_5 x0 a w g dt] = vflow (qmat (q0 x0)) (v0 x0) a w g dt
    ∧ qmat ![rdd2.strapdown_ins_propagate.x1_6 x0 a w g dt, rdd2.strapdown_ins_propagate.x1_7 x0 a w g dt,
      rdd2.strapdown_ins_propagate.x1_8 x0 a w g dt, rdd2.strapdown_ins_propagate.x1_9 x0 a w g dt]
        = Rflow (qmat (q0 x0)) w dt
    ∧ qnormSq ![rdd2.strapdown_ins_propagate.x1_6 x0 a w g dt, rdd2.strapdown_ins_propagate.x1_7 x0 a w g dt,
      rdd2.strapdown_ins_propagate.x1_8 x0 a w g dt, rdd2.strapdown_ins_propagate.x1_9 x0 a w g dt]
        = qnormSq (q0 x0) := by
  have h1 : eps ≤ th2 w dt := by have := eps_pos; linarith
  have hpos : 0 < th2 w dt := lt_of_lt_of_le eps_pos h1
  have hdt : dt ≠ 0 := by
    intro h0; rw [h0] at hpos; simp [th2] at hpos
  have hn : Real.sqrt (nsq w) ≠ 0 := by
    intro h0
    have : nsq w = 0 := by
      have := Real.sqrt_eq_zero'.mp h0
      exact le_antisymm this (nsq_nonneg w)
    have : th2 w dt = 0 := by
      rw [th2_eq]; have e : nsq (fun i => dt * w i) = dt ^ 2 * nsq w := by simp only [nsq]; ring
      rw [e, this, mul_zero]
    linarith
  obtain ⟨cs, ca, cb, cg⟩ := coeffs_of_abs (Real.sqrt (nsq w)) dt hn hdt
  have hsq : Real.sqrt (th2 w dt) = |dt| * Real.sqrt (nsq w) := by rw [th2_eq]; exact sqrt_nsq_smul dt w
  have one : SqSeries.cos_x (0:ℝ) = 1 := sq_cos_x_zero
  refine ⟨?_, ?_, ?_, ?_⟩
  · rw [position_core, one, pflow_eq, sq_x_minus_sin_over_x3_closed h1,
      sq_half_x2_plus_cos_minus_one_over_x4_closed h1, hsq, cb, cg]
    simp
  · rw [velocity_core, one, vflow_eq, sq_one_minus_cos_over_x2_closed h1, sq_x_minus_sin_over_x3_closed h1, hsq, ca, cb]
    simp
  · -- attitude: the quaternion factor is qexp (dt • w)
    have hq : (![SqSeries.cos_x (th2 w dt / 4), SqSeries.sin_x_over_x (th2 w dt / 4) / 2 * (dt * w 0),
        SqSeries.sin_x_over_x (th2 w dt / 4) / 2 * (dt * w 1), SqSeries.sin_x_over_x (th2 w dt / 4) / 2 * (dt * w 2)] : Fin 4 → ℝ)
        = qexp (fun i => dt * w i) := by
      rw [sq_cos_x_closed h, sq_sin_x_over_x_closed h, sqrt_quarter, th2_eq]; rfl
    rw [attitude_core, one, one_smul, qmat_mul, hq, qmat_qexp, exp_hat, Rflow_eq, Rform, ← th2_eq, hsq]
    have hh : hat (fun i => dt * w i) = dt • hat w := by
      mat_entries <;> simp [hat]
    rw [hh, ← cs, ← ca]
    congr 1
    rw [smul_pow, pow_two (hat w), smul_smul, smul_smul]
    congr 2 <;> ring
  · have hq : (![SqSeries.cos_x (th2 w dt / 4), SqSeries.sin_x_over_x (th2 w dt / 4) / 2 * (dt * w 0),
        SqSeries.sin_x_over_x (th2 w dt / 4) / 2 * (dt * w 1), SqSeries.sin_x_over_x (th2 w dt / 4) / 2 * (dt * w 2)] : Fin 4 → ℝ)
        = qexp (fun i => dt * w i) := by
      rw [sq_cos_x_closed h, sq_sin_x_over_x_closed h, sqrt_quarter, th2_eq]; rfl
    rw [attitude_core, one, one_smul, qnormSq_mul, hq, qnormSq_qexp, mul_one]

/-- the step dt = 0 is the identity (position, velocity; attitude up to the factor cos_x(0) = 1) -/
theorem dt_zero (x0 : Fin 10 → ℝ) (a w : Fin 3 → ℝ) (g : ℝ) (i : Fin 10) :
    rdd2.strapdown_ins_propagate.x1_vec x0 a w g 0 i = x0 i := by
  fin_cases i <;> simp [cas_defs, cas_real, sq_cos_x_zero, sq_sin_x_over_x_zero] <;> (try ring1)


/-- **composition**: propagating dt₁ and then dt₂ (same constant specific force and angular rate) equals propagating
    dt₁ + dt₂ — position and velocity exactly, attitude as a rotation — whenever the three steps are on the closed-form cell -/
theorem semigroup (x0 : Fin 10 → ℝ) (a w : Fin 3 → ℝ) (g dt1 dt2 : ℝ)
    (h1 : eps ≤ th2 w dt1 / 4) (h2 : eps ≤ th2 w dt2 / 4) (h12 : eps ≤ th2 w (dt1 + dt2) / 4) :
    let x1 := rdd2.strapdown_ins_propagate.x1_vec x0 a w g dt1
    let x2 := rdd2.strapdown_ins_propagate.x1_vec x1 a w g dt2
    let x12 := rdd2.strapdown_ins_propagate.x1_vec x0 a w g (dt1 + dt2)
    p0 x2 = p0 x12 ∧ v0 x2 = v0 x12 ∧ qmat (q0 x2) = qmat (q0 x12) := by
  intro x1 x2 x12
  have hw : nsq w ≠ 0 := by
    intro h0
    have : th2 w dt1 = 0 := by
      rw [th2_eq]; have e : nsq (fun i => dt1 * w i) = dt1 ^ 2 * nsq w := by simp only [nsq]; ring
      rw [e, h0, mul_zero]
    have := eps_pos; linarith
  obtain ⟨a1, b1, c1, _⟩ := exact_flow x0 a w g dt1 h1
  obtain ⟨a2, b2, c2, _⟩ := exact_flow x1 a w g dt2 h2
  obtain ⟨a3, b3, c3, _⟩ := exact_flow x0 a w g (dt1 + dt2) h12
  obtain ⟨sR, sv, sp⟩ := flow_semigroup (qmat (q0 x0)) (p0 x0) (v0 x0) a w g dt1 dt2 hw
  have hp1 : p0 x1 = pflow (qmat (q0 x0)) (p0 x0) (v0 x0) a w g dt1 := a1
  have hv1 : v0 x1 = vflow (qmat (q0 x0)) (v0 x0) a w g dt1 := b1
  have hR1 : qmat (q0 x1) = Rflow (qmat (q0 x0)) w dt1 := c1
  refine ⟨?_, ?_, ?_⟩
  · show p0 x2 = p0 x12
    calc p0 x2 = pflow (qmat (q0 x1)) (p0 x1) (v0 x1) a w g dt2 := a2
      _ = pflow (qmat (q0 x0)) (p0 x0) (v0 x0) a w g (dt1 + dt2) := by rw [hp1, hv1, hR1, ← sp]
      _ = p0 x12 := a3.symm
  · show v0 x2 = v0 x12
    calc v0 x2 = vflow (qmat (q0 x1)) (v0 x1) a w g dt2 := b2
      _ = vflow (qmat (q0 x0)) (v0 x0) a w g (dt1 + dt2) := by rw [hv1, hR1, ← sv]
      _ = v0 x12 := b3.symm
  · show qmat (q0 x2) = qmat (q0 x12)
    calc qmat (q0 x2) = Rflow (qmat (q0 x1)) w dt2 := c2
      _ = Rflow (qmat (q0 x0)) w (dt1 + dt2) := by rw [hR1, ← sR]
      _ = qmat (q0 x12) := c3.symm

end C08
