/-
  Props/SeriesLemmas.lean — facts about the translated SERIES / SQUARED_SERIES entries
  (`Gen.Series.*`, `Gen.SqSeries.*`, regenerated from cyecca/symbolic.py): which branch is
  selected and what the closed-form branch equals.  Shared by C02, C03, C05, C06, C08.
-/
import Cas.Real
import Gen.Series
import Lib.RotExp
import Lib.ExpForms
import Lib.Flow

open Gen RotExp Rot

namespace SeriesLemmas

/-- the switch threshold: the double nearest to 1e-3 -/
noncomputable def eps : ℝ := 1152921504606847 * (2:ℝ) ^ (-60:ℤ)

theorem eps_pos : 0 < eps := by unfold eps; positivity

theorem eps_bounds : (999999 / 1000000000 : ℝ) < eps ∧ eps < 1000001 / 1000000000 := by
  unfold eps; constructor <;> norm_num

theorem rpow_neg_half {u : ℝ} (hu : 0 < u) : u.rpow (-1 * 2 ^ (-1:ℤ)) = 1 / Real.sqrt u := by
  have : (-1 : ℝ) * 2 ^ (-1:ℤ) = -(1 / 2) := by norm_num
  show u ^ ((-1 : ℝ) * 2 ^ (-1:ℤ)) = _
  rw [this, Real.rpow_neg hu.le, Real.sqrt_eq_rpow, one_div, one_div]

theorem rpow_neg_three_half {u : ℝ} (hu : 0 < u) : u.rpow (-3 * 2 ^ (-1:ℤ)) = 1 / Real.sqrt u ^ 3 := by
  have e : (-3 : ℝ) * 2 ^ (-1:ℤ) = -(3 * (1 / 2)) := by norm_num
  show u ^ ((-3 : ℝ) * 2 ^ (-1:ℤ)) = _
  rw [e, Real.rpow_neg hu.le, Real.sqrt_eq_rpow, ← Real.rpow_natCast, ← Real.rpow_mul hu.le, one_div]
  norm_num

private theorem not_small {u : ℝ} (hu : eps ≤ u) : ¬ |u| < 1152921504606847 * (2:ℝ) ^ (-60:ℤ) := by
  have := eps_pos
  rw [abs_of_pos (by linarith)]; unfold eps at hu; linarith

/-! ### closed-form branch (argument `u = θ²` at or above the switch) -/

theorem sq_sin_x_over_x_closed {u : ℝ} (hu : eps ≤ u) :
    SqSeries.sin_x_over_x u = sFun (Real.sqrt u) := by
  have hpos : 0 < u := lt_of_lt_of_le eps_pos hu
  have hs : Real.sqrt u ≠ 0 := (Real.sqrt_pos.mpr hpos).ne'
  simp only [cas_series, cas_real]
  rw [if_neg (not_small hu), rpow_neg_half hpos]
  unfold sFun; rw [if_neg hs]; ring

theorem sq_one_minus_cos_over_x2_closed {u : ℝ} (hu : eps ≤ u) :
    SqSeries.one_minus_cos_over_x2 u = cFun (Real.sqrt u) := by
  have hpos : 0 < u := lt_of_lt_of_le eps_pos hu
  have hs : Real.sqrt u ≠ 0 := (Real.sqrt_pos.mpr hpos).ne'
  simp only [cas_series, cas_real]
  rw [if_neg (not_small hu)]
  unfold cFun; rw [if_neg hs, Real.sq_sqrt hpos.le]

theorem sq_x_minus_sin_over_x3_closed {u : ℝ} (hu : eps ≤ u) :
    SqSeries.x_minus_sin_over_x3 u = dFun (Real.sqrt u) := by
  have hpos : 0 < u := lt_of_lt_of_le eps_pos hu
  have hs : Real.sqrt u ≠ 0 := (Real.sqrt_pos.mpr hpos).ne'
  simp only [cas_series, cas_real]
  rw [if_neg (not_small hu), rpow_neg_three_half hpos]
  unfold dFun; rw [if_neg hs]; ring

theorem sq_cos_x_closed {u : ℝ} (hu : eps ≤ u) : SqSeries.cos_x u = Real.cos (Real.sqrt u) := by
  simp only [cas_series, cas_real]
  rw [if_neg (not_small hu)]

theorem sq_tan_quarter_over_x_closed {u : ℝ} (hu : eps ≤ u) :
    SqSeries.tan_quarter_over_x u = Real.tan (Real.sqrt u / 4) / Real.sqrt u := by
  have hpos : 0 < u := lt_of_lt_of_le eps_pos hu
  simp only [cas_series, cas_real]
  rw [if_neg (not_small hu), rpow_neg_half hpos]
  have : (1:ℝ) * 2 ^ (-2:ℤ) * Real.sqrt u = Real.sqrt u / 4 := by norm_num; ring
  rw [this]; ring

/-! ### non-squared series (argument θ itself) -/
private theorem not_small' {x : ℝ} (hx : eps ≤ |x|) : ¬ |x| < 1152921504606847 * (2:ℝ) ^ (-60:ℤ) := by
  unfold eps at hx; exact not_lt.mpr hx

theorem sin_x_over_x_closed {x : ℝ} (hx : eps ≤ |x|) : Series.sin_x_over_x x = sFun x := by
  have h0 : x ≠ 0 := by
    intro h0; rw [h0, abs_zero] at hx; exact absurd hx (not_le.mpr eps_pos)
  simp only [cas_series, cas_real]
  rw [if_neg (not_small' hx)]
  unfold sFun; rw [if_neg h0]

theorem one_minus_cos_over_x_closed {x : ℝ} (hx : eps ≤ |x|) :
    Series.one_minus_cos_over_x x = x * cFun x := by
  have h0 : x ≠ 0 := by
    intro h0; rw [h0, abs_zero] at hx; exact absurd hx (not_le.mpr eps_pos)
  simp only [cas_series, cas_real]
  rw [if_neg (not_small' hx)]
  unfold cFun; rw [if_neg h0]; field_simp

theorem sin_x_over_x_zero : Series.sin_x_over_x (0:ℝ) = 1 := by simp [cas_series, cas_real]
theorem one_minus_cos_over_x_zero : Series.one_minus_cos_over_x (0:ℝ) = 0 := by simp [cas_series, cas_real]

/-! ### values at exactly zero (Taylor branch, constant term) -/
theorem sq_sin_x_over_x_zero : SqSeries.sin_x_over_x (0:ℝ) = 1 := by
  simp [cas_series, cas_real]
theorem sq_one_minus_cos_over_x2_zero : SqSeries.one_minus_cos_over_x2 (0:ℝ) = 1 / 2 := by
  simp [cas_series, cas_real]
theorem sq_cos_x_zero : SqSeries.cos_x (0:ℝ) = 1 := by
  simp [cas_series, cas_real]
theorem sq_tan_quarter_over_x_zero : SqSeries.tan_quarter_over_x (0:ℝ) = 1 / 4 := by
  simp [cas_series, cas_real]; norm_num

end SeriesLemmas

namespace SeriesLemmas
open Gen

theorem sq_four_atan_over_x_closed {u : ℝ} (hu : eps ≤ u) :
    SqSeries.four_atan_over_x u = 4 * Real.arctan (Real.sqrt u) / Real.sqrt u := by
  have hpos : 0 < u := lt_of_lt_of_le eps_pos hu
  have hn : ¬ |u| < 1152921504606847 * (2:ℝ) ^ (-60:ℤ) := by
    rw [abs_of_pos hpos]; unfold eps at hu; linarith
  simp only [cas_series, cas_real]
  rw [if_neg hn, rpow_neg_half hpos]; ring

theorem x_over_sin_x_closed {x : ℝ} (hx : eps ≤ |x|) : Series.x_over_sin_x x = x / Real.sin x := by
  have hn : ¬ |x| < 1152921504606847 * (2:ℝ) ^ (-60:ℤ) := by unfold eps at hx; exact not_lt.mpr hx
  simp only [cas_series, cas_real]
  rw [if_neg hn]

end SeriesLemmas

namespace SeriesLemmas
open Gen

theorem sq_half_x2_plus_cos_minus_one_over_x4_closed {u : ℝ} (hu : eps ≤ u) :
    SqSeries.half_x2_plus_cos_minus_one_over_x4 u = Flow.eFun (Real.sqrt u) := by
  have hpos : 0 < u := lt_of_lt_of_le eps_pos hu
  have hn : ¬ |u| < 1152921504606847 * (2:ℝ) ^ (-60:ℤ) := by
    rw [abs_of_pos hpos]; unfold eps at hu; linarith
  have hs : Real.sqrt u ^ 2 = u := Real.sq_sqrt hpos.le
  simp only [cas_series, cas_real]
  rw [if_neg hn]
  unfold Flow.eFun
  have h4 : Real.sqrt u ^ 4 = u * u := by rw [show (4:ℕ) = 2 + 2 by rfl, pow_add, hs]
  rw [h4, hs]
  norm_num
  ring

end SeriesLemmas

namespace SeriesLemmas
theorem sqrt_quarter (u : ℝ) : Real.sqrt (u / 4) = Real.sqrt u / 2 := by
  rw [Real.sqrt_div' u (by norm_num : (0:ℝ) ≤ 4)]
  have : Real.sqrt 4 = 2 := by
    rw [show (4:ℝ) = 2 ^ 2 by norm_num]; exact Real.sqrt_sq (by norm_num)
  rw [this]
end SeriesLemmas
