/-
  Props/C01P.lean — C01 for direct products built with `*` (translated instances).
  `P_MrpR3` = SO3Mrp × R3 (the attitude estimator's state group), `P_SO2R2` = SO2 × R2,
  `P_SE3QuatR3_Dcm` = (SE3Quat × R3) × SO3Dcm, `P_SE3Quat_R3Dcm` = SE3Quat × (R3 × SO3Dcm).
-/
import GenM.Products
import GenM.SO3
import GenM.Rn
import Lib.Rot
import Lib.BlockDiag
import Mathlib.Analysis.SpecialFunctions.Trigonometric.Basic

set_option maxHeartbeats 4000000
open Gen Rot

namespace C01P

macro "cas_mat" : tactic =>
  `(tactic| simp [cas_defs, cas_real, Matrix.mul_apply, Fin.sum_univ_succ])

namespace P_SO2R2
theorem toMatrix_product (a b : Fin 3 → ℝ) :
    P_SO2R2.toMatrix.M_mat (P_SO2R2.product.r_vec a b)
      = P_SO2R2.toMatrix.M_mat a * P_SO2R2.toMatrix.M_mat b := by
  mat_entries <;>
    simp [cas_defs, cas_real, Matrix.mul_apply, Fin.sum_univ_succ, Real.cos_add, Real.sin_add] <;> ring
theorem toMatrix_identity : P_SO2R2.toMatrix.M_mat (P_SO2R2.identity.r_vec (α := ℝ)) = 1 := by
  mat_entries <;> simp [cas_defs, cas_real] <;> (try ring1)
theorem toMatrix_inverse_left (a : Fin 3 → ℝ) :
    P_SO2R2.toMatrix.M_mat (P_SO2R2.inverse.r_vec a) * P_SO2R2.toMatrix.M_mat a = 1 := by
  have h := Real.sin_sq_add_cos_sq (a 0)
  mat_entries <;> cas_mat <;> linarith [h]
theorem identity_left (a : Fin 3 → ℝ) : P_SO2R2.product.r_vec (P_SO2R2.identity.r_vec) a = a := by
  funext i; fin_cases i <;> cas_mat
theorem identity_right (a : Fin 3 → ℝ) : P_SO2R2.product.r_vec a (P_SO2R2.identity.r_vec) = a := by
  funext i; fin_cases i <;> cas_mat
end P_SO2R2

namespace P_SE3QuatR3_Dcm
/-- for every pair of parameter vectors (validity not even needed) -/
theorem toMatrix_product (a b : Fin 19 → ℝ) :
    P_SE3QuatR3_Dcm.toMatrix.M_mat (P_SE3QuatR3_Dcm.product.r_vec a b)
      = P_SE3QuatR3_Dcm.toMatrix.M_mat a * P_SE3QuatR3_Dcm.toMatrix.M_mat b := by
  mat_entries <;> cas_mat <;> ring
theorem toMatrix_identity :
    P_SE3QuatR3_Dcm.toMatrix.M_mat (P_SE3QuatR3_Dcm.identity.r_vec (α := ℝ)) = 1 := by
  mat_entries <;> simp [cas_defs, cas_real] <;> (try ring1)
theorem identity_left (a : Fin 19 → ℝ) :
    P_SE3QuatR3_Dcm.product.r_vec (P_SE3QuatR3_Dcm.identity.r_vec) a = a := by
  funext i; fin_cases i <;> cas_mat
theorem identity_right (a : Fin 19 → ℝ) :
    P_SE3QuatR3_Dcm.product.r_vec a (P_SE3QuatR3_Dcm.identity.r_vec) = a := by
  funext i; fin_cases i <;> cas_mat
/-- nesting of `*` does not matter: (A×B)×C and A×(B×C) are the same group -/
theorem nesting_product (a b : Fin 19 → ℝ) :
    P_SE3Quat_R3Dcm.product.r_vec a b = P_SE3QuatR3_Dcm.product.r_vec a b := by
  funext i; fin_cases i <;> cas_mat
theorem nesting_inverse (a : Fin 19 → ℝ) :
    P_SE3Quat_R3Dcm.inverse.r_vec a = P_SE3QuatR3_Dcm.inverse.r_vec a := by
  funext i; fin_cases i <;> cas_mat
theorem nesting_identity :
    P_SE3Quat_R3Dcm.identity.r_vec (α := ℝ) = P_SE3QuatR3_Dcm.identity.r_vec := by
  funext i; fin_cases i <;> cas_mat
theorem nesting_toMatrix (a : Fin 19 → ℝ) :
    P_SE3Quat_R3Dcm.toMatrix.M_mat a = P_SE3QuatR3_Dcm.toMatrix.M_mat a := by
  mat_entries <;> cas_mat
end P_SE3QuatR3_Dcm

namespace P_MrpR3
def rot (a : Fin 6 → ℝ) : Fin 3 → ℝ := ![a 0, a 1, a 2]
def tr (a : Fin 6 → ℝ) : Fin 3 → ℝ := ![a 3, a 4, a 5]
theorem toMatrix_spec (a : Fin 6 → ℝ) :
    P_MrpR3.toMatrix.M_mat a = diag34 (mrpMat (rot a)) (R3.toMatrix.M_mat (tr a)) := by
  have h : (1 + (a 0 * a 0 + a 1 * a 1 + a 2 * a 2)) ≠ 0 := by
    nlinarith [mul_self_nonneg (a 0), mul_self_nonneg (a 1), mul_self_nonneg (a 2)]
  have h' : (1 + (a 0 ^ 2 + a 1 ^ 2 + a 2 ^ 2)) ≠ 0 := by positivity
  mat_entries <;> simp [cas_defs, cas_real, diag34, mrpMat, qmat, mrpQ, nsq, rot, tr] <;>
    field_simp <;> ring
theorem product_rot (a b : Fin 6 → ℝ) :
    rot (P_MrpR3.product.r_vec a b) = mrpMul (rot a) (rot b) := by
  funext i; fin_cases i <;>
    simp [cas_defs, cas_real, rot, mrpMul, mrpNum, mrpDen, nsq, dot3, cross] <;> ring
theorem product_tr (a b : Fin 6 → ℝ) :
    tr (P_MrpR3.product.r_vec a b) = R3.product.r_vec (tr a) (tr b) := by
  funext i; fin_cases i <;> simp [cas_defs, cas_real, tr] <;> (try ring1)
theorem R3_hom (a b : Fin 3 → ℝ) :
    R3.toMatrix.M_mat (R3.product.r_vec a b) = R3.toMatrix.M_mat a * R3.toMatrix.M_mat b := by
  mat_entries <;> cas_mat <;> ring
theorem toMatrix_product (a b : Fin 6 → ℝ) (h : mrpDen (rot a) (rot b) ≠ 0) :
    P_MrpR3.toMatrix.M_mat (P_MrpR3.product.r_vec a b)
      = P_MrpR3.toMatrix.M_mat a * P_MrpR3.toMatrix.M_mat b := by
  rw [toMatrix_spec, toMatrix_spec, toMatrix_spec, diag34_mul, product_rot, product_tr,
    mrpMat_mul _ _ h, R3_hom]
theorem toMatrix_identity : P_MrpR3.toMatrix.M_mat (P_MrpR3.identity.r_vec (α := ℝ)) = 1 := by
  mat_entries <;> simp [cas_defs, cas_real] <;> (try ring1)
theorem identity_left (a : Fin 6 → ℝ) : P_MrpR3.product.r_vec (P_MrpR3.identity.r_vec) a = a := by
  funext i; fin_cases i <;> cas_mat
theorem identity_right (a : Fin 6 → ℝ) : P_MrpR3.product.r_vec a (P_MrpR3.identity.r_vec) = a := by
  funext i; fin_cases i <;> cas_mat
end P_MrpR3

end C01P
