/-
  Props/C02SM.lean — SE₂(3), MRP form: the group exponential is the matrix exponential on the closed-form cell, by the same
  route as the quaternion form (Props/C02S): exposed matrix = exp X, outputs = from_Matrix of it (semantic equality),
  to_Matrix ∘ from_Matrix = id through C07's matrix → MRP theorem.
-/
import Props.C02S

set_option maxHeartbeats 8000000
open Gen Rot RotExp NormedSpace SeriesLemmas

namespace C02SM
open C02S

theorem SE23Mrp_exp_M (x : Fin 9 → ℝ) : SE23Mrp.exp_p.M_mat x = SE23Quat.exp_p.M_mat x := by
  mat_entries <;> rfl

theorem SE23Mrp_toMatrix_spec (r : Fin 9 → ℝ) :
    SE23Mrp.toMatrix.M_mat r = se23Mat (SO3Mrp.toMatrix.M_mat ![r 6, r 7, r 8]) ![r 3, r 4, r 5] ![r 0, r 1, r 2] := by
  mat_entries <;> simp [cas_defs, cas_real, se23Mat] <;> (try ring1)

theorem SE23Mrp_fromMatrix_spec (M : Matrix (Fin 5) (Fin 5) ℝ) :
    SE23Mrp.fromMatrix.r_vec (fun i j => M i j)
      = ![M 0 4, M 1 4, M 2 4, M 0 3, M 1 3, M 2 3,
          SO3Mrp.fromMatrix.r_vec (fun i j => M (Fin.castLE (by omega) i) (Fin.castLE (by omega) j)) 0,
          SO3Mrp.fromMatrix.r_vec (fun i j => M (Fin.castLE (by omega) i) (Fin.castLE (by omega) j)) 1,
          SO3Mrp.fromMatrix.r_vec (fun i j => M (Fin.castLE (by omega) i) (Fin.castLE (by omega) j)) 2] := by
  funext k; fin_cases k <;> rfl

theorem SE23Mrp_to_from (R : Matrix (Fin 3) (Fin 3) ℝ) (a v : Fin 3 → ℝ) (hrot : IsRot R) :
    SE23Mrp.toMatrix.M_mat (SE23Mrp.fromMatrix.r_vec (fun i j => se23Mat R a v i j)) = se23Mat R a v := by
  obtain ⟨_, h2⟩ := C07.Mrp_fromMatrix R hrot
  rw [SE23Mrp_fromMatrix_spec, SE23Mrp_toMatrix_spec]
  have hb : (fun i j : Fin 3 => se23Mat R a v (Fin.castLE (by omega) i) (Fin.castLE (by omega) j)) = fun i j => R i j := by
    funext i j; fin_cases i <;> fin_cases j <;> rfl
  simp only [hb]
  have hq : (![SO3Mrp.fromMatrix.r_vec (fun i j => R i j) 0, SO3Mrp.fromMatrix.r_vec (fun i j => R i j) 1,
      SO3Mrp.fromMatrix.r_vec (fun i j => R i j) 2] : Fin 3 → ℝ) = SO3Mrp.fromMatrix.r_vec (fun i j => R i j) := by
    funext k; fin_cases k <;> rfl
  show se23Mat (SO3Mrp.toMatrix.M_mat ![SO3Mrp.fromMatrix.r_vec (fun i j => R i j) 0, SO3Mrp.fromMatrix.r_vec (fun i j => R i j) 1,
      SO3Mrp.fromMatrix.r_vec (fun i j => R i j) 2])
      ![se23Mat R a v 0 3, se23Mat R a v 1 3, se23Mat R a v 2 3] ![se23Mat R a v 0 4, se23Mat R a v 1 4, se23Mat R a v 2 4] = se23Mat R a v
  rw [hq, h2]
  have ha : (![se23Mat R a v 0 3, se23Mat R a v 1 3, se23Mat R a v 2 3] : Fin 3 → ℝ) = a := by
    funext i; fin_cases i <;> simp [se23Mat]
  have hv : (![se23Mat R a v 0 4, se23Mat R a v 1 4, se23Mat R a v 2 4] : Fin 3 → ℝ) = v := by
    funext i; fin_cases i <;> simp [se23Mat]
  rw [ha, hv]

theorem mlink0 (x : Fin 9 → ℝ) : SE23Mrp.exp_p.r_0 x = SE23Mrp.fromMatrix.r_0 (fun i j => SE23Mrp.exp_p.M_mat x i j) := by
  simp only [cas_defs, cas_real, Matrix.of_apply, Matrix.cons_val', Matrix.cons_val_zero, Matrix.cons_val_one, Matrix.cons_val_two,
    Matrix.head_cons, Matrix.tail_cons, Matrix.cons_val_fin_one, Matrix.empty_val', Matrix.cons_val_three, Matrix.cons_val_four] <;> (try ring_nf)
theorem mlink1 (x : Fin 9 → ℝ) : SE23Mrp.exp_p.r_1 x = SE23Mrp.fromMatrix.r_1 (fun i j => SE23Mrp.exp_p.M_mat x i j) := by
  simp only [cas_defs, cas_real, Matrix.of_apply, Matrix.cons_val', Matrix.cons_val_zero, Matrix.cons_val_one, Matrix.cons_val_two,
    Matrix.head_cons, Matrix.tail_cons, Matrix.cons_val_fin_one, Matrix.empty_val', Matrix.cons_val_three, Matrix.cons_val_four] <;> (try ring_nf)
theorem mlink2 (x : Fin 9 → ℝ) : SE23Mrp.exp_p.r_2 x = SE23Mrp.fromMatrix.r_2 (fun i j => SE23Mrp.exp_p.M_mat x i j) := by
  simp only [cas_defs, cas_real, Matrix.of_apply, Matrix.cons_val', Matrix.cons_val_zero, Matrix.cons_val_one, Matrix.cons_val_two,
    Matrix.head_cons, Matrix.tail_cons, Matrix.cons_val_fin_one, Matrix.empty_val', Matrix.cons_val_three, Matrix.cons_val_four] <;> (try ring_nf)
theorem mlink3 (x : Fin 9 → ℝ) : SE23Mrp.exp_p.r_3 x = SE23Mrp.fromMatrix.r_3 (fun i j => SE23Mrp.exp_p.M_mat x i j) := by
  simp only [cas_defs, cas_real, Matrix.of_apply, Matrix.cons_val', Matrix.cons_val_zero, Matrix.cons_val_one, Matrix.cons_val_two,
    Matrix.head_cons, Matrix.tail_cons, Matrix.cons_val_fin_one, Matrix.empty_val', Matrix.cons_val_three, Matrix.cons_val_four] <;> (try ring_nf)
theorem mlink4 (x : Fin 9 → ℝ) : SE23Mrp.exp_p.r_4 x = SE23Mrp.fromMatrix.r_4 (fun i j => SE23Mrp.exp_p.M_mat x i j) := by
  simp only [cas_defs, cas_real, Matrix.of_apply, Matrix.cons_val', Matrix.cons_val_zero, Matrix.cons_val_one, Matrix.cons_val_two,
    Matrix.head_cons, Matrix.tail_cons, Matrix.cons_val_fin_one, Matrix.empty_val', Matrix.cons_val_three, Matrix.cons_val_four] <;> (try ring_nf)
theorem mlink5 (x : Fin 9 → ℝ) : SE23Mrp.exp_p.r_5 x = SE23Mrp.fromMatrix.r_5 (fun i j => SE23Mrp.exp_p.M_mat x i j) := by
  simp only [cas_defs, cas_real, Matrix.of_apply, Matrix.cons_val', Matrix.cons_val_zero, Matrix.cons_val_one, Matrix.cons_val_two,
    Matrix.head_cons, Matrix.tail_cons, Matrix.cons_val_fin_one, Matrix.empty_val', Matrix.cons_val_three, Matrix.cons_val_four] <;> (try ring_nf)
theorem mlink6 (x : Fin 9 → ℝ) : SE23Mrp.exp_p.r_6 x = SE23Mrp.fromMatrix.r_6 (fun i j => SE23Mrp.exp_p.M_mat x i j) := by
  simp only [cas_defs, cas_real, Matrix.of_apply, Matrix.cons_val', Matrix.cons_val_zero, Matrix.cons_val_one, Matrix.cons_val_two,
    Matrix.head_cons, Matrix.tail_cons, Matrix.cons_val_fin_one, Matrix.empty_val', Matrix.cons_val_three, Matrix.cons_val_four] <;> (try ring_nf)
theorem mlink7 (x : Fin 9 → ℝ) : SE23Mrp.exp_p.r_7 x = SE23Mrp.fromMatrix.r_7 (fun i j => SE23Mrp.exp_p.M_mat x i j) := by
  simp only [cas_defs, cas_real, Matrix.of_apply, Matrix.cons_val', Matrix.cons_val_zero, Matrix.cons_val_one, Matrix.cons_val_two,
    Matrix.head_cons, Matrix.tail_cons, Matrix.cons_val_fin_one, Matrix.empty_val', Matrix.cons_val_three, Matrix.cons_val_four] <;> (try ring_nf)
theorem mlink8 (x : Fin 9 → ℝ) : SE23Mrp.exp_p.r_8 x = SE23Mrp.fromMatrix.r_8 (fun i j => SE23Mrp.exp_p.M_mat x i j) := by
  simp only [cas_defs, cas_real, Matrix.of_apply, Matrix.cons_val', Matrix.cons_val_zero, Matrix.cons_val_one, Matrix.cons_val_two,
    Matrix.head_cons, Matrix.tail_cons, Matrix.cons_val_fin_one, Matrix.empty_val', Matrix.cons_val_three, Matrix.cons_val_four] <;> (try ring_nf)

theorem mrp_exp_is_probed (x : Fin 9 → ℝ) : SE23Mrp.exp.r_vec x = SE23Mrp.exp_p.r_vec x := by
  funext k; fin_cases k <;> rfl

theorem mrp_exp_is_fromMatrix (x : Fin 9 → ℝ) :
    SE23Mrp.exp_p.r_vec x = SE23Mrp.fromMatrix.r_vec (fun i j => SE23Mrp.exp_p.M_mat x i j) := by
  funext k; fin_cases k
  · exact mlink0 x
  · exact mlink1 x
  · exact mlink2 x
  · exact mlink3 x
  · exact mlink4 x
  · exact mlink5 x
  · exact mlink6 x
  · exact mlink7 x
  · exact mlink8 x

/-- **SE₂(3), MRP form: the group exponential is the matrix exponential** on the closed-form cell -/
theorem SE23Mrp_exp (x : Fin 9 → ℝ) (h : eps ≤ C02.usq (wv x)) :
    SE23Mrp.toMatrix.M_mat (SE23Mrp.exp.r_vec x) = exp (se23.toMatrix.M_mat x) := by
  have hE : exp (se23.toMatrix.M_mat x) = se23Mat (exp (hat (wv x))) ((Vmat (wv x)).mulVec (vv x)) ((Vmat (wv x)).mulVec (pv x)) := by
    rw [se23_hat, exp_se23Hat]
  rw [mrp_exp_is_probed, mrp_exp_is_fromMatrix, SE23Mrp_exp_M, SE23Quat_exp_M_exp x h, hE]
  exact SE23Mrp_to_from _ _ _ (isRot_exp_hat _)

end C02SM
