/-
  Cas/Real.lean — the real-number reading of CasADi's scalar opcodes.

  This instance is the semantic half of the trusted base: it says what each opcode
  *means* over ℝ.  Floating-point rounding, signed zeros, NaN and ±∞ are not
  modelled; partial operations are totalised the Mathlib way (x/0 = 0, sqrt of a
  negative = 0, …) and therefore every theorem that goes through such a node must
  carry (or prove) the corresponding well-definedness hypothesis.
-/
import Cas.Num
import Cas.Attr
import Mathlib.Analysis.SpecialFunctions.Trigonometric.Arctan
import Mathlib.Analysis.SpecialFunctions.Trigonometric.Inverse
import Mathlib.Analysis.SpecialFunctions.Complex.Arg
import Mathlib.Analysis.SpecialFunctions.Pow.Real
import Mathlib.Analysis.SpecialFunctions.Sqrt
import Mathlib.Algebra.Order.Floor.Defs
import Mathlib.Algebra.Order.Round
import Mathlib.Tactic.Ring
import Mathlib.Tactic.NormNum
import Mathlib.Tactic.FieldSimp
import Mathlib.Tactic.Linarith
import Mathlib.Tactic.FinCases
import Mathlib.LinearAlgebra.Matrix.Notation
import Mathlib.Data.Matrix.Mul
import Mathlib.Data.Matrix.Reflection

noncomputable section

namespace CasReal

/-- 0/1 encoding of a proposition -/
def b2r (p : Prop) [Decidable p] : ℝ := if p then 1 else 0

/-- C `atan2(y, x)`: the argument of x + i y in (-π, π]  (signed zeros not modelled) -/
def atan2 (y x : ℝ) : ℝ := Complex.arg ⟨x, y⟩

/-- round to nearest integer, ties to even (C `remainder`'s quotient) -/
def roundHalfEven (q : ℝ) : ℤ :=
  if Int.fract q = 1 / 2 then (if Even ⌊q⌋ then ⌊q⌋ else ⌊q⌋ + 1) else round q

def remainder (x y : ℝ) : ℝ := x - (roundHalfEven (x / y) : ℝ) * y

/-- C `fmod`: x - trunc(x/y) * y -/
def fmod (x y : ℝ) : ℝ :=
  let q := x / y
  x - (if q < 0 then (⌈q⌉ : ℝ) else (⌊q⌋ : ℝ)) * y

def sign (x : ℝ) : ℝ := if x < 0 then -1 else if 0 < x then 1 else 0

end CasReal

open Classical in
instance : CasNum ℝ where
  ofInt n := (n : ℝ)
  ofDyadic m e := (m : ℝ) * (2 : ℝ) ^ e
  nonFinite _ := 0   -- no real value: only reachable through x/0 in a branch the program does not select;
                     -- every theorem through such a node needs the branch condition (stated in DESIGN trusted base)
  add := (· + ·)
  sub := (· - ·)
  mul := (· * ·)
  div := (· / ·)
  neg := (- ·)
  sq x := x * x
  twice x := 2 * x
  inv x := 1 / x
  sqrt := Real.sqrt
  sin := Real.sin
  cos := Real.cos
  tan := Real.tan
  asin := Real.arcsin
  acos := Real.arccos
  atan := Real.arctan
  atan2 := CasReal.atan2
  exp := Real.exp
  log := Real.log
  pow := Real.rpow
  fabs x := |x|
  sign := CasReal.sign
  floor x := (⌊x⌋ : ℝ)
  ceil x := (⌈x⌉ : ℝ)
  fmin := min
  fmax := max
  fmod := CasReal.fmod
  remainder := CasReal.remainder
  lt a b := CasReal.b2r (a < b)
  le a b := CasReal.b2r (a ≤ b)
  eq a b := CasReal.b2r (a = b)
  ne a b := CasReal.b2r (a ≠ b)
  not a := CasReal.b2r (a = 0)
  and a b := CasReal.b2r (a ≠ 0 ∧ b ≠ 0)
  or a b := CasReal.b2r (a ≠ 0 ∨ b ≠ 0)
  ifz c a := if c ≠ 0 then a else 0

namespace CasReal
variable (a b c : ℝ) (n m e : ℤ)

@[cas_real] theorem ofInt_eq : (CasNum.ofInt n : ℝ) = (n : ℝ) := rfl
@[cas_real] theorem ofDyadic_eq : (CasNum.ofDyadic m e : ℝ) = (m : ℝ) * (2 : ℝ) ^ e := rfl
@[cas_real] theorem nonFinite_eq (k : ℤ) : (CasNum.nonFinite k : ℝ) = 0 := rfl
@[cas_real] theorem add_eq : CasNum.add a b = a + b := rfl
@[cas_real] theorem sub_eq : CasNum.sub a b = a - b := rfl
@[cas_real] theorem mul_eq : CasNum.mul a b = a * b := rfl
@[cas_real] theorem div_eq : CasNum.div a b = a / b := rfl
@[cas_real] theorem neg_eq : CasNum.neg a = -a := rfl
@[cas_real] theorem sq_eq : CasNum.sq a = a * a := rfl
@[cas_real] theorem twice_eq : CasNum.twice a = 2 * a := rfl
@[cas_real] theorem inv_eq : CasNum.inv a = 1 / a := rfl
@[cas_real] theorem sqrt_eq : CasNum.sqrt a = Real.sqrt a := rfl
@[cas_real] theorem sin_eq : CasNum.sin a = Real.sin a := rfl
@[cas_real] theorem cos_eq : CasNum.cos a = Real.cos a := rfl
@[cas_real] theorem tan_eq : CasNum.tan a = Real.tan a := rfl
@[cas_real] theorem asin_eq : CasNum.asin a = Real.arcsin a := rfl
@[cas_real] theorem acos_eq : CasNum.acos a = Real.arccos a := rfl
@[cas_real] theorem atan_eq : CasNum.atan a = Real.arctan a := rfl
@[cas_real] theorem atan2_eq : CasNum.atan2 a b = CasReal.atan2 a b := rfl
@[cas_real] theorem exp_eq : CasNum.exp a = Real.exp a := rfl
@[cas_real] theorem log_eq : CasNum.log a = Real.log a := rfl
@[cas_real] theorem pow_eq : CasNum.pow a b = Real.rpow a b := rfl
@[cas_real] theorem fabs_eq : CasNum.fabs a = |a| := rfl
@[cas_real] theorem sign_eq : CasNum.sign a = CasReal.sign a := rfl
@[cas_real] theorem floor_eq : CasNum.floor a = (⌊a⌋ : ℝ) := rfl
@[cas_real] theorem ceil_eq : CasNum.ceil a = (⌈a⌉ : ℝ) := rfl
@[cas_real] theorem fmin_eq : CasNum.fmin a b = min a b := rfl
@[cas_real] theorem fmax_eq : CasNum.fmax a b = max a b := rfl
@[cas_real] theorem fmod_eq : CasNum.fmod a b = CasReal.fmod a b := rfl
@[cas_real] theorem remainder_eq : CasNum.remainder a b = CasReal.remainder a b := rfl
@[cas_real] theorem lt_eq : CasNum.lt a b = if a < b then 1 else 0 := rfl
@[cas_real] theorem le_eq : CasNum.le a b = if a ≤ b then 1 else 0 := rfl
@[cas_real] theorem eq_eq : CasNum.eq a b = if a = b then 1 else 0 := rfl
@[cas_real] theorem ne_eq : CasNum.ne a b = if a ≠ b then 1 else 0 := rfl
@[cas_real] theorem not_eq : CasNum.not a = if a = 0 then 1 else 0 := rfl
@[cas_real] theorem and_eq : CasNum.and a b = if a ≠ 0 ∧ b ≠ 0 then 1 else 0 := rfl
@[cas_real] theorem or_eq : CasNum.or a b = if a ≠ 0 ∨ b ≠ 0 then 1 else 0 := rfl
@[cas_real] theorem ifz_eq : CasNum.ifz c a = if c ≠ 0 then a else 0 := rfl

/-- CasADi lowers `if_else(c, a, b)` to `ifz c a + ifz (not c) b`. -/
theorem ifelse_shape (p : Prop) [Decidable p] (x y : ℝ) :
    (if (if p then (1:ℝ) else 0) ≠ 0 then x else 0)
      + (if (if (if p then (1:ℝ) else 0) = 0 then (1:ℝ) else 0) ≠ 0 then y else 0)
    = if p then x else y := by
  by_cases h : p <;> simp [h]

end CasReal

end

/-- unfold translated definitions down to real-number expressions -/
macro "cas_unfold" : tactic =>
  `(tactic| simp only [cas_defs, cas_real])

namespace CasReal
/-! normal forms for CasADi's 0/1 encoded conditions -/
@[cas_real] theorem ite01_ne_zero (p : Prop) [Decidable p] : ((if p then (1:ℝ) else 0) ≠ 0) ↔ p := by
  by_cases h : p <;> simp [h]
@[cas_real] theorem ite01_eq_zero (p : Prop) [Decidable p] : ((if p then (1:ℝ) else 0) = 0) ↔ ¬p := by
  by_cases h : p <;> simp [h]
/-- `if_else(c, x, y)` as CasADi lowers it -/
@[cas_real] theorem ite_add_ite_not (p : Prop) [Decidable p] (x y : ℝ) :
    (if p then x else 0) + (if ¬p then y else 0) = if p then x else y := by
  by_cases h : p <;> simp [h]
end CasReal

attribute [cas_real] Int.cast_zero Int.cast_one Int.cast_ofNat Int.cast_neg Int.cast_natCast
