/- simp sets used by generated code and proofs (core Lean only). -/
import Lean.Meta.Tactic.Simp.RegisterCommand

/-- unfolding equations of generated (translated) definitions -/
register_simp_attr cas_defs
/-- unfolding equations of the translated SERIES / SQUARED_SERIES entries -/
register_simp_attr cas_series
/-- `CasNum ℝ` field projections to ordinary real-number operations -/
register_simp_attr cas_real
