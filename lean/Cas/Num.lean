/-
  Cas/Num.lean — the numeric carrier of translated CasADi SX programs.

  One class, two instances:
    * `Float`  (this file, no Mathlib)  — used to RUN a translated definition against
      the real `casadi.Function` in the correspondence check;
    * `ℝ`      (Cas/Real.lean)          — used to PROVE about the very same definition.

  Every field is one CasADi scalar opcode (casadi/core/calculus.hpp).  Comparison
  and logic opcodes return 0/1 in the carrier, `ifz c a` is OP_IF_ELSE_ZERO
  (`c != 0 ? a : 0`).
-/

class CasNum (α : Type) where
  ofInt     : Int → α                 -- integer-valued double constant
  ofDyadic  : Int → Int → α           -- m * 2^e : exact value of any other finite double
  nonFinite : Int → α                 -- +inf (1), -inf (-1), nan (0): constant-folded x/0 in dead branches
  add  : α → α → α
  sub  : α → α → α
  mul  : α → α → α
  div  : α → α → α
  neg  : α → α
  sq   : α → α
  twice : α → α
  inv  : α → α
  sqrt : α → α
  sin  : α → α
  cos  : α → α
  tan  : α → α
  asin : α → α
  acos : α → α
  atan : α → α
  atan2 : α → α → α
  exp  : α → α
  log  : α → α
  pow  : α → α → α
  fabs : α → α
  sign : α → α
  floor : α → α
  ceil : α → α
  fmin : α → α → α
  fmax : α → α → α
  fmod : α → α → α
  remainder : α → α → α
  lt   : α → α → α
  le   : α → α → α
  eq   : α → α → α
  ne   : α → α → α
  not  : α → α
  and  : α → α → α
  or   : α → α → α
  ifz  : α → α → α

namespace CasFloat

def b2f (b : Bool) : Float := if b then 1.0 else 0.0

/-- exact: |m| < 2^63 is converted with one rounding only when |m| ≥ 2^53, which the
    translator never emits (mantissas are < 2^53). -/
def ofDyadic (m : Int) (e : Int) : Float := (Float.ofInt m).scaleB e

def sign (x : Float) : Float :=
  if x < 0.0 then -1.0 else if x > 0.0 then 1.0 else x   -- casadi: x<0 ? -1 : x>0 ? 1 : x

/-- C `fmod`: x - trunc(x/y)*y computed exactly; Lean has no binding, so we use the
    defining property on doubles via repeated exact reduction is overkill here:
    cyecca's programs do not contain OP_FMOD; provided for completeness (not exact
    for huge quotients). -/
def fmod (x y : Float) : Float :=
  let q := x / y
  let t := if q < 0.0 then q.ceil else q.floor
  x - t * y

/-- C `remainder`: x - n*y with n = x/y rounded to nearest (ties to even), computed EXACTLY as C does.
    Lean has no binding for it; for |x/y| < 2^26 the product n*y is formed exactly from a Veltkamp
    split of y and the subtraction is exact, which reproduces libm's result bit for bit. -/
def remainder (x y : Float) : Float :=
  let q := x / y
  let fl := q.floor
  let n0 := q.round   -- half away from zero
  let n := if (q - fl == 0.5) then (if (fl / 2.0).floor * 2.0 == fl then fl else fl + 1.0) else n0
  let c := 134217729.0 * y
  let yh := c - (c - y)
  let yl := y - yh
  let r := (x - n * yh) - n * yl
  let h := y.abs / 2.0
  -- repair a quotient that was mis-rounded by the inexact division
  if r > h then (r - yh.abs) - (if y < 0.0 then -yl else yl)
  else if r < -h then (r + yh.abs) + (if y < 0.0 then -yl else yl)
  else r

end CasFloat

instance : CasNum Float where
  ofInt n := Float.ofInt n
  ofDyadic := CasFloat.ofDyadic
  nonFinite k := if k > 0 then 1.0 / 0.0 else if k < 0 then -1.0 / 0.0 else 0.0 / 0.0
  add := (· + ·)
  sub := (· - ·)
  mul := (· * ·)
  div := (· / ·)
  neg := (- ·)
  sq x := x * x
  twice x := 2.0 * x
  inv x := 1.0 / x
  sqrt := Float.sqrt
  sin := Float.sin
  cos := Float.cos
  tan := Float.tan
  asin := Float.asin
  acos := Float.acos
  atan := Float.atan
  atan2 := Float.atan2
  exp := Float.exp
  log := Float.log
  pow := Float.pow
  fabs := Float.abs
  sign := CasFloat.sign
  floor := Float.floor
  ceil := Float.ceil
  fmin a b := if a < b then a else if b < a then b else if a.isNaN then b else a
  fmax a b := if a > b then a else if b > a then b else if a.isNaN then b else a
  fmod := CasFloat.fmod
  remainder := CasFloat.remainder
  lt a b := CasFloat.b2f (a < b)
  le a b := CasFloat.b2f (a ≤ b)
  eq a b := CasFloat.b2f (a == b)
  ne a b := CasFloat.b2f (a != b)
  not a := CasFloat.b2f (a == 0.0)
  and a b := CasFloat.b2f (a != 0.0 && b != 0.0)
  or a b := CasFloat.b2f (a != 0.0 || b != 0.0)
  ifz c a := if c != 0.0 then a else 0.0
