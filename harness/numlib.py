"""Numeric access to the REAL cyecca functions (un-patched), by catalog name."""
from __future__ import annotations

import os
import sys

import numpy as np

HERE = os.path.dirname(os.path.abspath(__file__))
VERIF = os.path.dirname(HERE)
REPO = os.environ.get("CYECCA_REPO", "/repo")
sys.path.insert(0, REPO)
sys.path.insert(0, os.path.join(VERIF, "tools", "extract"))

import casadi as ca  # noqa: E402
import core  # noqa: E402
import catalog  # noqa: E402

_SPECS = {}
_FUNS = {}
_ERR = {}


def _load(mod):
    if mod in _SPECS:
        return
    _SPECS[mod] = {sp.name: sp for sp in catalog.MODULES[mod][0]()}


def spec(mod, name):
    _load(mod)
    return _SPECS[mod][name]


def F(mod, name):
    """numeric callable: (*np arrays) -> list of np arrays (matrix outputs as 2-D)"""
    key = (mod, name)
    if key in _FUNS:
        return _FUNS[key]
    if key in _ERR:
        raise _ERR[key]
    sp = spec(mod, name)
    try:
        g = core.numeric_function(sp)
    except Exception as e:
        _ERR[key] = e
        raise
    shapes = [s for _, s in sp.inputs]

    def call(*args):
        dm = []
        for a, (r, c) in zip(args, shapes):
            dm.append(ca.DM(np.asarray(a, dtype=float).reshape((r, c))))
        res = g.call(dm)
        out = []
        for o in res:
            arr = np.array(ca.DM(o))
            out.append(arr[:, 0] if arr.shape[1] == 1 and arr.shape[0] > 1 else (arr if arr.size > 1 else float(arr)))
        return out[0] if len(out) == 1 else out

    _FUNS[key] = call
    return call


def offered(mod, name):
    """True if the entry point exists and builds; False if it raises NotImplementedError;
    re-raises any other exception"""
    try:
        F(mod, name)
        return True
    except NotImplementedError:
        return False


# ---------------------------------------------------------------- samplers

def unit_quat(rng, sign=None):
    q = rng.standard_normal(4)
    q /= np.linalg.norm(q)
    if sign is not None and np.sign(q[0]) != sign:
        q = -q
    return q


def quat_axis_angle(axis, ang):
    axis = np.asarray(axis, float); axis = axis / np.linalg.norm(axis)
    return np.concatenate([[np.cos(ang / 2)], np.sin(ang / 2) * axis])


def rand_axis(rng):
    v = rng.standard_normal(3)
    return v / np.linalg.norm(v)


def quat_to_R(q):
    a, b, c, d = q
    return np.array([[a*a+b*b-c*c-d*d, 2*(b*c-a*d), 2*(b*d+a*c)],
                     [2*(b*c+a*d), a*a+c*c-b*b-d*d, 2*(c*d-a*b)],
                     [2*(b*d-a*c), 2*(c*d+a*b), a*a+d*d-b*b-c*c]])


def hat(w):
    return np.array([[0, -w[2], w[1]], [w[2], 0, -w[0]], [-w[1], w[0], 0]])


def expm(A):
    """matrix exponential by scaling and squaring + Taylor (independent of scipy)"""
    A = np.asarray(A, float)
    nrm = np.linalg.norm(A, 1)
    s = max(0, int(np.ceil(np.log2(max(nrm, 1e-300)))) + 3) if nrm > 0 else 0
    B = A / (2 ** s)
    E = np.eye(A.shape[0]); term = np.eye(A.shape[0])
    for k in range(1, 30):
        term = term @ B / k
        E = E + term
    for _ in range(s):
        E = E @ E
    return E


def quat_mul(q, p):
    a, b, c, d = q; e, f, g, h = p
    return np.array([a*e - b*f - c*g - d*h, b*e + a*f - d*g + c*h, c*e + d*f + a*g - b*h, d*e - c*f + b*g + a*h])
