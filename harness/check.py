"""
./check <Cnn> [--tier quick|thorough] [--replay <file>]

Same skeleton for every property (DESIGN.md §1.4):
  1 extract  : regenerate the Lean models from /repo's working tree
  2 tie      : Float instance of every model vs the real casadi.Function
  3 prove    : lake build Props.<Cnn>   (per-theorem status parsed from the log)
  4 audit    : #print axioms of every property theorem; forbidden-token grep
  5 search   : failing-input search on the REAL code (always run; it is what supplies
               the replay when an obligation or a tie breaks)
  6 decide + evidence
Exit 0: everything proved / agreed / nothing found.  Exit 1 + VIOLATION line otherwise.
Exit 2: infrastructure failure (timeouts, tool crash) — never 0 or 1.
"""
from __future__ import annotations

import argparse
import fcntl
import hashlib
import importlib
import json
import os
import re
import subprocess
import sys
import time
import traceback

HERE = os.path.dirname(os.path.abspath(__file__))
VERIF = os.path.dirname(HERE)
LEAN = os.path.join(VERIF, "lean")
WORK = os.path.join(VERIF, "work")
REPO = os.environ.get("CYECCA_REPO", "/repo")
PY = "/venv/bin/python"
sys.path.insert(0, REPO)
sys.path.insert(0, HERE)
sys.path.insert(0, os.path.join(VERIF, "tools", "extract"))

ALLOWED_AXIOMS = {"propext", "Classical.choice", "Quot.sound"}
FORBIDDEN = re.compile(r"\b(sorry|admit|native_decide|bv_decide|implemented_by|unsafe)\b|^\s*axiom\s|maxHeartbeats\s+0\b")

TRUSTED_BASE = [
    "Lean 4.33 kernel; axioms allowed: propext, Classical.choice, Quot.sound (audited by #print axioms each run)",
    "Mathlib v4.33 definitions of real functions / matrices as the meaning of CasADi opcodes (lean/Cas/Real.lean, ~60 lines)",
    "translator tools/extract (validated each run by the Float-vs-casadi.Function correspondence, not verified)",
    "CasADi: Function evaluation and AD used inside cyecca",
    "real-number semantics: floating-point rounding / NaN / overflow not modelled",
]


def sh(cmd, cwd=None, timeout=None, env=None):
    p = subprocess.run(cmd, cwd=cwd, capture_output=True, text=True, timeout=timeout, env=env)
    return p.returncode, p.stdout + p.stderr


def sh_budget(cmd, cwd, budget):
    """run a build under a wall-clock budget; on expiry the whole process group is killed (lake's lean children too).
    Returns (rc, output, expired)."""
    import signal
    p = subprocess.Popen(cmd, cwd=cwd, stdout=subprocess.PIPE, stderr=subprocess.STDOUT, text=True, start_new_session=True)
    try:
        out, _ = p.communicate(timeout=budget)
        return p.returncode, out, False
    except subprocess.TimeoutExpired:
        try:
            os.killpg(p.pid, signal.SIGKILL)
        except ProcessLookupError:
            pass
        out, _ = p.communicate()
        return 1, out or "", True


def strip_comments(src: str) -> str:
    out, i, depth = [], 0, 0
    while i < len(src):
        if src.startswith("/-", i):
            depth += 1; i += 2; continue
        if src.startswith("-/", i) and depth > 0:
            depth -= 1; i += 2; continue
        if depth == 0 and src.startswith("--", i):
            j = src.find("\n", i)
            i = len(src) if j < 0 else j
            continue
        if depth == 0:
            out.append(src[i])
        elif src[i] == "\n":
            out.append("\n")
        i += 1
    return "".join(out)


def theorems_of(path: str):
    """[(name, first_line, last_line)] of theorem declarations in a Lean file"""
    src = strip_comments(open(path).read())
    lines = src.split("\n")
    ths = []
    ns_stack = []
    for k, l in enumerate(lines):
        m = re.match(r"\s*namespace\s+(\S+)", l)
        if m:
            ns_stack.append(m.group(1))
        m = re.match(r"\s*end\s+(\S+)", l)
        if m and ns_stack and ns_stack[-1] == m.group(1):
            ns_stack.pop()
        m = re.match(r"\s*(?:@\[[^\]]*\]\s*)?(?:private\s+|protected\s+)?theorem\s+(\S+)", l)
        if m:
            ths.append([".".join(ns_stack + [m.group(1)]), k + 1, None])
    for i, t in enumerate(ths):
        t[2] = ths[i + 1][1] - 1 if i + 1 < len(ths) else len(lines)
    return [tuple(t) for t in ths]


def lean_sources(targets):
    files = []
    for t in targets:
        files.append(os.path.join(LEAN, t.replace(".", "/") + ".lean"))
    return files


def transitive_hand_sources(files):
    """hand-written Lean files imported (transitively) by `files` (Lib/, Model/, Props/, Cas/)"""
    seen, todo = set(), list(files)
    while todo:
        f = todo.pop()
        if f in seen or not os.path.exists(f):
            continue
        seen.add(f)
        for m in re.finditer(r"^import\s+(\S+)", open(f).read(), re.M):
            mod = m.group(1)
            if mod.split(".")[0] in ("Lib", "Model", "Props", "Cas"):
                todo.append(os.path.join(LEAN, mod.replace(".", "/") + ".lean"))
    return sorted(seen)


class Ctx:
    def __init__(self, pid, tier, seed):
        self.pid, self.tier, self.seed = pid, tier, seed
        self.failed = []      # [{"obligation":..., "kind":..., "detail":...}]
        self.replays = []     # [{"obligation":..., "path":..., "found": bool, "what": str}]
        self.notes = []
        self.obligations = []  # names
        self.discharged = []
        self.samples = []
        self.extra = {}

    def fail(self, obligation, kind, detail):
        self.failed.append({"obligation": obligation, "kind": kind, "detail": detail})


def write_replay(pid, payload) -> str:
    os.makedirs(os.path.join(WORK, "replay"), exist_ok=True)
    h = hashlib.sha1(json.dumps(payload, sort_keys=True, default=str).encode()).hexdigest()[:10]
    path = os.path.join(WORK, "replay", "%s-%s.json" % (pid, h))
    with open(path, "w") as fh:
        json.dump(payload, fh, indent=1, default=str)
    return path


def load_known():
    try:
        return json.load(open(os.path.join(VERIF, "known_findings.json")))
    except FileNotFoundError:
        return {"findings": [], "fixed": []}


def run_property(pid, tier, seed):
    t0 = time.time()
    P = importlib.import_module("props." + pid)
    ctx = Ctx(pid, tier, seed)
    os.makedirs(WORK, exist_ok=True)

    # ---- 1 extract -----------------------------------------------------------
    mods = list(getattr(P, "MODULES", []))
    if mods:
        rc, out = sh([PY, os.path.join(VERIF, "tools", "extract", "gen.py")] + mods, timeout=1800)
        if rc != 0:
            print(out[-3000:])
            print("extract failed (infrastructure)")
            return 2
        relevant = getattr(P, "relevant", lambda fn: True)
        for m in mods:
            summ = json.load(open(os.path.join(WORK, "extract", m + ".json")))
            for fn, e in summ["errors"].items():
                if e["kind"] == "NotImplementedError":
                    continue
                if e["kind"] == "CatalogError":
                    ctx.fail("extract:" + fn, "catalog-broken", e)
                    continue
                if e["kind"] == "ProbeError":
                    # not a failing call: a proof obligation organised around an intermediate value can no longer be stated
                    if relevant(fn):
                        ctx.fail("extract:" + fn, "probe-missing", e)
                    continue
                if relevant(fn):
                    ctx.fail("extract:" + fn, "raises", e)
                    ctx.replays.append({"obligation": "extract:" + fn, "found": True,
                                        "what": "call raises %s: %s" % (e["kind"], e["msg"][:200]),
                                        "payload": {"kind": "call-raises", "function": fn, "error": e}})
    # ---- 2 tie ---------------------------------------------------------------
    tie_stats = None
    if mods:
        rc0, out0 = sh(["lake", "build"] + ["Gen." + m for m in mods], cwd=LEAN, timeout=7200)
        if rc0 != 0:
            ctx.fail("build:Gen", "generated-model-does-not-compile", {"log": out0[-3000:]})
    if mods:
        import tie as tiemod
        n = int(os.environ.get("TIE_N", "60" if tier == "quick" else "1500"))
        try:
            tie_stats = tiemod.tie_modules(mods, n=n, seed=seed, tag=pid)
        except Exception as e:
            ctx.fail("tie:" + ",".join(mods), "driver", {"msg": str(e)[-3000:]})
            tie_stats = {"functions": {}, "mismatches": [], "requests": 0, "skipped": {}}
        for fn, st in tie_stats["functions"].items():
            if st["bad"]:
                ctx.fail("tie:" + fn, "correspondence", st)
        ctx.extra["tie"] = {"functions": len(tie_stats["functions"]), "requests": tie_stats["requests"],
                            "mismatching_functions": sum(1 for s in tie_stats["functions"].values() if s["bad"]),
                            "max_ulp": max((s["max_ulp"] for s in tie_stats["functions"].values()), default=0)}
    # property-specific ties (hand models)
    if hasattr(P, "tie"):
        try:
            P.tie(ctx)
        except Exception:
            ctx.fail("tie:hand-model", "exception", {"trace": traceback.format_exc()[-3000:]})

    # ---- 3 prove -------------------------------------------------------------
    targets = list(getattr(P, "LEAN_TARGETS", ["Props." + pid]))
    files = lean_sources(targets)
    ths = []
    for f in files:
        for (nm, a, b) in theorems_of(f):
            ths.append((f, nm, a, b))
    ctx.obligations = [nm for _, nm, _, _ in ths]
    # a proof script that no longer terminates on a changed program (observed: 17 min at 9 cores, half the memory, on a seeded change)
    # is a proof that no longer checks: bounded, then the search decides
    budget = int(os.environ.get("VERIF_PROOF_BUDGET", "1500" if tier == "quick" else "7200"))
    rc, out, expired = sh_budget(["lake", "build"] + targets, LEAN, budget)
    failed_names = set()
    if expired:
        ctx.fail("build:" + ",".join(targets), "proof-budget-exceeded", {"budget_s": budget, "log": out[-2000:]})
        failed_names = set(ctx.obligations)
    elif rc != 0:
        errs = re.findall(r"error: (\S+?\.lean):(\d+):(\d+): (.*)", out)
        attributed = False
        for (ef, ln, col, msg) in errs:
            full = os.path.join(LEAN, ef) if not os.path.isabs(ef) else ef
            for (f, nm, a, b) in ths:
                if os.path.samefile(f, full) if os.path.exists(full) else False:
                    if a <= int(ln) <= b:
                        failed_names.add(nm)
                        ctx.fail("theorem:" + nm, "proof-broken", {"file": ef, "line": int(ln), "msg": msg[:500]})
                        attributed = True
        if not attributed:
            # failure in a dependency (Lib/, Gen/, GenM/): every obligation is unproved
            ctx.fail("build:" + ",".join(targets), "build-failed", {"log": out[-4000:]})
            failed_names = set(ctx.obligations)
    ctx.discharged = [n for n in ctx.obligations if n not in failed_names]

    # ---- 4 audit -------------------------------------------------------------
    hand = transitive_hand_sources(files)
    for f in hand:
        for k, l in enumerate(strip_comments(open(f).read()).split("\n")):
            if FORBIDDEN.search(l):
                ctx.fail("audit:" + os.path.relpath(f, LEAN), "forbidden-token", {"line": k + 1, "text": l.strip()[:200]})
    axioms_seen = {}
    if rc == 0 and ths:
        os.makedirs(os.path.join(WORK, "audit"), exist_ok=True)
        ap = os.path.join(WORK, "audit", pid + ".lean")
        with open(ap, "w") as fh:
            for t in targets:
                fh.write("import %s\n" % t)
            for _, nm, _, _ in ths:
                fh.write("#print axioms %s\n" % nm)
        rc2, out2 = sh(["lake", "env", "lean", ap], cwd=LEAN, timeout=1800)
        for m in re.finditer(r"'([^']+)' depends on axioms: \[([^\]]*)\]", out2):
            axs = set(a.strip() for a in m.group(2).split(",") if a.strip())
            axioms_seen[m.group(1)] = sorted(axs)
            if not axs <= ALLOWED_AXIOMS:
                ctx.fail("audit:" + m.group(1), "axioms", {"axioms": sorted(axs)})
        for m in re.finditer(r"'([^']+)' does not depend on any axioms", out2):
            axioms_seen[m.group(1)] = []
        missing = [nm for _, nm, _, _ in ths if nm not in axioms_seen]
        if rc2 != 0 or missing:
            ctx.fail("audit:axioms", "audit-failed", {"missing": missing[:20], "log": out2[-1500:]})
        if tier == "thorough":
            rc3, out3 = sh(["lake", "env", "leanchecker"] + targets, cwd=LEAN, timeout=7200)
            ctx.extra["leanchecker"] = {"rc": rc3, "tail": out3[-300:]}
            if rc3 != 0:
                ctx.fail("audit:leanchecker", "leanchecker", {"log": out3[-1500:]})
    ctx.extra["axioms"] = {"theorems": len(axioms_seen),
                           "union": sorted(set(a for v in axioms_seen.values() for a in v))}

    # ---- 5 failing-input search on the real code --------------------------------
    found = []
    search_stats = {}
    if hasattr(P, "search"):
        try:
            found, search_stats = P.search(ctx)
        except Exception:
            ctx.fail("search", "exception", {"trace": traceback.format_exc()[-3000:]})
    ctx.extra["search"] = search_stats

    # ---- 6 decide ------------------------------------------------------------
    known = load_known()
    known_here = [k for k in known.get("findings", []) if k["property"] == pid]
    violations = []
    known_hits = []

    def match_known(case_id):
        for k in known_here:
            if k["case"] == case_id:
                return k
        return None

    # concrete failing inputs from the search
    for fnd in found:
        k = match_known(fnd["case"])
        if k:
            known_hits.append((k, fnd))
        else:
            violations.append({"found": True, "obligation": fnd.get("obligation", "search:" + fnd["case"]),
                               "payload": fnd})
    for r in ctx.replays:
        case = r["payload"].get("function", r["obligation"])
        k = match_known("raises:" + case)
        if k:
            known_hits.append((k, r["payload"]))
        else:
            violations.append({"found": True, "obligation": r["obligation"], "payload": r["payload"]})
    # broken obligations without a concrete input
    explained = set(v["obligation"] for v in violations)
    any_found = bool(violations)
    for f in ctx.failed:
        if f["obligation"] in explained or f["kind"] == "raises":
            continue
        kn = match_known("obligation:" + f["obligation"])
        if kn:
            known_hits.append((kn, f))
            continue
        violations.append({"found": False, "obligation": f["obligation"], "payload": f})

    # if a concrete failing input exists, obligations broken "without input" are reported through it
    lines = []
    if any(v["found"] for v in violations):
        vs = [v for v in violations if v["found"]]
        nf = [v for v in violations if not v["found"]]
        payload = {"property": pid, "kind": "failing-input", "violations": [v["payload"] for v in vs],
                   "broken_obligations": [v["payload"] for v in nf]}
        path = write_replay(pid, payload)
        lines.append("VIOLATION property=%s replay=%s" % (pid, path))
    elif violations:
        payload = {"property": pid, "kind": "obligation-no-longer-checks",
                   "broken_obligations": [v["payload"] for v in violations]}
        path = write_replay(pid, payload)
        lines.append("VIOLATION property=%s replay=%s no-failing-input-found" % (pid, path))
    seen_k = set()
    for k, _ in known_hits:
        if k["case"] in seen_k:
            continue
        seen_k.add(k["case"])
        print("KNOWN-FINDING: property=%s %s" % (pid, k["what"]))
    # known findings that no longer reproduce are only noted
    for k in known_here:
        if k["case"] not in seen_k:
            ctx.notes.append("known finding not reproduced this run: " + k["case"])

    wall = time.time() - t0
    level = getattr(P, "LEVEL", "proof")
    n_obl = len(ctx.obligations)
    cov = {
        "obligations": n_obl,
        "discharged": len(ctx.discharged),
        "checker_cmd": "cd /verif/lean && lake build %s && lake env lean ../work/audit/%s.lean  (# print axioms)%s" % (
            " ".join(targets), pid, " && lake env leanchecker " + " ".join(targets) if tier == "thorough" else ""),
        "trusted_base": TRUSTED_BASE + list(getattr(P, "TRUSTED_EXTRA", [])),
        "theorems": ctx.obligations,
        "not_discharged": [n for n in ctx.obligations if n not in ctx.discharged],
        "missing_for_full_property": list(getattr(P, "MISSING", [])),
        "axioms": ctx.extra.get("axioms"),
        "correspondence": ctx.extra.get("tie"),
        "failing_input_search": ctx.extra.get("search"),
        "evaluations": int((ctx.extra.get("tie") or {}).get("requests", 0)) + int((search_stats or {}).get("evaluations", 0)),
        "distinct_nontrivial": int((search_stats or {}).get("distinct_nontrivial", 0)),
        "rule": getattr(P, "RULE", "theorems are the obligations; correspondence inputs are seeded structured vectors "
                                   "(interior, 1e-3/1e-6/1e-160 scaled, exact zeros, unit, large); search cases per property"),
        "samples": (ctx.samples or [])[:8] + [{"theorem": n} for n in ctx.obligations[:5]],
        "broken": ctx.failed[:20],
        "known_findings_reported": sorted(seen_k),
        "notes": ctx.notes,
        "source_hashes": source_hashes(getattr(P, "ANCHORS", [])),
    }
    for kx, vx in ctx.extra.items():
        if kx not in ("tie", "search", "axioms"):
            cov[kx] = vx
    ev = {
        "property_id": pid, "tier": tier, "seed": seed, "level": level, "coverage": cov,
        "assumptions": TRUSTED_BASE + list(getattr(P, "TRUSTED_EXTRA", [])),
        "wall_s": round(wall, 2), "violations": len(lines),
    }
    # seeded-change runs (tools/seed_check.sh) must not overwrite the committed evidence of the unchanged tree
    evdir = os.environ.get("VERIF_EVIDENCE_DIR") or os.path.join(VERIF, "evidence")
    os.makedirs(evdir, exist_ok=True)
    with open(os.path.join(evdir, pid + ".json"), "w") as fh:
        json.dump(ev, fh, indent=1, default=str)
    for l in lines:
        print(l)
    print("%s tier=%s seed=%d obligations=%d discharged=%d tie=%s search=%s wall=%.1fs" % (
        pid, tier, seed, n_obl, len(ctx.discharged), json.dumps(ctx.extra.get("tie")),
        json.dumps({k: v for k, v in (search_stats or {}).items() if k in ("evaluations", "distinct_nontrivial")}), wall))
    return 1 if lines else 0


def source_hashes(files):
    out = {}
    for f in files:
        p = os.path.join(REPO, f)
        try:
            out[f] = hashlib.sha256(open(p, "rb").read()).hexdigest()[:16]
        except OSError:
            out[f] = None
    return out


def replay(pid, path):
    P = importlib.import_module("props." + pid)
    payload = json.load(open(path))
    if not hasattr(P, "replay"):
        print("no replay function for", pid)
        return 2
    ok = P.replay(payload)
    print("replay %s: %s" % (path, "property holds on this input now" if ok else "FAILS (reproduced)"))
    return 0 if ok else 1


def main():
    ap = argparse.ArgumentParser()
    ap.add_argument("pid")
    ap.add_argument("--tier", default=os.environ.get("VERIF_TIER", "quick"), choices=["quick", "thorough"])
    ap.add_argument("--replay")
    a = ap.parse_args()
    seed = int(os.environ.get("VERIF_SEED", "0"))
    if a.replay:
        return replay(a.pid, a.replay)
    os.makedirs(WORK, exist_ok=True)
    lock = open(os.path.join(WORK, ".lock"), "w")
    fcntl.flock(lock, fcntl.LOCK_EX)
    try:
        return run_property(a.pid, a.tier, seed)
    except subprocess.TimeoutExpired as e:
        print("timeout:", e)
        return 2
    except Exception:
        traceback.print_exc()
        return 2


if __name__ == "__main__":
    sys.exit(main())
