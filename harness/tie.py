"""
Correspondence (tie) between the translated Lean definitions and the real code.

For every translated function the Float instance of the Lean definition is executed
by the Lean driver (`lake env lean --run`) on seeded inputs and compared with the
real, un-patched `casadi.Function` built from /repo's working tree, evaluated
in-process on the same inputs.  Doubles travel as IEEE bit patterns.
"""
from __future__ import annotations

import json
import math
import os
import struct
import subprocess
import sys
import time

import numpy as np

HERE = os.path.dirname(os.path.abspath(__file__))
VERIF = os.path.dirname(HERE)
REPO = os.environ.get("CYECCA_REPO", "/repo")
sys.path.insert(0, REPO)
sys.path.insert(0, os.path.join(VERIF, "tools", "extract"))

import casadi as ca  # noqa: E402
import core  # noqa: E402
import catalog  # noqa: E402


def f2b(x: float) -> int:
    return struct.unpack("<Q", struct.pack("<d", float(x)))[0]


def b2f(n: int) -> float:
    return struct.unpack("<d", struct.pack("<Q", n))[0]


def ulp_diff(a: float, b: float) -> float:
    if math.isnan(a) and math.isnan(b):
        return 0.0
    if math.isnan(a) or math.isnan(b):
        return float("inf")
    if a == b:
        return 0.0
    if math.isinf(a) or math.isinf(b):
        return float("inf")
    ia, ib = f2b(abs(a)), f2b(abs(b))
    if (a < 0) != (b < 0):
        return float(ia + ib)
    return float(abs(ia - ib))


def gen_inputs(spec, rng: np.random.Generator, n: int):
    """structured inputs: interior points, tiny values, exact zeros, unit vectors, large values"""
    sizes = [r * c for _, (r, c) in spec.inputs]
    tot = sum(sizes)
    out = []
    if spec.domain is not None:
        out.extend(spec.domain(rng, n))
        return out
    styles = ["normal", "small3", "small6", "zero", "unit", "large", "mixed", "tiny"]
    for k in range(n):
        parts = []
        for s in sizes:
            st = styles[int(rng.integers(len(styles)))] if k >= len(styles) else styles[k]
            v = rng.standard_normal(s)
            if st == "small3":
                v = v * 1e-3 * 3
            elif st == "small6":
                v = v * 1e-6
            elif st == "tiny":
                v = v * 1e-160
            elif st == "zero":
                v = np.zeros(s)
            elif st == "unit":
                nn = np.linalg.norm(v)
                v = v / nn if nn > 0 else v
            elif st == "large":
                v = v * 10
            elif st == "mixed":
                mask = rng.integers(0, 2, s)
                v = v * mask
            parts.append(v)
        out.append(np.concatenate(parts) if parts else np.zeros(0))
    return out


class LeanDriver:
    """one `lake env lean --run` process for a set of Gen modules"""

    def __init__(self, modules, tag="tie"):
        os.makedirs(os.path.join(VERIF, "work", "driver"), exist_ok=True)
        path = os.path.join(VERIF, "work", "driver", "%s_%d.lean" % (tag, os.getpid()))
        with open(path, "w") as fh:
            fh.write("import Driver.Run\n")
            for m in modules:
                fh.write("import Gen.%s\n" % m)
            fh.write("def main : IO Unit := Driver.loop (%s)\n" % " ++ ".join("Gen.%s.dispatch" % m for m in modules))
        self.path = path

    def run(self, lines):
        p = subprocess.run(["lake", "env", "lean", "--run", self.path], cwd=os.path.join(VERIF, "lean"),
                           input="\n".join(lines) + "\n", capture_output=True, text=True)
        if p.returncode != 0:
            raise RuntimeError("lean driver failed: " + p.stderr[-2000:] + p.stdout[-500:])
        return p.stdout.splitlines()

    def close(self):
        try:
            os.remove(self.path)
        except OSError:
            pass


def tie_modules(modules, only=None, n=200, seed=0, tol_ulp=4, tag="tie"):
    """returns dict with per-function stats and list of mismatches"""
    rng = np.random.default_rng(seed)
    jobs = []  # (spec, inputs list)
    skipped = {}
    for m in modules:
        specs_fn, _ = catalog.MODULES[m]
        try:
            with open(os.path.join(VERIF, "work", "extract", m + ".json")) as fh:
                have = set(json.load(fh)["functions"].keys())
        except FileNotFoundError:
            have = None
        for sp in specs_fn():
            if only is not None and sp.name not in only:
                continue
            if have is not None and sp.name not in have:
                skipped[sp.name] = "not extracted"
                continue
            jobs.append((sp, gen_inputs(sp, rng, n)))
    lines, index = [], []
    refs = []
    for sp, ins in jobs:
        g = core.numeric_function(sp)
        sizes = [(r, c) for _, (r, c) in sp.inputs]
        for x in ins:
            lines.append(sp.name + " " + " ".join(str(f2b(v)) for v in x))
            args, off = [], 0
            for (r, c) in sizes:
                args.append(ca.DM(np.asarray(x[off:off + r * c]).reshape((c, r)).T)); off += r * c
            res = g.call(args)
            flat = []
            for o in res:
                flat.extend(np.array(ca.DM(o)).reshape(-1, order="F").tolist())
            refs.append(flat)
            index.append(sp.name)
    drv = LeanDriver(modules, tag)
    try:
        t0 = time.time()
        outs = drv.run(lines) if lines else []
        dt = time.time() - t0
    finally:
        drv.close()
    stats, mism = {}, []
    assert len(outs) == len(lines), "driver returned %d lines for %d requests" % (len(outs), len(lines))
    for nm, line, ref, req in zip(index, outs, refs, lines):
        st = stats.setdefault(nm, {"n": 0, "max_ulp": 0.0, "nan_rows": 0, "bad": 0})
        st["n"] += 1
        if line.startswith("ERR"):
            st["bad"] += 1
            mism.append({"fn": nm, "request": req, "lean": line, "ref": ref})
            continue
        got = [b2f(int(w)) for w in line.split()]
        if len(got) != len(ref):
            st["bad"] += 1
            mism.append({"fn": nm, "request": req, "lean": "arity %d" % len(got), "ref": ref})
            continue
        if any(math.isnan(v) for v in ref):
            st["nan_rows"] += 1
        worst = 0.0
        for a, b in zip(got, ref):
            d = ulp_diff(a, b)
            if d > tol_ulp and abs(a - b) > 1e-300:
                worst = max(worst, d)
            st["max_ulp"] = max(st["max_ulp"], d if d != float("inf") else 1e308)
        if worst > 0:
            st["bad"] += 1
            if len(mism) < 50:
                mism.append({"fn": nm, "request": req, "lean": got, "ref": ref})
    return {"functions": stats, "mismatches": mism, "skipped": skipped, "requests": len(lines), "driver_s": dt}


if __name__ == "__main__":
    mods = sys.argv[1:] or list(catalog.MODULES.keys())
    r = tie_modules(mods, n=int(os.environ.get("TIE_N", "50")), seed=int(os.environ.get("VERIF_SEED", "0")))
    bad = {k: v for k, v in r["functions"].items() if v["bad"]}
    print("functions=%d requests=%d driver_s=%.1f bad_functions=%d" % (len(r["functions"]), r["requests"], r["driver_s"], len(bad)))
    for k, v in bad.items():
        print("  BAD", k, v)
    for m in r["mismatches"][:5]:
        print(json.dumps(m)[:600])
    mx = max((v["max_ulp"] for v in r["functions"].values()), default=0)
    print("max ulp over all:", mx)
