"""C09 — generated C code computes the same functions as the symbolic models (translation validation + Lean rfl)."""
from __future__ import annotations

import ctypes
import json
import os
import shutil
import subprocess
import sys
import traceback

import numpy as np

HERE = os.path.dirname(os.path.abspath(__file__))
VERIF = os.path.dirname(os.path.dirname(HERE))
sys.path.insert(0, os.path.join(VERIF, "tools", "cgen"))

ID = "C09"
MODULES = []
SETS = ["est_mrp", "cg_mrp", "est_sim", "cg_sim", "rdd2", "loglinear", "bezier", "mr_ref"]
LEAN_TARGETS = ["GenC." + s for s in SETS]
ANCHORS = ["cyecca/codegen.py", "cyecca/estimate/attitude/algorithms/__init__.py", "cyecca/models/rdd2.py",
           "cyecca/models/rdd2_loglinear.py", "cyecca/models/bezier.py"]
MISSING = [
    "the C model is the parser's reading of the emitted text (tools/cgen/cparse.py, the straight-line subset CasADi emits); it is tied to the "
    "artefact by compiling the file with gcc and comparing the shared object with the casadi.Function and with both Lean programs bit for bit "
    "on seeded inputs (branch-selecting, zeros, tiny, large) — C semantics of that subset, gcc and libm are trusted",
    "option combinations: defaults and every single flip in the quick tier; all pairs and 40 seeded random combinations in the thorough tier "
    "(not all 2^10); bodies identical to an already proved one are deduplicated by text",
    "the helper functions emitted next to the bodies (casadi_sq, casadi_fabs, casadi_fmin/fmax, work-size and name tables) are read as their CasADi opcodes",
]

_STATE = {}


def _sh(cmd, **kw):
    p = subprocess.run(cmd, capture_output=True, text=True, **kw)
    return p.returncode, p.stdout + p.stderr


def tie(ctx):
    """generate, parse, emit Lean, compile, run the four-way differential execution"""
    import casadi as ca
    import cgen, cparse
    import tie as tiemod
    work = cgen.WORK
    shutil.rmtree(work, ignore_errors=True)
    os.makedirs(work, exist_ok=True)
    os.makedirs(os.path.join(cgen.LEAN, "GenC"), exist_ok=True)
    rng = np.random.default_rng(ctx.seed + 909)
    stats = {"sets": 0, "functions": 0, "configs_tried": 0, "configs_ok": 0, "configs_rejected": [], "distinct_bodies": 0,
             "compiled": 0, "gcc_warnings": 0, "diff_requests": 0, "max_ulp": 0.0, "lean_legs": True}
    found = []

    def report(case, what, inputs, obligation=None):
        if not any(z["case"] == case for z in found):
            found.append({"case": case, "what": what, "inputs": inputs, "error": 0.0, "tolerance": 0,
                          "obligation": obligation or ("search:" + case)})
    S = cgen.shipped()
    inc = os.path.join(os.path.dirname(ca.__file__), "include")
    default_so = {}
    for (sid, parts, gen, opts, raw_eqs) in S:
        os.makedirs(os.path.join(work, sid), exist_ok=True)
        parts = [(ns, {f.name(): f for f in eqs.values()}, cfile, len(eqs)) for (ns, eqs, cfile) in parts]
        acc = {}
        for (ns, eqs, cfile, nkeys) in parts:
            stats["sets"] += 1
            stats["functions"] += len(eqs)
            if len(eqs) != nkeys:
                report("functions:%s:names" % ns, "two functions of the equation set share one name", {"set": ns})
            acc[ns] = {"variants": {fn: [] for fn in eqs}, "body_seen": {fn: {} for fn in eqs}, "tables": {}}
        for cfg in cgen.configs(opts, ctx.tier, ctx.seed):
            cid = cgen.cfg_id(cfg)
            dest = os.path.join(work, sid, cid.replace("=", "").replace("+", "_")[:120])
            stats["configs_tried"] += 1
            try:
                if not cfg:
                    # regeneration: the destination already holds code generated earlier from functions with the same names and
                    # signatures but different bodies — the second call must replace it (checked below like any other output)
                    try:
                        gen(dest, _eqs=cgen.decoy_set(raw_eqs))
                        stats["regenerations"] = stats.get("regenerations", 0) + 1
                    except Exception as e0:   # noqa: BLE001
                        ctx.notes.append("regeneration scenario for %s not run: %s" % (sid, str(e0)[-120:]))
                gen(dest, **cfg)
            except Exception as e:   # noqa: BLE001
                stats["configs_rejected"].append({"set": sid, "config": cid, "error": str(e)[-200:]})
                report("generate:%s:%s" % (sid, cid), "code generation raises under an accepted option combination: %s" % str(e)[-300:],
                       {"set": sid, "config": cfg})
                continue
            stats["configs_ok"] += 1
            for (ns, eqs, cf, _) in parts:
                A = acc[ns]
                path = os.path.join(dest, cf)
                if not os.path.exists(path):
                    report("generate:%s:%s:nofile" % (ns, cid), "generator did not write " + cf, {"set": ns, "config": cfg}); continue
                text = open(path).read()
                # cpp=True emits C++ (compile as such); include_math=False leaves <math.h> to the user by design
                lang = ["-x", "c++"] if cfg.get("cpp") else ["-x", "c"]
                pre = ["-include", "math.h"] if cfg.get("include_math") is False else []
                rc, out = _sh(["gcc", "-c", "-Wall", "-I", inc] + pre + ["-o", "/dev/null"] + lang + [path])
                stats["compiled"] += 1
                stats["gcc_warnings"] += out.count("warning:")
                if rc != 0:
                    report("compile:%s:%s" % (ns, cid), "generated C does not compile: " + out[-300:], {"set": ns, "config": cfg}); continue
                if opts.get("with_header", True) != cfg.get("with_header", opts.get("with_header", True)) or True:
                    want_h = cfg.get("with_header", opts.get("with_header", True))
                    has_h = os.path.exists(path[:-2] + ".h")
                    if bool(want_h) != has_h:
                        report("header:%s:%s" % (ns, cid), "header file %s although with_header=%s" % ("written" if has_h else "not written", want_h), {"set": ns, "config": cfg})
                try:
                    funcs = cparse.parse_c(text)
                except cparse.ParseError as e:
                    ctx.fail("cparse:%s:%s" % (ns, cid), "c-outside-modelled-subset", {"msg": str(e)[:300]})
                    continue
                order = funcs.pop("__order__")
                A["tables"][cid] = [(n, cgen.signature(funcs[n])) for n in order]
                missing = [fn for fn in eqs if fn not in funcs]
                extra = [n for n in order if n not in eqs]
                if missing or extra or len(order) != len(set(order)):
                    report("functions:%s:%s" % (ns, cid), "entry points of the generated C differ from the equation set: missing %s, extra %s" % (missing, extra),
                           {"set": ns, "config": cfg})
                for fn in eqs:
                    if fn not in funcs:
                        continue
                    b = funcs[fn]["body"]
                    if b not in A["body_seen"][fn]:
                        A["body_seen"][fn][b] = len(A["body_seen"][fn])
                        A["variants"][fn].append((A["body_seen"][fn][b], funcs[fn]))
                        stats["distinct_bodies"] += 1
                if not cfg:
                    default_so[ns] = (dest, [cf], eqs, {n: cgen.signature(funcs[n]) for n in funcs})
        for (ns, eqs, cf, _) in parts:
            A = acc[ns]
            src = cgen.emit_set(ns, eqs, A["variants"], A["tables"])
            p = os.path.join(cgen.LEAN, "GenC", ns + ".lean")
            if not os.path.exists(p) or open(p).read() != src:
                open(p, "w").write(src)
            for fn, f in eqs.items():
                s_ir = cgen.sx_ir(f)
                hs = cgen.canon(s_ir)
                for vid, c_ir in A["variants"][fn]:
                    if cgen.canon(c_ir) != hs or cgen.signature(c_ir) != cgen.signature(s_ir):
                        ctx.notes.append("structural difference C vs SX: %s.%s variant %d" % (ns, fn, vid))
    # ---- build the Lean modules now: the driver needs them
    rc, out = _sh(["lake", "build"] + LEAN_TARGETS, cwd=cgen.LEAN)
    lean_ok = rc == 0
    stats["lean_legs"] = lean_ok
    # ---- four-way differential execution on the default configuration
    lines, index = [], []
    cres = {}
    for ns in SETS:
        if ns not in default_so:
            continue
        dest, files, eqs, csig = default_so[ns]
        sid = ns
        so = os.path.join(dest, "lib_%s.so" % ns)
        rc, out = _sh(["gcc", "-O1", "-ffp-contract=off", "-fPIC", "-shared", "-I", inc, "-o", so] + [os.path.join(dest, f) for f in files] + ["-lm"])
        if rc != 0:
            report("compile:%s:so" % sid, "generated C does not link into a shared object: " + out[-300:], {"set": sid}); continue
        lib = ctypes.CDLL(so)
        n_req = 6 if ctx.tier == "quick" else 60
        for fn, f in eqs.items():
            try:
                cf = getattr(lib, fn)
                wk = getattr(lib, fn + "_work")
            except AttributeError:
                report("functions:%s:so:%s" % (sid, fn), "entry point %s missing from the compiled object" % fn, {"set": sid, "function": fn}); continue
            # argument / result layout first: calling a function whose layout differs would read and write out of bounds
            want_sig = cgen.signature(cgen.sx_ir(f))
            if csig.get(fn) != want_sig:
                report("layout:%s.%s" % (ns, fn), "argument / result layout of the C function differs from the symbolic function (names, shapes or nonzero counts)",
                       {"set": sid, "function": fn, "c": csig.get(fn), "symbolic": want_sig}, obligation="theorem:C09.%s.c_table_eq" % ns)
                continue
            sz = [ctypes.c_longlong(0) for _ in range(4)]
            wk(*[ctypes.byref(s) for s in sz])
            if sz[0].value < f.n_in() or sz[1].value < f.n_out():
                report("layout:%s.%s:work" % (ns, fn), "work sizes of the C function are too small for its own arguments", {"set": sid, "function": fn})
                continue
            nnz_in = [f.nnz_in(i) for i in range(f.n_in())]
            nnz_out = [f.nnz_out(i) for i in range(f.n_out())]

            class Sp:   # input generator of the tie works on flat sizes
                inputs = [(f.name_in(i), (max(nnz_in[i], 0), 1)) for i in range(f.n_in())]
                domain = None
            xs = tiemod.gen_inputs(Sp, rng, n_req)
            for x in xs:
                parts = np.split(np.asarray(x, dtype=float), np.cumsum(nnz_in)[:-1]) if nnz_in else []
                # casadi reference (sparse inputs take their nonzeros)
                dm_in = []
                for i, pz in enumerate(parts):
                    d = ca.DM(f.sparsity_in(i)); 
                    if nnz_in[i]:
                        d.nz[:] = ca.DM(pz)
                    dm_in.append(d)
                ref = f.call(dm_in)
                ref_flat = np.concatenate([np.array(r.nonzeros(), dtype=float) for r in ref]) if ref else np.zeros(0)
                # compiled C
                argp = (ctypes.POINTER(ctypes.c_double) * max(sz[0].value, 1))()
                bufs_in = [np.ascontiguousarray(pz, dtype=np.float64) for pz in parts]
                for i, b in enumerate(bufs_in):
                    argp[i] = b.ctypes.data_as(ctypes.POINTER(ctypes.c_double))
                resp = (ctypes.POINTER(ctypes.c_double) * max(sz[1].value, 1))()
                bufs_out = [np.full(max(n, 1), np.nan) for n in nnz_out]
                for i, b in enumerate(bufs_out):
                    resp[i] = b.ctypes.data_as(ctypes.POINTER(ctypes.c_double))
                iw = (ctypes.c_longlong * max(sz[2].value, 1))()
                w = (ctypes.c_double * max(sz[3].value, 1))()
                cf.restype = ctypes.c_int
                rcode = cf(argp, resp, iw, w, 0)
                c_flat = np.concatenate([b[:n] for b, n in zip(bufs_out, nnz_out)]) if nnz_out else np.zeros(0)
                stats["diff_requests"] += 1
                u = max((tiemod.ulp_diff(float(a), float(b)) for a, b in zip(ref_flat, c_flat)), default=0.0)
                stats["max_ulp"] = max(stats["max_ulp"], u if np.isfinite(u) else 1e18)
                if rcode != 0 or u > 0:
                    report("exec:%s.%s" % (ns, fn), "compiled C and the casadi.Function return different values (max %s ulp)" % u,
                           {"set": sid, "function": fn, "x": [float(v) for v in x], "casadi": ref_flat.tolist(), "c": c_flat.tolist()},
                           obligation="theorem:C09.%s.%s.c_eq_sx" % (ns, fn))
                if lean_ok:
                    bits = " ".join(str(tiemod.f2b(float(v))) for v in x)
                    for leg in ("sx", "c"):
                        lines.append("%s.%s.%s %s" % (ns, fn, leg, bits)); index.append((ns, fn, leg, ref_flat))
    if lean_ok and lines:
        drv = os.path.join(VERIF, "work", "driver", "c09_%d.lean" % os.getpid())
        os.makedirs(os.path.dirname(drv), exist_ok=True)
        with open(drv, "w") as fh:
            fh.write("import Driver.Run\n" + "".join("import GenC.%s\n" % s for s in SETS))
            fh.write("def main : IO Unit := Driver.loop (%s)\n" % " ++ ".join("GenC.%s.dispatch" % s for s in SETS))
        p = subprocess.run(["lake", "env", "lean", "--run", drv], cwd=cgen.LEAN, input="\n".join(lines) + "\n", capture_output=True, text=True)
        os.remove(drv)
        if p.returncode != 0:
            ctx.fail("tie:GenC", "driver", {"msg": (p.stderr + p.stdout)[-1500:]})
        else:
            bad = {}
            for (ns, fn, leg, ref), ln in zip(index, p.stdout.splitlines()):
                if ln.startswith("ERR"):
                    bad[(ns, fn, leg)] = ln; continue
                got = [tiemod.b2f(int(t)) for t in ln.split()]
                u = max((tiemod.ulp_diff(float(a), float(b)) for a, b in zip(ref, got)), default=0.0) if len(got) == len(ref) else float("inf")
                stats["max_ulp"] = max(stats["max_ulp"], u if np.isfinite(u) else 1e18)
                if u > 0:
                    bad[(ns, fn, leg)] = "max %s ulp" % u
            for (ns, fn, leg), why in bad.items():
                ctx.fail("tie:GenC.%s.%s.%s" % (ns, fn, leg), "correspondence", {"why": why})
            stats["lean_requests"] = len(lines)
    _STATE["found"] = found
    _STATE["stats"] = stats
    ctx.extra["tie"] = {"functions": stats["functions"], "requests": stats["diff_requests"] + stats.get("lean_requests", 0),
                        "mismatching_functions": len([z for z in found if z["case"].startswith("exec:")]), "max_ulp": stats["max_ulp"]}
    shutil.rmtree(work, ignore_errors=True)


def search(ctx):
    found = _STATE.get("found", [])
    st = dict(_STATE.get("stats", {}))
    ctx.samples.extend(found[:3] or [{"set": "rdd2", "config": "default", "functions": 10}])
    st["evaluations"] = st.get("diff_requests", 0) + st.get("lean_requests", 0) + st.get("configs_tried", 0)
    st["distinct_nontrivial"] = st.get("diff_requests", 0) + st.get("configs_ok", 0)
    return found, st


def replay(payload):
    class C:
        seed = 0; tier = "quick"; samples = []; notes = []; extra = {}; failed = []
        def fail(self, *a): self.failed.append(a)
    c = C(); tie(c)
    cases = {v.get("case") for v in payload.get("violations", [])}
    hit = [z for z in _STATE.get("found", []) if z["case"] in cases]
    for z in hit:
        print("reproduced:", z["case"], z["what"][:200])
    return not hit
