"""Shared descriptions of the groups: catalog names, samplers of VALID elements."""
from __future__ import annotations

from dataclasses import dataclass
from typing import Callable, Optional

import numpy as np

import numlib as nl


@dataclass
class Group:
    name: str
    mod: str
    mdim: int
    sample: Callable
    pair_ok: Optional[Callable] = None   # product validity (MRP singularity)
    algebra: str = ""
    adim: int = 0
    sample_alg: Optional[Callable] = None


def s_quat(rng):
    return nl.unit_quat(rng)


def s_mrp(rng):
    r = rng.standard_normal(3)
    r = r / np.linalg.norm(r) * rng.choice([0.05, 0.3, 0.8, 1.0, 1.6, 3.0]) * rng.uniform(0.5, 1.0)
    return r


def mrp_den(a, b):
    return 1 + a.dot(a) * b.dot(b) - 2 * a.dot(b)


def mrp_pair_ok(a, b, off=0):
    a, b = a[off:off + 3], b[off:off + 3]
    return abs(mrp_den(a, b)) > 0.2


def s_dcm(rng):
    return nl.quat_to_R(nl.unit_quat(rng)).reshape(-1, order="F")


def s_euler(rng):
    """valid Euler triples (outside the +-1e-3 rad gimbal band): 60 % generic pitch, 40 % just outside
    the band at either pole (delta in [1.05e-3, 3e-2], log-uniform)"""
    if rng.uniform() < 0.6:
        th = rng.uniform(-1.45, 1.45)
    else:
        d = 10 ** rng.uniform(np.log10(1.05e-3), np.log10(3e-2))
        th = rng.choice([-1.0, 1.0]) * (np.pi / 2 - d)
    return np.array([rng.uniform(-3.1, 3.1), th, rng.uniform(-3.1, 3.1)])


def euler_R(e):
    psi, th, phi = e
    cz, sz, cy, sy, cx, sx = np.cos(psi), np.sin(psi), np.cos(th), np.sin(th), np.cos(phi), np.sin(phi)
    Rz = np.array([[cz, -sz, 0], [sz, cz, 0], [0, 0, 1]])
    Ry = np.array([[cy, 0, sy], [0, 1, 0], [-sy, 0, cy]])
    Rx = np.array([[1, 0, 0], [0, cx, -sx], [0, sx, cx]])
    return Rz @ Ry @ Rx


def euler_of_R(R):
    return np.array([np.arctan2(R[1, 0], R[0, 0]), np.arcsin(np.clip(-R[2, 0], -1, 1)), np.arctan2(R[2, 1], R[2, 2])])


def euler_band_pair(rng):
    """(X, Y, delta): valid X, Y (outside the band) whose product lands INSIDE the band at a pole
    (|pitch -+ pi/2| = delta < 1e-3).  Inside the band only the documented 1e-3 rad tolerance applies."""
    d = 10 ** rng.uniform(-6, np.log10(9e-4))
    Z = np.array([rng.uniform(-3, 3), rng.choice([-1.0, 1.0]) * (np.pi / 2 - d), rng.uniform(-3, 3)])
    while True:
        X = np.array([rng.uniform(-3.1, 3.1), rng.uniform(-1.3, 1.3), rng.uniform(-3.1, 3.1)])
        Y = euler_of_R(euler_R(X).T @ euler_R(Z))
        if abs(abs(Y[1]) - np.pi / 2) > 0.05:
            return X, Y, d


def s_vec(n, scale=2.0):
    return lambda rng: rng.standard_normal(n) * scale


def s_so2(rng):
    return np.array([rng.uniform(-3.0, 3.0)])


def s_se2(rng):
    return np.concatenate([rng.standard_normal(2) * 2, [rng.uniform(-3, 3)]])


def cat(*fs):
    return lambda rng: np.concatenate([f(rng) for f in fs])


def groups():
    G = [
        Group("SO2", "SO2", 2, s_so2, algebra="so2", adim=1),
        Group("SE2", "SE2", 3, s_se2, algebra="se2", adim=3),
        Group("R2", "Rn", 3, s_vec(2), algebra="r2", adim=2),
        Group("R3", "Rn", 4, s_vec(3), algebra="r3", adim=3),
        Group("SO3Quat", "SO3", 3, s_quat, algebra="so3", adim=3),
        Group("SO3Mrp", "SO3", 3, s_mrp, mrp_pair_ok, algebra="so3", adim=3),
        Group("SO3Dcm", "SO3", 3, s_dcm, algebra="so3", adim=3),
        Group("SO3Euler", "SO3", 3, s_euler, algebra="so3", adim=3),
        Group("SE3Quat", "SE3", 4, cat(s_vec(3), s_quat), algebra="se3", adim=6),
        Group("SE3Mrp", "SE3", 4, cat(s_vec(3), s_mrp), lambda a, b: mrp_pair_ok(a, b, 3), algebra="se3", adim=6),
        Group("SE23Quat", "SE23", 5, cat(s_vec(3), s_vec(3), s_quat), algebra="se23", adim=9),
        Group("SE23Mrp", "SE23", 5, cat(s_vec(3), s_vec(3), s_mrp), lambda a, b: mrp_pair_ok(a, b, 6), algebra="se23", adim=9),
        # direct products built with `*`
        Group("P_MrpR3", "Products", 7, cat(s_mrp, s_vec(3)), lambda a, b: mrp_pair_ok(a, b, 0)),
        Group("P_SO2R2", "Products", 5, cat(s_so2, s_vec(2))),
        Group("P_SE3QuatR3_Dcm", "Products", 11, cat(s_vec(3), s_quat, s_vec(3), s_dcm)),
        Group("P_SE3Quat_R3Dcm", "Products", 11, cat(s_vec(3), s_quat, s_vec(3), s_dcm)),
    ]
    return G


def groups_by_name():
    return {g.name: g for g in groups()}


def module_of(fn: str) -> str:
    head = fn.split(".")[0]
    for g in groups():
        if g.name == head or g.algebra == head:
            return g.mod
    return head


def octant_rotvecs(angles=(2.2, 2.6, 3.0, 3.6, 4.0)):
    """rotation vectors whose axis has every sign pattern and every dominant component, at angles where the
    matrix -> quaternion extraction leaves its scalar-pivot branch (120..240 degrees): a quaternion with negative
    scalar part, a negative dominant axis component, every Shepperd branch"""
    out = []
    for dom in range(3):
        for sx in (1.0, -1.0):
            for sy in (1.0, -1.0):
                for sz in (1.0, -1.0):
                    ax = np.array([0.36 * sx, 0.48 * sy, 0.3 * sz])
                    ax[dom] = [sx, sy, sz][dom] * 0.8
                    ax = ax / np.linalg.norm(ax)
                    for th in angles:
                        out.append(ax * th)
    return out
