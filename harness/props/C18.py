"""C18 — Bezier curves: Bernstein form, exact derivatives, boundary-value solvers."""
from __future__ import annotations

from math import comb

import numpy as np
from numpy.polynomial import polynomial as Pl

import numlib as nl

ID = "C18"
MODULES = ["Bezier"]
LEAN_TARGETS = ["Props.C18"]
ANCHORS = ["cyecca/models/bezier.py"]
MISSING = [
    "De Casteljau = Bernstein and the derivative rule for EVERY degree n by induction over a hand model "
    "(proved here for the translated degrees 1..7, the ones the repository ships are 3 and 7)",
]


def relevant(fn):
    return True


def bern_poly(Pk, T):
    """monomial coefficients (in t) of sum_k C(n,k)(1-t/T)^(n-k)(t/T)^k P_k"""
    n = len(Pk) - 1
    tot = np.zeros(1)
    b = np.array([0.0, 1.0 / T])
    omb = np.array([1.0, -1.0 / T])
    for k in range(n + 1):
        term = np.array([comb(n, k) * Pk[k]])
        for _ in range(k):
            term = Pl.polymul(term, b)
        for _ in range(n - k):
            term = Pl.polymul(term, omb)
        tot = Pl.polyadd(tot, term)
    return tot


def search(ctx):
    rng = np.random.default_rng(ctx.seed + 1818)
    found = []
    ev = 0
    distinct = 0

    def report(case, what, inputs, err, tol):
        if not any(f["case"] == case for f in found):
            found.append({"case": case, "what": what, "inputs": inputs, "error": float(err), "tolerance": tol,
                          "obligation": "search:" + case})
    n = 12 if ctx.tier == "quick" else 200
    # vector-valued curves (2 and 3 rows), EVERY derivative order up to the degree itself, through the real class
    import casadi as ca
    import cyecca.models.bezier as bz
    for dim in (2, 3):
        for N in range(1, 6):
            for it in range(max(2, n // 4)):
                P = rng.standard_normal((dim, N + 1)) * 3
                T = float(rng.choice([0.5, 1.0, 2.0])); t = float(rng.uniform(-0.3 * T, 1.3 * T))
                inp = {"P": P.tolist(), "T": T, "t": t, "rows": dim, "degree": N}
                try:
                    B = bz.Bezier(ca.SX(ca.DM(P)), T)
                    vals = [np.array(ca.DM(ca.densify(ca.SX(B.eval(t))))).ravel()]
                    for m in range(1, N + 1):
                        vals.append(np.array(ca.DM(ca.densify(ca.SX(B.deriv(m).eval(t))))).ravel())
                except Exception as e:   # noqa: BLE001
                    report("eval:vector:raises", "Bezier eval/deriv raises for a vector-valued curve: %s" % type(e).__name__, inp, 1.0, 0); continue
                ev += 1; distinct += 1
                for r in range(dim):
                    c = bern_poly(P[r], T)
                    for m in range(0, N + 1):
                        ref = Pl.polyval(t, c) if len(c) else 0.0
                        got = vals[m][r] if len(vals[m]) == dim else float("nan")
                        scm = (1 + np.max(np.abs(P))) * (2 * (1 + abs(t) / T)) ** N * (N / T) ** m * 4
                        if not abs(got - ref) <= 1e-9 * scm:
                            report("eval:vector:deriv%d" % m, "vector-valued curve: derivative of order %d is not the exact derivative (row %d of %d, degree %d)" % (m, r, dim, N),
                                   inp, abs(got - ref) if np.isfinite(got) else 1e9, 1e-9 * scm)
                        c = Pl.polyder(c)
    for N in range(1, 8):
        f = nl.F("Bezier", "bezier.eval%d" % N)
        for it in range(n):
            P = rng.standard_normal((1, N + 1)) * 3
            T = float(rng.choice([0.5, 1.0, 2.0, 7.5]))
            t = float(rng.choice([0.0, T, rng.uniform(0, T), rng.uniform(-0.5 * T, 1.5 * T)]))
            p, d = f(P, T, t)
            d = np.atleast_1d(d)
            ev += 1; distinct += 1
            c = bern_poly(P[0], T)
            sc = 1 + np.max(np.abs(P)) * (1 + abs(t) / T) ** N * 2 ** N
            ref = Pl.polyval(t, c)
            if not abs(p - ref) <= 1e-9 * sc:
                report("eval%d:bernstein" % N, "eval != Bernstein polynomial", {"P": P.tolist(), "T": T, "t": t}, abs(p - ref), 1e-9 * sc)
            for m in range(1, N + 1):
                c = Pl.polyder(c)
                ref = Pl.polyval(t, c) if len(c) else 0.0
                scm = sc * (N / T) ** m * 4
                if not abs(d[m - 1] - ref) <= 1e-9 * scm:
                    report("eval%d:deriv%d" % (N, m), "deriv(%d).eval != exact derivative" % m,
                           {"P": P.tolist(), "T": T, "t": t}, abs(d[m - 1] - ref), 1e-9 * scm)
    # solvers
    s3, s7 = nl.F("Bezier", "bezier.bezier3_solve"), nl.F("Bezier", "bezier.bezier7_solve")
    t3, t7 = nl.F("Bezier", "bezier.bezier3_traj"), nl.F("Bezier", "bezier.bezier7_traj")
    for it in range(n * 2):
        T = float(rng.choice([0.5, 1.0, 3.0, 10.0]))
        w0, w1 = rng.standard_normal(2) * 2, rng.standard_normal(2) * 2
        P = np.atleast_2d(s3(w0, w1, T))
        r0, r1 = np.atleast_1d(t3(0.0, T, P)), np.atleast_1d(t3(T, T, P))
        ev += 1; distinct += 1
        err = max(np.max(np.abs(r0[:2] - w0)), np.max(np.abs(r1[:2] - w1)))
        if not err <= 1e-8 * (1 + 1 / T):
            report("bezier3_solve:bc", "cubic solver misses a boundary condition", {"wp_0": w0.tolist(), "wp_1": w1.tolist(), "T": T}, err, 1e-8)
        w0, w1 = rng.standard_normal(4) * 2, rng.standard_normal(4) * 2
        P = np.atleast_2d(s7(w0, w1, T))
        r0, r1 = np.atleast_1d(t7(0.0, T, P)), np.atleast_1d(t7(T, T, P))
        err = max(np.max(np.abs(r0[:4] - w0)), np.max(np.abs(r1[:4] - w1)))
        sc = 1 + (1 / T) ** 3 + T ** 3
        if not err <= 1e-7 * sc:
            report("bezier7_solve:bc", "septic solver misses a boundary condition (pos/vel/acc/jerk at both ends)",
                   {"wp_0": w0.tolist(), "wp_1": w1.tolist(), "T": T, "at0": r0[:4].tolist(), "atT": r1[:4].tolist()}, err, 1e-7 * sc)
    # multirotor consistency: outputs equal the curve and its successive derivatives
    fm = nl.F("Bezier", "bezier.bezier_multirotor")
    for it in range(n):
        T = float(rng.choice([1.0, 2.0, 5.0]))
        t = float(rng.uniform(-0.2 * T, 1.2 * T))
        PX, PY, PZ = (rng.standard_normal((1, 8)) for _ in range(3))
        Pp = rng.standard_normal((1, 4))
        x, y, z, psi, dpsi, ddpsi, v, a, j, s = fm(t, T, PX, PY, PZ, Pp)
        ev += 1; distinct += 1
        for ax, (P_, pos) in enumerate(((PX, x), (PY, y), (PZ, z))):
            c = bern_poly(P_[0], T)
            vals = [pos, v[ax], a[ax], j[ax], s[ax]]
            for m in range(5):
                ref = Pl.polyval(t, c)
                sc = (1 + np.max(np.abs(P_))) * (7 / T) ** m * 2 ** 9
                if not abs(vals[m] - ref) <= 1e-9 * sc:
                    report("multirotor:axis%d:order%d" % (ax, m), "multirotor output is not the order-%d derivative" % m,
                           {"t": t, "T": T, "P": P_.tolist()}, abs(vals[m] - ref), 1e-9 * sc)
                c = Pl.polyder(c)
        c = bern_poly(Pp[0], T)
        for m, val in enumerate([psi, dpsi, ddpsi]):
            ref = Pl.polyval(t, c)
            sc = (1 + np.max(np.abs(Pp))) * (3 / T) ** m * 64
            if not abs(val - ref) <= 1e-9 * sc:
                report("multirotor:psi:order%d" % m, "heading output is not the order-%d derivative" % m, {"t": t, "T": T}, abs(val - ref), 1e-9 * sc)
            c = Pl.polyder(c)
    ctx.samples.extend(found[:3] or [{"degree": 7, "T": 2.0, "t": 0.7, "P": rng.standard_normal(8).round(3).tolist()}])
    return found, {"evaluations": ev, "distinct_nontrivial": distinct}


def replay(payload):
    class C:  # re-run the whole (cheap) search
        seed = 0; tier = "quick"; samples = []; notes = []
    found, _ = search(C())
    cases = {v.get("case") for v in payload.get("violations", [])}
    hit = [f for f in found if f["case"] in cases]
    for f in hit:
        print("reproduced:", f["case"], f["what"], f["error"])
    return not hit
