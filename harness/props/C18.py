"""C18 — Bezier curves: Bernstein form, exact derivatives, boundary-value solvers."""
from __future__ import annotations

from math import comb

import numpy as np
from numpy.polynomial import polynomial as Pl

import numlib as nl

ID = "C18"
MODULES = ["Bezier"]
LEAN_TARGETS = ["Props.C18", "Props.C18G"]
ANCHORS = ["cyecca/models/bezier.py"]
MISSING = [
    "EVERY degree and derivative order: theorems of Props/C18G over the hand model Model/Bezier.lean (De Casteljau = Bernstein, end points, "
    "deriv(m).eval = m-th iterated derivative for all n, m <= n), tied to the real class by the correspondence run of this check "
    "(degrees 1..12, every order, float / integer / list / DM / SX control points) and PROVED equal to every translated program (degrees 1..7, curve and every derivative order: 35 link theorems); "
    "the tie of the generic model to the class is sampled, not proved",
]
TRUSTED_EXTRA = ["hand model Model/Bezier.lean of Bezier.eval / Bezier.deriv for every degree: tied to the class by differential runs "
                 "(relative tolerance 1e-11: T**m is a repeated product in the model) and proved equal to the translated programs of degrees 1..7 (every derivative order)"]


def relevant(fn):
    return True


def bern_poly(Pk, T):
    """monomial coefficients (in t) of sum_k C(n,k)(1-t/T)^(n-k)(t/T)^k P_k"""
    n = len(Pk) - 1
    tot = np.zeros(1)
    b = np.array([0.0, 1.0 / T])
    omb = np.array([1.0, -1.0 / T])
    for k in range(n + 1):
        term = np.array([comb(n, k) * Pk[k]])
        for _ in range(k):
            term = Pl.polymul(term, b)
        for _ in range(n - k):
            term = Pl.polymul(term, omb)
        tot = Pl.polyadd(tot, term)
    return tot


def _bits(x):
    import struct
    return str(struct.unpack("<Q", struct.pack("<d", float(x)))[0])


def _unbits(w):
    import struct
    return struct.unpack("<d", struct.pack("<Q", int(w)))[0]


def _lean_bezier(lines):
    import os, subprocess
    VERIF = os.path.dirname(os.path.dirname(os.path.dirname(os.path.abspath(__file__))))
    LEAN = os.path.join(VERIF, "lean")
    drv = os.path.join(VERIF, "work", "driver", "c18_%d.lean" % os.getpid())
    os.makedirs(os.path.dirname(drv), exist_ok=True)
    with open(drv, "w") as fh:
        fh.write("import Model.BezierIO\ndef main : IO Unit := BezierModel.loop\n")
    try:
        rc = subprocess.run(["lake", "build", "Model.BezierIO"], cwd=LEAN, capture_output=True, text=True)
        if rc.returncode != 0:
            raise RuntimeError("model does not build: " + (rc.stdout + rc.stderr)[-800:])
        p = subprocess.run(["lake", "env", "lean", "--run", drv], cwd=LEAN, input="\n".join(lines) + "\n", capture_output=True, text=True)
        if p.returncode != 0:
            raise RuntimeError("model driver failed: " + p.stderr[-800:])
        return p.stdout.splitlines()
    finally:
        os.remove(drv)


KINDS = ["ndarray-float", "ndarray-int", "DM", "SX", "list"]


def make_points(kind, rows):
    """the same control points in the container kinds a caller may hand to Bezier(P, T)"""
    import casadi as ca
    if kind == "ndarray-float":
        return np.array(rows, dtype=float)
    if kind == "ndarray-int":
        return np.array(rows, dtype=np.int64)
    if kind == "DM":
        return ca.DM(np.array(rows, dtype=float))
    if kind == "SX":
        return ca.SX(ca.DM(np.array(rows, dtype=float)))
    return ca.DM([list(map(float, r)) for r in rows])


def real_curve_values(kind, rows, T, t, m):
    """Bezier(P, T).deriv(m).eval(t) (m = 0: eval) through the real class, one float per row"""
    import casadi as ca
    import cyecca.models.bezier as bz
    B = bz.Bezier(make_points(kind, rows), T)
    C = B if m == 0 else B.deriv(m)
    v = C.eval(t)
    try:
        arr = np.array(ca.DM(ca.densify(ca.SX(v))), dtype=float).ravel()
    except Exception:   # noqa: BLE001  (a numeric container)
        arr = np.array(v, dtype=float).ravel()
    return arr


def gen_cases(rng, n):
    """(kind, rows, T, t, m): degrees 1..12, every order 0..degree, integer-valued points for the integer containers"""
    cases = []
    for it in range(n):
        N = int(rng.integers(1, 13)) if it % 3 else int(rng.integers(1, 5))
        dim = int(rng.integers(1, 4))
        kind = KINDS[it % len(KINDS)]
        if kind == "ndarray-int" or rng.random() < 0.2:
            rows = rng.integers(-9, 10, size=(dim, N + 1)).astype(float)
        else:
            rows = np.round(rng.standard_normal((dim, N + 1)) * 3, 6)
        T = float(rng.choice([0.5, 1.0, 2.0, 3.0, 7.5]))
        if rng.random() < 0.25:
            T = int(rng.choice([1, 2, 4]))       # integer duration
        t = float(rng.choice([0.0, float(T), rng.uniform(0, T), rng.uniform(0, T), rng.uniform(-0.4 * T, 1.4 * T)]))
        for m in sorted(set([0, N, int(rng.integers(0, N + 1)), int(rng.integers(0, N + 1))])):
            cases.append((kind, rows.tolist(), T, t, m))
    return cases


def tie(ctx):
    """correspondence of the generic-degree hand model (Model/Bezier.lean, Float instance) with the real class"""
    rng = np.random.default_rng(ctx.seed + 18018)
    cases = gen_cases(rng, 60 if ctx.tier == "quick" else 600)
    lines, index = [], []
    for ci, (kind, rows, T, t, m) in enumerate(cases):
        for r, row in enumerate(rows):
            lines.append("%d %d %s %s %s" % (len(row) - 1, m, _bits(T), _bits(t), " ".join(_bits(x) for x in row)))
            index.append((ci, r))
    out = _lean_bezier(lines)
    model = {}
    for (ci, r), w in zip(index, out):
        model[(ci, r)] = float("nan") if w.startswith("ERR") else _unbits(w)
    hist = {"kinds": {}, "degrees": {}, "orders": {}, "rows": 0, "mismatches": 0, "max_rel": 0.0}
    bad = []
    for ci, (kind, rows, T, t, m) in enumerate(cases):
        N = len(rows[0]) - 1
        hist["kinds"][kind] = hist["kinds"].get(kind, 0) + 1
        hist["degrees"][str(N)] = hist["degrees"].get(str(N), 0) + 1
        hist["orders"][str(m)] = hist["orders"].get(str(m), 0) + 1
        try:
            got = real_curve_values(kind, rows, T, t, m)
        except Exception as e:   # noqa: BLE001
            got = None; err = "%s: %s" % (type(e).__name__, str(e)[:120])
        for r, row in enumerate(rows):
            hist["rows"] += 1
            mv = model[(ci, r)]
            sc = (1 + max(abs(x) for x in row)) * (2 * (1 + abs(t) / T)) ** N * max(1.0, (2 * N / T)) ** m
            if got is None or len(got) != len(rows):
                rel = float("inf")
            else:
                rel = abs(got[r] - mv) / sc
            hist["max_rel"] = max(hist["max_rel"], rel if np.isfinite(rel) else 1e300)
            if not rel <= 1e-11:
                hist["mismatches"] += 1
                if len(bad) < 5:
                    bad.append({"kind": kind, "degree": N, "order": m, "row": r, "P": row, "T": T, "t": t,
                                "model": mv, "real": None if got is None else (got[r] if len(got) == len(rows) else got.tolist()),
                                "error": None if got is not None else err})
    ctx.extra["bezier_model_tie"] = hist
    if bad:
        ctx.fail("tie:bezier-model", "correspondence", {"first": bad, "mismatches": hist["mismatches"], "rows": hist["rows"]})


def search(ctx):
    rng = np.random.default_rng(ctx.seed + 1818)
    found = []
    ev = 0
    distinct = 0

    def report(case, what, inputs, err, tol):
        if not any(f["case"] == case for f in found):
            found.append({"case": case, "what": what, "inputs": inputs, "error": float(err), "tolerance": tol,
                          "obligation": "search:" + case})
    n = 12 if ctx.tier == "quick" else 200
    # vector-valued curves (2 and 3 rows), EVERY derivative order up to the degree itself, through the real class
    import casadi as ca
    import cyecca.models.bezier as bz
    for dim in (2, 3):
        for N in range(1, 6):
            for it in range(max(2, n // 4)):
                P = rng.standard_normal((dim, N + 1)) * 3
                T = float(rng.choice([0.5, 1.0, 2.0])); t = float(rng.uniform(-0.3 * T, 1.3 * T))
                inp = {"P": P.tolist(), "T": T, "t": t, "rows": dim, "degree": N}
                try:
                    B = bz.Bezier(ca.SX(ca.DM(P)), T)
                    vals = [np.array(ca.DM(ca.densify(ca.SX(B.eval(t))))).ravel()]
                    for m in range(1, N + 1):
                        vals.append(np.array(ca.DM(ca.densify(ca.SX(B.deriv(m).eval(t))))).ravel())
                except Exception as e:   # noqa: BLE001
                    report("eval:vector:raises", "Bezier eval/deriv raises for a vector-valued curve: %s" % type(e).__name__, inp, 1.0, 0); continue
                ev += 1; distinct += 1
                for r in range(dim):
                    c = bern_poly(P[r], T)
                    for m in range(0, N + 1):
                        ref = Pl.polyval(t, c) if len(c) else 0.0
                        got = vals[m][r] if len(vals[m]) == dim else float("nan")
                        scm = (1 + np.max(np.abs(P))) * (2 * (1 + abs(t) / T)) ** N * (N / T) ** m * 4
                        if not abs(got - ref) <= 1e-9 * scm:
                            report("eval:vector:deriv%d" % m, "vector-valued curve: derivative of order %d is not the exact derivative (row %d of %d, degree %d)" % (m, r, dim, N),
                                   inp, abs(got - ref) if np.isfinite(got) else 1e9, 1e-9 * scm)
                        c = Pl.polyder(c)
    # the class itself on every container kind a caller may pass, every order 0..degree (oracle: numpy polynomial algebra)
    for (kind, rows, T, t, m) in gen_cases(np.random.default_rng(ctx.seed + 77), 25 if ctx.tier == "quick" else 300):
        N = len(rows[0]) - 1
        inp = {"kind": kind, "P": rows, "T": T, "t": t, "order": m, "degree": N}
        try:
            got = real_curve_values(kind, rows, T, t, m)
        except Exception as e:   # noqa: BLE001
            report("class:%s:raises" % kind, "Bezier(P, T).deriv(%d).eval raises for %s control points: %s" % (m, kind, type(e).__name__), inp, 1.0, 0); continue
        ev += 1; distinct += 1
        for r, row in enumerate(rows):
            c = bern_poly(np.array(row, dtype=float), float(T))
            for _ in range(m):
                c = Pl.polyder(c)
            ref = Pl.polyval(t, c) if len(c) else 0.0
            sc = (1 + max(abs(x) for x in row)) * (2 * (1 + abs(t) / T)) ** N * max(1.0, (2 * N / T)) ** m
            g = got[r] if len(got) == len(rows) else float("nan")
            if not abs(g - ref) <= 1e-9 * sc:
                report("class:%s:order%s" % (kind, "=degree" if m == N else ("0" if m == 0 else "<degree")),
                       "Bezier(P, T)%s.eval(t) is not the %s of the Bernstein polynomial (%s control points, degree %d, order %d)"
                       % ("" if m == 0 else ".deriv(%d)" % m, "value" if m == 0 else "exact derivative", kind, N, m),
                       inp, abs(g - ref) if np.isfinite(g) else 1e9, 1e-9 * sc)
    for N in range(1, 8):
        f = nl.F("Bezier", "bezier.eval%d" % N)
        for it in range(n):
            P = rng.standard_normal((1, N + 1)) * 3
            T = float(rng.choice([0.5, 1.0, 2.0, 7.5]))
            t = float(rng.choice([0.0, T, rng.uniform(0, T), rng.uniform(-0.5 * T, 1.5 * T)]))
            p, d = f(P, T, t)
            d = np.atleast_1d(d)
            ev += 1; distinct += 1
            c = bern_poly(P[0], T)
            sc = 1 + np.max(np.abs(P)) * (1 + abs(t) / T) ** N * 2 ** N
            ref = Pl.polyval(t, c)
            if not abs(p - ref) <= 1e-9 * sc:
                report("eval%d:bernstein" % N, "eval != Bernstein polynomial", {"P": P.tolist(), "T": T, "t": t}, abs(p - ref), 1e-9 * sc)
            for m in range(1, N + 1):
                c = Pl.polyder(c)
                ref = Pl.polyval(t, c) if len(c) else 0.0
                scm = sc * (N / T) ** m * 4
                if not abs(d[m - 1] - ref) <= 1e-9 * scm:
                    report("eval%d:deriv%d" % (N, m), "deriv(%d).eval != exact derivative" % m,
                           {"P": P.tolist(), "T": T, "t": t}, abs(d[m - 1] - ref), 1e-9 * scm)
    # solvers
    s3, s7 = nl.F("Bezier", "bezier.bezier3_solve"), nl.F("Bezier", "bezier.bezier7_solve")
    t3, t7 = nl.F("Bezier", "bezier.bezier3_traj"), nl.F("Bezier", "bezier.bezier7_traj")
    for it in range(n * 2):
        T = float(rng.choice([0.5, 1.0, 3.0, 10.0]))
        w0, w1 = rng.standard_normal(2) * 2, rng.standard_normal(2) * 2
        P = np.atleast_2d(s3(w0, w1, T))
        r0, r1 = np.atleast_1d(t3(0.0, T, P)), np.atleast_1d(t3(T, T, P))
        ev += 1; distinct += 1
        err = max(np.max(np.abs(r0[:2] - w0)), np.max(np.abs(r1[:2] - w1)))
        if not err <= 1e-8 * (1 + 1 / T):
            report("bezier3_solve:bc", "cubic solver misses a boundary condition", {"wp_0": w0.tolist(), "wp_1": w1.tolist(), "T": T}, err, 1e-8)
        w0, w1 = rng.standard_normal(4) * 2, rng.standard_normal(4) * 2
        P = np.atleast_2d(s7(w0, w1, T))
        r0, r1 = np.atleast_1d(t7(0.0, T, P)), np.atleast_1d(t7(T, T, P))
        err = max(np.max(np.abs(r0[:4] - w0)), np.max(np.abs(r1[:4] - w1)))
        sc = 1 + (1 / T) ** 3 + T ** 3
        if not err <= 1e-7 * sc:
            report("bezier7_solve:bc", "septic solver misses a boundary condition (pos/vel/acc/jerk at both ends)",
                   {"wp_0": w0.tolist(), "wp_1": w1.tolist(), "T": T, "at0": r0[:4].tolist(), "atT": r1[:4].tolist()}, err, 1e-7 * sc)
    # multirotor consistency: outputs equal the curve and its successive derivatives
    fm = nl.F("Bezier", "bezier.bezier_multirotor")
    for it in range(n):
        T = float(rng.choice([1.0, 2.0, 5.0]))
        t = float(rng.uniform(-0.2 * T, 1.2 * T))
        PX, PY, PZ = (rng.standard_normal((1, 8)) for _ in range(3))
        Pp = rng.standard_normal((1, 4))
        x, y, z, psi, dpsi, ddpsi, v, a, j, s = fm(t, T, PX, PY, PZ, Pp)
        ev += 1; distinct += 1
        for ax, (P_, pos) in enumerate(((PX, x), (PY, y), (PZ, z))):
            c = bern_poly(P_[0], T)
            vals = [pos, v[ax], a[ax], j[ax], s[ax]]
            for m in range(5):
                ref = Pl.polyval(t, c)
                sc = (1 + np.max(np.abs(P_))) * (7 / T) ** m * 2 ** 9
                if not abs(vals[m] - ref) <= 1e-9 * sc:
                    report("multirotor:axis%d:order%d" % (ax, m), "multirotor output is not the order-%d derivative" % m,
                           {"t": t, "T": T, "P": P_.tolist()}, abs(vals[m] - ref), 1e-9 * sc)
                c = Pl.polyder(c)
        c = bern_poly(Pp[0], T)
        for m, val in enumerate([psi, dpsi, ddpsi]):
            ref = Pl.polyval(t, c)
            sc = (1 + np.max(np.abs(Pp))) * (3 / T) ** m * 64
            if not abs(val - ref) <= 1e-9 * sc:
                report("multirotor:psi:order%d" % m, "heading output is not the order-%d derivative" % m, {"t": t, "T": T}, abs(val - ref), 1e-9 * sc)
            c = Pl.polyder(c)
    ctx.samples.extend(found[:3] or [{"degree": 7, "T": 2.0, "t": 0.7, "P": rng.standard_normal(8).round(3).tolist()}])
    return found, {"evaluations": ev, "distinct_nontrivial": distinct}


def replay(payload):
    class C:  # re-run the whole (cheap) search
        seed = 0; tier = "quick"; samples = []; notes = []
    found, _ = search(C())
    cases = {v.get("case") for v in payload.get("violations", [])}
    hit = [f for f in found if f["case"] in cases]
    for f in hit:
        print("reproduced:", f["case"], f["what"], f["error"])
    return not hit
