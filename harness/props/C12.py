"""C12 — the attitude estimator converges to the truth in closed-loop simulation (partial: structural theorems +
falsification sweep over launch_sim histories)."""
from __future__ import annotations

import contextlib
import io
import multiprocessing as mp

import numpy as np

ID = "C12"
MODULES = ["Est"]
LEAN_TARGETS = ["Props.C12"]
ANCHORS = ["cyecca/estimate/attitude/algorithms/sim.py", "cyecca/estimate/attitude/algorithms/mrp.py", "cyecca/estimate/attitude/estimator.py",
           "cyecca/estimate/attitude/simulator.py", "cyecca/estimate/attitude/launch.py", "cyecca/sim/uros.py"]
MISSING = [
    "the trajectory-level claim itself (error below a few hundredths of a radian after a transient for every initial condition in the box) is a "
    "stability result for a time-varying EKF on a sampled nonlinear system run in doubles across SimPy processes: no theorem; the check runs the real "
    "launch_sim (noise off) over sampled initial attitudes, biases, inclinations, with and without initialisation, against thresholds far looser than the property",
    "magnetometer magnitude = mag_str needs SO3Dcm.exp orthogonal on the Taylor cell as well (C02 proves the closed-form cells): the theorem here is "
    "'the magnitude does not depend on the attitude'; the value is checked numerically",
    "noise-free measurements of the estimator's own state give zero residuals (truth is a fixed point of the corrections): numeric search only",
    "the composed Lean Float model of simulator + estimator + logger stepped against launch_sim (trajectory correspondence) is not built; the tie is "
    "per function (bit-exact on every sim.* and mrp.* program)",
]


def relevant(fn):
    return fn.startswith("mrp.") or fn.startswith("sim.")


def _run(p):
    import numpy as np
    from cyecca.estimate.attitude import launch
    buf = io.StringIO()
    p = dict(p)
    before = p.pop("_before", [])
    try:
        with contextlib.redirect_stdout(buf):
            for q in before:      # earlier launches in the SAME process (their results are not looked at)
                launch.launch_sim(q)
            data = launch.launch_sim(p)
    except Exception as e:   # noqa: BLE001
        return {"exception": repr(e)}
    qs = data["sim_attitude"]["q"]; qe = data["mrp_attitude"]["q"]; bs = data["sim_attitude"]["b"]; be = data["mrp_attitude"]["b"]; t = data["time"]
    d = np.abs(np.sum(qs * qe, axis=-1)); a = 2 * np.arccos(np.clip(d, -1, 1))
    late = t > 0.6 * t[-1]
    started = np.where(~np.isnan(be[:, 0]))[0]
    first = int(started[0]) if len(started) else len(t)
    tail_nan = bool(np.any(np.isnan(a[first:])) or np.any(np.isnan(be[first:]))) if first < len(t) else True
    return {"late_att_err": float(np.nanmax(a[late])) if np.any(late) else float("nan"),
            "late_bias_err": np.nanmax(np.abs(be[late] - bs[late]), axis=0).tolist(),
            "nan_after_start": tail_nan, "never_started": first >= len(t),
            "rows": int(len(t)), "accel_rejects": int(np.nansum(data["mrp_status"]["accel_ret"] != 0)),
            "mag_rejects": int(np.nansum(data["mrp_status"]["mag_ret"] != 0)),
            "time_monotone": bool(np.all(np.diff(t) >= 0))}


def search(ctx):
    import casadi as ca
    import cyecca.estimate.attitude.algorithms as alg
    from cyecca.lie.group_so3 import SO3Mrp
    rng = np.random.default_rng(ctx.seed + 1212)
    E = alg.eqs(); m = E["mrp"]; s = E["sim"]
    rs = ca.SX.sym("r", 3); fR = ca.Function("R", [rs], [SO3Mrp.elem(rs).to_Matrix()])
    found = []; ev = 0
    big = ctx.tier != "quick"

    def report(case, what, inputs, err, tol):
        if not any(z["case"] == case for z in found):
            found.append({"case": case, "what": what, "inputs": inputs, "error": float(err), "tolerance": tol, "obligation": "search:" + case})

    # ---- sensor models and fixed point
    n_sens = 0
    for i in range(600 if big else 150):
        r = rng.standard_normal(3); r *= rng.uniform(0, 1) ** 0.3 / np.linalg.norm(r)
        if i % 7 == 0: r /= np.linalg.norm(r)
        b = rng.uniform(-0.05, 0.05, 3); x = np.concatenate([r, b])
        g = rng.uniform(9.5, 10.1); ms = rng.uniform(0.05, 2); decl = rng.uniform(-3.1, 3.1) * rng.choice([1, 1e-3, 0]); incl = rng.uniform(-1.4, 1.4) * rng.choice([1, 1, 1e-4])
        R = np.array(fR(r))
        ya = np.array(s["measure_accel"](x, g, 0, np.zeros(3))).ravel()
        ym = np.array(s["measure_mag"](x, ms, decl, incl, 0, np.zeros(3))).ravel()
        om = rng.standard_normal(3) * 5
        yg = np.array(s["measure_gyro"](x, om, 0, np.zeros(3))).ravel(); ev += 3; n_sens += 1
        inp = {"x": x.tolist(), "g": g, "mag_str": ms, "decl": decl, "incl": incl}
        if not abs(np.linalg.norm(ya) - g) <= 1e-9 * g:
            report("sensor:accel-norm", "simulated accelerometer magnitude is not g", inp, abs(np.linalg.norm(ya) - g), 1e-9)
        if not np.max(np.abs(ya - R.T @ np.array([0, 0, -g]))) <= 1e-9 * g:
            report("sensor:accel-rotate", "simulated accelerometer is not R^T (0,0,-g)", inp, np.max(np.abs(ya - R.T @ np.array([0, 0, -g]))), 1e-9)
        if not abs(np.linalg.norm(ym) - ms) <= 1e-9 * ms:
            report("sensor:mag-norm", "simulated magnetometer magnitude is not mag_str", inp, abs(np.linalg.norm(ym) - ms), 1e-9)
        Bn = ms * np.array([np.cos(decl) * np.cos(incl), np.sin(decl) * np.cos(incl), np.sin(incl)])
        if not np.max(np.abs(ym - R.T @ Bn)) <= 1e-9 * ms:
            report("sensor:mag-rotate", "simulated magnetometer is not R^T B_n", inp, np.max(np.abs(ym - R.T @ Bn)), 1e-9)
        if not np.max(np.abs(yg - om - b)) <= 1e-12:
            report("sensor:gyro", "simulated gyro is not omega + bias", inp, np.max(np.abs(yg - om - b)), 1e-12)
        # truth is a fixed point of the corrections (noise-free measurement of the estimator's own state)
        W = np.diag([0.03, 0.03, 0.03, 0.01, 0.01, 0.01])
        oa = m["correct_accel"](x, W, np.array(s["measure_accel"](x, 9.8, 0, np.zeros(3))).ravel(), 9.8, om, 35e-3, 0, 9.2)
        d0 = rng.uniform(-0.5, 0.5)
        omg = m["correct_mag"](x, W, np.array(s["measure_mag"](x, ms, d0, incl, 0, np.zeros(3))).ravel(), d0, 2.5e-3, 6.6); ev += 2
        if float(oa[5]) == 0 and not (np.max(np.abs(np.array(oa[3]))) <= 1e-7 and np.max(np.abs(np.array(oa[0]).ravel() - x)) <= 1e-7):
            report("fixed-point:accel", "a noise-free accelerometer reading of the estimator's own state moves the state", inp, np.max(np.abs(np.array(oa[0]).ravel() - x)), 1e-7)
        if float(omg[5]) == 0 and abs(np.cos(incl)) > 0.05 and not (abs(float(omg[3])) <= 1e-7 and np.max(np.abs(np.array(omg[0]).ravel() - x)) <= 1e-7):
            report("fixed-point:mag", "a noise-free magnetometer reading of the estimator's own state moves the state", inp, np.max(np.abs(np.array(omg[0]).ravel() - x)), 1e-7)

    # ---- closed loop: real launch_sim, noise off
    runs = []
    n_runs = 48 if big else 8
    tf = 30.0 if big else 20.0
    for i in range(n_runs):
        r = rng.standard_normal(3); r *= rng.uniform(0, 1) / np.linalg.norm(r)
        b = rng.uniform(-0.05, 0.05, 3)
        if i % 4 == 0:
            b[rng.integers(3)] = rng.choice([-0.05, 0.05])     # a clearly non-zero component
        params = {"sim/enable_noise": False, "sim/mag_incl": float(rng.uniform(-1.0, 1.0)), "sim/mag_decl": 0.0}
        # sensor / logging rate settings: magnetometer faster than the IMU, slower IMU and logger
        if i % 4 == 1:
            params["sim/dt_mag"] = 1.0 / 400
        if i % 4 == 2:
            params["sim/dt_mag"] = 1.0 / 200
        if i % 8 == 7:
            params["sim/dt_imu"] = 1.0 / 100; params["logger/dt"] = 1.0 / 100
        runs.append({"tf": tf, "estimators": ["mrp"], "initialize": bool(i % 2 == 0), "x0": [float(v) for v in np.concatenate([r, b])], "params": params})
    # a launch that follows another launch with different settings in the same process (a notebook / Monte-Carlo driver does this)
    for i in range(2 if big else 1):
        r = rng.standard_normal(3); r *= rng.uniform(0.2, 0.9) / np.linalg.norm(r)
        first = {"tf": 0.3, "estimators": ["mrp"], "initialize": True, "x0": [0.0] * 6,
                 "params": {"sim/enable_noise": False, "sim/g": 3.7, "mrp/g": 3.7, "sim/mag_str": 0.45, "sim/mag_incl": 0.9, "sim/dt_mag": 1.0 / 25}}
        runs.append({"tf": tf, "estimators": ["mrp"], "initialize": True, "x0": [float(v) for v in np.concatenate([r, rng.uniform(-0.03, 0.03, 3)])],
                     "params": {"sim/enable_noise": False}, "_before": [first]})
    # fast IMU (1 kHz simulation and IMU rate)
    for i in range(2 if big else 1):
        r = rng.standard_normal(3); r *= rng.uniform(0.2, 0.9) / np.linalg.norm(r)
        runs.append({"tf": min(tf, 15.0), "estimators": ["mrp"], "initialize": bool(i % 2 == 0),
                     "x0": [float(v) for v in np.concatenate([r, rng.uniform(-0.04, 0.04, 3)])],
                     "params": {"sim/enable_noise": False, "sim/dt_sim": 1e-3, "sim/dt_imu": 1e-3, "sim/mag_incl": float(rng.uniform(-0.8, 0.8))}})
    # a configured gravity other than the default, set consistently on simulator and estimator, without the initialisation step
    # (initialize() compares with the literal 9.8 and would refuse to initialise — a known limitation outside this run)
    for gv in ((8.0, 11.5) if big else (8.0,)):
        r = rng.standard_normal(3); r *= rng.uniform(0.2, 0.8) / np.linalg.norm(r)
        runs.append({"tf": tf, "estimators": ["mrp"], "initialize": False,
                     "x0": [float(v) for v in np.concatenate([r, rng.uniform(-0.04, 0.04, 3)])],
                     "params": {"sim/enable_noise": False, "sim/g": gv, "mrp/g": gv}})
    # estimator accelerometer throttle slower than the IMU (corrections at 20 Hz, IMU at 200 Hz)
    r = rng.standard_normal(3); r *= rng.uniform(0.2, 0.8) / np.linalg.norm(r)
    runs.append({"tf": tf, "estimators": ["mrp"], "initialize": False,
                 "x0": [float(v) for v in np.concatenate([r, rng.uniform(-0.04, 0.04, 3)])],
                 "params": {"sim/enable_noise": False, "mrp/dt_min_accel": 0.05}})
    n_runs = len(runs)
    ctxmp = mp.get_context("fork")
    with ctxmp.Pool(min(16, n_runs)) as pool:
        res = pool.map(_run, runs)
    worst_att = 0.0; worst_bias = 0.0
    for p, o in zip(runs, res):
        ev += 1
        inp = {"launch_sim_params": p}
        if "exception" in o:
            report("loop:exception", "launch_sim raised: " + o["exception"][:200], inp, np.nan, 0); continue
        if o["never_started"] or o["nan_after_start"]:
            report("loop:nan", "NaN in the estimate after the estimator started (or it never started)", inp, np.nan, 0); continue
        if not o["time_monotone"]:
            report("loop:time", "logged time decreases", inp, 0, 0)
        worst_att = max(worst_att, o["late_att_err"])
        if not o["late_att_err"] <= 0.05:
            report("loop:attitude", "attitude error above 0.05 rad in the last 40 % of the run", dict(inp, result=o), o["late_att_err"], 0.05)
        b0 = np.abs(np.array(p["x0"][3:]))
        for k in range(3):
            tol = max(0.02, 0.5 * b0[k])     # 0.01 was inside the estimate's own wander at a 100 Hz IMU rate (false alarm, DESIGN §6.5)
            worst_bias = max(worst_bias, o["late_bias_err"][k])
            if not o["late_bias_err"][k] <= tol:
                report("loop:bias-%s" % "xyz"[k], "gyro-bias %s estimate does not approach the true bias (error in the last 40 %% of the run)" % "xyz"[k],
                       dict(inp, result=o), o["late_bias_err"][k], tol)
    ctx.samples.extend(found[:2] or [{"launch_sim_params": runs[0], "result": res[0]}])
    stats = {"evaluations": ev, "distinct_nontrivial": n_sens + len(runs), "sensor_cases": n_sens, "closed_loop_runs": len(runs), "tf": tf,
             "worst_late_attitude_error_rad": worst_att, "worst_late_bias_error": worst_bias,
             "with_init": sum(1 for p in runs if p["initialize"]), "without_init": sum(1 for p in runs if not p["initialize"])}
    return found, stats


def replay(payload):
    class C:
        seed = 0; tier = "quick"; samples = []; notes = []
    bad = False
    for v in payload.get("violations", []):
        p = v.get("inputs", {}).get("launch_sim_params")
        if p:
            o = _run(p); print("replayed launch_sim:", o)
            bad = bad or o.get("late_att_err", 1) > 0.05
    if bad:
        return False
    found, _ = search(C())
    cases = {v.get("case") for v in payload.get("violations", [])}
    hit = [z for z in found if z["case"] in cases]
    for z in hit:
        print("reproduced:", z["case"], z["what"], z["error"])
    return not hit
