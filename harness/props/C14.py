"""C14 — attitude set-points are proper rotations aligned with demanded thrust and heading."""
from __future__ import annotations

import math

import numpy as np

import numlib as nl
from props import common

ID = "C14"
MODULES = ["Series", "SO3", "Ref", "RefP", "Ctrl"]
LEAN_TARGETS = ["Props.C14"]
ANCHORS = ["cyecca/models/rdd2.py", "cyecca/models/rdd2_loglinear.py", "cyecca/models/bezier.py",
           "cyecca/models/mr_ref_traj.py", "cyecca/lie/group_so3.py"]
MISSING = [
    "flatness references (f_ref, mr_ref_traj) in their degenerate branches (thrust below the 1e-6 clamp, thrust parallel to the heading): "
    "recorded findings, theorems are for the main branch; f_ref = mr_ref_traj at the shipped constants, the yaw rate r and the angular "
    "acceleration outputs, f_ref's quaternion, and input_auto_level: numeric search only",
    "position controller / SE_2(3) outer loop: the body y axis is perpendicular to the heading on the main branch (theorem); in the "
    "Gram-Schmidt fallback (thrust within 1e-3 rad of the heading) only approximately (search)",
]
M1, G = 2.24, 9.8          # rdd2 constants
MB, JB = 2.0, (0.0216666, 0.0216666, 0.04, 0.0)   # bezier constants


def relevant(fn):
    return True


def yaw_of(q):
    return math.atan2(2 * (q[0] * q[3] + q[1] * q[2]), 1 - 2 * (q[2] ** 2 + q[3] ** 2))


def search(ctx):
    rng = np.random.default_rng(ctx.seed + 1414)
    found = []
    ev = 0
    branches = {"main": 0, "zero_thrust": 0, "parallel": 0}

    def report(case, what, inputs, err, tol):
        if not any(z["case"] == case for z in found):
            found.append({"case": case, "what": what, "inputs": inputs, "error": float(err), "tolerance": tol,
                          "obligation": "search:" + case})

    def proper(R):
        return max(np.max(np.abs(R.T @ R - np.eye(3))), abs(np.linalg.det(R) - 1))
    n = 60 if ctx.tier == "quick" else 2000
    F = nl.F
    pc = F("Ref", "rdd2.position_control"); spc = F("Ref", "loglinear.se23_position_control")
    zW = np.array([0, 0, 1.0])
    for it in range(n):
        kind = it % 6
        trim = float(rng.uniform(5, 30)); zi = float(rng.standard_normal() * 3)
        pt = rng.standard_normal(3) * 2; vt = rng.standard_normal(3); at = rng.standard_normal(3)
        p = pt + rng.standard_normal(3) * rng.choice([0.0, 0.1, 3.0]); v = vt + rng.standard_normal(3) * rng.choice([0.0, 1.0])
        yaw = float(rng.uniform(-3.1, 3.1)); qc = nl.quat_axis_angle([0, 0, 1], yaw) * rng.choice([-1, 1])
        if it % 2 == 1 and kind < 4:
            # tilted / gimballed camera: the commanded heading is the 3-2-1 yaw of qc, whatever its pitch and roll
            qc = nl.quat_mul(nl.quat_mul(qc, nl.quat_axis_angle([0, 1, 0], float(rng.uniform(-1.2, 1.2)))),
                             nl.quat_axis_angle([1, 0, 0], float(rng.uniform(-2.5, 2.5))))
            yaw = yaw_of(qc)
        br = "main"
        if kind == 4:      # near-zero thrust: everything cancels
            p, v, at, trim, zi = pt.copy(), vt.copy(), np.zeros(3), 0.0, 0.0; br = "zero_thrust"
        if kind == 5:      # thrust parallel to the heading vector: horizontal thrust along xC
            p, v, trim, zi = pt.copy(), vt.copy(), 0.0, 0.0
            at = np.array([math.cos(yaw), math.sin(yaw), 0.0]) * 2.0; br = "parallel"
        branches[br] += 1
        nT, qr, zi2 = pc(trim, pt, vt, at, qc, p, v, zi, 0.01); ev += 1
        inp = {"thrust_trim": trim, "pt_w": pt.tolist(), "vt_w": vt.tolist(), "at_w": at.tolist(), "qc_wb": qc.tolist(),
               "p_w": p.tolist(), "v_w": v.tolist(), "z_i": zi, "branch": br}
        pterm = -1.0 * (p - pt) - 2.0 * (v - vt) + M1 * at
        if np.linalg.norm(pterm) > 0.3 * M1 * G:
            pterm = 0.3 * M1 * G * pterm / np.linalg.norm(pterm)
        T = pterm + (trim + 0.05 * zi) * zW
        if not (np.all(np.isfinite(qr)) and np.isfinite(nT)):
            report("position_control:finite", "set-point not finite", inp, 1.0, 0); continue
        if not abs(np.linalg.norm(qr) - 1) <= 1e-8:
            report("position_control:unit:" + br, "returned quaternion is not unit (set-point is not a proper rotation)", inp,
                   abs(np.linalg.norm(qr) - 1), 1e-8)
        R = nl.quat_to_R(qr / np.linalg.norm(qr)) if np.linalg.norm(qr) > 0 else np.eye(3)
        if abs(nT - np.linalg.norm(T)) > 1e-9 * (1 + np.linalg.norm(T)):
            report("position_control:nT", "returned thrust magnitude is not the norm of the demanded force", inp, abs(nT - np.linalg.norm(T)), 1e-9)
        if br == "main" and np.linalg.norm(T) > 1e-2:
            zb = T / np.linalg.norm(T)
            xC = np.array([math.cos(yaw), math.sin(yaw), 0])
            if np.linalg.norm(np.cross(zb, xC)) > 1e-2:
                if not np.max(np.abs(R[:, 2] - zb)) <= 1e-7:
                    report("position_control:zB", "body z axis is not the normalised demanded force", inp, np.max(np.abs(R[:, 2] - zb)), 1e-7)
                if not abs(R[:, 1] @ xC) <= 1e-7:
                    report("position_control:yB", "body y axis is not perpendicular to the heading direction", inp, abs(R[:, 1] @ xC), 1e-7)
    # SE_2(3) outer loop
    for it in range(n // 2 + 6):
        kp = rng.uniform(0.5, 3, 3); zeta = rng.standard_normal(9) * 0.5; at = rng.standard_normal(3)
        trim = float(rng.uniform(5, 30)); zi = float(rng.standard_normal())
        if it >= n // 2:
            # vanishing demanded force: no trim, no error, no feed-forward (exactly zero), or a force of a fraction of a millinewton
            zeta = np.zeros(9); zi = 0.0; trim = 0.0
            at = [np.zeros(3), np.array([0, 0, 2e-4]), np.array([1e-4, -2e-4, 1e-4])][(it - n // 2) % 3]
        yaw = float(rng.uniform(-3.1, 3.1)); qc = nl.quat_axis_angle([0, 0, 1], yaw)
        nT, qr, zi2 = spc(trim, kp, zeta, at, qc, zi, 0.01); ev += 1
        inp = {"thrust_trim": trim, "kp": kp.tolist(), "zeta": zeta.tolist(), "at_w": at.tolist(), "qc_wb": qc.tolist(), "z_i": zi}
        if not (np.all(np.isfinite(qr)) and abs(np.linalg.norm(qr) - 1) <= 1e-8):
            report("se23_position_control:unit", "returned quaternion is not unit / finite", inp, abs(np.linalg.norm(qr) - 1), 1e-8); continue
        R = nl.quat_to_R(qr); xC = np.array([math.cos(yaw), math.sin(yaw), 0])
        if not abs(R[:, 1] @ xC) <= 1e-7:
            report("se23_position_control:yB", "body y axis is not perpendicular to the heading direction", inp, abs(R[:, 1] @ xC), 1e-7)
        if not (nT >= 0 and abs(zi2) <= 1e-15):
            report("se23_position_control:misc", "thrust magnitude negative / integrator outside its limit", inp, 1.0, 0)
    # flatness references
    fr = F("Ref", "bezier.f_ref"); mr = F("Ref", "mr_ref_traj.mr_ref_traj")
    Jm = np.array([[JB[0], 0, JB[3]], [0, JB[1], 0], [JB[3], 0, JB[2]]])
    for it in range(n):
        psi = float(rng.uniform(-3.1, 3.1)); psid, psidd = float(rng.standard_normal()), float(rng.standard_normal())
        v, a, j, s = (rng.standard_normal(3) * sc for sc in (3, 3, 2, 2))
        if it % 7 == 0:
            a = np.array([0, 0, 9.8]) + rng.standard_normal(3) * 1e-9 * (it % 2)    # free fall: thrust ~ 0
        if it % 7 == 1:
            a = np.array([0, 0, 9.8]) - 3 * np.array([math.cos(psi), math.sin(psi), 0])   # thrust parallel to heading
        if it % 7 in (2, 5):
            # demanded acceleration beyond free fall: the thrust axis points BELOW the horizon (inverted flight), heading turning
            a = np.array([rng.standard_normal() * 2, rng.standard_normal() * 2, 9.8 + rng.uniform(1.0, 12.0)])
            psid = float(rng.choice([-1.3, 0.7, 2.1]))
        vb, quat, om, omd, Mb, T = fr(psi, psid, psidd, v, a, j, s); ev += 1
        vb2, C, om2, omd2, Mb2, T2 = mr(psi, psid, psidd, v, a, j, s, MB, 9.8, JB[0], JB[1], JB[2], JB[3]); ev += 1
        inp = {"psi": psi, "psi_dot": psid, "psi_ddot": psidd, "v_e": v.tolist(), "a_e": a.tolist(), "j_e": j.tolist(), "s_e": s.tolist()}
        thrust = MB * (9.8 * zW - a)
        degenerate = np.linalg.norm(thrust) < 1e-3 or np.linalg.norm(np.cross(thrust / max(np.linalg.norm(thrust), 1e-12),
                                                                            [math.cos(psi), math.sin(psi), 0])) < 1e-3
        allv = np.concatenate([np.ravel(x) for x in (vb, quat, om, omd, Mb, [T], vb2, np.ravel(C), om2, omd2, Mb2, [T2])])
        if not np.all(np.isfinite(allv)):
            if not degenerate:
                report("ref:finite", "flatness reference not finite on a regular input", inp, 1.0, 0)
            else:
                report("ref:finite:degenerate", "flatness reference not finite in a degenerate branch (zero thrust / thrust parallel to heading)", inp, 1.0, 0)
            continue
        e1 = proper(C); e2 = abs(np.linalg.norm(quat) - 1)
        tag = ":degenerate" if degenerate else ""
        if not e1 <= 1e-8:
            report("mr_ref_traj:proper" + tag, "C_be is not an orthonormal right-handed matrix", inp, e1, 1e-8)
        if not e2 <= 1e-8:
            report("f_ref:unit" + tag, "f_ref quaternion is not unit", inp, e2, 1e-8)
        if degenerate:
            continue
        # the two shipped variants agree
        d = max(np.max(np.abs(vb - vb2)), np.max(np.abs(om - om2)), np.max(np.abs(omd - omd2)), np.max(np.abs(Mb - Mb2)), abs(T - T2),
                np.max(np.abs(nl.quat_to_R(quat) - C)))
        if not d <= 1e-7 * (1 + np.max(np.abs(omd2))):
            report("ref:agree", "f_ref and mr_ref_traj disagree at the shipped constants", inp, d, 1e-7)
        zb = thrust / np.linalg.norm(thrust); xc = np.array([math.cos(psi), math.sin(psi), 0])
        if not (np.max(np.abs(C[:, 2] - zb)) <= 1e-8 and abs(C[:, 1] @ xc) <= 1e-8 and abs(T2 - np.linalg.norm(thrust)) <= 1e-8 * (1 + T2)):
            report("ref:frame", "thrust axis / heading perpendicularity / thrust magnitude wrong", inp, np.max(np.abs(C[:, 2] - zb)), 1e-8)
        # roll and pitch rate = rotation rate of the thrust axis along the trajectory (a' = j)
        eps = 1e-5
        Cp = mr(psi, psid, psidd, v, a + eps * j, j, s, MB, 9.8, *JB)[1]; Cm = mr(psi, psid, psidd, v, a - eps * j, j, s, MB, 9.8, *JB)[1]; ev += 2
        zdot = (Cp[:, 2] - Cm[:, 2]) / (2 * eps)
        pq = np.array([-C[:, 1] @ zdot, C[:, 0] @ zdot])
        if not np.max(np.abs(pq - om2[:2])) <= 1e-5 * (1 + np.max(np.abs(om2))):
            report("ref:rates", "roll/pitch rates are not the rotation rate of the thrust axis", inp, np.max(np.abs(pq - om2[:2])), 1e-5)
        # Euler's equation for a general inertia (products of inertia J_xz != 0; the function takes them as inputs)
        Jg = (float(rng.uniform(0.01, 0.05)), float(rng.uniform(0.01, 0.05)), float(rng.uniform(0.02, 0.08)), float(rng.uniform(-0.008, 0.008)))
        mg_ = float(rng.uniform(0.5, 3.0))
        o3 = mr(psi, psid, psidd, v, a, j, s, mg_, 9.8, *Jg); ev += 1
        Jgm = np.array([[Jg[0], 0, Jg[3]], [0, Jg[1], 0], [Jg[3], 0, Jg[2]]])
        w3, wd3, M3 = np.ravel(o3[2]), np.ravel(o3[3]), np.ravel(o3[4])
        Mexp3 = Jgm @ wd3 + np.cross(w3, Jgm @ w3)
        if np.all(np.isfinite(Mexp3)) and not np.max(np.abs(Mexp3 - M3)) <= 1e-9 * (1 + np.max(np.abs(Mexp3))):
            report("ref:euler:general-inertia", "moment does not satisfy Euler's equation for the returned rates (general inertia, J_xz != 0)",
                   dict(inp, m=mg_, J=list(Jg)), np.max(np.abs(Mexp3 - M3)), 1e-9)
        Mexp = Jm @ omd2 + np.cross(om2, Jm @ om2)
        if not np.max(np.abs(Mexp - Mb2)) <= 1e-9 * (1 + np.max(np.abs(Mexp))):
            report("ref:euler", "moment does not satisfy Euler's equation for the returned rates", inp, np.max(np.abs(Mexp - Mb2)), 1e-9)
    # helpers
    e2q = F("Ref", "bezier.eulerB321_to_quat")
    for it in range(n):
        e = common.s_euler(rng)
        q = np.atleast_1d(e2q(e[0], e[1], e[2])); ev += 1
        if not (abs(np.linalg.norm(q) - 1) <= 1e-9 and np.max(np.abs(nl.quat_to_R(q) - common.euler_R(e))) <= 1e-8):
            report("eulerB321_to_quat", "Euler-to-quaternion helper: not unit or different rotation", {"euler": e.tolist()}, 1.0, 1e-8)
    ctx.samples.extend(found[:3] or [{"branch": "parallel", "note": "thrust along heading"}])
    return found, {"evaluations": ev, "distinct_nontrivial": ev, "branches": branches}


def replay(payload):
    class C:
        seed = 0; tier = "quick"; samples = []; notes = []
    found, _ = search(C())
    cases = {v.get("case") for v in payload.get("violations", [])}
    hit = [z for z in found if z["case"] in cases]
    for z in hit:
        print("reproduced:", z["case"], z["what"], z["error"], z["inputs"])
    return not hit
