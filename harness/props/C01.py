"""C01 — group axioms under the matrix representation."""
from __future__ import annotations

import numpy as np

import numlib as nl
from props import common

ID = "C01"
MODULES = ["Series", "SO2", "SE2", "Rn", "SO3", "SE3", "SE23", "Products"]
LEAN_TARGETS = ["Props.C01", "Props.C01P", "Props.C07"]   # C07: from_Matrix is a right inverse of to_Matrix on SO(3) (Shepperd, MRP)
ANCHORS = ["cyecca/lie/base.py", "cyecca/lie/group_so2.py", "cyecca/lie/group_se2.py", "cyecca/lie/group_rn.py",
           "cyecca/lie/group_so3.py", "cyecca/lie/group_se3.py", "cyecca/lie/group_se23.py",
           "cyecca/lie/direct_product.py"]
# entry points that must exist (anything else raising is reported too, NotImplementedError is skipped)


def relevant(fn):
    """entry points whose failure to build is a C01 matter"""
    return fn.split(".")[-1] in ("product", "inverse", "identity", "toMatrix", "fromMatrix")

MISSING = [
    "SO3Euler product/inverse homomorphism as a theorem (goes through from_Matrix: arcsin/atan2 case analysis) — covered by C07 from_Matrix theorem + search only",
    "SO3Quat/SO3Mrp from_Matrix right-inverse (Shepperd branches) is proved in Props/C07",
    "direct products: theorem for the 4 translated instances, generic-n induction not done",
]

OPS = ("product", "inverse", "identity", "toMatrix")


def check_group(g: common.Group, rng, n, found, stats):
    prod = nl.F(g.mod, g.name + ".product")
    inv = nl.F(g.mod, g.name + ".inverse")
    ident = nl.F(g.mod, g.name + ".identity")
    toM = nl.F(g.mod, g.name + ".toMatrix")
    fromM = None
    try:
        if nl.offered(g.mod, g.name + ".fromMatrix"):
            fromM = nl.F(g.mod, g.name + ".fromMatrix")
    except Exception:
        fromM = None   # reported through extraction (call raises)
    e = np.atleast_1d(ident())
    I = np.eye(g.mdim)
    tol = 1e-9

    def report(case, what, inputs, err):
        if not any(f["case"] == case for f in found):
            found.append({"case": case, "what": what, "function": g.name, "inputs": inputs, "error": float(err),
                          "tolerance": tol})

    Me = toM(e)
    stats["evaluations"] += 1
    if np.max(np.abs(Me - I)) > tol:
        report(g.name + ".identity:matrix", "to_Matrix(identity()) is not the identity matrix",
               {"identity": e.tolist(), "matrix": Me.tolist()}, np.max(np.abs(Me - I)))
    for k in range(n):
        X, Y, Z = g.sample(rng), g.sample(rng), g.sample(rng)
        if g.pair_ok is not None and not (g.pair_ok(X, Y) and g.pair_ok(Y, Z)):
            continue
        XY = np.atleast_1d(prod(X, Y))
        stats["evaluations"] += 1
        stats["distinct"].add((g.name, k))
        s = 1 + np.max(np.abs(toM(X))) * np.max(np.abs(toM(Y)))
        d = np.max(np.abs(toM(XY) - toM(X) @ toM(Y)))
        if not d <= tol * s:
            report(g.name + ".product:hom", "to_Matrix(X*Y) != to_Matrix(X) @ to_Matrix(Y)",
                   {"X": X.tolist(), "Y": Y.tolist()}, d)
        Xi = np.atleast_1d(inv(X))
        s = 1 + np.max(np.abs(toM(X))) ** 2
        d = max(np.max(np.abs(toM(Xi) @ toM(X) - I)), np.max(np.abs(toM(X) @ toM(Xi) - I)))
        if not d <= tol * s:
            report(g.name + ".inverse:matrix", "to_Matrix(X^-1) is not the matrix inverse", {"X": X.tolist()}, d)
        # neutrality on the matrix level (parameters may differ by representation, e.g. Euler wrap)
        for nm, W in (("left", np.atleast_1d(prod(e, X))), ("right", np.atleast_1d(prod(X, e)))):
            d = np.max(np.abs(toM(W) - toM(X)))
            if not d <= tol * s:
                report(g.name + ".identity:" + nm, "identity is not %s-neutral" % nm, {"X": X.tolist()}, d)
        if g.pair_ok is None or (g.pair_ok(XY, Z) and g.pair_ok(X, np.atleast_1d(prod(Y, Z)))):
            A = toM(np.atleast_1d(prod(XY, Z)))
            B = toM(np.atleast_1d(prod(X, np.atleast_1d(prod(Y, Z)))))
            s3 = 1 + np.max(np.abs(A))
            d = np.max(np.abs(A - B))
            if not d <= 1e-8 * s3:
                report(g.name + ".product:assoc", "composition not associative", {"X": X.tolist(), "Y": Y.tolist(), "Z": Z.tolist()}, d)
        if fromM is not None:
            W = np.atleast_1d(fromM(toM(X)))
            d = np.max(np.abs(toM(W) - toM(X)))
            if not d <= 1e-8 * s:
                report(g.name + ".fromMatrix:roundtrip", "to_Matrix(from_Matrix(to_Matrix(X))) != to_Matrix(X)",
                       {"X": X.tolist(), "from_Matrix": W.tolist()}, d)


def check_from_matrix_special(rng, found, stats):
    """from_Matrix as a right inverse of to_Matrix on EXACT special rotations: 180 degree turns (symmetric matrices, quaternion
    scalar part exactly 0) and turns about a coordinate axis (exactly-zero off-diagonal pivots)"""
    mats = [np.diag([1.0, -1.0, -1.0]), np.diag([-1.0, 1.0, -1.0]), np.diag([-1.0, -1.0, 1.0])]
    for _ in range(3):
        n = nl.rand_axis(rng); mats.append(2 * np.outer(n, n) - np.eye(3))
    for j in range(3):
        for ang in (2.2, -2.7, np.pi, 3.6):
            ax = np.zeros(3); ax[j] = 1.0
            mats.append(nl.quat_to_R(nl.quat_axis_angle(ax, ang)))
    for g in common.groups():
        if g.name not in ("SO3Quat", "SO3Mrp", "SO3Dcm", "SE3Quat", "SE3Mrp", "SE23Quat", "SE23Mrp"):
            continue
        try:
            if not nl.offered(g.mod, g.name + ".fromMatrix"):
                continue
            fromM = nl.F(g.mod, g.name + ".fromMatrix"); toM = nl.F(g.mod, g.name + ".toMatrix")
        except Exception:   # noqa: BLE001
            continue
        for R in mats:
            M = np.eye(g.mdim); M[:3, :3] = R
            if g.mdim > 3:
                M[:3, 3:] = rng.standard_normal((3, g.mdim - 3))
            W = np.atleast_1d(fromM(M)); stats["evaluations"] += 1
            back = np.atleast_2d(toM(W))
            d = np.max(np.abs(back - M)) if np.all(np.isfinite(back)) else float("inf")
            if not d <= 1e-8 * (1 + np.max(np.abs(M))):
                if not any(f["case"] == g.name + ".fromMatrix:roundtrip:special" for f in found):
                    found.append({"case": g.name + ".fromMatrix:roundtrip:special", "function": g.name,
                                  "what": "to_Matrix(from_Matrix(M)) != M for an exact 180-degree / axis-aligned rotation",
                                  "inputs": {"M": M.tolist(), "from_Matrix": W.tolist()}, "error": float(min(d, 1e9)), "tolerance": 1e-8})


def check_euler_band(rng, n, found, stats):
    """products of valid Euler elements that land inside the gimbal band: documented tolerance only"""
    prod = nl.F("SO3", "SO3Euler.product"); toM = nl.F("SO3", "SO3Euler.toMatrix")
    tol = 5e-3   # 2*delta (delta < 1e-3) model error of the in-band formula, with margin
    for k in range(n):
        X, Y, d = common.euler_band_pair(rng)
        XY = np.atleast_1d(prod(X, Y))
        stats["evaluations"] += 1
        stats["distinct"].add(("SO3Euler@band", k))
        err = np.max(np.abs(toM(XY) - toM(X) @ toM(Y)))
        if not err <= tol:
            if not any(f["case"] == "SO3Euler.product:hom-band" for f in found):
                found.append({"case": "SO3Euler.product:hom-band", "function": "SO3Euler",
                              "what": "product landing inside the gimbal band is off by more than the documented band tolerance",
                              "inputs": {"X": X.tolist(), "Y": Y.tolist(), "delta": d}, "error": float(err), "tolerance": tol})


def search(ctx):
    rng = np.random.default_rng(ctx.seed + 101)
    n = 25 if ctx.tier == "quick" else 400
    found = []
    stats = {"evaluations": 0, "distinct": set()}
    for g in common.groups():
        try:
            check_group(g, rng, n, found, stats)
        except NotImplementedError:
            continue
        except Exception as e:   # entry point raises: reported by extraction; note here
            ctx.notes.append("search: %s raised %s: %s" % (g.name, type(e).__name__, str(e)[:120]))
    try:
        check_from_matrix_special(rng, found, stats)
        check_euler_band(rng, n, found, stats)
    except Exception as e:
        ctx.notes.append("search: euler band raised %s" % e)
    try:
        check_star_products(rng, 4 if ctx.tier == "quick" else 30, found, stats)
    except Exception as e:   # noqa: BLE001
        ctx.notes.append("search: star products raised %s: %s" % (type(e).__name__, str(e)[:160]))
    for f in found:
        f["obligation"] = "search:" + f["case"]
    if found:
        ctx.samples.extend(found[:3])
    else:
        ctx.samples.append({"group": "SE3Mrp", "example_input": common.groups_by_name()["SE3Mrp"].sample(rng).tolist()})
    return found, {"evaluations": stats["evaluations"], "distinct_nontrivial": len(stats["distinct"]),
                   "groups": [g.name for g in common.groups()]}


def check_star_products(rng, reps, found, stats):
    """direct products built with `*` at run time — including the SAME factor more than once — against an oracle that
    never goes through the product class: block-diagonal of the factors' own matrices, factor-wise product / inverse / identity"""
    import casadi as ca
    import cyecca.lie as lie
    from cyecca.lie.group_so3 import SO3Quat, SO3Mrp
    from cyecca.lie.group_se2 import SE2
    from cyecca.lie.group_so2 import SO2
    from cyecca.lie.group_rn import R2, R3

    def blockdiag(ms):
        n = sum(m.shape[0] for m in ms); out = np.zeros((n, n)); k = 0
        for m in ms:
            out[k:k + m.shape[0], k:k + m.shape[0]] = m; k += m.shape[0]
        return out
    samp = {"R2": lambda: rng.standard_normal(2) * 2, "R3": lambda: rng.standard_normal(3) * 2, "SO2": lambda: rng.uniform(-3, 3, 1),
            "SE2": lambda: np.concatenate([rng.standard_normal(2), rng.uniform(-3, 3, 1)]), "SO3Quat": lambda: common.s_quat(rng),
            "SO3Mrp": lambda: common.s_mrp(rng)}
    grp = {"R2": R2, "R3": R3, "SO2": SO2, "SE2": SE2, "SO3Quat": SO3Quat, "SO3Mrp": SO3Mrp}
    exprs = [["R3", "R3"], ["SE2", "R3", "R3"], ["SO2", "SO2", "R2"], ["SO3Quat", "R3", "SO3Quat"], ["R2", "SO3Mrp", "R2", "SO3Mrp"], ["SE2", "SE2"]]
    for names in exprs:
        G = grp[names[0]]
        for nm in names[1:]:
            G = G * grp[nm]
        tag = "*".join(names)
        dims = [len(samp[nm]()) for nm in names]
        xs, ys = ca.SX.sym("x", sum(dims)), ca.SX.sym("y", sum(dims))
        fM = ca.Function("m", [xs], [ca.densify(G.elem(xs).to_Matrix())])
        fP = ca.Function("p", [xs, ys], [(G.elem(xs) * G.elem(ys)).param])
        fI = ca.Function("i", [xs], [G.elem(xs).inverse().param])
        ident = np.array(ca.DM(G.identity().param), dtype=float).ravel()
        facM, facP, facI, facE = [], [], [], []
        for nm in names:
            g = grp[nm]; d = len(samp[nm]()); a, b = ca.SX.sym("a", d), ca.SX.sym("b", d)
            facM.append(ca.Function("m", [a], [ca.densify(g.elem(a).to_Matrix())]))
            facP.append(ca.Function("p", [a, b], [(g.elem(a) * g.elem(b)).param]))
            facI.append(ca.Function("i", [a], [g.elem(a).inverse().param]))
            facE.append(np.array(ca.DM(g.identity().param), dtype=float).ravel())
        for r in range(reps):
            X = [samp[nm]() for nm in names]; Y = [samp[nm]() for nm in names]
            x, y = np.concatenate(X), np.concatenate(Y)
            stats["evaluations"] += 1; stats["distinct"].add((tag, r))
            inp = {"product": tag, "X": x.tolist(), "Y": y.tolist()}

            def rep(case, what, err):
                if not any(f["case"] == case for f in found):
                    found.append({"case": case, "what": what, "function": tag, "inputs": inp, "error": float(err), "tolerance": 1e-9})
            MX = np.array(fM(x), dtype=float); orM = blockdiag([np.atleast_2d(np.array(f(v), dtype=float)) for f, v in zip(facM, X)])
            if MX.shape != orM.shape or not np.max(np.abs(MX - orM)) <= 1e-9:
                rep("star:%s:toMatrix" % tag, "matrix of a `*` product element is not the block diagonal of its factors' matrices", 1.0 if MX.shape != orM.shape else np.max(np.abs(MX - orM)))
            P = np.array(fP(x, y), dtype=float).ravel(); orP = np.concatenate([np.array(f(a, b), dtype=float).ravel() for f, a, b in zip(facP, X, Y)])
            if P.shape != orP.shape or not np.max(np.abs(P - orP)) <= 1e-9:
                rep("star:%s:product" % tag, "product in a `*` product group is not the factor-wise product", 1.0 if P.shape != orP.shape else np.max(np.abs(P - orP)))
            I = np.array(fI(x), dtype=float).ravel(); orI = np.concatenate([np.array(f(a), dtype=float).ravel() for f, a in zip(facI, X)])
            if I.shape != orI.shape or not np.max(np.abs(I - orI)) <= 1e-9:
                rep("star:%s:inverse" % tag, "inverse in a `*` product group is not the factor-wise inverse", 1.0 if I.shape != orI.shape else np.max(np.abs(I - orI)))
            orE = np.concatenate(facE)
            if ident.shape != orE.shape or not np.max(np.abs(ident - orE)) <= 1e-12:
                rep("star:%s:identity" % tag, "identity of a `*` product group is not the concatenation of the factors' identities", 1.0)
            PL = np.array(fP(ident, x), dtype=float).ravel(); PR = np.array(fP(x, ident), dtype=float).ravel()
            if not (np.max(np.abs(PL - x)) <= 1e-9 and np.max(np.abs(PR - x)) <= 1e-9):
                rep("star:%s:neutral" % tag, "identity is not neutral in a `*` product group", max(np.max(np.abs(PL - x)), np.max(np.abs(PR - x))))


def replay(payload):
    ok = True
    for v in payload.get("violations", []):
        if v.get("kind") == "call-raises":
            try:
                nl.F(common.module_of(v["function"]), v["function"])
                print("call", v["function"], "no longer raises")
            except Exception as e:
                print("call", v["function"], "raises", type(e).__name__, e)
                ok = False
            continue
        g = common.groups_by_name().get(v.get("function"))
        if g is None:
            continue
        found = []
        rng = np.random.default_rng(0)
        stats = {"evaluations": 0, "distinct": set()}
        # replay: re-run the group's checks with the recorded inputs first
        ins = v.get("inputs", {})
        if "X" in ins:
            seq = [np.array(ins.get("X")), np.array(ins.get("Y", ins["X"])), np.array(ins.get("Z", ins["X"]))]
            it = iter(seq * 50)
            g2 = common.Group(g.name, g.mod, g.mdim, lambda r: next(it), g.pair_ok)
            check_group(g2, rng, 1, found, stats)
        else:
            check_group(g, rng, 1, found, stats)
        if any(f["case"] == v["case"] for f in found):
            print("reproduced:", v["case"])
            ok = False
    return ok
