"""C11 — each attitude-estimator step keeps the state valid and the covariance consistent."""
from __future__ import annotations

import numpy as np

ID = "C11"
MODULES = ["Est"]
LEAN_TARGETS = ["Props.C11"]
ANCHORS = ["cyecca/estimate/attitude/algorithms/mrp.py", "cyecca/estimate/attitude/algorithms/common.py", "cyecca/util.py",
           "cyecca/lie/group_so3.py"]
MISSING = [
    "initialisation exactness (returned attitude = the attitude that produced the measurements, every attitude and declination) as a theorem: "
    "numeric search only (the TRIAD frame goes through normalisations, a Series exp and the Shepperd conversion)",
    "prediction is the RK4 step of the MRP kinematics and fourth-order accurate as a theorem: the structural identity needs `ring` on "
    "polynomials of degree > 40; the search measures the local error against the exact rotation and its h^5 scaling",
    "P+ <= P is proved under the contract of the QR factorisation (Q^T Q = 1, Q R = A) on the QR-abstracted variant of the real programs; "
    "ca.qr meeting that contract, and the variant composed with ca.qr being the shipped function, are checked numerically each run",
    "finiteness (no NaN/inf) of accepted corrections and of the predicted covariance factor: floating-point behaviour, numeric search only",
    "bit-for-bit: the theorems are over the reals; on floats CasADi's if_else(c,a,b) = ifz(c,a) + ifz(!c,b) returns +0.0 for a -0.0 entry "
    "(recorded known finding reject:negative-zero)",
]


def relevant(fn):
    return fn.startswith("mrp.") or fn.startswith("sim.")


def _rot_exp(w):
    th = np.linalg.norm(w)
    K = np.array([[0, -w[2], w[1]], [w[2], 0, -w[0]], [-w[1], w[0], 0]])
    if th < 1e-9:
        return np.eye(3) + K + K @ K / 2
    return np.eye(3) + np.sin(th) / th * K + (1 - np.cos(th)) / th ** 2 * K @ K


def search(ctx):
    import casadi as ca
    import cyecca.estimate.attitude.algorithms as alg
    import cyecca.estimate.attitude.algorithms.mrp as mrpmod
    from cyecca.lie.group_so3 import SO3Mrp
    rng = np.random.default_rng(ctx.seed + 1111)
    E = alg.eqs(); m = E["mrp"]; s = E["sim"]
    rs = ca.SX.sym("r", 3); fR = ca.Function("R", [rs], [SO3Mrp.elem(rs).to_Matrix()])
    R_of = lambda r: np.array(fR(r))
    found = []; ev = 0
    stats = {"init_accept": 0, "init_reject": 0, "predict": 0, "predict_shadow": 0, "accel_accept": 0, "accel_reject": 0,
             "mag_accept": 0, "mag_reject": {}, "qr_contract": 0, "qr_variant": 0}
    big = ctx.tier != "quick"

    def report(case, what, inputs, err, tol):
        if not any(z["case"] == case for z in found):
            found.append({"case": case, "what": what, "inputs": inputs, "error": float(err), "tolerance": tol, "obligation": "search:" + case})

    def rand_r(k=None):
        r = rng.standard_normal(3); r *= rng.uniform(0, 1) ** 0.3 / np.linalg.norm(r)
        if k == 1: r /= np.linalg.norm(r)
        if k == 2: r *= 1e-9
        return r

    def rand_W(small=True):
        W = np.tril(rng.standard_normal((6, 6))) * 0.01
        W[np.diag_indices(6)] = np.concatenate([rng.uniform(0.003, 0.065 if small else 0.3, 3), rng.uniform(1e-3, 0.06, 3)])
        return W

    # ---- initialisation
    for i in range(4000 if big else 600):
        k = i % 10
        r = rand_r(k); decl = rng.uniform(-np.pi, np.pi); incl = rng.uniform(-1.39, 1.39)
        x = np.concatenate([r, [0, 0, 0]])
        ga = np.array(s["measure_accel"](x, 9.8 * rng.uniform(0.92, 1.08), 0, np.zeros(3))).ravel()
        Bm = np.array(s["measure_mag"](x, rng.uniform(0.1, 2), decl, incl, 0, np.zeros(3))).ravel()
        if k == 3: ga = ga * rng.choice([0, 0.5, 2])
        if k == 4: Bm = Bm * 0
        if k == 5: Bm = ga * rng.choice([-1, 1]) * 0.1
        if k == 6: ga = rng.standard_normal(3) * 10; Bm = rng.standard_normal(3)
        x0, code = m["initialize"](ga, Bm, decl); x0 = np.array(x0).ravel(); code = float(code); ev += 1
        inp = {"g_b": ga.tolist(), "B_b": Bm.tolist(), "decl": decl, "true_r": r.tolist()}
        if not (np.all(np.isfinite(x0)) and np.isfinite(code)):
            report("init:nan", "initialize returned a non-finite value", inp, np.nan, 0); continue
        if code not in (0.0, 1.0, 2.0, 3.0):
            report("init:code", "undocumented error code", inp, code, 0)
        if code != 0:
            stats["init_reject"] += 1
            if np.any(x0 != 0):
                report("init:reject-state", "failed initialisation returned a non-zero state", inp, np.max(np.abs(x0)), 0)
        elif k not in (3, 6):
            stats["init_accept"] += 1
            e = np.max(np.abs(R_of(x0[:3]) - R_of(r)))
            if not (e <= 1e-8 and np.linalg.norm(x0[:3]) <= 1 + 1e-12 and np.all(x0[3:] == 0)):
                report("init:exact", "accepted initialisation is not the attitude that produced the measurements", inp, e, 1e-8)
    # consistent measurements must be accepted (otherwise 'or a non-zero error code' would make the statement empty)
    if stats["init_accept"] < 0.5 * stats["init_reject"]:
        report("init:never-accepts", "consistent gravity/field measurements are rejected", {}, stats["init_accept"], 0)

    # ---- prediction
    worst = 0.0
    for i in range(3000 if big else 500):
        r = rand_r(); 
        if i % 5 == 0: r = r / np.linalg.norm(r) * (1 - 1e-9 * rng.uniform())
        b = rng.uniform(-0.1, 0.1, 3); x = np.concatenate([r, b]); W = rand_W(False)
        om = rng.standard_normal(3) * rng.uniform(0, 30); dt = rng.uniform(1e-3, 20e-3)
        x1, W1 = m["predict"](0.0, x, W, om, 1e-3, 1e-5, dt); x1 = np.array(x1).ravel(); W1 = np.array(W1); ev += 1
        inp = {"x": x.tolist(), "W": W.tolist(), "omega": om.tolist(), "dt": dt}
        stats["predict"] += 1
        if not (np.all(np.isfinite(x1)) and np.all(np.isfinite(W1))):
            report("predict:nan", "predict returned a non-finite value", inp, np.nan, 0); continue
        n = np.linalg.norm(x1[:3])
        if not n <= 1 + 1e-12:
            report("predict:norm", "predicted MRP has norm > 1", inp, n, 1 + 1e-12)
        if np.max(np.abs(np.triu(W1, 1))) != 0:
            report("predict:triangular", "predicted covariance factor is not lower triangular", inp, np.max(np.abs(np.triu(W1, 1))), 0)
        if np.any(x1[3:] != b):
            report("predict:bias", "prediction changed the gyro bias", inp, np.max(np.abs(x1[3:] - b)), 0)
        z = np.linalg.norm(om - b) * dt
        err = np.linalg.norm(R_of(x1[:3]) - R_of(r) @ _rot_exp((om - b) * dt))
        worst = max(worst, err / max(z ** 5, 1e-300) if err > 1e-13 else 0)
        if not err <= 0.02 * z ** 5 + 2e-13:
            report("predict:order", "prediction is not the gyro-integrated attitude to fourth order: |R1 - R exp((w-b)dt)| > 0.02 (|w-b| dt)^5", inp, err, 0.02 * z ** 5 + 2e-13)
        if np.dot(r, r) > 0.98:
            stats["predict_shadow"] += 1
    stats["predict_worst_err_over_z5"] = worst

    # ---- corrections
    acc = lambda x, g=9.8: np.array(s["measure_accel"](x, g, 0, np.zeros(3))).ravel()
    mag = lambda x, decl, incl: np.array(s["measure_mag"](x, 1.0, decl, incl, 0, np.zeros(3))).ravel()
    nz = 0
    for i in range(4000 if big else 700):
        r = rand_r(); b = rng.uniform(-0.1, 0.1, 3); x = np.concatenate([r, b]); W = rand_W(i % 3 != 0)
        if i % 11 == 0:   # body z axis nearly along the horizontal field: "too close to vertical" gate
            from scipy.spatial.transform import Rotation as Rsc
            q = Rsc.from_rotvec(np.array([0, np.pi / 2, 0]) + rng.standard_normal(3) * 0.002).as_quat()  # x,y,z,w
            if q[3] < 0: q = -q
            r = q[:3] / (1 + q[3]); x = np.concatenate([r, b])
        rt = r + rng.standard_normal(3) * 0.03
        y = acc(np.concatenate([rt, b])) * rng.choice([1, 1, 1, 0.5, 1.3, 0, 1.09, 0.91])
        om = rng.standard_normal(3) * rng.uniform(0, 10)
        for which in ("accel", "mag"):
            if which == "accel":
                out = m["correct_accel"](x, W, y, 9.8, om, 35e-3, rng.choice([0, 1e-3]), 9.2)
                inp = {"fn": "correct_accel", "x": x.tolist(), "W": W.tolist(), "y_b": y.tolist(), "omega": om.tolist()}
            else:
                decl = rng.uniform(-0.5, 0.5); incl = rng.uniform(-1.5, 1.5)
                ym = mag(np.concatenate([rt, b]), decl, incl) * rng.choice([1, 1, 0.3, 0])
                out = m["correct_mag"](x, W, ym, decl, rng.choice([2.5e-3, 0.05, 3.0]), 6.6)
                inp = {"fn": "correct_mag", "x": x.tolist(), "W": W.tolist(), "y_b": ym.tolist(), "decl": decl}
            xa = np.array(out[0]).ravel(); Wa = np.array(out[1]); code = float(out[5]); ev += 1
            if not np.isfinite(code) or code not in ((0.0, 1.0) if which == "accel" else (0.0, 1.0, 2.0)):
                report(which + ":code", "undocumented error code", inp, code, 0); continue
            if code != 0:
                if which == "accel": stats["accel_reject"] += 1
                else: stats["mag_reject"][str(int(code))] = stats["mag_reject"].get(str(int(code)), 0) + 1
                if not (np.array_equal(xa, x) and np.array_equal(Wa, np.tril(W))):
                    report(which + ":reject-changed", "rejected correction changed the state or the covariance factor", inp,
                           max(np.max(np.abs(xa - x)), np.max(np.abs(Wa - np.tril(W)))), 0)
            else:
                stats[which + "_accept"] += 1
                if not (np.all(np.isfinite(xa)) and np.all(np.isfinite(Wa)) and all(np.all(np.isfinite(np.array(o))) for o in out[2:5])):
                    report(which + ":accept-nan", "accepted correction returned a non-finite value", inp, np.nan, 0); continue
                P = np.tril(W) @ np.tril(W).T; Pp = Wa @ Wa.T
                evs = np.linalg.eigvalsh(P - Pp)
                if not evs.min() >= -1e-10 * np.max(np.abs(P)):
                    report(which + ":monotone", "accepted correction increased the covariance (P - P+ not PSD)", inp, -evs.min(), 1e-10)
                if np.max(np.abs(np.triu(Wa, 1))) != 0:
                    report(which + ":triangular", "accepted covariance factor is not lower triangular", inp, np.max(np.abs(np.triu(Wa, 1))), 0)
                # (a corrected MRP may have norm slightly above 1: the property asks norm <= 1 of the prediction only,
                #  which re-applies the shadow switch on the next step)
    # exactly consistent measurements (zero innovation: the direction v/|v| of the correction is 0/0 and must not be selected)
    for z in (0.0, 0.1, -0.3, 0.5, float(np.tan(np.pi / 8)), 1.0, -1.0):
        for scale in (1.0, 0.95, 1.05):
            x = np.array([0.0, 0.0, z, 0.01, -0.02, 0.005]); W = rand_W()
            y = np.array([0.0, 0.0, -9.8 * scale])
            out = m["correct_accel"](x, W, y, 9.8, np.array([0.1, -0.2, 0.05]), 35e-3, 0, 9.2); ev += 1
            xa = np.array(out[0]).ravel()
            inp = {"fn": "correct_accel", "x": x.tolist(), "W": W.tolist(), "y_b": y.tolist()}
            if float(out[5]) == 0:
                stats["accel_accept"] += 1
                if not all(np.all(np.isfinite(np.array(o))) for o in out[:5]):
                    report("accel:accept-nan", "accepted correction returned a non-finite value (zero innovation)", inp, np.nan, 0)
                elif not np.max(np.abs(xa[:3] - x[:3])) <= 1e-12:
                    report("accel:zero-innovation", "a measurement exactly consistent with the estimate moved the attitude", inp, np.max(np.abs(xa[:3] - x[:3])), 1e-12)
            ym = np.array(s["measure_mag"](x, 1.0, 0.0, 0.3, 0, np.zeros(3))).ravel()
            out = m["correct_mag"](x, W, ym, 0.0, 2.5e-3, 6.6); ev += 1
            inp = {"fn": "correct_mag", "x": x.tolist(), "W": W.tolist(), "y_b": ym.tolist(), "decl": 0.0}
            if float(out[5]) == 0:
                stats["mag_accept"] += 1
                if not all(np.all(np.isfinite(np.array(o))) for o in out[:5]):
                    report("mag:accept-nan", "accepted correction returned a non-finite value (zero innovation)", inp, np.nan, 0)
    # bit-for-bit on rejection with a negative zero in the state (known finding)
    x = np.array([0.1, -0.0, 0.2, 0.0, -0.0, 0.01]); W = rand_W()
    out = m["correct_accel"](x, W, np.zeros(3), 9.8, np.zeros(3), 35e-3, 0, 9.2); ev += 1
    xa = np.array(out[0]).ravel()
    if float(out[5]) != 0 and xa.tobytes() != x.tobytes():
        found.append({"case": "reject:negative-zero", "what": "a rejected correction returns +0.0 for a -0.0 state entry (not bit-for-bit)",
                      "inputs": {"x": [repr(float(v)) for v in x]}, "error": 0.0, "tolerance": 0, "obligation": "search:reject:negative-zero"})

    # ---- the QR contract and the QR-abstracted variants (ties the hypotheses of C11.correct_*_accept_cov to the code)
    import catalog
    specs = {sp.name: sp for sp in catalog.est_specs() if sp.name.endswith("_qr")}
    import core
    for nm, real, k in (("mrp.correct_mag_qr", m["correct_mag"], 7), ("mrp.correct_accel_qr", m["correct_accel"], 8)):
        g = core.numeric_function(specs[nm])
        A_s = ca.SX.sym("A", k, k); Qs, Rs_ = ca.qr(A_s); fqr = ca.Function("qr", [A_s], [Qs, Rs_])
        for i in range(40 if big else 8):
            r = rand_r(); b = rng.uniform(-0.1, 0.1, 3); x = np.concatenate([r, b]); W = rand_W()
            if nm.endswith("mag_qr"):
                args = [x, W, mag(np.concatenate([r + 0.01, b]), 0.1, 0.3), 0.1, 2.5e-3, 6.6]
            else:
                args = [x, W, acc(np.concatenate([r + 0.01, b])), 9.8, rng.standard_normal(3), 35e-3, 0, 9.2]
            # 1st pass with dummy Q,R to read qr_arg; it does not depend on them
            o = g(*args, np.eye(k), np.eye(k)); A = np.array(o[-1])
            Q, R = (np.array(v) for v in fqr(A)); ev += 2
            e1 = max(np.max(np.abs(Q.T @ Q - np.eye(k))), np.max(np.abs(Q @ R - A)), np.max(np.abs(np.tril(R, -1))))
            stats["qr_contract"] += 1
            if not e1 <= 1e-9 * (1 + np.max(np.abs(A))):
                report("qr:contract", "ca.qr does not return Q^T Q = 1, Q R = A, R upper triangular", {"A": A.tolist()}, e1, 1e-9)
            o2 = g(*args, Q, R); ref = real(*args)
            e2 = max(np.max(np.abs(np.array(o2[j]) - np.array(ref[j]))) for j in range(len(ref)))
            stats["qr_variant"] += 1
            if not e2 <= 1e-9:
                report("qr:variant", "the QR-abstracted program composed with ca.qr differs from the shipped function", {"fn": nm, "args": [np.array(a).tolist() for a in args]}, e2, 1e-9)
    ctx.samples.extend(found[:3] or [{"x": x.tolist(), "note": "estimator-sized correction"}])
    distinct = stats["init_accept"] + stats["init_reject"] + stats["predict"] + stats["accel_accept"] + stats["accel_reject"] + stats["mag_accept"] + sum(stats["mag_reject"].values())
    stats.update({"evaluations": ev, "distinct_nontrivial": distinct})
    return found, stats


def replay(payload):
    class C:
        seed = 0; tier = "quick"; samples = []; notes = []
    found, _ = search(C())
    cases = {v.get("case") for v in payload.get("violations", [])}
    hit = [z for z in found if z["case"] in cases]
    for z in hit:
        print("reproduced:", z["case"], z["what"], z["error"])
    return not hit
