"""C08 — strap-down INS propagation on SE_2(3) is the exact flow of the IMU kinematics."""
from __future__ import annotations

import math

import numpy as np

import numlib as nl

ID = "C08"
MODULES = ["Series", "Ins"]
LEAN_TARGETS = ["Props.C08", "Props.C08U"]
ANCHORS = ["cyecca/lie/group_se23.py", "cyecca/models/rdd2.py"]
MISSING = [
    "uniqueness IS a theorem now (Lib/FlowUnique: any solution of p' = v, v' = R a - g e3, R' = R [w]x with the given initial values is the closed-form "
    "flow; Props/C08U: the propagator returns that solution at dt) — on the closed-form cell and for w != 0; w = 0 (pure translation) is covered by the "
    "core / dt = 0 theorems and the search",
    "Taylor cells of the coefficients: bound, not equality — numeric search only",
]


def relevant(fn):
    return True


def series_mats(W, n=80):
    """V1 = sum W^k/(k+1)!, V2 = sum W^k/(k+2)!, E = exp W"""
    E = np.zeros((3, 3)); V1 = np.zeros((3, 3)); V2 = np.zeros((3, 3)); T = np.eye(3)
    for k in range(n):
        E += T / math.factorial(k) if k < 170 else 0
        V1 += T / math.factorial(k + 1)
        V2 += T / math.factorial(k + 2)
        T = T @ W
    return E, V1, V2


def exact_flow(x0, a, w, g, dt):
    p0, v0, q0 = x0[0:3], x0[3:6], x0[6:10]
    R0 = nl.quat_to_R(q0)
    E, V1, V2 = series_mats(nl.hat(w) * dt)
    e3 = np.array([0, 0, 1.0])
    R1 = R0 @ E
    v1 = v0 - g * e3 * dt + R0 @ (dt * V1) @ a
    p1 = p0 + v0 * dt - g * e3 * dt ** 2 / 2 + R0 @ (dt ** 2 * V2) @ a
    return p1, v1, R1


def search(ctx):
    rng = np.random.default_rng(ctx.seed + 808)
    f = nl.F("Ins", "rdd2.strapdown_ins_propagate")
    found = []
    ev = 0

    def report(case, what, inputs, err, tol):
        if not any(z["case"] == case for z in found):
            found.append({"case": case, "what": what, "inputs": inputs, "error": float(err), "tolerance": tol,
                          "obligation": "search:" + case})
    n = 80 if ctx.tier == "quick" else 3000
    wm = [0.0, 1e-9, 1e-4, 0.0316, 0.0317, 0.3, 2.0, 10.0, 40.0]
    for it in range(n):
        x0 = np.concatenate([rng.standard_normal(3) * 10, rng.standard_normal(3) * 5, nl.unit_quat(rng)])
        a = rng.standard_normal(3) * 10
        w = nl.rand_axis(rng) * wm[it % len(wm)]
        g = float(rng.choice([9.8, 9.80665, 1.62, 0.0]))
        dt = float(rng.choice([0.0, 1e-4, 1e-3, 0.01, 0.02, 0.1, 1.0]))
        if np.linalg.norm(w) * dt > 6.0:
            dt = 0.1
        x1 = np.atleast_1d(f(x0, a, w, g, dt)); ev += 1
        inp = {"x0": x0.tolist(), "a_b": a.tolist(), "omega_b": w.tolist(), "g": g, "dt": dt}
        if not np.all(np.isfinite(x1)):
            report("finite", "propagation returns a non-finite value", inp, 1.0, 0); continue
        p1, v1, R1 = exact_flow(x0, a, w, g, dt)
        sc = 1 + np.max(np.abs(x0[:6])) + 10 * dt
        e = max(np.max(np.abs(x1[0:3] - p1)), np.max(np.abs(x1[3:6] - v1)), np.max(np.abs(nl.quat_to_R(x1[6:10]) - R1)))
        if not e <= 1e-9 * sc:
            report("exact_flow", "output is not the exact solution of p'=v, v'=Ra-g e3, R'=R[w]x at time dt", inp, e, 1e-9 * sc)
        if not abs(np.linalg.norm(x1[6:10]) - 1) <= 1e-12:
            report("unit_norm", "attitude quaternion leaves the unit sphere", inp, abs(np.linalg.norm(x1[6:10]) - 1), 1e-12)
        if dt == 0.0 and not np.max(np.abs(x1 - x0)) <= 1e-12 * sc:
            report("dt_zero", "dt = 0 is not the identity", inp, np.max(np.abs(x1 - x0)), 1e-12)
        # semigroup: dt1 then dt2 equals dt1 + dt2
        d1, d2 = dt * 0.37, dt * 0.63
        xa = np.atleast_1d(f(np.atleast_1d(f(x0, a, w, g, d1)), a, w, g, d2)); ev += 2
        ea = max(np.max(np.abs(xa[0:6] - x1[0:6])), np.max(np.abs(nl.quat_to_R(xa[6:10]) - nl.quat_to_R(x1[6:10]))))
        if not ea <= 1e-9 * sc:
            report("semigroup", "propagating dt1 then dt2 differs from propagating dt1 + dt2", inp, ea, 1e-9 * sc)
    ctx.samples.extend(found[:3] or [{"omega_b": [0.0, 0.0, 0.0], "dt": 0.01, "note": "zero-rate case"}])
    return found, {"evaluations": ev, "distinct_nontrivial": n}


def replay(payload):
    class C:
        seed = 0; tier = "quick"; samples = []; notes = []
    found, _ = search(C())
    cases = {v.get("case") for v in payload.get("violations", [])}
    hit = [z for z in found if z["case"] in cases]
    for z in hit:
        print("reproduced:", z["case"], z["what"], z["error"], z["inputs"])
    return not hit
