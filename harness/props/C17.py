"""C17 — the shipped control cascade stabilises the shipped quadrotor model (PARTIAL: interface theorems + closed-loop
falsification sweep on the real functions)."""
from __future__ import annotations

import multiprocessing as mp
import warnings

import numpy as np

ID = "C17"
MODULES = ["Series", "SO2", "SE2", "Rn", "SO3", "Quad", "Alloc", "Ctrl", "Ref", "RefP"]
LEAN_TARGETS = ["Props.C17"]
ANCHORS = ["cyecca/models/quadrotor.py", "cyecca/models/rdd2.py", "cyecca/models/rdd2_loglinear.py", "scripts/rdd2_sim.py"]
MISSING = [
    "closed-loop convergence itself (position error below a few centimetres from every initial condition of the envelope) is a stability result for a "
    "saturated, sampled nonlinear cascade: no theorem; the check closes the loop on the REAL casadi functions (plant f stepped with RK4 at 100 Hz x 4 "
    "sub-steps, both cascades, the gains of scripts/rdd2_sim.py) over sampled initial conditions against thresholds looser than the property",
    "proved instead: the commanded hover is an exact fixed point of the position-controller cascade stage by stage (position controller at zero "
    "error demands the trim straight up with the pure-yaw set-point; zero attitude / rate error command zero rate / zero moment; the allocator splits a "
    "pure thrust equally; with W = m g the plant at those rotor speeds has zero state derivative) — the same for the log-linear cascade's outer loop and attitude laws; the plant's rotor geometry realises the allocator's geometry map axis by axis with positive gains (sqrt(2)/2, sqrt(2)/2, 1), and, "
    "composed with C13, the body moment equals the range-limited demanded moment scaled by those gains when the motors run at the commanded speeds; "
    "C13 (allocation), C14 (set-point frames), C15 (controller laws), C16 (plant invariants) cover the other interfaces",
    "scripts/rdd2_sim.py itself needs ROS and is not run: its wiring (which function feeds which, the gains) is replicated in the harness",
]


def relevant(fn):
    return fn.startswith("quadrotor.") or fn in ("rdd2.control_allocation", "rdd2.attitude_rate_control", "rdd2.attitude_control",
                                                 "rdd2.position_control", "loglinear.so3_attitude_control", "loglinear.se23_error",
                                                 "loglinear.se23_position_control")


_G = {}


def _setup():
    if _G:
        return _G
    warnings.filterwarnings("ignore")
    import cyecca.models.quadrotor as quadrotor
    import cyecca.models.rdd2 as rdd2
    import cyecca.models.rdd2_loglinear as ll
    model = quadrotor.derive_model()
    eqs = {}
    for d in (rdd2.derive_attitude_rate_control, rdd2.derive_attitude_control, rdd2.derive_position_control, rdd2.derive_control_allocation, rdd2.derive_common):
        eqs.update(d())
    for d in (ll.derive_se23_error, ll.derive_so3_attitude_control, ll.derive_outerloop_control):
        eqs.update(d())
    _G.update({"model": model, "eqs": eqs, "p": np.array(list(model["p_defaults"].values()), dtype=float)})
    return _G


def closed_loop(job):
    """one closed-loop run; wiring and gains as in scripts/rdd2_sim.py (velocity mode, zero stick: hold pw_sp)"""
    x0, mode, T = job[:3]
    sp, psi = (job[3], job[4]) if len(job) > 3 else ([0.0, 0.0, 3.0], 0.0)
    G = _setup(); model, eqs, p = G["model"], G["eqs"], G["p"]
    xi, pi_ = model["x_index"], model["p_index"]
    f = model["f"]
    dt = 0.01

    def rk4(x, u, n=4):
        h = dt / n
        for _ in range(n):
            k1 = np.array(f(x, u, p)).ravel(); k2 = np.array(f(x + h / 2 * k1, u, p)).ravel()
            k3 = np.array(f(x + h / 2 * k2, u, p)).ravel(); k4 = np.array(f(x + h * k3, u, p)).ravel()
            x = x + h / 6 * (k1 + 2 * k2 + 2 * k3 + k4)
        return x
    x = np.array(list(model["x0_defaults"].values()), dtype=float)
    for k, v in x0.items():
        x[xi[k]] = v
    m = p[pi_["m"]]; g = p[pi_["g"]]; l = p[pi_["l_motor_0"]]; CM = p[pi_["CM"]]; CT = p[pi_["CT"]]
    thrust_trim = m * g; F_max = 20
    k_p_att = np.array([5, 5, 2.0]); kp = np.array([0.3, 0.3, 0.05]); ki = np.zeros(3); kd = np.array([0.1, 0.1, 0]); f_cut = 10.0; i_max = np.zeros(3)
    i0 = np.zeros(3); e0 = np.zeros(3); de0 = np.zeros(3); z_i = 0.0
    pw_sp = np.array(sp, dtype=float); vw_sp = np.zeros(3); aw_sp = np.zeros(3); qc_sp = np.array([np.cos(psi / 2), 0, 0, np.sin(psi / 2)])
    u = np.zeros(4); log = []
    wmax = np.sqrt(F_max / CT)
    try:
        for step in range(int(T / dt)):
            x = rk4(x, u)
            if not np.all(np.isfinite(x)):
                return {"nan": True, "t": step * dt}
            q = x[[xi["quaternion_wb_%d" % i] for i in range(4)]]; om = x[[xi["omega_wb_b_%d" % i] for i in range(3)]]
            pw = x[[xi["position_op_w_%d" % i] for i in range(3)]]; vb = x[[xi["velocity_w_p_b_%d" % i] for i in range(3)]]
            vw = np.array(eqs["rotate_vector_b_to_w"](q, vb)).ravel()
            if mode == "mellinger":
                thrust, q_sp, z_i = eqs["position_control"](thrust_trim, pw_sp, vw_sp, aw_sp, qc_sp, pw, vw, z_i, dt)
                omega_sp = eqs["attitude_control"](k_p_att, q, q_sp)
            else:
                zeta = eqs["se23_error"](pw, vw, q, pw_sp, vw_sp, qc_sp)
                thrust, q_sp, z_i = eqs["se23_position_control"](thrust_trim, k_p_att, zeta, aw_sp, qc_sp, z_i, dt)
                omega_sp = eqs["so3_attitude_control"](k_p_att, q, q_sp)
            z_i = float(z_i)
            M, i1, e1, de1, alpha = eqs["attitude_rate_control"](kp, ki, kd, f_cut, i_max, om, omega_sp, i0, e0, de0, dt)
            i0 = np.array(i1).ravel(); e0 = np.array(e1).ravel(); de0 = np.array(de1).ravel()
            uu, Fp, Fm, Ft, Msat = eqs["f_alloc"](F_max, l, CM, CT, thrust, M)
            u = np.array(uu).ravel()
            if not np.all(np.isfinite(u)):
                return {"nan": True, "t": step * dt}
            log.append((np.linalg.norm(pw - pw_sp), float(np.arccos(np.clip(1 - 2 * (q[1] ** 2 + q[2] ** 2) / np.dot(q, q), -1, 1))), np.linalg.norm(om), u.min(), u.max(), pw[2]))
    except Exception as e:   # noqa: BLE001
        return {"exception": repr(e)[:200]}
    L = np.array(log); k = int(0.9 * len(L))
    return {"nan": False, "late_pos_err": float(L[k:, 0].max()), "late_tilt": float(L[k:, 1].max()), "late_rate": float(L[k:, 2].max()),
            "umin": float(L[:, 3].min()), "umax": float(L[:, 4].max()), "wmax": float(wmax), "min_alt": float(L[:, 5].min()), "max_pos_err": float(L[:, 0].max())}


def search(ctx):
    G = _setup(); model = G["model"]
    rng = np.random.default_rng(ctx.seed + 1717)
    big = ctx.tier != "quick"
    found = []
    st = {}

    def report(case, what, inputs, err=0.0, tol=0.0, obligation=None):
        if not any(z["case"] == case for z in found):
            found.append({"case": case, "what": what, "inputs": inputs, "error": float(err), "tolerance": tol, "obligation": obligation or ("search:" + case)})
    # ---- the indices and the geometry the theorems assume are the shipped ones
    pi_, xi, pd = model["p_index"], model["x_index"], model["p_defaults"]
    want_p = {"dir_motor_0": 2, "dir_motor_1": 3, "dir_motor_2": 4, "dir_motor_3": 5, "l_motor_0": 6, "l_motor_1": 7, "l_motor_2": 8, "l_motor_3": 9,
              "theta_motor_0": 10, "theta_motor_1": 11, "theta_motor_2": 12, "theta_motor_3": 13, "CT": 14, "CM": 15, "Cl_p": 16, "Cm_q": 17, "Cn_r": 18}
    want_x = {"omega_motor_0": 13, "omega_motor_1": 14, "omega_motor_2": 15, "omega_motor_3": 16}
    if any(pi_.get(k) != v for k, v in want_p.items()) or any(xi.get(k) != v for k, v in want_x.items()):
        ctx.fail("tie:C17.indices", "correspondence", {"p_index": {k: pi_.get(k) for k in want_p}, "x_index": {k: xi.get(k) for k in want_x}})
    r = np.sqrt(0.5)
    th = [pd["theta_motor_%d" % i] for i in range(4)]
    hyp = (np.allclose([np.cos(th[0]), np.sin(th[0]), np.cos(th[1]), np.sin(th[1]), np.cos(th[2]), np.sin(th[2]), np.cos(th[3]), np.sin(th[3])],
                       [r, -r, -r, r, r, r, -r, -r], atol=1e-12)
           and [pd["dir_motor_%d" % i] for i in range(4)] == [1, 1, -1, -1] and len({pd["l_motor_%d" % i] for i in range(4)}) == 1
           and pd["Cl_p"] == 0 and pd["Cm_q"] == 0 and pd["Cn_r"] == 0 and pd["CT"] > 0 and pd["CM"] != 0)
    st["geometry_hypotheses_hold_for_defaults"] = bool(hyp)
    if not hyp:
        ctx.fail("tie:C17.geometry", "correspondence", {"theta": th, "note": "the shipped rotor geometry no longer satisfies the hypotheses of C17.plant_moment"})
    # ---- closed loop on the real functions
    jobs = []
    n = 96 if big else 16
    T = 30.0 if big else 25.0      # the log-linear outer loop is the slower one: ~0.1 m left after 15 s from 3 m away
    CT = pd["CT"]; w_hover = float(np.sqrt(pd["m"] * pd["g"] / 4 / CT))
    for i in range(n):
        # commanded hover position anywhere (not only near the world origin) and any commanded heading; the vehicle starts within
        # metres of it, tilted by up to 60 degrees about a horizontal axis, at a yaw within 60 degrees of the commanded heading
        sp = [float(rng.uniform(-40, 40)), float(rng.uniform(-40, 40)), float(rng.uniform(3, 30))] if i % 3 else [0.0, 0.0, 3.0]
        psi = float(rng.uniform(-np.pi, np.pi)) if i % 4 else 0.0
        a_h = rng.uniform(0, 2 * np.pi); ang = rng.uniform(0, np.deg2rad(60)); yaw0 = psi + rng.uniform(-1.0, 1.0)
        qt = np.array([np.cos(ang / 2), np.sin(ang / 2) * np.cos(a_h), np.sin(ang / 2) * np.sin(a_h), 0.0])
        qy = np.array([np.cos(yaw0 / 2), 0, 0, np.sin(yaw0 / 2)])
        q = np.array([qy[0] * qt[0] - qy[3] * qt[3], qy[0] * qt[1] - qy[3] * qt[2], qy[0] * qt[2] + qy[3] * qt[1], qy[0] * qt[3] + qy[3] * qt[0]])
        x0 = {"position_op_w_0": sp[0] + float(rng.uniform(-3, 3)), "position_op_w_1": sp[1] + float(rng.uniform(-3, 3)), "position_op_w_2": sp[2] + float(rng.uniform(-1, 3))}
        for k in range(4): x0["quaternion_wb_%d" % k] = float(q[k])
        for k in range(3):
            x0["velocity_w_p_b_%d" % k] = float(rng.uniform(-1, 1)); x0["omega_wb_b_%d" % k] = float(rng.uniform(-1, 1))
        for k in range(4): x0["omega_motor_%d" % k] = w_hover * float(rng.choice([0, 1]))
        jobs.append((x0, ["mellinger", "loglinear"][i % 2], T, sp, psi))
    # take-off: resting on the ground (the spring of the ground model carries the weight), motors stopped, level, yawed by 3 rad
    # towards the commanded heading, sliding slowly — the ground-contact branch of the plant is part of every start of the simulator
    for mode in ("mellinger", "loglinear"):
        psi = 3.0
        x0 = {"position_op_w_0": 0.4, "position_op_w_1": -0.3, "position_op_w_2": -pd["m"] * pd["g"] / 1000.0}
        for k, v in enumerate([np.cos(psi / 2), 0.0, 0.0, np.sin(psi / 2)]): x0["quaternion_wb_%d" % k] = float(v)
        for k in range(3):
            x0["velocity_w_p_b_%d" % k] = [0.3, 0.0, 0.0][k]; x0["omega_wb_b_%d" % k] = 0.0
        for k in range(4): x0["omega_motor_%d" % k] = 0.0
        jobs.append((x0, mode, T, [0.0, 0.0, 3.0], psi))
    n = len(jobs)
    with mp.get_context("fork").Pool(min(16, n)) as pool:
        res = pool.map(closed_loop, jobs)
    worst = {"late_pos_err": 0.0, "late_tilt": 0.0, "late_rate": 0.0}
    for (x0, mode, _, sp, psi), o in zip(jobs, res):
        inp = {"x0": x0, "mode": mode, "T": T, "set_point": sp, "heading": psi}
        if "exception" in o:
            report("loop:exception", "a cascade function raised in the closed loop: " + o["exception"], inp); continue
        if o["nan"]:
            report("loop:nan:" + mode, "NaN / inf in the closed loop", dict(inp, t=o["t"])); continue
        for k in worst:
            worst[k] = max(worst[k], o[k])
        if not o["late_pos_err"] <= 0.10:
            report("loop:position:" + mode, "position error above 0.10 m in the last 10 % of the run", dict(inp, result=o), o["late_pos_err"], 0.10)
        if not (o["late_tilt"] <= 0.05 and o["late_rate"] <= 0.05):
            report("loop:attitude:" + mode, "attitude / body rates do not settle (tilt > 0.05 rad or rate > 0.05 rad/s late in the run)", dict(inp, result=o), max(o["late_tilt"], o["late_rate"]), 0.05)
        if not (o["umin"] >= -1e-9 and o["umax"] <= o["wmax"] * (1 + 1e-9)):
            report("loop:motors:" + mode, "motor command outside [0, sqrt(F_max/CT)]", dict(inp, result=o), o["umax"], o["wmax"])
    st.update({"closed_loop_runs": n, "T": T, "worst": worst, "modes": {"mellinger": n // 2, "loglinear": n - n // 2}})
    ctx.samples.extend(found[:2] or [{"x0": jobs[0][0], "mode": jobs[0][1], "result": res[0]}])
    st["evaluations"] = n
    st["distinct_nontrivial"] = n
    return found, st


def replay(payload):
    bad = False
    for v in payload.get("violations", []):
        inp = v.get("inputs", {})
        if "x0" in inp:
            o = closed_loop((inp["x0"], inp["mode"], inp.get("T", 25.0), inp.get("set_point", [0, 0, 3.0]), inp.get("heading", 0.0)))
            print("replayed closed loop:", o)
            bad = bad or o.get("nan", False) or o.get("late_pos_err", 1) > 0.10
    return not bad
