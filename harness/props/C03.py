"""C03 — log inverts exp and returns the principal, representation-independent rotation."""
from __future__ import annotations

import numpy as np

import numlib as nl
from props import common
from props.C02 import alg_sample

ID = "C03"
MODULES = ["Series", "SO2", "SE2", "Rn", "SO3", "SE3", "SE23", "Products"]
LEAN_TARGETS = ["Props.C03"]
ANCHORS = ["cyecca/lie/group_so3.py", "cyecca/lie/group_se2.py", "cyecca/lie/group_se3.py", "cyecca/lie/group_se23.py",
           "cyecca/lie/direct_product.py"]
MISSING = [
    "DCM / Euler logs (acos of the trace, x/sin x series) as theorems — numeric search only (quaternion and MRP forms: exp∘log, log∘exp, principal "
    "angle are theorems on the closed-form cells)",
    "SE(3)/SE_2(3) translation part (J^-1 J = 1 from C05) composed into exp(log X) = X — numeric search only",
    "Taylor cells: identities up to the truncation bound — numeric search only",
]

ROT = {"SO3Quat": "Quat", "SO3Mrp": "Mrp", "SO3Dcm": "Dcm", "SO3Euler": "Euler"}


def relevant(fn):
    return fn.split(".")[-1] in ("exp", "log", "toMatrix")


def rot_slice(g):
    if g.algebra in ("so3",):
        return slice(0, 3)
    if g.algebra == "se3":
        return slice(3, 6)
    if g.algebra == "se23":
        return slice(6, 9)
    return None


def search(ctx):
    rng = np.random.default_rng(ctx.seed + 303)
    found = []
    ev = 0

    def report(case, what, inputs, err, tol):
        if not any(z["case"] == case for z in found):
            found.append({"case": case, "what": what, "inputs": inputs, "error": float(err), "tolerance": tol,
                          "obligation": "search:" + case})
    reps = 3 if ctx.tier == "quick" else 40
    mags = [0.0, 1e-9, 1e-4, 0.02, 0.0316, 0.0317, 0.0633, 0.5, 1.5, 2.5, 3.0, 3.1]
    groups = [g for g in common.groups() if g.algebra]
    from props.C02 import prod_dims
    pd = prod_dims()
    for g in common.groups():
        if g.name in pd:
            alg, k, _ = pd[g.name]
            groups.append(common.Group(g.name, g.mod, g.mdim, g.sample, g.pair_ok, algebra=alg, adim=k))
    for g in groups:
        expf = nl.F(g.mod, g.name + ".exp"); logf = nl.F(g.mod, g.name + ".log"); toM = nl.F(g.mod, g.name + ".toMatrix")
        rs = rot_slice(g)
        for mag in mags:
            for r in range(reps):
                x = alg_sample(g, rng, mag)
                if g.algebra in ("r2", "r3"):
                    x = rng.standard_normal(g.adim) * 3
                if g.name == "P_MrpR3":
                    x = rng.standard_normal(6); x[0:3] = nl.rand_axis(rng) * mag
                elif g.name == "P_SO2R2":
                    x = rng.standard_normal(3); x[0] = mag
                elif g.name.startswith("P_SE3Quat"):
                    x = rng.standard_normal(12); x[3:6] = nl.rand_axis(rng) * mag; x[9:12] = nl.rand_axis(rng) * mag
                X = np.atleast_1d(expf(x)); ev += 1
                if g.name == "SO3Euler" and abs(abs(X[1]) - np.pi / 2) < 2e-3:
                    continue
                y = np.atleast_1d(logf(X))
                inp = {"x": x.tolist(), "rotation_magnitude": mag}
                if not np.all(np.isfinite(y)):
                    report(g.name + ".log:finite", "log(exp(x)) is not finite", inp, 1.0, 0); continue
                tol = 1e-8 * (1 + np.max(np.abs(x))) / max(1e-3, (np.pi - mag))   # conditioning near pi
                if not np.max(np.abs(y - x)) <= tol:
                    report(g.name + ".log:log_exp", "log(exp(x)) != x for rotation angle < pi", inp, np.max(np.abs(y - x)), tol)
        # exp(log X) on valid elements incl. negative-scalar quaternions, shadow-set MRPs
        for r in range(reps * 6):
            X = g.sample(rng)
            if g.name.endswith("Quat") and r % 2 == 0:
                X = X.copy(); X[-4:] = -np.abs(X[-4]) * np.sign(X[-4]) * X[-4:] / abs(X[-4]) if X[-4] != 0 else X[-4:]
                if X[-4] > 0:
                    X[-4:] = -X[-4:]
            M = np.atleast_2d(toM(X))
            R = M[:3, :3] if M.shape[0] >= 3 and g.algebra in ("so3", "se3", "se23") else None
            if g.name.startswith("P_"):
                # products: skip elements with a rotation factor near pi (checked per factor below via finiteness)
                y0 = np.atleast_1d(logf(X))
                if not np.all(np.isfinite(y0)) or np.max(np.abs(y0)) > 3.0:
                    continue
            if R is not None:
                ang = np.arccos(np.clip((np.trace(R) - 1) / 2, -1, 1))
                if ang > np.pi - 0.02:
                    continue
            y = np.atleast_1d(logf(X)); ev += 1
            inp = {"X": X.tolist()}
            if not np.all(np.isfinite(y)):
                report(g.name + ".log:finite", "log(X) is not finite", inp, 1.0, 0); continue
            Y = np.atleast_1d(expf(y))
            err = np.max(np.abs(np.atleast_2d(toM(Y)) - M))
            if not err <= 1e-8 * (1 + np.max(np.abs(M))):
                report(g.name + ".log:exp_log", "exp(log(X)) is not the same group element as X", inp, err, 1e-8)
            if rs is not None:
                canonical = not (g.name.endswith("Mrp") and X[-3:].dot(X[-3:]) > 1)
                th = np.linalg.norm(y[rs])
                if canonical and not th <= np.pi + 1e-9:
                    report(g.name + ".log:principal", "rotation part of log(X) has angle > pi (not the principal rotation vector)",
                           dict(inp, angle=float(th)), th - np.pi, 1e-9)
    # Euler elements ON and INSIDE the gimbal band (pitch within 1e-3 rad of +-pi/2): the documented band tolerance applies
    # (roll is folded into yaw there), so the rotation must come back to within a few 1e-3 entrywise — at BOTH poles
    eexp = nl.F("SO3", "SO3Euler.exp"); elog = nl.F("SO3", "SO3Euler.log"); etoM = nl.F("SO3", "SO3Euler.toMatrix")
    qexp = nl.F("SO3", "SO3Quat.exp")
    for sgn in (1.0, -1.0):
        for d in (0.0, 1e-6, 3e-4, 9e-4):
            for r in range(reps):
                X = np.array([rng.uniform(-3, 3), sgn * (np.pi / 2 - d), rng.uniform(-3, 3) if r else 0.0])
                M = np.atleast_2d(etoM(X)); y = np.atleast_1d(elog(X)); ev += 1
                inp = {"X": X.tolist(), "pole": sgn, "inside_band_by": d}
                if not np.all(np.isfinite(y)):
                    report("SO3Euler.log:finite:band", "log(X) is not finite at the gimbal pole", inp, 1.0, 0); continue
                err = np.max(np.abs(np.atleast_2d(etoM(np.atleast_1d(eexp(y)))) - M))
                if not err <= 5e-3:
                    report("SO3Euler.log:exp_log:band", "exp(log(X)) is not X within the band tolerance at the gimbal pole", inp, err, 5e-3)
                # log(exp(x)) for an algebra element whose exponential is at the pole
                x = np.array([0.0, sgn * (np.pi / 2 - d), 0.0]) if r == 0 else np.atleast_1d(nl.F("SO3", "SO3Quat.log")(
                    nl.quat_of_R(M) if hasattr(nl, "quat_of_R") else np.atleast_1d(nl.F("SO3", "SO3Quat.fromMatrix")(M))))
                Rx = nl.quat_to_R(np.atleast_1d(qexp(x)))
                y2 = np.atleast_1d(elog(np.atleast_1d(eexp(x))))
                if np.all(np.isfinite(y2)):
                    err = np.max(np.abs(nl.quat_to_R(np.atleast_1d(qexp(y2))) - Rx))
                    if not err <= 5e-3:
                        report("SO3Euler.log:log_exp:band", "log(exp(x)) is not x within the band tolerance when exp(x) is at the gimbal pole",
                               dict(inp, x=x.tolist()), err, 5e-3)
    # representation independence of the rotation log
    logs = {r: nl.F("SO3", g + ".log") for g, r in ROT.items()}
    for it in range(reps * 15):
        q = nl.unit_quat(rng)
        R = nl.quat_to_R(q)
        ang = np.arccos(np.clip((np.trace(R) - 1) / 2, -1, 1))
        if ang > np.pi - 0.05:
            continue
        e = common.euler_of_R(R)
        if abs(abs(e[1]) - np.pi / 2) < 2e-3:
            continue
        qq = q if q[0] > 0 else -q
        mrp = qq[1:] / (1 + qq[0])
        vals = {"Quat(q)": np.atleast_1d(logs["Quat"](q)), "Quat(-q)": np.atleast_1d(logs["Quat"](-q)),
                "Mrp": np.atleast_1d(logs["Mrp"](mrp)), "Dcm": np.atleast_1d(logs["Dcm"](R.reshape(-1, order="F"))),
                "Euler": np.atleast_1d(logs["Euler"](e))}
        ev += 5
        ref = vals["Dcm"]
        for k, v in vals.items():
            tol = 1e-7 / max(1e-2, np.pi - ang)
            if not np.max(np.abs(v - ref)) <= tol:
                report("rep_indep:" + k, "log depends on the representation / quaternion sign: %s differs from the DCM log" % k,
                       {"q": q.tolist(), k: v.tolist(), "Dcm": ref.tolist()}, np.max(np.abs(v - ref)), tol)
    ctx.samples.extend(found[:3] or [{"q": nl.unit_quat(rng).round(4).tolist()}])
    # every Euler group the class can build (body- and space-fixed, any axis sequence), not only the packaged B321 instance:
    # to_Matrix against the product of elementary rotations, log against the principal rotation vector of that matrix
    try:
        import casadi as ca
        from cyecca.lie.group_so3 import SO3EulerLieGroup, EulerType, Axis
        elem = {"x": lambda a: np.array([[1, 0, 0], [0, np.cos(a), -np.sin(a)], [0, np.sin(a), np.cos(a)]]),
                "y": lambda a: np.array([[np.cos(a), 0, np.sin(a)], [0, 1, 0], [-np.sin(a), 0, np.cos(a)]]),
                "z": lambda a: np.array([[np.cos(a), -np.sin(a), 0], [np.sin(a), np.cos(a), 0], [0, 0, 1]])}
        seqs = ["zyx", "xyz", "zxz", "yxz", "xzx", "zyz"]
        for ty in (EulerType.body_fixed, EulerType.space_fixed):
            for sq in seqs:
                G = SO3EulerLieGroup(euler_type=ty, sequence=[getattr(Axis, c) for c in sq])
                es = ca.SX.sym("e", 3)
                fM = ca.Function("m", [es], [G.elem(es).to_Matrix()])
                try:
                    fL = ca.Function("l", [es], [G.elem(es).log().param])
                except Exception:   # noqa: BLE001  (log not offered for this instance)
                    fL = None
                for r in range(2 if ctx.tier == "quick" else 12):
                    e = rng.uniform(-1.2, 1.2, 3) * np.array([1.0, 0.9, 1.0])
                    if r % 2:
                        e = np.array([0.9, 0.4, -0.7]) * (1 + 0.1 * r)      # first and third angle differ markedly
                    Rs = [elem[c](a) for c, a in zip(sq, e)]
                    Ror = np.eye(3)
                    for Rk in Rs:
                        Ror = Ror @ Rk if ty == EulerType.body_fixed else Rk @ Ror
                    M = np.array(fM(e), dtype=float); ev += 1
                    inp = {"euler_type": ty.name, "sequence": sq, "angles": e.tolist()}
                    if not np.max(np.abs(M - Ror)) <= 1e-9:
                        report("SO3Euler:%s:toMatrix" % ty.name, "to_Matrix of a %s Euler group is not the product of the elementary rotations" % ty.name,
                               inp, np.max(np.abs(M - Ror)), 1e-9)
                    if fL is not None:
                        w = np.array(fL(e), dtype=float).ravel()
                        ang = np.arccos(np.clip((np.trace(Ror) - 1) / 2, -1, 1))
                        wref = ang / (2 * np.sin(ang)) * np.array([Ror[2, 1] - Ror[1, 2], Ror[0, 2] - Ror[2, 0], Ror[1, 0] - Ror[0, 1]]) if ang > 1e-6 else np.zeros(3)
                        if ang < 3.0 and not np.max(np.abs(w - wref)) <= 1e-7:
                            report("SO3Euler:%s:log" % ty.name, "log of a %s Euler triple is not the principal rotation vector of the rotation it represents" % ty.name,
                                   inp, np.max(np.abs(w - wref)), 1e-7)
    except ImportError:
        pass
    return found, {"evaluations": ev, "distinct_nontrivial": ev}


def replay(payload):
    class C:
        seed = 0; tier = "quick"; samples = []; notes = []
    found, _ = search(C())
    cases = {v.get("case") for v in payload.get("violations", [])}
    hit = [z for z in found if z["case"] in cases]
    for z in hit:
        print("reproduced:", z["case"], z["what"], z["error"], z["inputs"])
    return not hit
