"""C02 — the group exponential is the matrix exponential of the algebra element."""
from __future__ import annotations

import numpy as np

import numlib as nl
from props import common

ID = "C02"
MODULES = ["Series", "SO2", "SE2", "Rn", "SO3", "SE3", "SE23", "Products", "SE23P"]
LEAN_TARGETS = ["Props.C02", "Props.C02S", "Props.C02SM", "Props.C02C"]
ANCHORS = ["cyecca/lie/group_so3.py", "cyecca/lie/group_se2.py", "cyecca/lie/group_se3.py", "cyecca/lie/group_se23.py",
           "cyecca/lie/group_so2.py", "cyecca/lie/group_rn.py", "cyecca/lie/direct_product.py", "cyecca/symbolic.py"]
MISSING = [
    "Taylor cells (0 < theta^2 < 1e-3): explicit truncation bound as a theorem (C06) — numeric search only",
    "SO3Euler target (exp goes through Euler from_Matrix) — numeric search only",
    "composition law exp((s+t)x) = exp(sx)exp(tx) and exp(-x)exp(x) = 1 ARE Lean corollaries (Props/C02C) for SO3Dcm, SO3Quat, SO3Mrp, SE2, SE3Quat, SE3Mrp on the closed-form cells; "
    "SE_2(3) / Euler targets of these two clauses — numeric search only",
]


def relevant(fn):
    return fn.split(".")[-1] in ("exp", "toMatrix")


ROT_MAGS = [0.0, 1e-12, 1e-6, 9.9e-4, 1.0e-3, 1.01e-3, 0.0316, 0.0317, 0.0632, 0.0633, 0.3, 1.0, 2.0, 3.0, 3.14159, 3.3, 4.5, 6.0, 6.28]


def alg_sample(g, rng, mag):
    """algebra vector with rotation magnitude `mag` (rotation part last, except se2: index 2, so2: scalar)"""
    k = g.adim
    x = rng.standard_normal(k) * 1.5
    if g.algebra in ("so3", "se3", "se23"):
        d = nl.rand_axis(rng)
        x[k - 3:] = d * mag
    elif g.algebra == "se2":
        x[2] = mag * rng.choice([-1, 1])
    elif g.algebra == "so2":
        x[0] = mag * rng.choice([-1, 1])
    return x


def prod_dims():
    return {"P_MrpR3": ("P_MrpR3_alg", 6, (0, 3)), "P_SO2R2": ("P_SO2R2_alg", 3, (0, 1)),
            "P_SE3QuatR3_Dcm": ("P_SE3QuatR3_Dcm_alg", 12, None), "P_SE3Quat_R3Dcm": ("P_SE3Quat_R3Dcm_alg", 12, None)}


def search(ctx):
    rng = np.random.default_rng(ctx.seed + 202)
    found = []
    ev = 0
    cells = {"zero": 0, "taylor": 0, "closed": 0, "beyond_pi": 0}

    def report(case, what, inputs, err, tol):
        if not any(z["case"] == case for z in found):
            found.append({"case": case, "what": what, "inputs": inputs, "error": float(err), "tolerance": tol,
                          "obligation": "search:" + case})
    reps = 2 if ctx.tier == "quick" else 30
    groups = [g for g in common.groups() if g.algebra]
    pd = prod_dims()
    for g in common.groups():
        if g.name in pd:
            alg, k, _ = pd[g.name]
            groups.append(common.Group(g.name, g.mod, g.mdim, g.sample, g.pair_ok, algebra=alg, adim=k))
    for g in groups:
        expf = nl.F(g.mod, g.name + ".exp")
        toM = nl.F(g.mod, g.name + ".toMatrix")
        hat = nl.F(g.mod, g.algebra + ".toMatrix")
        prod = nl.F(g.mod, g.name + ".product")
        inv = nl.F(g.mod, g.name + ".inverse")
        for mag in ROT_MAGS:
            for r in range(reps):
                if g.algebra in ("so3", "se3", "se23", "se2", "so2"):
                    x = alg_sample(g, rng, mag)
                elif g.name == "P_MrpR3":
                    x = rng.standard_normal(6); x[0:3] = nl.rand_axis(rng) * mag
                elif g.name == "P_SO2R2":
                    x = rng.standard_normal(3); x[0] = mag
                elif g.name.startswith("P_SE3Quat"):
                    x = rng.standard_normal(12); x[3:6] = nl.rand_axis(rng) * mag; x[9:12] = nl.rand_axis(rng) * min(mag, 3.0)
                else:
                    x = rng.standard_normal(g.adim) * (1 + mag)
                if g.name == "SO3Euler" and mag > 0:
                    # keep the result outside the gimbal band: skip directions whose exp lands near a pole
                    R = nl.expm(nl.hat(x))
                    if abs(abs(np.arcsin(np.clip(-R[2, 0], -1, 1))) - np.pi / 2) < 2e-3:
                        continue
                if g.name in ("SO3Mrp", "SE3Mrp", "SE23Mrp", "P_MrpR3") and mag > 6.2:
                    continue   # 360 degree MRP singularity
                X = np.atleast_1d(expf(x)); ev += 1
                cells["zero" if mag == 0 else "taylor" if mag * mag < 1e-3 else "beyond_pi" if mag > np.pi else "closed"] += 1
                M = np.atleast_2d(toM(X))
                ref = nl.expm(np.atleast_2d(hat(x)))
                sc = 1 + np.max(np.abs(ref))
                err = np.max(np.abs(M - ref)) if np.all(np.isfinite(M)) else np.inf
                inp = {"x": x.tolist(), "rotation_magnitude": mag}
                if not err <= 1e-9 * sc:
                    report(g.name + ".exp:matrix", "to_Matrix(exp(x)) != expm(to_Matrix(x))", inp, err, 1e-9 * sc)
                    continue
                # exp(-x) = exp(x)^-1 ; exp((s+t)x) = exp(sx) exp(tx)
                Xm = np.atleast_1d(expf(-x))
                e2 = np.max(np.abs(np.atleast_2d(toM(Xm)) @ M - np.eye(M.shape[0])))
                if not e2 <= 1e-8 * sc * sc:
                    report(g.name + ".exp:neg", "exp(-x) is not the inverse of exp(x)", inp, e2, 1e-8 * sc * sc)
                if mag <= 3.0:
                    s, t = 0.3, 0.45
                    A, B, C = (np.atleast_1d(expf(c * x)) for c in (s, t, s + t))
                    if g.pair_ok is None or g.pair_ok(A, B):
                        e3 = np.max(np.abs(np.atleast_2d(toM(np.atleast_1d(prod(A, B)))) - np.atleast_2d(toM(C))))
                        if not e3 <= 1e-8 * sc:
                            report(g.name + ".exp:additive", "exp((s+t)x) != exp(sx) exp(tx)", inp, e3, 1e-8 * sc)
        # exp(0) = identity
        ident = np.atleast_1d(nl.F(g.mod, g.name + ".identity")())
        X0 = np.atleast_1d(expf(np.zeros(g.adim)))
        if not np.max(np.abs(np.atleast_2d(toM(X0)) - np.eye(np.atleast_2d(toM(X0)).shape[0]))) <= 1e-12:
            report(g.name + ".exp:zero", "exp(0) is not the identity", {"exp0": X0.tolist(), "identity": ident.tolist()}, 1.0, 1e-12)
    # Euler target just OUTSIDE the gimbal band (the documented band is +-1e-3 rad): exact there
    expE = nl.F("SO3", "SO3Euler.exp"); toME = nl.F("SO3", "SO3Euler.toMatrix")
    for it in range(30 if ctx.tier == "quick" else 600):
        e = common.s_euler(rng)
        if it % 2 == 0:
            d = 10 ** rng.uniform(np.log10(1.05e-3), np.log10(3e-2))
            e[1] = rng.choice([-1.0, 1.0]) * (np.pi / 2 - d)
        R = common.euler_R(e)
        ang = np.arccos(np.clip((np.trace(R) - 1) / 2, -1, 1))
        if ang < 1e-3 or ang > np.pi - 1e-2:
            continue
        w = np.array([R[2, 1] - R[1, 2], R[0, 2] - R[2, 0], R[1, 0] - R[0, 1]]) / (2 * np.sin(ang)) * ang
        X = np.atleast_1d(expE(w)); ev += 1
        err = np.max(np.abs(toME(X) - nl.expm(nl.hat(w))))
        if not err <= 1e-8:
            report("SO3Euler.exp:near-band", "to_Matrix(exp(x)) != expm(hat x) for a result just outside the gimbal band",
                   {"x": w.tolist(), "euler_of_result": e.tolist()}, err, 1e-8)
    ctx.samples.extend(found[:3] or [{"group": "SE3Mrp", "x": [0.3, -1.2, 0.5, 2.1, -2.3, 0.9]}])
    return found, {"evaluations": ev, "distinct_nontrivial": ev, "cells": cells, "groups": [g.name for g in groups]}


def replay(payload):
    class C:
        seed = 0; tier = "quick"; samples = []; notes = []
    found, _ = search(C())
    cases = {v.get("case") for v in payload.get("violations", [])}
    hit = [z for z in found if z["case"] in cases]
    for z in hit:
        print("reproduced:", z["case"], z["what"], z["error"], z["inputs"])
    return not hit
