"""C20 — the simulation bus delivers every message once, in order, to the right nodes; estimator-node rate limits
(hand model lean/Model/Bus.lean + differential runs against cyecca/sim/uros.py and estimator.py)."""
from __future__ import annotations

import contextlib
import io
import os
import subprocess
import sys

import numpy as np

HERE = os.path.dirname(os.path.abspath(__file__))
VERIF = os.path.dirname(os.path.dirname(HERE))
LEAN = os.path.join(VERIF, "lean")

ID = "C20"
MODULES = []
LEAN_TARGETS = ["Props.C20"]
ANCHORS = ["cyecca/sim/uros.py", "cyecca/sim/msgs.py", "cyecca/estimate/attitude/estimator.py"]
MISSING = [
    "the theorems are about the hand model lean/Model/Bus.lean (payloads are integer identifiers, message types their class names, times integers: "
    "1/1024 s for the bus clock, microseconds for the estimator node); the tie runs the model and the real classes on the same generated operation "
    "sequences / message timings and compares every reply, the delivery log, the parameter caches, the logger rows and the estimator's actions",
    "SimPy's event queue is not modelled: Core.run(until=t) is one model step (parameter broadcast, then the logger process ticks while its wake-up "
    "time is < t); callbacks that publish from inside a callback (nested fan-out) are outside the generated histories",
    "Param.set (node-side set) calls the non-existent Core._set_param and raises AttributeError: outside the statement (values set ON THE CORE), noted in DESIGN.md",
]

TYPES = ["Imu", "Mag", "Attitude", "EstimatorStatus"]
TOPICS = ["imu", "mag", "att", "status", "aux"]


def _lean(lines):
    drv = os.path.join(VERIF, "work", "driver", "c20_%d.lean" % os.getpid())
    os.makedirs(os.path.dirname(drv), exist_ok=True)
    with open(drv, "w") as fh:
        fh.write("import Model.BusIO\ndef main : IO Unit := Bus.loop\n")
    rc = subprocess.run(["lake", "build", "Model.BusIO"], cwd=LEAN, capture_output=True, text=True)
    if rc.returncode != 0:
        os.remove(drv)
        raise RuntimeError("model does not build: " + (rc.stdout + rc.stderr)[-800:])
    p = subprocess.run(["lake", "env", "lean", "--run", drv], cwd=LEAN, input="\n".join(lines) + "\n", capture_output=True, text=True)
    os.remove(drv)
    if p.returncode != 0:
        raise RuntimeError("model driver failed: " + p.stderr[-800:])
    return p.stdout.splitlines()


# ------------------------------------------------------------------ bus histories

def gen_bus(rng, n_ops):
    """one operation sequence (strings of the line protocol)"""
    ops = []
    n_nodes = int(rng.integers(1, 4))
    topics = list(rng.permutation(TOPICS)[: int(rng.integers(2, 5))])
    ty = {t: TYPES[int(rng.integers(len(TYPES)))] for t in TOPICS}
    sub_id = 10
    for t in topics:
        if rng.random() < 0.3:      # a subscriber constructed BEFORE the publisher of its topic
            ops.append("sub %s %d" % (t, sub_id)); sub_id += 1
        ops.append("adv %s %s" % (t, ty[t]))
        if rng.random() < 0.15:
            ops.append("adv %s %s" % (t, ty[t]))        # duplicate publisher: assertion
        for _ in range(int(rng.integers(0, 4))):
            ops.append("sub %s %d" % (t, sub_id)); sub_id += 1
    ops.append("sub %s %d" % (TOPICS[-1] if TOPICS[-1] not in topics else "nobody", sub_id)); sub_id += 1   # subscriber without publisher
    names = []
    for nd in range(n_nodes):
        for k in range(int(rng.integers(0, 3))):
            nm = "n%d/p%d" % (nd, k); names.append(nm)
            ops.append("decl %d %s %d" % (nd, nm, int(rng.integers(-50, 50))))
        if rng.random() < 0.8:
            ops.append("sub params %d" % nd)          # node follows the parameter topic
    if names and rng.random() < 0.2:
        ops.append("decl 0 %s 7" % names[0])         # duplicate declaration: ValueError
    if rng.random() < 0.3:
        ops.append("set %s 3" % (names[0] if names else "zz"))   # before init_params
    # parameters (the logger's own "logger/dt" included) are declared before init_params / the first run, as launch_sim does;
    # a Param declared later is missing from the broadcast message and its update() raises — outside the property
    have_logger = rng.random() < 0.7
    if have_logger:
        ops.append("logger")
    if rng.random() < 0.7:
        ops.append("init")
    now = 0
    payload = 100
    for _ in range(n_ops):
        k = rng.integers(12)
        if k < 6:
            t = topics[int(rng.integers(len(topics)))] if rng.random() < 0.9 else "nobody"
            tt = ty.get(t, "Imu") if rng.random() < 0.85 else TYPES[int(rng.integers(len(TYPES)))]
            ops.append("pub %s %s %d" % (t, tt, payload)); payload += 1
        elif k < 8:
            nm = names[int(rng.integers(len(names)))] if names and rng.random() < 0.85 else rng.choice(["zz", "logger/dt"])
            v = int(rng.integers(-99, 99)) if nm != "logger/dt" else int(rng.choice([2, 3, 8, 16]))
            ops.append("set %s %d" % (nm, v))
        elif k < 10:
            now += int(rng.integers(1, 40)); ops.append("run %d" % now)
        elif k == 10:
            late = ["adv late Imu", "sub imu 999", "init", "run %d" % now]
            if not have_logger:   # the topology may still change: late subscribers, also on topics nobody listened to so far
                late += ["sub %s %d" % (t, 2000 + len(ops)) for t in topics]
            if have_logger:
                late += ["decl 0 late/p 1", "logger"]      # rejected: the bus is locked
            ops.append(str(rng.choice(late)))
        else:
            ops.append("pub %s %s %d" % (topics[0], ty[topics[0]], payload)); payload += 1
    ops.append("dump")
    return ops


def run_real_bus(ops):
    """execute the sequence on the real classes; returns the same reply lines as the model"""
    import cyecca.sim.uros as uros
    import cyecca.sim.msgs as msgs
    cls = {"Imu": msgs.Imu, "Mag": msgs.Mag, "Attitude": msgs.Attitude, "EstimatorStatus": msgs.EstimatorStatus}
    core = uros.Core()
    pubs = {"params": core.pub_params}
    inbox = []
    bufs = {}
    params = []          # (node, name, Param)
    logger = [None]
    out = []

    def make_cb(i, topic):
        def cb(msg):
            inbox.append((i, topic, 0 if topic == "params" else int(msg.data["time"])))
            if topic == "params":
                for (nd, nm, p) in params:
                    if nd == i:
                        p.update()
        return cb
    for line in ops:
        w = line.split()
        try:
            if w[0] == "adv":
                pubs[w[1]] = uros.Publisher(core, w[1], cls[w[2]])
            elif w[0] == "sub":
                uros.Subscriber(core, w[1], msgs.Msg, make_cb(int(w[2]), w[1]))
            elif w[0] == "pub":
                if w[1] not in pubs:
                    out.append("error no-publisher"); continue
                # publishers reuse ONE message buffer per topic (as the shipped simulator / estimator nodes do) and keep writing into
                # it after publishing: whoever keeps a reference instead of a copy sees the scribble, not the published message
                m = bufs.setdefault((w[1], w[2]), cls[w[2]]()); m.data["time"] = float(w[3])
                try:
                    pubs[w[1]].publish(m)
                finally:
                    m.data["time"] = 424242.0
            elif w[0] == "decl":
                # protocol integers are HALF units: the real value is v/2 — declared as a Python int literal when v is even (as the
                # shipped nodes do for e.g. mag_decl = 0) and as a float otherwise; values set later are mostly non-integers
                v = int(w[3])
                p = uros.Param(core, w[2], (v // 2) if v % 2 == 0 else v / 2.0, "f8"); params.append((int(w[1]), w[2], p))
            elif w[0] == "init":
                core.init_params()
            elif w[0] == "set":
                core.set_param(w[1], float(w[2]) / 1024.0 if w[1] == "logger/dt" else float(w[2]) / 2.0)
            elif w[0] == "logger":
                lg = uros.Logger(core)
                lg.dt.value = 5.0 / 1024.0     # model's default period (5 units of 1/1024 s), before any broadcast
                logger[0] = lg
            elif w[0] == "run":
                core.run(until=float(w[1]) / 1024.0)
            elif w[0] == "dump":
                lg = logger[0]
                cache = ",".join("%d:%s:%d" % (nd, nm, int(round(p.value * 2))) for (nd, nm, p) in params)
                if lg is not None:
                    v = lg.dt.value
                    cache = (cache + "," if cache else "") + "1000000:logger/dt:%d" % int(round(v * 1024))
                rows = []
                if lg is not None:
                    for r in lg.data_list:
                        ent = []
                        for tname in r.dtype.names:
                            if tname == "time":
                                continue
                            tv = r[tname]["time"]
                            if tname == "params":
                                continue
                            if not np.isnan(tv):
                                ent.append("%s=%d" % (tname, int(tv)))
                        rows.append("%d|%s" % (int(round(float(r["time"]) * 1024)), ",".join(ent)))
                out.append("inbox[%s] cache[%s] rows[%s] locked=%s" % (",".join("%d:%s:%d" % e for e in inbox), cache, ";".join(rows),
                                                                       "true" if core.pub_sub_locked else "false"))
                continue
            out.append("ok")
        except AssertionError:
            out.append("error AssertionError")
        except ValueError:
            out.append("error ValueError")
        except (TypeError, AttributeError):
            out.append("error TypeError")
    return out


def canon_dump(line):
    """model rows list 'params=0' entries and orders keys by first write; canonicalise both sides"""
    import re
    m = re.match(r"inbox\[(.*)\] cache\[(.*)\] rows\[(.*)\] locked=(\w+)", line)
    if not m:
        return line
    rows = []
    for r in (m.group(3).split(";") if m.group(3) else []):
        t, _, ent = r.partition("|")
        kv = sorted(e for e in ent.split(",") if e and not e.startswith("params="))
        rows.append(t + "|" + ",".join(kv))
    return "inbox[%s] cache[%s] rows[%s] locked=%s" % (m.group(1), ",".join(sorted(m.group(2).split(","))) if m.group(2) else "", ";".join(rows), m.group(4))


# ------------------------------------------------------------------ estimator node timings

def gen_node(rng, n):
    ops = ["nreset %d" % int(rng.random() < 0.5)]
    t_imu = 0; t_mag = 0
    for _ in range(n):
        k = rng.integers(10)
        if k < 6:
            t_imu += int(rng.choice([5000, 2500, 1200, 300, 10000, 0, -2000, 4400, 3600])) + int(rng.integers(0, 90))
            ops.append("imu %d %d" % (t_imu, int(rng.random() < 0.7)))
        elif k < 9:
            t_mag += int(rng.choice([20000, 5000, 2000, 700, 4400, 3600, 0, -1000])) + int(rng.integers(0, 90))
            ops.append("mag %d" % t_mag)
        else:
            ops.append("dtmin %d %d" % (int(rng.choice([5000, 20000, 3300, 2000])), int(rng.choice([5000, 20000, 3300, 50000]))))
    return ops


def run_real_node(ops):
    import cyecca.sim.uros as uros
    import cyecca.sim.msgs as msgs
    from cyecca.estimate.attitude.estimator import AttitudeEstimator
    acts = []
    init_ok = [True]
    tnow = [0.0]

    def us(t): return int(round(float(t) * 1e6))
    eqs = {
        "constants": lambda: {"x0": np.zeros(6), "W0": np.eye(6)},
        "initialize": lambda a, m, d: (np.zeros(6), 0 if init_ok[0] else 3),
        "predict": lambda t, x, W, om, sg, sn, dt: (acts.append("predict:%d:%d" % (us(t), us(dt))), (x, W))[1],
        "get_state": lambda x: (np.array([1.0, 0, 0, 0]), np.zeros(3), np.zeros(3)),
        "correct_accel": lambda x, W, y, g, om, sa, sao, bc: (acts.append("accel:%d" % us(tnow[0])), (x, W, 0.0, np.zeros(2), np.zeros(2), 0.0))[1],
        "correct_mag": lambda x, W, y, d, sm, bc: (acts.append("mag:%d" % us(tnow[0])), (x, W, 0.0, np.zeros(1), np.zeros(1), 0.0))[1],
    }
    out = []
    core = None; node = None; pub_imu = pub_mag = None
    for line in ops:
        w = line.split()
        if w[0] == "nreset":
            core = uros.Core()
            pub_imu = uros.Publisher(core, "imu", msgs.Imu); pub_mag = uros.Publisher(core, "mag", msgs.Mag)
            node = AttitudeEstimator(core, "mrp", eqs, initialize=(w[1] == "0"))
            core.init_params()
            out.append("ok"); continue
        before = len(acts)
        buf = io.StringIO()
        with contextlib.redirect_stdout(buf):
            if w[0] == "imu":
                init_ok[0] = (w[2] == "1"); tnow[0] = int(w[1]) / 1e6
                was_init = node.initialized
                m = msgs.Imu(); m.data["time"] = tnow[0]; m.data["gyro"] = 0; m.data["accel"] = [0, 0, -9.8]
                pub_imu.publish(m)
                if not was_init and node.initialized:
                    acts.append("init:%d" % int(w[1]))
                elif not was_init and "initialization failed" in buf.getvalue():
                    acts.append("initfail:%d" % int(w[1]))
            elif w[0] == "mag":
                tnow[0] = int(w[1]) / 1e6
                m = msgs.Mag(); m.data["time"] = tnow[0]; m.data["mag"] = [1, 0, 0]
                pub_mag.publish(m)
            elif w[0] == "dtmin":
                core.set_param("mrp/dt_min_accel", int(w[1]) / 1e6); core.set_param("mrp/dt_min_mag", int(w[2]) / 1e6)
        out.append("acts " + " ".join(acts[before:]))
    return out


def borderline(ops):
    """a comparison of the node lands within 2 us of its threshold: float rounding decides there, the integer model cannot
    (replays the node's bookkeeping in integers to know the last correction times)"""
    t_acc = t_mag = t_imu = 0; da = dm = 5000; init = False; have_mag = False
    for line in ops:
        w = line.split()
        if w[0] == "nreset":
            init = (w[1] == "1")
        elif w[0] == "dtmin":
            da, dm = int(w[1]), int(w[2])
        elif w[0] == "mag":
            t = int(w[1]); have_mag = True
            if init:
                if abs((t - t_mag) - (dm - 1000)) <= 2:
                    return True
                if t - t_mag >= dm - 1000:
                    t_mag = t
        elif w[0] == "imu":
            t = int(w[1]); dt = t - t_imu; t_imu = t
            if not init:
                if have_mag and w[2] == "1":
                    init = True
                continue
            if dt <= 0:
                continue
            if abs((t - t_acc) - (da - 1000)) <= 2:
                return True
            if t - t_acc >= da - 1000:
                t_acc = t
    return False


def fresh_message_history(rng):
    """real Core / Publisher / Subscriber with one NEW message object per publication and recording subscribers"""
    import simpy
    import cyecca.sim.msgs as msgs
    import cyecca.sim.uros as uros
    core = uros.Core()
    topics = {"imu_a": msgs.Imu, "imu_b": msgs.Imu, "att": msgs.Attitude}
    pubs = {t: uros.Publisher(core, t, ty) for t, ty in topics.items()}
    got = {t: [] for t in topics}
    subs = [uros.Subscriber(core, t, ty, (lambda m, t=t: got[t].append(m))) for t, ty in topics.items()]
    sent = {t: [] for t in topics}
    problems = []
    fresh = msgs.Attitude()
    if not all(np.all(np.isnan(np.atleast_1d(fresh.data[f]))) for f in fresh.data.dtype.names):
        problems.append("a newly created message is not nan-initialised")

    def source():
        k = 0
        while True:
            t = float(core.now)
            for tp in ("imu_a", "imu_b"):
                if tp == "imu_b" and k % 2 == 0:
                    continue
                m = msgs.Imu(); sgn = 1.0 if tp == "imu_a" else -1.0
                m.data["time"] = t + (0.0 if tp == "imu_a" else 1000.0)
                m.data["gyro"] = [sgn * (k + 1), float(rng.integers(0, 9)), 0]
                m.data["accel"] = [0, 0, sgn * 9.8]
                sent[tp].append((float(m.data["time"]), [float(v) for v in m.data["gyro"]]))
                pubs[tp].publish(m)
            m = msgs.Attitude(); m.data["time"] = t; m.data["q"] = [1, 0, 0, 0]
            if k % 2 == 0:
                m.data["r"] = [0.1, 0.2, 0.3]
            sent["att"].append((t, k % 2 == 0))
            pubs["att"].publish(m)
            k += 1
            yield simpy.Timeout(core, 0.01)
    simpy.Process(core, source())
    core.run(until=0.085)
    n = 0
    for tp in ("imu_a", "imu_b"):
        n += len(got[tp])
        if len(got[tp]) != len(sent[tp]):
            problems.append("%s: %d deliveries for %d publications" % (tp, len(got[tp]), len(sent[tp])))
        for i, (m, (tm, gy)) in enumerate(zip(got[tp], sent[tp])):
            if float(m.data["time"]) != tm or [float(v) for v in m.data["gyro"]] != gy:
                problems.append("%s: delivery %d holds time %r gyro %r, published was time %r gyro %r"
                                % (tp, i, float(m.data["time"]), [float(v) for v in m.data["gyro"]], tm, gy)); break
    n += len(got["att"])
    for i, (m, (tm, has_r)) in enumerate(zip(got["att"], sent["att"])):
        r = np.atleast_1d(m.data["r"]).astype(float)
        if float(m.data["time"]) != tm or (has_r and not np.allclose(r, [0.1, 0.2, 0.3])) or (not has_r and not np.all(np.isnan(r))):
            problems.append("att: delivery %d holds time %r r %r (published time %r, r %s)" % (i, float(m.data["time"]), r.tolist(), tm, "set" if has_r else "left unset (nan)")); break
    return {"deliveries": n, "problems": problems}


def search(ctx):
    rng = np.random.default_rng(ctx.seed + 2020)
    big = ctx.tier != "quick"
    found = []
    st = {"bus_histories": 0, "bus_ops": 0, "bus_errors": 0, "deliveries": 0, "log_rows": 0, "node_histories": 0, "node_msgs": 0, "node_actions": 0,
          "model_mismatch": 0, "skipped_borderline": 0, "predicts": 0, "corrections": 0}

    def report(case, what, inputs, obligation=None):
        if not any(z["case"] == case for z in found):
            found.append({"case": case, "what": what, "inputs": inputs, "error": 0.0, "tolerance": 0, "obligation": obligation or ("search:" + case)})
    # ---- bus: model vs real, and the property checked directly on the real delivery log
    hist = [gen_bus(rng, int(rng.integers(5, 40))) for _ in range(300 if big else 60)]
    lines = []
    for h in hist:
        lines.append("reset"); lines.extend(h)
    model = _lean(lines)
    k = 0
    for h in hist:
        k += 1   # reset reply
        mrep = model[k:k + len(h)]; k += len(h)
        real = run_real_bus(h)
        st["bus_histories"] += 1; st["bus_ops"] += len(h)
        st["bus_errors"] += sum(1 for r in real if r.startswith("error"))
        for i, (a, b) in enumerate(zip(mrep, real)):
            if (canon_dump(a) if h[i] == "dump" else a) != (canon_dump(b) if h[i] == "dump" else b):
                st["model_mismatch"] += 1
                ctx.fail("tie:bus", "correspondence", {"history": h[: i + 1], "op": h[i], "model": a[:400], "real": b[:400]})
                break
        # property on the real run: exactly once, in order, to the subscribers of the topic and no one else
        dump = real[-1]
        import re
        m = re.match(r"inbox\[(.*)\] cache\[(.*)\] rows\[(.*)\] locked", dump)
        inbox = [tuple(e.split(":")) for e in m.group(1).split(",")] if m and m.group(1) else []
        st["deliveries"] += len(inbox)
        subs = {}
        pubs = {"params": "Params"}
        expect = []
        locked = False
        for line, rep in zip(h, real):
            w = line.split()
            if w[0] == "logger" and rep == "ok": locked = True
            if w[0] == "adv" and rep == "ok": pubs[w[1]] = w[2]
            if w[0] == "sub" and rep == "ok": subs.setdefault(w[1], []).append(w[2])
            if w[0] == "pub":
                right = w[1] in pubs and pubs[w[1]] == w[2]
                if right != (rep == "ok"):
                    report("bus:type-check", "a message of the wrong type was accepted, or one of the right type rejected", {"history": h, "op": line, "reply": rep})
                if rep == "ok":
                    expect.extend((u, w[1], w[3]) for u in subs.get(w[1], []))
            if (w[0] == "set" and rep == "ok") or w[0] == "run":    # Core.run broadcasts before SimPy checks `until`
                expect.extend((u, "params", "0") for u in subs.get("params", []))
            if locked and w[0] in ("adv", "sub", "decl") and rep == "ok":
                report("bus:lock", "publisher / subscriber / parameter accepted after the logger locked the bus", {"history": h, "op": line})
        if inbox != expect:
            report("bus:delivery", "deliveries differ from 'each accepted message once, in publication order, to exactly the subscribers of its topic'",
                   {"history": h, "delivered": inbox[:60], "expected": expect[:60]}, obligation="theorem:C20.publish_fanout")
        rows = m.group(3).split(";") if m and m.group(3) else []
        st["log_rows"] += len(rows)
        ts = [int(r.split("|")[0]) for r in rows]
        if any(b < a for a, b in zip(ts, ts[1:])):
            report("bus:log-time", "logger rows are not in non-decreasing time order", {"history": h, "times": ts})
        # one row per logging period: wake-up times follow the CURRENT value of logger/dt
        exp_t = []; nxt = None; per = 5; nowt = 0
        exp_rows = []; latest = {}; ltopics = set(); advd = set()
        for line, rep in zip(h, real):
            w = line.split()
            if w[0] == "adv" and rep == "ok": advd.add(w[1])
            if w[0] == "logger" and rep == "ok": nxt = nowt; ltopics = set(advd)
            if w[0] == "pub" and rep == "ok" and nxt is not None and w[1] in ltopics: latest[w[1]] = int(w[3])
            if w[0] == "set" and rep == "ok" and w[1] == "logger/dt": per = int(w[2])
            if w[0] == "run" and rep == "ok":
                if nxt is not None:
                    while nxt < int(w[1]):
                        exp_t.append(nxt); exp_rows.append(",".join(sorted("%s=%d" % kv for kv in latest.items()))); nxt += per
                nowt = int(w[1])
        got_rows = [",".join(sorted(e for e in r.split("|")[1].split(",") if e and not e.startswith("params="))) for r in rows]
        if ts == exp_t and got_rows != exp_rows:
            bad = next(i for i, (a, b) in enumerate(zip(got_rows, exp_rows)) if a != b)
            report("bus:log-latest", "a logger row does not hold the latest published message of every topic (publishers reuse and keep writing their buffer)",
                   {"history": h, "row": bad, "row_time": ts[bad], "logged": got_rows[bad], "expected": exp_rows[bad]}, obligation="theorem:C20.tick_row")
        if ts != exp_t:
            report("bus:log-period", "logger rows are not one per logging period (the current logger/dt)", {"history": h, "row_times": ts[:80], "expected": exp_t[:80]},
                   obligation="theorem:C20.tick_row")
        # parameter propagation: after the last accepted broadcast every follower's cache equals the core value
        vals = {}; follows = set(subs.get("params", [])); cache0 = {}
        inited = False
        for line, rep in zip(h, real):
            w = line.split()
            if w[0] == "decl" and rep == "ok": cache0[(w[1], w[2])] = int(w[3]); vals.setdefault(w[2], int(w[3]))
        # replay core values
        corev = None
        cache = dict(cache0)
        for line, rep in zip(h, real):
            w = line.split()
            if (w[0] == "init" and rep == "ok") or (w[0] == "run" and corev is None):
                corev = {nm: v for (nd, nm), v in cache.items()}
            if w[0] == "set" and rep == "ok" and w[1] != "logger/dt":
                corev[w[1]] = int(w[2])
            if (w[0] == "set" and rep == "ok") or w[0] == "run":
                for (nd, nm) in list(cache):
                    if nd in follows and nm in corev:
                        cache[(nd, nm)] = corev[nm]
        got = {}
        for e in (m.group(2).split(",") if m and m.group(2) else []):
            nd, nm, v = e.split(":")
            if nd != "1000000":
                got[(nd, nm)] = int(v)
        if got != cache:
            report("bus:params", "a node following the parameter topic does not see the value set on the core (or a node not following it does)",
                   {"history": h, "caches": {"%s:%s" % k_: v for k_, v in got.items()}, "expected": {"%s:%s" % k_: v for k_, v in cache.items()}},
                   obligation="theorem:C20.setParam_seen")
    # ---- estimator node
    nh = [gen_node(rng, int(rng.integers(10, 80))) for _ in range(200 if big else 40)]
    nh = [h for h in nh if not borderline(h) or st.__setitem__("skipped_borderline", st["skipped_borderline"] + 1)]
    lines = []
    for h in nh:
        lines.extend(h)
    model = _lean(lines)
    k = 0
    for h in nh:
        mrep = model[k:k + len(h)]; k += len(h)
        real = run_real_node(h)
        st["node_histories"] += 1; st["node_msgs"] += len(h)
        for i, (a, b) in enumerate(zip(mrep, real)):
            if a.strip() != b.strip():
                st["model_mismatch"] += 1
                ctx.fail("tie:node", "correspondence", {"history": h[: i + 1], "op": h[i], "model": a, "real": b})
                break
        # property on the real run
        da = dm = 5000; last_acc = last_mag = None
        for line, rep in zip(h, real):
            w = line.split()
            if w[0] == "dtmin": da, dm = int(w[1]), int(w[2])
            for a in rep.split()[1:]:
                st["node_actions"] += 1
                f = a.split(":")
                if f[0] == "predict":
                    st["predicts"] += 1
                    if int(f[2]) <= 0:
                        report("node:dt", "the estimator predicted with a non-positive time step", {"history": h, "action": a}, obligation="theorem:C20.predict_dt_pos")
                if f[0] == "accel":
                    st["corrections"] += 1
                    if last_acc is not None and int(f[1]) - last_acc < da - 1000 - 2:
                        report("node:accel-rate", "accelerometer corrections closer than dt_min_accel - 1 ms", {"history": h, "t": int(f[1]), "previous": last_acc},
                               obligation="theorem:C20.accel_spacing")
                    last_acc = int(f[1])
                if f[0] == "mag":
                    st["corrections"] += 1
                    if last_mag is not None and int(f[1]) - last_mag < dm - 1000 - 2:
                        report("node:mag-rate", "magnetometer corrections closer than dt_min_mag - 1 ms", {"history": h, "t": int(f[1]), "previous": last_mag},
                               obligation="theorem:C20.mag_spacing")
                    last_mag = int(f[1])
    # ---- fresh message object per publication (as ULogReplay does), subscribers that KEEP what they were handed,
    #      two topics of the same message type: what each subscriber holds must be what was published on ITS topic, in order
    try:
        bad = fresh_message_history(rng)
        st["fresh_message_deliveries"] = bad["deliveries"]
        if bad["problems"]:
            report("bus:fresh-messages", "messages created per publication are not delivered unchanged / to their own topic only: " + bad["problems"][0],
                   {"problems": bad["problems"][:5]})
    except Exception as e:   # noqa: BLE001
        ctx.notes.append("search: fresh-message history raised %s: %s" % (type(e).__name__, str(e)[:160]))
    ctx.samples.extend(found[:2] or [{"bus_history": hist[0][:12]}, {"node_history": nh[0][:12]}])
    st["evaluations"] = st["bus_ops"] + st["node_msgs"]
    st["distinct_nontrivial"] = st["deliveries"] + st["node_actions"] + st["bus_errors"]
    ctx.extra["tie"] = {"functions": 2, "requests": st["bus_ops"] + st["node_msgs"], "mismatching_functions": int(st["model_mismatch"] > 0), "max_ulp": 0.0}
    return found, st


def replay(payload):
    class C:
        seed = 0; tier = "quick"; samples = []; notes = []; extra = {}; failed = []
        def fail(self, *a): self.failed.append(a)
    found, _ = search(C())
    cases = {v.get("case") for v in payload.get("violations", [])}
    hit = [z for z in found if z["case"] in cases]
    for z in hit:
        print("reproduced:", z["case"], z["what"])
    return not hit
