"""C07 — SO(3) representation conversions preserve the rotation and yield valid parameters."""
from __future__ import annotations

import numpy as np

import numlib as nl
from props import common

ID = "C07"
MODULES = ["Series", "SO3"]
LEAN_TARGETS = ["Props.C07"]
ANCHORS = ["cyecca/lie/group_so3.py"]
MISSING = [
    "Euler from_Matrix inside the gimbal band: entrywise tolerance theorem (`_band`) — numeric search only",
    "conversions INTO Euler form (exact outside the band) as a theorem: needs arcsin/atan2 case analysis — numeric search only",
]

REPS = {"Quat": "SO3Quat", "Mrp": "SO3Mrp", "Dcm": "SO3Dcm", "Euler": "SO3Euler"}


def relevant(fn):
    last = fn.split(".")[-1]
    return last.startswith("from_") or last in ("fromMatrix", "toMatrix", "shadow")


def rotations(rng, n):
    """rotation matrices + a unit quaternion for each: all axes, angles 0..pi incl. exactly pi,
    near identity, all four Shepperd branches, both gimbal poles"""
    out = []
    ax = [np.array(v, float) for v in ([1, 0, 0], [0, 1, 0], [0, 0, 1], [1, 1, 0], [1, 0, 1], [0, 1, 1], [1, 1, 1], [1, -2, 0.5])]
    angs = [0.0, 1e-9, 1e-4, 0.5, np.pi / 2, 2.0, 2.5, 3.0, np.pi - 1e-6, np.pi]
    for a in ax:
        for th in angs:
            out.append(("axis-angle", nl.quat_axis_angle(a, th)))
            out.append(("axis-angle-neg", -nl.quat_axis_angle(a, th)))
    for _ in range(n):
        out.append(("random", nl.unit_quat(rng)))
    return out


def valid(rep, p, tol=1e-9):
    if rep == "Quat":
        return abs(np.linalg.norm(p) - 1) <= tol, "quaternion not of unit norm"
    if rep == "Mrp":
        return p.dot(p) <= 1 + tol, "MRP returned on the shadow branch (norm > 1)"
    if rep == "Dcm":
        R = p.reshape((3, 3), order="F")
        return (np.max(np.abs(R.T @ R - np.eye(3))) <= tol and abs(np.linalg.det(R) - 1) <= tol), "DCM not orthonormal with det +1"
    if rep == "Euler":
        return abs(p[1]) <= np.pi / 2 + 1e-12, "Euler pitch outside [-pi/2, pi/2]"
    return True, ""


def search(ctx):
    rng = np.random.default_rng(ctx.seed + 707)
    found = []
    ev = 0
    branch = {"b1": 0, "b2": 0, "b3": 0, "b4": 0, "band": 0}

    def report(case, what, inputs, err, tol):
        if not any(f["case"] == case for f in found):
            found.append({"case": case, "what": what, "inputs": inputs, "error": float(err), "tolerance": tol,
                          "obligation": "search:" + case})
    toM = {r: nl.F("SO3", g + ".toMatrix") for r, g in REPS.items()}
    fromM = {r: nl.F("SO3", g + ".fromMatrix") for r, g in REPS.items()}
    n = 40 if ctx.tier == "quick" else 1500
    rots = rotations(rng, n)
    # gimbal poles and band neighbours (Euler source elements)
    eul_special = []
    for s in (-1.0, 1.0):
        for d in (0.0, 1e-5, 5e-4, 9.9e-4, 1.05e-3, 5e-3):
            eul_special.append(np.array([rng.uniform(-3, 3), s * (np.pi / 2 - d), rng.uniform(-3, 3)]))
    for kind, q in rots:
        R = nl.quat_to_R(q)
        tr = np.trace(R)
        if tr > 0: branch["b1"] += 1
        elif R[0, 0] > R[1, 1] and R[0, 0] > R[2, 2]: branch["b2"] += 1
        elif R[1, 1] > R[2, 2]: branch["b3"] += 1
        else: branch["b4"] += 1
        # source element in every representation (built independently of the code under test)
        e = common.euler_of_R(R)
        inband = abs(abs(e[1]) - np.pi / 2) < 1e-3
        mrp = q[1:] / (1 + q[0]) if q[0] > -0.9 else -q[1:] / (1 - q[0])
        src = {"Quat": q, "Mrp": mrp, "Dcm": R.reshape(-1, order="F")}
        if not inband:
            src["Euler"] = e
        # also a shadow-set MRP source (norm > 1) for the same rotation
        if mrp.dot(mrp) > 1e-6:
            src["Mrp_shadow"] = -mrp / mrp.dot(mrp)
        for sname, sp in src.items():
            srep = sname.split("_")[0]
            Rs = toM[srep](sp)
            for trep, tg in REPS.items():
                targets = []
                if trep != srep:
                    targets.append(("from_" + srep, nl.F("SO3", "%s.from_%s" % (tg, srep)), sp))
                targets.append(("fromMatrix", fromM[trep], Rs))
                for (meth, fn, arg) in targets:
                    ev += 1
                    out = np.atleast_1d(fn(arg))
                    case = "%s.%s" % (tg, meth)
                    tol = 1e-8
                    in_band_out = trep == "Euler" and inband
                    if in_band_out:
                        tol = 5e-3
                        branch["band"] += 1
                    if not np.all(np.isfinite(out)):
                        report(case + ":finite", "conversion returns a non-finite value", {"source": sname, "x": sp.tolist(), "kind": kind}, 1.0, 0)
                        continue
                    err = np.max(np.abs(toM[trep](out) - Rs))
                    if not err <= tol:
                        report(case + ":rotation", "converted element has a different rotation matrix",
                               {"source": sname, "x": sp.tolist(), "kind": kind, "out": out.tolist()}, err, tol)
                    ok, why = valid(trep, out)
                    if not ok:
                        report(case + ":valid", why, {"source": sname, "x": sp.tolist(), "out": out.tolist()}, 1.0, 1e-9)
    # Euler sources at / near the poles
    for e in eul_special:
        Rs = toM["Euler"](e)
        inband = abs(abs(e[1]) - np.pi / 2) < 1e-3
        for trep, tg in REPS.items():
            if trep == "Euler":
                fn, arg, meth = fromM["Euler"], Rs, "fromMatrix"
            else:
                fn, arg, meth = nl.F("SO3", "%s.from_Euler" % tg), e, "from_Euler"
            ev += 1
            out = np.atleast_1d(fn(arg))
            tol = 5e-3 if (trep == "Euler" and inband) else 1e-8
            err = np.max(np.abs(toM[trep](out) - Rs)) if np.all(np.isfinite(out)) else np.inf
            if not err <= tol:
                report("%s.%s:rotation@pole" % (tg, meth), "conversion at/near a gimbal pole changes the rotation",
                       {"euler": e.tolist(), "out": out.tolist()}, err, tol)
    # shadow switch never changes the rotation, returns norm <= 1
    sh = nl.F("SO3", "SO3Mrp.shadow")
    for it in range(n):
        r = common.s_mrp(rng) * rng.choice([0.5, 1.0, 2.0])
        o = np.atleast_1d(sh(r)); ev += 1
        err = np.max(np.abs(toM["Mrp"](o) - toM["Mrp"](r)))
        if not err <= 1e-9:
            report("SO3Mrp.shadow:rotation", "shadow switch changes the rotation", {"r": r.tolist()}, err, 1e-9)
        if not o.dot(o) <= 1 + 1e-12:
            report("SO3Mrp.shadow:norm", "shadow switch returns norm > 1", {"r": r.tolist()}, o.dot(o), 1.0)
    ctx.samples.extend(found[:3] or [{"quaternion": rots[5][1].tolist(), "kind": rots[5][0]}])
    return found, {"evaluations": ev, "distinct_nontrivial": len(rots) + len(eul_special), "shepperd_branches_hit": branch}


def replay(payload):
    class C:
        seed = 0; tier = "quick"; samples = []; notes = []
    found, _ = search(C())
    cases = {v.get("case") for v in payload.get("violations", [])}
    hit = [f for f in found if f["case"] in cases]
    for f in hit:
        print("reproduced:", f["case"], f["what"], f["error"], f["inputs"])
    return not hit
