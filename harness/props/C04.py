"""C04 — Ad, ad, bracket agree with matrix conjugation and commutators."""
from __future__ import annotations

import numpy as np

import numlib as nl
from props import common

ID = "C04"
MODULES = ["Series", "SO2", "SE2", "Rn", "SO3", "SE3", "SE23", "Products"]
LEAN_TARGETS = ["Props.C04", "Props.C04E", "Props.C04H"]
ANCHORS = ["cyecca/lie/base.py", "cyecca/lie/group_so2.py", "cyecca/lie/group_se2.py", "cyecca/lie/group_rn.py",
           "cyecca/lie/group_so3.py", "cyecca/lie/group_se3.py", "cyecca/lie/group_se23.py",
           "cyecca/lie/direct_product.py"]
MISSING = [
    "Ad_exp(x) = exp(ad_x): theorem for the SO(3) forms (quaternion, DCM, MRP incl. shadow switch) on the closed-form cells and at zero "
    "(Props/C04E via C02); SE(2), SE(3), SE_2(3) — search only",
    "SO3Euler Ad homomorphism (product goes through from_Matrix) — search only",
    "SE_2(3) Ad homomorphism / inverse (quaternion and MRP form) and SE(3) MRP inverse ARE theorems (Props/C04H: derived in Lib/AdConj from the "
    "conjugation law of C04, the matrix homomorphism / inverse of C01 and injectivity of the hat map)",
]


def relevant(fn):
    return fn.split(".")[-1] in ("Ad", "ad", "bracket", "toMatrix")


def vee_from(hat_fn, k, Mx):
    """least-squares vee: find y with hat(y) = Mx using the linear map hat (basis expansion)"""
    B = np.stack([hat_fn(np.eye(k)[i]).reshape(-1) for i in range(k)], axis=1)
    y, res, rk, sv = np.linalg.lstsq(B, Mx.reshape(-1), rcond=None)
    return y, np.max(np.abs(B @ y - Mx.reshape(-1)))


def check_group(g, rng, n, found, stats, tol=1e-9):
    def report(case, what, inputs, err):
        if not any(f["case"] == case for f in found):
            found.append({"case": case, "what": what, "function": g.name, "inputs": inputs,
                          "error": float(err), "tolerance": tol})
    k = g.adim
    alg = g.algebra
    toM = nl.F(g.mod, g.name + ".toMatrix")
    hat = nl.F(g.mod, alg + ".toMatrix")
    hatm = lambda y: np.atleast_2d(hat(y))
    prod = nl.F(g.mod, g.name + ".product")
    inv = nl.F(g.mod, g.name + ".inverse")
    have_Ad = nl.offered(g.mod, g.name + ".Ad")
    have_ad = nl.offered(g.mod, alg + ".ad")
    have_br = nl.offered(g.mod, alg + ".bracket")
    Ad = nl.F(g.mod, g.name + ".Ad") if have_Ad else None
    ad = nl.F(g.mod, alg + ".ad") if have_ad else None
    br = nl.F(g.mod, alg + ".bracket") if have_br else None
    expf = nl.F(g.mod, g.name + ".exp")
    for it in range(n):
        X, Y = g.sample(rng), g.sample(rng)
        x, y, z = (rng.standard_normal(k) for _ in range(3))
        stats["evaluations"] += 1
        stats["distinct"].add((g.name, it))
        MX = np.atleast_2d(toM(X))
        if have_Ad:
            A = np.atleast_2d(Ad(X))
            if A.shape != (k, k):
                report(g.name + ".Ad:shape", "Ad is %s, algebra dimension is %d" % (A.shape, k), {"X": X.tolist()}, 1.0)
            else:
                lhs = hatm(A @ y) @ MX
                rhs = MX @ hatm(y)
                d = np.max(np.abs(lhs - rhs))
                if not d <= tol * (1 + np.max(np.abs(rhs))):
                    report(g.name + ".Ad:conj", "hat(Ad_X y) M(X) != M(X) hat(y)", {"X": X.tolist(), "y": y.tolist()}, d)
                if g.pair_ok is None or g.pair_ok(X, Y):
                    XY = np.atleast_1d(prod(X, Y))
                    d = np.max(np.abs(np.atleast_2d(Ad(XY)) - A @ np.atleast_2d(Ad(Y))))
                    if not d <= tol * (1 + np.max(np.abs(A)) * np.max(np.abs(Ad(Y)))):
                        report(g.name + ".Ad:hom", "Ad_{XY} != Ad_X Ad_Y", {"X": X.tolist(), "Y": Y.tolist()}, d)
                Xi = np.atleast_1d(inv(X))
                d = np.max(np.abs(np.atleast_2d(Ad(Xi)) @ A - np.eye(k)))
                if not d <= tol * (1 + np.max(np.abs(A)) ** 2):
                    report(g.name + ".Ad:inv", "Ad_{X^-1} Ad_X != 1", {"X": X.tolist()}, d)
        if have_ad:
            a = np.atleast_2d(ad(x))
            if a.shape != (k, k):
                report(alg + ".ad:shape", "ad is %s, algebra dimension is %d" % (a.shape, k), {"x": x.tolist()}, 1.0)
            else:
                comm = hatm(x) @ hatm(y) - hatm(y) @ hatm(x)
                d = np.max(np.abs(hatm(a @ y) - comm))
                if not d <= tol * (1 + np.max(np.abs(comm))):
                    report(alg + ".ad:comm", "hat(ad_x y) != [hat x, hat y]", {"x": x.tolist(), "y": y.tolist()}, d)
                if have_Ad and np.atleast_2d(Ad(X)).shape == (k, k):
                    # rotation magnitudes from tiny to beyond pi (just under 2 pi)
                    mag = [1e-4, 0.03, 0.7, 2.0, 3.3, 4.5, 6.0][it % 7]
                    xs = x.copy()
                    rot = slice(k - 3, k) if k >= 3 and g.algebra not in ("r3", "se2") else None
                    if g.algebra == "se2":
                        xs[2] = mag * np.sign(xs[2] if xs[2] != 0 else 1.0)
                    elif rot is not None and g.algebra in ("so3", "se3", "se23"):
                        xs[rot] = xs[rot] / np.linalg.norm(xs[rot]) * mag
                        if it % 3 == 2:
                            # rotation EXACTLY about a coordinate axis (either sign), 120..240 degrees: the matrix -> quaternion
                            # extraction then has exactly-zero pivots in the branches it must not take
                            ax = np.zeros(3); ax[(it // 3) % 3] = 1.0 if (it // 9) % 2 == 0 else -1.0
                            xs[rot] = ax * [2.2, 2.8, np.pi, 3.6, 4.1][(it // 3) % 5]
                    else:
                        xs = x * 0.7
                    if g.name == "SO3Euler" and mag > 3.0:
                        xs = x * 0.7
                    E = np.atleast_1d(expf(xs))
                    lhs = np.atleast_2d(Ad(E))
                    rhs = nl.expm(np.atleast_2d(ad(xs)))
                    d = np.max(np.abs(lhs - rhs))
                    if not d <= 1e-8 * (1 + np.max(np.abs(rhs))):
                        report(g.name + ".Ad:exp", "Ad_exp(x) != expm(ad_x)", {"x": xs.tolist()}, d)
        if have_br:
            b = np.atleast_1d(br(x, y))
            comm = hatm(x) @ hatm(y) - hatm(y) @ hatm(x)
            d = np.max(np.abs(hatm(b) - comm))
            if not d <= tol * (1 + np.max(np.abs(comm))):
                report(alg + ".bracket:comm", "hat([x,y]) != [hat x, hat y]", {"x": x.tolist(), "y": y.tolist()}, d)
            if have_ad and np.atleast_2d(ad(x)).shape == (k, k):
                d = np.max(np.abs(np.atleast_2d(ad(x)) @ y - b))
                if not d <= tol * (1 + np.max(np.abs(b))):
                    report(alg + ".ad:bracket", "ad_x y != [x,y]", {"x": x.tolist(), "y": y.tolist()}, d)
            # antisymmetry and Jacobi
            d = np.max(np.abs(b + np.atleast_1d(br(y, x))))
            if not d <= tol * (1 + np.max(np.abs(b))):
                report(alg + ".bracket:antisym", "[x,y] != -[y,x]", {"x": x.tolist(), "y": y.tolist()}, d)
            J = (np.atleast_1d(br(x, np.atleast_1d(br(y, z)))) + np.atleast_1d(br(y, np.atleast_1d(br(z, x))))
                 + np.atleast_1d(br(z, np.atleast_1d(br(x, y)))))
            if not np.max(np.abs(J)) <= 1e-8 * (1 + np.max(np.abs(b)) * np.max(np.abs(z))):
                report(alg + ".bracket:jacobi", "Jacobi identity fails", {"x": x.tolist(), "y": y.tolist(), "z": z.tolist()}, np.max(np.abs(J)))


    # large rotations with every sign pattern of the axis (the exp of SE_2(3) goes matrix -> quaternion -> parameters:
    # negative scalar parts and negative dominant components select the branches random samples rarely reach)
    if have_Ad and have_ad and g.algebra in ("so3", "se3", "se23") and g.name != "SO3Euler":
        for w in common.octant_rotvecs():
            xs = rng.standard_normal(k) * 0.5
            xs[k - 3:] = w
            try:
                E = np.atleast_1d(expf(xs)); lhs = np.atleast_2d(Ad(E)); rhs = nl.expm(np.atleast_2d(ad(xs)))
            except Exception:   # noqa: BLE001
                continue
            stats["evaluations"] += 1
            d = np.max(np.abs(lhs - rhs)) if lhs.shape == rhs.shape else 1e9
            if not d <= 1e-8 * (1 + np.max(np.abs(rhs))):
                report(g.name + ".Ad:exp:octant", "Ad_exp(x) != expm(ad_x) for a large rotation (axis sign pattern / dominant component sweep)", {"x": xs.tolist()}, d)

def alg_groups():
    out = []
    for g in common.groups():
        if g.algebra:
            out.append(g)
    # direct products: only ad / to_Matrix offered; algebra dims
    prod_dims = {"P_MrpR3": 6, "P_SO2R2": 3, "P_SE3QuatR3_Dcm": 12, "P_SE3Quat_R3Dcm": 12}
    for g in common.groups():
        if g.name in prod_dims:
            out.append(common.Group(g.name, g.mod, g.mdim, g.sample, g.pair_ok, algebra=g.name + "_alg", adim=prod_dims[g.name]))
    return out


def search(ctx):
    rng = np.random.default_rng(ctx.seed + 404)
    n = 15 if ctx.tier == "quick" else 300
    found, stats = [], {"evaluations": 0, "distinct": set()}
    for g in alg_groups():
        try:
            check_group(g, rng, n, found, stats)
        except NotImplementedError:
            continue
        except Exception as e:
            ctx.notes.append("search: %s raised %s: %s" % (g.name, type(e).__name__, str(e)[:160]))
    # Euler products / inverses landing inside the gimbal band: documented band tolerance only
    try:
        prod = nl.F("SO3", "SO3Euler.product"); AdE = nl.F("SO3", "SO3Euler.Ad"); invE = nl.F("SO3", "SO3Euler.inverse")
        for it in range(n):
            X, Y, d = common.euler_band_pair(rng)
            stats["evaluations"] += 1
            stats["distinct"].add(("SO3Euler@band", it))
            err = np.max(np.abs(AdE(np.atleast_1d(prod(X, Y))) - AdE(X) @ AdE(Y)))
            # inverse of an element whose inverse lands in the band
            Z = common.euler_of_R((common.euler_R(X) @ common.euler_R(Y)).T)
            err2 = np.max(np.abs(AdE(np.atleast_1d(invE(Z))) @ AdE(Z) - np.eye(3))) if abs(abs(Z[1]) - np.pi / 2) > 1e-3 else 0.0
            if not max(err, err2) <= 5e-3 and not any(f["case"] == "SO3Euler.Ad:hom-band" for f in found):
                found.append({"case": "SO3Euler.Ad:hom-band", "function": "SO3Euler",
                              "what": "Ad of a product/inverse landing inside the gimbal band is off by more than the band tolerance",
                              "inputs": {"X": X.tolist(), "Y": Y.tolist(), "delta": d}, "error": float(max(err, err2)), "tolerance": 5e-3})
    except Exception as e:
        ctx.notes.append("search: euler band raised %s" % e)
    for f in found:
        f["obligation"] = "search:" + f["case"]
    ctx.samples.extend(found[:3] or [{"group": "SE23Quat", "x": rng.standard_normal(9).tolist()}])
    return found, {"evaluations": stats["evaluations"], "distinct_nontrivial": len(stats["distinct"]),
                   "groups": [g.name for g in alg_groups()]}


def replay(payload):
    ok = True
    byname = {g.name: g for g in alg_groups()}
    for v in payload.get("violations", []):
        if v.get("kind") == "call-raises":
            try:
                nl.F(common.module_of(v["function"]), v["function"])
                print("call", v["function"], "no longer raises")
            except Exception as e:
                print("call", v["function"], "raises", type(e).__name__, e); ok = False
            continue
        g = byname.get(v.get("function"))
        if g is None:
            continue
        found, stats = [], {"evaluations": 0, "distinct": set()}
        check_group(g, np.random.default_rng(1), 20, found, stats)
        if any(f["case"] == v["case"] for f in found):
            print("reproduced:", v["case"]); ok = False
    return ok
