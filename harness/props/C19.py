"""C19 — SymPy <-> CasADi expression conversion preserves meaning (hand model + differential runs)."""
from __future__ import annotations

import math
import os
import subprocess
import sys

import numpy as np

HERE = os.path.dirname(os.path.abspath(__file__))
VERIF = os.path.dirname(os.path.dirname(HERE))
LEAN = os.path.join(VERIF, "lean")

ID = "C19"
MODULES = []
LEAN_TARGETS = ["Props.C19"]
ANCHORS = ["cyecca/symbolic.py"]
MISSING = [
    "the theorems are about the hand model lean/Model/Symbolic.lean (one constructor per Python type / opcode the converters dispatch on); the tie runs the "
    "model and the real converters on the same generated trees and compares error/success and the values of the converted expressions at sample points",
    "n-ary Add/Mul are left folds of binary nodes; matrices are converted element by element (harness only); the cse=True path is exercised numerically only",
    "unary functions other than abs/sign/floor/ceiling/sqrt are uninterpreted but identical on both sides (the converters map them name to name); "
    "floating-point rounding is not modelled (values over the reals)",
    "user maps are unary: a multi-argument undefined function is outside the generated grammar",
]

UFN = {"sin": "sin", "cos": "cos", "tan": "tan", "asin": "asin", "acos": "acos", "atan": "atan", "exp": "exp", "log": "log", "Abs": "abs",
       "sign": "sign", "floor": "floor", "ceiling": "ceil", "sinh": "sinh", "cosh": "cosh", "tanh": "tanh", "asinh": "asinh", "acosh": "acosh",
       "atanh": "atanh", "erf": "erf"}


def dyadic(x):
    m, e = math.frexp(x)
    m = int(m * (1 << 53)); e -= 53
    while m and m % 2 == 0:
        m //= 2; e += 1
    return m, e


# ------------------------------------------------------------------ readers (actual library trees -> model s-expressions)

def s_read(f):
    import sympy
    t = type(f)
    if t is sympy.Add or t is sympy.Mul:
        tag = "add" if t is sympy.Add else "mul"
        args = [s_read(a) for a in f.args]
        out = args[0]
        for a in args[1:]:
            out = "(%s %s %s)" % (tag, out, a)
        return out
    if t is sympy.core.numbers.One: return "(one)"
    if t is sympy.core.numbers.Zero: return "(zero)"
    if t is sympy.core.numbers.NegativeOne: return "(negone)"
    if t is sympy.core.numbers.Half: return "(half)"
    if t is sympy.Integer: return "(int %d)" % int(f)
    if t is sympy.Rational: return "(rat %d %d)" % (f.p, f.q)
    if t is sympy.Float: return "(flt %d %d)" % dyadic(float(f))
    if t is int: return "(pyint %d)" % f
    if t is bool: return "(pybool %d)" % int(f)
    if t is sympy.Symbol: return "(sym %s)" % f.name
    if t is sympy.Pow: return "(pow %s %s)" % (s_read(f.args[0]), s_read(f.args[1]))
    if t is sympy.Mod: return "(mod %s %s)" % (s_read(f.args[0]), s_read(f.args[1]))
    if t is sympy.atan2: return "(atan2 %s %s)" % (s_read(f.args[0]), s_read(f.args[1]))
    nm = str(t)
    if nm in UFN and len(f.args) == 1:
        return "(un %s %s)" % (UFN[nm], s_read(f.args[0]))
    if isinstance(f, sympy.core.function.AppliedUndef) and len(f.args) == 1:
        return "(app %s %s)" % (nm, s_read(f.args[0]))
    rels = {sympy.StrictLessThan: "lt", sympy.LessThan: "le", sympy.StrictGreaterThan: "gt", sympy.GreaterThan: "ge", sympy.Eq: "eq", sympy.Ne: "ne"}
    if t in rels: return "(rel %s %s %s)" % (rels[t], s_read(f.args[0]), s_read(f.args[1]))
    if t is sympy.Not: return "(not %s)" % s_read(f.args[0])
    if t is sympy.And and len(f.args) == 2: return "(and %s %s)" % (s_read(f.args[0]), s_read(f.args[1]))
    if t is sympy.Or and len(f.args) == 2: return "(or %s %s)" % (s_read(f.args[0]), s_read(f.args[1]))
    if t is sympy.Piecewise and len(f.args) == 2 and f.args[1][1] == True:   # noqa: E712
        return "(pw %s %s %s)" % (s_read(f.args[0][0]), s_read(f.args[0][1]), s_read(f.args[1][0]))
    return "(other %s)" % nm.replace(" ", "_").replace("(", "").replace(")", "")


def c_read(e):
    import casadi as ca
    OP1 = {ca.OP_NEG: "neg", ca.OP_EXP: "exp", ca.OP_LOG: "log", ca.OP_SQRT: "sqrt", ca.OP_SQ: "sq", ca.OP_TWICE: "twice", ca.OP_SIN: "sin",
           ca.OP_COS: "cos", ca.OP_TAN: "tan", ca.OP_ASIN: "asin", ca.OP_ACOS: "acos", ca.OP_ATAN: "atan", ca.OP_NOT: "not", ca.OP_FLOOR: "floor",
           ca.OP_CEIL: "ceil", ca.OP_FABS: "fabs", ca.OP_SIGN: "sign", ca.OP_ERF: "erf", ca.OP_INV: "inv", ca.OP_SINH: "sinh", ca.OP_COSH: "cosh",
           ca.OP_TANH: "tanh", ca.OP_ASINH: "asinh", ca.OP_ACOSH: "acosh", ca.OP_ATANH: "atanh"}
    OP2 = {ca.OP_ADD: "add", ca.OP_SUB: "sub", ca.OP_MUL: "mul", ca.OP_DIV: "div", ca.OP_POW: "pow", ca.OP_CONSTPOW: "constpow", ca.OP_LT: "lt",
           ca.OP_LE: "le", ca.OP_EQ: "eq", ca.OP_NE: "ne", ca.OP_AND: "and", ca.OP_OR: "or", ca.OP_FMOD: "fmod", ca.OP_COPYSIGN: "copysign",
           ca.OP_IF_ELSE_ZERO: "ifz", ca.OP_FMIN: "fmin", ca.OP_FMAX: "fmax", ca.OP_ATAN2: "atan2", ca.OP_REMAINDER: "remainder", ca.OP_HYPOT: "hypot"}
    if e.is_symbolic():
        return "(sym %s)" % e.name()
    if e.is_constant():
        v = float(e)
        if not math.isfinite(v):
            return "(unsupported nonfinite)"
        if v == int(v):
            return "(cint %d)" % int(v)
        return "(const %d %d)" % dyadic(v)
    op = e.op()
    if op in OP1:
        return "(un %s %s)" % (OP1[op], c_read(e.dep(0)))
    if op in OP2:
        return "(bin %s %s %s)" % (OP2[op], c_read(e.dep(0)), c_read(e.dep(1)))
    return "(unsupported op%d)" % op


# ------------------------------------------------------------------ python evaluators of the model's trees

def _tok(s):
    return s.replace("(", " ( ").replace(")", " ) ").split()


def _parse(ts, i=0):
    assert ts[i] == "("
    tag = ts[i + 1]; i += 2
    args = []
    while ts[i] != ")":
        if ts[i] == "(":
            a, i = _parse(ts, i); args.append(a)
        else:
            args.append(ts[i]); i += 1
    return (tag, args), i + 1


def parse(s):
    return _parse(_tok(s))[0]


def _sign(x): return -1.0 if x < 0 else (1.0 if x > 0 else 0.0)


def _erf(x): return math.erf(x)


UF = {"sin": math.sin, "cos": math.cos, "tan": math.tan, "asin": math.asin, "acos": math.acos, "atan": math.atan, "exp": math.exp,
      "log": math.log, "abs": abs, "fabs": abs, "sign": _sign, "floor": lambda x: float(math.floor(x)), "ceil": lambda x: float(math.ceil(x)),
      "sinh": math.sinh, "cosh": math.cosh, "tanh": math.tanh, "asinh": math.asinh, "acosh": math.acosh, "atanh": math.atanh, "erf": _erf,
      "neg": lambda x: -x, "sqrt": math.sqrt, "sq": lambda x: x * x, "twice": lambda x: 2 * x, "not": lambda x: float(x == 0), "inv": lambda x: 1.0 / x}


def _rem(a, b): return math.remainder(a, b)


def eval_tree(t, env, fnum):
    tag, a = t
    E = lambda k: eval_tree(a[k], env, fnum)
    if tag in ("int", "pyint", "cint"): return float(int(a[0]))
    if tag == "rat": return int(a[0]) / int(a[1])
    if tag in ("flt", "const"): return math.ldexp(int(a[0]), int(a[1]))
    if tag == "half": return 0.5
    if tag == "one": return 1.0
    if tag == "zero": return 0.0
    if tag == "negone": return -1.0
    if tag == "pybool": return float(int(a[0]))
    if tag == "sym": return env[a[0]]
    if tag == "add": return E(0) + E(1)
    if tag == "mul": return E(0) * E(1)
    if tag == "pow": return math.pow(E(0), E(1))
    if tag == "mod":
        x, y = E(0), E(1); return x - y * math.floor(x / y)
    if tag == "atan2": return math.atan2(E(0), E(1))
    if tag == "and": return float(E(0) != 0 and E(1) != 0)
    if tag == "or": return float(E(0) != 0 or E(1) != 0)
    if tag == "not": return float(E(0) == 0)
    if tag == "pw": return E(0) if E(1) != 0 else E(2)
    if tag == "rel":
        x, y = eval_tree(a[1], env, fnum), eval_tree(a[2], env, fnum)
        return float({"lt": x < y, "le": x <= y, "eq": x == y, "ne": x != y, "gt": x > y, "ge": x >= y}[a[0]])
    if tag == "un": return UF[a[0]](eval_tree(a[1], env, fnum))
    if tag in ("app", "call"): return fnum[a[0]](eval_tree(a[1], env, fnum))
    if tag == "bin":
        x, y = eval_tree(a[1], env, fnum), eval_tree(a[2], env, fnum)
        op = a[0]
        if op == "add": return x + y
        if op == "sub": return x - y
        if op == "mul": return x * y
        if op == "div": return x / y
        if op in ("pow", "constpow"): return math.pow(x, y)
        if op in ("lt", "le", "eq", "ne"): return float({"lt": x < y, "le": x <= y, "eq": x == y, "ne": x != y}[op])
        if op == "and": return float(x != 0 and y != 0)
        if op == "or": return float(x != 0 or y != 0)
        if op == "fmod": return math.fmod(x, y)
        if op == "ifz": return y if x != 0 else 0.0
        if op == "fmin": return x if x < y else y
        if op == "fmax": return x if x > y else y
        if op == "atan2": return math.atan2(x, y)
        if op == "remainder": return _rem(x, y)
        if op == "hypot": return math.hypot(x, y)
        if op == "copysign": return math.copysign(x, y)
    raise ValueError("evaluator: " + tag)


def lean_replies(lines):
    drv = os.path.join(VERIF, "work", "driver", "c19_%d.lean" % os.getpid())
    os.makedirs(os.path.dirname(drv), exist_ok=True)
    with open(drv, "w") as fh:
        fh.write("import Model.SymbolicIO\ndef main : IO Unit := Sym.loop\n")
    rc = subprocess.run(["lake", "build", "Model.SymbolicIO"], cwd=LEAN, capture_output=True, text=True)
    if rc.returncode != 0:
        os.remove(drv)
        raise RuntimeError("model does not build: " + (rc.stdout + rc.stderr)[-800:])
    p = subprocess.run(["lake", "env", "lean", "--run", drv], cwd=LEAN, input="\n".join(lines) + "\n", capture_output=True, text=True)
    os.remove(drv)
    if p.returncode != 0:
        raise RuntimeError("model driver failed: " + p.stderr[-800:])
    return p.stdout.splitlines()


# ------------------------------------------------------------------ generators

def gen_sympy(rng, depth, syms, funcs):
    import sympy
    if depth <= 0 or rng.random() < 0.25:
        k = rng.integers(9)
        if k == 0: return sympy.Integer(int(rng.integers(-5, 6)))
        if k == 1: return sympy.Rational(int(rng.integers(-7, 8)), int(rng.integers(2, 9)))
        if k == 2: return sympy.Float(float(rng.choice([2.5, -0.75, 1e-3, 3.14159, -12.125, 0.5, 7.0, 1.9999])))
        if k == 3: return sympy.S.Half
        if k == 4: return sympy.Integer(int(rng.choice([1, 0, -1, 2])))
        return syms[int(rng.integers(len(syms)))]
    g = lambda: gen_sympy(rng, depth - 1, syms, funcs)
    k = rng.integers(16)
    if k < 3: return sympy.Add(g(), g(), g() if rng.random() < 0.3 else 0)
    if k < 6: return sympy.Mul(g(), g(), g() if rng.random() < 0.3 else 1)
    if k == 6: return sympy.Pow(g(), sympy.Integer(int(rng.choice([2, 3, -1, -2]))))
    if k == 7: return sympy.sqrt(sympy.Add(g() ** 2, 1))
    if k == 8: return sympy.Pow(sympy.Add(g() ** 2, sympy.Rational(1, 2)), rng.choice([sympy.Rational(1, 3), sympy.Rational(-1, 2), sympy.Float(1.5)]))
    if k == 9: return sympy.sin(g())
    if k == 10: return sympy.cos(g())
    if k == 11: return sympy.atan(g())
    if k == 12: return sympy.tan(g() / 4)
    if k == 13: return funcs[int(rng.integers(len(funcs)))](g())
    if k == 14:   # constructs the converter must reject rather than alter
        a, b = g(), g()
        return rng.choice([sympy.exp(a), sympy.Abs(a), sympy.Piecewise((a, a < b), (b, True)), sympy.Mod(a, 3), sympy.asin(a / 10), sympy.pi * a,
                           sympy.Max(a, b), sympy.floor(a)])
    return sympy.Add(g(), sympy.Float(float(rng.choice([0.1, 2.5, -3.75]))))


def gen_casadi(rng, depth, syms, boolean=False):
    import casadi as ca
    g = lambda: gen_casadi(rng, depth - 1, syms)
    if boolean:
        k = rng.integers(7)
        a, b = g(), g()
        if k == 0: return a < b
        if k == 1: return a <= b
        if k == 2: return a == b
        if k == 3: return a != b
        if depth > 0:
            c1, c2 = gen_casadi(rng, depth - 1, syms, True), gen_casadi(rng, depth - 1, syms, True)
            if k == 4: return ca.logic_and(c1, c2)
            if k == 5: return ca.logic_or(c1, c2)
            return ca.logic_not(c1)
        return a < b
    if depth <= 0 or rng.random() < 0.25:
        k = rng.integers(6)
        if k == 0: return ca.SX(int(rng.integers(-4, 5)))
        if k == 1: return ca.SX(float(rng.choice([2.5, -0.3, 1e-2, 3.75, -7.125])))
        return syms[int(rng.integers(len(syms)))]
    k = rng.integers(30)
    a, b = g(), g()
    if k == 0: return a + b
    if k == 1: return a - b
    if k == 2: return a * b
    if k == 3: return a / (1 + b * b)
    if k == 4: return -a
    if k == 5: return ca.sqrt(1 + a * a)
    if k == 6: return a * a
    if k == 7: return 2 * a
    if k == 8: return ca.sin(a)
    if k == 9: return ca.cos(a)
    if k == 10: return ca.atan(a)
    if k == 11: return ca.exp(a / 4)
    if k == 12: return ca.log(1 + a * a)
    if k == 13: return ca.fabs(a)
    if k == 14: return ca.sign(a)
    if k == 15: return ca.floor(a)
    if k == 16: return ca.ceil(a)
    if k == 17: return ca.fmod(a, 1.5 + b * b) if rng.random() < 0.5 else ca.fmod(a, -(0.7 + b * b))
    if k == 18: return ca.remainder(a, 1.25 + b * b) if rng.random() < 0.5 else ca.remainder(a, -(2 + b * b))
    if k == 19: return ca.fmin(a, b)
    if k == 20: return ca.fmax(a, b)
    if k == 21: return ca.atan2(a, b)
    if k == 22: return ca.if_else(gen_casadi(rng, depth - 1, syms, True), a, b)
    if k == 23: return (1 + a * a) ** b
    if k == 24: return 1 / (2 + a * a)
    if k == 25: return ca.tanh(a) + ca.sinh(a / 3) + ca.erf(b)
    if k == 26: return ca.asin(ca.sin(a)) + ca.acos(ca.cos(b))
    if k == 27:   # opcodes the converter must reject rather than alter
        return rng.choice([ca.acosh(1 + a * a), a ** 2.5, ca.copysign(a, b), ca.hypot(a, b)])
    if k == 28: return ca.asinh(a) + ca.atanh(ca.tanh(b))
    return a * ca.SX(float(rng.choice([0.5, -2.25, 1e-3])))


def search(ctx):
    import casadi as ca
    import sympy
    import cyecca.symbolic as symb
    rng = np.random.default_rng(ctx.seed + 1919)
    big = ctx.tier != "quick"
    found = []
    st = {"s2c_trees": 0, "s2c_ok": 0, "s2c_rejected": 0, "c2s_trees": 0, "c2s_ok": 0, "c2s_rejected": 0, "points": 0, "matrices": 0, "cse": 0,
          "model_mismatch": 0, "skipped_points": 0}

    def report(case, what, inputs, err=0.0, tol=0.0, obligation=None):
        if not any(z["case"] == case for z in found):
            found.append({"case": case, "what": what, "inputs": inputs, "error": float(err), "tolerance": tol, "obligation": obligation or ("search:" + case)})
    xs = sympy.symbols("x y z")
    foo, bar, baz = sympy.Function("foo"), sympy.Function("bar"), sympy.Function("baz")
    impl_sym = {"foo": lambda a: sympy.sin(a) + 1, "bar": lambda a: a * a - 2, "baz": lambda a: sympy.atan(a) / (1 + a * a)}
    impl_ca = {"foo": lambda a: ca.sin(a) + 1, "bar": lambda a: a * a - 2, "baz": lambda a: ca.atan(a) / (1 + a * a)}
    impl_num = {"foo": lambda a: math.sin(a) + 1, "bar": lambda a: a * a - 2, "baz": lambda a: math.atan(a) / (1 + a * a)}

    def close(u, v, tol=1e-9):
        return (math.isnan(u) and math.isnan(v)) or abs(u - v) <= tol * (1 + abs(u) + abs(v))

    # ---------------- sympy -> casadi
    cases = []
    n = 1500 if big else 260
    for i in range(n):
        try:
            e = gen_sympy(rng, int(rng.integers(1, 5)), xs, [foo, bar, baz])
        except (TypeError, ValueError, ZeroDivisionError, RecursionError):   # sympy refuses to build it (zoo, nan comparisons)
            continue
        keys = [["foo", "bar", "baz"], ["baz", "foo", "bar"], ["bar", "baz", "foo"], ["foo"]][int(rng.integers(4))]
        cases.append((e, keys))
    # corpus of past failures first
    cases = [(sympy.Float(2.5) * xs[0], ["foo"]), (bar(xs[0]) + baz(xs[1]), ["foo", "bar", "baz"]), (sympy.Float(-0.75) + xs[1], ["foo"])] + cases
    # constructs the converter cannot represent, each in a supported context and with operands that take both signs: it must raise
    # (the model does); if the real converter accepts one, the value at sign-changing points decides whether the meaning was altered
    x_, y_, z_ = xs
    unsupported = [sympy.Mod(x_, 3), sympy.Mod(x_ * y_ - 1, y_ + 2), sympy.Mod(-x_, sympy.Rational(3, 2)), sympy.Abs(x_ - y_), sympy.sign(x_ * y_),
                   sympy.exp(x_ / 3), sympy.log(x_ * x_ + 1), sympy.floor(2 * x_), sympy.ceiling(y_ - x_), sympy.Max(x_, y_), sympy.Min(x_, -z_),
                   sympy.Piecewise((x_, x_ < y_), (y_, True)), sympy.asin(x_ / 4), sympy.acos(y_ / 4), sympy.sinh(x_), sympy.pi * x_, sympy.E + y_,
                   sympy.Heaviside(x_ - y_), sympy.atan2(x_, y_), sympy.re(x_) if hasattr(sympy, "re") else sympy.Abs(x_)]
    wrap = [lambda u: u, lambda u: 1 + 2 * u, lambda u: sympy.sin(u) * y_, lambda u: (u + z_) ** 2]
    unsup_cases = [(wrap[(i + j) % 4](u), ["foo"]) for i, u in enumerate(unsupported) for j in range(2)]
    cases = cases[:3] + unsup_cases + cases[3:]
    lines = ["s2c %s %s" % (",".join(k), s_read(e)) for e, k in cases]
    replies = lean_replies(lines)
    for (e, keys), rep in zip(cases, replies):
        st["s2c_trees"] += 1
        fd = {k: impl_ca[k] for k in keys}
        symtab = {}
        try:
            c_real, symtab = symb.sympy_to_casadi(e, f_dict=fd, symbols=symtab)
            err = None
        except NotImplementedError as ex:
            err = "NotImplementedError"
        except Exception as ex:   # noqa: BLE001
            err = type(ex).__name__
        inp = {"direction": "sympy_to_casadi", "expr": sympy.srepr(e), "f_dict_keys": keys}
        if rep == "BAD-INPUT":
            ctx.fail("tie:model-input", "reader", {"expr": sympy.srepr(e)}); continue
        if (rep == "ERR") != (err is not None):
            st["model_mismatch"] += 1
            ctx.fail("tie:s2c:error-agreement", "correspondence", dict(inp, model=rep[:80], real_error=err))
            if err is None:
                # accepted although the model rejects it: was the expression altered?  compare values where operands change sign
                try:
                    names = sorted(symtab)
                    fn = ca.Function("f", [symtab[k] for k in names], [ca.SX(c_real)])
                    for pt in ({"x": -1.0, "y": 0.7, "z": 0.3}, {"x": 1.3, "y": -2.2, "z": -0.4}, {"x": -2.6, "y": -0.9, "z": 1.1}, {"x": 0.4, "y": 1.9, "z": -1.5}):
                        v_real = float(fn.call([pt[k] for k in names])[0])
                        v_src = complex(sympy.N(e.subs({sy: sympy.Float(pt[sy.name]) for sy in xs})))
                        if math.isfinite(v_real) and abs(v_src.imag) < 1e-12 and not close(v_real, v_src.real, 1e-8):
                            report("s2c:unsupported-altered", "sympy_to_casadi accepts a construct it cannot represent and alters its value instead of raising",
                                   dict(inp, point=pt, casadi=v_real, sympy=v_src.real), abs(v_real - v_src.real), 1e-8)
                            break
                except Exception:   # noqa: BLE001
                    pass
            continue
        if err is not None:
            st["s2c_rejected"] += 1     # any exception is "an error instead of an altered expression"
            st.setdefault("reject_kinds", {}); st["reject_kinds"][err] = st["reject_kinds"].get(err, 0) + 1
            continue
        st["s2c_ok"] += 1
        names = sorted(symtab)
        fn = ca.Function("f", [symtab[k] for k in names], [ca.SX(c_real)])
        tree = parse(rep[3:])
        e_impl = e
        for nm, im in impl_sym.items():
            e_impl = e_impl.replace(sympy.Function(nm), im)
        for _ in range(3):
            pt = {k: float(rng.choice([rng.uniform(-2, 2), rng.uniform(0.1, 1.5)])) for k in ("x", "y", "z")}
            try:
                v_real = float(fn.call([pt[k] for k in names])[0])
                v_model = eval_tree(tree, pt, impl_num)
                v_src = complex(sympy.N(e_impl.subs({s: sympy.Float(pt[s.name]) for s in xs})))
            except (ValueError, ZeroDivisionError, OverflowError, TypeError, RecursionError, AttributeError, NotImplementedError):
                st["skipped_points"] += 1; continue
            if not math.isfinite(v_real) or abs(v_src.imag) > 1e-12 or not math.isfinite(v_src.real) or abs(v_real) > 1e8:
                st["skipped_points"] += 1; continue
            st["points"] += 1
            if not close(v_real, v_model):
                st["model_mismatch"] += 1
                ctx.fail("tie:s2c:value", "correspondence", dict(inp, point=pt, real=v_real, model=v_model))
            if not close(v_real, v_src.real, 1e-8):
                report("s2c:value", "sympy_to_casadi changed the value of the expression", dict(inp, point=pt, casadi=v_real, sympy=v_src.real),
                       abs(v_real - v_src.real), 1e-8, obligation="theorem:C19.s2c_sound")
    # symbol table consistency + matrices + cse path
    for i in range(60 if big else 12):
        try:
            e1 = gen_sympy(rng, 2, xs, [foo]); e2 = gen_sympy(rng, 2, xs, [foo])
        except (TypeError, ValueError, ZeroDivisionError, RecursionError):
            continue
        try:
            tab = {}
            c1, tab = symb.sympy_to_casadi(e1, f_dict={"foo": impl_ca["foo"]}, symbols=tab)
            before = dict(tab)
            c2, tab = symb.sympy_to_casadi(e2, f_dict={"foo": impl_ca["foo"]}, symbols=tab)
            for k, v in before.items():
                if tab[k] is not v and not ca.is_equal(tab[k], v):
                    report("s2c:symbols", "the same symbol name maps to two CasADi variables", {"exprs": [sympy.srepr(e1), sympy.srepr(e2)], "name": k})
            M = sympy.Matrix([[e1, xs[0]], [sympy.Float(2.5), e2]])
            cm, tabm = symb.sympy_to_casadi(M, f_dict={"foo": impl_ca["foo"]}, symbols={})
            st["matrices"] += 1
            names = sorted(tabm); fm = ca.Function("m", [tabm[k] for k in names], [ca.SX(cm)])
            pt = {k: float(rng.uniform(0.2, 1.4)) for k in ("x", "y", "z")}
            got = np.array(fm.call([pt[k] for k in names])[0])
            Mi = M
            Mi = Mi.replace(sympy.Function("foo"), impl_sym["foo"])
            want = np.array(sympy.N(Mi.subs({s: sympy.Float(pt[s.name]) for s in xs})).tolist(), dtype=complex)
            if np.all(np.isfinite(got)) and np.all(np.isfinite(want.real)) and np.max(np.abs(want.imag)) < 1e-12 and np.max(np.abs(got)) < 1e8:
                if got.shape != (2, 2) or np.max(np.abs(got - want.real)) > 1e-8 * (1 + np.max(np.abs(got))):
                    report("s2c:matrix", "matrix conversion changed an entry", {"matrix": sympy.srepr(M), "point": pt, "casadi": got.tolist(), "sympy": want.real.tolist()})
            # the caller's own (initially empty) dict is the symbol table: filled in place, reused by the next call
            own = {}
            d1, _ = symb.sympy_to_casadi(xs[0] * xs[1] + e1, f_dict={"foo": impl_ca["foo"]}, symbols=own)
            snap = dict(own)
            d2, _ = symb.sympy_to_casadi(xs[0] - xs[1] + e2, f_dict={"foo": impl_ca["foo"]}, symbols=own)
            v1 = {v.name(): v for v in ca.symvar(ca.SX(d1))}; v2 = {v.name(): v for v in ca.symvar(ca.SX(d2))}
            if not all(k in own for k in ("x", "y")) or any(not ca.is_equal(own[k], snap[k]) for k in snap) \
                    or any(not ca.is_equal(v1[k], v2[k]) for k in v1 if k in v2) or any(not ca.is_equal(v1[k], own[k]) for k in v1 if k in own):
                report("s2c:symbols-dict", "two conversions sharing the caller's symbol dict do not share their variables",
                       {"exprs": [sympy.srepr(e1), sympy.srepr(e2)], "dict_after": sorted(own)})
            # symbols that are NOT plain Symbols (Dummy / Wild): distinct objects with one printed name.  Either an error, or one variable each.
            da, db = sympy.Dummy("x"), sympy.Dummy("x")
            for e_d, nsym in ((da - 2 * db, 2), (da * xs[0] + sympy.Symbol("_x"), 3), (sympy.Wild("w") + sympy.Wild("w", exclude=[xs[0]]) * 3, 2)):
                try:
                    c_d, tab_d = symb.sympy_to_casadi(e_d, symbols={})
                except Exception:   # noqa: BLE001  (rejected: fine)
                    st["s2c_rejected"] += 1
                    continue
                nv = len(ca.symvar(ca.SX(c_d)))
                if nv != nsym:
                    report("s2c:symbols-merged", "distinct SymPy symbols (Dummy / Wild with one printed name) were accepted and mapped to the same CasADi variable",
                           {"expr": sympy.srepr(e_d), "distinct_symbols": nsym, "casadi_variables": nv, "table": sorted(map(str, tab_d))})
            u_ = e1 + e2
            e3 = (u_) ** 2 + sympy.sin(u_) * sympy.cos(sympy.sin(u_)) + sympy.sin(u_) ** 2     # nested common sub-expressions
            c3, tab3 = symb.sympy_to_casadi(e3, f_dict={"foo": impl_ca["foo"]}, symbols={}, cse=True)
            st["cse"] += 1
            names = sorted(tab3)
            try:
                f3 = ca.Function("c", [tab3[k] for k in names], [ca.SX(c3)])
                v = float(f3.call([pt[k] for k in names])[0])
            except RuntimeError as ex:     # e.g. a temporary of sympy.cse left free in the result
                report("s2c:cse", "the cse=True path returns an expression that cannot be evaluated over its symbol table: " + str(ex)[-160:],
                       {"expr": sympy.srepr(e3), "table": names})
                continue
            w = complex(sympy.N(e3.replace(sympy.Function("foo"), impl_sym["foo"]).subs({s: sympy.Float(pt[s.name]) for s in xs})))
            if math.isfinite(v) and abs(w.imag) < 1e-12 and math.isfinite(w.real) and abs(v) < 1e8 and not close(v, w.real, 1e-8):
                report("s2c:cse", "the cse=True path changed the value", {"expr": sympy.srepr(e3), "point": pt, "casadi": v, "sympy": w.real})
            if any(k not in ("x", "y", "z") for k in tab3):
                report("s2c:cse-symbols", "cse=True leaves temporary symbols in the symbol table", {"expr": sympy.srepr(e3), "table": sorted(tab3)})
        except NotImplementedError:
            pass

    # ---------------- casadi -> sympy
    X = [ca.SX.sym(k) for k in ("x", "y", "z")]
    cases = [gen_casadi(rng, int(rng.integers(1, 5)), X) for _ in range(1200 if big else 220)]
    cases = [X[0] == X[1], X[0] != X[1], ca.fmod(X[0], X[1]), ca.remainder(X[0], X[1]), ca.remainder(X[0], ca.SX(3)), ca.if_else(X[0] == X[1], X[2], 1)] + cases
    lines = ["c2s " + c_read(e) for e in cases]
    replies = lean_replies(lines)
    tie_points = [{"x": 1.5, "y": 3.0, "z": 0.5}, {"x": 4.5, "y": 3.0, "z": -1.0}, {"x": -1.0, "y": 3.0, "z": 2.0}, {"x": 2.0, "y": 2.0, "z": 0.25}]
    for e, rep in zip(cases, replies):
        st["c2s_trees"] += 1
        inp = {"direction": "casadi_to_sympy", "expr": str(e)}
        try:
            syms = {}
            s_real = symb.casadi_to_sympy(e, syms)
            err = None
        except NotImplementedError:
            err = "NotImplementedError"
        except Exception as ex:   # noqa: BLE001
            err = type(ex).__name__
        if rep == "BAD-INPUT":
            ctx.fail("tie:model-input", "reader", inp); continue
        if (rep == "ERR") != (err is not None):
            st["model_mismatch"] += 1
            ctx.fail("tie:c2s:error-agreement", "correspondence", dict(inp, model=rep[:80], real_error=err))
            continue
        if err is not None:
            st["c2s_rejected"] += 1
            st.setdefault("reject_kinds", {}); st["reject_kinds"][err] = st["reject_kinds"].get(err, 0) + 1
            continue
        st["c2s_ok"] += 1
        if isinstance(s_real, bool):
            report("c2s:python-bool", "casadi_to_sympy returned a Python bool for a relation", inp, obligation="theorem:C19.c2s_sound")
            continue
        fn = ca.Function("f", X, [e])
        tree = parse(rep[3:])
        name2sym = {str(v): v for v in syms.values()}
        pts = [{k: float(rng.uniform(-2.5, 2.5)) for k in ("x", "y", "z")} for _ in range(2)] + [tie_points[int(rng.integers(len(tie_points)))]]
        for pt in pts:
            try:
                v_src = float(fn(pt["x"], pt["y"], pt["z"]))
                v_model = eval_tree(tree, pt, {})
                w = sympy.sympify(s_real).subs({name2sym[k]: sympy.Float(pt[k]) for k in name2sym})
                if w in (sympy.true, sympy.false):
                    w = 1.0 if w == sympy.true else 0.0
                else:
                    w = sympy.N(w)
                v_real = complex(w)
            except (ValueError, ZeroDivisionError, OverflowError, TypeError, RecursionError, AttributeError, NotImplementedError):
                st["skipped_points"] += 1; continue
            if not math.isfinite(v_src) or abs(v_src) > 1e8 or abs(v_real.imag) > 1e-12 or not math.isfinite(v_real.real):
                st["skipped_points"] += 1; continue
            st["points"] += 1
            if not close(v_real.real, v_model, 1e-8):
                st["model_mismatch"] += 1
                ctx.fail("tie:c2s:value", "correspondence", dict(inp, point=pt, real=v_real.real, model=v_model))
            if not close(v_real.real, v_src, 1e-8):
                report("c2s:value", "casadi_to_sympy changed the value of the expression", dict(inp, point=pt, sympy=v_real.real, casadi=v_src, result=str(s_real)),
                       abs(v_real.real - v_src), 1e-8, obligation="theorem:C19.c2s_sound")
    # matrices, casadi -> sympy: entry (i, j) of the result is the conversion of entry (i, j)
    for i in range(40 if big else 10):
        r_, c_ = int(rng.integers(1, 4)), int(rng.integers(1, 4))
        M = ca.SX(r_, c_)
        for a in range(r_):
            for b in range(c_):
                M[a, b] = gen_casadi(rng, 2, X) + (a + 1) * 10 + b
        try:
            syms = {}
            Ms = symb.casadi_to_sympy(M, syms)
        except Exception:   # noqa: BLE001
            continue
        st["matrices"] += 1
        name2sym = {str(v): v for v in syms.values()}
        pt = {k: float(rng.uniform(-2, 2)) for k in ("x", "y", "z")}
        fnm = ca.Function("m", X, [M])
        want = np.array(fnm(pt["x"], pt["y"], pt["z"])).reshape(r_, c_)
        try:
            if r_ * c_ == 1:
                got = np.array([[complex(sympy.N(sympy.sympify(Ms).subs({name2sym[k]: sympy.Float(pt[k]) for k in name2sym})))]])
            else:
                got = np.array(sympy.N(Ms.subs({name2sym[k]: sympy.Float(pt[k]) for k in name2sym})).tolist(), dtype=complex)
        except (TypeError, ValueError, AttributeError, RecursionError):
            continue
        if got.shape != want.shape or (np.all(np.isfinite(want)) and np.all(np.isfinite(got.real)) and np.max(np.abs(got - want)) > 1e-8 * (1 + np.max(np.abs(want)))):
            report("c2s:matrix", "casadi_to_sympy changed (or moved) an entry of a matrix", {"matrix": str(M), "point": pt, "sympy": got.real.tolist(), "casadi": want.tolist()})
    # symbol table of casadi_to_sympy
    syms = {}
    a = symb.casadi_to_sympy(X[0] + X[1] * X[0], syms); b = symb.casadi_to_sympy(ca.sin(X[0]) + X[2], syms)
    if len(syms) != 3 or len((a.free_symbols | b.free_symbols)) != 3:
        report("c2s:symbols", "casadi_to_sympy symbol table is inconsistent", {"table": str(syms)})
    ctx.samples.extend(found[:3] or [{"sympy": lines[5][:200]}, {"reply": replies[5][:200]}])
    st["evaluations"] = st["s2c_trees"] + st["c2s_trees"] + st["points"]
    st["distinct_nontrivial"] = len(set(lines)) + st["points"]
    ctx.extra["tie"] = {"functions": 2, "requests": st["s2c_trees"] + st["c2s_trees"], "mismatching_functions": int(st["model_mismatch"] > 0), "max_ulp": 0.0}
    return found, st


def replay(payload):
    class C:
        seed = 0; tier = "quick"; samples = []; notes = []; extra = {}; failed = []
        def fail(self, *a): self.failed.append(a)
    found, _ = search(C())
    cases = {v.get("case") for v in payload.get("violations", [])}
    hit = [z for z in found if z["case"] in cases]
    for z in hit:
        print("reproduced:", z["case"], z["what"])
    return not hit
