"""C16 — the quadrotor model obeys rigid-body physics invariants."""
from __future__ import annotations

import numpy as np

import numlib as nl

ID = "C16"
MODULES = ["Quad"]
LEAN_TARGETS = ["Props.C16", "Props.C16E"]
ANCHORS = ["cyecca/models/quadrotor.py", "cyecca/lie/group_so3.py"]
MISSING = []

P = {"tau_up": 0, "tau_down": 1, "dir": slice(2, 6), "l": slice(6, 10), "theta": slice(10, 14), "CT": 14, "CM": 15,
     "Cl_p": 16, "Cm_q": 17, "Cn_r": 18, "CD0": 19, "S": 20, "rho": 21, "g": 22, "m": 23, "Jx": 24, "Jy": 25, "Jz": 26}


def relevant(fn):
    return True


def default_p():
    import cyecca.models.quadrotor as q
    m = q.derive_model()
    return np.array(list(m["p_defaults"].values()), float)


def rand_p(rng):
    p = np.zeros(39)
    p[0], p[1] = rng.uniform(0.005, 0.1), rng.uniform(0.005, 0.1)
    p[P["dir"]] = rng.choice([-1.0, 1.0], 4)
    p[P["l"]] = rng.uniform(0.1, 0.5, 4)
    p[P["theta"]] = rng.uniform(-np.pi, np.pi, 4)
    p[14], p[15] = rng.uniform(1e-6, 1e-4), rng.uniform(0.005, 0.05)
    p[16:19] = rng.standard_normal(3) * 0.1
    p[19], p[20], p[21] = rng.uniform(0, 1), rng.uniform(0.01, 0.5), rng.uniform(1, 1.3)
    p[22], p[23] = rng.uniform(1, 20), rng.uniform(0.3, 5)
    p[24:27] = rng.uniform(0.005, 0.1, 3)
    return p


def rand_x(rng, above=True):
    x = np.zeros(17)
    x[0:3] = rng.standard_normal(3) * 3
    x[2] = abs(x[2]) + 0.1 if above else -abs(x[2]) - 0.01
    x[3:6] = rng.standard_normal(3) * 2
    x[6:10] = nl.unit_quat(rng)
    x[10:13] = rng.standard_normal(3)
    x[13:17] = rng.uniform(0, 1500, 4)
    return x


def spec_xdot(x, u, p):
    """independent numpy rigid-body model (the H-spec): sum over rotors"""
    pos, v, q, w, wm = x[0:3], x[3:6], x[6:10], x[10:13], x[13:17]
    R = nl.quat_to_R(q)
    m, g = p[23], p[22]
    J = np.diag(p[24:27])
    z = np.array([0, 0, 1.0])
    F = np.zeros(3); M = np.zeros(3)
    vw = R @ v
    if pos[2] < 0:
        F += R.T @ (-1000 * pos[2] * z - 1000 * vw)
    V = np.linalg.norm(v)
    wX = v / V if V > 1e-5 else np.array([1.0, 0, 0])
    F += -p[19] * 0.5 * p[21] * V ** 2 * p[20] * wX
    for i in range(4):
        T = p[14] * wm[i] ** 2
        r = p[6 + i] * np.array([np.cos(p[10 + i]), np.sin(p[10 + i]), 0])
        F += T * z
        M += np.cross(r, T * z) - p[15] * p[2 + i] * T * z + np.array([p[16] * w[0], p[17] * w[1], p[18] * w[2]]) * p[20] * p[6 + i]
    a_b = F / m
    F = F + R.T @ (-m * g * z)
    wd = np.linalg.solve(J, M - np.cross(w, J @ w))
    qd = 0.5 * np.array([-q[1:] @ w, *(q[0] * w + np.cross(q[1:], w))])
    vd = F / m - np.cross(w, v)
    md = np.array([(u[i] - wm[i]) / (p[0] if u[i] - wm[i] > 0 else p[1]) for i in range(4)])
    return np.concatenate([vw, vd, qd, wd, md]), a_b


def search(ctx):
    rng = np.random.default_rng(ctx.seed + 1616)
    f = nl.F("Quad", "quadrotor.f"); ga = nl.F("Quad", "quadrotor.g_accel"); gg = nl.F("Quad", "quadrotor.g_gyro")
    found = []
    ev = 0

    def report(case, what, inputs, err, tol):
        if not any(z["case"] == case for z in found):
            found.append({"case": case, "what": what, "inputs": inputs, "error": float(err), "tolerance": tol,
                          "obligation": "search:" + case})
    n = 60 if ctx.tier == "quick" else 2000
    pd = default_p()
    for it in range(n):
        p = pd.copy() if it % 3 == 0 else rand_p(rng)
        x = rand_x(rng, above=(it % 4 != 0))
        if it % 11 == 5:
            x[2] = 0.0      # altitude exactly zero with a non-zero velocity
        if it % 7 == 0:
            x[3:6] = 0   # zero airspeed branch
        u = x[13:17] + rng.standard_normal(4) * 50 * (it % 2)
        xd = np.atleast_1d(f(x, u, p)); ev += 1
        ref, a_ref = spec_xdot(x, u, p)
        sc = 1 + np.max(np.abs(ref))
        inp = {"x": x.tolist(), "u": u.tolist(), "p": p.tolist()}
        if not np.max(np.abs(xd - ref)) <= 1e-8 * sc:
            k = int(np.argmax(np.abs(xd - ref)))
            report("newton_euler:%d" % k, "state derivative component %d differs from the rigid-body sum over rotors" % k, inp,
                   np.max(np.abs(xd - ref)), 1e-8 * sc)
        d = abs(x[6:10] @ xd[6:10])
        if not d <= 1e-10 * (1 + np.max(np.abs(x[10:13]))):
            report("quat_norm", "q . q' != 0", inp, d, 1e-10)
        a = np.atleast_1d(ga(x, u, p, np.zeros(3), 0.01))
        if not np.max(np.abs(a - a_ref)) <= 1e-8 * (1 + np.max(np.abs(a_ref))):
            report("accel", "accelerometer is not specific force F/m (without gravity)", inp, np.max(np.abs(a - a_ref)), 1e-8)
        gy = np.atleast_1d(gg(x, u, p, np.zeros(3), 0.01))
        if not np.max(np.abs(gy - x[10:13])) <= 1e-12:
            report("gyro", "noise-free gyro is not the body rate", inp, np.max(np.abs(gy - x[10:13])), 1e-12)
        # motors: sign and time constant
        for i in range(4):
            e = u[i] - x[13 + i]
            want = e / (p[0] if e > 0 else p[1])
            if not abs(xd[13 + i] - want) <= 1e-9 * (1 + abs(want)):
                report("motor", "motor does not relax with the spin-up/down time constant", inp, abs(xd[13 + i] - want), 1e-9)
        # equivariance
        psi = rng.uniform(-np.pi, np.pi); t = rng.standard_normal(2) * 5
        Rz = np.array([[np.cos(psi), -np.sin(psi), 0], [np.sin(psi), np.cos(psi), 0], [0, 0, 1]])
        qz = np.array([np.cos(psi / 2), 0, 0, np.sin(psi / 2)])
        x2 = x.copy()
        x2[0:3] = Rz @ x[0:3] + np.array([t[0], t[1], 0])
        a0, b0 = qz, x[6:10]
        x2[6:10] = np.array([a0[0]*b0[0]-a0[1:]@b0[1:], *(a0[0]*b0[1:]+b0[0]*a0[1:]+np.cross(a0[1:], b0[1:]))])
        xd2 = np.atleast_1d(f(x2, u, p)); ev += 1
        want = xd.copy(); want[0:3] = Rz @ xd[0:3]
        b1 = xd[6:10]
        want[6:10] = np.array([a0[0]*b1[0]-a0[1:]@b1[1:], *(a0[0]*b1[1:]+b1[0]*a0[1:]+np.cross(a0[1:], b1[1:]))])
        if not np.max(np.abs(xd2 - want)) <= 1e-7 * sc:
            report("equivariance", "not equivariant under horizontal translation + yaw of the world frame", inp,
                   np.max(np.abs(xd2 - want)), 1e-7 * sc)
    # hover equilibrium, defaults and random symmetric frames
    for it in range(20 if ctx.tier == "quick" else 300):
        p = pd.copy() if it == 0 else rand_p(rng)
        if it > 0:
            L = rng.uniform(0.1, 0.5); beta = rng.uniform(0.2, 1.3)
            p[P["l"]] = L
            p[P["theta"]] = np.array([-beta, np.pi - beta, beta, beta - np.pi])
            p[P["dir"]] = np.array([1, 1, -1, -1.0]) * rng.choice([-1, 1])
        x = np.zeros(17); x[6] = 1; x[0:3] = [1.0, -2.0, 3.0]
        w_h = np.sqrt(p[23] * p[22] / (4 * p[14]))
        x[13:17] = w_h
        xd = np.atleast_1d(f(x, x[13:17], p)); ev += 1
        if not np.max(np.abs(xd)) <= 1e-9 * (1 + p[22]):
            report("hover", "level hover with a quarter of the weight per rotor is not an equilibrium",
                   {"p": p.tolist(), "x": x.tolist(), "xdot": xd.tolist()}, np.max(np.abs(xd)), 1e-9)
        # free fall
        x = rand_x(rng); x[13:17] = 0; p2 = p.copy(); p2[19] = 0
        if it % 3 == 1:
            x[2] = 0.0      # exactly on the ground plane (the default initial altitude), moving: touching is not penetrating
        a = np.atleast_1d(ga(x, np.zeros(4), p2, np.zeros(3), 0.01)); ev += 1
        if not np.max(np.abs(a)) <= 1e-12:
            report("freefall", "accelerometer not zero in free fall", {"x": x.tolist(), "p": p2.tolist()}, np.max(np.abs(a)), 1e-12)
    ctx.samples.extend(found[:3] or [{"x": rand_x(rng).round(3).tolist()}])
    return found, {"evaluations": ev, "distinct_nontrivial": n}


def replay(payload):
    class C:
        seed = 0; tier = "quick"; samples = []; notes = []
    found, _ = search(C())
    cases = {v.get("case") for v in payload.get("violations", [])}
    hit = [z for z in found if z["case"] in cases]
    for z in hit:
        print("reproduced:", z["case"], z["what"], z["error"])
    return not hit
